/-
C03 — exact masks give the true pixel-region overlap area  (PARTIAL, see DESIGN §5/§7).

Theorems over ℝ about the real-number instance `Gen.CircleExactReal` of the circle 'exact'
kernel (regenerated from the template on every run; the `Float` instance of the SAME text is
what the driver executes and compares with the compiled kernel):

* the quadrant recursion terminates (fuel 2 suffices for every input);
* a pixel wholly inside the disk gets exactly its own area, hence mask value exactly `1`;
  a pixel wholly outside gets exactly `0` — through every branch (skip box, fast paths,
  quadrant recursion);
* the two decisive branches of `circular_overlap_core` are geometrically sound.

NOT proved: that the arc + triangle expressions of the mixed branches, and the
triangle/unit-circle routine of the ellipse kernel, equal the Lebesgue measure of the
intersection (hence also "in [0,1]" for mixed pixels, the sum = π r² and the O(1/n) convergence
bound).  Those claims are validated by the differential run against an independent
closed-form integration oracle evaluated with 50 digits.
-/
import RegionsVerif.Gen.CircleExactReal
import Mathlib.Tactic.Linarith
import Mathlib.Tactic.Ring
import Mathlib.Tactic.FieldSimp
import Mathlib.Tactic.NormNum

namespace RegionsVerif.Props.C03
open RegionsVerif.Gen.CircleExactReal

/-! ### the two decisive branches of `circular_overlap_core` -/

/-- nearest corner outside ⇒ `0`, and indeed no point of the (first-quadrant) rectangle is in
the open disk. -/
theorem core_empty_sound (xmin ymin xmax ymax r : ℝ) (hx : 0 ≤ xmin) (hy : 0 ≤ ymin)
    (h : xmin * xmin + ymin * ymin > r * r) :
    core xmin ymin xmax ymax r = 0 ∧ ∀ x y, xmin ≤ x → ymin ≤ y → r * r < x * x + y * y := by
  constructor
  · unfold core; rw [if_pos h]
  · intro x y h1 h2; nlinarith

/-- farthest corner inside ⇒ the rectangle's own area, and indeed every point of the rectangle
is in the open disk. -/
theorem core_full_sound (xmin ymin xmax ymax r : ℝ) (hx : 0 ≤ xmin) (hy : 0 ≤ ymin)
    (hxx : xmin ≤ xmax) (hyy : ymin ≤ ymax) (h : xmax * xmax + ymax * ymax < r * r) :
    core xmin ymin xmax ymax r = (xmax - xmin) * (ymax - ymin) ∧
    ∀ x y, xmin ≤ x → x ≤ xmax → ymin ≤ y → y ≤ ymax → x * x + y * y < r * r := by
  constructor
  · unfold core
    rw [if_neg (by nlinarith), if_pos h]
  · intro x y h1 h2 h3 h4; nlinarith

/-! ### the quadrant recursion -/

theorem single_q1 (n : Nat) (xmin ymin xmax ymax r : ℝ) (hx : 0 ≤ xmin) (hy : 0 ≤ ymin) :
    singleExact (n + 1) xmin ymin xmax ymax r = some (core xmin ymin xmax ymax r) := by
  simp only [singleExact, if_pos hx, if_pos hy]

theorem single_q4 (n : Nat) (xmin ymin xmax ymax r : ℝ) (hx : 0 ≤ xmin) (hy : ¬ 0 ≤ ymin)
    (hy2 : 0 ≥ ymax) :
    singleExact (n + 1) xmin ymin xmax ymax r = some (core (-ymax) xmin (-ymin) xmax r) := by
  simp only [singleExact, if_pos hx, if_neg hy, if_pos hy2]

theorem single_q2 (n : Nat) (xmin ymin xmax ymax r : ℝ) (hx : ¬ 0 ≤ xmin) (hx2 : 0 ≥ xmax)
    (hy : 0 ≤ ymin) :
    singleExact (n + 1) xmin ymin xmax ymax r = some (core (-xmax) ymin (-xmin) ymax r) := by
  simp only [singleExact, if_neg hx, if_pos hx2, if_pos hy]

theorem single_q3 (n : Nat) (xmin ymin xmax ymax r : ℝ) (hx : ¬ 0 ≤ xmin) (hx2 : 0 ≥ xmax)
    (hy : ¬ 0 ≤ ymin) (hy2 : 0 ≥ ymax) :
    singleExact (n + 1) xmin ymin xmax ymax r = some (core (-xmax) (-ymax) (-xmin) (-ymin) r) := by
  simp only [singleExact, if_neg hx, if_pos hx2, if_neg hy, if_pos hy2]

/-- a rectangle that does not straddle an axis is handled without recursion. -/
theorem single_definite (n : Nat) (xmin ymin xmax ymax r : ℝ)
    (hx : 0 ≤ xmin ∨ 0 ≥ xmax) (hy : 0 ≤ ymin ∨ 0 ≥ ymax) :
    (singleExact (n + 1) xmin ymin xmax ymax r).isSome = true := by
  by_cases h1 : 0 ≤ xmin <;> by_cases h2 : 0 ≤ ymin
  · rw [single_q1 n _ _ _ _ _ h1 h2]; rfl
  · rw [single_q4 n _ _ _ _ _ h1 h2 (by tauto)]; rfl
  · rw [single_q2 n _ _ _ _ _ h1 (by tauto) h2]; rfl
  · rw [single_q3 n _ _ _ _ _ h1 (by tauto) h2 (by tauto)]; rfl

/-- **the recursion terminates**: two levels suffice for every input whatsoever (each
recursive call is made on a rectangle cut at the axes, hence sign-definite). -/
theorem single_terminates (n : Nat) (xmin ymin xmax ymax r : ℝ) :
    (singleExact (n + 2) xmin ymin xmax ymax r).isSome = true := by
  have d := fun a b c e (hx : 0 ≤ a ∨ 0 ≥ c) (hy : 0 ≤ b ∨ 0 ≥ e) => single_definite n a b c e r hx hy
  by_cases h1 : 0 ≤ xmin
  · by_cases h2 : 0 ≤ ymin
    · exact single_definite (n + 1) _ _ _ _ _ (Or.inl h1) (Or.inl h2)
    · by_cases h3 : 0 ≥ ymax
      · exact single_definite (n + 1) _ _ _ _ _ (Or.inl h1) (Or.inr h3)
      · simp only [singleExact, if_pos h1, if_neg h2, if_neg h3]
        have a := d xmin ymin xmax 0 (Or.inl h1) (Or.inr le_rfl)
        have b := d xmin 0 xmax ymax (Or.inl h1) (Or.inl le_rfl)
        revert a b
        cases singleExact (n + 1) xmin ymin xmax 0 r <;> cases singleExact (n + 1) xmin 0 xmax ymax r <;> simp
  · by_cases h1' : 0 ≥ xmax
    · by_cases h2 : 0 ≤ ymin
      · exact single_definite (n + 1) _ _ _ _ _ (Or.inr h1') (Or.inl h2)
      · by_cases h3 : 0 ≥ ymax
        · exact single_definite (n + 1) _ _ _ _ _ (Or.inr h1') (Or.inr h3)
        · simp only [singleExact, if_neg h1, if_pos h1', if_neg h2, if_neg h3]
          have a := d xmin ymin xmax 0 (Or.inr h1') (Or.inr le_rfl)
          have b := d xmin 0 xmax ymax (Or.inr h1') (Or.inl le_rfl)
          revert a b
          cases singleExact (n + 1) xmin ymin xmax 0 r <;> cases singleExact (n + 1) xmin 0 xmax ymax r <;> simp
    · by_cases h2 : 0 ≤ ymin
      · simp only [singleExact, if_neg h1, if_neg h1', if_pos h2]
        have a := d xmin ymin 0 ymax (Or.inr le_rfl) (Or.inl h2)
        have b := d 0 ymin xmax ymax (Or.inl le_rfl) (Or.inl h2)
        revert a b
        cases singleExact (n + 1) xmin ymin 0 ymax r <;> cases singleExact (n + 1) 0 ymin xmax ymax r <;> simp
      · by_cases h3 : 0 ≥ ymax
        · simp only [singleExact, if_neg h1, if_neg h1', if_neg h2, if_pos h3]
          have a := d xmin ymin 0 ymax (Or.inr le_rfl) (Or.inr h3)
          have b := d 0 ymin xmax ymax (Or.inl le_rfl) (Or.inr h3)
          revert a b
          cases singleExact (n + 1) xmin ymin 0 ymax r <;> cases singleExact (n + 1) 0 ymin xmax ymax r <;> simp
        · simp only [singleExact, if_neg h1, if_neg h1', if_neg h2, if_neg h3]
          have a := d xmin ymin 0 0 (Or.inr le_rfl) (Or.inr le_rfl)
          have b := d 0 ymin xmax 0 (Or.inl le_rfl) (Or.inr le_rfl)
          have c := d xmin 0 0 ymax (Or.inr le_rfl) (Or.inl le_rfl)
          have e := d 0 0 xmax ymax (Or.inl le_rfl) (Or.inl le_rfl)
          revert a b c e
          cases singleExact (n + 1) xmin ymin 0 0 r <;> cases singleExact (n + 1) 0 ymin xmax 0 r <;>
            cases singleExact (n + 1) xmin 0 0 ymax r <;> cases singleExact (n + 1) 0 0 xmax ymax r <;> simp

/-! ### whole pixels: exactly the pixel area when covered, exactly 0 when uncovered -/

/-- every point of the rectangle is in the open disk. -/
def Covered (xmin ymin xmax ymax r : ℝ) : Prop :=
  ∀ x y, xmin ≤ x → x ≤ xmax → ymin ≤ y → y ≤ ymax → x * x + y * y < r * r

/-- no point of the rectangle is in the closed disk. -/
def Uncovered (xmin ymin xmax ymax r : ℝ) : Prop :=
  ∀ x y, xmin ≤ x → x ≤ xmax → ymin ≤ y → y ≤ ymax → r * r < x * x + y * y

theorem definite_full (n : Nat) (xmin ymin xmax ymax r : ℝ) (hxx : xmin ≤ xmax) (hyy : ymin ≤ ymax)
    (hx : 0 ≤ xmin ∨ 0 ≥ xmax) (hy : 0 ≤ ymin ∨ 0 ≥ ymax) (hc : Covered xmin ymin xmax ymax r) :
    singleExact (n + 1) xmin ymin xmax ymax r = some ((xmax - xmin) * (ymax - ymin)) := by
  unfold Covered at hc
  by_cases h1 : 0 ≤ xmin <;> by_cases h2 : 0 ≤ ymin
  · rw [single_q1 n _ _ _ _ _ h1 h2,
        (core_full_sound xmin ymin xmax ymax r h1 h2 hxx hyy (hc xmax ymax hxx le_rfl hyy le_rfl)).1]
  · have h3 : 0 ≥ ymax := by tauto
    rw [single_q4 n _ _ _ _ _ h1 h2 h3,
        (core_full_sound (-ymax) xmin (-ymin) xmax r (by linarith) h1 (by linarith) hxx
          (by have := hc xmax ymin hxx le_rfl le_rfl hyy; nlinarith)).1]
    congr 1; ring
  · have h3 : 0 ≥ xmax := by tauto
    rw [single_q2 n _ _ _ _ _ h1 h3 h2,
        (core_full_sound (-xmax) ymin (-xmin) ymax r (by linarith) h2 (by linarith) hyy
          (by have := hc xmin ymax le_rfl hxx hyy le_rfl; nlinarith)).1]
    congr 1; ring
  · have h3 : 0 ≥ xmax := by tauto
    have h4 : 0 ≥ ymax := by tauto
    rw [single_q3 n _ _ _ _ _ h1 h3 h2 h4,
        (core_full_sound (-xmax) (-ymax) (-xmin) (-ymin) r (by linarith) (by linarith) (by linarith)
          (by linarith) (by have := hc xmin ymin le_rfl hxx le_rfl hyy; nlinarith)).1]
    congr 1; ring

theorem definite_empty (n : Nat) (xmin ymin xmax ymax r : ℝ) (hxx : xmin ≤ xmax) (hyy : ymin ≤ ymax)
    (hx : 0 ≤ xmin ∨ 0 ≥ xmax) (hy : 0 ≤ ymin ∨ 0 ≥ ymax) (hu : Uncovered xmin ymin xmax ymax r) :
    singleExact (n + 1) xmin ymin xmax ymax r = some 0 := by
  unfold Uncovered at hu
  by_cases h1 : 0 ≤ xmin <;> by_cases h2 : 0 ≤ ymin
  · rw [single_q1 n _ _ _ _ _ h1 h2,
        (core_empty_sound xmin ymin xmax ymax r h1 h2 (hu xmin ymin le_rfl hxx le_rfl hyy)).1]
  · have h3 : 0 ≥ ymax := by tauto
    rw [single_q4 n _ _ _ _ _ h1 h2 h3,
        (core_empty_sound (-ymax) xmin (-ymin) xmax r (by linarith) h1
          (by have := hu xmin ymax le_rfl hxx hyy le_rfl; nlinarith)).1]
  · have h3 : 0 ≥ xmax := by tauto
    rw [single_q2 n _ _ _ _ _ h1 h3 h2,
        (core_empty_sound (-xmax) ymin (-xmin) ymax r (by linarith) h2
          (by have := hu xmax ymin hxx le_rfl le_rfl hyy; nlinarith)).1]
  · have h3 : 0 ≥ xmax := by tauto
    have h4 : 0 ≥ ymax := by tauto
    rw [single_q3 n _ _ _ _ _ h1 h3 h2 h4,
        (core_empty_sound (-xmax) (-ymax) (-xmin) (-ymin) r (by linarith) (by linarith)
          (by have := hu xmax ymax hxx le_rfl hyy le_rfl; nlinarith)).1]

theorem covered_sub (xmin ymin xmax ymax r a b c d : ℝ) (h : Covered xmin ymin xmax ymax r)
    (h1 : xmin ≤ a) (h2 : c ≤ xmax) (h3 : ymin ≤ b) (h4 : d ≤ ymax) : Covered a b c d r := by
  intro x y k1 k2 k3 k4
  exact h x y (by linarith) (by linarith) (by linarith) (by linarith)

theorem uncovered_sub (xmin ymin xmax ymax r a b c d : ℝ) (h : Uncovered xmin ymin xmax ymax r)
    (h1 : xmin ≤ a) (h2 : c ≤ xmax) (h3 : ymin ≤ b) (h4 : d ≤ ymax) : Uncovered a b c d r := by
  intro x y k1 k2 k3 k4
  exact h x y (by linarith) (by linarith) (by linarith) (by linarith)

/-- `a + b` on optional results. -/
def optAdd (a b : Option ℝ) : Option ℝ :=
  match a, b with
  | some u, some v => some (u + v)
  | _, _ => none

theorem optAdd_some (u v : ℝ) : optAdd (some u) (some v) = some (u + v) := rfl

/-- the straddling cases unfold to sums of the axis-cut halves / quarters. -/
theorem single_sy_pos (n : Nat) (xmin ymin xmax ymax r : ℝ) (hx : 0 ≤ xmin) (hy : ¬ 0 ≤ ymin)
    (hy2 : ¬ 0 ≥ ymax) :
    singleExact (n + 1) xmin ymin xmax ymax r =
      optAdd (singleExact n xmin ymin xmax 0 r) (singleExact n xmin 0 xmax ymax r) := by
  simp only [singleExact, if_pos hx, if_neg hy, if_neg hy2]; rfl

theorem single_sy_neg (n : Nat) (xmin ymin xmax ymax r : ℝ) (hx : ¬ 0 ≤ xmin) (hx2 : 0 ≥ xmax)
    (hy : ¬ 0 ≤ ymin) (hy2 : ¬ 0 ≥ ymax) :
    singleExact (n + 1) xmin ymin xmax ymax r =
      optAdd (singleExact n xmin ymin xmax 0 r) (singleExact n xmin 0 xmax ymax r) := by
  simp only [singleExact, if_neg hx, if_pos hx2, if_neg hy, if_neg hy2]; rfl

theorem single_sx_pos (n : Nat) (xmin ymin xmax ymax r : ℝ) (hx : ¬ 0 ≤ xmin) (hx2 : ¬ 0 ≥ xmax)
    (hy : 0 ≤ ymin) :
    singleExact (n + 1) xmin ymin xmax ymax r =
      optAdd (singleExact n xmin ymin 0 ymax r) (singleExact n 0 ymin xmax ymax r) := by
  simp only [singleExact, if_neg hx, if_neg hx2, if_pos hy]; rfl

theorem single_sx_neg (n : Nat) (xmin ymin xmax ymax r : ℝ) (hx : ¬ 0 ≤ xmin) (hx2 : ¬ 0 ≥ xmax)
    (hy : ¬ 0 ≤ ymin) (hy2 : 0 ≥ ymax) :
    singleExact (n + 1) xmin ymin xmax ymax r =
      optAdd (singleExact n xmin ymin 0 ymax r) (singleExact n 0 ymin xmax ymax r) := by
  simp only [singleExact, if_neg hx, if_neg hx2, if_neg hy, if_pos hy2]; rfl

theorem single_sxy (n : Nat) (xmin ymin xmax ymax r : ℝ) (hx : ¬ 0 ≤ xmin) (hx2 : ¬ 0 ≥ xmax)
    (hy : ¬ 0 ≤ ymin) (hy2 : ¬ 0 ≥ ymax) :
    singleExact (n + 1) xmin ymin xmax ymax r =
      optAdd (optAdd (singleExact n xmin ymin 0 0 r) (singleExact n 0 ymin xmax 0 r))
             (optAdd (singleExact n xmin 0 0 ymax r) (singleExact n 0 0 xmax ymax r)) := by
  simp only [singleExact, if_neg hx, if_neg hx2, if_neg hy, if_neg hy2]; rfl

/-- generic form of both whole-pixel theorems: if every axis-cut sub-rectangle evaluates to
`f` of its corners and `f` is additive over the cuts, the recursion returns `f` of the whole. -/
theorem single_additive (n : Nat) (xmin ymin xmax ymax r : ℝ) (hxx : xmin ≤ xmax) (hyy : ymin ≤ ymax)
    (f : ℝ → ℝ → ℝ → ℝ → ℝ)
    (hdef : ∀ a b c d, xmin ≤ a → a ≤ c → c ≤ xmax → ymin ≤ b → b ≤ d → d ≤ ymax →
      (0 ≤ a ∨ 0 ≥ c) → (0 ≤ b ∨ 0 ≥ d) → singleExact (n + 1) a b c d r = some (f a b c d))
    (haddx : ∀ a b c d m, f a b m d + f m b c d = f a b c d)
    (haddy : ∀ a b c d m, f a b c m + f a m c d = f a b c d) :
    singleExact (n + 2) xmin ymin xmax ymax r = some (f xmin ymin xmax ymax) := by
  by_cases h1 : 0 ≤ xmin
  · by_cases h2 : 0 ≤ ymin
    · have := hdef xmin ymin xmax ymax le_rfl hxx le_rfl le_rfl hyy le_rfl (Or.inl h1) (Or.inl h2)
      rw [single_q1 (n + 1) _ _ _ _ _ h1 h2]
      rw [single_q1 n _ _ _ _ _ h1 h2] at this
      exact this
    · by_cases h3 : 0 ≥ ymax
      · have := hdef xmin ymin xmax ymax le_rfl hxx le_rfl le_rfl hyy le_rfl (Or.inl h1) (Or.inr h3)
        rw [single_q4 (n + 1) _ _ _ _ _ h1 h2 h3]
        rw [single_q4 n _ _ _ _ _ h1 h2 h3] at this
        exact this
      · have hy0 : ymin ≤ 0 := by linarith [not_le.mp h2]
        have hy1 : 0 ≤ ymax := by linarith [not_le.mp h3]
        have a := hdef xmin ymin xmax 0 le_rfl hxx le_rfl le_rfl hy0 hy1 (Or.inl h1) (Or.inr le_rfl)
        have b := hdef xmin 0 xmax ymax le_rfl hxx le_rfl hy0 hy1 le_rfl (Or.inl h1) (Or.inl le_rfl)
        rw [single_sy_pos (n + 1) _ _ _ _ _ h1 h2 h3, a, b, optAdd_some, haddy]
  · have hx0 : xmin ≤ 0 := by linarith [not_le.mp h1]
    by_cases h1' : 0 ≥ xmax
    · by_cases h2 : 0 ≤ ymin
      · have := hdef xmin ymin xmax ymax le_rfl hxx le_rfl le_rfl hyy le_rfl (Or.inr h1') (Or.inl h2)
        rw [single_q2 (n + 1) _ _ _ _ _ h1 h1' h2]
        rw [single_q2 n _ _ _ _ _ h1 h1' h2] at this
        exact this
      · by_cases h3 : 0 ≥ ymax
        · have := hdef xmin ymin xmax ymax le_rfl hxx le_rfl le_rfl hyy le_rfl (Or.inr h1') (Or.inr h3)
          rw [single_q3 (n + 1) _ _ _ _ _ h1 h1' h2 h3]
          rw [single_q3 n _ _ _ _ _ h1 h1' h2 h3] at this
          exact this
        · have hy0 : ymin ≤ 0 := by linarith [not_le.mp h2]
          have hy1 : 0 ≤ ymax := by linarith [not_le.mp h3]
          have a := hdef xmin ymin xmax 0 le_rfl hxx le_rfl le_rfl hy0 hy1 (Or.inr h1') (Or.inr le_rfl)
          have b := hdef xmin 0 xmax ymax le_rfl hxx le_rfl hy0 hy1 le_rfl (Or.inr h1') (Or.inl le_rfl)
          rw [single_sy_neg (n + 1) _ _ _ _ _ h1 h1' h2 h3, a, b, optAdd_some, haddy]
    · have hx1 : 0 ≤ xmax := by linarith [not_le.mp h1']
      by_cases h2 : 0 ≤ ymin
      · have a := hdef xmin ymin 0 ymax le_rfl hx0 hx1 le_rfl hyy le_rfl (Or.inr le_rfl) (Or.inl h2)
        have b := hdef 0 ymin xmax ymax hx0 hx1 le_rfl le_rfl hyy le_rfl (Or.inl le_rfl) (Or.inl h2)
        rw [single_sx_pos (n + 1) _ _ _ _ _ h1 h1' h2, a, b, optAdd_some, haddx]
      · by_cases h3 : 0 ≥ ymax
        · have a := hdef xmin ymin 0 ymax le_rfl hx0 hx1 le_rfl hyy le_rfl (Or.inr le_rfl) (Or.inr h3)
          have b := hdef 0 ymin xmax ymax hx0 hx1 le_rfl le_rfl hyy le_rfl (Or.inl le_rfl) (Or.inr h3)
          rw [single_sx_neg (n + 1) _ _ _ _ _ h1 h1' h2 h3, a, b, optAdd_some, haddx]
        · have hy0 : ymin ≤ 0 := by linarith [not_le.mp h2]
          have hy1 : 0 ≤ ymax := by linarith [not_le.mp h3]
          have a := hdef xmin ymin 0 0 le_rfl hx0 hx1 le_rfl hy0 hy1 (Or.inr le_rfl) (Or.inr le_rfl)
          have b := hdef 0 ymin xmax 0 hx0 hx1 le_rfl le_rfl hy0 hy1 (Or.inl le_rfl) (Or.inr le_rfl)
          have c := hdef xmin 0 0 ymax le_rfl hx0 hx1 hy0 hy1 le_rfl (Or.inr le_rfl) (Or.inl le_rfl)
          have e := hdef 0 0 xmax ymax hx0 hx1 le_rfl hy0 hy1 le_rfl (Or.inl le_rfl) (Or.inl le_rfl)
          rw [single_sxy (n + 1) _ _ _ _ _ h1 h1' h2 h3, a, b, c, e, optAdd_some, optAdd_some, optAdd_some,
              haddx, haddx, haddy]

/-- **a pixel wholly inside the disk gets exactly its own area.** -/
theorem single_covered (n : Nat) (xmin ymin xmax ymax r : ℝ) (hxx : xmin ≤ xmax) (hyy : ymin ≤ ymax)
    (hc : Covered xmin ymin xmax ymax r) :
    singleExact (n + 2) xmin ymin xmax ymax r = some ((xmax - xmin) * (ymax - ymin)) := by
  apply single_additive n xmin ymin xmax ymax r hxx hyy (fun a b c d => (c - a) * (d - b))
  · intro a b c d h1 h2 h3 h4 h5 h6 hx hy
    exact definite_full n a b c d r h2 h5 hx hy (covered_sub _ _ _ _ _ _ _ _ _ hc h1 h3 h4 h6)
  · intro a b c d m; ring
  · intro a b c d m; ring

/-- **a pixel wholly outside the disk gets exactly 0.** -/
theorem single_uncovered (n : Nat) (xmin ymin xmax ymax r : ℝ) (hxx : xmin ≤ xmax) (hyy : ymin ≤ ymax)
    (hu : Uncovered xmin ymin xmax ymax r) :
    singleExact (n + 2) xmin ymin xmax ymax r = some 0 := by
  apply single_additive n xmin ymin xmax ymax r hxx hyy (fun _ _ _ _ => 0)
  · intro a b c d h1 h2 h3 h4 h5 h6 hx hy
    exact definite_empty n a b c d r h2 h5 hx hy (uncovered_sub _ _ _ _ _ _ _ _ _ hu h1 h3 h4 h6)
  · intro a b c d m; ring
  · intro a b c d m; ring

/-! ### the grid cell in 'exact' mode -/

/-- **fully covered pixels are exactly 1** — whichever branch of the grid loop handles them. -/
theorem exact_one_of_covered (pxmin pymin dx dy r : ℝ) (hdx : 0 < dx) (hdy : 0 < dy) (hr : 0 < r)
    (hc : Covered pxmin pymin (pxmin + dx) (pymin + dy) r) :
    exactCell pxmin pymin dx dy r = some 1 := by
  have c1 := hc pxmin pymin le_rfl (by linarith) le_rfl (by linarith)
  have c2 := hc (pxmin + dx) (pymin + dy) (by linarith) le_rfl (by linarith) le_rfl
  have c3 := hc (pxmin + dx * 0.5) (pymin + dy * 0.5) (by nlinarith) (by nlinarith) (by nlinarith) (by nlinarith)
  have b1 : -r < pxmin + dx := by nlinarith
  have b2 : pxmin < r := by nlinarith
  have b3 : -r < pymin + dy := by nlinarith
  have b4 : pymin < r := by nlinarith
  have hpr : 0 ≤ 0.5 * Real.sqrt (dx * dx + dy * dy) := by positivity
  have hd : Real.sqrt ((pxmin + dx * 0.5) * (pxmin + dx * 0.5) + (pymin + dy * 0.5) * (pymin + dy * 0.5)) < r := by
    rw [Real.sqrt_lt' hr]; nlinarith
  unfold exactCell
  simp only
  rw [if_pos ⟨by nlinarith, by nlinarith⟩, if_pos ⟨by nlinarith, by nlinarith⟩]
  split
  · rfl
  · rw [if_pos (by linarith)]
    rw [show (3 : Nat) = 1 + 2 from rfl, single_covered 1 _ _ _ _ _ (by linarith) (by linarith) hc]
    simp only [Option.map_some, Option.some.injEq]
    have : (pxmin + dx - pxmin) * (pymin + dy - pymin) = dx * dy := by ring
    rw [this]
    exact div_self (by positivity)

/-- **fully uncovered pixels are exactly 0** — whichever branch handles them. -/
theorem exact_zero_of_uncovered (pxmin pymin dx dy r : ℝ) (hdx : 0 < dx) (hdy : 0 < dy) (hr : 0 < r)
    (hu : Uncovered pxmin pymin (pxmin + dx) (pymin + dy) r) :
    exactCell pxmin pymin dx dy r = some 0 := by
  have c3 := hu (pxmin + dx * 0.5) (pymin + dy * 0.5) (by nlinarith) (by nlinarith) (by nlinarith) (by nlinarith)
  have hpr : 0 ≤ 0.5 * Real.sqrt (dx * dx + dy * dy) := by positivity
  have hd : r < Real.sqrt ((pxmin + dx * 0.5) * (pxmin + dx * 0.5) + (pymin + dy * 0.5) * (pymin + dy * 0.5)) := by
    apply Real.lt_sqrt_of_sq_lt; nlinarith
  unfold exactCell
  simp only
  split
  · split
    · rw [if_neg (by linarith)]
      split
      · rw [show (3 : Nat) = 1 + 2 from rfl, single_uncovered 1 _ _ _ _ _ (by linarith) (by linarith) hu]
        simp
      · rfl
    · rfl
  · rfl

-- non-vacuity: a covered and an uncovered unit pixel for r = 3
example : Covered 0 0 1 1 3 := by intro x y h1 h2 h3 h4; nlinarith
example : Uncovered 3 3 4 4 3 := by intro x y h1 h2 h3 h4; nlinarith

end RegionsVerif.Props.C03
