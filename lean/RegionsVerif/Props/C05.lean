/-
C05 — applying a mask to an image is exact placement at the bounding box.

Theorems about `Impl.Mask` (model of `regions/core/mask.py`) against the placement
semantics: the mask array's element `(j, i)` sits on image pixel `(ixmin + i, iymin + j)`.
All statements are for every box position, every mask/image shape, every element type.
-/
import RegionsVerif.Impl.Mask
import RegionsVerif.Props.C19

namespace RegionsVerif.Props.C05
open RegionsVerif.Impl RegionsVerif.Spec RegionsVerif.Props

variable {α : Type}

/-- unpacking `overlapSlices = some` into the explicit windows. -/
theorem slices_some (b : BBox) (ny nx : Int) (l s : Slice × Slice)
    (h : b.overlapSlices ny nx = some (l, s)) :
    l = (⟨max b.iymin 0, min b.iymax ny⟩, ⟨max b.ixmin 0, min b.ixmax nx⟩) ∧
    s = (⟨max (-b.iymin) 0, min (b.iymax - b.iymin) (ny - b.iymin)⟩,
         ⟨max (-b.ixmin) 0, min (b.ixmax - b.ixmin) (nx - b.ixmin)⟩) ∧
    ¬ (b.ixmin ≥ nx ∨ b.iymin ≥ ny ∨ b.ixmax ≤ 0 ∨ b.iymax ≤ 0) := by
  unfold BBox.overlapSlices at h; simp only at h
  split at h
  · simp at h
  · rename_i hc
    simp only [Option.some.injEq, Prod.mk.injEq] at h
    exact ⟨h.1.symm, h.2.symm, hc⟩

/-! ### to_image -/

/-- no overlap ⇒ `None`, and `None` only when no pixel is common (never an exception,
never a wrapped-around slice: the windows are in range by `C19.slices_in_range`). -/
theorem toImage_none_iff [Zero α] (m : Mask α) (ny nx : Int) :
    m.toImage ny nx = none ↔ m.bbox.overlapSlices ny nx = none := by
  unfold Mask.toImage; split <;> simp_all

/-- placement: inside box ∩ image the mask value, elsewhere in the image `0`. -/
theorem toImage_spec [Zero α] (m : Mask α) (ny nx : Int) (a : Arr α)
    (h : m.toImage ny nx = some a) :
    a.ny = ny ∧ a.nx = nx ∧
    ∀ x y, inImage ny nx x y →
      a.el y x = if inBox m.bbox x y then m.data (y - m.bbox.iymin) (x - m.bbox.ixmin) else 0 := by
  unfold Mask.toImage at h
  split at h
  · simp at h
  · rename_i l s hs
    obtain ⟨hl, hss, hc⟩ := slices_some _ _ _ _ _ hs
    simp only [Option.some.injEq] at h; subst h
    refine ⟨rfl, rfl, ?_⟩
    intro x y hin
    subst hl; subst hss
    have hin' := hin
    unfold inImage at hin'
    simp only [sliceAssign]
    by_cases hb : inBox m.bbox x y
    · have hb' := hb
      unfold inBox at hb'
      rw [if_pos hb, if_pos (by omega)]
      congr 1 <;> omega
    · have hb' := hb
      unfold inBox at hb'
      rw [if_neg hb, if_neg (by omega)]

/-! ### cutout -/

/-- the cutout has the mask's shape and element `(j, i)` is the image pixel under it, or the
fill value when that pixel is outside the image. -/
theorem cutout_spec (m : Mask α) (img : Arr α) (fill : α) (ff copy : Bool) (c : Cutout α)
    (hb : m.bbox.WF) (hny : 0 ≤ img.ny) (hnx : 0 ≤ img.nx)
    (h : m.cutout img fill ff copy = some c) :
    (c.arr.ny, c.arr.nx) = m.bbox.shape ∧
    ∀ j i, 0 ≤ j → j < m.bbox.shape.1 → 0 ≤ i → i < m.bbox.shape.2 →
      c.arr.el j i = if inImage img.ny img.nx (m.bbox.ixmin + i) (m.bbox.iymin + j)
                     then img.el (m.bbox.iymin + j) (m.bbox.ixmin + i) else fill := by
  unfold Mask.cutout at h
  split at h
  · simp at h
  · rename_i l s hs
    obtain ⟨hl, hss, hc⟩ := slices_some _ _ _ _ _ hs
    subst hl; subst hss
    simp only at h
    unfold BBox.WF at hb
    split at h
    · rename_i hfull
      simp only [Option.some.injEq] at h; subst h
      simp only [BBox.shape, Prod.mk.injEq] at hfull
      refine ⟨?_, ?_⟩
      · simp only [sliceRead, BBox.shape, Prod.mk.injEq]; omega
      · intro j i hj0 hj hi0 hi
        simp only [BBox.shape] at hj hi
        have hin : inImage img.ny img.nx (m.bbox.ixmin + i) (m.bbox.iymin + j) := by
          unfold inImage; omega
        rw [if_pos hin]
        simp only [sliceRead]
        congr 1 <;> omega
    · rename_i hpart
      simp only [Option.some.injEq] at h; subst h
      refine ⟨rfl, ?_⟩
      intro j i hj0 hj hi0 hi
      simp only [BBox.shape] at hj hi
      simp only [sliceAssign]
      by_cases hin : inImage img.ny img.nx (m.bbox.ixmin + i) (m.bbox.iymin + j)
      · have hin' := hin
        unfold inImage at hin'
        rw [if_pos hin, if_pos (by omega)]
        congr 1 <;> omega
      · have hin' := hin
        unfold inImage at hin'
        rw [if_neg hin, if_neg (by omega)]

/-- the cutout is a view into the input exactly when the box lies fully inside the image
and `copy = False`. -/
theorem cutout_view_iff (m : Mask α) (img : Arr α) (fill : α) (ff copy : Bool) (c : Cutout α)
    (hb : m.bbox.WF) (hny : 0 ≤ img.ny) (hnx : 0 ≤ img.nx)
    (h : m.cutout img fill ff copy = some c) :
    c.isView = true ↔
      (copy = false ∧ 0 ≤ m.bbox.ixmin ∧ m.bbox.ixmax ≤ img.nx ∧
       0 ≤ m.bbox.iymin ∧ m.bbox.iymax ≤ img.ny) := by
  unfold Mask.cutout at h
  split at h
  · simp at h
  · rename_i l s hs
    obtain ⟨hl, hss, hc⟩ := slices_some _ _ _ _ _ hs
    subst hl; subst hss
    simp only at h
    unfold BBox.WF at hb
    split at h
    · rename_i hfull
      simp only [Option.some.injEq] at h; subst h
      simp only [BBox.shape, Prod.mk.injEq] at hfull
      simp only [Bool.not_eq_true']
      constructor
      · intro hcp; exact ⟨hcp, by omega, by omega, by omega, by omega⟩
      · intro hcp; exact hcp.1
    · rename_i hpart
      simp only [Option.some.injEq] at h; subst h
      simp only [BBox.shape, Prod.mk.injEq] at hpart
      simp only [Bool.false_eq_true, false_iff]
      intro hcp; apply hpart; omega

/-- dtype rule of the partial-overlap branch: promoted to float exactly when the fill value
is not finite (the model of the *current* code; see finding F17 for integer images). -/
theorem cutout_promoted_iff (m : Mask α) (img : Arr α) (fill : α) (ff copy : Bool) (c : Cutout α)
    (h : m.cutout img fill ff copy = some c) :
    c.promoted = true → ff = false := by
  unfold Mask.cutout at h
  split at h
  · simp at h
  · simp only at h
    split at h <;> (simp only [Option.some.injEq] at h; subst h; simp)

theorem cutout_none_iff (m : Mask α) (img : Arr α) (fill : α) (ff copy : Bool) :
    m.cutout img fill ff copy = none ↔ m.bbox.overlapSlices img.ny img.nx = none := by
  unfold Mask.cutout
  split
  · simp_all
  · simp only; split <;> simp_all

/-! ### multiply -/

theorem multiply_spec [Mul α] [Zero α] [DecidableEq α] (m : Mask α) (img : Arr α) (fill : α)
    (ff : Bool) (r : Arr α) (hb : m.bbox.WF) (hny : 0 ≤ img.ny) (hnx : 0 ≤ img.nx)
    (h : m.multiply img fill ff = some r) :
    (r.ny, r.nx) = m.bbox.shape ∧
    ∀ j i, 0 ≤ j → j < m.bbox.shape.1 → 0 ≤ i → i < m.bbox.shape.2 →
      r.el j i =
        if m.data j i = 0 then fill
        else (if inImage img.ny img.nx (m.bbox.ixmin + i) (m.bbox.iymin + j)
              then img.el (m.bbox.iymin + j) (m.bbox.ixmin + i) else fill) * m.data j i := by
  unfold Mask.multiply at h
  split at h
  · simp at h
  · rename_i c hc
    simp only [Option.some.injEq] at h; subst h
    obtain ⟨hsh, hel⟩ := cutout_spec m img fill ff false c hb hny hnx hc
    refine ⟨hsh, ?_⟩
    intro j i hj0 hj hi0 hi
    simp only
    rw [hel j i hj0 hj hi0 hi]

theorem multiply_none_iff [Mul α] [Zero α] [DecidableEq α] (m : Mask α) (img : Arr α) (fill : α)
    (ff : Bool) : m.multiply img fill ff = none ↔ m.bbox.overlapSlices img.ny img.nx = none := by
  unfold Mask.multiply
  split
  · rename_i hc; simpa using (cutout_none_iff m img fill ff false).mp hc
  · rename_i c hc
    simp only [reduceCtorEq, false_iff]
    intro hn
    have := (cutout_none_iff m img fill ff false).mpr hn
    simp_all

/-! ### get_values -/

/-- no overlap ⇒ the empty array (never an exception). -/
theorem getValues_no_overlap [Mul α] [Zero α] [LT α] [DecidableLT α] (m : Mask α) (img : Arr α)
    (um : Option (Int → Int → Bool)) (h : m.bbox.overlapSlices img.ny img.nx = none) :
    m.getValues img um = [] := by
  unfold Mask.getValues; rw [h]

/-- a value is returned exactly for the pixels common to box and image whose weight is
positive and that are not user-masked; the value is `data × weight`. -/
theorem getValues_mem [Mul α] [Zero α] [LT α] [DecidableLT α] (m : Mask α) (img : Arr α)
    (um : Option (Int → Int → Bool)) (v : α) :
    v ∈ m.getValues img um ↔
      ∃ x y, inBox m.bbox x y ∧ inImage img.ny img.nx x y ∧
        0 < m.data (y - m.bbox.iymin) (x - m.bbox.ixmin) ∧
        (∀ u, um = some u → u y x = false) ∧
        v = img.el y x * m.data (y - m.bbox.iymin) (x - m.bbox.ixmin) := by
  unfold Mask.getValues
  split
  · rename_i hs
    simp only [List.not_mem_nil, false_iff]
    rintro ⟨x, y, hb, hi, -⟩
    exact C19.slices_none_disjoint _ _ _ hs x y ⟨hb, hi⟩
  · rename_i l s hs
    obtain ⟨hl, hss, hc⟩ := slices_some _ _ _ _ _ hs
    subst hl; subst hss
    simp only [List.mem_flatMap, List.mem_range, List.mem_filterMap]
    constructor
    · rintro ⟨j, hj, i, hi, hv⟩
      have h1 : max m.bbox.iymin 0 + (j : Int) - m.bbox.iymin = max (-m.bbox.iymin) 0 + j := by omega
      have h2 : max m.bbox.ixmin 0 + (i : Int) - m.bbox.ixmin = max (-m.bbox.ixmin) 0 + i := by omega
      refine ⟨max m.bbox.ixmin 0 + i, max m.bbox.iymin 0 + j, ?_, ?_, ?_⟩
      · unfold inBox; omega
      · unfold inImage; omega
      · rw [h1, h2]
        cases um with
        | none =>
          simp only [Bool.and_true, decide_eq_true_eq, Option.ite_none_right_eq_some,
            Option.some.injEq] at hv
          exact ⟨hv.1, by simp, hv.2.symm⟩
        | some u =>
          simp only [Bool.and_eq_true, decide_eq_true_eq, Bool.not_eq_eq_eq_not, Bool.not_true,
            Option.ite_none_right_eq_some, Option.some.injEq] at hv
          exact ⟨hv.1.1, by intro u' hu'; cases hu'; exact hv.1.2, hv.2.symm⟩
    · rintro ⟨x, y, hb, hi, hw, hu, hv⟩
      unfold inBox inImage at *
      refine ⟨(y - max m.bbox.iymin 0).toNat, by omega, (x - max m.bbox.ixmin 0).toNat, by omega, ?_⟩
      have e1 : max m.bbox.iymin 0 + ((y - max m.bbox.iymin 0).toNat : Int) = y := by omega
      have e2 : max m.bbox.ixmin 0 + ((x - max m.bbox.ixmin 0).toNat : Int) = x := by omega
      have e3 : max (-m.bbox.iymin) 0 + ((y - max m.bbox.iymin 0).toNat : Int) = y - m.bbox.iymin := by omega
      have e4 : max (-m.bbox.ixmin) 0 + ((x - max m.bbox.ixmin 0).toNat : Int) = x - m.bbox.ixmin := by omega
      simp only [e1, e2, e3, e4]
      rw [if_pos]
      · rw [hv]
      · simp only [Bool.and_eq_true, decide_eq_true_eq]
        refine ⟨hw, ?_⟩
        cases um with
        | none => rfl
        | some u => simpa using hu u rfl

/-- non-vacuity: a concrete mask/image pair that meets the hypotheses of the theorems
(box straddling the lower-left corner of a 3×4 image). -/
example : (⟨-1, 2, -1, 1⟩ : BBox).WF ∧
    (⟨-1, 2, -1, 1⟩ : BBox).overlapSlices 3 4 = some ((⟨0, 1⟩, ⟨0, 2⟩), (⟨1, 2⟩, ⟨1, 3⟩)) := by
  constructor
  · unfold BBox.WF; decide
  · decide

end RegionsVerif.Props.C05
