/-
C02 — centre and sub-pixel masks are the sampled membership function.

Theorems about `Impl.MaskGen` (model of the grid / sub-sampling loops of the four kernels,
of the `to_mask` glue and of `CompoundPixelRegion.to_mask`).
-/
import RegionsVerif.Impl.MaskGen
import RegionsVerif.Props.C01
import RegionsVerif.Props.C01Poly
import RegionsVerif.Props.C19
import RegionsVerif.Props.C04

namespace RegionsVerif.Props.C02
open RegionsVerif.Impl RegionsVerif.Props

/-- loop-invariant principle for `for k in range(n)` folds. -/
theorem foldl_range_inv {β : Type} (f : β → Nat → β) (I : Nat → β → Prop) (b : β) (n : Nat)
    (h0 : I 0 b) (hstep : ∀ k st, k < n → I k st → I (k + 1) (f st k)) :
    I n ((List.range n).foldl f b) := by
  induction n with
  | zero => simpa using h0
  | succ m ih =>
    rw [List.range_succ, List.foldl_append]
    simp only [List.foldl_cons, List.foldl_nil]
    apply hstep m _ (Nat.lt_succ_self m)
    exact ih (fun k st hk => hstep k st (Nat.lt_succ_of_lt hk))

section field
variable {α : Type} [Field α] [LinearOrder α] [IsStrictOrderedRing α]

/-! ### the sub-sampling loops -/

/-- after `k` additions the accumulator `y = y0 − ½·dy; y += dy; …` holds `y0 + (k − ½)·dy`,
and the inner loop has counted exactly the sample points that pass the test. -/
theorem innerLoop_spec (P : α → α → Bool) (x y0 dy : α) (n : Nat) :
    innerLoop P x y0 dy n =
      ((List.range n).filter fun (k : Nat) => P x (y0 + ((k : α) + 1/2) * dy)).length := by
  unfold innerLoop
  have := foldl_range_inv
    (fun (st : α × Nat) (_ : Nat) => (st.1 + dy, if P x (st.1 + dy) then st.2 + 1 else st.2))
    (fun k st => st.1 = y0 + ((k : α) - 1/2) * dy ∧
      st.2 = ((List.range k).filter fun (j : Nat) => P x (y0 + ((j : α) + 1/2) * dy)).length)
    (y0 - (1/2) * dy, 0) n
    (by constructor
        · push_cast; ring
        · simp)
    (by
      intro k st _ ⟨h1, h2⟩
      have hy : st.1 + dy = y0 + ((k : α) + 1/2) * dy := by rw [h1]; ring
      refine ⟨?_, ?_⟩
      · simp only; rw [h1]; push_cast; ring
      · simp only
        rw [List.range_succ, List.filter_append, List.length_append, hy, h2]
        simp only [List.filter_cons, List.filter_nil]
        by_cases hp : P x (y0 + ((k : α) + 1/2) * dy) = true
        · rw [if_pos hp, if_pos hp]; rfl
        · rw [if_neg hp, if_neg hp]; rfl)
  exact this.2

/-- the whole `*_overlap_single_subpixel` double loop counts exactly the `n × n` regularly
spaced sample centres `(x0 + (i+½)·dx/n, y0 + (k+½)·dy/n)` that pass the kernel's test. -/
theorem subpixelCount_spec (P : α → α → Bool) (x0 y0 x1 y1 : α) (n : Nat) :
    subpixelCount P x0 y0 x1 y1 n =
      ((List.range n).map fun (i : Nat) =>
        ((List.range n).filter fun (k : Nat) => P (samplePos x0 x1 n i) (samplePos y0 y1 n k)).length).sum := by
  unfold subpixelCount
  simp only
  have := foldl_range_inv
    (fun (st : α × Nat) (_ : Nat) =>
      (st.1 + (x1 - x0) / n, st.2 + innerLoop P (st.1 + (x1 - x0) / n) y0 ((y1 - y0) / n) n))
    (fun m st => st.1 = x0 + ((m : α) - 1/2) * ((x1 - x0) / n) ∧
      st.2 = ((List.range m).map fun (i : Nat) =>
        ((List.range n).filter fun (k : Nat) => P (samplePos x0 x1 n i) (samplePos y0 y1 n k)).length).sum)
    (x0 - (1/2) * ((x1 - x0) / n), 0) n
    (by constructor
        · push_cast; ring
        · simp)
    (by
      intro m st _ ⟨h1, h2⟩
      have hx : st.1 + (x1 - x0) / n = samplePos x0 x1 n m := by rw [h1]; unfold samplePos; ring
      refine ⟨?_, ?_⟩
      · simp only; rw [h1]; push_cast; ring
      · simp only
        rw [List.range_succ, List.map_append, List.sum_append, hx, h2, innerLoop_spec]
        simp only [List.map_cons, List.map_nil, List.sum_cons, List.sum_nil, Nat.add_zero]
        rfl)
  exact this.2

/-- the count never exceeds `n²`, so every sub-pixel value is `k/n²` with `0 ≤ k ≤ n²`. -/
theorem subpixelCount_le (P : α → α → Bool) (x0 y0 x1 y1 : α) (n : Nat) :
    subpixelCount P x0 y0 x1 y1 n ≤ n * n := by
  rw [subpixelCount_spec]
  have h : ∀ (l : List Nat) (g : Nat → Nat), (∀ i, g i ≤ n) → (l.map g).sum ≤ l.length * n := by
    intro l g hg
    induction l with
    | nil => simp
    | cons a t ih => simp only [List.map_cons, List.sum_cons, List.length_cons]; have := hg a; nlinarith
  have := h (List.range n) _ (fun i => by
    have := List.length_filter_le (fun (k : Nat) => P (samplePos x0 x1 n i) (samplePos y0 y1 n k)) (List.range n)
    simpa using this)
  simpa using this

/-- `subpixels = 1` samples exactly the pixel centre. -/
theorem subpixelFrac_one (P : α → α → Bool) (x0 y0 x1 y1 : α) :
    subpixelFrac P x0 y0 x1 y1 1 = if P ((x0 + x1) / 2) ((y0 + y1) / 2) then 1 else 0 := by
  unfold subpixelFrac
  rw [subpixelCount_spec]
  have e1 : samplePos x0 x1 1 0 = (x0 + x1) / 2 := by unfold samplePos; simp; ring
  have e2 : samplePos y0 y1 1 0 = (y0 + y1) / 2 := by unfold samplePos; simp; ring
  simp only [List.range_one, List.map_cons, List.map_nil, List.sum_cons, List.sum_nil,
    List.filter_cons, List.filter_nil, e1, e2]
  by_cases hp : P ((x0 + x1) / 2) ((y0 + y1) / 2) = true <;> simp [hp]

/-! ### the kernels' tests are the shapes' membership tests -/

theorem circleK_eq (c : Pt α) (r : α) (p : Pt α) :
    circleK r (p.x - c.x) (p.y - c.y) = (Circle.mk c r).inRaw p := by
  unfold circleK Circle.inRaw sep2
  simp only [pow_two]

theorem rectK_eq (c : Pt α) (w h : α) (d : Dir α) (p : Pt α) :
    rectK w h d (p.x - c.x) (p.y - c.y) = (Rect.mk c w h d).inRaw p := by
  unfold rectK Rect.inRaw
  simp only
  have e1 : (p.y - c.y) * d.s + (p.x - c.x) * d.c = d.c * (p.x - c.x) + d.s * (p.y - c.y) := by ring
  have e2 : |(p.y - c.y) * d.c - (p.x - c.x) * d.s| = |d.s * (p.x - c.x) - d.c * (p.y - c.y)| := by
    rw [← abs_neg]; congr 1; ring
  have e3 : w / 2 = w * (1/2) := by ring
  have e4 : h / 2 = h * (1/2) := by ring
  rw [e1, e2, e3, e4]

/-- the ellipse kernel tests the OPEN ellipse (`< 1`) where `contains` tests the closed one
(`≤ 1`): they agree off the boundary, which C01/C02 except. -/
theorem ellipseK_iff (c : Pt α) (w h : α) (hw : 0 < w) (hh : 0 < h) (d : Dir α) (p : Pt α) :
    ellipseK (1/2 * w) (1/2 * h) d (p.x - c.x) (p.y - c.y) = true ↔
      (2 * (d.c * (p.x - c.x) + d.s * (p.y - c.y)) / w) ^ 2
        + (2 * (d.s * (p.x - c.x) - d.c * (p.y - c.y)) / h) ^ 2 < 1 := by
  unfold ellipseK
  simp only [decide_eq_true_eq]
  have hwne : w ≠ 0 := ne_of_gt hw
  have hhne : h ≠ 0 := ne_of_gt hh
  have e : ((p.y - c.y) * d.s + (p.x - c.x) * d.c) * ((p.y - c.y) * d.s + (p.x - c.x) * d.c)
        * (1 / (1/2 * w * (1/2 * w)))
      + ((p.y - c.y) * d.c - (p.x - c.x) * d.s) * ((p.y - c.y) * d.c - (p.x - c.x) * d.s)
        * (1 / (1/2 * h * (1/2 * h)))
      = (2 * (d.c * (p.x - c.x) + d.s * (p.y - c.y)) / w) ^ 2
        + (2 * (d.s * (p.x - c.x) - d.c * (p.y - c.y)) / h) ^ 2 := by
    field_simp; ring
  rw [e]

theorem ellipseK_imp_inRaw (c : Pt α) (w h : α) (hw : 0 < w) (hh : 0 < h) (d : Dir α) (p : Pt α)
    (hk : ellipseK (1/2 * w) (1/2 * h) d (p.x - c.x) (p.y - c.y) = true) :
    (Ellipse.mk c w h d).inRaw p = true := by
  have := (ellipseK_iff c w h hw hh d p).mp hk
  simp only [Ellipse.inRaw, decide_eq_true_eq]
  exact le_of_lt this

/-! ### grid cells -/

/-- a grid cell holds the fraction of its `n × n` sample centres that pass the test. -/
theorem gridCell_spec (P : α → α → Bool) (xmin xmax ymin ymax : α) (nx ny n j i : Nat) :
    gridCell P xmin xmax ymin ymax nx ny n j i =
      (subpixelCount P (xmin + i * ((xmax - xmin) / nx)) (ymin + j * ((ymax - ymin) / ny))
        (xmin + i * ((xmax - xmin) / nx) + (xmax - xmin) / nx)
        (ymin + j * ((ymax - ymin) / ny) + (ymax - ymin) / ny) n : α) / ((n : α) * n) := rfl

/-- sample abscissae lie strictly inside the pixel. -/
theorem samplePos_mem (x0 x1 : α) (h : x0 < x1) (n k : Nat) (hk : k < n) :
    x0 < samplePos x0 x1 n k ∧ samplePos x0 x1 n k < x1 := by
  unfold samplePos
  have hn : (0 : α) < n := by exact_mod_cast Nat.pos_of_ne_zero (by omega)
  have hkn : (k : α) + 1 ≤ n := by exact_mod_cast hk
  have hd : 0 < (x1 - x0) / n := div_pos (by linarith) hn
  have hk0 : (0 : α) ≤ k := Nat.cast_nonneg k
  constructor
  · nlinarith
  · have : ((k : α) + 1/2) * ((x1 - x0) / n) < (n : α) * ((x1 - x0) / n) := by nlinarith
    have e : (n : α) * ((x1 - x0) / n) = x1 - x0 := by field_simp
    linarith

/-- if no sample centre of a pixel can pass the test, the bounding-box skip is harmless:
skipping (leaving `0`) equals sampling. -/
theorem gridCellSkip_eq (P : α → α → Bool) (bxmin bxmax bymin bymax xmin xmax ymin ymax : α)
    (nx ny n j i : Nat)
    (hdx : 0 < (xmax - xmin) / nx) (hdy : 0 < (ymax - ymin) / ny)
    (hout : ∀ x y, (x < bxmin ∨ bxmax < x ∨ y < bymin ∨ bymax < y) → P x y = false) :
    gridCellSkip P bxmin bxmax bymin bymax xmin xmax ymin ymax nx ny n j i =
      gridCell P xmin xmax ymin ymax nx ny n j i := by
  unfold gridCellSkip gridCell
  simp only
  set pxmin := xmin + i * ((xmax - xmin) / nx) with hpx
  set pymin := ymin + j * ((ymax - ymin) / ny) with hpy
  set dx := (xmax - xmin) / nx
  set dy := (ymax - ymin) / ny
  -- a skipped pixel has count 0
  have zero_of : (∀ (a b : Nat), a < n → b < n →
      P (samplePos pxmin (pxmin + dx) n a) (samplePos pymin (pymin + dy) n b) = false) →
      subpixelFrac P pxmin pymin (pxmin + dx) (pymin + dy) n = 0 := by
    intro hall
    unfold subpixelFrac
    rw [subpixelCount_spec]
    have : ((List.range n).map fun (a : Nat) =>
        ((List.range n).filter fun (b : Nat) =>
          P (samplePos pxmin (pxmin + dx) n a) (samplePos pymin (pymin + dy) n b)).length) =
        (List.range n).map fun _ => 0 := by
      apply List.map_congr_left
      intro a ha
      rw [List.length_eq_zero_iff, List.filter_eq_nil_iff]
      intro b hb
      simp [hall a b (List.mem_range.mp ha) (List.mem_range.mp hb)]
    rw [this]; simp
  by_cases hx : pxmin + dx > bxmin ∧ pxmin < bxmax
  · rw [if_pos hx]
    by_cases hy : pymin + dy > bymin ∧ pymin < bymax
    · rw [if_pos hy]
    · rw [if_neg hy]
      symm; apply zero_of
      intro a b _ hb
      obtain ⟨s1, s2⟩ := samplePos_mem pymin (pymin + dy) (by linarith) n b hb
      apply hout
      rw [not_and_or, not_lt, not_lt] at hy
      rcases hy with hy | hy
      · right; right; left; linarith
      · right; right; right; linarith
  · rw [if_neg hx]
    symm; apply zero_of
    intro a b ha _
    obtain ⟨s1, s2⟩ := samplePos_mem pxmin (pxmin + dx) (by linarith) n a ha
    apply hout
    rw [not_and_or, not_lt, not_lt] at hx
    rcases hx with hx | hx
    · left; linarith
    · right; left; linarith

/-- circle: nothing outside `[−r − ex, r + ex]²` passes the test. -/
theorem circle_skip_sound (r : α) (hr : 0 ≤ r) (ex ey : α) (hex : 0 ≤ ex) (hey : 0 ≤ ey) (x y : α)
    (h : x < -r - ex ∨ r + ex < x ∨ y < -r - ey ∨ r + ey < y) : circleK r x y = false := by
  unfold circleK
  rw [decide_eq_false_iff_not, not_lt]
  rcases h with h | h | h | h
  · nlinarith [sq_nonneg y, mul_self_nonneg y]
  · nlinarith [sq_nonneg y, mul_self_nonneg y]
  · nlinarith [sq_nonneg x, mul_self_nonneg x]
  · nlinarith [sq_nonneg x, mul_self_nonneg x]

/-- ellipse: nothing outside `[−max(rx,ry) − e, max(rx,ry) + e]²` passes the test (the ellipse
lies in the disk of radius `max(rx, ry)`; rotation preserves the norm). -/
theorem ellipse_skip_sound (rx ry : α) (hrx : 0 < rx) (hry : 0 < ry) (d : Dir α) (hu : d.IsUnit)
    (ex ey : α) (hex : 0 ≤ ex) (hey : 0 ≤ ey) (x y : α)
    (h : x < -(max rx ry) - ex ∨ max rx ry + ex < x ∨ y < -(max rx ry) - ey ∨ max rx ry + ey < y) :
    ellipseK rx ry d x y = false := by
  unfold Dir.IsUnit at hu
  unfold ellipseK
  simp only
  rw [decide_eq_false_iff_not, not_lt]
  set R := max rx ry with hR
  have hRx : rx ≤ R := le_max_left _ _
  have hRy : ry ≤ R := le_max_right _ _
  have hRpos : 0 < R := lt_of_lt_of_le hrx hRx
  -- x² + y² ≥ R²
  have hnorm : R ^ 2 ≤ x ^ 2 + y ^ 2 := by
    rcases h with h | h | h | h <;> nlinarith [sq_nonneg x, sq_nonneg y]
  set xt := y * d.s + x * d.c
  set yt := y * d.c - x * d.s
  have hrot : xt ^ 2 + yt ^ 2 = x ^ 2 + y ^ 2 := by
    simp only [xt, yt]; linear_combination (x ^ 2 + y ^ 2) * hu
  have h1 : xt * xt * (1 / (R * R)) ≤ xt * xt * (1 / (rx * rx)) := by
    apply mul_le_mul_of_nonneg_left _ (mul_self_nonneg xt)
    apply one_div_le_one_div_of_le (by positivity)
    nlinarith
  have h2 : yt * yt * (1 / (R * R)) ≤ yt * yt * (1 / (ry * ry)) := by
    apply mul_le_mul_of_nonneg_left _ (mul_self_nonneg yt)
    apply one_div_le_one_div_of_le (by positivity)
    nlinarith
  have h3 : 1 ≤ (xt * xt + yt * yt) * (1 / (R * R)) := by
    rw [mul_one_div, le_div_iff₀ (by positivity)]
    nlinarith
  nlinarith

/-- polygon: nothing outside the vertex range passes the even-odd test. -/
theorem polygon_skip_sound (g : Polygon α) (e : α × α × α × α) (he : g.extent = some e) (x y : α)
    (h : x < e.1 ∨ e.2.1 < x ∨ y < e.2.2.1 ∨ e.2.2.2 < y) : polyK g.vertices x y = false := by
  by_contra hc
  rw [Bool.not_eq_false] at hc
  obtain ⟨⟨v1, hv1, h1⟩, ⟨v2, hv2, h2⟩, ⟨v3, hv3, h3⟩, ⟨v4, hv4, h4⟩⟩ :=
    C01.pnpoly_in_vertex_range g.vertices ⟨x, y⟩ hc
  simp only at h1 h2 h3 h4
  obtain ⟨hall, -⟩ := C04.polygon_extent_spec g e he
  rcases h with h | h | h | h
  · have := (hall v1 hv1).1; linarith
  · have := (hall v2 hv2).2.1; linarith
  · have := (hall v3 hv3).2.2.1; linarith
  · have := (hall v4 hv4).2.2.2; linarith

end field

end RegionsVerif.Props.C02
