/-
C19 — Bounding-box arithmetic is exact integer rectangle algebra.

All theorems are about `Impl.BBox` (the model of `regions/core/bounding_box.py`)
against the pixel-set semantics of `Spec.Pixels`.  They hold for *all* integers
(unbounded), all rationals/reals for `fromFloat`.
-/
import RegionsVerif.Spec.Pixels
import Mathlib.Tactic.Linarith
import Mathlib.Data.Rat.Floor
import Mathlib.Algebra.Order.Archimedean.Real.Basic

namespace RegionsVerif.Props.C19
open RegionsVerif.Impl RegionsVerif.Spec

/-! ### constructor -/

/-- decision table of `__init__` on genuine ints. -/
theorem ctor_ok_iff (a b c d : Int) :
    (∃ bx, BBox.mk? a b c d = .ok bx) ↔ a ≤ b ∧ c ≤ d := by
  unfold BBox.mk? BBox.mkChecked
  constructor
  · rintro ⟨bx, h⟩
    by_cases h1 : a > b <;> by_cases h2 : c > d <;> simp_all
  · rintro ⟨h1, h2⟩
    exact ⟨⟨a, b, c, d⟩, by simp [not_lt.mpr h1, not_lt.mpr h2]⟩

theorem ctor_value (a b c d : Int) (bx : BBox) (h : BBox.mk? a b c d = .ok bx) :
    bx = ⟨a, b, c, d⟩ ∧ bx.WF := by
  unfold BBox.mk? BBox.mkChecked at h
  by_cases h1 : a > b <;> by_cases h2 : c > d <;> simp_all [BBox.WF]
  subst h; simp; omega

theorem ctor_error_kind (a b c d : Int) (e : BBoxErr) (h : BBox.mk? a b c d = .error e) :
    e = .valueError := by
  unfold BBox.mk? BBox.mkChecked at h
  by_cases h1 : a > b <;> by_cases h2 : c > d <;> simp_all

/-- a non-integer argument is a `TypeError`, whatever the values. -/
theorem ctor_type_error (f : Bool × Bool × Bool × Bool) (a b c d : Int)
    (h : ¬ (f.1 = true ∧ f.2.1 = true ∧ f.2.2.1 = true ∧ f.2.2.2 = true)) :
    BBox.mkChecked f a b c d = .error .typeError := by
  obtain ⟨f1, f2, f3, f4⟩ := f
  unfold BBox.mkChecked
  cases f1 <;> cases f2 <;> cases f3 <;> cases f4 <;> simp_all

/-! ### union -/

/-- `union` never raises on well-formed boxes and returns the corner-wise hull. -/
theorem union_ok (a b : BBox) (ha : a.WF) (hb : b.WF) :
    BBox.union a b = .ok ⟨min a.ixmin b.ixmin, max a.ixmax b.ixmax,
                          min a.iymin b.iymin, max a.iymax b.iymax⟩ := by
  unfold BBox.union BBox.mk? BBox.mkChecked BBox.WF at *
  have h1 : ¬ (min a.ixmin b.ixmin > max a.ixmax b.ixmax) := by omega
  have h2 : ¬ (min a.iymin b.iymin > max a.iymax b.iymax) := by omega
  simp [h1, h2]

/-- the union contains both operands (pixelwise). -/
theorem union_contains (a b u : BBox) (h : BBox.union a b = .ok u) (x y : Int) :
    (inBox a x y ∨ inBox b x y) → inBox u x y := by
  obtain ⟨hu, -⟩ := ctor_value _ _ _ _ _ h
  subst hu; unfold inBox; simp only; omega

/-- upper bound in the corner order. -/
theorem union_upper (a b u : BBox) (h : BBox.union a b = .ok u) : cornerLe a u ∧ cornerLe b u := by
  obtain ⟨hu, -⟩ := ctor_value _ _ _ _ _ h
  subst hu; unfold cornerLe; simp only; omega

/-- least upper bound in the corner order: any box enclosing both encloses the union. -/
theorem union_lub (a b u c : BBox) (h : BBox.union a b = .ok u)
    (hac : cornerLe a c) (hbc : cornerLe b c) : cornerLe u c := by
  obtain ⟨hu, -⟩ := ctor_value _ _ _ _ _ h
  subst hu; unfold cornerLe at *; simp only; omega

/-- for non-empty boxes, pixel-set inclusion is the corner order, so the union is
the smallest box *containing both pixel sets*. -/
theorem pixels_subset_iff_cornerLe (a c : BBox) (hne : nonEmpty a) :
    (∀ x y, inBox a x y → inBox c x y) ↔ cornerLe a c := by
  unfold inBox cornerLe nonEmpty at *
  constructor
  · intro h
    have h1 := h a.ixmin a.iymin (by omega)
    have h2 := h (a.ixmax - 1) (a.iymax - 1) (by omega)
    omega
  · intro h x y hx; omega

theorem union_smallest_pixels (a b u c : BBox) (h : BBox.union a b = .ok u)
    (hna : nonEmpty a) (hnb : nonEmpty b)
    (hc : ∀ x y, (inBox a x y ∨ inBox b x y) → inBox c x y) (x y : Int) :
    inBox u x y → inBox c x y := by
  have hac := (pixels_subset_iff_cornerLe a c hna).mp (fun x y h => hc x y (Or.inl h))
  have hbc := (pixels_subset_iff_cornerLe b c hnb).mp (fun x y h => hc x y (Or.inr h))
  have := union_lub a b u c h hac hbc
  unfold cornerLe inBox at *; omega

theorem union_comm (a b : BBox) : BBox.union a b = BBox.union b a := by
  unfold BBox.union; rw [min_comm a.ixmin, max_comm a.ixmax, min_comm a.iymin, max_comm a.iymax]

/-- associativity on the level of results (`Except`-bind). -/
theorem union_assoc (a b c : BBox) :
    (BBox.union a b >>= fun ab => BBox.union ab c) =
    (BBox.union b c >>= fun bc => BBox.union a bc) ∨
    (¬ (a.WF ∧ b.WF ∧ c.WF)) := by
  by_cases h : a.WF ∧ b.WF ∧ c.WF
  · left
    obtain ⟨ha, hb, hc⟩ := h
    rw [union_ok a b ha hb, union_ok b c hb hc]
    simp only [bind, Except.bind]
    rw [union_ok _ c (by unfold BBox.WF at *; simp only; omega) hc,
        union_ok a _ ha (by unfold BBox.WF at *; simp only; omega)]
    simp only [min_assoc, max_assoc]
  · right; exact h

/-! ### intersection -/

/-- when a box is returned it holds exactly the common pixels. -/
theorem inter_pixels (a b c : BBox) (h : BBox.inter a b = some c) (x y : Int) :
    inBox c x y ↔ (inBox a x y ∧ inBox b x y) := by
  unfold BBox.inter at h
  simp only at h
  split at h
  · simp at h
  · simp only [Option.some.injEq] at h; subst h; unfold inBox; simp only; omega

/-- `None` is only ever returned when there is no common pixel. -/
theorem inter_none_disjoint (a b : BBox) (h : BBox.inter a b = none) (x y : Int) :
    ¬ (inBox a x y ∧ inBox b x y) := by
  unfold BBox.inter at h
  simp only at h
  split at h
  · unfold inBox; omega
  · simp at h

/-- exact characterisation of `None`: the corner-wise meet is *inverted* on some axis
(strictly: touching boxes give an empty box, not `None`). -/
theorem inter_none_iff (a b : BBox) :
    BBox.inter a b = none ↔
      (min a.ixmax b.ixmax < max a.ixmin b.ixmin ∨ min a.iymax b.iymax < max a.iymin b.iymin) := by
  unfold BBox.inter; simp only; split <;> simp_all

/-- the result is well formed. -/
theorem inter_wf (a b c : BBox) (h : BBox.inter a b = some c) : c.WF := by
  unfold BBox.inter at h; simp only at h
  split at h
  · simp at h
  · simp only [Option.some.injEq] at h; subst h; unfold BBox.WF; simp only; omega

theorem inter_comm (a b : BBox) : BBox.inter a b = BBox.inter b a := by
  unfold BBox.inter
  simp only [max_comm a.ixmin, min_comm a.ixmax, max_comm a.iymin, min_comm a.iymax]

/-- associativity on `Option` for well-formed boxes. -/
theorem inter_assoc (a b c : BBox) (ha : a.WF) (hb : b.WF) (hc : c.WF) :
    (BBox.inter a b).bind (fun ab => BBox.inter ab c) =
    (BBox.inter b c).bind (fun bc => BBox.inter a bc) := by
  unfold BBox.WF at *
  unfold BBox.inter
  simp only
  by_cases h1 : min a.ixmax b.ixmax < max a.ixmin b.ixmin ∨ min a.iymax b.iymax < max a.iymin b.iymin
  <;> by_cases h2 : min b.ixmax c.ixmax < max b.ixmin c.ixmin ∨ min b.iymax c.iymax < max b.iymin c.iymin
  <;> simp only [h1, h2, if_true, if_false, Option.bind_none, Option.bind_some]
  · symm; rw [if_pos]
    rcases h1 with h1 | h1
    · left; omega
    · right; omega
  · rw [if_pos]
    rcases h2 with h2 | h2
    · left; omega
    · right; omega
  · simp only [min_assoc, max_assoc]

/-- FULL-STRENGTH reading "None when the boxes are disjoint" as an iff on pixel sets. -/
def inter_none_iff_disjoint_full : Prop :=
  ∀ a b : BBox, a.WF → b.WF →
    (BBox.inter a b = none ↔ ∀ x y, ¬ (inBox a x y ∧ inBox b x y))

/-- refuted on the model of the current code: two touching boxes are disjoint as pixel
sets but `intersection` returns an empty box, not `None`.  (Finding F16a.) -/
theorem inter_none_iff_disjoint_full_refuted : ¬ inter_none_iff_disjoint_full := by
  intro h
  have := (h ⟨0, 1, 0, 1⟩ ⟨1, 2, 0, 1⟩ (by decide) (by decide)).mpr
    (by intro x y; unfold inBox; simp only; omega)
  simp [BBox.inter] at this

/-- partial: the iff holds whenever the corner-wise meet is not a degenerate
(zero-width or zero-height) rectangle. -/
def notDegenerateMeet (a b : BBox) : Prop :=
  min a.ixmax b.ixmax ≠ max a.ixmin b.ixmin ∧ min a.iymax b.iymax ≠ max a.iymin b.iymin

theorem inter_none_iff_disjoint_partial (a b : BBox) (hd : notDegenerateMeet a b) :
    BBox.inter a b = none ↔ ∀ x y, ¬ (inBox a x y ∧ inBox b x y) := by
  rw [inter_none_iff]
  unfold notDegenerateMeet at hd
  constructor
  · intro h x y; unfold inBox; omega
  · intro h
    by_contra hc
    have := h (max a.ixmin b.ixmin) (max a.iymin b.iymin)
    unfold inBox at this; omega

example : notDegenerateMeet ⟨0, 3, 0, 3⟩ ⟨1, 5, 2, 9⟩ := by unfold notDegenerateMeet; decide

/-! ### shape, centre, extent -/

/-- `shape` counts the pixels per axis: `x` is in the box iff `0 ≤ x - ixmin < nx`. -/
theorem shape_spec (b : BBox) (x y : Int) :
    inBox b x y ↔ (0 ≤ x - b.ixmin ∧ x - b.ixmin < b.shape.2 ∧
                   0 ≤ y - b.iymin ∧ y - b.iymin < b.shape.1) := by
  unfold inBox BBox.shape; simp only; omega

theorem shape_nonneg (b : BBox) (h : b.WF) : 0 ≤ b.shape.1 ∧ 0 ≤ b.shape.2 := by
  unfold BBox.WF BBox.shape at *; simp only; omega

/-- the (doubled) centre is the sum of the first and last pixel index per axis,
i.e. the centre is the midpoint of the pixel-centre range. -/
theorem center_spec (b : BBox) :
    b.center2 = (b.iymin + (b.iymax - 1), b.ixmin + (b.ixmax - 1)) := by
  unfold BBox.center2; simp only [Prod.mk.injEq]; omega

/-- the (doubled) extent is the pixel-edge hull: pixel `x` covers `[x-½, x+½]`, which lies
inside `[extent.x0, extent.x1]` exactly for the box's pixels (non-empty box). -/
theorem extent_spec (b : BBox) (x : Int) (hy : b.iymin < b.iymax) :
    (b.extent2.1 ≤ 2 * x - 1 ∧ 2 * x + 1 ≤ b.extent2.2.1) ↔ inBox b x b.iymin := by
  unfold BBox.extent2 inBox; simp only; omega

theorem extent_center (b : BBox) :
    b.extent2.1 + b.extent2.2.1 = 2 * b.center2.2 ∧
    b.extent2.2.2.1 + b.extent2.2.2.2 = 2 * b.center2.1 := by
  unfold BBox.extent2 BBox.center2; simp only; omega

/-! ### from_float -/
section fromFloat
variable {α : Type} [Field α] [LinearOrder α] [IsStrictOrderedRing α] [FloorRing α]

/-- `from_float` succeeds on an ordered rectangle. -/
theorem fromFloat_ok (xmin xmax ymin ymax : α) (hx : xmin ≤ xmax) (hy : ymin ≤ ymax) :
    BBox.fromFloat xmin xmax ymin ymax =
      .ok ⟨⌊xmin + 1/2⌋, ⌈xmax + 1/2⌉, ⌊ymin + 1/2⌋, ⌈ymax + 1/2⌉⟩ := by
  unfold BBox.fromFloat BBox.mk? BBox.mkChecked
  have h1 : ¬ (⌊xmin + 1/2⌋ > ⌈xmax + 1/2⌉) := by
    have : ⌊xmin + 1/2⌋ ≤ ⌈xmax + 1/2⌉ :=
      (Int.floor_le_ceil _).trans (Int.ceil_mono (by linarith))
    omega
  have h2 : ¬ (⌊ymin + 1/2⌋ > ⌈ymax + 1/2⌉) := by
    have : ⌊ymin + 1/2⌋ ≤ ⌈ymax + 1/2⌉ :=
      (Int.floor_le_ceil _).trans (Int.ceil_mono (by linarith))
    omega
  rw [if_neg h1, if_neg h2]; simp

/-- lower edge: the pixel-edge `ixmin - ½` is at or below `xmin`, and `ixmin` is the
greatest integer with that property (minimality). -/
theorem fromFloat_lower (x : α) :
    ((⌊x + 1/2⌋ : Int) : α) - 1/2 ≤ x ∧ ∀ k : Int, (k : α) - 1/2 ≤ x → k ≤ ⌊x + 1/2⌋ := by
  constructor
  · have := Int.floor_le (x + 1/2); linarith
  · intro k hk; exact Int.le_floor.mpr (by linarith)

/-- upper edge: the pixel-edge `ixmax - ½` is at or above `xmax`, and `ixmax` is the
least integer with that property (minimality). -/
theorem fromFloat_upper (x : α) :
    x ≤ ((⌈x + 1/2⌉ : Int) : α) - 1/2 ∧ ∀ k : Int, x ≤ (k : α) - 1/2 → ⌈x + 1/2⌉ ≤ k := by
  constructor
  · have := Int.le_ceil (x + 1/2); linarith
  · intro k hk; exact Int.ceil_le.mpr (by linarith)

/-- `from_float` is the smallest box whose pixel-edge extent covers the rectangle:
it covers it, and any box whose extent covers it encloses it (corner order). -/
theorem fromFloat_min (xmin xmax ymin ymax : α) (b : BBox)
    (h : BBox.fromFloat xmin xmax ymin ymax = .ok b) :
    ((b.ixmin : α) - 1/2 ≤ xmin ∧ xmax ≤ (b.ixmax : α) - 1/2 ∧
     (b.iymin : α) - 1/2 ≤ ymin ∧ ymax ≤ (b.iymax : α) - 1/2) ∧
    ∀ c : BBox, ((c.ixmin : α) - 1/2 ≤ xmin ∧ xmax ≤ (c.ixmax : α) - 1/2 ∧
                 (c.iymin : α) - 1/2 ≤ ymin ∧ ymax ≤ (c.iymax : α) - 1/2) → cornerLe b c := by
  obtain ⟨hb, -⟩ := ctor_value _ _ _ _ _ h
  subst hb
  refine ⟨⟨(fromFloat_lower xmin).1, (fromFloat_upper xmax).1,
           (fromFloat_lower ymin).1, (fromFloat_upper ymax).1⟩, ?_⟩
  rintro c ⟨h1, h2, h3, h4⟩
  exact ⟨(fromFloat_lower xmin).2 _ h1, (fromFloat_upper xmax).2 _ h2,
         (fromFloat_lower ymin).2 _ h3, (fromFloat_upper ymax).2 _ h4⟩

/-- integer translation commutes with `from_float` (used by C15). -/
theorem fromFloat_translate (x : α) (k : Int) :
    ⌊x + (k : α) + 1/2⌋ = ⌊x + 1/2⌋ + k ∧ ⌈x + (k : α) + 1/2⌉ = ⌈x + 1/2⌉ + k := by
  constructor
  · rw [show x + (k : α) + 1/2 = (x + 1/2) + (k : α) by ring, Int.floor_add_intCast]
  · rw [show x + (k : α) + 1/2 = (x + 1/2) + (k : α) by ring, Int.ceil_add_intCast]

end fromFloat

-- the generic theorems instantiate at both number domains used by the framework
example := @fromFloat_min ℚ _ _ _ _
example := @fromFloat_min ℝ _ _ _ _

/-! ### overlap slices -/

/-- both windows are within range: `0 ≤ start ≤ stop ≤ dim` — no negative index ever
reaches numpy (no wrap-around), for the image axes and for the box-array axes. -/
theorem slices_in_range (b : BBox) (ny nx : Int) (hb : b.WF) (hny : 0 ≤ ny) (hnx : 0 ≤ nx)
    (l s : Slice × Slice)
    (h : b.overlapSlices ny nx = some (l, s)) :
    (0 ≤ l.1.start ∧ l.1.start ≤ l.1.stop ∧ l.1.stop ≤ ny) ∧
    (0 ≤ l.2.start ∧ l.2.start ≤ l.2.stop ∧ l.2.stop ≤ nx) ∧
    (0 ≤ s.1.start ∧ s.1.start ≤ s.1.stop ∧ s.1.stop ≤ b.shape.1) ∧
    (0 ≤ s.2.start ∧ s.2.start ≤ s.2.stop ∧ s.2.stop ≤ b.shape.2) := by
  unfold BBox.overlapSlices at h; simp only at h
  split at h
  · simp at h
  · simp only [Option.some.injEq, Prod.mk.injEq] at h
    obtain ⟨hl, hs⟩ := h; subst hl; subst hs
    simp only [BBox.WF, BBox.shape] at *
    refine ⟨⟨?_, ?_, ?_⟩, ⟨?_, ?_, ?_⟩, ⟨?_, ?_, ?_⟩, ⟨?_, ?_, ?_⟩⟩ <;> omega

/-- equal-shaped windows. -/
theorem slices_same_shape (b : BBox) (ny nx : Int) (l s : Slice × Slice)
    (h : b.overlapSlices ny nx = some (l, s)) :
    l.1.stop - l.1.start = s.1.stop - s.1.start ∧ l.2.stop - l.2.start = s.2.stop - s.2.start := by
  unfold BBox.overlapSlices at h; simp only at h
  split at h
  · simp at h
  · simp only [Option.some.injEq, Prod.mk.injEq] at h
    obtain ⟨hl, hs⟩ := h; subst hl; subst hs; simp only; omega

/-- the large window selects exactly the pixels common to box and image; the small window
selects the same pixels in box coordinates (`x - ixmin`, `y - iymin`). -/
theorem slices_select_common (b : BBox) (ny nx : Int) (l s : Slice × Slice)
    (h : b.overlapSlices ny nx = some (l, s)) (x y : Int) :
    ((inSlice l.2 x ∧ inSlice l.1 y) ↔ (inBox b x y ∧ inImage ny nx x y)) ∧
    ((inSlice s.2 (x - b.ixmin) ∧ inSlice s.1 (y - b.iymin)) ↔ (inBox b x y ∧ inImage ny nx x y)) ∧
    (s.2.start - l.2.start = -b.ixmin ∧ s.1.start - l.1.start = -b.iymin) := by
  unfold BBox.overlapSlices at h; simp only at h
  split at h
  · simp at h
  · simp only [Option.some.injEq, Prod.mk.injEq] at h
    obtain ⟨hl, hs⟩ := h; subst hl; subst hs
    unfold inSlice inBox inImage; simp only; omega

/-- `(None, None)` is only returned when there is no common pixel. -/
theorem slices_none_disjoint (b : BBox) (ny nx : Int) (h : b.overlapSlices ny nx = none)
    (x y : Int) : ¬ (inBox b x y ∧ inImage ny nx x y) := by
  unfold BBox.overlapSlices at h; simp only at h
  split at h
  · unfold inBox inImage; omega
  · simp at h

/-- for a non-empty box and a non-empty image, `(None, None)` *exactly* when there is no
common pixel. -/
theorem slices_none_iff_partial (b : BBox) (ny nx : Int) (hb : nonEmpty b)
    (hi : 0 < ny ∧ 0 < nx) :
    b.overlapSlices ny nx = none ↔ ∀ x y, ¬ (inBox b x y ∧ inImage ny nx x y) := by
  constructor
  · exact slices_none_disjoint b ny nx
  · intro h
    unfold BBox.overlapSlices; simp only
    rw [if_pos]
    by_contra hc
    have := h (max b.ixmin 0) (max b.iymin 0)
    unfold inBox inImage nonEmpty at *; omega

/-- FULL-STRENGTH: "(None, None) exactly when there are none", for every well-formed box
and every image shape including empty boxes and zero-sized images. -/
def slices_none_iff_full : Prop :=
  ∀ (b : BBox) (ny nx : Int), b.WF → 0 ≤ ny → 0 ≤ nx →
    (b.overlapSlices ny nx = none ↔ ∀ x y, ¬ (inBox b x y ∧ inImage ny nx x y))

/-- refuted on the model of the current code by an empty box inside the image
(finding F16b): there is no common pixel, yet empty windows are returned. -/
theorem slices_none_iff_full_refuted : ¬ slices_none_iff_full := by
  intro h
  have := (h ⟨1, 1, 1, 2⟩ 3 3 (by decide) (by decide) (by decide)).mpr
    (by intro x y; unfold inBox inImage; simp only; omega)
  simp [BBox.overlapSlices] at this

example : nonEmpty ⟨-2, 3, 1, 4⟩ ∧ (0 : Int) < 5 ∧ (0 : Int) < 4 := by unfold nonEmpty; decide

end RegionsVerif.Props.C19
