/-
C01 / C18 (rectangles as polygons) — the `corners` of a rectangle with positive sides form a
strictly convex counter-clockwise quadrilateral, the open rectangle (`contains`) is exactly the open
polygon of the corners, hence the even-odd implementation on `to_polygon()` agrees with the
rectangle (by `pnpoly_convex`).
-/
import RegionsVerif.Props.C01Convex
import Mathlib.Tactic.LinearCombination

namespace RegionsVerif.Props.C01
open RegionsVerif.Impl

section field
variable {α : Type} [Field α] [LinearOrder α] [IsStrictOrderedRing α]

/-- the four corners (the `corners` property, used by `to_polygon`, `as_artist`, `bounding_box`)
of a rectangle with positive sides form a strictly convex counter-clockwise quadrilateral. -/
theorem rect_corners_convex (r : Rect α) (hw : 0 < r.width) (hh : 0 < r.height) (hu : r.dir.IsUnit) :
    ConvexCCW r.corners := by
  unfold Dir.IsUnit at hu
  have hwh : 0 < r.width * r.height := mul_pos hw hh
  have key : ∀ x : α, x = r.width * r.height * (r.dir.c ^ 2 + r.dir.s ^ 2) → 0 < x := by
    intro x hx; rw [hx, hu, mul_one]; exact hwh
  simp only [Rect.corners, List.map_cons, List.map_nil, ConvexCCW, List.pairwise_cons, List.Pairwise.nil,
    List.mem_cons, List.not_mem_nil, or_false, forall_eq_or_imp, forall_eq, and_true, implies_true,
    false_imp_iff]
  refine ⟨⟨⟨?_, ?_⟩, ?_⟩, ?_⟩ <;> (apply key; unfold orient; simp only; ring)

/-- corner with body coordinates `(a, b)`. -/
def cornerPt (r : Rect α) (a b : α) : Pt α :=
  ⟨r.center.x + (r.dir.c * a - r.dir.s * b), r.center.y + (r.dir.s * a + r.dir.c * b)⟩

theorem rect_corners_eq (r : Rect α) :
    r.corners = [cornerPt r (-(r.width / 2)) (-(r.height / 2)), cornerPt r (r.width / 2) (-(r.height / 2)),
      cornerPt r (r.width / 2) (r.height / 2), cornerPt r (-(r.width / 2)) (r.height / 2)] := rfl

/-- edge determinant of two corners: linear in the rotated-back offset of `p`. -/
theorem orient_corners (r : Rect α) (a1 b1 a2 b2 : α) (p : Pt α) :
    orient (cornerPt r a1 b1) (cornerPt r a2 b2) p =
      (a2 - a1) * (-(r.dir.s * (p.x - r.center.x) - r.dir.c * (p.y - r.center.y)) - b1 * (r.dir.c ^ 2 + r.dir.s ^ 2))
      - (b2 - b1) * ((r.dir.c * (p.x - r.center.x) + r.dir.s * (p.y - r.center.y)) - a1 * (r.dir.c ^ 2 + r.dir.s ^ 2)) := by
  unfold orient cornerPt; simp only; ring

/-- the open rectangle (`contains` before the include flag) is exactly the open polygon of its corners. -/
theorem rect_inRaw_iff_polyInside (r : Rect α) (hw : 0 < r.width) (hh : 0 < r.height) (hu : r.dir.IsUnit)
    (p : Pt α) : r.inRaw p = true ↔ polyInside r.corners p := by
  unfold Dir.IsUnit at hu
  have hp : cyclicPairs r.corners =
      [(cornerPt r (-(r.width / 2)) (-(r.height / 2)), cornerPt r (-(r.width / 2)) (r.height / 2)),
       (cornerPt r (r.width / 2) (-(r.height / 2)), cornerPt r (-(r.width / 2)) (-(r.height / 2))),
       (cornerPt r (r.width / 2) (r.height / 2), cornerPt r (r.width / 2) (-(r.height / 2))),
       (cornerPt r (-(r.width / 2)) (r.height / 2), cornerPt r (r.width / 2) (r.height / 2))] := rfl
  unfold polyInside
  rw [hp]
  simp only [List.mem_cons, List.not_mem_nil, or_false, forall_eq_or_imp, forall_eq, orient_corners, hu, mul_one]
  unfold Rect.inRaw
  simp only [Bool.and_eq_true, decide_eq_true_iff, abs_lt]
  generalize r.dir.c * (p.x - r.center.x) + r.dir.s * (p.y - r.center.y) = X
  generalize r.dir.s * (p.x - r.center.x) - r.dir.c * (p.y - r.center.y) = Y
  constructor
  · rintro ⟨⟨a1, a2⟩, ⟨b1, b2⟩⟩
    refine ⟨?_, ?_, ?_, ?_⟩ <;> nlinarith
  · rintro ⟨h1, h2, h3, h4⟩
    refine ⟨⟨?_, ?_⟩, ⟨?_, ?_⟩⟩ <;> nlinarith

/-- **Rectangle as polygon** (`RectanglePixelRegion.to_polygon`): the even-odd implementation on
the four corners answers what the rectangle's own `contains` answers — `true` on the open
rectangle (off the diagonal through the first corner), `false` off the closed rectangle. -/
theorem pnpoly_rect_corners (r : Rect α) (hw : 0 < r.width) (hh : 0 < r.height) (hu : r.dir.IsUnit) (p : Pt α) :
    ((r.inRaw p = true ∧ offFan r.corners p) → pnpoly r.corners p = true) ∧
    (polyOutside r.corners p → pnpoly r.corners p = false) := by
  have h := pnpoly_convex r.corners p (by rw [rect_corners_eq]; simp) (rect_corners_convex r hw hh hu)
  refine ⟨fun ⟨hin, hoff⟩ => h.1 ⟨(rect_inRaw_iff_polyInside r hw hh hu p).mp hin, hoff⟩, h.2⟩

end field
end RegionsVerif.Props.C01
