/-
C01 (polygons): the even-odd answer does not depend on which vertex the list starts with, nor
on the direction in which the polygon is traversed.
-/
import RegionsVerif.Props.C01Poly
import Mathlib.Data.List.Rotate
import Mathlib.Data.List.Zip

namespace RegionsVerif.Props.C01
open RegionsVerif.Impl

section
variable {α : Type} [Field α] [LinearOrder α] [IsStrictOrderedRing α]

omit [Field α] [LinearOrder α] [IsStrictOrderedRing α] in
/-- `last :: dropLast` is the list rotated by `length − 1`. -/
theorem getLast_cons_dropLast (vs : List (Pt α)) (l : Pt α) (h : vs.getLast? = some l) :
    l :: vs.dropLast = vs.rotate (vs.length - 1) := by
  have hne : vs ≠ [] := by intro h0; rw [h0] at h; simp at h
  rw [List.rotate_eq_drop_append_take (Nat.sub_le _ _)]
  have hl : vs.getLast hne = l := by
    rw [List.getLast?_eq_some_getLast hne] at h; exact Option.some.inj h
  have h1 : vs.drop (vs.length - 1) = [l] := by
    rw [List.drop_length_sub_one hne, hl]
  have h2 : vs.take (vs.length - 1) = vs.dropLast := List.dropLast_eq_take.symm
  rw [h1, h2]; rfl

omit [Field α] [LinearOrder α] [IsStrictOrderedRing α] in
theorem cyclicPairs_eq_zip_rotate (vs : List (Pt α)) (hne : vs ≠ []) :
    cyclicPairs vs = vs.zip (vs.rotate (vs.length - 1)) := by
  unfold cyclicPairs
  obtain ⟨l, hl⟩ : ∃ l, vs.getLast? = some l := ⟨_, List.getLast?_eq_some_getLast hne⟩
  rw [hl]
  simp only
  rw [getLast_cons_dropLast vs l hl]

omit [Field α] [LinearOrder α] [IsStrictOrderedRing α] in
/-- rotating the vertex list rotates the list of edges. -/
theorem cyclicPairs_rotate (vs : List (Pt α)) (k : Nat) :
    cyclicPairs (vs.rotate k) = (cyclicPairs vs).rotate k := by
  by_cases hne : vs = []
  · subst hne; simp [cyclicPairs]
  · have hne' : vs.rotate k ≠ [] := by
      intro h; exact hne (List.rotate_eq_nil_iff.mp h)
    rw [cyclicPairs_eq_zip_rotate _ hne', cyclicPairs_eq_zip_rotate _ hne, List.length_rotate,
        List.rotate_rotate, Nat.add_comm, ← List.rotate_rotate]
    have := List.zipWith_rotate_distrib Prod.mk vs (vs.rotate (vs.length - 1)) k (by simp)
    simp only [List.zip] at this ⊢
    exact this.symm

/-- **the answer does not depend on the starting vertex.** -/
theorem pnpoly_rotate (vs : List (Pt α)) (k : Nat) (p : Pt α) :
    pnpoly (vs.rotate k) p = pnpoly vs p := by
  unfold pnpoly pnpolyCount
  rw [cyclicPairs_rotate]
  have hp : List.Perm (((cyclicPairs vs).rotate k).filter (fun e => edgeCross p e.1 e.2))
      ((cyclicPairs vs).filter (fun e => edgeCross p e.1 e.2)) :=
    (List.rotate_perm _ k).filter _
  rw [hp.length_eq]

omit [Field α] [LinearOrder α] [IsStrictOrderedRing α] in
/-- the edges of the reversed polygon are the original edges traversed the other way. -/
theorem cyclicPairs_reverse_perm (vs : List (Pt α)) :
    List.Perm (cyclicPairs vs.reverse) ((cyclicPairs vs).map Prod.swap) := by
  by_cases hne : vs = []
  · subst hne; simp [cyclicPairs]
  · have hne' : vs.reverse ≠ [] := by simpa using hne
    have hlen : 0 < vs.length := List.length_pos_of_ne_nil hne
    rw [cyclicPairs_eq_zip_rotate _ hne', cyclicPairs_eq_zip_rotate _ hne, List.zip_swap,
        List.length_reverse, List.rotate_reverse]
    have hmod : (vs.length - 1) % vs.length = vs.length - 1 := Nat.mod_eq_of_lt (by omega)
    have hone : vs.length - (vs.length - 1) % vs.length = 1 := by rw [hmod]; omega
    rw [hone]
    -- zip vs.reverse (vs.rotate 1).reverse = (zip vs (vs.rotate 1)).reverse
    have hz : vs.reverse.zip (vs.rotate 1).reverse = (vs.zip (vs.rotate 1)).reverse := by
      have := List.reverse_zipWith (f := Prod.mk) (l := vs) (l' := vs.rotate 1) (by simp)
      simp only [List.zip] at this ⊢
      exact this.symm
    rw [hz]
    -- zip (vs.rotate (n-1)) vs = (zip vs (vs.rotate 1)).rotate (n-1)
    have hr : (vs.rotate (vs.length - 1)).zip vs = (vs.zip (vs.rotate 1)).rotate (vs.length - 1) := by
      have := List.zipWith_rotate_distrib Prod.mk vs (vs.rotate 1) (vs.length - 1) (by simp)
      simp only [List.zip] at this ⊢
      rw [this, List.rotate_rotate]
      have : 1 + (vs.length - 1) = vs.length := by omega
      rw [this, List.rotate_length]
    rw [hr]
    exact (List.reverse_perm _).trans (List.rotate_perm _ _).symm

/-- **the answer does not depend on the direction of traversal.** -/
theorem pnpoly_reverse (vs : List (Pt α)) (p : Pt α) : pnpoly vs.reverse p = pnpoly vs p := by
  unfold pnpoly pnpolyCount
  have hp := (cyclicPairs_reverse_perm vs).filter (fun e => edgeCross p e.1 e.2)
  rw [hp.length_eq, List.filter_map, List.length_map]
  congr 3
  apply List.filter_congr
  intro e _
  simp only [Function.comp, Prod.fst_swap, Prod.snd_swap]
  exact edgeCross_symm p e.2 e.1

end

end RegionsVerif.Props.C01
