/-
C02 × C01 (strictly convex polygons) — the centre-mode mask of a strictly convex polygon IS the
geometric point set on the pixel grid: a cell is 1 at every pixel centre of the open polygon (off the
fan diagonals from some vertex), 0 at every pixel centre off the closed polygon.  Composition of the
mask theorem `polygon_center_mask` (C02Mask) with `pnpoly_convex_final` (C01Convex); the same for the
`subpixels` mode: a pixel all of whose sample centres are interior (off one fan) has weight 1, a pixel
all of whose sample centres are exterior has weight 0.
-/
import RegionsVerif.Props.C02Mask
import RegionsVerif.Props.C01Convex

namespace RegionsVerif.Props.C02
open RegionsVerif.Impl RegionsVerif.Props RegionsVerif.Props.C01

/-- centre of pixel `(j, i)` of a mask, in absolute pixel coordinates. -/
def pixCentre (b : BBox) (j i : Nat) : Pt ℚ := ⟨(b.ixmin : ℚ) + i, (b.iymin : ℚ) + j⟩

theorem polygon_center_mask_convex (g : Polygon ℚ) (m : GenMask)
    (h : polygonToMask g .center = .ok m) (h3 : 3 ≤ g.vertices.length) (hc : ConvexCCW g.vertices)
    (j i : Nat) (hi : (i : Int) < m.bbox.shape.2) (hj : (j : Int) < m.bbox.shape.1) :
    ((polyInside g.vertices (pixCentre m.bbox j i) ∧ ∃ k, offFan (g.vertices.rotate k) (pixCentre m.bbox j i))
        → m.cell j i = 1) ∧
    (polyOutside g.vertices (pixCentre m.bbox j i) → m.cell j i = 0) := by
  have hm := polygon_center_mask g m h j i hi hj
  have hf := pnpoly_convex_final g.vertices (pixCentre m.bbox j i) h3 hc
  constructor
  · intro hin
    rw [hm]
    have : g.inRaw (pixCentre m.bbox j i) = true := hf.1 hin
    unfold pixCentre at this
    simp [this]
  · intro hout
    rw [hm]
    have : g.inRaw (pixCentre m.bbox j i) = false := hf.2 hout
    unfold pixCentre at this
    simp [this]

/-- the fraction of sample centres is 1 when the predicate holds at every sample, 0 when at none. -/
theorem sampledFrac_all (S : ℚ → ℚ → Bool) (b : BBox) (n j i : Nat) (hn : 0 < n)
    (hall : ∀ a k : Nat, a < n → k < n →
      S ((b.ixmin : ℚ) + i - 1/2 + ((a : ℚ) + 1/2) / n) ((b.iymin : ℚ) + j - 1/2 + ((k : ℚ) + 1/2) / n) = true) :
    sampledFrac S b n j i = 1 := by
  unfold sampledFrac
  have hrow : ∀ a ∈ List.range n,
      ((List.range n).filter fun (k : Nat) =>
        S ((b.ixmin : ℚ) + i - 1/2 + ((a : ℚ) + 1/2) / n) ((b.iymin : ℚ) + j - 1/2 + ((k : ℚ) + 1/2) / n)).length = n := by
    intro a ha
    rw [List.filter_eq_self.mpr]
    · simp
    · intro k hk
      exact hall a k (List.mem_range.mp ha) (List.mem_range.mp hk)
  rw [List.map_congr_left hrow]
  simp only [List.map_const', List.length_range, List.sum_replicate, smul_eq_mul]
  have : (n : ℚ) ≠ 0 := by exact_mod_cast hn.ne'
  push_cast
  field_simp

theorem sampledFrac_none (S : ℚ → ℚ → Bool) (b : BBox) (n j i : Nat)
    (hnone : ∀ a k : Nat, a < n → k < n →
      S ((b.ixmin : ℚ) + i - 1/2 + ((a : ℚ) + 1/2) / n) ((b.iymin : ℚ) + j - 1/2 + ((k : ℚ) + 1/2) / n) = false) :
    sampledFrac S b n j i = 0 := by
  unfold sampledFrac
  have hrow : ∀ a ∈ List.range n,
      ((List.range n).filter fun (k : Nat) =>
        S ((b.ixmin : ℚ) + i - 1/2 + ((a : ℚ) + 1/2) / n) ((b.iymin : ℚ) + j - 1/2 + ((k : ℚ) + 1/2) / n)).length = 0 := by
    intro a ha
    rw [List.length_eq_zero_iff, List.filter_eq_nil_iff]
    intro k hk
    rw [hnone a k (List.mem_range.mp ha) (List.mem_range.mp hk)]
    decide
  rw [List.map_congr_left hrow]
  simp

/-- sample centre `(a, k)` of pixel `(j, i)` with `n × n` sub-pixels. -/
def subCentre (b : BBox) (n j i a k : Nat) : Pt ℚ :=
  ⟨(b.ixmin : ℚ) + i - 1/2 + ((a : ℚ) + 1/2) / n, (b.iymin : ℚ) + j - 1/2 + ((k : ℚ) + 1/2) / n⟩

/-- **sub-pixel masks of strictly convex polygons**: weight 1 on pixels whose samples are all interior
(each off the fan from some vertex), weight 0 on pixels whose samples are all exterior. -/
theorem polygon_subpixel_mask_convex (g : Polygon ℚ) (mode : MaskMode) (n : Nat) (hn : 0 < n)
    (hmode : subpixOf mode = some n) (m : GenMask) (h : polygonToMask g mode = .ok m)
    (h3 : 3 ≤ g.vertices.length) (hc : ConvexCCW g.vertices)
    (j i : Nat) (hi : (i : Int) < m.bbox.shape.2) (hj : (j : Int) < m.bbox.shape.1) :
    ((∀ a k : Nat, a < n → k < n → polyInside g.vertices (subCentre m.bbox n j i a k) ∧
        ∃ r, offFan (g.vertices.rotate r) (subCentre m.bbox n j i a k)) → m.cell j i = 1) ∧
    ((∀ a k : Nat, a < n → k < n → polyOutside g.vertices (subCentre m.bbox n j i a k)) → m.cell j i = 0) := by
  have hm := (polygon_mask_spec g mode n hmode m h).2 j i hi hj
  constructor
  · intro hall
    rw [hm]
    apply sampledFrac_all _ _ _ _ _ hn
    intro a k ha hk
    exact (pnpoly_convex_final g.vertices (subCentre m.bbox n j i a k) h3 hc).1 (hall a k ha hk)
  · intro hnone
    rw [hm]
    apply sampledFrac_none
    intro a k ha hk
    exact (pnpoly_convex_final g.vertices (subCentre m.bbox n j i a k) h3 hc).2 (hnone a k ha hk)

end RegionsVerif.Props.C02

namespace RegionsVerif.Props.C02
open RegionsVerif.Impl RegionsVerif.Props RegionsVerif.Props.C01

/-! ### the premises are satisfiable: the pentagon of C01Convex -/

/-- the centre-mode mask of the pentagon exists, and its cell (row 2, column 3) is a pixel whose centre
is interior and off the fan from vertex 0; the model computes 1 there, and 0 at cell (0, 7). -/
example : (match polygonToMask ⟨pentagon⟩ .center with
    | .ok m => decide (m.cell 2 3 = 1 ∧ m.cell 0 7 = 0 ∧ m.bbox.shape = (7, 8))
    | .error _ => false) = true := by decide +kernel

end RegionsVerif.Props.C02
