/-
C18 — the matplotlib artist of a region depicts the region.

Theorems about `Impl.Artist` (model of every `as_artist`, of
`CompoundPixelRegion._make_annulus_path`, `RegionBoundingBox.as_artist` and
`RegionVisual.define_mpl_kwargs`).  *Partial* proof: the meaning of the matplotlib
constructors (`Artist.inRectangle`, `inEllipse`, `inCircle`, the non-zero winding rule,
`CLOSEPOLY` ignoring its vertex, `rotate_deg`) is a PARAMETER written down from matplotlib's
documentation; given that meaning, the theorems hold for ALL centres, sizes, unit rotation
vectors, plot origins, vertex lists and dictionaries.
-/
import RegionsVerif.Impl.Artist
import RegionsVerif.Props.C01
import RegionsVerif.Props.C01Poly
import Mathlib.Analysis.SpecialFunctions.Trigonometric.Basic
import Mathlib.Tactic.Linarith
import Mathlib.Tactic.Ring
import Mathlib.Tactic.FieldSimp
import Mathlib.Tactic.LinearCombination

namespace RegionsVerif.Props.C18
open RegionsVerif.Impl RegionsVerif.Impl.Artist RegionsVerif.Props

section field
variable {α : Type} [Field α] [LinearOrder α] [IsStrictOrderedRing α]

/-- `p + origin`: the image position that is drawn at `p` when the plot origin is `origin`. -/
def plusOrigin (p o : Pt α) : Pt α := ⟨p.x + o.x, p.y + o.y⟩

/-! ### rectangle -/

/-- **the `Rectangle` patch built by `RectanglePixelRegion.as_artist` outlines the region moved
by `−origin`**: `p` is inside `Rectangle(_lower_left_xy − origin, width, height, angle°)`
exactly when the region contains `p + origin` — for all centres, sizes, origins and every
rotation (`rot deg = dir`: matplotlib's rotation by the degree value is the region's
`(cos, sin)`). -/
theorem rect_patch_set (rot : α → Dir α) (c : Pt α) (w h : α) (a : Ang α) (o p : Pt α)
    (hrot : rot a.deg = a.dir) (hu : a.dir.IsUnit) :
    (∃ xy w' h' ang, simpleArtist (.rect c w h a) o = some (.rectangle xy w' h' ang) ∧
        (inRectangle rot xy w' h' ang p ↔ (Rect.mk c w h a.dir).inRaw (plusOrigin p o) = true)) := by
  refine ⟨_, _, _, _, rfl, ?_⟩
  rw [C01.rect_contains_iff _ _ hu]
  simp only [inRectangle, hrot, Rect.lowerLeft, minusOrigin, plusOrigin]
  constructor
  · rintro ⟨x, y, hx0, hx1, hy0, hy1, ex, ey⟩
    refine ⟨x - w / 2, y - h / 2, ?_, ?_, ?_, ?_⟩
    · rw [ex]; ring
    · rw [ey]; ring
    · rw [abs_lt]; constructor <;> linarith
    · rw [abs_lt]; constructor <;> linarith
  · rintro ⟨x, y, ex, ey, hx, hy⟩
    rw [abs_lt] at hx hy
    refine ⟨x + w / 2, y + h / 2, by linarith, by linarith, by linarith, by linarith, ?_, ?_⟩
    · linear_combination ex
    · linear_combination ey

/-- the same including the outline: the closed patch is the closed rectangle with sides
`w`, `h` along `u`, `u⊥` centred at `center − origin`. -/
theorem rect_patch_closed (rot : α → Dir α) (c : Pt α) (w h : α) (a : Ang α) (o p : Pt α)
    (hrot : rot a.deg = a.dir) :
    onOrInRectangle rot (minusOrigin (Rect.mk c w h a.dir).lowerLeft o) w h a.deg p ↔
      ∃ x y : α, |x| ≤ w / 2 ∧ |y| ≤ h / 2 ∧
        p.x + o.x = c.x + x * a.dir.c - y * a.dir.s ∧ p.y + o.y = c.y + x * a.dir.s + y * a.dir.c := by
  simp only [onOrInRectangle, hrot, Rect.lowerLeft, minusOrigin]
  constructor
  · rintro ⟨x, y, hx0, hx1, hy0, hy1, ex, ey⟩
    refine ⟨x - w / 2, y - h / 2, ?_, ?_, ?_, ?_⟩
    · rw [abs_le]; constructor <;> linarith
    · rw [abs_le]; constructor <;> linarith
    · rw [ex]; ring
    · rw [ey]; ring
  · rintro ⟨x, y, hx, hy, ex, ey⟩
    rw [abs_le] at hx hy
    refine ⟨x + w / 2, y + h / 2, by linarith, by linarith, by linarith, by linarith, ?_, ?_⟩
    · linear_combination ex
    · linear_combination ey

/-- the four corners of the patch's outline are the region's `corners` moved by `−origin`, in
the same (counter-clockwise) order, starting at the lower-left one. -/
theorem rect_patch_corners (rot : α → Dir α) (c : Pt α) (w h : α) (a : Ang α) (o : Pt α)
    (hrot : rot a.deg = a.dir) :
    (rectanglePath rot (minusOrigin (Rect.mk c w h a.dir).lowerLeft o) w h a.deg).1.dropLast
      = (Rect.mk c w h a.dir).corners.map (fun v => minusOrigin v o) := by
  simp only [rectanglePath, hrot, Rect.lowerLeft, Rect.corners, minusOrigin, List.dropLast,
    List.map_cons, List.map_nil, List.cons.injEq, Pt.mk.injEq, and_true]
  refine ⟨⟨?_, ?_⟩, ⟨?_, ?_⟩, ⟨?_, ?_⟩, ⟨?_, ?_⟩⟩ <;> ring

/-! ### ellipse, circle -/

/-- **`Ellipse(center − origin, width, height, angle°)` is the region moved by `−origin`**
(closed sets: `EllipsePixelRegion.contains` uses `≤`).  Width and height are the FULL axes on
both sides and are not swapped. -/
theorem ellipse_patch_set (rot : α → Dir α) (c : Pt α) (w h : α) (a : Ang α) (o p : Pt α)
    (hrot : rot a.deg = a.dir) (hu : a.dir.IsUnit) :
    (∃ xy w' h' ang, simpleArtist (.ellipse c w h a) o = some (.ellipse xy w' h' ang) ∧
        (onOrInEllipse rot xy w' h' ang p ↔ (Ellipse.mk c w h a.dir).inRaw (plusOrigin p o) = true)) := by
  refine ⟨_, _, _, _, rfl, ?_⟩
  rw [C01.ellipse_contains_iff _ _ hu]
  simp only [onOrInEllipse, hrot, minusOrigin, plusOrigin]
  have e : ∀ x y : α, (x / (w / 2)) ^ 2 + (y / (h / 2)) ^ 2 = (2 * x / w) ^ 2 + (2 * y / h) ^ 2 := by
    intro x y
    rw [div_div_eq_mul_div, div_div_eq_mul_div, mul_comm x 2, mul_comm y 2]
  constructor
  · rintro ⟨x, y, hq, ex, ey⟩
    exact ⟨x, y, by rw [ex]; ring, by rw [ey]; ring, by rw [← e]; exact hq⟩
  · rintro ⟨x, y, ex, ey, hq⟩
    exact ⟨x, y, by rw [e]; exact hq, by linear_combination ex, by linear_combination ey⟩

/-- the open ellipse patch is the set where the region's quadratic form is `< 1`. -/
theorem ellipse_patch_open (rot : α → Dir α) (c : Pt α) (w h : α) (a : Ang α) (o p : Pt α)
    (hrot : rot a.deg = a.dir) (hu : a.dir.IsUnit) :
    inEllipse rot (minusOrigin c o) w h a.deg p ↔
      (2 * (a.dir.c * (p.x + o.x - c.x) + a.dir.s * (p.y + o.y - c.y)) / w) ^ 2
        + (2 * (a.dir.s * (p.x + o.x - c.x) - a.dir.c * (p.y + o.y - c.y)) / h) ^ 2 < 1 := by
  unfold Dir.IsUnit at hu
  simp only [inEllipse, hrot, minusOrigin]
  have e : ∀ x y : α, (x / (w / 2)) ^ 2 + (y / (h / 2)) ^ 2 = (2 * x / w) ^ 2 + (2 * y / h) ^ 2 := by
    intro x y
    rw [div_div_eq_mul_div, div_div_eq_mul_div, mul_comm x 2, mul_comm y 2]
  constructor
  · rintro ⟨x, y, hq, ex, ey⟩
    have e1 : a.dir.c * (p.x + o.x - c.x) + a.dir.s * (p.y + o.y - c.y) = x := by
      rw [ex, ey]; linear_combination x * hu
    have e2 : a.dir.s * (p.x + o.x - c.x) - a.dir.c * (p.y + o.y - c.y) = -y := by
      rw [ex, ey]; linear_combination (-y) * hu
    rw [e1, e2, show (2 * -y / h) ^ 2 = (2 * y / h) ^ 2 by ring, ← e]; exact hq
  · intro hq
    refine ⟨a.dir.c * (p.x + o.x - c.x) + a.dir.s * (p.y + o.y - c.y),
            -(a.dir.s * (p.x + o.x - c.x) - a.dir.c * (p.y + o.y - c.y)), ?_, ?_, ?_⟩
    · rw [e, show (2 * -(a.dir.s * (p.x + o.x - c.x) - a.dir.c * (p.y + o.y - c.y)) / h) ^ 2
          = (2 * (a.dir.s * (p.x + o.x - c.x) - a.dir.c * (p.y + o.y - c.y)) / h) ^ 2 by ring]
      exact hq
    · linear_combination (-(p.x + o.x - c.x)) * hu
    · linear_combination (-(p.y + o.y - c.y)) * hu

/-- **`Circle(center − origin, radius)` is the region moved by `−origin`.** -/
theorem circle_patch_set (c : Pt α) (r : α) (o p : Pt α) :
    (∃ xy r', simpleArtist (.circle c r) o = some (.circle xy r') ∧
        (inCircle xy r' p ↔ (Circle.mk c r).inRaw (plusOrigin p o) = true)) := by
  refine ⟨_, _, rfl, ?_⟩
  rw [C01.circle_contains_iff]
  simp only [inCircle, minusOrigin, plusOrigin]
  rw [show p.x - (c.x - o.x) = p.x + o.x - c.x by ring, show p.y - (c.y - o.y) = p.y + o.y - c.y by ring]

/-! ### sums over the edges of a closed polygon: reversal -/

section sums
variable {γ β : Type} [AddCommGroup β]

theorem chain_append_singleton (f : γ → γ → β) (l : List γ) (x : γ) :
    chain f (l ++ [x]) = chain f l + (match l.getLast? with | some z => f z x | none => 0) := by
  induction l with
  | nil => simp [chain]
  | cons p t ih =>
    cases t with
    | nil => simp [chain]
    | cons q t' =>
      have hl : (p :: q :: t').getLast? = (q :: t').getLast? := List.getLast?_cons_cons
      simp only [List.cons_append, chain, List.head?_cons] at ih ⊢
      rw [hl, ih]
      abel

/-- reversing an open chain negates the sum of any antisymmetric edge function. -/
theorem chain_reverse (f : γ → γ → β) (hf : ∀ a b, f a b = -f b a) (l : List γ) :
    chain f l.reverse = -chain f l := by
  induction l with
  | nil => simp [chain]
  | cons p t ih =>
    rw [List.reverse_cons, chain_append_singleton, ih, List.getLast?_reverse]
    cases t with
    | nil => simp [chain]
    | cons q t' =>
      simp only [List.head?_cons, chain]
      rw [hf q p]
      abel

/-- **reversal lemma**: traversing a closed polygon backwards negates the sum of any
antisymmetric edge function — for arbitrary vertex lists. -/
theorem cycSum_reverse (f : γ → γ → β) (hf : ∀ a b, f a b = -f b a) (l : List γ) :
    cycSum f l.reverse = -cycSum f l := by
  unfold cycSum
  rw [chain_reverse f hf, List.getLast?_reverse, List.head?_reverse]
  cases l.head? with
  | none => cases l.getLast? <;> simp
  | some h =>
    cases l.getLast? with
    | none => simp
    | some z => simp only []; rw [hf h z]; abel

end sums

omit [LinearOrder α] [IsStrictOrderedRing α] in
theorem cross_antisymm (p q : Pt α) : cross p q = -cross q p := by
  unfold cross; ring

omit [LinearOrder α] [IsStrictOrderedRing α] in
/-- **`shoelace (reverse l) = − shoelace l`** for arbitrary vertex lists. -/
theorem shoelace_reverse (l : List (Pt α)) : shoelace l.reverse = -shoelace l :=
  cycSum_reverse cross cross_antisymm l

omit [LinearOrder α] [IsStrictOrderedRing α] in
theorem isLeft_swap (a b p : Pt α) : isLeft b a p = -isLeft a b p := by
  unfold isLeft; ring

theorem windEdge_antisymm (p a b : Pt α) : windEdge p a b = -windEdge p b a := by
  unfold windEdge
  rw [isLeft_swap a b p]
  by_cases h1 : a.y ≤ p.y ∧ p.y < b.y ∧ 0 < isLeft a b p
  · have h2 : ¬ (b.y ≤ p.y ∧ p.y < a.y ∧ 0 < -isLeft a b p) := by
      rintro ⟨k1, k2, _⟩; linarith [h1.1, h1.2.1]
    have h3 : a.y ≤ p.y ∧ p.y < b.y ∧ -isLeft a b p < 0 := ⟨h1.1, h1.2.1, by linarith [h1.2.2]⟩
    rw [if_pos h1, if_neg h2, if_pos h3]; rfl
  · rw [if_neg h1]
    by_cases h2 : b.y ≤ p.y ∧ p.y < a.y ∧ isLeft a b p < 0
    · have h3 : b.y ≤ p.y ∧ p.y < a.y ∧ 0 < -isLeft a b p := ⟨h2.1, h2.2.1, by linarith [h2.2.2]⟩
      rw [if_pos h2, if_pos h3]
    · have h3 : ¬ (b.y ≤ p.y ∧ p.y < a.y ∧ 0 < -isLeft a b p) := by
        rintro ⟨k1, k2, k3⟩; exact h2 ⟨k1, k2, by linarith⟩
      have h4 : ¬ (a.y ≤ p.y ∧ p.y < b.y ∧ -isLeft a b p < 0) := by
        rintro ⟨k1, k2, k3⟩; exact h1 ⟨k1, k2, by linarith⟩
      rw [if_neg h2, if_neg h3, if_neg h4]; rfl

/-- the winding number of the reversed outline is the negative — for arbitrary vertex lists
and every point. -/
theorem wind_reverse (l : List (Pt α)) (p : Pt α) : wind l.reverse p = -wind l p :=
  cycSum_reverse (windEdge p) (windEdge_antisymm p) l


/-! ### even-odd (the region's `contains`) versus non-zero winding (the renderers' fill) -/

/-- an edge contributes `±1` to the winding number exactly when the region's even-odd test
counts it as a crossing. -/
theorem windEdge_parity (p a b : Pt α) :
    windEdge p a b % 2 = if edgeCross p a b = true then 1 else 0 := by
  by_cases hs : C01.straddles p a b = true
  · have ho := C01.edgeCross_orient p a b hs
    unfold C01.straddles at hs
    have hne : a.y ≠ b.y := by intro h; rw [h] at hs; simp at hs
    unfold windEdge isLeft
    by_cases hlt : a.y < b.y
    · rw [if_pos hlt] at ho
      have hup : a.y ≤ p.y ∧ p.y < b.y := by
        by_cases h1 : a.y > p.y <;> by_cases h2 : b.y > p.y <;> simp [h1, h2] at hs
        · exfalso; linarith [le_of_not_gt h2]
        · exact ⟨le_of_not_gt h1, h2⟩
      by_cases hc : edgeCross p a b = true
      · have := ho.mp hc
        rw [if_pos ⟨hup.1, hup.2, by linarith⟩, if_pos hc]; rfl
      · have hn : ¬ ((p.x - a.x) * (b.y - a.y) < (b.x - a.x) * (p.y - a.y)) := fun k => hc (ho.mpr k)
        rw [if_neg (by rintro ⟨_, _, k⟩; exact hn (by linarith)),
            if_neg (by rintro ⟨k1, k2, _⟩; linarith [hup.1, hup.2]), if_neg hc]; rfl
    · rw [if_neg hlt] at ho
      have hgt : b.y < a.y := lt_of_le_of_ne (le_of_not_gt hlt) (Ne.symm hne)
      have hdn : b.y ≤ p.y ∧ p.y < a.y := by
        by_cases h1 : a.y > p.y <;> by_cases h2 : b.y > p.y <;> simp [h1, h2] at hs
        · exact ⟨le_of_not_gt h2, h1⟩
        · exfalso; linarith [le_of_not_gt h1]
      by_cases hc : edgeCross p a b = true
      · have := ho.mp hc
        rw [if_neg (by rintro ⟨k1, k2, _⟩; linarith [hdn.1, hdn.2]),
            if_pos ⟨hdn.1, hdn.2, by linarith⟩, if_pos hc]; rfl
      · have hn : ¬ ((b.x - a.x) * (p.y - a.y) < (p.x - a.x) * (b.y - a.y)) := fun k => hc (ho.mpr k)
        rw [if_neg (by rintro ⟨k1, k2, _⟩; linarith [hdn.1, hdn.2]),
            if_neg (by rintro ⟨_, _, k⟩; exact hn (by linarith)), if_neg hc]; rfl
  · have hc : ¬ edgeCross p a b = true := fun k => hs (C01.edgeCross_straddles p a b k)
    unfold C01.straddles at hs
    unfold windEdge
    rw [if_neg hc]
    have h1 : ¬ (a.y ≤ p.y ∧ p.y < b.y ∧ 0 < isLeft a b p) := by
      rintro ⟨k1, k2, _⟩
      apply hs
      simp [not_lt.mpr k1, k2]
    have h2 : ¬ (b.y ≤ p.y ∧ p.y < a.y ∧ isLeft a b p < 0) := by
      rintro ⟨k1, k2, _⟩
      apply hs
      simp [not_lt.mpr k1, k2]
    rw [if_neg h1, if_neg h2]; rfl

omit [Field α] [LinearOrder α] [IsStrictOrderedRing α] in
theorem sum_pairsAux {β : Type} [AddCommGroup β] (f : Pt α → Pt α → β) (prev : Pt α) (l : List (Pt α)) :
    ((C01.pairsAux prev l).map fun e => f e.2 e.1).sum
      = (match l.head? with | some h => f prev h | none => 0) + chain f l := by
  induction l generalizing prev with
  | nil => simp [C01.pairsAux, chain]
  | cons v vs ih =>
    simp only [C01.pairsAux, List.map_cons, List.sum_cons, ih v, List.head?_cons, chain]
    cases vs.head? <;> rfl

omit [LinearOrder α] [IsStrictOrderedRing α] in
/-- the signed area used here is the shoelace sum of `PolygonPixelRegion.area`
(`Impl.shoelace2`, whose absolute value halved is the region's area). -/
theorem shoelace_eq_shoelace2 (vs : List (Pt α)) : shoelace vs = shoelace2 vs := by
  unfold shoelace2
  cases hl : vs.getLast? with
  | none =>
    have : vs = [] := List.getLast?_eq_none_iff.mp hl
    subst this
    simp [shoelace, cycSum, chain, cyclicPairs]
  | some last =>
    have e : (fun e : Pt α × Pt α => e.2.x * e.1.y - e.2.y * e.1.x) = fun e => cross e.2 e.1 := rfl
    rw [e, C01.cyclicPairs_eq vs last hl, sum_pairsAux]
    unfold shoelace cycSum
    rw [hl]
    cases vs.head? <;> simp [add_comm]

omit [IsStrictOrderedRing α] in
/-- the winding number as a sum over the same cyclic edge list the even-odd kernel walks. -/
theorem wind_eq_sum (vs : List (Pt α)) (p : Pt α) :
    wind vs p = ((cyclicPairs vs).map fun e => windEdge p e.2 e.1).sum := by
  cases hl : vs.getLast? with
  | none =>
    have : vs = [] := List.getLast?_eq_none_iff.mp hl
    subst this
    simp [wind, cycSum, chain, cyclicPairs]
  | some last =>
    rw [C01.cyclicPairs_eq vs last hl, sum_pairsAux]
    unfold wind cycSum
    rw [hl]
    cases vs.head? <;> simp [add_comm]

theorem sum_parity {ε : Type} (g : ε → Int) (c : ε → Bool) (hg : ∀ e, g e % 2 = if c e = true then 1 else 0)
    (E : List ε) : (E.map g).sum % 2 = ((E.filter c).length : Int) % 2 := by
  induction E with
  | nil => simp
  | cons e t ih =>
    rw [List.map_cons, List.sum_cons, Int.add_emod, hg e, ih]
    by_cases hc : c e = true
    · rw [if_pos hc, List.filter_cons_of_pos hc, List.length_cons]; omega
    · rw [if_neg hc, List.filter_cons_of_neg hc]; omega

/-- **the region's even-odd answer is the parity of the winding number** — for arbitrary
(also self-intersecting) vertex lists and every point. -/
theorem evenodd_iff_odd_winding (vs : List (Pt α)) (p : Pt α) :
    pnpoly vs p = true ↔ wind vs p % 2 = 1 := by
  rw [wind_eq_sum]
  have h := sum_parity (fun e : Pt α × Pt α => windEdge p e.2 e.1) (fun e => edgeCross p e.1 e.2)
    (by intro e; rw [windEdge_parity, C01.edgeCross_symm]) (cyclicPairs vs)
  rw [h]
  unfold pnpoly pnpolyCount
  simp only [beq_iff_eq]
  omega

/-- hence the even-odd rule (`contains`) and the non-zero rule (the renderers' fill of the
`Polygon` patch) give the same answer at every point whose winding number is `0` or odd — in
particular everywhere for a simple polygon (winding numbers `0`, `±1`); they differ exactly on
the parts of a self-intersecting outline that are wound around an even non-zero number of
times. -/
theorem polygon_fill_rules_agree (vs : List (Pt α)) (p : Pt α) :
    (pnpoly vs p = true ↔ insideNonzero [vs] p) ↔ (wind vs p = 0 ∨ wind vs p % 2 = 1) := by
  rw [evenodd_iff_odd_winding]
  unfold insideNonzero
  simp only [List.foldr_cons, List.foldr_nil, add_zero]
  constructor
  · intro h
    by_cases h0 : wind vs p = 0
    · exact Or.inl h0
    · exact Or.inr (h.mpr h0)
  · rintro (h | h)
    · rw [h]; simp
    · constructor
      · intro _ h0; rw [h0] at h; simp at h
      · intro _; exact h

/-! ### annulus path -/

omit [Field α] [LinearOrder α] [IsStrictOrderedRing α] in
/-- the polygon of the inner sub-path the code builds is the inner patch's polygon
REVERSED (for every vertex list; `closedPolygon` drops the vertex attached to `CLOSEPOLY`). -/
theorem reversedInner_polygon (vi : List (Pt α)) :
    closedPolygon (reversedInner vi) = (closedPolygon vi).reverse := by
  simp only [closedPolygon, reversedInner, List.getLast?_reverse]
  cases h : vi.dropLast.head? with
  | none =>
    have : vi.dropLast = [] := List.head?_eq_none_iff.mp h
    simp [this]
  | some l => simp only [List.dropLast_concat]

omit [Field α] [LinearOrder α] [IsStrictOrderedRing α] in
/-- the reversed inner part has as many vertices as the inner path (so the inner codes, which
are appended unchanged, line up with it) whenever the inner path has at least two vertices. -/
theorem reversedInner_length (vi : List (Pt α)) (h : 2 ≤ vi.length) :
    (reversedInner vi).length = vi.length := by
  simp only [reversedInner, List.getLast?_reverse]
  cases hl : vi.dropLast.head? with
  | none =>
    have : vi.dropLast = [] := List.head?_eq_none_iff.mp hl
    have := congrArg List.length this
    simp only [List.length_dropLast, List.length_nil] at this
    omega
  | some l =>
    simp only [List.length_append, List.length_reverse, List.length_dropLast, List.length_singleton]
    omega

/-- **the annulus path**: vertices = outer vertices ++ reversed inner vertices (+ the closing
vertex, as the code does), codes = outer codes ++ inner codes; the inner sub-path's polygon is
the inner patch's polygon reversed, hence its signed (shoelace) area is the NEGATIVE of the
inner patch's own and its winding number about every point is the negative. -/
theorem annulus_path (pin pout : List (Pt α) × List Nat) :
    (makeAnnulusPath pin pout).1 = pout.1 ++ reversedInner pin.1 ∧
    (makeAnnulusPath pin pout).2 = pout.2 ++ pin.2 ∧
    closedPolygon (reversedInner pin.1) = (closedPolygon pin.1).reverse ∧
    shoelace (closedPolygon (reversedInner pin.1)) = -shoelace (closedPolygon pin.1) ∧
    ∀ p, wind (closedPolygon (reversedInner pin.1)) p = -wind (closedPolygon pin.1) p := by
  refine ⟨rfl, rfl, reversedInner_polygon _, ?_, ?_⟩
  · rw [reversedInner_polygon, shoelace_reverse]
  · intro p; rw [reversedInner_polygon, wind_reverse]

/-- **the inner outline is a hole under the non-zero winding rule**: the total winding number
of the annulus path about `p` is `wind(outer) − wind(inner)`.  So a point that both component
outlines wind around equally often (e.g. once each, the two patches being drawn with the same
orientation) is OUTSIDE the annulus patch, and where the inner outline does not wind around
`p` the annulus patch agrees with the outer patch. -/
theorem annulus_hole (outerPoly innerPath : List (Pt α)) (p : Pt α) :
    (insideNonzero [outerPoly, closedPolygon (reversedInner innerPath)] p ↔
      wind outerPoly p ≠ wind (closedPolygon innerPath) p) := by
  unfold insideNonzero
  simp only [List.foldr_cons, List.foldr_nil, add_zero]
  rw [reversedInner_polygon, wind_reverse]
  constructor
  · intro h e; apply h; rw [e]; ring
  · intro h e; apply h; linarith

theorem annulus_hole_inside_both (outerPoly innerPath : List (Pt α)) (p : Pt α)
    (h : wind outerPoly p = wind (closedPolygon innerPath) p) :
    ¬ insideNonzero [outerPoly, closedPolygon (reversedInner innerPath)] p := by
  rw [annulus_hole]; exact fun k => k h

theorem annulus_ring_outside_inner (outerPoly innerPath : List (Pt α)) (p : Pt α)
    (h : wind (closedPolygon innerPath) p = 0) :
    insideNonzero [outerPoly, closedPolygon (reversedInner innerPath)] p ↔ insideNonzero [outerPoly] p := by
  rw [annulus_hole, h]
  unfold insideNonzero
  simp

omit [IsStrictOrderedRing α] in
/-- had the inner vertices NOT been reversed the hole would be filled: the total winding
number would be the sum. -/
theorem unreversed_inner_fills_hole (outerPoly innerPoly : List (Pt α)) (p : Pt α)
    (ho : wind outerPoly p = 1) (hi : wind innerPoly p = 1) :
    insideNonzero [outerPoly, innerPoly] p := by
  unfold insideNonzero
  simp only [List.foldr_cons, List.foldr_nil, add_zero, ho, hi]
  decide

omit [IsStrictOrderedRing α] in
/-- the annuli produce a `PathPatch` whose path is built from the component patches drawn with
the SAME origin: inner = `region1.as_artist(origin)`, outer = `region2.as_artist(origin)`. -/
theorem annulus_artist (pathOf : Patch α → List (Pt α) × List Nat) (c : Pt α) (r1 r2 : α) (o : Pt α) :
    asArtist pathOf (.circleAnnulus c r1 r2) o =
      .ok (.pathPatch
        ((pathOf (.circle (minusOrigin c o) r2)).1 ++ reversedInner (pathOf (.circle (minusOrigin c o) r1)).1)
        ((pathOf (.circle (minusOrigin c o) r2)).2 ++ (pathOf (.circle (minusOrigin c o) r1)).2)) := by
  simp [asArtist, compoundArtist, AReg.center, simpleArtist, makeAnnulusPath]

omit [IsStrictOrderedRing α] in
theorem ellipse_annulus_artist (pathOf : Patch α → List (Pt α) × List Nat) (c : Pt α)
    (w1 h1 w2 h2 : α) (a : Ang α) (o : Pt α) :
    asArtist pathOf (.ellipseAnnulus c w1 h1 w2 h2 a) o =
      .ok (.pathPatch
        ((pathOf (.ellipse (minusOrigin c o) w2 h2 a.deg)).1
          ++ reversedInner (pathOf (.ellipse (minusOrigin c o) w1 h1 a.deg)).1)
        ((pathOf (.ellipse (minusOrigin c o) w2 h2 a.deg)).2
          ++ (pathOf (.ellipse (minusOrigin c o) w1 h1 a.deg)).2)) := by
  simp [asArtist, compoundArtist, AReg.center, simpleArtist, makeAnnulusPath]

omit [IsStrictOrderedRing α] in
theorem rect_annulus_artist (pathOf : Patch α → List (Pt α) × List Nat) (c : Pt α)
    (w1 h1 w2 h2 : α) (a : Ang α) (o : Pt α) :
    asArtist pathOf (.rectAnnulus c w1 h1 w2 h2 a) o =
      .ok (.pathPatch
        ((pathOf (.rectangle (minusOrigin (Rect.mk c w2 h2 a.dir).lowerLeft o) w2 h2 a.deg)).1
          ++ reversedInner (pathOf (.rectangle (minusOrigin (Rect.mk c w1 h1 a.dir).lowerLeft o) w1 h1 a.deg)).1)
        ((pathOf (.rectangle (minusOrigin (Rect.mk c w2 h2 a.dir).lowerLeft o) w2 h2 a.deg)).2
          ++ (pathOf (.rectangle (minusOrigin (Rect.mk c w1 h1 a.dir).lowerLeft o) w1 h1 a.deg)).2)) := by
  simp [asArtist, compoundArtist, AReg.center, simpleArtist, makeAnnulusPath]

omit [IsStrictOrderedRing α] in
/-- a compound that is not a concentric `xor` has no artist (`ValueError`). -/
theorem compound_not_annulus (pathOf : Patch α → List (Pt α) × List Nat) (op : BoolOp)
    (r1 r2 : AReg α) (c1 c2 : Pt α) (o : Pt α) (h1 : r1.center = some c1) (h2 : r2.center = some c2)
    (h : c1 ≠ c2 ∨ op ≠ .xor) :
    asArtist pathOf (.compound op r1 r2) o = .error "ValueError" := by
  simp only [asArtist, compoundArtist, h1, h2]
  rw [if_neg]
  rintro ⟨e1, e2⟩
  rcases h with h | h
  · exact h e1
  · exact h e2

/-! ### polygon -/

/-- **`Polygon(xy)` receives the region's vertices moved by `−origin`** (same order, same
length), and the region's even-odd answer about the moved outline at `p` is its answer about
the original outline at `p + origin`. -/
theorem polygon_patch_set (vs : List (Pt α)) (o p : Pt α) :
    simpleArtist (.polygon vs) o = some (.polygon (vs.map fun v => minusOrigin v o)) ∧
    pnpoly (vs.map fun v => minusOrigin v o) p = pnpoly vs (plusOrigin p o) := by
  refine ⟨rfl, ?_⟩
  have h := C01.pnpoly_translate (vs.map fun v => minusOrigin v o) p o
  rw [List.map_map] at h
  have e : (C01.translate o ∘ fun v => minusOrigin v o) = id := by
    funext v; cases v; simp [C01.translate, minusOrigin]
  rw [e, List.map_id] at h
  exact h.symm

theorem windEdge_translate (p a b t : Pt α) :
    windEdge ⟨p.x + t.x, p.y + t.y⟩ ⟨a.x + t.x, a.y + t.y⟩ ⟨b.x + t.x, b.y + t.y⟩ = windEdge p a b := by
  unfold windEdge isLeft
  simp only [add_le_add_iff_right, add_lt_add_iff_right, add_sub_add_right_eq_sub]

omit [Field α] [LinearOrder α] [IsStrictOrderedRing α] in
theorem chain_map {β : Type} [AddCommGroup β] (f : Pt α → Pt α → β) (g : Pt α → Pt α) (l : List (Pt α)) :
    chain f (l.map g) = chain (fun a b => f (g a) (g b)) l := by
  induction l with
  | nil => rfl
  | cons p t ih =>
    simp only [List.map_cons, chain, ih, List.head?_map]
    cases t.head? <;> rfl

omit [Field α] [LinearOrder α] [IsStrictOrderedRing α] in
theorem cycSum_map {β : Type} [AddCommGroup β] (f : Pt α → Pt α → β) (g : Pt α → Pt α) (l : List (Pt α)) :
    cycSum f (l.map g) = cycSum (fun a b => f (g a) (g b)) l := by
  unfold cycSum
  rw [chain_map, List.getLast?_map, List.head?_map]
  cases l.getLast? <;> cases l.head? <;> rfl

/-- the winding number (the renderers' fill rule) follows the plot origin as well. -/
theorem polygon_patch_winding (vs : List (Pt α)) (o p : Pt α) :
    wind (vs.map fun v => minusOrigin v o) p = wind vs (plusOrigin p o) := by
  unfold wind
  rw [cycSum_map]
  congr 1
  funext a b
  have := windEdge_translate p (minusOrigin a o) (minusOrigin b o) o
  simp only [minusOrigin, sub_add_cancel] at this
  exact this.symm

/-! ### points, text, lines -/

omit [LinearOrder α] [IsStrictOrderedRing α] in
/-- **points and text sit at the region position minus the origin.** -/
theorem point_text_position (c o : Pt α) (s : String) :
    simpleArtist (.point c) o = some (.line2D [c.x - o.x] [c.y - o.y]) ∧
    simpleArtist (.text c s) o = some (.text (c.x - o.x) (c.y - o.y) s) := ⟨rfl, rfl⟩

omit [LinearOrder α] [IsStrictOrderedRing α] in
/-- **lines run from start to end**: `Arrow(x, y, dx, dy)` starts at `start − origin` and its
tip `(x + dx, y + dy)` is `end − origin`. -/
theorem line_endpoints (a b o : Pt α) :
    ∃ x y dx dy, simpleArtist (.line a b) o = some (.arrow x y dx dy) ∧
      (⟨x, y⟩ : Pt α) = minusOrigin a o ∧ (⟨x + dx, y + dy⟩ : Pt α) = minusOrigin b o := by
  refine ⟨_, _, _, _, rfl, rfl, ?_⟩
  simp only [minusOrigin, Pt.mk.injEq]
  constructor <;> ring

/-! ### bounding box -/

/-- `RegionBoundingBox.as_artist`: the rectangle patch (angle 0, `rot 0 = (1, 0)`) is the
box's pixel-edge extent `(ixmin − ½, ixmax − ½) × (iymin − ½, iymax − ½)`. -/
theorem bbox_patch_set (rot : α → Dir α) (h0 : rot 0 = ⟨1, 0⟩) (ixmin ixmax iymin iymax : Int) (p : Pt α) :
    ∃ xy w h ang, (bboxArtist ixmin ixmax iymin iymax : Patch α) = .rectangle xy w h ang ∧
      (inRectangle rot xy w h ang p ↔
        ((ixmin : α) - 1 / 2 < p.x ∧ p.x < (ixmax : α) - 1 / 2 ∧
         (iymin : α) - 1 / 2 < p.y ∧ p.y < (iymax : α) - 1 / 2)) := by
  refine ⟨_, _, _, _, rfl, ?_⟩
  simp only [inRectangle, h0]
  constructor
  · rintro ⟨a, b, ha0, ha1, hb0, hb1, ex, ey⟩
    refine ⟨?_, ?_, ?_, ?_⟩ <;> linarith
  · rintro ⟨h1, h2, h3, h4⟩
    refine ⟨p.x - ((ixmin : α) - 1 / 2), p.y - ((iymin : α) - 1 / 2), ?_, ?_, ?_, ?_, ?_, ?_⟩ <;>
      linarith

end field

/-! ### polygons with numpy integer vertex arrays -/

section intpoly

theorem wrap_of_inRange (d : IntDT) (hb : 1 ≤ d.bits) (n : Int) (h1 : d.lo ≤ n) (h2 : n ≤ d.hi) :
    d.wrap n = n := by
  unfold IntDT.wrap
  have hp : (2 : Int) ^ d.bits = 2 * 2 ^ (d.bits - 1) := by
    have : d.bits = (d.bits - 1) + 1 := by omega
    conv_lhs => rw [this, pow_succ]
    ring
  have hpos : (0 : Int) < 2 ^ (d.bits - 1) := by positivity
  have hlt : n - d.lo < 2 ^ d.bits := by
    unfold IntDT.lo IntDT.hi at *
    split_ifs at * <;> omega
  rw [Int.emod_eq_of_lt (by omega) hlt]
  ring

variable {α : Type} [Field α]

theorem subIntCoords_safe (d : IntDT) (hb : 1 ≤ d.bits) (o : OriginC α) (vs : List Int)
    (h : coordSafe d o vs = true) :
    subIntCoords d o vs = .ok (vs.map fun (v : Int) => ((v : α) - o.val)) := by
  induction vs with
  | nil => rfl
  | cons v t ih =>
    have ht : coordSafe d o t = true := by
      cases o with
      | other x => rfl
      | pyInt n =>
        simp only [coordSafe, Bool.and_eq_true, List.all_cons] at h ⊢
        exact ⟨h.1, h.2.2⟩
    have hv : subIntCoord d v o = .ok ((v : α) - o.val) := by
      cases o with
      | other x => rfl
      | pyInt n =>
        simp only [coordSafe, Bool.and_eq_true, List.all_cons, decide_eq_true_eq] at h
        obtain ⟨⟨hn1, hn2⟩, ⟨hv1, hv2⟩, _⟩ := h
        simp only [subIntCoord, npSubPyInt, OriginC.val]
        rw [if_neg (by omega), wrap_of_inRange d hb _ hv1 hv2]
        simp
    simp only [subIntCoords, hv, ih ht, List.map_cons]

/-- the clause at full strength: the `Polygon` patch of integer vertex arrays receives the
vertices minus the origin. -/
def polygon_int_full : Prop :=
  ∀ (d : IntDT) (vs : List (Int × Int)) (ox oy : OriginC ℚ), 1 ≤ d.bits →
    polygonArtistInt d vs ox oy =
      .ok (.polygon (vs.map fun v => minusOrigin ⟨(v.1 : ℚ), (v.2 : ℚ)⟩ ⟨ox.val, oy.val⟩))

/-- refuted by the current code: `uint8` vertices `(2, 3)` and the integer origin `(3, 0)`:
`2 − 3` wraps to `255`. -/
theorem polygon_int_full_refuted : ¬ polygon_int_full := by
  intro h
  have := h ⟨8, false⟩ [(2, 3)] (.pyInt 3) (.pyInt 0) (by decide)
  simp only [polygonArtistInt, subIntCoords, subIntCoord, npSubPyInt, IntDT.wrap, IntDT.lo, IntDT.hi,
    minusOrigin, OriginC.val, List.map_cons, List.map_nil] at this
  norm_num at this

/-- a second witness: `int16` vertices and the Python-int origin `40000` raise
`OverflowError` instead of producing an artist. -/
theorem polygon_int_overflow :
    polygonArtistInt (α := ℚ) ⟨16, true⟩ [(2, 3)] (.pyInt 40000) (.pyInt 0) = .error "OverflowError" := by
  simp only [polygonArtistInt, subIntCoords, subIntCoord, npSubPyInt, IntDT.lo, IntDT.hi, List.map_cons, List.map_nil]
  norm_num

/-- **outside the wrap-around class the patch receives `vertices − origin` exactly** — every
integer dtype, every vertex list, every origin whose components either promote (Python float,
numpy scalar/array) or are Python ints that fit the dtype together with all differences. -/
theorem polygon_int_partial (d : IntDT) (hb : 1 ≤ d.bits) (vs : List (Int × Int)) (ox oy : OriginC α)
    (hx : coordSafe d ox (vs.map Prod.fst) = true) (hy : coordSafe d oy (vs.map Prod.snd) = true) :
    polygonArtistInt d vs ox oy =
      .ok (.polygon (vs.map fun v => minusOrigin ⟨(v.1 : α), (v.2 : α)⟩ ⟨ox.val, oy.val⟩)) := by
  unfold polygonArtistInt
  rw [subIntCoords_safe d hb ox _ hx, subIntCoords_safe d hb oy _ hy]
  simp only [List.map_map]
  congr 2
  induction vs with
  | nil => rfl
  | cons v t ih =>
    simp only [List.map_cons, List.zipWith_cons_cons, Function.comp, minusOrigin] at ih ⊢
    rw [ih
      (by
        cases ox with
        | other x => rfl
        | pyInt n =>
          simp only [coordSafe, List.map_cons, Bool.and_eq_true, List.all_cons] at hx ⊢
          exact ⟨hx.1, hx.2.2⟩)
      (by
        cases oy with
        | other x => rfl
        | pyInt n =>
          simp only [coordSafe, List.map_cons, Bool.and_eq_true, List.all_cons] at hy ⊢
          exact ⟨hy.1, hy.2.2⟩)]

-- the predicate is satisfiable: int16 vertices, a fractional x origin and a small integer y origin
example : coordSafe ⟨16, true⟩ (OriginC.other (1/2 : ℚ)) [2, 12, 7] = true ∧
    coordSafe (α := ℚ) ⟨16, true⟩ (.pyInt 4) [3, 3, 13] = true := by decide
example : polygonArtistInt (α := ℚ) ⟨16, true⟩ [(2, 3), (12, 3), (7, 13)] (.other (1/2)) (.pyInt 4)
    = .ok (.polygon [⟨3/2, -1⟩, ⟨23/2, -1⟩, ⟨13/2, 9⟩]) := by
  simp only [polygonArtistInt, subIntCoords, subIntCoord, npSubPyInt, IntDT.wrap, IntDT.lo, IntDT.hi,
    List.map_cons, List.map_nil]
  norm_num
-- and fails on the finding's input
example : coordSafe (α := ℚ) ⟨8, false⟩ (.pyInt 3) [2, 12, 7] = false := by decide

end intpoly

/-! ### keyword arguments -/

section kwargs

theorem get_set (d : Kw) (k k' : String) (v : KVal) :
    (d.set k v).get k' = if k = k' then some v else d.get k' := by
  induction d with
  | nil => simp [Kw.set, Kw.get]
  | cons e t ih =>
    obtain ⟨ke, ve⟩ := e
    by_cases h : ke = k
    · subst h
      by_cases h' : ke = k' <;> simp [Kw.set, Kw.get, h']
    · by_cases h' : ke = k'
      · subst h'
        simp [Kw.set, Kw.get, h, Ne.symm h]
      · simp [Kw.set, Kw.get, h, h', ih]

/-- `d.update(o)`: for every key the result holds `o`'s (last) value if `o` has the key,
else `d`'s. -/
theorem get_update (d o : Kw) (k : String) :
    (d.update o).get k = match o.last k with | some v => some v | none => d.get k := by
  unfold Kw.update
  induction o generalizing d with
  | nil => simp [Kw.last]
  | cons e t ih =>
    obtain ⟨ke, ve⟩ := e
    simp only [List.foldl_cons, ih, get_set, Kw.last]
    cases Kw.last t k with
    | some v => rfl
    | none => by_cases h : ke = k <;> simp [h]

theorem get_pop (d : Kw) (k k' : String) :
    (d.pop k).get k' = if k' = k then none else d.get k' := by
  induction d with
  | nil => simp [Kw.get, Kw.pop]
  | cons e t ih =>
    obtain ⟨ke, ve⟩ := e
    by_cases h : ke = k
    · subst h
      by_cases h' : k' = ke
      · subst h'; simp [Kw.pop, ih]
      · simp [Kw.get, Kw.pop, ih, h', Ne.symm h']
    · by_cases h' : ke = k'
      · subst h'; simp [Kw.get, Kw.pop, h]
      · simp [Kw.get, Kw.pop, h, h', ih]

theorem get_popAll (d : Kw) (ks : List String) (k : String) :
    (popAll d ks).get k = if k ∈ ks then none else d.get k := by
  unfold popAll
  induction ks generalizing d with
  | nil => simp
  | cons x t ih =>
    simp only [List.foldl_cons, ih, get_pop, List.mem_cons]
    by_cases h1 : k ∈ t <;> by_cases h2 : k = x <;> simp [h1, h2]

theorem get_mapValues (f : KVal → KVal) (d : Kw) (k : String) :
    (mapValues f d).get k = (d.get k).map f := by
  unfold mapValues
  induction d with
  | nil => simp [Kw.get]
  | cons e t ih =>
    obtain ⟨ke, ve⟩ := e
    by_cases h : ke = k <;> simp [Kw.get, h, ih]

/-- a Python dict has unique keys; then "the last value" is "the value". -/
theorem last_eq_get (d : Kw) (hnd : (d.map Prod.fst).Nodup) (k : String) : d.last k = d.get k := by
  induction d with
  | nil => rfl
  | cons e t ih =>
    obtain ⟨ke, ve⟩ := e
    simp only [List.map_cons, List.nodup_cons] at hnd
    rw [Kw.last, Kw.get, ih hnd.2]
    by_cases h : ke = k
    · subst h
      have : Kw.get t ke = none := by
        have hn := hnd.1
        clear ih hnd
        induction t with
        | nil => rfl
        | cons e' t' ih' =>
          obtain ⟨k2, v2⟩ := e'
          simp only [List.map_cons, List.mem_cons, not_or] at hn
          simp [Kw.get, Ne.symm hn.1, ih' hn.2]
      simp [this]
    · simp only [h, if_false]
      cases Kw.get t k <;> rfl

/-- **caller keyword arguments override the stored visual attributes, which override the
defaults**: for EVERY key, the dictionary the artist constructor receives holds the caller's
value if the caller gave one, else (unless the key is one `define_mpl_kwargs` removes for this
artist kind) the value derived from the visual dictionary if there is one, else the default. -/
theorem kwargs_override (a : ArtistKind) (vis caller : Kw) (k : String) :
    (finalKw a vis caller).get k =
      match caller.last k with
      | some v => some v
      | none =>
        if k ∈ removeKeys a then none
        else match (toMplKw a vis).last k with
          | some v => some v
          | none => (defaultKw a vis).get k := by
  unfold finalKw defineMplKw
  rw [get_update, get_popAll, get_update]

/-- what the visual dictionary contributes: the LAST visual entry whose key is renamed to `k`
by the artist-kind-dependent key map (`color → edgecolor` for patches, `color →
markeredgecolor`, `symsize → markersize`, `linewidth → markeredgewidth`, `fill → fillstyle` for
points, `font/fontstyle/fontweight/fontsize/textangle → family/style/weight/size/rotation`
for text), never `default_style`, with `'green'` replaced by `'#00ff00'` in the DS9 style. -/
theorem visual_contribution (a : ArtistKind) (vis : Kw) (k : String) :
    (toMplKw a vis).get k =
      if k = "default_style" then none
      else
        let v := Kw.last (vis.map fun e => (rename a e.1, e.2)) k
        if Kw.last (vis.map fun e => (rename a e.1, e.2)) "default_style" = some (.str "ds9")
        then v.map ds9Green else v := by
  unfold toMplKw
  simp only [get_update, Kw.get]
  have hl : ∀ k', (match Kw.last (vis.map fun e => (rename a e.1, e.2)) k' with
      | some v => some v | none => none) = Kw.last (vis.map fun e => (rename a e.1, e.2)) k' := by
    intro k'; cases Kw.last (vis.map fun e => (rename a e.1, e.2)) k' <;> rfl
  rw [hl]
  by_cases hd : Kw.last (vis.map fun e => (rename a e.1, e.2)) "default_style" = some (.str "ds9")
  · rw [if_pos hd, get_mapValues, get_pop, get_update]
    by_cases hk : k = "default_style"
    · simp [hk]
    · simp only [hk, if_false, hd, if_true, Kw.get, hl]
  · rw [if_neg hd, get_pop, get_update]
    by_cases hk : k = "default_style"
    · simp [hk]
    · simp only [hk, if_false, hd, Kw.get, hl]

/-- a line region passes `width=0.1` unless the caller gives a width. -/
theorem line_width_default (caller : Kw) (hnd : (caller.map Prod.fst).Nodup) :
    (lineCallerKw caller).last "width" =
      match caller.get "width" with | some v => some v | none => some (.num float0_1) := by
  unfold lineCallerKw
  cases h : caller.get "width" with
  | some v => simp only []; rw [last_eq_get _ hnd, h]
  | none =>
    simp only []
    have : ∀ d : Kw, Kw.last (d ++ [("width", KVal.num float0_1)]) "width" = some (.num float0_1) := by
      intro d
      induction d with
      | nil => simp [Kw.last]
      | cons e t ih => obtain ⟨ke, ve⟩ := e; simp [Kw.last, ih]
    exact this caller

/-! ### "caller keywords override" at the level of matplotlib PROPERTIES (aliases included) -/

theorem mem_keys_set (d : Kw) (k k' : String) (v : KVal) :
    k' ∈ (d.set k v).keys ↔ k' = k ∨ k' ∈ d.keys := by
  induction d with
  | nil => simp [Kw.set, Kw.keys]
  | cons e t ih =>
    obtain ⟨ke, ve⟩ := e
    by_cases h : ke = k
    · subst h; simp [Kw.set, Kw.keys]
    · simp only [Kw.set, h, if_false, Kw.keys, List.map_cons, List.mem_cons] at ih ⊢
      rw [ih]; tauto

theorem mem_keys_update (d o : Kw) (k : String) : k ∈ (d.update o).keys ↔ k ∈ d.keys ∨ k ∈ o.keys := by
  unfold Kw.update
  induction o generalizing d with
  | nil => simp [Kw.keys]
  | cons e t ih =>
    simp only [List.foldl_cons]
    rw [ih, mem_keys_set]
    simp only [Kw.keys, List.map_cons, List.mem_cons]
    tauto

theorem nodup_set (d : Kw) (k : String) (v : KVal) (h : d.keys.Nodup) : (d.set k v).keys.Nodup := by
  induction d with
  | nil => simp [Kw.set, Kw.keys]
  | cons e t ih =>
    obtain ⟨ke, ve⟩ := e
    simp only [Kw.keys, List.map_cons, List.nodup_cons] at h
    by_cases hk : ke = k
    · subst hk; simp only [Kw.set, if_true, Kw.keys, List.map_cons, List.nodup_cons]; exact h
    · simp only [Kw.set, hk, if_false, Kw.keys, List.map_cons, List.nodup_cons]
      refine ⟨?_, ih h.2⟩
      intro hm
      have := (mem_keys_set t k ke v).mp hm
      rcases this with h1 | h1
      · exact hk h1
      · exact h.1 h1

theorem nodup_update (d o : Kw) (h : d.keys.Nodup) : (d.update o).keys.Nodup := by
  unfold Kw.update
  induction o generalizing d with
  | nil => exact h
  | cons e t ih => exact ih _ (nodup_set d e.1 e.2 h)

theorem keys_pop_sublist (d : Kw) (k : String) : (d.pop k).keys.Sublist d.keys := by
  induction d with
  | nil => simp [Kw.pop, Kw.keys]
  | cons e t ih =>
    obtain ⟨ke, ve⟩ := e
    by_cases h : ke = k
    · simp only [Kw.pop, h, if_true, Kw.keys, List.map_cons]
      exact List.Sublist.cons _ ih
    · simp only [Kw.pop, h, if_false, Kw.keys, List.map_cons]
      exact List.Sublist.cons_cons _ ih

theorem nodup_popAll (d : Kw) (ks : List String) (h : d.keys.Nodup) : (popAll d ks).keys.Nodup := by
  unfold popAll
  induction ks generalizing d with
  | nil => exact h
  | cons x t ih => exact ih _ (h.sublist (keys_pop_sublist d x))

theorem nodup_defaultKw (a : ArtistKind) (vis : Kw) : (defaultKw a vis).keys.Nodup := by
  simp only [defaultKw]
  split_ifs <;> cases a <;> decide

/-- `define_mpl_kwargs` returns a dictionary (unique keys). -/
theorem nodup_defineMplKw (a : ArtistKind) (vis : Kw) : (defineMplKw a vis).keys.Nodup :=
  nodup_popAll _ _ (nodup_update _ _ (nodup_defaultKw a vis))

theorem get_none_of_not_mem (d : Kw) (k : String) (h : k ∉ d.keys) : d.get k = none := by
  induction d with
  | nil => rfl
  | cons e t ih =>
    obtain ⟨ke, ve⟩ := e
    simp only [Kw.keys, List.map_cons, List.mem_cons, not_or] at h
    simp only [Kw.get, Ne.symm h.1, if_false]
    exact ih h.2

theorem mem_keys_of_get (d : Kw) (k : String) (v : KVal) (h : d.get k = some v) : k ∈ d.keys := by
  by_contra hn
  rw [get_none_of_not_mem d k hn] at h
  cases h

theorem get_filter (d : Kw) (p : String → Bool) (k : String) :
    Kw.get (d.filter fun e => p e.1) k = if p k = true then d.get k else none := by
  induction d with
  | nil => simp [Kw.get]
  | cons e t ih =>
    obtain ⟨ke, ve⟩ := e
    by_cases hp : p ke = true
    · rw [List.filter_cons_of_pos (by simpa using hp)]
      by_cases hk : ke = k
      · subst hk; simp [Kw.get, hp]
      · simp only [Kw.get, hk, if_false, ih]
    · rw [List.filter_cons_of_neg (by simpa using hp), ih]
      by_cases hk : ke = k
      · subst hk; simp [hp]
      · simp only [Kw.get, hk, if_false]

theorem lastCanon_none (a : ArtistKind) (d : Kw) (P : String) (h : ∀ k ∈ d.keys, canon a k ≠ P) :
    lastCanon a d P = none := by
  induction d with
  | nil => rfl
  | cons e t ih =>
    obtain ⟨ke, ve⟩ := e
    simp only [Kw.keys, List.map_cons, List.mem_cons, forall_eq_or_imp] at h
    simp only [lastCanon, ih h.2, h.1, if_false]

theorem lastCanon_eq_get (a : ArtistKind) (d : Kw) (P k : String) (hnd : d.keys.Nodup)
    (hk : canon a k = P) (h : ∀ k' ∈ d.keys, canon a k' = P → k' = k) :
    lastCanon a d P = d.get k := by
  induction d with
  | nil => rfl
  | cons e t ih =>
    obtain ⟨ke, ve⟩ := e
    simp only [Kw.keys, List.map_cons, List.nodup_cons, List.mem_cons, forall_eq_or_imp] at hnd h
    rw [lastCanon, ih hnd.2 h.2, Kw.get]
    by_cases hke : ke = k
    · subst hke
      rw [get_none_of_not_mem t ke hnd.1]
      simp [hk]
    · have : canon a ke ≠ P := fun hc => hke (h.1 hc)
      simp only [hke, this, if_false]
      cases Kw.get t k <;> rfl

theorem canon_explicit (a : ArtistKind) (k : String) (h : k ∈ explicitParams a) : canon a k = k := by
  have hall : ∀ a : ArtistKind, (explicitParams a).all (fun k => decide (canon a k = k)) = true := by
    intro a; cases a <;> decide
  have := List.all_eq_true.mp (hall a) k h
  simpa using this

theorem keyClash_false_iff (a : ArtistKind) (ks : List String) :
    keyClash a ks = false ↔ ∀ k1 ∈ ks, ∀ k2 ∈ ks, canon a k1 = canon a k2 → k1 = k2 := by
  unfold keyClash
  rw [Bool.eq_false_iff]
  simp only [ne_eq, List.any_eq_true, Bool.and_eq_true, decide_eq_true_eq, not_exists, not_and]
  constructor
  · intro h k1 h1 k2 h2 hc
    by_contra hne
    exact h k1 h1 k2 h2 hne hc
  · intro h k1 h1 k2 h2 hne hc
    exact hne (h k1 h1 k2 h2 hc)

theorem mem_keys_rest (a : ArtistKind) (d : Kw) (k : String) :
    k ∈ (mplRest a d).keys ↔ k ∈ d.keys ∧ k ∉ explicitParams a := by
  unfold mplRest Kw.keys
  simp only [List.mem_map, List.mem_filter, decide_eq_true_eq]
  constructor
  · rintro ⟨e, ⟨he, hne⟩, rfl⟩; exact ⟨⟨e, he, rfl⟩, hne⟩
  · rintro ⟨⟨e, he, rfl⟩, hne⟩; exact ⟨e, ⟨he, hne⟩, rfl⟩

theorem nodup_rest (a : ArtistKind) (d : Kw) (h : d.keys.Nodup) : (mplRest a d).keys.Nodup := by
  unfold mplRest Kw.keys at *
  exact h.sublist (List.Sublist.map _ List.filter_sublist)

/-- if the only keyword passed on to `update` that spells `k`'s property is `k` itself, the
property ends up with `k`'s value. -/
theorem effective_of_sole_spelling (a : ArtistKind) (fin : Kw) (k : String) (v : KVal)
    (hnd : fin.keys.Nodup) (hget : fin.get k = some v)
    (hS : ∀ k' ∈ (mplRest a fin).keys, canon a k' = canon a k → k' = k) :
    mplEffective a fin (canon a k) = some v := by
  unfold mplEffective
  by_cases hex : k ∈ explicitParams a
  · have hcan : canon a k = k := canon_explicit a k hex
    have hnone : lastCanon a (mplRest a fin) (canon a k) = none := by
      apply lastCanon_none
      intro k' hm hcan'
      have := hS k' hm hcan'
      subst this
      exact ((mem_keys_rest _ _ _).mp hm).2 hex
    rw [hnone, hcan]; exact hget
  · have hl := lastCanon_eq_get a (mplRest a fin) (canon a k) k (nodup_rest a _ hnd) rfl hS
    rw [hl]
    have : (mplRest a fin).get k = some v := by
      unfold mplRest
      have := get_filter fin (fun s => decide (s ∉ explicitParams a)) k
      simp only [decide_eq_true_eq] at this
      rw [this, if_pos hex]; exact hget
    rw [this]

/-- the caller's own keywords are a dictionary and do not spell one property twice. -/
def CallerOk (a : ArtistKind) (caller : Kw) : Prop :=
  caller.keys.Nodup ∧ ∀ k1 ∈ caller.keys, ∀ k2 ∈ caller.keys, canon a k1 = canon a k2 → k1 = k2

/-- the clause at FULL strength: whatever the stored visual attributes (acceptable to
matplotlib by themselves), a keyword the caller gives determines the artist's property. -/
def caller_overrides_full : Prop :=
  ∀ (a : ArtistKind) (vis caller : Kw) (k : String) (v : KVal),
    CallerOk a caller → mplRejects a (defineMplKw a vis) = false → caller.get k = some v →
    mplRejects a (finalKw a vis caller) = false ∧
      mplEffective a (finalKw a vis caller) (canon a k) = some v

/-- refuted by the current code: a text region with a stored `fontsize` and a caller
`fontsize=20` — the constructor receives both `size` and `fontsize` and raises `TypeError`. -/
theorem caller_overrides_full_refuted : ¬ caller_overrides_full := by
  intro h
  have := h .text [("fontsize", .num 12)] [("fontsize", .num 20)] "fontsize" (.num 20)
    ⟨by decide, by decide⟩ (by decide) (by decide)
  revert this
  decide

/-- a second witness, silent: the DS9 default style's `ha='center'` beats a caller
`horizontalalignment='right'` (no exception, the caller's keyword is ignored). -/
theorem caller_alias_silently_ignored :
    mplRejects .text (finalKw .text [("default_style", .str "ds9")] [("horizontalalignment", .str "right")]) = false ∧
    mplEffective .text (finalKw .text [("default_style", .str "ds9")] [("horizontalalignment", .str "right")])
      "horizontalalignment" = some (.str "center") := by
  decide

/-- **caller keywords override the stored visual attributes** (and the defaults), property by
property and whatever spelling the caller uses, on every input outside the alias-clash class:
the constructor accepts the dictionary and the property ends up with the caller's value. -/
theorem caller_overrides_partial (a : ArtistKind) (vis caller : Kw) (k : String) (v : KVal)
    (hc : CallerOk a caller) (hacc : mplRejects a (defineMplKw a vis) = false)
    (hsafe : aliasSafe a vis caller = true) (hk : caller.get k = some v) :
    mplRejects a (finalKw a vis caller) = false ∧
      mplEffective a (finalKw a vis caller) (canon a k) = some v := by
  have hkmem : k ∈ caller.keys := mem_keys_of_get caller k v hk
  have hsafe' : ∀ k1 ∈ caller.keys, ∀ k' ∈ (defineMplKw a vis).keys,
      k' = k1 ∨ canon a k' ≠ canon a k1 ∨ k' ∈ explicitParams a := by
    intro k1 h1 k' h'
    unfold aliasSafe at hsafe
    rw [List.all_eq_true] at hsafe
    have := hsafe k1 h1
    rw [List.all_eq_true] at this
    have := this k' h'
    simp only [Bool.or_eq_true, decide_eq_true_eq] at this
    tauto
  have hnd : (finalKw a vis caller).keys.Nodup := nodup_update _ _ (nodup_defineMplKw a vis)
  have hget : (finalKw a vis caller).get k = some v := by
    unfold finalKw
    rw [get_update, last_eq_get caller hc.1 k, hk]
  -- every keyword of the final dictionary that is passed on and spells k's property IS k
  have hS : ∀ k' ∈ (mplRest a (finalKw a vis caller)).keys, canon a k' = canon a k → k' = k := by
    intro k' hm hcan
    rw [mem_keys_rest] at hm
    obtain ⟨hm, hne⟩ := hm
    unfold finalKw at hm
    rw [mem_keys_update] at hm
    rcases hm with hm | hm
    · rcases hsafe' k hkmem k' hm with h1 | h1 | h1
      · exact h1
      · exact absurd hcan h1
      · exact absurd h1 hne
    · exact hc.2 k' hm k hkmem hcan
  constructor
  · -- accepted
    unfold mplRejects
    by_cases ht : a = .text
    · simp only [ht, decide_true, Bool.true_and]
      rw [← ht, keyClash_false_iff]
      intro k1 h1 k2 h2 hcan
      have hD : keyClash a (mplRest a (defineMplKw a vis)).keys = false := by
        unfold mplRejects at hacc
        simpa [ht] using hacc
      rw [keyClash_false_iff] at hD
      rw [mem_keys_rest] at h1 h2
      obtain ⟨h1, n1⟩ := h1
      obtain ⟨h2, n2⟩ := h2
      unfold finalKw at h1 h2
      rw [mem_keys_update] at h1 h2
      rcases h1 with h1 | h1 <;> rcases h2 with h2 | h2
      · exact hD k1 ((mem_keys_rest _ _ _).mpr ⟨h1, n1⟩) k2 ((mem_keys_rest _ _ _).mpr ⟨h2, n2⟩) hcan
      · rcases hsafe' k2 h2 k1 h1 with h | h | h
        · exact h
        · exact absurd hcan h
        · exact absurd h n1
      · rcases hsafe' k1 h1 k2 h2 with h | h | h
        · exact h.symm
        · exact absurd hcan.symm h
        · exact absurd h n2
      · exact hc.2 k1 h1 k2 h2 hcan
    · have : decide (a = ArtistKind.text) = false := decide_eq_false ht
      rw [this]; rfl
  · exact effective_of_sole_spelling a _ k v hnd hget hS

-- the predicate is satisfiable, also in the presence of aliases: a patch with a stored
-- `linewidth` (an explicit parameter) and a caller `lw`
example : aliasSafe .patch [("linewidth", .num 3), ("color", .str "red")] [("lw", .num 1), ("ec", .str "blue")] = true := by
  decide
example : CallerOk .patch [("lw", .num 1), ("ec", .str "blue")] := ⟨by decide, by decide⟩
example : mplRejects .patch (defineMplKw .patch [("linewidth", .num 3), ("color", .str "red")]) = false := by decide
-- and it fails on the finding's input class
example : aliasSafe .text [("fontsize", .num 12)] [("fontsize", .num 20)] = false := by decide
example : aliasSafe .text [("fontsize", .num 12)] [("size", .num 20)] = true := by decide

/-! ### the normalising variant (`proposed_fixes/F181.diff`) meets the clause at full strength -/

theorem lookup_mem_values (tbl : List (String × String)) (k p : String) (h : tbl.lookup k = some p) :
    p ∈ tbl.map Prod.snd := by
  induction tbl with
  | nil => simp at h
  | cons e t ih =>
    obtain ⟨k', p'⟩ := e
    rw [List.lookup_cons] at h
    by_cases hk : (k == k') = true
    · rw [hk] at h; simp only [Option.some.injEq] at h; subst h; simp
    · simp only [Bool.not_eq_true] at hk
      rw [hk] at h
      simp only [List.map_cons, List.mem_cons]
      exact Or.inr (ih h)

/-- a property name is not itself an alias (so normalising twice changes nothing). -/
theorem canon_idem (a : ArtistKind) (k : String) : canon a (canon a k) = canon a k := by
  have hvals : ∀ a : ArtistKind, ((aliasTable a).map Prod.snd).all
      (fun p => decide ((aliasTable a).lookup p = none)) = true := by
    intro a; cases a <;> decide
  unfold canon
  cases h : (aliasTable a).lookup k with
  | none => simp only [h]
  | some p =>
    have hm := lookup_mem_values _ _ _ h
    have := List.all_eq_true.mp (hvals a) p hm
    simp only [decide_eq_true_eq] at this
    simp only [this]

theorem set_of_not_mem (d : Kw) (k : String) (v : KVal) (h : k ∉ d.keys) : d.set k v = d ++ [(k, v)] := by
  induction d with
  | nil => rfl
  | cons e t ih =>
    obtain ⟨ke, ve⟩ := e
    simp only [Kw.keys, List.map_cons, List.mem_cons, not_or] at h
    simp only [Kw.set, Ne.symm h.1, if_false, List.cons_append, List.cons.injEq, true_and]
    exact ih h.2

theorem update_of_nodup (d o : Kw) (h : (d ++ o).keys.Nodup) : d.update o = d ++ o := by
  unfold Kw.update
  induction o generalizing d with
  | nil => simp
  | cons e t ih =>
    have hk : e.1 ∉ d.keys := by
      simp only [Kw.keys, List.map_append, List.map_cons] at h
      have := (List.nodup_append.mp h).2.2
      intro hm
      exact this e.1 hm e.1 (by simp) rfl
    rw [List.foldl_cons, set_of_not_mem d e.1 e.2 hk, ih (d ++ [(e.1, e.2)]) (by simpa using h)]
    simp

/-- `normalize_kwargs` of a dictionary whose keys stay distinct: every key is replaced by its
property name, values and order are kept. -/
theorem normalizeKw_ok (a : ArtistKind) (d : Kw) (h : (d.map fun e => canon a e.1).Nodup) :
    normalizeKw a d = .ok (d.map fun e => (canon a e.1, e.2)) := by
  unfold normalizeKw
  have e : Kw.update [] (d.map fun e => (canon a e.1, e.2)) = d.map fun e => (canon a e.1, e.2) := by
    have := update_of_nodup [] (d.map fun e => (canon a e.1, e.2))
      (by simpa [Kw.keys, List.map_map, Function.comp_def] using h)
    simpa using this
  simp only [e, List.length_map, if_true]

theorem get_map_canon (a : ArtistKind) (d : Kw) (k : String)
    (hinj : ∀ k1 ∈ d.keys, ∀ k2 ∈ d.keys, canon a k1 = canon a k2 → k1 = k2) (hk : k ∈ d.keys) :
    Kw.get (d.map fun e => (canon a e.1, e.2)) (canon a k) = d.get k := by
  induction d with
  | nil => rfl
  | cons e t ih =>
    obtain ⟨ke, ve⟩ := e
    simp only [List.map_cons, Kw.get]
    by_cases h : ke = k
    · subst h; simp
    · have hne : canon a ke ≠ canon a k := by
        intro hc
        exact h (hinj ke (by simp [Kw.keys]) k hk hc)
      simp only [hne, h, if_false]
      have hk' : k ∈ Kw.keys t := by
        simp only [Kw.keys, List.map_cons, List.mem_cons] at hk
        rcases hk with hk | hk
        · exact absurd hk.symm h
        · exact hk
      apply ih _ hk'
      intro k1 h1 k2 h2
      exact hinj k1 (by simp only [Kw.keys, List.map_cons, List.mem_cons]; right; exact h1)
        k2 (by simp only [Kw.keys, List.map_cons, List.mem_cons]; right; exact h2)

/-- **with both dictionaries normalised, caller keywords override whatever spelling either
side uses** — the full-strength clause, for every visual dictionary that matplotlib accepts by
itself and every self-consistent caller dictionary. -/
theorem caller_overrides_fixed (vis caller : Kw) (k : String) (v : KVal) (d : Kw)
    (hc : CallerOk .text caller) (hd : normalizeKw .text (defineMplKw .text vis) = .ok d)
    (hk : caller.get k = some v) :
    ∃ fin, finalKwTextFixed vis caller = .ok fin ∧ mplRejects .text fin = false ∧
      mplEffective .text fin (canon .text k) = some v := by
  have hkmem : k ∈ caller.keys := mem_keys_of_get caller k v hk
  -- the caller's dictionary normalises to the same items under property names
  have hcn : (caller.map fun e => canon ArtistKind.text e.1).Nodup := by
    have : (caller.map fun e => canon ArtistKind.text e.1) = caller.keys.map (canon .text) := by
      simp [Kw.keys, List.map_map, Function.comp_def]
    rw [this]
    exact List.Nodup.map_on (fun x hx y hy hxy => hc.2 x hx y hy hxy) hc.1
  have hcok := normalizeKw_ok .text caller hcn
  set c : Kw := caller.map fun e => (canon ArtistKind.text e.1, e.2) with hcdef
  have hckeys : c.keys = caller.map fun e => canon ArtistKind.text e.1 := by
    simp [hcdef, Kw.keys, List.map_map, Function.comp_def]
  have hcnd : c.keys.Nodup := by rw [hckeys]; exact hcn
  have hcget : c.get (canon .text k) = some v := by
    rw [hcdef, get_map_canon .text caller k hc.2 hkmem, hk]
  -- every key of d is a property name
  have hdkeys : ∀ k' ∈ d.keys, canon .text k' = k' := by
    unfold normalizeKw at hd
    simp only at hd
    split_ifs at hd
    injection hd with hd
    intro k' hm
    rw [← hd, mem_keys_update] at hm
    rcases hm with hm | hm
    · simp [Kw.keys] at hm
    · simp only [Kw.keys, List.map_map, List.mem_map, Function.comp_def] at hm
      obtain ⟨e, _, rfl⟩ := hm
      exact canon_idem _ _
  have hdnd : d.keys.Nodup := by
    unfold normalizeKw at hd
    simp only at hd
    split_ifs at hd
    injection hd with hd
    rw [← hd]
    exact nodup_update _ _ (by simp [Kw.keys])
  have hckeys' : ∀ k' ∈ c.keys, canon .text k' = k' := by
    intro k' hm
    rw [hckeys] at hm
    simp only [List.mem_map] at hm
    obtain ⟨e, _, rfl⟩ := hm
    exact canon_idem _ _
  refine ⟨d.update c, ?_, ?_, ?_⟩
  · unfold finalKwTextFixed; rw [hd, hcok]
  · -- all keys are property names, so no two of them spell one property
    unfold mplRejects
    simp only [decide_true, Bool.true_and]
    rw [keyClash_false_iff]
    intro k1 h1 k2 h2 hcan
    have hcanon : ∀ k' ∈ (mplRest .text (d.update c)).keys, canon .text k' = k' := by
      intro k' hm
      have := ((mem_keys_rest _ _ _).mp hm).1
      rw [mem_keys_update] at this
      rcases this with h | h
      · exact hdkeys k' h
      · exact hckeys' k' h
    rw [← hcanon k1 h1, ← hcanon k2 h2]; exact hcan
  · have hfin : (d.update c).get (canon .text k) = some v := by
      rw [get_update, last_eq_get c hcnd, hcget]
    have hS : ∀ k' ∈ (mplRest .text (d.update c)).keys,
        canon .text k' = canon .text (canon .text k) → k' = canon .text k := by
      intro k' hm hcan
      have hmem := ((mem_keys_rest _ _ _).mp hm).1
      rw [mem_keys_update] at hmem
      have : canon .text k' = k' := by
        rcases hmem with h | h
        · exact hdkeys k' h
        · exact hckeys' k' h
      rw [canon_idem] at hcan
      rw [← this]; exact hcan
    have := effective_of_sole_spelling .text (d.update c) (canon .text k) v
      (nodup_update _ _ hdnd) hfin hS
    rw [canon_idem] at this
    exact this

-- the finding's inputs under the normalising variant: accepted, and the caller wins
example : finalKwTextFixed [("fontsize", .num 12)] [("fontsize", .num 20)] = .ok [("fontsize", .num 20)] := by decide
example : finalKwTextFixed [("default_style", .str "ds9")] [("horizontalalignment", .str "right")]
    = .ok [("color", .str "#00ff00"), ("horizontalalignment", .str "right"), ("verticalalignment", .str "center")] := by
  decide

end kwargs

/-! ### degrees: `self.angle.to('deg').value` and matplotlib's `rotate_deg` (over ℝ) -/

/-- matplotlib's rotation by `deg` degrees. -/
noncomputable def rotDeg (deg : ℝ) : Dir ℝ := ⟨Real.cos (deg * Real.pi / 180), Real.sin (deg * Real.pi / 180)⟩

/-- the angle parameter of a region whose angle is `θ` radians: `(cos θ, sin θ)` and the
degree value `θ·180/π`. -/
noncomputable def angOfRad (θ : ℝ) : Ang ℝ := ⟨⟨Real.cos θ, Real.sin θ⟩, θ * 180 / Real.pi⟩

/-- the hypotheses `rot a.deg = a.dir` and `a.dir.IsUnit` of the patch theorems hold for the
real trigonometric functions: passing the angle IN DEGREES to matplotlib reproduces the
region's `(cos, sin)`. -/
theorem rotDeg_angOfRad (θ : ℝ) : rotDeg (angOfRad θ).deg = (angOfRad θ).dir ∧ (angOfRad θ).dir.IsUnit := by
  have hpi : Real.pi ≠ 0 := Real.pi_ne_zero
  have e : θ * 180 / Real.pi * Real.pi / 180 = θ := by field_simp
  refine ⟨?_, ?_⟩
  · simp only [rotDeg, angOfRad, e]
  · simp only [angOfRad, Dir.IsUnit]
    exact Real.cos_sq_add_sin_sq θ

/-- passing the angle in RADIANS to matplotlib would be wrong: for `θ = π/2` the patch would
be rotated by `π/2` degrees, whose cosine is not `0`. -/
theorem radians_would_be_wrong : rotDeg (Real.pi / 2) ≠ (angOfRad (Real.pi / 2)).dir := by
  intro h
  have hc := congrArg Dir.c h
  simp only [rotDeg, angOfRad, Real.cos_pi_div_two] at hc
  have hpos : 0 < Real.cos (Real.pi / 2 * Real.pi / 180) := by
    apply Real.cos_pos_of_mem_Ioo
    constructor
    · have := Real.pi_pos; nlinarith
    · have h1 := Real.pi_pos
      have h2 : Real.pi ≤ 4 := Real.pi_le_four
      nlinarith
  linarith

/-- the rectangle patch theorem instantiated with the real functions: no hypothesis left. -/
theorem rect_patch_set_real (c : Pt ℝ) (w h θ : ℝ) (o p : Pt ℝ) :
    inRectangle rotDeg (minusOrigin (Rect.mk c w h (angOfRad θ).dir).lowerLeft o) w h (angOfRad θ).deg p ↔
      (Rect.mk c w h (angOfRad θ).dir).inRaw (plusOrigin p o) = true := by
  obtain ⟨h1, h2⟩ := rotDeg_angOfRad θ
  obtain ⟨_, _, _, _, he, hiff⟩ := rect_patch_set rotDeg c w h (angOfRad θ) o p h1 h2
  simp only [simpleArtist, Option.some.injEq, Patch.rectangle.injEq] at he
  obtain ⟨rfl, rfl, rfl, rfl⟩ := he
  exact hiff

/-! ### non-vacuity and sensitivity examples (ℚ) -/

-- a rotated rectangle, origin (1, 1): centre (3,4), 2×1, (cos, sin) = (3/5, 4/5)
example : (⟨3/5, 4/5⟩ : Dir ℚ).IsUnit := by unfold Dir.IsUnit; norm_num
example : simpleArtist (.rect (⟨3, 4⟩ : Pt ℚ) 2 1 ⟨⟨3/5, 4/5⟩, 5313/100⟩) ⟨1, 1⟩
    = some (.rectangle ⟨9/5, 19/10⟩ 2 1 (5313/100)) := by
  simp only [simpleArtist, minusOrigin, Rect.lowerLeft, Option.some.injEq, Patch.rectangle.injEq,
    Pt.mk.injEq, and_true]
  norm_num
-- the annulus recipe on a square: outer ccw, inner reversed (cw) + closing vertex
example : reversedInner [(⟨0, 0⟩ : Pt ℚ), ⟨1, 0⟩, ⟨1, 1⟩, ⟨0, 1⟩, ⟨0, 0⟩]
    = [⟨0, 1⟩, ⟨1, 1⟩, ⟨1, 0⟩, ⟨0, 0⟩, ⟨0, 0⟩] := by decide
example : shoelace [(⟨0, 0⟩ : Pt ℚ), ⟨1, 0⟩, ⟨1, 1⟩, ⟨0, 1⟩] = 2 := by
  simp [shoelace, cycSum, chain, cross]; norm_num
example : wind [(⟨0, 0⟩ : Pt ℚ), ⟨4, 0⟩, ⟨4, 4⟩, ⟨0, 4⟩] ⟨1, 1⟩ = 1 := by
  norm_num [wind, cycSum, chain, windEdge, isLeft]
example : wind [(⟨0, 0⟩ : Pt ℚ), ⟨4, 0⟩, ⟨4, 4⟩, ⟨0, 4⟩].reverse ⟨1, 1⟩ = -1 := by
  norm_num [wind, cycSum, chain, windEdge, isLeft]
-- kwargs: visual colour renamed to edgecolor, caller's edgecolor wins, default fill kept
example : finalKw .patch [("color", .str "red")] [("edgecolor", .str "blue")]
    = [("fill", .bool false), ("edgecolor", .str "blue")] := by decide
example : finalKw .text [("fontsize", .num 12), ("default_style", .str "ds9"), ("color", .str "green")] []
    = [("color", .str "#00ff00"), ("ha", .str "center"), ("va", .str "center"), ("size", .num 12)] := by decide

end RegionsVerif.Props.C18
