/-
C06 — pixel <-> sky conversion round-trips and membership is conversion-invariant.

Theorems about `Impl/Wcs.lean` (model of every `to_sky` / `to_pixel`, of both compound
constructors and of `SkyRegion.contains`).  The WCS is a parameter: the theorems hold for
EVERY pair of maps `toPix`, `toSky` that are mutually inverse and every helper result with a
non-zero scale and a unit north vector, for every class, every parameter value and compound
regions of any depth.  What a real `astropy.wcs.WCS` satisfies only approximately
(inverse to ~1e-9 pixel) is outside these theorems (DESIGN §7): the differential run uses
real WCS objects.

Meta / visual: both compound constructors honour explicit dictionaries (F2 fixed), hence the
full-strength clauses are theorems.
-/
import RegionsVerif.Impl.Wcs
import RegionsVerif.Props.C15
import Mathlib.Tactic.LinearCombination
import Mathlib.Tactic.FieldSimp
import Mathlib.Tactic.Ring
import Mathlib.Tactic.NormNum
import Mathlib.Algebra.Order.Field.Rat

set_option linter.unusedSectionVars false

namespace RegionsVerif.Props.C06
open RegionsVerif.Impl RegionsVerif.Props

/-! ### constructors: `meta or RegionMeta()` keeps the content -/

theorem metaOr_some (m : Meta) : metaOr (some m) = m := by
  unfold metaOr Meta.truthy
  by_cases h : m = Meta.empty
  · simp [h]
  · simp [h]

theorem visualOr_some {α : Type} [DecidableEq α] (v : Visual α) : visualOr (some v) = v := by
  unfold visualOr Visual.truthy
  by_cases h : v = Visual.empty
  · simp [h]
  · simp [h]

theorem metaOr_none : metaOr none = Meta.empty := rfl

section field
variable {Sky α : Type} [Field α] [LinearOrder α] [IsStrictOrderedRing α]

/-! ### angle algebra: `a - (ν - 90°) + (ν - 90°) = a` on unit vectors -/

/-- `north_angle - 90°` as a unit vector is north rotated clockwise by a quarter turn. -/
theorem northMinus90_eq (n : Dir α) : northMinus90 n = ⟨n.s, -n.c⟩ := by
  simp [northMinus90, Dir.sub, Dir.add, Dir.neg, Dir.deg90]

theorem northMinus90_unit (n : Dir α) (hn : n.IsUnit) : (northMinus90 n).IsUnit := by
  rw [northMinus90_eq]
  unfold Dir.IsUnit at *
  simp only
  linear_combination hn

theorem dir_sub_add (a d : Dir α) (hd : d.IsUnit) : (a.sub d).add d = a := by
  unfold Dir.IsUnit at hd
  cases a with
  | mk c s =>
    simp only [Dir.sub, Dir.add, Dir.neg, Dir.mk.injEq]
    constructor
    · linear_combination c * hd
    · linear_combination s * hd

theorem dir_add_sub (a d : Dir α) (hd : d.IsUnit) : (a.add d).sub d = a :=
  C15.dir_add_neg a d hd

theorem dir_sub_unit (a d : Dir α) (ha : a.IsUnit) (hd : d.IsUnit) : (a.sub d).IsUnit := by
  apply C15.dir_add_unit _ _ ha
  unfold Dir.IsUnit Dir.neg at *
  simp only
  linear_combination hd

/-! ### hypotheses on the WCS parameter -/

/-- the two coordinate maps are mutually inverse. -/
structure Invertible (w : Wcs Sky α) : Prop where
  pix : ∀ p : Pt α, w.toPix (w.toSky p) = p
  sky : ∀ q : Sky, w.toSky (w.toPix q) = q

/-- the helper returns a usable result everywhere: non-zero scale, unit north vector. -/
structure Regular (w : Wcs Sky α) : Prop where
  scale_ne : ∀ q : Sky, (w.loc q).scale ≠ 0
  north_unit : ∀ q : Sky, (w.loc q).north.IsUnit

/-- for an invertible WCS the helper is evaluated at the same sky position in both directions,
so it returns the same `(scale, north)` — in the model this is a consequence, not an
assumption. -/
theorem helper_same_both_directions (w : Wcs Sky α) (hs : ∀ q : Sky, w.toSky (w.toPix q) = q) (q : Sky) :
    w.loc (w.toSky (w.toPix q)) = w.loc q := by rw [hs]

/-! ### class correspondence -/

theorem toSky_cls (w : Wcs Sky α) (r : PixR α) : (r.toSky w).cls = r.cls := by
  cases r <;> rfl

theorem toPixel_cls (w : Wcs Sky α) (r : SkyR Sky α) : (r.toPixel w).cls = r.cls := by
  cases r <;> rfl

/-! ### round trips: class and geometry, for every class and every depth -/

theorem map_roundtrip {A B : Type} (f : A → B) (g : B → A) (h : ∀ a, g (f a) = a) (l : List A) :
    (l.map f).map g = l := by
  rw [List.map_map]
  conv_rhs => rw [← List.map_id l]
  apply List.map_congr_left
  intro a _
  simp [h]

/-- **pixel → sky → pixel**: the same class at every node, the same operator, the same text and
the same numeric parameters (centres by the WCS hypothesis, sizes `x·s/s = x`, angles restored
as unit-vector algebra, vertices pointwise). -/
theorem roundtrip_pix_sky_pix (w : Wcs Sky α) (hp : ∀ p : Pt α, w.toPix (w.toSky p) = p)
    (hr : Regular w) (r : PixR α) : ((r.toSky w).toPixel w).geom = r.geom := by
  induction r with
  | circle c r m v =>
    simp only [PixR.toSky, SkyR.toPixel, Wcs.scaleAngle, PixR.geom, hp,
      mul_div_cancel_right₀ _ (hr.scale_ne _)]
  | ellipse c wd h d m v =>
    simp only [PixR.toSky, SkyR.toPixel, Wcs.scaleAngle, PixR.geom, hp,
      mul_div_cancel_right₀ _ (hr.scale_ne _),
      dir_sub_add _ _ (northMinus90_unit _ (hr.north_unit _))]
  | rect c wd h d m v =>
    simp only [PixR.toSky, SkyR.toPixel, Wcs.scaleAngle, PixR.geom, hp,
      mul_div_cancel_right₀ _ (hr.scale_ne _),
      dir_sub_add _ _ (northMinus90_unit _ (hr.north_unit _))]
  | polygon vs m v =>
    simp only [PixR.toSky, SkyR.toPixel, PixR.geom, map_roundtrip _ _ hp]
  | circleAnnulus c r1 r2 m v =>
    simp only [PixR.toSky, SkyR.toPixel, Wcs.scaleAngle, PixR.geom, hp,
      mul_div_cancel_right₀ _ (hr.scale_ne _)]
  | ellipseAnnulus c w1 w2 h1 h2 d m v =>
    simp only [PixR.toSky, SkyR.toPixel, Wcs.scaleAngle, PixR.geom, hp,
      mul_div_cancel_right₀ _ (hr.scale_ne _),
      dir_sub_add _ _ (northMinus90_unit _ (hr.north_unit _))]
  | rectAnnulus c w1 w2 h1 h2 d m v =>
    simp only [PixR.toSky, SkyR.toPixel, Wcs.scaleAngle, PixR.geom, hp,
      mul_div_cancel_right₀ _ (hr.scale_ne _),
      dir_sub_add _ _ (northMinus90_unit _ (hr.north_unit _))]
  | point c m v => simp only [PixR.toSky, SkyR.toPixel, PixR.geom, hp]
  | line a b m v => simp only [PixR.toSky, SkyR.toPixel, PixR.geom, hp]
  | text c t m v => simp only [PixR.toSky, SkyR.toPixel, PixR.geom, hp]
  | compound op r1 r2 m v ih1 ih2 =>
    simp only [PixR.toSky, SkyR.mkCompound, SkyR.toPixel, PixR.mkCompound, PixR.geom, ih1, ih2]

/-- **sky → pixel → sky**, likewise. -/
theorem roundtrip_sky_pix_sky (w : Wcs Sky α) (hs : ∀ q : Sky, w.toSky (w.toPix q) = q)
    (hr : Regular w) (r : SkyR Sky α) : ((r.toPixel w).toSky w).geom = r.geom := by
  induction r with
  | circle c r m v =>
    simp only [PixR.toSky, SkyR.toPixel, Wcs.scaleAngle, SkyR.geom, hs,
      div_mul_cancel₀ _ (hr.scale_ne _)]
  | ellipse c wd h d m v =>
    simp only [PixR.toSky, SkyR.toPixel, Wcs.scaleAngle, SkyR.geom, hs,
      div_mul_cancel₀ _ (hr.scale_ne _),
      dir_add_sub _ _ (northMinus90_unit _ (hr.north_unit _))]
  | rect c wd h d m v =>
    simp only [PixR.toSky, SkyR.toPixel, Wcs.scaleAngle, SkyR.geom, hs,
      div_mul_cancel₀ _ (hr.scale_ne _),
      dir_add_sub _ _ (northMinus90_unit _ (hr.north_unit _))]
  | polygon vs m v =>
    simp only [PixR.toSky, SkyR.toPixel, SkyR.geom, map_roundtrip _ _ hs]
  | circleAnnulus c r1 r2 m v =>
    simp only [PixR.toSky, SkyR.toPixel, Wcs.scaleAngle, SkyR.geom, hs,
      div_mul_cancel₀ _ (hr.scale_ne _)]
  | ellipseAnnulus c w1 w2 h1 h2 d m v =>
    simp only [PixR.toSky, SkyR.toPixel, Wcs.scaleAngle, SkyR.geom, hs,
      div_mul_cancel₀ _ (hr.scale_ne _),
      dir_add_sub _ _ (northMinus90_unit _ (hr.north_unit _))]
  | rectAnnulus c w1 w2 h1 h2 d m v =>
    simp only [PixR.toSky, SkyR.toPixel, Wcs.scaleAngle, SkyR.geom, hs,
      div_mul_cancel₀ _ (hr.scale_ne _),
      dir_add_sub _ _ (northMinus90_unit _ (hr.north_unit _))]
  | point c m v => simp only [PixR.toSky, SkyR.toPixel, SkyR.geom, hs]
  | line a b m v => simp only [PixR.toSky, SkyR.toPixel, SkyR.geom, hs]
  | text c t m v => simp only [PixR.toSky, SkyR.toPixel, SkyR.geom, hs]
  | compound op r1 r2 m v ih1 ih2 =>
    simp only [PixR.toSky, SkyR.mkCompound, SkyR.toPixel, PixR.mkCompound, SkyR.geom, ih1, ih2]

/-! ### meta and visual -/

/-- `sky → pixel` keeps every `meta` dictionary (include flag, label, …) at every node:
`CompoundPixelRegion.__init__` honours an explicit argument. -/
theorem toPixel_metas (w : Wcs Sky α) (r : SkyR Sky α) : (r.toPixel w).metas = r.metas := by
  induction r with
  | compound op r1 r2 m v ih1 ih2 =>
    simp only [SkyR.toPixel, PixR.mkCompound, PixR.metas, SkyR.metas, ih1, ih2]
  | _ => simp only [SkyR.toPixel, Wcs.scaleAngle, PixR.metas, SkyR.metas, PixR.metaD, SkyR.metaD, metaOr_some]

/-- `pixel → sky` keeps every `meta` dictionary at every node. -/
theorem toSky_metas (w : Wcs Sky α) (r : PixR α) : (r.toSky w).metas = r.metas := by
  induction r with
  | compound op r1 r2 m v ih1 ih2 =>
    simp only [PixR.toSky, SkyR.mkCompound, PixR.metas, SkyR.metas, ih1, ih2]
  | _ => simp only [PixR.toSky, Wcs.scaleAngle, PixR.metas, SkyR.metas, PixR.metaD, SkyR.metaD, metaOr_some]

/-- the non-`rotation` content of every `visual` survives `sky → pixel`. -/
theorem toPixel_visuals_rest (w : Wcs Sky α) (r : SkyR Sky α) :
    (r.toPixel w).visuals.map (·.rest) = r.visuals.map (·.rest) := by
  induction r with
  | compound op r1 r2 m v ih1 ih2 =>
    simp only [SkyR.toPixel, PixR.mkCompound, PixR.visuals, SkyR.visuals, List.map_cons, List.map_append,
      ih1, ih2]
  | text c t m v =>
    cases v with
    | mk rot rest =>
      cases rot <;>
        simp only [SkyR.toPixel, PixR.visuals, SkyR.visuals, PixR.visualD, SkyR.visualD, visualOr_some,
          List.map_cons, List.map_nil]
  | _ =>
    simp only [SkyR.toPixel, Wcs.scaleAngle, PixR.visuals, SkyR.visuals, PixR.visualD, SkyR.visualD,
      visualOr_some]

/-- **meta after pixel → sky → pixel**: every dictionary, include flag included, at every node. -/
theorem meta_preserved (w : Wcs Sky α) (r : PixR α) :
    ((r.toSky w).toPixel w).metas = r.metas := by
  rw [toPixel_metas, toSky_metas w r]

/-- **visual after pixel → sky → pixel**, including the text region's `rotation`, which is
changed by `to_sky` and restored by `to_pixel`. -/
theorem visual_preserved (w : Wcs Sky α) (r : PixR α) :
    ((r.toSky w).toPixel w).visuals = r.visuals := by
  induction r with
  | compound op r1 r2 m v ih1 ih2 =>
    simp only [PixR.toSky, SkyR.mkCompound, SkyR.toPixel, PixR.mkCompound, PixR.visuals, ih1, ih2]
  | text c t m v =>
    cases v with
    | mk rot rest =>
      cases rot with
      | none => simp only [PixR.toSky, SkyR.toPixel, PixR.visuals, PixR.visualD, visualOr_some]
      | some x =>
        simp only [PixR.toSky, SkyR.toPixel, PixR.visuals, PixR.visualD, visualOr_some, sub_add_cancel]
  | _ => simp only [PixR.toSky, SkyR.toPixel, Wcs.scaleAngle, PixR.visuals, PixR.visualD, visualOr_some]

/-- the whole region, dictionaries included, comes back **equal**. -/
theorem roundtrip_pix_sky_pix_exact (w : Wcs Sky α) (hp : ∀ p : Pt α, w.toPix (w.toSky p) = p)
    (hr : Regular w) (r : PixR α) : (r.toSky w).toPixel w = r := by
  induction r with
  | circle c r m v =>
    simp only [PixR.toSky, SkyR.toPixel, Wcs.scaleAngle, hp, metaOr_some, visualOr_some,
      mul_div_cancel_right₀ _ (hr.scale_ne _)]
  | ellipse c wd h d m v =>
    simp only [PixR.toSky, SkyR.toPixel, Wcs.scaleAngle, hp, metaOr_some, visualOr_some,
      mul_div_cancel_right₀ _ (hr.scale_ne _),
      dir_sub_add _ _ (northMinus90_unit _ (hr.north_unit _))]
  | rect c wd h d m v =>
    simp only [PixR.toSky, SkyR.toPixel, Wcs.scaleAngle, hp, metaOr_some, visualOr_some,
      mul_div_cancel_right₀ _ (hr.scale_ne _),
      dir_sub_add _ _ (northMinus90_unit _ (hr.north_unit _))]
  | polygon vs m v =>
    simp only [PixR.toSky, SkyR.toPixel, metaOr_some, visualOr_some, map_roundtrip _ _ hp]
  | circleAnnulus c r1 r2 m v =>
    simp only [PixR.toSky, SkyR.toPixel, Wcs.scaleAngle, hp, metaOr_some, visualOr_some,
      mul_div_cancel_right₀ _ (hr.scale_ne _)]
  | ellipseAnnulus c w1 w2 h1 h2 d m v =>
    simp only [PixR.toSky, SkyR.toPixel, Wcs.scaleAngle, hp, metaOr_some, visualOr_some,
      mul_div_cancel_right₀ _ (hr.scale_ne _),
      dir_sub_add _ _ (northMinus90_unit _ (hr.north_unit _))]
  | rectAnnulus c w1 w2 h1 h2 d m v =>
    simp only [PixR.toSky, SkyR.toPixel, Wcs.scaleAngle, hp, metaOr_some, visualOr_some,
      mul_div_cancel_right₀ _ (hr.scale_ne _),
      dir_sub_add _ _ (northMinus90_unit _ (hr.north_unit _))]
  | point c m v => simp only [PixR.toSky, SkyR.toPixel, hp, metaOr_some, visualOr_some]
  | line a b m v => simp only [PixR.toSky, SkyR.toPixel, hp, metaOr_some, visualOr_some]
  | text c t m v =>
    cases v with
    | mk rot rest =>
      cases rot with
      | none => simp only [PixR.toSky, SkyR.toPixel, hp, metaOr_some, visualOr_some]
      | some x => simp only [PixR.toSky, SkyR.toPixel, hp, metaOr_some, visualOr_some, sub_add_cancel]
  | compound op r1 r2 m v ih1 ih2 =>
    simp only [PixR.toSky, SkyR.mkCompound, SkyR.toPixel, PixR.mkCompound, ih1, ih2]

/-- sky → pixel → sky, dictionaries included. -/
theorem roundtrip_sky_pix_sky_exact (w : Wcs Sky α) (hs : ∀ q : Sky, w.toSky (w.toPix q) = q)
    (hr : Regular w) (r : SkyR Sky α) : (r.toPixel w).toSky w = r := by
  induction r with
  | circle c r m v =>
    simp only [PixR.toSky, SkyR.toPixel, Wcs.scaleAngle, hs, metaOr_some, visualOr_some,
      div_mul_cancel₀ _ (hr.scale_ne _)]
  | ellipse c wd h d m v =>
    simp only [PixR.toSky, SkyR.toPixel, Wcs.scaleAngle, hs, metaOr_some, visualOr_some,
      div_mul_cancel₀ _ (hr.scale_ne _),
      dir_add_sub _ _ (northMinus90_unit _ (hr.north_unit _))]
  | rect c wd h d m v =>
    simp only [PixR.toSky, SkyR.toPixel, Wcs.scaleAngle, hs, metaOr_some, visualOr_some,
      div_mul_cancel₀ _ (hr.scale_ne _),
      dir_add_sub _ _ (northMinus90_unit _ (hr.north_unit _))]
  | polygon vs m v =>
    simp only [PixR.toSky, SkyR.toPixel, metaOr_some, visualOr_some, map_roundtrip _ _ hs]
  | circleAnnulus c r1 r2 m v =>
    simp only [PixR.toSky, SkyR.toPixel, Wcs.scaleAngle, hs, metaOr_some, visualOr_some,
      div_mul_cancel₀ _ (hr.scale_ne _)]
  | ellipseAnnulus c w1 w2 h1 h2 d m v =>
    simp only [PixR.toSky, SkyR.toPixel, Wcs.scaleAngle, hs, metaOr_some, visualOr_some,
      div_mul_cancel₀ _ (hr.scale_ne _),
      dir_add_sub _ _ (northMinus90_unit _ (hr.north_unit _))]
  | rectAnnulus c w1 w2 h1 h2 d m v =>
    simp only [PixR.toSky, SkyR.toPixel, Wcs.scaleAngle, hs, metaOr_some, visualOr_some,
      div_mul_cancel₀ _ (hr.scale_ne _),
      dir_add_sub _ _ (northMinus90_unit _ (hr.north_unit _))]
  | point c m v => simp only [PixR.toSky, SkyR.toPixel, hs, metaOr_some, visualOr_some]
  | line a b m v => simp only [PixR.toSky, SkyR.toPixel, hs, metaOr_some, visualOr_some]
  | text c t m v =>
    cases v with
    | mk rot rest =>
      cases rot with
      | none => simp only [PixR.toSky, SkyR.toPixel, hs, metaOr_some, visualOr_some]
      | some x => simp only [PixR.toSky, SkyR.toPixel, hs, metaOr_some, visualOr_some, add_sub_cancel_right]
  | compound op r1 r2 m v ih1 ih2 =>
    simp only [PixR.toSky, SkyR.mkCompound, SkyR.toPixel, PixR.mkCompound, ih1, ih2]

/-- in particular the include flag of every node survives pixel → sky → pixel. -/
theorem include_preserved (w : Wcs Sky α) (r : PixR α) :
    ((r.toSky w).toPixel w).metas.map (·.inc) = r.metas.map (·.inc) := by rw [meta_preserved]

/-- **meta after sky → pixel → sky**. -/
theorem sky_meta_preserved (w : Wcs Sky α) (r : SkyR Sky α) : ((r.toPixel w).toSky w).metas = r.metas := by
  rw [toSky_metas, toPixel_metas]

/-- **visual after sky → pixel → sky** (the text `rotation` is restored because the helper is asked at
the same sky position both times — here the WCS hypothesis is needed). -/
theorem sky_visual_preserved (w : Wcs Sky α) (hs : ∀ q : Sky, w.toSky (w.toPix q) = q) (hr : Regular w)
    (r : SkyR Sky α) : ((r.toPixel w).toSky w).visuals = r.visuals := by
  rw [roundtrip_sky_pix_sky_exact w hs hr r]

/-! ### operators: any callable, the order of the two answers matters -/

/-- the three operators of the public API are commutative — which is why swapping the two component answers is
invisible with `&`, `|`, `^` — … -/
theorem rop_std_comm (o : BoolOp) (a b : Bool) : (ROp.std o).apply a b = (ROp.std o).apply b a := by
  cases o <;> cases a <;> cases b <;> rfl

/-- … an arbitrary callable is not: the set difference `a & ~b`. -/
theorem rop_table_not_comm : (ROp.table false false true false).apply true false
    ≠ (ROp.table false false true false).apply false true := by decide

/-- for expressions whose operators are all among `&`, `|`, `^`, membership is the shared expression model's. -/
theorem contains_toPReg (r : PixR α) (g : PReg α) (h : r.toPReg = some g) (p : Pt α) :
    r.contains p = g.contains p := by
  induction r generalizing g with
  | compound op a b m v iha ihb =>
    cases op with
    | table ff ft tf tt => simp [PixR.toPReg] at h
    | std o =>
      simp only [PixR.toPReg] at h
      cases ha : a.toPReg with
      | none => simp [ha] at h
      | some ga =>
        cases hb : b.toPReg with
        | none => simp [ha, hb] at h
        | some gb =>
          simp only [ha, hb, Option.some.injEq] at h
          subst h
          simp only [PixR.contains, PReg.contains, iha ga ha, ihb gb hb, ROp.apply]
  | _ =>
    simp only [PixR.toPReg, Option.some.injEq] at h
    subst h
    simp only [PixR.contains]

/-! ### membership -/

/-- **`SkyRegion.contains` is the pixel image's answer on the WCS image of the position** — for every
class; for compounds the component-wise definition of `CompoundSkyRegion.contains` agrees with
converting the whole compound (induction over the expression).  No hypothesis on the WCS: region and
position go through the same `wcs.world_to_pixel` (F205 repaired in b44d15d). -/
theorem sky_contains_eq (w : Wcs Sky α) (r : SkyR Sky α) (q : Sky) :
    r.contains w q = (r.toPixel w).contains (w.toPix q) := by
  induction r with
  | compound op r1 r2 m v ih1 ih2 =>
    simp only [SkyR.contains, ih1, ih2, SkyR.toPixel, PixR.mkCompound, PixR.contains]
  | point c m v =>
    simp only [SkyR.contains, SkyR.toPixel, PixR.contains, PReg.contains, metaOr_some,
      C01.empty_contains_nothing]
  | line a b m v =>
    simp only [SkyR.contains, SkyR.toPixel, PixR.contains, PReg.contains, metaOr_some,
      C01.empty_contains_nothing]
  | text c t m v =>
    simp only [SkyR.contains, SkyR.toPixel, PixR.contains, PReg.contains, metaOr_some,
      C01.empty_contains_nothing]
  | _ => simp only [SkyR.contains]

/-- the include flag acts on a sky region exactly as on its pixel image: complement. -/
theorem sky_compound_contains (w : Wcs Sky α) (op : ROp) (a b : SkyR Sky α) (m : Meta) (v : Visual α)
    (q : Sky) :
    (SkyR.compound op a b m v).contains w q
      = withInclude m.inc (op.apply ((a.toPixel w).contains (w.toPix q)) ((b.toPixel w).contains (w.toPix q))) := by
  simp only [SkyR.contains, sky_contains_eq]

/-- membership survives pixel → sky: the sky image of a pixel region contains the sky image of a
position exactly when the region contained the position. -/
theorem pix_contains_via_sky (w : Wcs Sky α) (hp : ∀ p : Pt α, w.toPix (w.toSky p) = p)
    (hr : Regular w) (r : PixR α) (p : Pt α) : (r.toSky w).contains w (w.toSky p) = r.contains p := by
  rw [sky_contains_eq, roundtrip_pix_sky_pix_exact w hp hr r, hp]

end field

/-! ### shape of the sky-side answer (scalar / array positions) -/

section shape
variable {Sky α : Type}

/-- full strength: asked about positions of shape `q`, a sky region answers in the shape `q` — as its
pixel image does (`C01.resultShape_spec`). -/
def sky_contains_shape_full : Prop :=
  ∀ (Sky α : Type) (r : SkyR Sky α) (q : QShape), r.containsShape q = q

theorem containsShapeV_false (r : SkyR Sky α) (q : QShape) : r.containsShapeV false q = q := by
  induction r with
  | compound op a b m v iha ihb =>
    simp only [SkyR.containsShapeV, iha, ihb]
    cases q <;> rfl
  | _ => simp [SkyR.containsShapeV]

/-- **holds for the current code** (F203 repaired in b532b53): every class, compounds of any depth. -/
theorem sky_contains_shape_full_holds : sky_contains_shape_full := fun _ _ r q => containsShapeV_false r q

/-- the unrepaired variant (`PointSkyRegion.contains` returning one bool for an array of two positions)
refutes the clause — kept as a checked theorem about that variant. -/
theorem sky_contains_shape_unrepaired_refuted :
    ¬ ∀ (Sky α : Type) (r : SkyR Sky α) (q : QShape), r.containsShapeV true q = q := by
  intro h
  have := h Unit Unit (.point () Meta.empty Visual.empty) (some [2])
  simp [SkyR.containsShapeV] at this

/-- what the unrepaired variant did, exactly: the shape of the positions when some component answers
through the pixel image, one scalar otherwise. -/
theorem sky_contains_shape_unrepaired (r : SkyR Sky α) (q : QShape) :
    r.containsShapeV true q = if r.hasSized then q else none := by
  induction r with
  | compound op a b m v iha ihb =>
    simp only [SkyR.containsShapeV, SkyR.hasSized, iha, ihb]
    by_cases ha : a.hasSized = true <;> by_cases hb : b.hasSized = true <;> cases q <;> simp [ha, hb]
  | _ => simp [SkyR.containsShapeV, SkyR.hasSized]

end shape

/-! ### sky → pixel → sky for a region given in ANOTHER frame than the WCS's (finding F204)

`Sky` is a position together with the frame it is expressed in.  `pixel_to_world` always answers in the
WCS's frame, so `toSky (toPix q) = q` fails for a `q` given in another frame, and the helper measures the
scale along the north of the frame of the position it is handed.  Without the invertibility hypothesis the
angular size that comes back is `size / scale(original position) * scale(returned position)`. -/

section anyframe
variable {Sky α : Type} [Field α] [LinearOrder α] [IsStrictOrderedRing α]

/-- the size that comes back, exactly. -/
theorem circle_roundtrip_size_any_frame (w : Wcs Sky α) (c : Sky) (r : α) (m : Meta) (v : Visual α) :
    ((SkyR.circle c r m v).toPixel w).toSky w
      = .circle (w.toSky (w.toPix c)) (r / (w.loc c).scale * (w.loc (w.toSky (w.toPix c))).scale) m v := by
  simp only [SkyR.toPixel, PixR.toSky, Wcs.scaleAngle, metaOr_some, visualOr_some]

end anyframe

/-- full strength: the geometry survives sky → pixel → sky for EVERY sky region, in whatever frame its
positions are given (no hypothesis that `toSky ∘ toPix` is the identity on framed positions). -/
def sky_roundtrip_any_frame_full : Prop :=
  ∀ (Sky α : Type) [Field α] [LinearOrder α] [IsStrictOrderedRing α] (w : Wcs Sky α), Regular w →
    ∀ r : SkyR Sky α, ∀ c r0 m v, r = SkyR.circle c r0 m v →
      ∃ c', ((r.toPixel w).toSky w) = SkyR.circle c' r0 m v

/-- sky positions = a point with a frame tag (`true` = given in a frame other than the WCS's); the WCS maps
both tags to the same pixel, answers with tag `false`, and its scale along the other frame's north is 2,
along its own north 1 (a place where the projection is not conformal). -/
def twoFrameWcs : Wcs (Pt ℚ × Bool) ℚ :=
  ⟨fun q => q.1, fun p => (p, false), fun q => ⟨if q.2 then 2 else 1, ⟨0, 1⟩, 90⟩⟩

/-- refuted: a circle of radius 6 given in the other frame comes back with radius 3. -/
theorem sky_roundtrip_any_frame_full_refuted : ¬ sky_roundtrip_any_frame_full := by
  intro h
  have hreg : Regular twoFrameWcs :=
    ⟨fun q => by cases q with | mk p t => cases t <;> simp [twoFrameWcs],
     fun q => by simp [twoFrameWcs, Dir.IsUnit]⟩
  obtain ⟨c', hc⟩ := h (Pt ℚ × Bool) ℚ twoFrameWcs hreg _ (⟨0, 0⟩, true) 6 Meta.empty Visual.empty rfl
  rw [circle_roundtrip_size_any_frame] at hc
  simp only [twoFrameWcs, SkyR.circle.injEq] at hc
  norm_num at hc

/-- partial: positions given in the WCS's own frame (`toSky (toPix q) = q`) — `roundtrip_sky_pix_sky`,
`roundtrip_sky_pix_sky_exact` above; the decidable side condition on an input is "frame of the position =
frame of the WCS". -/
theorem sky_roundtrip_any_frame_partial {Sky α : Type} [Field α] [LinearOrder α] [IsStrictOrderedRing α]
    (w : Wcs Sky α) (hs : ∀ q : Sky, w.toSky (w.toPix q) = q) (hr : Regular w) (r : SkyR Sky α) :
    (r.toPixel w).toSky w = r := roundtrip_sky_pix_sky_exact w hs hr r

/-! ### the membership clause against the WCS image of the position (finding F205, repaired in b44d15d)

Before the repair the positions went through `PixCoord.from_sky` (astropy's `skycoord_to_pixel`, which exchanges the
pixel axes of a latitude-first WCS) while the region went through `wcs.world_to_pixel`; a sky circle did not contain its own
centre on such a WCS.  Now both take the same route and the clause holds at full strength, for every WCS parameter. -/

def sky_contains_wcs_image_full : Prop :=
  ∀ (Sky α : Type) [Field α] [LinearOrder α] [IsStrictOrderedRing α] (w : Wcs Sky α) (r : SkyR Sky α) (q : Sky),
    r.contains w q = (r.toPixel w).contains (w.toPix q)

theorem sky_contains_wcs_image_full_holds : sky_contains_wcs_image_full :=
  fun _ _ _ _ _ w r q => sky_contains_eq w r q

/-! ### the full-strength meta / visual clauses (F2 fixed: they hold) -/

/-- full strength: every `meta` dictionary (include flag included) survives pixel → sky → pixel. -/
def meta_preserved_full : Prop :=
  ∀ (Sky α : Type) [Field α] [LinearOrder α] [IsStrictOrderedRing α] (w : Wcs Sky α) (r : PixR α),
    ((r.toSky w).toPixel w).metas = r.metas

def visual_preserved_full : Prop :=
  ∀ (Sky α : Type) [Field α] [LinearOrder α] [IsStrictOrderedRing α] (w : Wcs Sky α) (r : PixR α),
    ((r.toSky w).toPixel w).visuals = r.visuals

/-- full strength, other direction: sky → pixel → sky. -/
def sky_meta_preserved_full : Prop :=
  ∀ (Sky α : Type) [Field α] [LinearOrder α] [IsStrictOrderedRing α] (w : Wcs Sky α) (r : SkyR Sky α),
    ((r.toPixel w).toSky w).metas = r.metas

/-- full strength: membership survives pixel → sky for an invertible, regular WCS. -/
def pix_contains_via_sky_full : Prop :=
  ∀ (Sky α : Type) [Field α] [LinearOrder α] [IsStrictOrderedRing α] (w : Wcs Sky α),
    (∀ p : Pt α, w.toPix (w.toSky p) = p) → Regular w →
      ∀ (r : PixR α) (p : Pt α), (r.toSky w).contains w (w.toSky p) = r.contains p

theorem meta_preserved_full_holds : meta_preserved_full := fun _ _ _ _ _ w r => meta_preserved w r

theorem visual_preserved_full_holds : visual_preserved_full := fun _ _ _ _ _ w r => visual_preserved w r

theorem sky_meta_preserved_full_holds : sky_meta_preserved_full := fun _ _ _ _ _ w r =>
  sky_meta_preserved w r

theorem pix_contains_via_sky_full_holds : pix_contains_via_sky_full :=
  fun _ _ _ _ _ w hp hr r p => pix_contains_via_sky w hp hr r p

/-- the former witness of F2, `CompoundPixelRegion(circle, circle, and_, meta={'include': False,
'label': 'zz'}, visual={'color': 'blue'})`, now round-trips. -/
def witnessMeta : Meta := ⟨.pyFalse, [("label", "zz")]⟩
def witnessVisual : Visual ℚ := ⟨none, [("color", "blue")]⟩
def witness : PixR ℚ :=
  PixR.mkCompound (.circle ⟨0, 0⟩ 2 Meta.empty Visual.empty) (.circle ⟨1, 0⟩ 2 Meta.empty Visual.empty) (.std .and)
    (some witnessMeta) (some witnessVisual)

/-- the identity WCS on `ℚ²`: scale 1 arcsec / pixel, north = +y. -/
def idWcs : Wcs (Pt ℚ) ℚ := ⟨id, id, fun _ => ⟨1, ⟨0, 1⟩, 90⟩⟩

theorem idWcs_invertible : Invertible idWcs := ⟨fun _ => rfl, fun _ => rfl⟩

theorem idWcs_regular : Regular idWcs :=
  ⟨fun _ => by simp [idWcs], fun _ => by simp [idWcs, Dir.IsUnit]⟩

example : ((witness.toSky idWcs).toPixel idWcs).metas = [witnessMeta, Meta.empty, Meta.empty] := by
  rw [meta_preserved]; rfl

/-! ### non-vacuity -/

-- the hypotheses are satisfiable by a WCS that is not the identity: rotated, scaled, shifted
def rotWcs : Wcs (Pt ℚ) ℚ :=
  ⟨fun q => ⟨(3/5 * q.x - 4/5 * q.y) / 2 + 10, (4/5 * q.x + 3/5 * q.y) / 2 - 3⟩,
   fun p => ⟨3/5 * (2 * (p.x - 10)) + 4/5 * (2 * (p.y + 3)), -(4/5) * (2 * (p.x - 10)) + 3/5 * (2 * (p.y + 3))⟩,
   fun _ => ⟨2, ⟨-(4/5), 3/5⟩, 0⟩⟩

example : Invertible rotWcs :=
  ⟨fun p => by cases p; simp only [rotWcs, Pt.mk.injEq]; constructor <;> ring,
   fun q => by cases q; simp only [rotWcs, Pt.mk.injEq]; constructor <;> ring⟩

example : Regular rotWcs :=
  ⟨fun _ => by simp [rotWcs], fun _ => by simp only [rotWcs, Dir.IsUnit]; norm_num⟩

end RegionsVerif.Props.C06
