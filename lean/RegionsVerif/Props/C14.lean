/-
C14 — file writing never clobbers or half-writes, and files read back as written.

Theorems about `Impl.Write` (the write protocol as a step machine over an abstract file
system, the identifier tables and the registry's first-match dispatch) instantiated with the
step orders and tables that `tools/c14_extract.py` regenerates from the source on every run
(`Gen.WriteTables`).  General theorems hold for EVERY file system, every path state (file,
symlink, dangling symlink, symlink chain), every list of regions of every length and every
serialiser / encoder / reader (parameters); the theorems over the generated tables are closed
by `decide` and are therefore re-proved against the current source on every run.

Parameters (never axioms): `Params.ser`, `Params.enc`, `Params.hdu`, `Params.writeto`
(astropy's `writeto`; `astropyWriteto` is the behaviour observed in astropy 8 and is proved to
satisfy the laws the theorems assume), `Reader.parseFile`, `Reader.gunzip`, and the OS itself
(`open`, `os.path.lexists` as modelled in `Impl.Write`).
-/
import RegionsVerif.Impl.Write
import RegionsVerif.Gen.WriteTables

namespace RegionsVerif.Props.C14
open RegionsVerif.Impl.Write RegionsVerif.Gen.WriteTables

variable {Item : Type}

deriving instance DecidableEq for Except

/-! ### file-system lemmas -/

theorem set_same (fs : FS) (p : Path) (n : Node) : (fs.set p n) p = n := by
  simp [FS.set]

theorem set_other (fs : FS) (p q : Path) (n : Node) (h : q ≠ p) : (fs.set p n) q = fs q := by
  simp [FS.set, h]

theorem set_set (fs : FS) (p : Path) (n m : Node) : (fs.set p n).set p m = fs.set p m := by
  funext q; by_cases h : q = p <;> simp [FS.set, h]

/-- the end of a symlink chain is never a symlink. -/
theorem resolve_not_link (fs : FS) : ∀ (n : Nat) (p q : Path), resolve fs n p = some q →
    ∀ t, fs q ≠ .link t := by
  intro n
  induction n with
  | zero => intro p q h; simp [resolve] at h
  | succ n ih =>
    intro p q h t
    unfold resolve at h
    split at h
    · exact ih _ _ h t
    · rename_i hnl
      simp only [Option.some.injEq] at h
      subst h
      exact fun hc => hnl t hc

/-- creating / replacing the file at the end of the chain does not change where the chain ends. -/
theorem resolve_set_end (fs : FS) (b : Bytes) : ∀ (n : Nat) (p q : Path), resolve fs n p = some q →
    resolve (fs.set q (.file b)) n p = some q := by
  intro n
  induction n with
  | zero => intro p q h; simp [resolve] at h
  | succ n ih =>
    intro p q h
    have hq := resolve_not_link fs (n + 1) p q h
    unfold resolve at h ⊢
    split at h
    · rename_i t ht
      have hpq : p ≠ q := by
        intro hc; subst hc; exact hq t ht
      rw [set_other _ _ _ _ hpq, ht]
      exact ih _ _ h
    · rename_i hnl
      simp only [Option.some.injEq] at h
      subst h
      rw [set_same]

/-- after `open(p,'w')`+write (through symlinks) reading `p` gives what was written. -/
theorem stat_set_end (fs : FS) (p q : Path) (b : Bytes) (h : resolve fs linkFuel p = some q) :
    stat (fs.set q (.file b)) p = some b := by
  unfold stat
  rw [resolve_set_end fs b linkFuel p q h]
  simp [set_same]

/-- a regular file is read as itself. -/
theorem stat_file (fs : FS) (p : Path) (b : Bytes) (h : fs p = .file b) : stat fs p = some b := by
  unfold stat linkFuel
  simp [resolve, h]

theorem lexists_link (fs : FS) (p t : Path) (h : fs p = .link t) : lexists fs p = true := by
  simp [lexists, h]

theorem lexists_file (fs : FS) (p : Path) (b : Bytes) (h : fs p = .file b) : lexists fs p = true := by
  simp [lexists, h]

/-! ### laws of astropy's `writeto` used below, and the observed behaviour satisfies them -/

/-- what the theorems assume about `hdu.writeto(name, overwrite=…)`. -/
structure WritetoLaw (wt : FS → Path → Bytes → Bool → Outcome) : Prop where
  /-- an existing non-empty destination is refused without `overwrite`, nothing is touched -/
  refuse : ∀ fs p b, nonEmpty fs p = true → wt fs p b false = ⟨some "OSError", fs⟩
  /-- a failing `writeto` leaves the file system as it was -/
  atomic : ∀ fs p b ow, (wt fs p b ow).exc ≠ none → (wt fs p b ow).fs = fs
  /-- after a successful `writeto` the path reads back as the bytes written -/
  content : ∀ fs p b ow, (wt fs p b ow).exc = none → stat (wt fs p b ow).fs p = some b
  /-- … and only the path itself or the end of its symlink chain changed -/
  frame : ∀ fs p b ow q, (wt fs p b ow).exc = none → q ≠ p → resolve fs linkFuel p ≠ some q →
    (wt fs p b ow).fs q = fs q

theorem astropyWriteto_law : WritetoLaw astropyWriteto := by
  refine ⟨?_, ?_, ?_, ?_⟩
  · intro fs p b h
    simp [astropyWriteto, h]
  · intro fs p b ow h
    unfold astropyWriteto at h ⊢
    by_cases h1 : nonEmpty fs p = true
    · cases ow <;> simp_all
    · cases hq : resolve fs linkFuel p <;> simp_all
  · intro fs p b ow h
    unfold astropyWriteto at h ⊢
    by_cases h1 : nonEmpty fs p = true
    · cases ow
      · simp_all
      · simp only [h1, if_true]
        exact stat_file _ _ _ (set_same _ _ _)
    · cases hq : resolve fs linkFuel p with
      | none => simp_all
      | some q =>
        simp only [h1, if_false, Bool.false_eq_true]
        exact stat_set_end fs p q b hq
  · intro fs p b ow q h hqp hres
    unfold astropyWriteto at h ⊢
    by_cases h1 : nonEmpty fs p = true
    · cases ow
      · simp_all
      · simp [h1, FS.set, hqp]
    · cases hq : resolve fs linkFuel p with
      | none => simp_all
      | some q' =>
        have : q ≠ q' := by
          intro hc; subst hc; exact hres hq
        simp [h1, FS.set, this]

/-! ### single steps -/

/-- a step that raises leaves the state (hence the file system) alone — `writeto` excepted,
which is astropy's business (`WritetoLaw.atomic`). -/
theorem step_err_state (P : Params Item) (p : Path) (items : List Item) (ow : Bool) (st : Step)
    (s : St) (e : String) (hst : st ≠ .writeto)
    (h : (step P p items ow st s).2 = some e) : (step P p items ow st s).1 = s := by
  cases st <;> simp only [step] at h ⊢
  all_goals first
    | contradiction
    | (split <;> first | rfl | (split <;> first | rfl | simp_all) | simp_all)
    | skip
  all_goals first
    | (split at h <;> simp_all; done)
    | skip

theorem step_pure_fs (P : Params Item) (p : Path) (items : List Item) (ow : Bool) (st : Step)
    (s : St) (hm : st.mutating = false) : (step P p items ow st s).1.fs = s.fs := by
  cases st <;> simp only [Step.mutating] at hm <;> simp only [step]
  all_goals first
    | contradiction
    | (split <;> first | rfl | (split <;> rfl))
    | skip

/-! ### clause 1 — a refused write changes nothing -/

/-- **refused_write_unchanged** (general form).  A writer whose FIRST step is the `lexists`
check raises `OSError` and leaves the whole file system untouched whenever the destination
exists in any form — regular file, symlink to a file, dangling symlink, symlink loop — for
every serialiser and every list (the check comes before serialisation). -/
theorem refused_of_guarded (P : Params Item) (p : Path) (items : List Item) (steps : List Step)
    (fs : FS) (hg : guardedFirst steps = true) (hex : lexists fs p = true) :
    (run P p items false steps (St.init fs)).exc = some "OSError" ∧
    (run P p items false steps (St.init fs)).fs = fs := by
  cases steps with
  | nil => simp [guardedFirst] at hg
  | cons st rest =>
    cases st <;> simp [guardedFirst] at hg
    simp [run, step, St.init, hex]

/-- the clause at full strength over the generated protocols, for otherwise valid writes,
with astropy's `writeto` as observed. -/
def refused_write_unchanged_full : Prop :=
  ∀ (f : Format) (P : Params Unit) (fs : FS) (p : Path) (t : Bytes),
    P.writeto = astropyWriteto → P.ser [] = .ok t → P.hdu = none →
    lexists fs p = true →
    (run P p [] false (proto f) (St.init fs)).exc = some "OSError" ∧
    (run P p [] false (proto f) (St.init fs)).fs = fs

/-- the full clause follows as soon as every generated writer starts with the `lexists` check
(used below: F18 is repaired). -/
theorem refused_write_unchanged_full_of_guarded (h : ∀ f, guardedFirst (proto f) = true) :
    refused_write_unchanged_full := by
  intro f P fs p t _ _ _ hex
  exact refused_of_guarded P p [] (proto f) fs (h f) hex

/-- a destination that is a dangling symlink -/
def danglingFS : FS := fun q => if q = ['a'] then .link ['b'] else .absent

def okParams : Params Unit :=
  { ser := fun _ => .ok ['x'], enc := fun t => .ok t, hdu := none, writeto := astropyWriteto }

/-- every generated writer starts with the `lexists` check (generated table, decided on every
run).  Since `fix: b692b96` this includes FITS (F18, fixed). -/
theorem all_writers_guarded : ∀ f : Format, guardedFirst (proto f) = true := by
  intro f; cases f <;> decide

/-- **refused_write_unchanged**, full strength over the generated protocols. -/
theorem refused_write_unchanged_full_holds : refused_write_unchanged_full :=
  refused_write_unchanged_full_of_guarded all_writers_guarded

/-- **refused_write_unchanged**: in EVERY format, for every file system and every state of the
destination that `lexists` sees (regular file, empty file, symlink to a file, dangling symlink,
symlink chain or loop), every list, every serialiser and every `writeto`, a write without
`overwrite=True` raises `OSError` and leaves the whole file system unchanged. -/
theorem refused_write_unchanged (f : Format) (P : Params Item) (fs : FS) (p : Path) (items : List Item)
    (hex : lexists fs p = true) :
    (run P p items false (proto f) (St.init fs)).exc = some "OSError" ∧
    (run P p items false (proto f) (St.init fs)).fs = fs :=
  refused_of_guarded P p items _ fs (all_writers_guarded f) hex

/-- the former F18 witness (FITS, dangling symlink) is now refused and nothing is created. -/
example : (run okParams ['a'] [] false (proto .fits) (St.init danglingFS)).exc = some "OSError" := by decide
example : (run okParams ['a'] [] false (proto .fits) (St.init danglingFS)).fs ['b'] = .absent := by decide
example : lexists danglingFS ['a'] = true := by decide

/-! ### clause 2 — a failed write changes nothing -/

/-- **failed_write_unchanged**.  If serialisation precedes every file-system-touching step
(`safeOrder`, decided on the generated step order), a serialisation failure leaves the file
system exactly as it was — for every file system, every path state and `overwrite=True`. -/
theorem failed_write_unchanged (P : Params Item) (p : Path) (items : List Item) (ow : Bool)
    (e : String) (hser : P.ser items = .error e) :
    ∀ (steps : List Step) (s : St), safeOrder steps = true →
      (run P p items ow steps s).exc ≠ none ∧ (run P p items ow steps s).fs = s.fs := by
  intro steps
  induction steps with
  | nil => intro s h; simp [safeOrder] at h
  | cons st rest ih =>
    intro s h
    by_cases hs : st = .serialize
    · subst hs
      simp [run, step, hser]
    · have hm : st.mutating = false ∧ safeOrder rest = true := by
        cases st <;> simp_all [safeOrder, Step.mutating]
      have hfs := step_pure_fs P p items ow st s hm.1
      unfold run
      cases hstep : step P p items ow st s with
      | mk s' r =>
        rw [hstep] at hfs
        cases r with
        | none =>
          have := ih s' hm.2
          simp only at hfs ⊢
          rw [← hfs]; exact this
        | some e' =>
          simp only at hfs ⊢
          exact ⟨by simp, hfs⟩

/-- in every generated protocol serialisation comes before the file is opened / written. -/
theorem serialize_precedes_open : ∀ f : Format, safeOrder (proto f) = true := by
  intro f; cases f <;> decide

/-- the concrete serialiser fails as soon as ONE element is unserialisable, wherever it sits
in a list of any length. -/
theorem serIds_bad_anywhere (pre post : List Impl.Write.Item) (x : Impl.Write.Item)
    (hx : x.isBad = true) : ∃ e, serIds (pre ++ x :: post) = .error e := by
  induction pre with
  | nil =>
    cases hk : x.kind with
    | bad e => exact ⟨e, by simp [serIds, hk]⟩
    | ok => simp [Impl.Write.Item.isBad, hk] at hx
    | skip => simp [Impl.Write.Item.isBad, hk] at hx
  | cons y ys ih =>
    obtain ⟨e, he⟩ := ih
    cases hk : y.kind with
    | bad e' => exact ⟨e', by simp [serIds, hk]⟩
    | skip => exact ⟨e, by simp [serIds, hk, he]⟩
    | ok => exact ⟨e, by simp [serIds, hk, he]⟩

/-- … and succeeds when no element is bad (so failure ⇔ some element is unserialisable). -/
theorem serIds_ok_of_no_bad (l : List Impl.Write.Item) (h : ∀ x ∈ l, x.isBad = false) :
    ∃ ids, serIds l = .ok ids := by
  induction l with
  | nil => exact ⟨[], rfl⟩
  | cons y ys ih =>
    obtain ⟨ids, hi⟩ := ih (fun x hx => h x (List.mem_cons_of_mem _ hx))
    have hy := h y List.mem_cons_self
    cases hk : y.kind with
    | bad e' => simp [Impl.Write.Item.isBad, hk] at hy
    | skip => exact ⟨ids, by simp [serIds, hk, hi]⟩
    | ok => exact ⟨y.id :: ids, by simp [serIds, hk, hi]⟩

/-- **failed_write_unchanged**, element form: in every format, an unserialisable element at ANY
position of a list of ANY length makes the write fail and leaves every path of every file
system unchanged, even with `overwrite=True`. -/
theorem failed_write_any_position (f : Format) (P : Params Impl.Write.Item) (tok : List String → Bytes)
    (hP : ∀ l, P.ser l = (serIds l).map tok)
    (pre post : List Impl.Write.Item) (x : Impl.Write.Item) (hx : x.isBad = true)
    (p : Path) (ow : Bool) (fs : FS) :
    (run P p (pre ++ x :: post) ow (proto f) (St.init fs)).exc ≠ none ∧
    (run P p (pre ++ x :: post) ow (proto f) (St.init fs)).fs = fs := by
  obtain ⟨e, he⟩ := serIds_bad_anywhere pre post x hx
  have : P.ser (pre ++ x :: post) = .error e := by rw [hP, he]; rfl
  exact failed_write_unchanged P p _ ow e this (proto f) (St.init fs) (serialize_precedes_open f)

example : (⟨"r2", .bad "KeyError", true⟩ : Impl.Write.Item).isBad = true := by decide

/-! ### clause 2, every cause of failure -/

/-- what is statically known about the state (`failSafeFrom`'s flags). -/
def Known (P : Params Item) (items : List Item) (ho hd hh : Bool) (s : St) : Prop :=
  (ho = true → ∃ t, s.out = some t ∧ P.ser items = .ok t) ∧
  (hd = true → ∃ b, s.data = some b) ∧
  (hh = true → ∃ q, s.handle = some q)

/-- once the file system has been touched, a `failSafe` protocol cannot raise any more. -/
theorem run_ok_after_mutation (encOK : Bool) (P : Params Item) (p : Path) (items : List Item) (ow : Bool)
    (henc : encOK = true → ∀ t, P.ser items = .ok t → ∃ b, P.enc t = .ok b) :
    ∀ (steps : List Step) (ho hd hh : Bool) (s : St),
      failSafeFrom encOK true ho hd hh steps = true → Known P items ho hd hh s →
      (run P p items ow steps s).exc = none := by
  intro steps
  induction steps with
  | nil => intro ho hd hh s _ _; rfl
  | cons st rest ih =>
    intro ho hd hh s hfs hk
    obtain ⟨hko, hkd, hkh⟩ := hk
    cases st <;> simp [failSafeFrom] at hfs
    · -- encode
      obtain ⟨⟨he, hho⟩, hrest⟩ := hfs
      obtain ⟨t, hout, hser⟩ := hko hho
      obtain ⟨b, hb⟩ := henc he t hser
      have hstep : step P p items ow .encode s = ({ s with data := some b }, none) := by
        simp [step, hout, hb]
      unfold run; rw [hstep]
      exact ih ho true hh _ hrest ⟨fun h => hko h, fun _ => ⟨b, rfl⟩, fun h => hkh h⟩
    · -- writeBytes
      obtain ⟨⟨hhd, hhh⟩, hrest⟩ := hfs
      obtain ⟨b, hb⟩ := hkd hhd
      obtain ⟨q, hq⟩ := hkh hhh
      have hstep : step P p items ow .writeBytes s = ({ s with fs := s.fs.set q (.file b) }, none) := by
        simp [step, hq, hb]
      unfold run; rw [hstep]
      exact ih ho hd hh _ hrest ⟨fun h => hko h, fun h => hkd h, fun h => hkh h⟩

/-- **any_failure_unchanged**.  For a protocol that passes the static check `failSafe encOK`
(no step can raise after the first file-system-touching step; with `encOK = true` text encoding
is assumed not to fail), a write that raises FOR ANY REASON — refused, unserialisable element,
bad option, `BinTableHDU` rejecting the header, ELOOP, astropy refusing — leaves the whole file
system as it was. -/
theorem any_failure_unchanged (encOK : Bool) (P : Params Item) (p : Path) (items : List Item) (ow : Bool)
    (hat : ∀ fs p b ow, (P.writeto fs p b ow).exc ≠ none → (P.writeto fs p b ow).fs = fs)
    (henc : encOK = true → ∀ t, P.ser items = .ok t → ∃ b, P.enc t = .ok b) (fs0 : FS) :
    ∀ (steps : List Step) (ho hd hh : Bool) (s : St),
      failSafeFrom encOK false ho hd hh steps = true → Known P items ho hd hh s → s.fs = fs0 →
      (run P p items ow steps s).exc ≠ none → (run P p items ow steps s).fs = fs0 := by
  intro steps
  induction steps with
  | nil => intro ho hd hh s _ _ hfs0 _; simpa [run] using hfs0
  | cons st rest ih =>
    intro ho hd hh s hfs hk hfs0 hexc
    obtain ⟨fs, out, data, handle⟩ := s
    simp only at hfs0
    subst hfs0
    have hk0 := hk
    obtain ⟨hko, hkd, hkh⟩ := hk
    simp only at hko hkd hkh
    cases st
    case checkExists =>
      simp [failSafeFrom] at hfs
      simp only [run, step] at hexc ⊢
      by_cases hc : (lexists fs p && !ow) = true
      · simp only [hc, if_true]
      · simp only [hc] at hexc ⊢
        exact ih ho hd hh _ hfs hk0 rfl hexc
    case checkExistsFollow =>
      simp [failSafeFrom] at hfs
      simp only [run, step] at hexc ⊢
      by_cases hc : (pexists fs p && !ow) = true
      · simp only [hc, if_true]
      · simp only [hc] at hexc ⊢
        exact ih ho hd hh _ hfs hk0 rfl hexc
    case buildHdu =>
      simp [failSafeFrom] at hfs
      simp only [run, step] at hexc ⊢
      cases hh' : P.hdu with
      | none =>
        simp only [hh'] at hexc ⊢
        exact ih ho hd hh _ hfs hk0 rfl hexc
      | some e => simp only
    case serialize =>
      simp [failSafeFrom] at hfs
      simp only [run, step] at hexc ⊢
      cases hser : P.ser items with
      | error e => simp only
      | ok t =>
        simp only [hser] at hexc ⊢
        have hk' : Known P items true hd hh { fs := fs, out := some t, data := data, handle := handle } :=
          ⟨fun _ => ⟨t, rfl, hser⟩, hkd, hkh⟩
        exact ih true hd hh _ hfs hk' rfl hexc
    case encode =>
      simp [failSafeFrom] at hfs
      simp only [run, step] at hexc ⊢
      cases out with
      | none => simp only
      | some t =>
        simp only at hexc ⊢
        cases hb : P.enc t with
        | error e => simp only
        | ok b =>
          simp only [hb] at hexc ⊢
          have hk' : Known P items ho true hh { fs := fs, out := some t, data := some b, handle := handle } :=
            ⟨hko, fun _ => ⟨b, rfl⟩, hkh⟩
          exact ih ho true hh _ hfs hk' rfl hexc
    case openWrite =>
      simp [failSafeFrom] at hfs
      simp only [run, step] at hexc ⊢
      cases ho' : openW fs p with
      | none => simp only
      | some r =>
        obtain ⟨fs', q⟩ := r
        simp only [ho'] at hexc ⊢
        have hk' : Known P items ho hd true { fs := fs', out := out, data := data, handle := some q } :=
          ⟨hko, hkd, fun _ => ⟨q, rfl⟩⟩
        exact absurd (run_ok_after_mutation encOK P p items ow henc rest ho hd true _ hfs hk') hexc
    case writeBytes =>
      simp [failSafeFrom] at hfs
      simp only [run, step] at hexc ⊢
      cases handle with
      | none => simp only
      | some q =>
        cases data with
        | none => simp only
        | some b =>
          simp only at hexc ⊢
          have hk' : Known P items ho hd hh { fs := fs.set q (.file b), out := out, data := some b, handle := some q } :=
            ⟨hko, hkd, hkh⟩
          exact absurd (run_ok_after_mutation encOK P p items ow henc rest ho hd hh _ hfs hk') hexc
    case writeto =>
      simp [failSafeFrom] at hfs
      simp only [run, step] at hexc ⊢
      cases out with
      | none => simp only
      | some t =>
        simp only at hexc ⊢
        cases hr : (P.writeto fs p t ow).exc with
        | some e =>
          simp only
          exact hat fs p t ow (by rw [hr]; simp)
        | none =>
          simp only [hr] at hexc ⊢
          have hk' : Known P items ho hd hh { fs := (P.writeto fs p t ow).fs, out := some t, data := data, handle := handle } :=
            ⟨hko, hkd, hkh⟩
          exact absurd (run_ok_after_mutation encOK P p items ow henc rest ho hd hh _ hfs hk') hexc

/-- "a write that fails for any reason leaves the destination as it was", at full strength over
the generated protocols (any serialiser, any encoder, astropy's `writeto` as observed). -/
def failed_write_unchanged_full : Prop :=
  ∀ (f : Format) (P : Params Unit) (fs : FS) (p : Path) (ow : Bool),
    P.writeto = astropyWriteto →
    (run P p [] ow (proto f) (St.init fs)).exc ≠ none →
    (run P p [] ow (proto f) (St.init fs)).fs = fs

/-- the full clause follows as soon as every generated protocol is `failSafe` without assuming
anything about the encoder (used below: F40 is repaired). -/
theorem failed_write_unchanged_full_of_failSafe (h : ∀ f, failSafe false (proto f) = true) :
    failed_write_unchanged_full := by
  intro f P fs p ow hwt hexc
  have hat : ∀ fs p b ow, (P.writeto fs p b ow).exc ≠ none → (P.writeto fs p b ow).fs = fs := by
    rw [hwt]; exact astropyWriteto_law.atomic
  exact any_failure_unchanged false P p [] ow hat (fun hc => by cases hc) fs (proto f)
    false false false (St.init fs) (h f) ⟨by simp, by simp, by simp⟩ rfl hexc

def unencodableParams : Params Unit :=
  { ser := fun _ => .ok ['x'], enc := fun _ => .error "UnicodeEncodeError", hdu := none,
    writeto := astropyWriteto }

def preciousFS : FS := fun q => if q = ['a'] then .file ['d', 'a', 't', 'a'] else .absent

/-- every generated protocol is safe against EVERY failure, text encoding included: no step can
raise once the file system has been touched (generated table, decided on every run).  Since
`fix: d5e55fe` the text writers encode before `open` (F40, fixed). -/
theorem all_protocols_failSafe : ∀ f : Format, failSafe false (proto f) = true := by
  intro f; cases f <;> decide

/-- **failed_write_unchanged**, full strength over the generated protocols. -/
theorem failed_write_unchanged_full_holds : failed_write_unchanged_full :=
  failed_write_unchanged_full_of_failSafe all_protocols_failSafe

/-- **failed_write_unchanged**, every cause: in EVERY format, a write that raises for ANY reason
(refused, unserialisable element anywhere, bad option, text that cannot be encoded, header
rejected by `BinTableHDU`, ELOOP, astropy refusing) leaves every path of every file system
unchanged, for every list, serialiser, encoder and `overwrite` value. -/
theorem failed_write_unchanged_any_cause (f : Format) (P : Params Item) (hwt : WritetoLaw P.writeto)
    (p : Path) (items : List Item) (ow : Bool) (fs : FS)
    (hexc : (run P p items ow (proto f) (St.init fs)).exc ≠ none) :
    (run P p items ow (proto f) (St.init fs)).fs = fs :=
  any_failure_unchanged false P p items ow hwt.atomic (fun hc => by cases hc) fs (proto f)
    false false false (St.init fs) (all_protocols_failSafe f) ⟨by simp, by simp, by simp⟩ rfl hexc

/-- non-vacuity: the former F40 witness (DS9, unencodable text, existing file, overwrite=True)
does fail, and the precious file is still there. -/
example : (run unencodableParams ['a'] [] true (proto .ds9) (St.init preciousFS)).exc
    = some "UnicodeEncodeError" := by decide
example : (run unencodableParams ['a'] [] true (proto .ds9) (St.init preciousFS)).fs ['a']
    = .file ['d', 'a', 't', 'a'] := by decide
example : (run ({ okParams with ser := fun _ => .error "KeyError" } : Params Unit) ['a'] [] true (proto .ds9) (St.init preciousFS)).exc
    = some "KeyError" := by decide

/-! ### clause 3 — a successful write: content and frame -/

/-- where the serialised / encoded values in a state come from (holds in every reachable state). -/
def Prov (P : Params Item) (items : List Item) (s : St) : Prop :=
  (∀ t, s.out = some t → P.ser items = .ok t) ∧
  (∀ b, s.data = some b → ∃ t, P.ser items = .ok t ∧ P.enc t = .ok b)

/-- what the file system looks like in each phase of a well-shaped protocol. -/
def PhaseInv (P : Params Item) (fs0 : FS) (p : Path) (items : List Item) (ow : Bool) : Shape → St → Prop
  | .fresh, s => s.fs = fs0 ∧ s.handle = none
  | .opened, s => ∃ q0, resolve fs0 linkFuel p = some q0 ∧ s.handle = some q0 ∧ s.fs = fs0.set q0 (.file [])
  | .written, s => ∃ q0 t b, resolve fs0 linkFuel p = some q0 ∧ P.ser items = .ok t ∧ P.enc t = .ok b ∧
      s.fs = fs0.set q0 (.file b)
  | .wrote, s => ∃ t, P.ser items = .ok t ∧ (P.writeto fs0 p t ow).exc = none ∧ s.fs = (P.writeto fs0 p t ow).fs

theorem run_phase (P : Params Item) (fs0 : FS) (p : Path) (items : List Item) (ow : Bool) :
    ∀ (steps : List Step) (sh shF : Shape) (s : St), Prov P items s → PhaseInv P fs0 p items ow sh s →
      shapeOf sh steps = some shF → (run P p items ow steps s).exc = none →
      ∃ s', PhaseInv P fs0 p items ow shF s' ∧ (run P p items ow steps s).fs = s'.fs := by
  intro steps
  induction steps with
  | nil =>
    intro sh shF s _ hinv hsh _
    simp only [shapeOf, Option.some.injEq] at hsh
    subst hsh
    exact ⟨s, hinv, rfl⟩
  | cons st rest ih =>
    intro sh shF s hprov hinv hsh hok
    obtain ⟨fs, out, data, handle⟩ := s
    obtain ⟨hpo, hpd⟩ := hprov
    simp only at hpo hpd
    simp only [shapeOf] at hsh
    cases st
    case checkExists =>
      have hn : sh.next .checkExists = some sh := by cases sh <;> rfl
      rw [hn] at hsh
      simp only [run, step] at hok ⊢
      by_cases hc : (lexists fs p && !ow) = true
      · simp [hc] at hok
      · simp only [hc] at hok ⊢
        exact ih sh shF _ ⟨hpo, hpd⟩ hinv hsh hok
    case checkExistsFollow =>
      have hn : sh.next .checkExistsFollow = some sh := by cases sh <;> rfl
      rw [hn] at hsh
      simp only [run, step] at hok ⊢
      by_cases hc : (pexists fs p && !ow) = true
      · simp [hc] at hok
      · simp only [hc] at hok ⊢
        exact ih sh shF _ ⟨hpo, hpd⟩ hinv hsh hok
    case buildHdu =>
      have hn : sh.next .buildHdu = some sh := by cases sh <;> rfl
      rw [hn] at hsh
      simp only [run, step] at hok ⊢
      cases hh' : P.hdu with
      | some e => simp [hh'] at hok
      | none =>
        simp only [hh'] at hok ⊢
        exact ih sh shF _ ⟨hpo, hpd⟩ hinv hsh hok
    case serialize =>
      have hn : sh.next .serialize = some sh := by cases sh <;> rfl
      rw [hn] at hsh
      simp only [run, step] at hok ⊢
      cases hser : P.ser items with
      | error e => simp [hser] at hok
      | ok t =>
        simp only [hser] at hok ⊢
        refine ih sh shF _ ⟨?_, hpd⟩ ?_ hsh hok
        · intro t' ht'; simp only [Option.some.injEq] at ht'; subst ht'; exact hser
        · cases sh <;> exact hinv
    case encode =>
      have hn : sh.next .encode = some sh := by cases sh <;> rfl
      rw [hn] at hsh
      simp only [run, step] at hok ⊢
      cases out with
      | none => simp at hok
      | some t =>
        simp only at hok ⊢
        cases hb : P.enc t with
        | error e => simp [hb] at hok
        | ok b =>
          simp only [hb] at hok ⊢
          refine ih sh shF _ ⟨hpo, ?_⟩ ?_ hsh hok
          · intro b' hb'; simp only [Option.some.injEq] at hb'; subst hb'
            exact ⟨t, hpo t rfl, hb⟩
          · cases sh <;> exact hinv
    case openWrite =>
      cases sh <;> simp only [Shape.next] at hsh <;> try contradiction
      obtain ⟨hfs, hh⟩ := hinv
      simp only at hfs hh
      subst hfs
      simp only [run, step, openW] at hok ⊢
      cases hr : resolve fs linkFuel p with
      | none => simp [hr] at hok
      | some q0 =>
        simp only [hr] at hok ⊢
        exact ih .opened shF _ ⟨hpo, hpd⟩ ⟨q0, hr, rfl, rfl⟩ hsh hok
    case writeBytes =>
      cases sh <;> simp only [Shape.next] at hsh <;> try contradiction
      obtain ⟨q0, hr, hh, hfs⟩ := hinv
      simp only at hh hfs
      subst hh; subst hfs
      simp only [run, step] at hok ⊢
      cases data with
      | none => simp at hok
      | some b =>
        simp only at hok ⊢
        obtain ⟨t, ht, hb⟩ := hpd b rfl
        refine ih .written shF _ ⟨hpo, hpd⟩ ⟨q0, t, b, hr, ht, hb, ?_⟩ hsh hok
        simp only [set_set]
    case writeto =>
      cases sh <;> simp only [Shape.next] at hsh <;> try contradiction
      obtain ⟨hfs, hh⟩ := hinv
      simp only at hfs hh
      subst hfs
      simp only [run, step] at hok ⊢
      cases out with
      | none => simp at hok
      | some t =>
        simp only at hok ⊢
        cases hr : (P.writeto fs p t ow).exc with
        | some e => simp [hr] at hok
        | none =>
          simp only [hr] at hok ⊢
          exact ih .wrote shF _ ⟨hpo, hpd⟩ ⟨t, hpo t rfl, hr, rfl⟩ hsh hok

/-- **success_content** (text writers: `open` + `write`).  After a successful run of a protocol
of shape "pure steps, one `open(filename,'w')`, pure steps, one `write`", reading the
destination (through symlinks) gives exactly `encode (serialize regions)`, and no other path
changed: only the end of the destination's symlink chain was written. -/
theorem success_content_text (P : Params Item) (p : Path) (items : List Item) (ow : Bool)
    (steps : List Step) (hsh : shapeOf .fresh steps = some .written) (fs : FS)
    (hok : (run P p items ow steps (St.init fs)).exc = none) :
    ∃ t b, P.ser items = .ok t ∧ P.enc t = .ok b ∧
      stat (run P p items ow steps (St.init fs)).fs p = some b ∧
      ∀ q, resolve fs linkFuel p ≠ some q → (run P p items ow steps (St.init fs)).fs q = fs q := by
  obtain ⟨s', hinv, hfs⟩ := run_phase P fs p items ow steps .fresh .written (St.init fs)
    ⟨by simp [St.init], by simp [St.init]⟩ ⟨rfl, rfl⟩ hsh hok
  obtain ⟨q0, t, b, hr, ht, hb, hs'⟩ := hinv
  refine ⟨t, b, ht, hb, ?_, ?_⟩
  · rw [hfs, hs']; exact stat_set_end fs p q0 b hr
  · intro q hq
    rw [hfs, hs']
    have : q ≠ q0 := by intro hc; subst hc; exact hq hr
    exact set_other _ _ _ _ this

/-- **success_content** (FITS: astropy `writeto`).  Given astropy's laws, after a successful run
of a protocol of shape "pure steps, one `writeto`", the destination reads back as the
serialised table and only the path itself / the end of its symlink chain changed. -/
theorem success_content_writeto (P : Params Item) (hwt : WritetoLaw P.writeto) (p : Path)
    (items : List Item) (ow : Bool)
    (steps : List Step) (hsh : shapeOf .fresh steps = some .wrote) (fs : FS)
    (hok : (run P p items ow steps (St.init fs)).exc = none) :
    ∃ t, P.ser items = .ok t ∧
      stat (run P p items ow steps (St.init fs)).fs p = some t ∧
      ∀ q, q ≠ p → resolve fs linkFuel p ≠ some q → (run P p items ow steps (St.init fs)).fs q = fs q := by
  obtain ⟨s', hinv, hfs⟩ := run_phase P fs p items ow steps .fresh .wrote (St.init fs)
    ⟨by simp [St.init], by simp [St.init]⟩ ⟨rfl, rfl⟩ hsh hok
  obtain ⟨t, ht, hexc, hs'⟩ := hinv
  refine ⟨t, ht, ?_, ?_⟩
  · rw [hfs, hs']; exact hwt.content fs p t ow hexc
  · intro q hqp hq
    rw [hfs, hs']; exact hwt.frame fs p t ow q hexc hqp hq

/-- the generated protocols have the shapes the two theorems need (decided on every run). -/
theorem proto_shapes :
    shapeOf .fresh (proto .ds9) = some .written ∧ shapeOf .fresh (proto .crtf) = some .written ∧
    shapeOf .fresh (proto .fits) = some .wrote := by decide

/-- what the destination contains after a successful write, per format -/
def written (f : Format) (P : Params Item) (items : List Item) (data : Bytes) : Prop :=
  ∃ t, P.ser items = .ok t ∧
    ((shapeOf .fresh (proto f) = some .written ∧ P.enc t = .ok data) ∨
     (shapeOf .fresh (proto f) = some .wrote ∧ data = t))

/-- **success_content** over the generated protocols: every format, every file system and
destination state, every list. -/
theorem success_content (f : Format) (P : Params Item) (hwt : WritetoLaw P.writeto) (p : Path)
    (items : List Item) (ow : Bool) (fs : FS)
    (hok : (run P p items ow (proto f) (St.init fs)).exc = none) :
    ∃ data, written f P items data ∧
      stat (run P p items ow (proto f) (St.init fs)).fs p = some data ∧
      ∀ q, q ≠ p → resolve fs linkFuel p ≠ some q → (run P p items ow (proto f) (St.init fs)).fs q = fs q := by
  have hshape : shapeOf .fresh (proto f) = some .written ∨ shapeOf .fresh (proto f) = some .wrote := by
    cases f <;> decide
  rcases hshape with h | h
  · obtain ⟨t, b, ht, hb, hst, hfr⟩ := success_content_text P p items ow (proto f) h fs hok
    exact ⟨b, ⟨t, ht, Or.inl ⟨h, hb⟩⟩, hst, fun q _ hq => hfr q hq⟩
  · obtain ⟨t, ht, hst, hfr⟩ := success_content_writeto P hwt p items ow (proto f) h fs hok
    exact ⟨t, ⟨t, ht, Or.inr ⟨h, rfl⟩⟩, hst, hfr⟩

/-- non-vacuity: a write to a symlinked destination succeeds in the model and is read back. -/
example : (run okParams ['a'] [] true (proto .ds9) (St.init danglingFS)).exc = none := by decide
example : stat (run okParams ['a'] [] true (proto .ds9) (St.init danglingFS)).fs ['a'] = some ['x'] := by decide
example : (run okParams ['a'] [] true (proto .ds9) (St.init danglingFS)).fs ['b'] = .file ['x'] := by decide

/-! ### clause 4 — identification and read-back -/

/-- an entry accepts a (lower-cased) name / content on `read`. -/
def matchesRead (e : IdentEntry) (lname : Path) (c : Bytes) : Bool :=
  extMatch e.readExts lname || e.sig.isPrefixOf c

/-- first-match dispatch returns `f` when some entry accepts and every accepting entry is `f`'s. -/
theorem identifyRead_first (f : Format) (lname : Path) (c : Bytes) :
    ∀ (tbl : List IdentEntry),
      (∀ e ∈ tbl, matchesRead e lname c = true → e.fmt = f) →
      (∃ e ∈ tbl, matchesRead e lname c = true) →
      identifyRead tbl lname (some c) = .ok f := by
  intro tbl
  induction tbl with
  | nil => intro _ h; obtain ⟨e, he, _⟩ := h; cases he
  | cons e0 r ih =>
    intro hall hex
    unfold identifyRead
    by_cases hx : extMatch e0.readExts lname = true
    · have := hall e0 List.mem_cons_self (by simp [matchesRead, hx])
      simp [hx, this]
    · by_cases hs : e0.sig.isPrefixOf c = true
      · have := hall e0 List.mem_cons_self (by simp [matchesRead, hs])
        simp [hx, hs, this]
      · simp only [hx, hs]
        apply ih (fun e he hm => hall e (List.mem_cons_of_mem _ he) hm)
        obtain ⟨e, he, hm⟩ := hex
        rcases List.mem_cons.mp he with rfl | he'
        · simp [matchesRead, hx, hs] at hm
        · exact ⟨e, he', hm⟩

theorem identifyWrite_first (f : Format) (lname : Path) :
    ∀ (tbl : List IdentEntry),
      (∀ e ∈ tbl, extMatch e.writeExts lname = true → e.fmt = f) →
      (∃ e ∈ tbl, extMatch e.writeExts lname = true) →
      identifyWrite tbl lname = some f := by
  intro tbl
  induction tbl with
  | nil => intro _ h; obtain ⟨e, he, _⟩ := h; cases he
  | cons e0 r ih =>
    intro hall hex
    unfold identifyWrite
    by_cases hx : extMatch e0.writeExts lname = true
    · have := hall e0 List.mem_cons_self hx
      simp [hx, this]
    · simp only [hx]
      apply ih (fun e he hm => hall e (List.mem_cons_of_mem _ he) hm)
      obtain ⟨e, he, hm⟩ := hex
      rcases List.mem_cons.mp he with rfl | he'
      · exact absurd hm hx
      · exact ⟨e, he', hm⟩

/-- consequences of `tableOK` (which is decided on the generated tables). -/
theorem exts_exclusive {tbl : List IdentEntry} (hok : tableOK tbl = true) {a b : IdentEntry}
    (ha : a ∈ tbl) (hb : b ∈ tbl) {lname : Path}
    (hma : extMatch a.readExts lname = true) (hmb : extMatch b.readExts lname = true) : a.fmt = b.fmt := by
  simp only [tableOK, Bool.and_eq_true] at hok
  have hE := hok.1.1.1.2
  simp only [extsExclusive, List.all_eq_true, Bool.or_eq_true, beq_iff_eq] at hE
  rcases hE a ha b hb with h | h
  · exact h
  · exfalso
    simp only [extMatch, List.any_eq_true] at hma hmb
    obtain ⟨x, hx, hxs⟩ := hma
    obtain ⟨y, hy, hys⟩ := hmb
    have hxy := h x hx y hy
    simp only [isSuf, Bool.and_eq_true, Bool.not_eq_true', ← Bool.not_eq_true,
      List.isSuffixOf_iff_suffix] at hxy hxs hys
    rcases List.suffix_or_suffix_of_suffix hxs hys with h1 | h1
    · exact hxy.1 h1
    · exact hxy.2 h1

theorem sigs_exclusive {tbl : List IdentEntry} (hok : tableOK tbl = true) {a b : IdentEntry}
    (ha : a ∈ tbl) (hb : b ∈ tbl) {c : Bytes}
    (hma : a.sig.isPrefixOf c = true) (hmb : b.sig.isPrefixOf c = true) : a.fmt = b.fmt := by
  simp only [tableOK, Bool.and_eq_true] at hok
  have hS := hok.1.1.1.1
  simp only [sigsExclusive, List.all_eq_true, Bool.or_eq_true, beq_iff_eq] at hS
  rw [List.isPrefixOf_iff_prefix] at hma hmb
  rcases List.prefix_or_prefix_of_prefix hma hmb with h1 | h1
  · rcases hS a ha b hb with h | h
    · exact h
    · simp [isPre, ← Bool.not_eq_true, List.isPrefixOf_iff_prefix] at h
      exact absurd h1 h
  · rcases hS b hb a ha with h | h
    · exact h.symm
    · simp [isPre, ← Bool.not_eq_true, List.isPrefixOf_iff_prefix] at h
      exact absurd h1 h

theorem sig_nonempty {tbl : List IdentEntry} (hok : tableOK tbl = true) {a : IdentEntry} (ha : a ∈ tbl) :
    a.sig.isPrefixOf [] = false := by
  simp only [tableOK, Bool.and_eq_true, List.all_eq_true] at hok
  have := hok.2 a ha
  cases hs : a.sig with
  | nil => simp [hs] at this
  | cons x xs => rfl

theorem write_ext_is_read_ext {tbl : List IdentEntry} (hok : tableOK tbl = true) {a : IdentEntry} (ha : a ∈ tbl)
    {lname : Path} (h : extMatch a.writeExts lname = true) : extMatch a.readExts lname = true := by
  simp only [tableOK, Bool.and_eq_true] at hok
  have hW := hok.1.2
  simp only [writeSubRead, List.all_eq_true, List.contains_iff_mem] at hW
  simp only [extMatch, List.any_eq_true] at h ⊢
  obtain ⟨x, hx, hxs⟩ := h
  exact ⟨x, hW a ha x hx, hxs⟩

/-- **write dispatch**: a name that ends (case-insensitively) in a write extension of format `e`
is written in that format whatever the registration order. -/
theorem identifyWrite_of_ext {tbl : List IdentEntry} (hok : tableOK tbl = true) {e : IdentEntry} (he : e ∈ tbl)
    {lname : Path} (h : extMatch e.writeExts lname = true) : identifyWrite tbl lname = some e.fmt := by
  apply identifyWrite_first
  · intro e' he' hm
    exact exts_exclusive hok he' he (write_ext_is_read_ext hok he' hm) (write_ext_is_read_ext hok he h)
  · exact ⟨e, he, h⟩

/-- **read dispatch by extension**: a name with a read extension of `e` whose content carries
`e`'s signature — or no signature at all, e.g. the empty DS9 file — is read as `e`, whatever the
registration order. -/
theorem identifyRead_of_ext {tbl : List IdentEntry} (hok : tableOK tbl = true) {e : IdentEntry} (he : e ∈ tbl)
    {lname : Path} {c : Bytes} (h : extMatch e.readExts lname = true)
    (hc : e.sig.isPrefixOf c = true ∨ c = []) : identifyRead tbl lname (some c) = .ok e.fmt := by
  apply identifyRead_first
  · intro e' he' hm
    simp only [matchesRead, Bool.or_eq_true] at hm
    rcases hm with hm | hm
    · exact exts_exclusive hok he' he hm h
    · rcases hc with hc | hc
      · exact sigs_exclusive hok he' he hm hc
      · subst hc; rw [sig_nonempty hok he'] at hm; cases hm
  · exact ⟨e, he, by simp [matchesRead, h]⟩

/-- **read dispatch by content**: a file whose name carries no registered extension and whose
content starts with `e`'s signature is read as `e`: the first-match order cannot mis-route it. -/
theorem identifyRead_of_sig {tbl : List IdentEntry} (hok : tableOK tbl = true) {e : IdentEntry} (he : e ∈ tbl)
    {lname : Path} {c : Bytes} (hno : ∀ e' ∈ tbl, extMatch e'.readExts lname = false)
    (hc : e.sig.isPrefixOf c = true) : identifyRead tbl lname (some c) = .ok e.fmt := by
  apply identifyRead_first
  · intro e' he' hm
    simp only [matchesRead, hno e' he', Bool.false_or] at hm
    exact sigs_exclusive hok he' he hm hc
  · exact ⟨e, he, by simp [matchesRead, hc]⟩

/-- **read_back**.  Let `data` be what a successful write left at the destination
(`success_content`: `encode (serialize regions)`, resp. the serialised table).  Reading any path
`q` that holds `data` or a gzip-compressed copy of it — the destination itself, a renamed copy,
a compressed copy — returns `parseFile f data`, i.e. read ∘ write = parse ∘ serialize, when the
format is (a) given, (b) inferred from a read extension of `f`, the content being signed by `f`
or empty, (c) inferred from the content signature, the name carrying no registered extension. -/
theorem read_back {R : Type} {tbl : List IdentEntry} (hok : tableOK tbl = true) (rd : Reader R)
    {e : IdentEntry} (he : e ∈ tbl) (fs : FS) (q : Path) (c data : Bytes)
    (hq : stat fs q = some c)
    (hcopy : (c = data ∧ rd.gunzip data = none) ∨ rd.gunzip c = some data)
    (mode : FmtArg)
    (hmode : mode = .known e.fmt ∨
      (mode = .infer ∧ extMatch e.readExts (lower q) = true ∧ (e.sig.isPrefixOf data = true ∨ data = [])) ∨
      (mode = .infer ∧ (∀ e' ∈ tbl, extMatch e'.readExts (lower q) = false) ∧ e.sig.isPrefixOf data = true)) :
    regRead tbl rd fs q mode = rd.parseFile e.fmt data := by
  have hread : readable rd c = data := by
    rcases hcopy with ⟨h1, h2⟩ | h
    · subst h1; simp [readable, h2]
    · simp [readable, h]
  rcases hmode with h | ⟨h, hx, hs⟩ | ⟨h, hno, hs⟩
  · subst h; simp [regRead, hq, hread]
  · subst h
    have := identifyRead_of_ext hok he hx hs
    simp [regRead, hq, hread, this]
  · subst h
    have := identifyRead_of_sig hok he hno hs
    simp [regRead, hq, hread, this]

/-- `read ∘ write = parse ∘ serialize`, end to end for the text writers: write `items` to `p`
(any destination state), then read `p` with the format given. -/
theorem write_then_read {R : Type} (f : Format) (P : Params Item) (hwt : WritetoLaw P.writeto)
    (rd : Reader R) (tbl : List IdentEntry) (p : Path) (items : List Item) (ow : Bool) (fs : FS)
    (hok : (run P p items ow (proto f) (St.init fs)).exc = none)
    (hplain : ∀ d, written f P items d → rd.gunzip d = none) :
    ∃ data, written f P items data ∧
      regRead tbl rd (run P p items ow (proto f) (St.init fs)).fs p (.known f) = rd.parseFile f data := by
  obtain ⟨data, hw, hst, _⟩ := success_content f P hwt p items ow fs hok
  refine ⟨data, hw, ?_⟩
  simp [regRead, hst, readable, hplain data hw]

/-- **identify_consistent** — decided over the tables generated from the current source:
* the tables are well-formed: content signatures are pairwise non-prefixes, across formats no
  extension is a suffix of another (no name is claimed by two formats), one identifier per
  format, write extensions are read extensions, signatures are non-empty;
* `Region` and `Regions` have the same identifiers in the same order;
* every write extension of a format identifies as that format for `write` and for `read`
  (with the format's own signature as content, and with an empty file);
* a file carrying a format's signature under a name without a registered extension is routed
  to that format by the first-match loop;
* names without a registered extension have no write format (`IORegistryError`). -/
theorem identify_consistent :
    tableOK identRegions = true ∧ identRegion = identRegions ∧
    (∀ e ∈ identRegions, ∀ x ∈ e.writeExts,
      identifyWrite identRegions (['x'] ++ x) = some e.fmt ∧
      identifyRead identRegions (['x'] ++ x) (some e.sig) = .ok e.fmt ∧
      identifyRead identRegions (['x'] ++ x) (some []) = .ok e.fmt) ∧
    (∀ e ∈ identRegions, ∀ x ∈ e.readExts,
      identifyRead identRegions (['x'] ++ x) (some e.sig) = .ok e.fmt) ∧
    (∀ e ∈ identRegions, identifyRead identRegions ['x', '.', 'd', 'a', 't'] (some (e.sig ++ ['\n'])) = .ok e.fmt) ∧
    identifyWrite identRegions ['x', '.', 'd', 'a', 't'] = none ∧
    identifyRead identRegions ['x', '.', 'd', 'a', 't'] (some ['h', 'i']) = .error "IORegistryError" := by
  decide

/-- the general dispatch theorems apply to the generated table (non-vacuity of their hypotheses):
`X.REG` is written as DS9; a renamed DS9 file is recognised by content. -/
example : identifyWrite identRegions (lower ['X', '.', 'R', 'E', 'G']) = some .ds9 := by decide
example : ∀ e' ∈ identRegions, extMatch e'.readExts (lower ['c', 'o', 'p', 'y', '.', 'd', 'a', 't']) = false := by
  decide

/-- `read_back` is not vacuous: a renamed gzip copy of a DS9-signed file is recognised by its
(decompressed) content and handed to the DS9 reader with exactly the bytes written. -/
def demoReader : Reader (Format × Bytes) :=
  { parseFile := fun f c => .ok (f, c)
    gunzip := fun b => if ['G', 'Z'].isPrefixOf b then some (b.drop 2) else none }

def sigOf (f : Format) : Bytes := ((identRegions.find? (fun e => e.fmt == f)).map (·.sig)).getD []

example :
    regRead identRegions demoReader
      (fun q => if q = ['c', '.', 'd', 'a', 't'] then .file (['G', 'Z'] ++ sigOf .ds9 ++ ['!']) else .absent)
      ['c', '.', 'd', 'a', 't'] .infer = .ok (.ds9, sigOf .ds9 ++ ['!']) := by decide

example :
    regRead identRegions demoReader
      (fun q => if q = ['X', '.', 'F', 'I', 'T'] then .file (sigOf .fits ++ ['T']) else .absent)
      ['X', '.', 'F', 'I', 'T'] .infer = .ok (.fits, sigOf .fits ++ ['T']) := by decide

end RegionsVerif.Props.C14
