/-
C16 — regions are values: copies are equal and independent, equality sees every field.

Theorems about `Impl/Value.lean` (heap model in unfolded form, `Region.copy`, `Region.__eq__`,
`PixCoord.__eq__` = `np.allclose`, `Regions` slicing / list mutators).  Every statement is for
all values (any nesting depth of compound regions, any array / dict / list sizes) and all
mutation / edit sequences (any length).
-/
import RegionsVerif.Impl.Value
import Mathlib.Data.List.Basic
import Mathlib.Data.List.Perm.Subperm
import Mathlib.Tactic.Linarith
import Mathlib.Tactic.Ring

namespace RegionsVerif.Props.C16
open RegionsVerif.Impl.Value

/-! ## A. the heap: identities, deep copies, writes -/

mutual
theorem ids_shift (n : Nat) : ∀ v : V, (v.shift n).ids = v.ids.map (· + n)
  | .atom _ => by simp [V.shift, V.ids]
  | .node i k fs => by simp [V.shift, V.ids, idsF_shift n fs]
theorem idsF_shift (n : Nat) : ∀ fs : Fields, (fs.shift n).ids = fs.ids.map (· + n)
  | .nil => by simp [Fields.shift, Fields.ids]
  | .cons _ v r => by simp [Fields.shift, Fields.ids, ids_shift n v, idsF_shift n r]
end

mutual
theorem erase_shift (n : Nat) : ∀ v : V, (v.shift n).erase = v.erase
  | .atom _ => by simp [V.shift, V.erase]
  | .node i k fs => by simp [V.shift, V.erase, eraseF_shift n fs]
theorem eraseF_shift (n : Nat) : ∀ fs : Fields, (fs.shift n).erase = fs.erase
  | .nil => by simp [Fields.shift, Fields.erase]
  | .cons _ v r => by simp [Fields.shift, Fields.erase, erase_shift n v, eraseF_shift n r]
end

/-- a deep copy lives entirely on fresh ids. -/
theorem deepcopy_fresh (bound next : Nat) (v : V) :
    ∀ i ∈ (deepcopy bound next v).1.ids, next ≤ i := by
  intro i hi
  simp only [deepcopy, ids_shift, List.mem_map] at hi
  obtain ⟨j, _, rfl⟩ := hi
  omega

/-- a deep copy has the same content. -/
theorem deepcopy_erase (bound next : Nat) (v : V) : (deepcopy bound next v).1.erase = v.erase := by
  simp [deepcopy, erase_shift]

mutual
/-- frame rule: a write to an object that does not occur in `v` leaves `v` unchanged. -/
theorem mutate_not_mem (t : Nat) (f : Kind → Fields → Fields) :
    ∀ v : V, t ∉ v.ids → v.mutate t f = v
  | .atom _, _ => by simp [V.mutate]
  | .node i k fs, h => by
    simp only [V.ids, List.mem_cons, not_or] at h
    have hne : ¬ i = t := fun e => h.1 e.symm
    simp [V.mutate, hne, mutateF_not_mem t f fs h.2]
theorem mutateF_not_mem (t : Nat) (f : Kind → Fields → Fields) :
    ∀ fs : Fields, t ∉ fs.ids → fs.mutate t f = fs
  | .nil, _ => by simp [Fields.mutate]
  | .cons _ v r, h => by
    simp only [Fields.ids, List.mem_append, not_or] at h
    simp [Fields.mutate, mutate_not_mem t f v h.1, mutateF_not_mem t f r h.2]
end


/-! ### fields as lists -/

theorem idsF_toList : ∀ fs : Fields, fs.ids = fs.toList.flatMap (fun kv => kv.2.ids)
  | .nil => by simp [Fields.ids, Fields.toList]
  | .cons _ v r => by simp [Fields.ids, Fields.toList, idsF_toList r]

theorem toList_ofList : ∀ l : List (String × V), (Fields.ofList l).toList = l
  | [] => by simp [Fields.ofList, Fields.toList]
  | (k, v) :: r => by simp [Fields.ofList, Fields.toList, toList_ofList r]

theorem mem_idsF {i : Nat} {fs : Fields} : i ∈ fs.ids ↔ ∃ kv ∈ fs.toList, i ∈ kv.2.ids := by
  rw [idsF_toList]; simp [List.mem_flatMap]

theorem mem_ids_ofList {i : Nat} {l : List (String × V)} :
    i ∈ (Fields.ofList l).ids ↔ ∃ kv ∈ l, i ∈ kv.2.ids := by
  rw [mem_idsF, toList_ofList]

theorem ids_set : ∀ (fs : Fields) (key : String) (v : V) (i : Nat),
    i ∈ (fs.set key v).ids → i ∈ fs.ids ∨ i ∈ v.ids
  | .nil, key, v, i, h => by simpa [Fields.set, Fields.ids] using h
  | .cons k v0 r, key, v, i, h => by
    unfold Fields.set at h
    split at h
    · simp only [Fields.ids, List.mem_append] at h ⊢
      rcases h with h | h
      · exact Or.inr h
      · exact Or.inl (Or.inr h)
    · simp only [Fields.ids, List.mem_append] at h ⊢
      rcases h with h | h
      · exact Or.inl (Or.inl h)
      · rcases ids_set r key v i h with h | h
        · exact Or.inl (Or.inr h)
        · exact Or.inr h

theorem ids_del : ∀ (fs : Fields) (key : String) (i : Nat), i ∈ (fs.del key).ids → i ∈ fs.ids
  | .nil, key, i, h => by simpa [Fields.del] using h
  | .cons k v0 r, key, i, h => by
    unfold Fields.del at h
    split at h
    · simp only [Fields.ids, List.mem_append]; exact Or.inr h
    · simp only [Fields.ids, List.mem_append] at h ⊢
      rcases h with h | h
      · exact Or.inl h
      · exact Or.inr (ids_del r key i h)

theorem ids_setIdx : ∀ (fs : Fields) (n : Nat) (v : V) (i : Nat),
    i ∈ (fs.setIdx n v).ids → i ∈ fs.ids ∨ i ∈ v.ids
  | .nil, _, _, _, h => by simp [Fields.setIdx, Fields.ids] at h
  | .cons k v0 r, 0, v, i, h => by
    simp only [Fields.setIdx, Fields.ids, List.mem_append] at h ⊢
    rcases h with h | h
    · exact Or.inr h
    · exact Or.inl (Or.inr h)
  | .cons k v0 r, n + 1, v, i, h => by
    simp only [Fields.setIdx, Fields.ids, List.mem_append] at h ⊢
    rcases h with h | h
    · exact Or.inl (Or.inl h)
    · rcases ids_setIdx r n v i h with h | h
      · exact Or.inl (Or.inr h)
      · exact Or.inr h

theorem ids_append : ∀ (fs g : Fields) (i : Nat), i ∈ (fs.append g).ids ↔ i ∈ fs.ids ∨ i ∈ g.ids
  | .nil, g, i => by simp [Fields.append, Fields.ids]
  | .cons k v r, g, i => by
    simp only [Fields.append, Fields.ids, List.mem_append, ids_append r g i]; tauto

/-- the ids of the values an operation installs. -/
def opIds (op : FOp) : List Nat := op.vals.flatMap V.ids

theorem ids_listItems (vs : List V) (i : Nat) : i ∈ (listItems vs).ids ↔ ∃ v ∈ vs, i ∈ v.ids := by
  unfold listItems
  rw [mem_ids_ofList]
  simp only [List.mem_map]
  constructor
  · rintro ⟨kv, ⟨v, hv, rfl⟩, hi⟩; exact ⟨v, hv, hi⟩
  · rintro ⟨v, hv, hi⟩; exact ⟨("", v), ⟨v, hv, rfl⟩, hi⟩

/-- an operation on one object introduces no identities other than those of the values it
installs. -/
theorem ids_apply (op : FOp) (k : Kind) (fs r : Fields) (h : op.apply k fs = .ok r) (i : Nat)
    (hi : i ∈ r.ids) : i ∈ fs.ids ∨ i ∈ opIds op := by
  cases op with
  | set key v =>
    have hv : opIds (.set key v) = v.ids := by simp [opIds, FOp.vals]
    rw [hv]
    simp only [FOp.apply] at h
    split at h
    · split at h
      · cases h; exact ids_set _ _ _ _ hi
      · cases h
    · split at h
      · cases h; exact ids_set _ _ _ _ hi
      · cases h
    · cases h; exact ids_set _ _ _ _ hi
  | del key =>
    simp only [FOp.apply] at h
    split at h
    · cases h; exact Or.inl (ids_del _ _ _ hi)
    · cases h
  | setIdx n v =>
    have hv : opIds (.setIdx n v) = v.ids := by simp [opIds, FOp.vals]
    rw [hv]
    simp only [FOp.apply] at h
    split at h
    · cases h; exact ids_setIdx _ _ _ _ hi
    · cases h
  | append v =>
    have hv : opIds (.append v) = v.ids := by simp [opIds, FOp.vals]
    rw [hv]
    simp only [FOp.apply] at h
    cases h
    rw [ids_append] at hi
    rcases hi with hi | hi
    · exact Or.inl hi
    · simp only [Fields.ids, List.append_nil] at hi; exact Or.inr hi
  | extend vs =>
    simp only [FOp.apply] at h
    cases h
    rw [ids_append] at hi
    rcases hi with hi | hi
    · exact Or.inl hi
    · right
      rw [ids_listItems] at hi
      simp only [opIds, FOp.vals, List.mem_flatMap]
      exact hi
  | insert n v =>
    have hv : opIds (.insert n v) = v.ids := by simp [opIds, FOp.vals]
    rw [hv]
    simp only [FOp.apply] at h
    cases h
    rw [mem_ids_ofList] at hi
    obtain ⟨kv, hkv, hi⟩ := hi
    simp only [List.append_assoc, List.mem_append, List.mem_cons, List.not_mem_nil, or_false] at hkv
    rcases hkv with hkv | hkv | hkv
    · exact Or.inl (mem_idsF.mpr ⟨kv, List.mem_of_mem_take hkv, hi⟩)
    · subst hkv; exact Or.inr hi
    · exact Or.inl (mem_idsF.mpr ⟨kv, List.mem_of_mem_drop hkv, hi⟩)
  | pop n =>
    simp only [FOp.apply] at h
    split at h
    · cases h
      rw [mem_ids_ofList] at hi
      obtain ⟨kv, hkv, hi⟩ := hi
      simp only [List.mem_append] at hkv
      rcases hkv with hkv | hkv
      · exact Or.inl (mem_idsF.mpr ⟨kv, List.mem_of_mem_take hkv, hi⟩)
      · exact Or.inl (mem_idsF.mpr ⟨kv, List.mem_of_mem_drop hkv, hi⟩)
    · cases h
  | reverse =>
    simp only [FOp.apply] at h
    cases h
    rw [mem_ids_ofList] at hi
    obtain ⟨kv, hkv, hi⟩ := hi
    exact Or.inl (mem_idsF.mpr ⟨kv, List.mem_reverse.mp hkv, hi⟩)
  | clear =>
    simp only [FOp.apply] at h
    cases h
    simp [Fields.ids] at hi

theorem ids_applyD (op : FOp) (k : Kind) (fs : Fields) (i : Nat)
    (hi : i ∈ (op.applyD k fs).ids) : i ∈ fs.ids ∨ i ∈ opIds op := by
  unfold FOp.applyD at hi
  split at hi
  · rename_i r h; exact ids_apply op k fs r h i hi
  · exact Or.inl hi

mutual
/-- a heap write introduces no identities other than those of the installed values. -/
theorem ids_mutate (t : Nat) (op : FOp) :
    ∀ (v : V) (i : Nat), i ∈ (v.mutate t op.applyD).ids → i ∈ v.ids ∨ i ∈ opIds op
  | .atom _, i, h => by simp [V.mutate, V.ids] at h
  | .node j k fs, i, h => by
    unfold V.mutate at h
    split at h
    · simp only [V.ids, List.mem_cons] at h ⊢
      rcases h with h | h
      · exact Or.inl (Or.inl h)
      · rcases ids_applyD op k fs i h with h | h
        · exact Or.inl (Or.inr h)
        · exact Or.inr h
    · simp only [V.ids, List.mem_cons] at h ⊢
      rcases h with h | h
      · exact Or.inl (Or.inl h)
      · rcases idsF_mutate t op fs i h with h | h
        · exact Or.inl (Or.inr h)
        · exact Or.inr h
theorem idsF_mutate (t : Nat) (op : FOp) :
    ∀ (fs : Fields) (i : Nat), i ∈ (fs.mutate t op.applyD).ids → i ∈ fs.ids ∨ i ∈ opIds op
  | .nil, i, h => by simp [Fields.mutate, Fields.ids] at h
  | .cons _ v r, i, h => by
    simp only [Fields.mutate, Fields.ids, List.mem_append] at h ⊢
    rcases h with h | h
    · rcases ids_mutate t op v i h with h | h
      · exact Or.inl (Or.inl h)
      · exact Or.inr h
    · rcases idsF_mutate t op r i h with h | h
      · exact Or.inl (Or.inr h)
      · exact Or.inr h
end


/-! ## B. independence under any sequence of mutations -/

/-- lookup in a world after one heap write. -/
theorem lookup_mutate (w : World) (m : Mut) (name : String) :
    (w.mutate m).lookup name = (w.lookup name).map (fun v => v.mutate m.target m.op.applyD) := by
  induction w with
  | nil => simp [World.mutate]
  | cons r w ih =>
    obtain ⟨k, v⟩ := r
    simp only [World.mutate, List.map_cons, List.lookup_cons] at ih ⊢
    by_cases hk : name == k
    · simp [hk]
    · simp [hk]; exact ih

/-- A sequence of in-place mutations is *admissible for `c` against `o`* when every step writes
an object that `c` reaches at that moment and installs only values that share nothing with `o`
(fresh objects, or objects of `c` itself).  Nothing else is required: any operation, any length. -/
def Admissible (o : V) : V → List Mut → Prop
  | _, [] => True
  | c, m :: ms =>
    m.target ∈ c.ids ∧ (∀ i ∈ opIds m.op, i ∉ o.ids) ∧
      Admissible o (c.mutate m.target m.op.applyD) ms

/-- FRAME THEOREM.  If `o` and `c` share no object, then after ANY admissible sequence of
mutations of `c` — each applied as a heap write to the whole world, i.e. seen through every
alias — `o` is literally unchanged, and the two still share nothing. -/
theorem frame_seq (o : V) : ∀ (ms : List Mut) (c : V) (no nc : String), no ≠ nc →
    (∀ i ∈ c.ids, i ∉ o.ids) → Admissible o c ms →
    (World.mutateAll [(no, o), (nc, c)] ms).lookup no = some o ∧
    ∃ c', (World.mutateAll [(no, o), (nc, c)] ms).lookup nc = some c' ∧ ∀ i ∈ c'.ids, i ∉ o.ids
  | [], c, no, nc, hne, hd, _ => by
    refine ⟨by simp [World.mutateAll], c, ?_, hd⟩
    have hb : (nc == no) = false := by simpa using fun h : nc = no => hne h.symm
    simp [World.mutateAll, List.lookup_cons, hb]
  | m :: ms, c, no, nc, hne, hd, hadm => by
    obtain ⟨ht, hv, hrest⟩ := hadm
    have hto : m.target ∉ o.ids := hd _ ht
    have ho : o.mutate m.target m.op.applyD = o := mutate_not_mem _ _ _ hto
    have hd' : ∀ i ∈ (c.mutate m.target m.op.applyD).ids, i ∉ o.ids := by
      intro i hi
      rcases ids_mutate _ _ _ _ hi with h | h
      · exact hd i h
      · exact hv i h
    have := frame_seq o ms (c.mutate m.target m.op.applyD) no nc hne hd' hrest
    simpa [World.mutateAll, World.mutate, ho] using this

/-- the same for a single protected value inside an arbitrary world: writes whose targets
never lie in `o` leave `o` unchanged (no condition on the installed values). -/
theorem frame_targets (o : V) (name : String) : ∀ (ms : List Mut) (w : World),
    w.lookup name = some o → (∀ m ∈ ms, m.target ∉ o.ids) →
    (w.mutateAll ms).lookup name = some o
  | [], w, h, _ => by simpa [World.mutateAll] using h
  | m :: ms, w, h, ht => by
    have h1 : (w.mutate m).lookup name = some o := by
      rw [lookup_mutate, h]
      simp [mutate_not_mem _ _ _ (ht m (by simp))]
    have := frame_targets o name ms (w.mutate m) h1 (fun m' hm' => ht m' (by simp [hm']))
    simpa [World.mutateAll] using this


/-! ## C. `Region.copy`: the copy is built from fresh objects -/

/-- close `… ∨ … ∨ next ≤ i` goals whose last disjunct is linear arithmetic. -/
macro "fresh_omega" : tactic =>
  `(tactic| first | omega | (right; omega) | (right; right; omega) | (left; omega))

/-- every object of `v` is either one of `S` or was allocated at or after `next`. -/
def FreshOr (S : List Nat) (next : Nat) (v : V) : Prop := ∀ i ∈ v.ids, i ∈ S ∨ next ≤ i

def argsIds (args : List (String × V)) : List Nat := args.flatMap fun kv => kv.2.ids

theorem FreshOr.mono {S : List Nat} {n m : Nat} {v : V} (h : FreshOr S m v) (hnm : n ≤ m) :
    FreshOr S n v := fun i hi => (h i hi).imp id (fun h => le_trans hnm h)

theorem get?_ids : ∀ (fs : Fields) (key : String) (v : V), fs.get? key = some v →
    ∀ i ∈ v.ids, i ∈ fs.ids
  | .nil, _, _, h, _, _ => by simp [Fields.get?] at h
  | .cons k v0 r, key, v, h, i, hi => by
    unfold Fields.get? at h
    simp only [Fields.ids, List.mem_append]
    split at h
    · cases h; exact Or.inl hi
    · exact Or.inr (get?_ids r key v h i hi)

theorem getD_ids (fs : Fields) (key : String) (d : V) (i : Nat) (hi : i ∈ (fs.getD key d).ids) :
    i ∈ fs.ids ∨ i ∈ d.ids := by
  unfold Fields.getD at hi
  cases h : fs.get? key with
  | none => rw [h] at hi; exact Or.inr hi
  | some v => rw [h] at hi; exact Or.inl (get?_ids fs key v h i hi)

theorem lookup_ids (args : List (String × V)) (key : String) (i : Nat)
    (hi : i ∈ (lookup args key).ids) : i ∈ argsIds args := by
  unfold lookup at hi
  cases h : args.lookup key with
  | none => rw [h] at hi; simp [V.ids] at hi
  | some v =>
    rw [h] at hi
    simp only [argsIds, List.mem_flatMap]
    refine ⟨(key, v), ?_, hi⟩
    induction args with
    | nil => simp at h
    | cons kv rest ih =>
      obtain ⟨k, w⟩ := kv
      simp only [List.lookup_cons] at h
      by_cases hk : key == k
      · simp only [hk] at h; cases h
        have : key = k := by simpa using hk
        simp [this]
      · simp only [hk] at h
        exact List.mem_cons_of_mem _ (ih h)

theorem r1Field_ids (args : List (String × V)) (key : String) (i : Nat)
    (hi : i ∈ (r1Field args key).ids) : i ∈ argsIds args := by
  unfold r1Field at hi
  split at hi
  · rename_i j k fs heq
    rcases getD_ids fs key _ i hi with h | h
    · apply lookup_ids args "region1"
      rw [heq]; simp [V.ids, h]
    · simp [V.ids] at h
  · simp [V.ids] at hi

theorem storeMeta_ids (rule : MetaRule) (want : Kind) (r1 arg : V) (next : Nat) (i : Nat)
    (hi : i ∈ (storeMeta rule want r1 arg next).1.ids) : i ∈ r1.ids ∨ i ∈ arg.ids ∨ next ≤ i := by
  unfold storeMeta at hi
  cases rule with
  | orFresh =>
    simp only at hi
    split at hi
    · simp [emptyDict, V.ids, Fields.ids] at hi; fresh_omega
    · split at hi
      · simp [emptyDict, V.ids, Fields.ids] at hi; fresh_omega
      · simp only [V.ids, List.mem_cons] at hi ⊢
        rcases hi with hi | hi
        · fresh_omega
        · exact Or.inr (Or.inl (Or.inr hi))
    · split at hi
      · simp [emptyDict, V.ids, Fields.ids] at hi; fresh_omega
      · exact Or.inr (Or.inl hi)
  | keepIfGiven =>
    simp only at hi
    split at hi
    · exact Or.inl hi
    · exact Or.inr (Or.inl hi)
  | dropIfGiven =>
    simp only at hi
    split at hi
    · exact Or.inl hi
    · simp [emptyDict, V.ids, Fields.ids] at hi; fresh_omega

theorem storeMeta_next (rule : MetaRule) (want : Kind) (r1 arg : V) (next : Nat) :
    next ≤ (storeMeta rule want r1 arg next).2 := by
  unfold storeMeta
  cases rule <;> simp only <;> (repeat' split) <;> simp

theorem storeBoth_next (c : ClassInfo) (args : List (String × V)) (next : Nat) :
    next ≤ (storeBoth c args next).2 := by
  unfold storeBoth
  exact le_trans (storeMeta_next _ _ _ _ _) (storeMeta_next _ _ _ _ _)

theorem storeBoth_ids (c : ClassInfo) (args : List (String × V)) (next : Nat) :
    FreshOr (argsIds args) next (storeBoth c args next).1.1 ∧
    FreshOr (argsIds args) next (storeBoth c args next).1.2 := by
  unfold storeBoth
  constructor
  · intro i hi
    rcases storeMeta_ids _ _ _ _ _ i hi with h | h | h
    · exact Or.inl (r1Field_ids _ _ _ h)
    · exact Or.inl (lookup_ids _ _ _ h)
    · exact Or.inr h
  · intro i hi
    rcases storeMeta_ids _ _ _ _ _ i hi with h | h | h
    · exact Or.inl (r1Field_ids _ _ _ h)
    · exact Or.inl (lookup_ids _ _ _ h)
    · exact Or.inr (le_trans (storeMeta_next _ _ _ _ _) h)

theorem pfields_ids (c : ClassInfo) (args : List (String × V)) (kv : String × V)
    (hkv : kv ∈ pfields c args) (i : Nat) (hi : i ∈ kv.2.ids) : i ∈ argsIds args := by
  unfold pfields at hkv
  simp only [List.mem_map] at hkv
  obtain ⟨p, _, rfl⟩ := hkv
  exact lookup_ids _ _ _ hi

theorem addCoord_ids (a b : V) (id i : Nat) (hi : i ∈ (addCoord a b id).ids) : i = id := by
  unfold addCoord at hi
  split at hi
  · split at hi
    · simp [V.ids] at hi
    · simp only [V.ids, List.mem_cons] at hi
      rcases hi with hi | hi
      · exact hi
      · rw [ids_listItems] at hi
        obtain ⟨v, hv, hi⟩ := hi
        simp only [List.mem_map] at hv
        obtain ⟨_, _, rfl⟩ := hv
        simp [V.ids] at hi
  · simp [V.ids] at hi

theorem pixAdd_ids (a b : V) (next : Nat) (i : Nat) (hi : i ∈ (pixAdd a b next).1.ids) :
    next ≤ i := by
  unfold pixAdd at hi
  split at hi
  · simp only [V.ids, Fields.ids, List.mem_cons, List.mem_append, List.append_nil] at hi
    rcases hi with hi | hi | hi
    · omega
    · have := addCoord_ids _ _ _ _ hi; omega
    · have := addCoord_ids _ _ _ _ hi; omega
  · simp [V.ids] at hi

theorem originArg_ids (args : List (String × V)) (next : Nat) :
    FreshOr (argsIds args) next (originArg args next).1 ∧ next ≤ (originArg args next).2 := by
  unfold originArg
  split
  · rename_i j k fs heq
    refine ⟨fun i hi => Or.inl ?_, le_refl _⟩
    apply lookup_ids args "origin"
    unfold lookup; rw [heq]; exact hi
  · refine ⟨fun i hi => Or.inr ?_, by omega⟩
    simp [pixZero, V.ids, Fields.ids] at hi; fresh_omega

/-- the constructor builds the new region from its arguments and fresh objects only. -/
theorem construct_ids (c : ClassInfo) (args : List (String × V)) (next : Nat) (r : V) (n : Nat)
    (h : construct c args next = .ok (r, n)) : FreshOr (argsIds args) next r := by
  unfold construct at h
  split at h
  · cases h
  · split at h
    · cases h
    · have hplain : FreshOr (argsIds args) next (buildPlain c args next (next + 1)).1 := by
        intro i hi
        simp only [buildPlain] at hi
        simp only [V.ids, List.mem_cons] at hi
        rcases hi with hi | hi
        · fresh_omega
        · rw [mem_ids_ofList] at hi
          obtain ⟨kv, hkv, hi⟩ := hi
          simp only [List.mem_append, List.mem_cons, List.not_mem_nil, or_false] at hkv
          rcases hkv with hkv | rfl | rfl
          · exact Or.inl (pfields_ids c args kv hkv i hi)
          · exact ((storeBoth_ids c args (next + 1)).1.mono (by omega)) i hi
          · exact ((storeBoth_ids c args (next + 1)).2.mono (by omega)) i hi
      split at h
      · cases h; exact hplain
      · cases h; exact hplain
      · cases h
        intro i hi
        have hn := storeBoth_next c args (next + 1)
        have ho := originArg_ids args (storeBoth c args (next + 1)).2
        simp only [V.ids, List.mem_cons] at hi
        rcases hi with hi | hi
        · fresh_omega
        · rw [mem_ids_ofList] at hi
          obtain ⟨kv, hkv, hi⟩ := hi
          simp only [List.mem_cons, List.not_mem_nil, or_false] at hkv
          rcases hkv with rfl | rfl | rfl | rfl | rfl
          · have := pixAdd_ids _ _ _ _ hi; right; omega
          · exact ((storeBoth_ids c args (next + 1)).1.mono (by omega)) i hi
          · exact ((storeBoth_ids c args (next + 1)).2.mono (by omega)) i hi
          · exact Or.inl (lookup_ids _ _ _ hi)
          · exact (ho.1.mono (by omega)) i hi
      · split at h
        · cases h
        · cases h
          intro i hi
          have hn := storeBoth_next c args (next + 1 + 3)
          simp only [V.ids, List.mem_cons] at hi
          rcases hi with hi | hi
          · fresh_omega
          · rw [mem_ids_ofList] at hi
            obtain ⟨kv, hkv, hi⟩ := hi
            simp only [List.mem_append, List.mem_cons, List.not_mem_nil, or_false] at hkv
            rcases hkv with hkv | rfl | rfl | rfl | rfl | rfl | rfl | rfl | rfl | rfl | rfl
            · exact Or.inl (pfields_ids c args kv hkv i hi)
            · exact ((storeBoth_ids c args (next + 1 + 3)).1.mono (by omega)) i hi
            · exact ((storeBoth_ids c args (next + 1 + 3)).2.mono (by omega)) i hi
            all_goals
              (simp [pixElided, qtyElided, pixZero, V.ids, Fields.ids] at hi <;> fresh_omega)


theorem copyArgs_fresh (bound : Nat) (fs : Fields) (changes : List (String × V)) :
    ∀ (keys : List String) (next : Nat),
      (∀ kv ∈ (copyArgs bound fs keys changes next).1, ∀ i ∈ kv.2.ids, next ≤ i) ∧
      next ≤ (copyArgs bound fs keys changes next).2
  | [], next => by simp [copyArgs]
  | key :: rest, next => by
    unfold copyArgs
    split
    · exact copyArgs_fresh bound fs changes rest next
    · have ih := copyArgs_fresh bound fs changes rest (next + bound)
      simp only [deepcopy]
      refine ⟨?_, le_trans (Nat.le_add_right _ _) ih.2⟩
      intro kv hkv i hi
      simp only [List.mem_cons] at hkv
      rcases hkv with rfl | hkv
      · simp only [ids_shift, List.mem_map] at hi
        obtain ⟨j, _, rfl⟩ := hi
        omega
      · exact le_trans (Nat.le_add_right _ _) (ih.1 kv hkv i hi)

/-- `copy_disjoint`, general form: every object of `r.copy(**changes)` is either an object the
caller passed in `changes` or a fresh one (allocated at or after `next`). -/
theorem copy_fresh (bound next : Nat) (r : V) (changes : List (String × V)) (r' : V) (n' : Nat)
    (h : copyRegion bound next r changes = .ok (r', n')) : FreshOr (argsIds changes) next r' := by
  unfold copyRegion at h
  split at h
  · rename_i j cls fs
    split at h
    · cases h
    · rename_i c hc
      simp only at h
      have hca := copyArgs_fresh bound fs changes (cmpKeys cls) next
      have := construct_ids c _ _ r' n' h
      intro i hi
      rcases this i hi with hi | hi
      · simp only [argsIds, List.flatMap_append, List.mem_append, List.mem_flatMap] at hi
        rcases hi with hi | ⟨kv, hkv, hi⟩
        · left; simpa [argsIds, List.mem_flatMap] using hi
        · right; exact hca.1 kv hkv i hi
      · right; exact le_trans hca.2 hi
  · cases h

/-- **copy_disjoint.**  With every existing object id `< next` (the allocation counter) and
changes that share nothing with the original, NO object is reachable from both the original
and the copy. -/
theorem copy_disjoint (bound next : Nat) (r : V) (changes : List (String × V)) (r' : V) (n' : Nat)
    (h : copyRegion bound next r changes = .ok (r', n'))
    (hb : ∀ i ∈ r.ids, i < next) (hc : ∀ i ∈ argsIds changes, i ∉ r.ids) :
    ∀ i ∈ r'.ids, i ∉ r.ids := by
  intro i hi hr
  rcases copy_fresh bound next r changes r' n' h i hi with h1 | h1
  · exact hc i h1 hr
  · have := hb i hr; omega

/-- plain `copy()`: the copy consists of fresh objects only. -/
theorem copy_all_fresh (bound next : Nat) (r r' : V) (n' : Nat)
    (h : copyRegion bound next r [] = .ok (r', n')) : ∀ i ∈ r'.ids, next ≤ i := by
  intro i hi
  rcases copy_fresh bound next r [] r' n' h i hi with h1 | h1
  · simp [argsIds] at h1
  · exact h1

/-- `copy.deepcopy(region)` shares nothing with the original either. -/
theorem deepcopy_disjoint (bound next : Nat) (r : V) (hb : ∀ i ∈ r.ids, i < next) :
    ∀ i ∈ (deepcopy bound next r).1.ids, i ∉ r.ids := by
  intro i hi hr
  have := deepcopy_fresh bound next r i hi
  have := hb i hr
  omega

/-- **mutate_copy_preserves_original.**  After `c = r.copy(**changes)` (changes sharing nothing
with `r`), ANY admissible sequence of in-place mutations of the copy — attribute assignments,
dict edits, array element writes, list edits, of any length, each applied to the whole heap —
leaves the original literally unchanged. -/
theorem mutate_copy_preserves_original (bound next : Nat) (r : V) (changes : List (String × V))
    (c : V) (n' : Nat) (h : copyRegion bound next r changes = .ok (c, n'))
    (hb : ∀ i ∈ r.ids, i < next) (hc : ∀ i ∈ argsIds changes, i ∉ r.ids)
    (ms : List Mut) (hadm : Admissible r c ms) :
    (World.mutateAll [("original", r), ("copy", c)] ms).lookup "original" = some r :=
  (frame_seq r ms c "original" "copy" (by decide)
    (copy_disjoint bound next r changes c n' h hb hc) hadm).1

/-- and the other way round: mutating the original never shows in the copy. -/
theorem mutate_original_preserves_copy (bound next : Nat) (r : V) (changes : List (String × V))
    (c : V) (n' : Nat) (h : copyRegion bound next r changes = .ok (c, n'))
    (hb : ∀ i ∈ r.ids, i < next) (hc : ∀ i ∈ argsIds changes, i ∉ r.ids)
    (ms : List Mut) (hadm : Admissible c r ms) :
    (World.mutateAll [("copy", c), ("original", r)] ms).lookup "copy" = some c :=
  (frame_seq c ms r "copy" "original" (by decide)
    (fun i hi hc' => copy_disjoint bound next r changes c n' h hb hc i hc' hi) hadm).1


/-! ## D. `Regions`: slices and copies are new lists -/

theorem mkRegions_ids (items : List V) (next : Nat) (i : Nat)
    (hi : i ∈ (mkRegions items next).1.ids) :
    i = next ∨ i = next + 1 ∨ ∃ v ∈ items, i ∈ v.ids := by
  simp only [mkRegions, V.ids, Fields.ids, List.mem_cons, List.mem_append, List.append_nil,
    List.not_mem_nil, or_false] at hi
  rcases hi with hi | hi | hi
  · exact Or.inl hi
  · exact Or.inr (Or.inl hi)
  · exact Or.inr (Or.inr ((ids_listItems _ _).mp hi))

/-- what a slice / copy is: a NEW `Regions` object (id `next`) around a NEW list (id `next+1`). -/
theorem mkRegions_listId (items : List V) (next : Nat) :
    regionsListId (mkRegions items next).1 = some (next + 1) := by
  simp [mkRegions, regionsListId, Fields.get?]

theorem regionsSlice_eq (s : V) (start stop step : Option Int) (next : Nat) (t : V) (n' : Nat)
    (h : regionsSlice s start stop step next = .ok (t, n')) :
    ∃ items, t = (mkRegions items next).1 ∧ ∀ v ∈ items, v ∈ regionsItems s := by
  unfold regionsSlice at h
  simp only at h
  split at h
  · cases h
  · rename_i idx _
    cases h
    refine ⟨_, rfl, ?_⟩
    intro v hv
    simp only [List.mem_filterMap] at hv
    obtain ⟨i, _, hi⟩ := hv
    exact List.mem_of_getElem? hi

/-- **slice_copy_independent.**  `T = S[a:b:c]` (any slice) or `T = S.copy()`: ANY sequence of
edits of `T` — append / extend / insert / pop / reverse / item assignment on its list, attribute
assignment on the `Regions` object, of any length and with any regions (also ones that are in
`S`) — leaves `S` unchanged, in every world that holds `S`. -/
theorem slice_copy_independent (s : V) (next : Nat) (hb : ∀ i ∈ s.ids, i < next)
    (w : World) (name : String) (hw : w.lookup name = some s)
    (ms : List Mut) (ht : ∀ m ∈ ms, m.target = next ∨ m.target = next + 1) :
    (w.mutateAll ms).lookup name = some s := by
  apply frame_targets s name ms w hw
  intro m hm hmem
  have := hb _ hmem
  rcases ht m hm with h | h <;> omega

/-- the targets named in `slice_copy_independent` are exactly the new objects of the slice. -/
theorem slice_new_objects (s : V) (start stop step : Option Int) (next : Nat) (t : V) (n' : Nat)
    (h : regionsSlice s start stop step next = .ok (t, n')) :
    (∃ fs, t = .node next .regions fs) ∧ regionsListId t = some (next + 1) := by
  obtain ⟨items, rfl, _⟩ := regionsSlice_eq s start stop step next t n' h
  exact ⟨⟨_, rfl⟩, mkRegions_listId items next⟩

theorem copy_new_objects (s : V) (next : Nat) :
    (∃ fs, (regionsCopy s next).1 = .node next .regions fs) ∧
    regionsListId (regionsCopy s next).1 = some (next + 1) :=
  ⟨⟨_, rfl⟩, mkRegions_listId _ next⟩

/-- every region of a slice / copy is one of the source's regions (shared, not copied): the
lists are independent, the regions are the same objects — `Regions.copy` is shallow. -/
theorem slice_items_shared (s : V) (start stop step : Option Int) (next : Nat) (t : V) (n' : Nat)
    (h : regionsSlice s start stop step next = .ok (t, n')) :
    ∀ v ∈ regionsItems t, v ∈ regionsItems s := by
  obtain ⟨items, rfl, hsub⟩ := regionsSlice_eq s start stop step next t n' h
  intro v hv
  have : regionsItems (mkRegions items next).1 = items := by
    simp only [mkRegions, regionsItems, Fields.get?, if_true]
    unfold listItems
    have : ∀ l : List V, (Fields.ofList (l.map fun v => ("", v))).vals = l := by
      intro l; induction l with
      | nil => rfl
      | cons a l ih => simp [Fields.ofList, Fields.vals, ih]
    exact this items
  rw [this] at hv
  exact hsub v hv

/-- conversely, list edits of the SOURCE (target = its list object, which is not one of its own
items' objects) leave the slice / copy unchanged. -/
theorem source_edits_leave_slice (s : V) (start stop step : Option Int) (next : Nat) (t : V)
    (n' : Nat) (h : regionsSlice s start stop step next = .ok (t, n'))
    (ls : Nat) (hb : ls < next) (hls : ∀ v ∈ regionsItems s, ls ∉ v.ids)
    (w : World) (name : String) (hw : w.lookup name = some t)
    (ms : List Mut) (ht : ∀ m ∈ ms, m.target = ls) :
    (w.mutateAll ms).lookup name = some t := by
  apply frame_targets t name ms w hw
  intro m hm hmem
  rw [ht m hm] at hmem
  obtain ⟨items, rfl, hsub⟩ := regionsSlice_eq s start stop step next t n' h
  rcases mkRegions_ids items next ls hmem with h1 | h1 | ⟨v, hv, hi⟩
  · omega
  · omega
  · exact hls v (hsub v hv) hi


/-! ## E. equality sees every field -/

theorem eqRegion_node (t : Tol) (i j : Nat) (ca cb : String) (fa fb : Fields) :
    eqRegion t (.node i (.region ca) fa) (.node j (.region cb) fb) =
      if !isInstance cb ca then .ok false
      else if cmpKeys ca ≠ cmpKeys cb then .ok false
      else eqLoop t (cmpKeys ca) fa fb := rfl

/-- the loop says "equal" only if EVERY compared attribute of `self` exists in `other` and
compares equal (`np.any(a != b)` is `False`, no exception). -/
theorem eqLoop_true (t : Tol) (keys : List String) : ∀ (fa fb : Fields),
    eqLoop t keys fa fb = .ok true →
    ∀ kv ∈ fa.toList, kv.1 ∈ keys → ∃ vb, fb.get? kv.1 = some vb ∧ neV t kv.2 vb = .ok false
  | .nil, _, _, kv, hkv, _ => by simp [Fields.toList] at hkv
  | .cons key va rest, fb, h, kv, hkv, hk => by
    unfold eqLoop at h
    simp only [Fields.toList, List.mem_cons] at hkv
    by_cases hc : keys.contains key = true
    · rw [if_pos hc] at h
      cases hg : fb.get? key with
      | none => rw [hg] at h; simp at h
      | some vb =>
        rw [hg] at h
        simp only at h
        cases hn : neV t va vb with
        | error e =>
          rw [hn] at h
          cases e <;> simp at h
        | ok r =>
          rw [hn] at h
          cases r with
          | true => simp at h
          | false =>
            simp only at h
            rcases hkv with rfl | hkv
            · exact ⟨vb, hg, hn⟩
            · exact eqLoop_true t keys rest fb h kv hkv hk
    · rw [if_neg hc] at h
      rcases hkv with rfl | hkv
      · exact absurd (by simpa using hk) hc
      · exact eqLoop_true t keys rest fb h kv hkv hk

/-- **eq_detects_any_field** (contrapositive form).  If two regions compare equal then the
class test passed, the parameter lists agree, and EVERY shape parameter, `meta` and `visual`
compared equal — no field is skipped, for any class and any number of parameters. -/
theorem eq_true_all_fields (t : Tol) (i j : Nat) (ca cb : String) (fa fb : Fields)
    (h : eqRegion t (.node i (.region ca) fa) (.node j (.region cb) fb) = .ok true) :
    isInstance cb ca = true ∧ cmpKeys ca = cmpKeys cb ∧
    ∀ kv ∈ fa.toList, kv.1 ∈ cmpKeys ca →
      ∃ vb, fb.get? kv.1 = some vb ∧ neV t kv.2 vb = .ok false := by
  rw [eqRegion_node] at h
  by_cases h1 : isInstance cb ca = true
  · by_cases h2 : cmpKeys ca = cmpKeys cb
    · simp only [h1, Bool.not_true, Bool.false_eq_true, if_false, ne_eq, h2, not_true_eq_false] at h
      refine ⟨h1, h2, ?_⟩
      rw [← h2] at h
      exact eqLoop_true t _ fa fb h
    · simp [h1, h2] at h
  · simp [h1] at h

/-- **eq_detects_any_field.**  Any differing compared attribute — a shape parameter, `meta` or
`visual` for which `!=` answers `True` (or the comparison fails) — makes `==` not answer `True`. -/
theorem eq_detects_any_field (t : Tol) (i j : Nat) (ca cb : String) (fa fb : Fields)
    (key : String) (va vb : V) (hk : key ∈ cmpKeys ca) (ha : (key, va) ∈ fa.toList)
    (hb : fb.get? key = some vb) (hne : neV t va vb ≠ .ok false) :
    eqRegion t (.node i (.region ca) fa) (.node j (.region cb) fb) ≠ .ok true := by
  intro h
  obtain ⟨_, _, hall⟩ := eq_true_all_fields t i j ca cb fa fb h
  obtain ⟨vb', hg, hn⟩ := hall (key, va) ha hk
  rw [hb] at hg; cases hg
  exact hne hn

/-- a class that is not an instance of the other's class, or a different parameter list ⇒ `False`. -/
theorem eq_detects_class (t : Tol) (i j : Nat) (ca cb : String) (fa fb : Fields)
    (h : isInstance cb ca = false ∨ cmpKeys ca ≠ cmpKeys cb) :
    eqRegion t (.node i (.region ca) fa) (.node j (.region cb) fb) = .ok false := by
  rw [eqRegion_node]
  rcases h with h | h
  · simp [h]
  · by_cases h1 : isInstance cb ca = true <;> simp [h1, h]

/-- different concrete classes of the table never compare equal: either the class test fails
or the `_params` lists differ (a subclass always has other parameters than its base). -/
theorem table_distinct_classes :
    ∀ a ∈ classTable, ∀ b ∈ classTable, a.name ≠ b.name →
      isInstance b.name a.name = false ∨ cmpKeys a.name ≠ cmpKeys b.name := by
  decide +kernel


/-- no compared attribute of `self` is missing in `other` or makes `!=` raise anything but the
`TypeError` that `__eq__` catches (in particular no shape clash `ValueError`, finding F22). -/
def NoRaise (t : Tol) (keys : List String) (fa fb : Fields) : Prop :=
  ∀ kv ∈ fa.toList, kv.1 ∈ keys →
    ∃ vb, fb.get? kv.1 = some vb ∧ ∀ e, neV t kv.2 vb = .error e → e = .typeError

theorem eqLoop_false (t : Tol) (keys : List String) : ∀ (fa fb : Fields),
    NoRaise t keys fa fb →
    (∃ kv ∈ fa.toList, kv.1 ∈ keys ∧ ∃ vb, fb.get? kv.1 = some vb ∧ neV t kv.2 vb ≠ .ok false) →
    eqLoop t keys fa fb = .ok false
  | .nil, _, _, h => by simp [Fields.toList] at h
  | .cons key va rest, fb, hnr, h => by
    unfold eqLoop
    have hnr' : NoRaise t keys rest fb := fun kv hkv hk =>
      hnr kv (by simp [Fields.toList, hkv]) hk
    by_cases hc : keys.contains key = true
    · rw [if_pos hc]
      obtain ⟨vb, hg, he⟩ := hnr (key, va) (by simp [Fields.toList]) (by simpa using hc)
      simp only at hg he
      rw [hg]
      simp only
      cases hn : neV t va vb with
      | error e => rw [he e hn]
      | ok r =>
        cases r with
        | true => rfl
        | false =>
          simp only
          apply eqLoop_false t keys rest fb hnr'
          obtain ⟨kv, hkv, hk, vb', hg', hne⟩ := h
          simp only [Fields.toList, List.mem_cons] at hkv
          rcases hkv with rfl | hkv
          · simp only at hg' hne
            rw [hg] at hg'; cases hg'
            exact absurd hn hne
          · exact ⟨kv, hkv, hk, vb', hg', hne⟩
    · rw [if_neg hc]
      apply eqLoop_false t keys rest fb hnr'
      obtain ⟨kv, hkv, hk, rest'⟩ := h
      simp only [Fields.toList, List.mem_cons] at hkv
      rcases hkv with rfl | hkv
      · exact absurd (by simpa using hk) hc
      · exact ⟨kv, hkv, hk, rest'⟩

/-- FULL-STRENGTH clause "equality fails as soon as any compared attribute differs": whenever
some shape parameter / `meta` / `visual` does not compare equal, `==` answers `False`. -/
def eq_detects_full : Prop :=
  ∀ (t : Tol) (i j : Nat) (c : String) (fa fb : Fields) (key : String) (va vb : V),
    key ∈ cmpKeys c → (key, va) ∈ fa.toList → fb.get? key = some vb →
    neV t va vb ≠ .ok false →
    eqRegion t (.node i (.region c) fa) (.node j (.region c) fb) = .ok false

/-- two polygon regions (ids `i`…): vertices `xs, ys`, empty meta / visual. -/
def polyPix (i : Nat) (xs ys : List ℚ) : V :=
  .node i (.region "PolygonPixelRegion")
    (.cons "vertices" (.node (i + 1) .pixcoord
        (.cons "x" (.node (i + 2) .array (listItems (xs.map fun q => V.atom (.num (.fin q)))))
        (.cons "y" (.node (i + 3) .array (listItems (ys.map fun q => V.atom (.num (.fin q))))) .nil)))
    (.cons "meta" (.node (i + 4) .rmeta .nil) (.cons "visual" (.node (i + 5) .rvisual .nil) .nil)))

def tolNumpy : Tol := ⟨1 / 100000, 1 / 100000000⟩

/-- refuted on the model of the current code (finding F22): a triangle against a quadrilateral
does not answer `False`, it raises `ValueError`. -/
theorem eq_detects_full_refuted : ¬ eq_detects_full := by
  intro h
  have := h tolNumpy 0 10 "PolygonPixelRegion"
    (match polyPix 0 [0, 1, 2] [0, 1, 0] with | .node _ _ fs => fs | _ => .nil)
    (match polyPix 10 [0, 1, 2, 3] [0, 1, 0, 1] with | .node _ _ fs => fs | _ => .nil)
    "vertices"
    (.node 1 .pixcoord
        (.cons "x" (.node 2 .array (listItems ([0, 1, 2].map fun q => V.atom (.num (.fin q)))))
        (.cons "y" (.node 3 .array (listItems ([0, 1, 0].map fun q => V.atom (.num (.fin q))))) .nil)))
    (.node 11 .pixcoord
        (.cons "x" (.node 12 .array (listItems ([0, 1, 2, 3].map fun q => V.atom (.num (.fin q)))))
        (.cons "y" (.node 13 .array (listItems ([0, 1, 0, 1].map fun q => V.atom (.num (.fin q))))) .nil)))
    (by decide) (by decide) (by decide) (by decide)
  revert this
  decide

/-- partial: the clause holds whenever no comparison raises (the decidable predicate `NoRaise`
excludes exactly the shape-clash inputs of F22 and objects with missing attributes). -/
theorem eq_detects_partial (t : Tol) (i j : Nat) (c : String) (fa fb : Fields) (key : String)
    (va vb : V) (hnr : NoRaise t (cmpKeys c) fa fb)
    (hk : key ∈ cmpKeys c) (ha : (key, va) ∈ fa.toList) (hb : fb.get? key = some vb)
    (hne : neV t va vb ≠ .ok false) :
    eqRegion t (.node i (.region c) fa) (.node j (.region c) fb) = .ok false := by
  rw [eqRegion_node]
  by_cases h1 : isInstance c c = true
  · simp only [h1, Bool.not_true, Bool.false_eq_true, if_false, ne_eq, not_true_eq_false]
    exact eqLoop_false t _ fa fb hnr ⟨(key, va), ha, hk, vb, hb, hne⟩
  · simp [h1]


/-! ## F. equality depends on content only (not on identities, not on the unit of a quantity) -/

/-- `==` never distinguishes `dict`, `RegionMeta` and `RegionVisual`. -/
def normKind : Kind → Kind
  | .rmeta | .rvisual => .dict
  | k => k

mutual
/-- content of a value: identities forgotten, every quantity expressed in the reference unit,
the three dict classes identified. -/
def norm : V → V
  | .atom a => .atom a
  | .node _ k fs =>
    match k with
    | .quantity => .node 0 .quantity
        (.cons "value" (.atom (.num (qprod fs))) (.cons "factor" (.atom (.num (.fin 1))) .nil))
    | _ => .node 0 (normKind k) (normF fs)
def normF : Fields → Fields
  | .nil => .nil
  | .cons key v r => .cons key (norm v) (normF r)
end

theorem norm_node_ne_qty (i : Nat) (k : Kind) (fs : Fields) (h : k ≠ .quantity) :
    norm (.node i k fs) = .node 0 (normKind k) (normF fs) := by
  cases k <;> first | rfl | exact absurd rfl h

theorem normF_get? : ∀ (fs : Fields) (key : String), (normF fs).get? key = (fs.get? key).map norm
  | .nil, _ => by simp [normF, Fields.get?]
  | .cons k v r, key => by
    simp only [normF, Fields.get?]
    split
    · rfl
    · exact normF_get? r key

theorem normF_length : ∀ fs : Fields, (normF fs).length = fs.length
  | .nil => rfl
  | .cons _ _ r => by simp [normF, Fields.length, normF_length r]

theorem normF_toList : ∀ fs : Fields,
    (normF fs).toList = fs.toList.map fun kv => (kv.1, norm kv.2)
  | .nil => rfl
  | .cons _ _ r => by simp [normF, Fields.toList, normF_toList r]

theorem normF_vals : ∀ fs : Fields, (normF fs).vals = fs.vals.map norm
  | .nil => rfl
  | .cons _ _ r => by simp [normF, Fields.vals, normF_vals r]

theorem normF_nums : ∀ fs : Fields, (normF fs).nums = fs.nums
  | .nil => rfl
  | .cons _ (.atom (.num x)) r => by simp [normF, norm, Fields.nums, normF_nums r]
  | .cons _ (.atom (.str _)) r => by simp [normF, norm, Fields.nums, normF_nums r]
  | .cons _ (.atom (.bool _)) r => by simp [normF, norm, Fields.nums, normF_nums r]
  | .cons _ (.atom .none) r => by simp [normF, norm, Fields.nums, normF_nums r]
  | .cons _ (.atom (.fn _)) r => by simp [normF, norm, Fields.nums, normF_nums r]
  | .cons _ (.atom .elided) r => by simp [normF, norm, Fields.nums, normF_nums r]
  | .cons _ (.node _ k fs) r => by
    by_cases hk : k = .quantity
    · subst hk; simp [normF, norm, Fields.nums, normF_nums r]
    · simp [normF, norm_node_ne_qty _ _ _ hk, Fields.nums, normF_nums r]

theorem coordList_norm (v : V) : coordList (norm v) = coordList v := by
  cases v with
  | atom a => rfl
  | node i k fs =>
    by_cases hk : k = .quantity
    · subst hk; rfl
    · rw [norm_node_ne_qty _ _ _ hk]
      cases k <;> simp [coordList, normF_nums, normKind]

theorem coord_norm (fs : Fields) (key : String) :
    ((normF fs).get? key).bind coordList = (fs.get? key).bind coordList := by
  rw [normF_get?]
  cases fs.get? key <;> simp [coordList_norm]

theorem arrOf_norm (fs : Fields) (key : String) :
    arrOf ((normF fs).get? key) = arrOf (fs.get? key) := by
  rw [normF_get?]
  cases h : fs.get? key with
  | none => rfl
  | some v =>
    cases v with
    | atom a => rfl
    | node i k gs =>
      by_cases hk : k = .quantity
      · subst hk; rfl
      · simp only [Option.map_some, norm_node_ne_qty _ _ _ hk]
        cases k <;> simp [arrOf, normF_nums, normKind]

theorem atomOf_norm (fs : Fields) (key : String) :
    atomOf ((normF fs).get? key) = atomOf (fs.get? key) := by
  rw [normF_get?]
  cases h : fs.get? key with
  | none => rfl
  | some v =>
    cases v with
    | atom a => rfl
    | node i k gs =>
      by_cases hk : k = .quantity
      · subst hk; rfl
      · simp only [Option.map_some, norm_node_ne_qty _ _ _ hk]; rfl

theorem Num.mul_one' (x : Num) : x.mul (.fin 1) = x := by
  cases x <;> simp [Num.mul]

theorem qprod_normQ (fs : Fields) :
    qprod (.cons "value" (.atom (.num (qprod fs))) (.cons "factor" (.atom (.num (.fin 1))) .nil))
      = qprod fs := by
  simp [qprod, Fields.get?, numOf, Num.mul_one']

/-- `valNe` on the contents. -/
theorem valNe_norm (a b : V) : valNe (norm a) (norm b) = valNe a b := by
  cases a with
  | atom x =>
    cases b with
    | atom y => rfl
    | node j kb fb =>
      by_cases hk : kb = .quantity
      · subst hk; rfl
      · rw [norm_node_ne_qty _ _ _ hk]; cases kb <;> rfl
  | node i ka fa =>
    by_cases hka : ka = .quantity
    · subst hka
      cases b with
      | atom y => rfl
      | node j kb fb =>
        by_cases hk : kb = .quantity
        · subst hk; rfl
        · rw [norm_node_ne_qty _ _ _ hk]; cases kb <;> rfl
    · rw [norm_node_ne_qty _ _ _ hka]
      cases b with
      | atom y => cases ka <;> rfl
      | node j kb fb =>
        by_cases hk : kb = .quantity
        · subst hk; cases ka <;> first | rfl | exact absurd rfl hka
        · rw [norm_node_ne_qty _ _ _ hk]
          cases ka <;> cases kb <;> try rfl
          -- list against list
          simp only [normKind, valNe, normF_vals, List.length_map]
          congr 1
          have : ∀ (la lb : List V),
              ((la.map norm).zip (lb.map norm)).any (fun ab => match ab with
                | (.atom a, .atom b) => atomNe a b
                | _ => true) =
              (la.zip lb).any (fun ab => match ab with
                | (.atom a, .atom b) => atomNe a b
                | _ => true) := by
            intro la
            induction la with
            | nil => intro lb; rfl
            | cons x la ih =>
              intro lb
              cases lb with
              | nil => rfl
              | cons y lb =>
                simp only [List.map_cons, List.zip_cons_cons, List.any_cons, ih lb]
                congr 1
                cases x with
                | atom ax =>
                  cases y with
                  | atom ay => rfl
                  | node jy ky fy =>
                    by_cases h : ky = .quantity
                    · subst h; rfl
                    · rw [norm_node_ne_qty _ _ _ h]; rfl
                | node ix kx fx =>
                  by_cases h : kx = .quantity
                  · subst h; rfl
                  · rw [norm_node_ne_qty _ _ _ h]
          exact this _ _


theorem nePix_norm (t : Tol) (fa fb : Fields) : nePix t (normF fa) (normF fb) = nePix t fa fb := by
  unfold nePix
  simp only [coord_norm]

theorem neSky_norm (fa fb : Fields) : neSky (normF fa) (normF fb) = neSky fa fb := by
  unfold neSky
  simp only [atomOf_norm, arrOf_norm]

theorem neDict_norm (fa fb : Fields) : neDict (normF fa) (normF fb) = neDict fa fb := by
  unfold neDict
  simp only [normF_length, normF_toList, List.any_map]
  by_cases hl : fa.length ≠ fb.length
  · simp [hl]
  · simp only [hl, if_false]
    congr 1
    funext kv
    simp only [Function.comp, normF_get?]
    cases fb.get? kv.1 with
    | none => rfl
    | some vb => simp [valNe_norm]

theorem norm_norm_qty (fs : Fields) :
    norm (.node 0 .quantity (.cons "value" (.atom (.num (qprod fs)))
      (.cons "factor" (.atom (.num (.fin 1))) .nil))) =
    .node 0 .quantity (.cons "value" (.atom (.num (qprod fs)))
      (.cons "factor" (.atom (.num (.fin 1))) .nil)) := by
  simp [norm, qprod_normQ]

mutual
/-- `!=` sees only the content of its operands. -/
theorem neV_norm (t : Tol) : ∀ (a b : V), neV t (norm a) (norm b) = neV t a b
  | .atom x, .atom y => rfl
  | .atom x, .node j kb fb => by
    by_cases hk : kb = .quantity
    · subst hk; rfl
    · rw [norm_node_ne_qty _ _ _ hk]; rfl
  | .node i ka fa, b => by
    by_cases hka : ka = .quantity
    · subst hka
      cases b with
      | atom y => rfl
      | node j kb fb =>
        by_cases hk : kb = .quantity
        · subst hk
          simp only [norm, neV, neQty, qprod_normQ]
        · rw [norm_node_ne_qty _ _ _ hk]; cases kb <;> first | rfl | exact absurd rfl hk
    · rw [norm_node_ne_qty _ _ _ hka]
      cases b with
      | atom y => cases ka <;> first | rfl | exact absurd rfl hka
      | node j kb fb =>
        by_cases hk : kb = .quantity
        · subst hk; cases ka <;> first | rfl | exact absurd rfl hka
        · rw [norm_node_ne_qty _ _ _ hk]
          cases ka with
          | quantity => exact absurd rfl hka
          | region ca =>
            cases kb <;> try rfl
            rename_i cb
            simp only [normKind, neV, eqLoop_norm t (cmpKeys ca) fa fb]
          | pixcoord => cases kb <;> first | rfl | exact absurd rfl hk | (simp only [normKind, neV, nePix_norm])
          | skycoord => cases kb <;> first | rfl | exact absurd rfl hk | (simp only [normKind, neV, neSky_norm])
          | dict => cases kb <;> first | rfl | exact absurd rfl hk | (simp only [normKind, neV, neDict_norm])
          | rmeta => cases kb <;> first | rfl | exact absurd rfl hk | (simp only [normKind, neV, neDict_norm])
          | rvisual => cases kb <;> first | rfl | exact absurd rfl hk | (simp only [normKind, neV, neDict_norm])
          | list =>
            cases kb <;> try first | rfl | exact absurd rfl hk
            simp only [normKind, neV]
            have := valNe_norm (.node 0 .list fa) (.node j .list fb)
            rw [norm_node_ne_qty _ _ _ (by decide), norm_node_ne_qty _ _ _ (by decide)] at this
            rw [← this]
            rfl
          | array => cases kb <;> first | rfl | exact absurd rfl hk | (simp only [normKind, neV, normF_nums])
          | regions => rfl
theorem eqLoop_norm (t : Tol) (keys : List String) :
    ∀ (fa fb : Fields), eqLoop t keys (normF fa) (normF fb) = eqLoop t keys fa fb
  | .nil, _ => rfl
  | .cons key va rest, fb => by
    simp only [normF, eqLoop, normF_get?]
    split
    · cases hg : fb.get? key with
      | none => rfl
      | some vb =>
        simp only [Option.map_some, neV_norm t va vb, eqLoop_norm t keys rest fb]
    · exact eqLoop_norm t keys rest fb
end

theorem eqRegion_norm (t : Tol) (a b : V) : eqRegion t (norm a) (norm b) = eqRegion t a b := by
  cases a with
  | atom x => cases b <;> rfl
  | node i ka fa =>
    cases b with
    | atom y =>
      by_cases hka : ka = .quantity
      · subst hka; rfl
      · rw [norm_node_ne_qty _ _ _ hka]; cases ka <;> rfl
    | node j kb fb =>
      by_cases hka : ka = .quantity
      · subst hka
        by_cases hk : kb = .quantity
        · subst hk; rfl
        · rw [norm_node_ne_qty _ _ _ hk]; cases kb <;> rfl
      · by_cases hk : kb = .quantity
        · subst hk; rw [norm_node_ne_qty _ _ _ hka]; cases ka <;> rfl
        · rw [norm_node_ne_qty _ _ _ hka, norm_node_ne_qty _ _ _ hk]
          cases ka <;> cases kb <;> try rfl
          simp only [normKind, eqRegion, eqLoop_norm]

/-- two values with the same content are interchangeable in every comparison. -/
theorem eqRegion_congr (t : Tol) (a a' b b' : V) (ha : norm a = norm a') (hb : norm b = norm b') :
    eqRegion t a b = eqRegion t a' b' := by
  rw [← eqRegion_norm t a b, ← eqRegion_norm t a' b', ha, hb]


/-! ## G. copies are equal -/

theorem shiftF_get? (n : Nat) : ∀ (fs : Fields) (key : String),
    (fs.shift n).get? key = (fs.get? key).map (V.shift n)
  | .nil, _ => rfl
  | .cons k v r, key => by
    simp only [Fields.shift, Fields.get?]
    split
    · rfl
    · exact shiftF_get? n r key

theorem numOf_shift (n : Nat) (o : Option V) : numOf (o.map (V.shift n)) = numOf o := by
  cases o with
  | none => rfl
  | some v => cases v <;> rfl

theorem qprod_shift (n : Nat) (fs : Fields) : qprod (fs.shift n) = qprod fs := by
  simp [qprod, shiftF_get?, numOf_shift]

mutual
theorem norm_shift (n : Nat) : ∀ v : V, norm (v.shift n) = norm v
  | .atom _ => rfl
  | .node i k fs => by
    by_cases hk : k = .quantity
    · subst hk; simp [V.shift, norm, qprod_shift]
    · simp [V.shift, norm_node_ne_qty _ _ _ hk, normF_shift n fs]
theorem normF_shift (n : Nat) : ∀ fs : Fields, normF (fs.shift n) = normF fs
  | .nil => rfl
  | .cons _ v r => by simp [Fields.shift, normF, norm_shift n v, normF_shift n r]
end

/-- `copy.deepcopy(r)` is exactly as equal to `r` as `r` is to itself, both ways — for every
value (any class, compound nesting, polygons, …). -/
theorem deepcopy_eq (t : Tol) (bound next : Nat) (r : V) :
    eqRegion t r (deepcopy bound next r).1 = eqRegion t r r ∧
    eqRegion t (deepcopy bound next r).1 r = eqRegion t r r := by
  constructor
  · exact eqRegion_congr t _ _ _ _ rfl (by simp [deepcopy, norm_shift])
  · exact eqRegion_congr t _ _ _ _ (by simp [deepcopy, norm_shift]) rfl


/-- the attributes of an object. -/
def fieldsOf : V → Fields
  | .node _ _ fs => fs
  | .atom _ => .nil

theorem ofList_get? : ∀ (l : List (String × V)) (key : String),
    (Fields.ofList l).get? key = l.lookup key
  | [], _ => rfl
  | (k, v) :: r, key => by
    simp only [Fields.ofList, Fields.get?, List.lookup_cons]
    by_cases h : k = key
    · subst h; simp
    · have : (key == k) = false := by simpa using fun e : key = k => h e.symm
      simp [h, this, ofList_get? r key]

theorem lookup_map_self (f : String → V) : ∀ (l : List String) (p : String), p ∈ l →
    (l.map fun q => (q, f q)).lookup p = some (f p)
  | [], _, h => by simp at h
  | q :: l, p, h => by
    simp only [List.map_cons, List.lookup_cons]
    by_cases hq : p = q
    · subst hq; simp
    · have : (p == q) = false := by simpa using hq
      simp only [this]
      exact lookup_map_self f l p (by simpa [hq] using h)

theorem lookup_map_none (f : String → V) : ∀ (l : List String) (p : String), p ∉ l →
    (l.map fun q => (q, f q)).lookup p = none
  | [], _, _ => rfl
  | q :: l, p, h => by
    simp only [List.mem_cons, not_or] at h
    have : (p == q) = false := by simpa using h.1
    simp only [List.map_cons, List.lookup_cons, this]
    exact lookup_map_none f l p h.2

theorem lookup_append' (l₁ l₂ : List (String × V)) (key : String) :
    (l₁ ++ l₂).lookup key = match l₁.lookup key with
      | some v => some v
      | none => l₂.lookup key := by
  induction l₁ with
  | nil => rfl
  | cons kv l ih =>
    obtain ⟨k, v⟩ := kv
    simp only [List.cons_append, List.lookup_cons]
    cases key == k <;> simp [ih]

/-- what `Region.copy` passes to the constructor for a compared attribute: the caller's value
if the attribute is named in `changes`, otherwise a deep copy (a shifted isomorphic copy) of the
original's attribute. -/
theorem copyArgs_lookup (bound : Nat) (fs : Fields) (changes : List (String × V)) :
    ∀ (keys : List String) (next : Nat) (key : String), key ∈ keys → changes.lookup key = none →
      ∃ m, (copyArgs bound fs keys changes next).1.lookup key
        = some ((fs.getD key (.atom .none)).shift m)
  | [], _, _, h, _ => by simp at h
  | k :: rest, next, key, h, hc => by
    unfold copyArgs
    by_cases hk : key = k
    · subst hk
      simp only [hc, Option.isSome_none, Bool.false_eq_true, if_false, deepcopy]
      exact ⟨next, by simp⟩
    · have hr : key ∈ rest := by simpa [hk] using h
      split
      · exact copyArgs_lookup bound fs changes rest next key hr hc
      · simp only [deepcopy]
        have : (key == k) = false := by simpa using hk
        simp only [List.lookup_cons, this]
        exact copyArgs_lookup bound fs changes rest (next + bound) key hr hc

theorem copy_arg (bound : Nat) (fs : Fields) (changes : List (String × V)) (keys : List String)
    (next : Nat) (key : String) (hk : key ∈ keys) :
    ∃ m, lookup (changes ++ (copyArgs bound fs keys changes next).1) key =
      match changes.lookup key with
      | some v => v
      | none => (fs.getD key (.atom .none)).shift m := by
  unfold lookup
  rw [lookup_append']
  cases hc : changes.lookup key with
  | some v => exact ⟨0, rfl⟩
  | none =>
    obtain ⟨m, hm⟩ := copyArgs_lookup bound fs changes keys next key hk hc
    exact ⟨m, by simp [hm]⟩

/-- labels of the derived attributes of a regular polygon. -/
def regularExtras : List String :=
  ["_vertices", "exterior_angle", "inradius", "interior_angle", "origin", "perimeter",
   "side_length", "vertices"]

/-- the attributes the (non-polygon) constructors store: parameters as given, then `meta` and
`visual` through the class's meta rule; every compared attribute occurs once. -/
theorem construct_get (c : ClassInfo) (args : List (String × V)) (next : Nat) (r' : V) (n' : Nat)
    (h : construct c args next = .ok (r', n')) (hctor : c.ctor ≠ .polygon)
    (hm : "meta" ∉ c.params) (hv : "visual" ∉ c.params)
    (hext : c.ctor = .regularPolygon → ∀ k ∈ regularExtras, k ∉ c.params ++ ["meta", "visual"]) :
    ∃ i fs' b, r' = .node i (.region c.name) fs' ∧
      (∀ p ∈ c.params, fs'.get? p = some (lookup args p)) ∧
      fs'.get? "meta" = some (storeBoth c args b).1.1 ∧
      fs'.get? "visual" = some (storeBoth c args b).1.2 ∧
      (∀ kv ∈ fs'.toList, kv.1 ∈ c.params ++ ["meta", "visual"] → fs'.get? kv.1 = some kv.2) := by
  have key : ∀ (mv : (V × V) × Nat) (extras : List (String × V)),
      (∀ e ∈ extras, e.1 ∉ c.params ++ ["meta", "visual"]) →
      let fs' := Fields.ofList (pfields c args ++ ([("meta", mv.1.1), ("visual", mv.1.2)] ++ extras))
      (∀ p ∈ c.params, fs'.get? p = some (lookup args p)) ∧
      fs'.get? "meta" = some mv.1.1 ∧ fs'.get? "visual" = some mv.1.2 ∧
      (∀ kv ∈ fs'.toList, kv.1 ∈ c.params ++ ["meta", "visual"] → fs'.get? kv.1 = some kv.2) := by
    intro mv extras hex
    have h1 : ∀ p ∈ c.params, (Fields.ofList (pfields c args ++
        ([("meta", mv.1.1), ("visual", mv.1.2)] ++ extras))).get? p = some (lookup args p) := by
      intro p hp
      rw [ofList_get?, lookup_append']
      unfold pfields
      rw [lookup_map_self _ _ _ hp]
    have h2 : (Fields.ofList (pfields c args ++
        ([("meta", mv.1.1), ("visual", mv.1.2)] ++ extras))).get? "meta" = some mv.1.1 := by
      rw [ofList_get?, lookup_append']
      unfold pfields
      rw [lookup_map_none _ _ _ hm]
      simp
    have h3 : (Fields.ofList (pfields c args ++
        ([("meta", mv.1.1), ("visual", mv.1.2)] ++ extras))).get? "visual" = some mv.1.2 := by
      rw [ofList_get?, lookup_append']
      unfold pfields
      rw [lookup_map_none _ _ _ hv]
      have h1 : ("visual" == "meta") = false := by decide
      simp [List.lookup_cons, h1]
    refine ⟨h1, h2, h3, ?_⟩
    intro kv hkv hk
    rw [toList_ofList] at hkv
    simp only [List.mem_append, List.mem_cons, List.not_mem_nil, or_false] at hkv
    rcases hkv with hkv | (rfl | rfl) | hkv
    · unfold pfields at hkv
      simp only [List.mem_map] at hkv
      obtain ⟨p, hp, rfl⟩ := hkv
      exact h1 p hp
    · exact h2
    · exact h3
    · exact absurd hk (hex kv hkv)
  unfold construct at h
  split at h
  · cases h
  · split at h
    · cases h
    · split at h
      · cases h
        have := key (storeBoth c args (next + 1)) [] (by simp)
        simp only [List.append_nil] at this
        exact ⟨next, _, next + 1, rfl, this⟩
      · cases h
        have := key (storeBoth c args (next + 1)) [] (by simp)
        simp only [List.append_nil] at this
        exact ⟨next, _, next + 1, rfl, this⟩
      · rename_i hc; exact absurd hc hctor
      · rename_i hreg
        split at h
        · cases h
        · cases h
          have := key (storeBoth c args (next + 1 + 3))
            [("_vertices", pixElided (next + 1)),
             ("exterior_angle", qtyElided ((storeBoth c args (next + 1 + 3)).2 + 4)),
             ("inradius", .atom .elided),
             ("interior_angle", qtyElided ((storeBoth c args (next + 1 + 3)).2 + 5)),
             ("origin", pixZero (storeBoth c args (next + 1 + 3)).2),
             ("perimeter", .atom .elided), ("side_length", .atom .elided),
             ("vertices", pixElided ((storeBoth c args (next + 1 + 3)).2 + 1))]
            (by
              intro e he
              simp only [List.mem_cons, List.not_mem_nil, or_false] at he
              rcases he with rfl | rfl | rfl | rfl | rfl | rfl | rfl | rfl <;>
                exact hext hreg _ (by simp [regularExtras]))
          exact ⟨next, _, next + 1 + 3, rfl, this⟩

/-- a `dict`, `RegionMeta` or `RegionVisual` object. -/
def isDictNode : V → Bool
  | .node _ .dict _ | .node _ .rmeta _ | .node _ .rvisual _ => true
  | _ => false

theorem isDictNode_shift (n : Nat) (v : V) : isDictNode (v.shift n) = isDictNode v := by
  cases v with
  | atom a => rfl
  | node i k fs => cases k <;> rfl

/-- under the two sound meta rules the stored `meta` / `visual` has the content of the
argument (an empty argument is replaced by a fresh empty object, a plain dict is converted). -/
theorem storeMeta_norm (rule : MetaRule) (want : Kind) (hw : want = .rmeta ∨ want = .rvisual)
    (r1 arg : V) (next : Nat) (hd : isDictNode arg = true) (hr : rule ≠ .dropIfGiven) :
    norm (storeMeta rule want r1 arg next).1 = norm arg := by
  cases arg with
  | atom a => simp [isDictNode] at hd
  | node i k fs =>
    cases rule with
    | dropIfGiven => exact absurd rfl hr
    | keepIfGiven => rfl
    | orFresh =>
      rcases hw with rfl | rfl <;> cases k <;> simp [isDictNode] at hd <;>
        cases fs <;> simp [storeMeta, isEmptyDict, emptyDict, norm, normKind, normF]

/-- the value `r.copy(**changes)` is specified to hold in attribute `key`: the named value, or
the original's. -/
def expected (fa : Fields) (changes : List (String × V)) (key : String) : V :=
  match changes.lookup key with
  | some v => v
  | none => fa.getD key (.atom .none)

theorem table_lookup : ∀ c ∈ classTable, classInfo? c.name = some c := by decide +kernel

theorem table_meta_not_param : ∀ c ∈ classTable, "meta" ∉ c.params ∧ "visual" ∉ c.params := by
  decide +kernel

theorem table_extras : ∀ c ∈ classTable, c.ctor = .regularPolygon →
    ∀ k ∈ regularExtras, k ∉ c.params ++ ["meta", "visual"] := by
  decide +kernel

/-- FULL-STRENGTH clause "a copy with changes differs from the original in exactly the named
fields": every compared attribute of the copy has the content of the value named in `changes`,
or else of the original's attribute (classes whose constructor stores the parameters as given;
`PolygonPixelRegion`, which recomputes `vertices + origin`, is `copy_changes_exact_polygon`). -/
def copy_changes_exact_full : Prop :=
  ∀ c ∈ classTable, c.ctor ≠ .polygon →
  ∀ (bound next i : Nat) (fa : Fields) (changes : List (String × V)) (r' : V) (n' : Nat),
    copyRegion bound next (.node i (.region c.name) fa) changes = .ok (r', n') →
    isDictNode (expected fa changes "meta") = true →
    isDictNode (expected fa changes "visual") = true →
    ∀ key ∈ cmpKeys c.name,
      ∃ v, (fieldsOf r').get? key = some v ∧ norm v = norm (expected fa changes key)

/-- partial: every class whose constructor does not drop an explicit `meta` / `visual`
(i.e. all but `CompoundSkyRegion`, finding F2). -/
theorem copy_changes_exact_partial (c : ClassInfo) (hc : c ∈ classTable) (hctor : c.ctor ≠ .polygon)
    (hrule : c.metaRule ≠ .dropIfGiven)
    (bound next i : Nat) (fa : Fields) (changes : List (String × V)) (r' : V) (n' : Nat)
    (h : copyRegion bound next (.node i (.region c.name) fa) changes = .ok (r', n'))
    (hdm : isDictNode (expected fa changes "meta") = true)
    (hdv : isDictNode (expected fa changes "visual") = true) :
    ∀ key ∈ cmpKeys c.name,
      ∃ v, (fieldsOf r').get? key = some v ∧ norm v = norm (expected fa changes key) := by
  have hci := table_lookup c hc
  obtain ⟨hm, hv⟩ := table_meta_not_param c hc
  have hkeys : cmpKeys c.name = c.params ++ ["meta", "visual"] := by simp [cmpKeys, paramsOf, hci]
  unfold copyRegion at h
  simp only [hci] at h
  obtain ⟨j, fs', b, rfl, hp, hgm, hgv, _⟩ := construct_get c _ _ r' n' h hctor hm hv (table_extras c hc)
  -- the argument passed for each compared key
  have harg : ∀ key ∈ cmpKeys c.name,
      norm (lookup (changes ++ (copyArgs bound fa (cmpKeys c.name) changes next).1) key)
        = norm (expected fa changes key) ∧
      (isDictNode (expected fa changes key) = true →
        isDictNode (lookup (changes ++ (copyArgs bound fa (cmpKeys c.name) changes next).1) key) = true) := by
    intro key hk
    obtain ⟨m, hm'⟩ := copy_arg bound fa changes (cmpKeys c.name) next key hk
    rw [hm']
    unfold expected
    cases changes.lookup key with
    | some v => exact ⟨rfl, id⟩
    | none => exact ⟨norm_shift m _, fun h => by rw [isDictNode_shift]; exact h⟩
  intro key hk
  have hk' := hk
  rw [hkeys] at hk'
  simp only [List.mem_append, List.mem_cons, List.not_mem_nil, or_false] at hk'
  simp only [fieldsOf]
  rcases hk' with hk' | rfl | rfl
  · exact ⟨_, hp key hk', (harg key hk).1⟩
  · refine ⟨_, hgm, ?_⟩
    unfold storeBoth
    simp only
    rw [storeMeta_norm _ _ (Or.inl rfl) _ _ _ ((harg "meta" hk).2 hdm) hrule]
    exact (harg "meta" hk).1
  · refine ⟨_, hgv, ?_⟩
    unfold storeBoth
    simp only
    rw [storeMeta_norm _ _ (Or.inr rfl) _ _ _ ((harg "visual" hk).2 hdv) hrule]
    exact (harg "visual" hk).1


/-- converse of `eqLoop_true`. -/
theorem eqLoop_all (t : Tol) (keys : List String) : ∀ (fa fb : Fields),
    (∀ kv ∈ fa.toList, kv.1 ∈ keys → ∃ vb, fb.get? kv.1 = some vb ∧ neV t kv.2 vb = .ok false) →
    eqLoop t keys fa fb = .ok true
  | .nil, _, _ => rfl
  | .cons key va rest, fb, h => by
    unfold eqLoop
    have hrest := eqLoop_all t keys rest fb (fun kv hkv hk => h kv (by simp [Fields.toList, hkv]) hk)
    by_cases hc : keys.contains key = true
    · rw [if_pos hc]
      obtain ⟨vb, hg, hn⟩ := h (key, va) (by simp [Fields.toList]) (by simpa using hc)
      simp only at hg hn
      rw [hg]; simp only; rw [hn]; exact hrest
    · rw [if_neg hc]; exact hrest

theorem get?_mem : ∀ (fs : Fields) (key : String) (v : V), fs.get? key = some v →
    (key, v) ∈ fs.toList
  | .nil, _, _, h => by simp [Fields.get?] at h
  | .cons k v0 r, key, v, h => by
    unfold Fields.get? at h
    simp only [Fields.toList, List.mem_cons]
    split at h
    · rename_i hk; cases h; subst hk; exact Or.inl rfl
    · exact Or.inr (get?_mem r key v h)

theorem isInstance_self (c : String) : isInstance c c = true := by simp [isInstance]

/-- **copy_eq** (partial: every class but `CompoundSkyRegion`, and `PolygonPixelRegion` which is
`copy_eq_polygon`).  If a region equals itself (no NaN parameter, see `eq_refl_partial`) then
`r.copy()` equals `r`, both ways round. -/
theorem copy_eq_partial (c : ClassInfo) (hc : c ∈ classTable) (hctor : c.ctor ≠ .polygon)
    (hrule : c.metaRule ≠ .dropIfGiven) (t : Tol)
    (bound next i : Nat) (fa : Fields) (r' : V) (n' : Nat)
    (h : copyRegion bound next (.node i (.region c.name) fa) [] = .ok (r', n'))
    (hpres : ∀ key ∈ cmpKeys c.name, ∃ v, fa.get? key = some v)
    (hdm : isDictNode (fa.getD "meta" (.atom .none)) = true)
    (hdv : isDictNode (fa.getD "visual" (.atom .none)) = true)
    (hself : eqRegion t (.node i (.region c.name) fa) (.node i (.region c.name) fa) = .ok true) :
    eqRegion t (.node i (.region c.name) fa) r' = .ok true ∧
    eqRegion t r' (.node i (.region c.name) fa) = .ok true := by
  have hex := copy_changes_exact_partial c hc hctor hrule bound next i fa [] r' n' h
    (by simpa [expected] using hdm) (by simpa [expected] using hdv)
  -- shape of the copy
  have hci := table_lookup c hc
  obtain ⟨hm, hv⟩ := table_meta_not_param c hc
  have hkeys : cmpKeys c.name = c.params ++ ["meta", "visual"] := by simp [cmpKeys, paramsOf, hci]
  have h' := h
  unfold copyRegion at h'
  simp only [hci] at h'
  obtain ⟨j, fs', b, rfl, _, _, _, huniq⟩ :=
    construct_get c _ _ r' n' h' hctor hm hv (table_extras c hc)
  simp only [fieldsOf, expected, List.lookup_nil] at hex
  obtain ⟨_, _, hall⟩ := eq_true_all_fields t i i c.name c.name fa fa hself
  constructor
  · rw [eqRegion_node]
    simp only [isInstance_self, Bool.not_true, Bool.false_eq_true, if_false, ne_eq,
      not_true_eq_false]
    apply eqLoop_all
    intro kv hkv hk
    obtain ⟨v, hg, hn⟩ := hex kv.1 hk
    obtain ⟨v1, hg1, hn1⟩ := hall kv hkv hk
    refine ⟨v, hg, ?_⟩
    rw [← neV_norm, hn, Fields.getD, hg1, Option.getD_some, neV_norm]
    exact hn1
  · rw [eqRegion_node]
    simp only [isInstance_self, Bool.not_true, Bool.false_eq_true, if_false, ne_eq,
      not_true_eq_false]
    apply eqLoop_all
    intro kv hkv hk
    have hfirst := huniq kv hkv (by rw [← hkeys]; exact hk)
    obtain ⟨v, hg, hn⟩ := hex kv.1 hk
    rw [hfirst] at hg; cases hg
    obtain ⟨va, hga⟩ := hpres kv.1 hk
    refine ⟨va, hga, ?_⟩
    obtain ⟨v1, hg1, hn1⟩ := hall (kv.1, va) (get?_mem fa kv.1 va hga) hk
    simp only at hg1 hn1
    rw [hga] at hg1; cases hg1
    rw [← neV_norm, hn, Fields.getD, hga, Option.getD_some, neV_norm]
    exact hn1


/-! ## H. reflexivity -/

def isNumAtom : V → Bool
  | .atom (.num _) => true
  | _ => false

/-- a scalar that `==` can compare (anything but the placeholder for values the model elides). -/
def cmpAtom : V → Bool
  | .atom .elided => false
  | .atom _ => true
  | _ => false

/-- a meta / visual value: a scalar or a flat list of scalars. -/
def wfVal : V → Bool
  | .node _ .list fs => fs.vals.all cmpAtom
  | v => cmpAtom v

def wfArr : Option V → Bool
  | some (.node _ .array fs) => fs.vals.all isNumAtom
  | _ => false

mutual
/-- structural well-formedness of a value as the constructors build it (types of the
attributes, distinct labels); says nothing about the numbers. -/
def wf : V → Bool
  | .atom a => cmpAtom (.atom a)
  | .node _ k fs =>
    match k with
    | .region c => decide ((fs.keys.filter (cmpKeys c).contains).Nodup) && wfF (cmpKeys c) fs
    | .pixcoord =>
      match fs.get? "x", fs.get? "y" with
      | some (.atom (.num _)), some (.atom (.num _)) => true
      | some (.node _ .array xs), some (.node _ .array ys) =>
        xs.vals.all isNumAtom && ys.vals.all isNumAtom
      | _, _ => false
    | .quantity => isNumAtom (fs.getD "value" (.atom .none)) && isNumAtom (fs.getD "factor" (.atom .none))
    | .skycoord => wfArr (fs.get? "lon") && wfArr (fs.get? "lat")
    | .dict | .rmeta | .rvisual => decide fs.keys.Nodup && fs.vals.all wfVal
    | .list => fs.vals.all cmpAtom
    | .array => fs.vals.all isNumAtom
    | .regions => false
def wfF (keys : List String) : Fields → Bool
  | .nil => true
  | .cons k v r => (!keys.contains k || wf v) && wfF keys r
end

def atomIsNaN : Atom → Bool
  | .num .nan => true
  | _ => false

mutual
/-- no NaN anywhere in the value — the decidable predicate that excludes exactly the inputs on
which `==` is not reflexive. -/
def noNaN : V → Bool
  | .atom a => !atomIsNaN a
  | .node _ _ fs => noNaNF fs
def noNaNF : Fields → Bool
  | .nil => true
  | .cons _ v r => noNaN v && noNaNF r
end

theorem noNaNF_get? : ∀ (fs : Fields) (key : String) (v : V), noNaNF fs = true →
    fs.get? key = some v → noNaN v = true
  | .nil, _, _, _, h => by simp [Fields.get?] at h
  | .cons k v0 r, key, v, hn, h => by
    simp only [noNaNF, Bool.and_eq_true] at hn
    unfold Fields.get? at h
    split at h
    · cases h; exact hn.1
    · exact noNaNF_get? r key v hn.2 h

/-- all elements of a well-formed NaN-free array are finite numbers. -/
theorem nums_fin : ∀ (fs : Fields), fs.vals.all isNumAtom = true → noNaNF fs = true →
    ∀ x ∈ fs.nums, ∃ q, x = Num.fin q
  | .nil, _, _, x, hx => by simp [Fields.nums] at hx
  | .cons _ v r, hw, hn, x, hx => by
    simp only [Fields.vals, List.all_cons, Bool.and_eq_true] at hw
    simp only [noNaNF, Bool.and_eq_true] at hn
    cases v with
    | node i k fs => simp [isNumAtom] at hw
    | atom a =>
      cases a with
      | num y =>
        simp only [Fields.nums, List.mem_cons] at hx
        rcases hx with rfl | hx
        · cases x with
          | fin q => exact ⟨q, rfl⟩
          | nan => simp [noNaN, atomIsNaN] at hn
        · exact nums_fin r hw.2 hn.2 x hx
      | _ => simp [isNumAtom] at hw

theorem close_self (t : Tol) (hr : 0 ≤ t.rtol) (ha : 0 ≤ t.atol) (q : ℚ) :
    (Num.fin q).close t (Num.fin q) = true := by
  simp only [Num.close, sub_self, abs_zero, decide_eq_true_eq]
  have := abs_nonneg q
  positivity

theorem bcastAll_self (p : Num → Num → Bool) (l : List Num) (h : ∀ x ∈ l, p x x = true) :
    bcastAll p l l = .ok true := by
  unfold bcastAll
  simp only [if_true]
  congr 1
  rw [List.all_eq_true]
  intro ab hab
  have : ab.1 = ab.2 := by
    have := List.of_mem_zip hab
    induction l with
    | nil => simp at hab
    | cons a l ih =>
      simp only [List.zip_cons_cons, List.mem_cons] at hab
      rcases hab with rfl | hab
      · rfl
      · exact ih (fun x hx => h x (by simp [hx])) hab (List.of_mem_zip hab)
  obtain ⟨a, b⟩ := ab
  simp only at this
  subst this
  exact h a (List.of_mem_zip hab).1

theorem atomNe_self (a : Atom) (h1 : cmpAtom (.atom a) = true) (h2 : atomIsNaN a = false) :
    atomNe a a = false := by
  cases a with
  | num x => cases x <;> simp_all [atomNe, Num.ne, atomIsNaN]
  | str s => simp [atomNe]
  | bool b => simp [atomNe]
  | none => rfl
  | fn f => simp [atomNe]
  | elided => simp [cmpAtom] at h1

theorem noNaNF_vals : ∀ (fs : Fields), noNaNF fs = true → ∀ v ∈ fs.vals, noNaN v = true
  | .nil, _, v, hv => by simp [Fields.vals] at hv
  | .cons _ v0 r, hn, v, hv => by
    simp only [noNaNF, Bool.and_eq_true] at hn
    simp only [Fields.vals, List.mem_cons] at hv
    rcases hv with rfl | hv
    · exact hn.1
    · exact noNaNF_vals r hn.2 v hv

theorem valNe_self (v : V) (hw : wfVal v = true) (hn : noNaN v = true) : valNe v v = false := by
  cases v with
  | atom a =>
    show atomNe a a = false
    exact atomNe_self a (by simpa [wfVal] using hw) (by simpa [noNaN] using hn)
  | node i k fs =>
    cases k <;> try (simp [wfVal, cmpAtom] at hw)
    simp only [valNe, ne_eq, not_true_eq_false, if_false]
    try simp only [wfVal] at hw
    simp only [noNaN] at hn
    rw [Bool.eq_false_iff]
    intro hany
    rw [List.any_eq_true] at hany
    obtain ⟨ab, hab, hne⟩ := hany
    have hmem := List.of_mem_zip hab
    have heq : ab.1 = ab.2 := by
      clear hne hmem hw hn
      generalize fs.vals = l at hab
      induction l with
      | nil => simp at hab
      | cons a l ih =>
        simp only [List.zip_cons_cons, List.mem_cons] at hab
        rcases hab with rfl | hab
        · rfl
        · exact ih hab
    obtain ⟨a, b⟩ := ab
    simp only at heq hmem
    subst heq
    have hc := hw a hmem.1
    have hnn := noNaNF_vals fs hn a hmem.1
    cases a with
    | node j kk gs => simp at hc
    | atom x =>
      simp only at hne
      rw [atomNe_self x (by simpa [cmpAtom] using hc) (by simpa [noNaN] using hnn)] at hne
      exact absurd hne (by simp)


theorem mem_keys_of_mem_toList : ∀ (fs : Fields) (k : String) (v : V), (k, v) ∈ fs.toList → k ∈ fs.keys
  | .nil, _, _, h => by simp [Fields.toList] at h
  | .cons k1 v1 r1, k, v, h => by
    simp only [Fields.toList, List.mem_cons] at h
    simp only [Fields.keys, List.mem_cons]
    rcases h with h | h
    · cases h; exact Or.inl rfl
    · exact Or.inr (mem_keys_of_mem_toList r1 k v h)

/-- with distinct (selected) labels, every selected entry is the one `getattr` finds. -/
theorem get?_of_nodup (p : String → Bool) : ∀ (fs : Fields) (k : String) (v : V),
    (fs.keys.filter p).Nodup → (k, v) ∈ fs.toList → p k = true → fs.get? k = some v
  | .nil, _, _, _, h, _ => by simp [Fields.toList] at h
  | .cons k0 v0 r, k, v, hnd, h, hp => by
    simp only [Fields.toList, List.mem_cons] at h
    unfold Fields.get?
    by_cases hk : k0 = k
    · subst hk
      rw [if_pos rfl]
      rcases h with h | h
      · cases h; rfl
      · exfalso
        simp only [Fields.keys, List.filter_cons, hp, if_true, List.nodup_cons] at hnd
        apply hnd.1
        rw [List.mem_filter]
        exact ⟨mem_keys_of_mem_toList r _ _ h, hp⟩
    · rw [if_neg hk]
      rcases h with h | h
      · cases h; exact absurd rfl hk
      · apply get?_of_nodup p r k v _ h hp
        simp only [Fields.keys, List.filter_cons] at hnd
        split at hnd
        · exact (List.nodup_cons.mp hnd).2
        · exact hnd

theorem toList_length : ∀ fs : Fields, fs.toList.length = fs.length
  | .nil => rfl
  | .cons _ _ r => by simp [Fields.toList, Fields.length, toList_length r]

theorem mem_vals_of_mem_toList : ∀ (fs : Fields) (kv : String × V), kv ∈ fs.toList → kv.2 ∈ fs.vals
  | .nil, _, h => by simp [Fields.toList] at h
  | .cons _ _ r, kv, h => by
    simp only [Fields.toList, List.mem_cons] at h
    simp only [Fields.vals, List.mem_cons]
    rcases h with rfl | h
    · exact Or.inl rfl
    · exact Or.inr (mem_vals_of_mem_toList r kv h)

theorem neDict_self (fs : Fields) (hk : fs.keys.Nodup) (hv : fs.vals.all wfVal = true)
    (hn : noNaNF fs = true) : neDict fs fs = false := by
  unfold neDict
  simp only [ne_eq, not_true_eq_false, if_false]
  rw [Bool.eq_false_iff]
  intro hany
  rw [List.any_eq_true] at hany
  obtain ⟨kv, hkv, hne⟩ := hany
  have hg : fs.get? kv.1 = some kv.2 :=
    get?_of_nodup (fun _ => true) fs kv.1 kv.2 (by simpa using hk) hkv rfl
  rw [hg] at hne
  simp only at hne
  have hm := mem_vals_of_mem_toList fs kv hkv
  rw [valNe_self kv.2 (List.all_eq_true.mp hv _ hm) (noNaNF_vals fs hn _ hm)] at hne
  exact absurd hne (by simp)

theorem all_close_self (t : Tol) (hr : 0 ≤ t.rtol) (ha : 0 ≤ t.atol) (l : List Num)
    (h : ∀ x ∈ l, ∃ q, x = Num.fin q) : bcastAll (Num.close t) l l = .ok true :=
  bcastAll_self _ l (fun x hx => by obtain ⟨q, rfl⟩ := h x hx; exact close_self t hr ha q)

theorem all_exact_self (l : List Num) (h : ∀ x ∈ l, ∃ q, x = Num.fin q) :
    bcastAll (fun a b => !(a.ne b)) l l = .ok true :=
  bcastAll_self _ l (fun x hx => by obtain ⟨q, rfl⟩ := h x hx; simp [Num.ne])

mutual
/-- `v != v` is `False` for every well-formed NaN-free value (any nesting of compounds, any
array / dict / list sizes), for any non-negative tolerances. -/
theorem neV_self (t : Tol) (hr : 0 ≤ t.rtol) (ha : 0 ≤ t.atol) :
    ∀ v : V, wf v = true → noNaN v = true → neV t v v = .ok false
  | .atom a, hw, hn => by
    show Except.ok (atomNe a a) = Except.ok false
    rw [atomNe_self a hw (by simpa [noNaN] using hn)]
  | .node i k fs, hw, hn => by
    simp only [noNaN] at hn
    cases k with
    | region c =>
      simp only [wf, Bool.and_eq_true, decide_eq_true_eq] at hw
      have hl : eqLoop t (cmpKeys c) fs fs = .ok true := by
        apply eqLoop_all
        intro kv hkv hk
        refine ⟨kv.2, get?_of_nodup _ fs kv.1 kv.2 hw.1 hkv (by simpa using hk), ?_⟩
        exact loop_self t hr ha (cmpKeys c) fs hw.2 hn kv hkv hk
      simp [neV, isInstance_self, hl]
    | pixcoord =>
      simp only [wf] at hw
      simp only [neV, nePix]
      split at hw
      · rename_i x y hx hy
        rw [hx, hy]
        have hxn := noNaNF_get? fs "x" _ hn hx
        have hyn := noNaNF_get? fs "y" _ hn hy
        cases x with
        | nan => simp [noNaN, atomIsNaN] at hxn
        | fin qx =>
          cases y with
          | nan => simp [noNaN, atomIsNaN] at hyn
          | fin qy =>
            simp [coordList, bcastAll, close_self t hr ha]
            rfl
      · rename_i i1 xs i2 ys hx hy
        rw [hx, hy]
        simp only [Bool.and_eq_true] at hw
        have hxn := noNaNF_get? fs "x" _ hn hx
        have hyn := noNaNF_get? fs "y" _ hn hy
        simp only [noNaN] at hxn hyn
        simp only [Option.bind_some, coordList, ne_eq, not_true_eq_false, if_false]
        rw [all_close_self t hr ha _ (nums_fin xs hw.1 hxn), all_close_self t hr ha _ (nums_fin ys hw.2 hyn)]
        rfl
      · simp at hw
    | quantity =>
      simp only [wf, Bool.and_eq_true, Fields.getD] at hw
      simp only [neV, neQty, qprod]
      cases hv : fs.get? "value" with
      | none => rw [hv] at hw; simp [isNumAtom] at hw
      | some v =>
        cases hf : fs.get? "factor" with
        | none => rw [hf] at hw; simp [isNumAtom] at hw
        | some f =>
          rw [hv, hf] at hw
          have hvn := noNaNF_get? fs "value" _ hn hv
          have hfn := noNaNF_get? fs "factor" _ hn hf
          cases v with
          | node _ _ _ => simp [isNumAtom] at hw
          | atom av =>
            cases f with
            | node _ _ _ => simp [isNumAtom] at hw
            | atom af =>
              cases av <;> try (simp [isNumAtom] at hw)
              cases af <;> try (simp [isNumAtom] at hw)
              rename_i x y
              cases x with
              | nan => simp [noNaN, atomIsNaN] at hvn
              | fin qx =>
                cases y with
                | nan => simp [noNaN, atomIsNaN] at hfn
                | fin qy => simp [numOf, Num.mul, Num.ne]
    | skycoord =>
      simp only [wf, Bool.and_eq_true] at hw
      simp only [neV, neSky, ne_eq, not_true_eq_false, if_false]
      have hlon : ∀ x ∈ arrOf (fs.get? "lon"), ∃ q, x = Num.fin q := by
        cases hg : fs.get? "lon" with
        | none => simp [arrOf]
        | some v =>
          have hw1 := hw.1
          rw [hg] at hw1
          cases v with
          | atom _ => simp [wfArr] at hw1
          | node j kk gs =>
            cases kk <;> try (simp [wfArr] at hw1)
            have := noNaNF_get? fs "lon" _ hn hg
            exact nums_fin gs (by simpa [wfArr] using hw1) (by simpa [noNaN] using this)
      have hlat : ∀ x ∈ arrOf (fs.get? "lat"), ∃ q, x = Num.fin q := by
        cases hg : fs.get? "lat" with
        | none => simp [arrOf]
        | some v =>
          have hw2 := hw.2
          rw [hg] at hw2
          cases v with
          | atom _ => simp [wfArr] at hw2
          | node j kk gs =>
            cases kk <;> try (simp [wfArr] at hw2)
            have := noNaNF_get? fs "lat" _ hn hg
            exact nums_fin gs (by simpa [wfArr] using hw2) (by simpa [noNaN] using this)
      rw [all_exact_self _ hlon, all_exact_self _ hlat]
      rfl
    | dict =>
      simp only [wf, Bool.and_eq_true, decide_eq_true_eq] at hw
      simp [neV, neDict_self fs hw.1 hw.2 hn]
    | rmeta =>
      simp only [wf, Bool.and_eq_true, decide_eq_true_eq] at hw
      simp [neV, neDict_self fs hw.1 hw.2 hn]
    | rvisual =>
      simp only [wf, Bool.and_eq_true, decide_eq_true_eq] at hw
      simp [neV, neDict_self fs hw.1 hw.2 hn]
    | list =>
      simp only [wf] at hw
      have := valNe_self (.node 0 .list fs) (by simpa [wfVal] using hw) (by simpa [noNaN] using hn)
      simp only [neV]
      have h2 : valNe (.node 0 .list fs) (.node i .list fs) = valNe (.node 0 .list fs) (.node 0 .list fs) := rfl
      rw [h2, this]
    | array =>
      simp only [wf] at hw
      simp only [neV]
      rw [all_exact_self _ (nums_fin fs hw hn)]
      rfl
    | regions => simp [wf] at hw
theorem loop_self (t : Tol) (hr : 0 ≤ t.rtol) (ha : 0 ≤ t.atol) (keys : List String) :
    ∀ fs : Fields, wfF keys fs = true → noNaNF fs = true →
      ∀ kv ∈ fs.toList, kv.1 ∈ keys → neV t kv.2 kv.2 = .ok false
  | .nil, _, _, kv, h, _ => by simp [Fields.toList] at h
  | .cons k v r, hw, hn, kv, h, hk => by
    simp only [wfF, Bool.and_eq_true, Bool.or_eq_true, Bool.not_eq_true'] at hw
    simp only [noNaNF, Bool.and_eq_true] at hn
    simp only [Fields.toList, List.mem_cons] at h
    rcases h with rfl | h
    · rcases hw.1 with hc | hc
      · simp only at hk
        have : keys.contains k = true := by simpa using hk
        rw [this] at hc; cases hc
      · exact neV_self t hr ha v hc hn.1
    · exact loop_self t hr ha keys r hw.2 hn.2 kv h hk
end

end RegionsVerif.Props.C16
