/-
C16 — regions are values: copies are equal and independent, equality sees every field.

Theorems about `Impl/Value.lean` (heap model in unfolded form, `Region.copy`, `Region.__eq__`,
`PixCoord.__eq__` = `np.allclose`, `Regions` slicing / list mutators).  Every statement is for
all values (any nesting depth of compound regions, any array / dict / list sizes) and all
mutation / edit sequences (any length).

Index (clause of the property → theorem).  Since the fixes 23f75f4 (F2c), 4b5524a (F22, F22b) and
7cc5a6b (F15) every clause but reflexivity holds at full strength (`def …_full` + `theorem …_full_holds`);
the former counterexamples are kept as `example`s that now evaluate to the right answer.

* copy shares no mutable state        `copy_fresh`, `copy_disjoint`, `deepcopy_disjoint`
* changing the copy never shows       `frame_seq` (induction over ANY mutation list),
  in the original (and vice versa)     `mutate_copy_preserves_original`, `mutate_original_preserves_copy`
* copy compares equal                 `copy_eq_full`, `copy_eq_full_holds` (`copy_eq`), `copy_eq_polygon`, `deepcopy_eq`
* copy(**changes) exact               `copy_changes_exact_full`, `copy_changes_exact_full_holds` (`copy_changes_exact`)
* equality reflexive                  `eq_refl_full` ✗ `eq_refl_full_refuted` (NaN, open finding F11c), `eq_refl_partial`
* equality symmetric                  `eq_symm_full`, `eq_symm_full_holds` (`neV_symm`); `close2_iff`, `close_asymm_iff`
* equal across units                  `eq_unit_insensitive`, `eq_unit_insensitive_self`, `ne_quantity`
* fails as soon as a field differs    `eq_true_all_fields`, `eq_detects_any_field`, `eq_detects_class`,
                                       `table_distinct_classes`; `eq_detects_full`, `eq_detects_full_holds`
                                       (`neV_noRaise`, `NoRaise_of_wf`, `eq_detects_partial`), `eq_never_raises`;
                                       vertex count: `eq_detects_vertex_count_full`, `…_holds`;
                                       leaves: `pix_outside_tolerance`, `pix_inside_tolerance`, `ne_number`,
                                       `neDict_value`, `neDict_missing`, `neDict_size`
* equality sees content only          `neV_norm`, `eqRegion_congr`
* slices / copies of region lists     `slice_copy_independent`, `slice_new_objects`, `copy_new_objects`,
                                       `slice_items_shared`, `source_edits_leave_slice`
-/
import RegionsVerif.Impl.Value
import Mathlib.Data.List.Basic
import Mathlib.Data.List.Perm.Subperm
import Mathlib.Tactic.Linarith
import Mathlib.Tactic.Ring

set_option linter.unusedSimpArgs false
set_option linter.unusedVariables false
set_option linter.unusedTactic false
set_option linter.unreachableTactic false

namespace RegionsVerif.Props.C16
open RegionsVerif.Impl.Value

/-! ## A. the heap: identities, deep copies, writes -/

/-- the attributes of an object. -/
def fieldsOf : V → Fields
  | .node _ _ fs => fs
  | .atom _ => .nil

mutual
theorem ids_shift (n : Nat) : ∀ v : V, (v.shift n).ids = v.ids.map (· + n)
  | .atom _ => by simp [V.shift, V.ids]
  | .node i k fs => by simp [V.shift, V.ids, idsF_shift n fs]
theorem idsF_shift (n : Nat) : ∀ fs : Fields, (fs.shift n).ids = fs.ids.map (· + n)
  | .nil => by simp [Fields.shift, Fields.ids]
  | .cons _ v r => by simp [Fields.shift, Fields.ids, ids_shift n v, idsF_shift n r]
end

mutual
theorem erase_shift (n : Nat) : ∀ v : V, (v.shift n).erase = v.erase
  | .atom _ => by simp [V.shift, V.erase]
  | .node i k fs => by simp [V.shift, V.erase, eraseF_shift n fs]
theorem eraseF_shift (n : Nat) : ∀ fs : Fields, (fs.shift n).erase = fs.erase
  | .nil => by simp [Fields.shift, Fields.erase]
  | .cons _ v r => by simp [Fields.shift, Fields.erase, erase_shift n v, eraseF_shift n r]
end

/-- a deep copy lives entirely on fresh ids. -/
theorem deepcopy_fresh (bound next : Nat) (v : V) :
    ∀ i ∈ (deepcopy bound next v).1.ids, next ≤ i := by
  intro i hi
  simp only [deepcopy, ids_shift, List.mem_map] at hi
  obtain ⟨j, _, rfl⟩ := hi
  omega

/-- a deep copy has the same content. -/
theorem deepcopy_erase (bound next : Nat) (v : V) : (deepcopy bound next v).1.erase = v.erase := by
  simp [deepcopy, erase_shift]

mutual
/-- frame rule: a write to an object that does not occur in `v` leaves `v` unchanged. -/
theorem mutate_not_mem (t : Nat) (f : Kind → Fields → Fields) :
    ∀ v : V, t ∉ v.ids → v.mutate t f = v
  | .atom _, _ => by simp [V.mutate]
  | .node i k fs, h => by
    simp only [V.ids, List.mem_cons, not_or] at h
    have hne : ¬ i = t := fun e => h.1 e.symm
    simp [V.mutate, hne, mutateF_not_mem t f fs h.2]
theorem mutateF_not_mem (t : Nat) (f : Kind → Fields → Fields) :
    ∀ fs : Fields, t ∉ fs.ids → fs.mutate t f = fs
  | .nil, _ => by simp [Fields.mutate]
  | .cons _ v r, h => by
    simp only [Fields.ids, List.mem_append, not_or] at h
    simp [Fields.mutate, mutate_not_mem t f v h.1, mutateF_not_mem t f r h.2]
end


/-! ### fields as lists -/

theorem idsF_toList : ∀ fs : Fields, fs.ids = fs.toList.flatMap (fun kv => kv.2.ids)
  | .nil => by simp [Fields.ids, Fields.toList]
  | .cons _ v r => by simp [Fields.ids, Fields.toList, idsF_toList r]

theorem toList_ofList : ∀ l : List (String × V), (Fields.ofList l).toList = l
  | [] => by simp [Fields.ofList, Fields.toList]
  | (k, v) :: r => by simp [Fields.ofList, Fields.toList, toList_ofList r]

theorem mem_idsF {i : Nat} {fs : Fields} : i ∈ fs.ids ↔ ∃ kv ∈ fs.toList, i ∈ kv.2.ids := by
  rw [idsF_toList]; simp [List.mem_flatMap]

theorem mem_ids_ofList {i : Nat} {l : List (String × V)} :
    i ∈ (Fields.ofList l).ids ↔ ∃ kv ∈ l, i ∈ kv.2.ids := by
  rw [mem_idsF, toList_ofList]

theorem ids_set : ∀ (fs : Fields) (key : String) (v : V) (i : Nat),
    i ∈ (fs.set key v).ids → i ∈ fs.ids ∨ i ∈ v.ids
  | .nil, key, v, i, h => by simpa [Fields.set, Fields.ids] using h
  | .cons k v0 r, key, v, i, h => by
    unfold Fields.set at h
    split at h
    · simp only [Fields.ids, List.mem_append] at h ⊢
      rcases h with h | h
      · exact Or.inr h
      · exact Or.inl (Or.inr h)
    · simp only [Fields.ids, List.mem_append] at h ⊢
      rcases h with h | h
      · exact Or.inl (Or.inl h)
      · rcases ids_set r key v i h with h | h
        · exact Or.inl (Or.inr h)
        · exact Or.inr h

theorem ids_del : ∀ (fs : Fields) (key : String) (i : Nat), i ∈ (fs.del key).ids → i ∈ fs.ids
  | .nil, key, i, h => by simpa [Fields.del] using h
  | .cons k v0 r, key, i, h => by
    unfold Fields.del at h
    split at h
    · simp only [Fields.ids, List.mem_append]; exact Or.inr h
    · simp only [Fields.ids, List.mem_append] at h ⊢
      rcases h with h | h
      · exact Or.inl h
      · exact Or.inr (ids_del r key i h)

theorem ids_setIdx : ∀ (fs : Fields) (n : Nat) (v : V) (i : Nat),
    i ∈ (fs.setIdx n v).ids → i ∈ fs.ids ∨ i ∈ v.ids
  | .nil, _, _, _, h => by simp [Fields.setIdx, Fields.ids] at h
  | .cons k v0 r, 0, v, i, h => by
    simp only [Fields.setIdx, Fields.ids, List.mem_append] at h ⊢
    rcases h with h | h
    · exact Or.inr h
    · exact Or.inl (Or.inr h)
  | .cons k v0 r, n + 1, v, i, h => by
    simp only [Fields.setIdx, Fields.ids, List.mem_append] at h ⊢
    rcases h with h | h
    · exact Or.inl (Or.inl h)
    · rcases ids_setIdx r n v i h with h | h
      · exact Or.inl (Or.inr h)
      · exact Or.inr h

theorem ids_append : ∀ (fs g : Fields) (i : Nat), i ∈ (fs.append g).ids ↔ i ∈ fs.ids ∨ i ∈ g.ids
  | .nil, g, i => by simp [Fields.append, Fields.ids]
  | .cons k v r, g, i => by
    simp only [Fields.append, Fields.ids, List.mem_append, ids_append r g i]; tauto

/-- the ids of the values an operation installs. -/
def opIds (op : FOp) : List Nat := op.vals.flatMap V.ids

theorem ids_listItems (vs : List V) (i : Nat) : i ∈ (listItems vs).ids ↔ ∃ v ∈ vs, i ∈ v.ids := by
  unfold listItems
  rw [mem_ids_ofList]
  simp only [List.mem_map]
  constructor
  · rintro ⟨kv, ⟨v, hv, rfl⟩, hi⟩; exact ⟨v, hv, hi⟩
  · rintro ⟨v, hv, hi⟩; exact ⟨("", v), ⟨v, hv, rfl⟩, hi⟩

/-- an operation on one object introduces no identities other than those of the values it
installs. -/
theorem ids_apply (op : FOp) (k : Kind) (fs r : Fields) (h : op.apply k fs = .ok r) (i : Nat)
    (hi : i ∈ r.ids) : i ∈ fs.ids ∨ i ∈ opIds op := by
  unfold FOp.apply at h
  split at h
  · cases h
  revert h
  intro h
  cases op with
  | set key v =>
    have hv : opIds (.set key v) = v.ids := by simp [opIds, FOp.vals]
    rw [hv]
    simp only [FOp.applyCore] at h
    split at h
    · split at h
      · cases h; exact ids_set _ _ _ _ hi
      · cases h
    · split at h
      · cases h; exact ids_set _ _ _ _ hi
      · cases h
    · cases h; exact ids_set _ _ _ _ hi
  | del key =>
    simp only [FOp.applyCore] at h
    split at h
    · cases h; exact Or.inl (ids_del _ _ _ hi)
    · cases h
  | setIdx n v =>
    have hv : opIds (.setIdx n v) = v.ids := by simp [opIds, FOp.vals]
    rw [hv]
    simp only [FOp.applyCore] at h
    split at h
    · cases h; exact ids_setIdx _ _ _ _ hi
    · cases h
  | append v =>
    have hv : opIds (.append v) = v.ids := by simp [opIds, FOp.vals]
    rw [hv]
    simp only [FOp.applyCore] at h
    cases h
    rw [ids_append] at hi
    rcases hi with hi | hi
    · exact Or.inl hi
    · simp only [Fields.ids, List.append_nil] at hi; exact Or.inr hi
  | extend vs =>
    simp only [FOp.applyCore] at h
    cases h
    rw [ids_append] at hi
    rcases hi with hi | hi
    · exact Or.inl hi
    · right
      rw [ids_listItems] at hi
      simp only [opIds, FOp.vals, List.mem_flatMap]
      exact hi
  | insert n v =>
    have hv : opIds (.insert n v) = v.ids := by simp [opIds, FOp.vals]
    rw [hv]
    simp only [FOp.applyCore] at h
    cases h
    rw [mem_ids_ofList] at hi
    obtain ⟨kv, hkv, hi⟩ := hi
    simp only [List.append_assoc, List.mem_append, List.mem_cons, List.not_mem_nil, or_false] at hkv
    rcases hkv with hkv | hkv | hkv
    · exact Or.inl (mem_idsF.mpr ⟨kv, List.mem_of_mem_take hkv, hi⟩)
    · subst hkv; exact Or.inr hi
    · exact Or.inl (mem_idsF.mpr ⟨kv, List.mem_of_mem_drop hkv, hi⟩)
  | pop n =>
    simp only [FOp.applyCore] at h
    split at h
    · cases h
      rw [mem_ids_ofList] at hi
      obtain ⟨kv, hkv, hi⟩ := hi
      simp only [List.mem_append] at hkv
      rcases hkv with hkv | hkv
      · exact Or.inl (mem_idsF.mpr ⟨kv, List.mem_of_mem_take hkv, hi⟩)
      · exact Or.inl (mem_idsF.mpr ⟨kv, List.mem_of_mem_drop hkv, hi⟩)
    · cases h
  | reverse =>
    simp only [FOp.applyCore] at h
    cases h
    rw [mem_ids_ofList] at hi
    obtain ⟨kv, hkv, hi⟩ := hi
    exact Or.inl (mem_idsF.mpr ⟨kv, List.mem_reverse.mp hkv, hi⟩)
  | clear =>
    simp only [FOp.applyCore] at h
    cases h
    simp [Fields.ids] at hi
  | update items =>
    simp only [FOp.applyCore] at h
    split at h
    · cases h
      have key : ∀ (l : List (String × V)) (acc : Fields),
          i ∈ (l.foldl (fun acc kv => acc.set (mapKey k kv.1) kv.2) acc).ids →
          i ∈ acc.ids ∨ ∃ kv ∈ l, i ∈ kv.2.ids := by
        intro l
        induction l with
        | nil => intro acc h; exact Or.inl h
        | cons kv l ih =>
          intro acc h
          simp only [List.foldl_cons] at h
          rcases ih _ h with h | ⟨kv', hm, hi'⟩
          · rcases ids_set _ _ _ _ h with h | h
            · exact Or.inl h
            · exact Or.inr ⟨kv, by simp, h⟩
          · exact Or.inr ⟨kv', by simp [hm], hi'⟩
      rcases key items fs hi with h | ⟨kv, hm, hi'⟩
      · exact Or.inl h
      · right
        simp only [opIds, FOp.vals, List.mem_flatMap, List.mem_map]
        exact ⟨kv.2, ⟨kv, hm, rfl⟩, hi'⟩
    · cases h
  | setdefault key v =>
    have hv : opIds (.setdefault key v) = v.ids := by simp [opIds, FOp.vals]
    rw [hv]
    simp only [FOp.applyCore] at h
    split at h
    · cases h; exact Or.inl hi
    · split at h
      · cases h; exact ids_set _ _ _ _ hi
      · cases h

theorem ids_applyD (op : FOp) (k : Kind) (fs : Fields) (i : Nat)
    (hi : i ∈ (op.applyD k fs).ids) : i ∈ fs.ids ∨ i ∈ opIds op := by
  unfold FOp.applyD at hi
  split at hi
  · rename_i r h; exact ids_apply op k fs r h i hi
  · exact Or.inl hi

mutual
/-- a heap write introduces no identities other than those of the installed values. -/
theorem ids_mutate (t : Nat) (op : FOp) :
    ∀ (v : V) (i : Nat), i ∈ (v.mutate t op.applyD).ids → i ∈ v.ids ∨ i ∈ opIds op
  | .atom _, i, h => by simp [V.mutate, V.ids] at h
  | .node j k fs, i, h => by
    unfold V.mutate at h
    split at h
    · simp only [V.ids, List.mem_cons] at h ⊢
      rcases h with h | h
      · exact Or.inl (Or.inl h)
      · rcases ids_applyD op k fs i h with h | h
        · exact Or.inl (Or.inr h)
        · exact Or.inr h
    · simp only [V.ids, List.mem_cons] at h ⊢
      rcases h with h | h
      · exact Or.inl (Or.inl h)
      · rcases idsF_mutate t op fs i h with h | h
        · exact Or.inl (Or.inr h)
        · exact Or.inr h
theorem idsF_mutate (t : Nat) (op : FOp) :
    ∀ (fs : Fields) (i : Nat), i ∈ (fs.mutate t op.applyD).ids → i ∈ fs.ids ∨ i ∈ opIds op
  | .nil, i, h => by simp [Fields.mutate, Fields.ids] at h
  | .cons _ v r, i, h => by
    simp only [Fields.mutate, Fields.ids, List.mem_append] at h ⊢
    rcases h with h | h
    · rcases ids_mutate t op v i h with h | h
      · exact Or.inl (Or.inl h)
      · exact Or.inr h
    · rcases idsF_mutate t op r i h with h | h
      · exact Or.inl (Or.inr h)
      · exact Or.inr h
end


/-! ## B. independence under any sequence of mutations -/

/-- lookup in a world after one heap write. -/
theorem lookup_mutate (w : World) (m : Mut) (name : String) :
    (w.mutate m).lookup name = (w.lookup name).map (fun v => v.mutate m.target m.op.applyD) := by
  induction w with
  | nil => simp [World.mutate]
  | cons r w ih =>
    obtain ⟨k, v⟩ := r
    simp only [World.mutate, List.map_cons, List.lookup_cons] at ih ⊢
    by_cases hk : name == k
    · simp [hk]
    · simp [hk]; exact ih

/-- A sequence of in-place mutations is *admissible for `c` against `o`* when every step writes
an object that `c` reaches at that moment and installs only values that share nothing with `o`
(fresh objects, or objects of `c` itself).  Nothing else is required: any operation, any length. -/
def Admissible (o : V) : V → List Mut → Prop
  | _, [] => True
  | c, m :: ms =>
    m.target ∈ c.ids ∧ (∀ i ∈ opIds m.op, i ∉ o.ids) ∧
      Admissible o (c.mutate m.target m.op.applyD) ms

/-- FRAME THEOREM.  If `o` and `c` share no object, then after ANY admissible sequence of
mutations of `c` — each applied as a heap write to the whole world, i.e. seen through every
alias — `o` is literally unchanged, and the two still share nothing. -/
theorem frame_seq (o : V) : ∀ (ms : List Mut) (c : V) (no nc : String), no ≠ nc →
    (∀ i ∈ c.ids, i ∉ o.ids) → Admissible o c ms →
    (World.mutateAll [(no, o), (nc, c)] ms).lookup no = some o ∧
    ∃ c', (World.mutateAll [(no, o), (nc, c)] ms).lookup nc = some c' ∧ ∀ i ∈ c'.ids, i ∉ o.ids
  | [], c, no, nc, hne, hd, _ => by
    refine ⟨by simp [World.mutateAll], c, ?_, hd⟩
    have hb : (nc == no) = false := by simpa using fun h : nc = no => hne h.symm
    simp [World.mutateAll, List.lookup_cons, hb]
  | m :: ms, c, no, nc, hne, hd, hadm => by
    obtain ⟨ht, hv, hrest⟩ := hadm
    have hto : m.target ∉ o.ids := hd _ ht
    have ho : o.mutate m.target m.op.applyD = o := mutate_not_mem _ _ _ hto
    have hd' : ∀ i ∈ (c.mutate m.target m.op.applyD).ids, i ∉ o.ids := by
      intro i hi
      rcases ids_mutate _ _ _ _ hi with h | h
      · exact hd i h
      · exact hv i h
    have := frame_seq o ms (c.mutate m.target m.op.applyD) no nc hne hd' hrest
    simpa [World.mutateAll, World.mutate, ho] using this

/-- the same for a single protected value inside an arbitrary world: writes whose targets
never lie in `o` leave `o` unchanged (no condition on the installed values). -/
theorem frame_targets (o : V) (name : String) : ∀ (ms : List Mut) (w : World),
    w.lookup name = some o → (∀ m ∈ ms, m.target ∉ o.ids) →
    (w.mutateAll ms).lookup name = some o
  | [], w, h, _ => by simpa [World.mutateAll] using h
  | m :: ms, w, h, ht => by
    have h1 : (w.mutate m).lookup name = some o := by
      rw [lookup_mutate, h]
      simp [mutate_not_mem _ _ _ (ht m (by simp))]
    have := frame_targets o name ms (w.mutate m) h1 (fun m' hm' => ht m' (by simp [hm']))
    simpa [World.mutateAll] using this


/-! ## C. `Region.copy`: the copy is built from fresh objects -/

/-- close `… ∨ … ∨ next ≤ i` goals whose last disjunct is linear arithmetic. -/
macro "fresh_omega" : tactic =>
  `(tactic| first | omega | (right; omega) | (right; right; omega) | (left; omega))

/-- every object of `v` is either one of `S` or was allocated at or after `next`. -/
def FreshOr (S : List Nat) (next : Nat) (v : V) : Prop := ∀ i ∈ v.ids, i ∈ S ∨ next ≤ i

def argsIds (args : List (String × V)) : List Nat := args.flatMap fun kv => kv.2.ids

theorem FreshOr.mono {S : List Nat} {n m : Nat} {v : V} (h : FreshOr S m v) (hnm : n ≤ m) :
    FreshOr S n v := fun i hi => (h i hi).imp id (fun h => le_trans hnm h)

theorem get?_ids : ∀ (fs : Fields) (key : String) (v : V), fs.get? key = some v →
    ∀ i ∈ v.ids, i ∈ fs.ids
  | .nil, _, _, h, _, _ => by simp [Fields.get?] at h
  | .cons k v0 r, key, v, h, i, hi => by
    unfold Fields.get? at h
    simp only [Fields.ids, List.mem_append]
    split at h
    · cases h; exact Or.inl hi
    · exact Or.inr (get?_ids r key v h i hi)

theorem getD_ids (fs : Fields) (key : String) (d : V) (i : Nat) (hi : i ∈ (fs.getD key d).ids) :
    i ∈ fs.ids ∨ i ∈ d.ids := by
  unfold Fields.getD at hi
  cases h : fs.get? key with
  | none => rw [h] at hi; exact Or.inr hi
  | some v => rw [h] at hi; exact Or.inl (get?_ids fs key v h i hi)

theorem lookup_ids (args : List (String × V)) (key : String) (i : Nat)
    (hi : i ∈ (lookup args key).ids) : i ∈ argsIds args := by
  unfold lookup at hi
  cases h : args.lookup key with
  | none => rw [h] at hi; simp [V.ids] at hi
  | some v =>
    rw [h] at hi
    simp only [argsIds, List.mem_flatMap]
    refine ⟨(key, v), ?_, hi⟩
    induction args with
    | nil => simp at h
    | cons kv rest ih =>
      obtain ⟨k, w⟩ := kv
      simp only [List.lookup_cons] at h
      by_cases hk : key == k
      · simp only [hk] at h; cases h
        have : key = k := by simpa using hk
        simp [this]
      · simp only [hk] at h
        exact List.mem_cons_of_mem _ (ih h)

theorem r1Field_ids (args : List (String × V)) (key : String) (i : Nat)
    (hi : i ∈ (r1Field args key).ids) : i ∈ argsIds args := by
  unfold r1Field at hi
  split at hi
  · rename_i j k fs heq
    rcases getD_ids fs key _ i hi with h | h
    · apply lookup_ids args "region1"
      rw [heq]; simp [V.ids, h]
    · simp [V.ids] at h
  · simp [V.ids] at hi

theorem storeMeta_ids (rule : MetaRule) (want : Kind) (r1 arg : V) (next : Nat) (i : Nat)
    (hi : i ∈ (storeMeta rule want r1 arg next).1.ids) : i ∈ r1.ids ∨ i ∈ arg.ids ∨ next ≤ i := by
  unfold storeMeta at hi
  cases rule with
  | orFresh =>
    simp only at hi
    split at hi
    · simp [emptyDict, V.ids, Fields.ids] at hi; fresh_omega
    · split at hi
      · simp [emptyDict, V.ids, Fields.ids] at hi; fresh_omega
      · simp only [V.ids, List.mem_cons] at hi ⊢
        rcases hi with hi | hi
        · fresh_omega
        · exact Or.inr (Or.inl (Or.inr hi))
    · split at hi
      · simp [emptyDict, V.ids, Fields.ids] at hi; fresh_omega
      · exact Or.inr (Or.inl hi)
  | keepIfGiven =>
    simp only at hi
    split at hi
    · exact Or.inl hi
    · exact Or.inr (Or.inl hi)

theorem storeMeta_next (rule : MetaRule) (want : Kind) (r1 arg : V) (next : Nat) :
    next ≤ (storeMeta rule want r1 arg next).2 := by
  unfold storeMeta
  cases rule <;> simp only <;> (repeat' split) <;> simp

theorem storeBoth_next (c : ClassInfo) (args : List (String × V)) (next : Nat) :
    next ≤ (storeBoth c args next).2 := by
  unfold storeBoth
  exact le_trans (storeMeta_next _ _ _ _ _) (storeMeta_next _ _ _ _ _)

theorem storeBoth_ids (c : ClassInfo) (args : List (String × V)) (next : Nat) :
    FreshOr (argsIds args) next (storeBoth c args next).1.1 ∧
    FreshOr (argsIds args) next (storeBoth c args next).1.2 := by
  unfold storeBoth
  constructor
  · intro i hi
    rcases storeMeta_ids _ _ _ _ _ i hi with h | h | h
    · exact Or.inl (r1Field_ids _ _ _ h)
    · exact Or.inl (lookup_ids _ _ _ h)
    · exact Or.inr h
  · intro i hi
    rcases storeMeta_ids _ _ _ _ _ i hi with h | h | h
    · exact Or.inl (r1Field_ids _ _ _ h)
    · exact Or.inl (lookup_ids _ _ _ h)
    · exact Or.inr (le_trans (storeMeta_next _ _ _ _ _) h)

theorem pfields_ids (c : ClassInfo) (args : List (String × V)) (kv : String × V)
    (hkv : kv ∈ pfields c args) (i : Nat) (hi : i ∈ kv.2.ids) : i ∈ argsIds args := by
  unfold pfields at hkv
  simp only [List.mem_map] at hkv
  obtain ⟨p, _, rfl⟩ := hkv
  exact lookup_ids _ _ _ hi

theorem addCoord_ids (a b : V) (id i : Nat) (hi : i ∈ (addCoord a b id).ids) : i = id := by
  unfold addCoord at hi
  split at hi
  · split at hi
    · simp [V.ids] at hi
    · simp only [V.ids, List.mem_cons] at hi
      rcases hi with hi | hi
      · exact hi
      · rw [ids_listItems] at hi
        obtain ⟨v, hv, hi⟩ := hi
        simp only [List.mem_map] at hv
        obtain ⟨_, _, rfl⟩ := hv
        simp [V.ids] at hi
  · simp [V.ids] at hi

theorem pixAdd_ids (a b : V) (next : Nat) (i : Nat) (hi : i ∈ (pixAdd a b next).1.ids) :
    next ≤ i := by
  unfold pixAdd at hi
  split at hi
  · simp only [V.ids, Fields.ids, List.mem_cons, List.mem_append, List.append_nil] at hi
    rcases hi with hi | hi | hi
    · omega
    · have := addCoord_ids _ _ _ _ hi; omega
    · have := addCoord_ids _ _ _ _ hi; omega
  · simp [V.ids] at hi

theorem originArg_ids (args : List (String × V)) (next : Nat) :
    FreshOr (argsIds args) next (originArg args next).1 ∧ next ≤ (originArg args next).2 := by
  unfold originArg
  split
  · rename_i j k fs heq
    refine ⟨fun i hi => Or.inl ?_, le_refl _⟩
    apply lookup_ids args "origin"
    unfold lookup; rw [heq]; exact hi
  · refine ⟨fun i hi => Or.inr ?_, by omega⟩
    simp [pixZero, V.ids, Fields.ids] at hi; fresh_omega

/-- the constructor builds the new region from its arguments and fresh objects only. -/
theorem construct_ids (c : ClassInfo) (args : List (String × V)) (next : Nat) (r : V) (n : Nat)
    (h : construct c args next = .ok (r, n)) : FreshOr (argsIds args) next r := by
  unfold construct at h
  split at h
  · cases h
  · split at h
    · cases h
    · have hplain : FreshOr (argsIds args) next (buildPlain c args next (next + 1)).1 := by
        intro i hi
        simp only [buildPlain] at hi
        simp only [V.ids, List.mem_cons] at hi
        rcases hi with hi | hi
        · fresh_omega
        · rw [mem_ids_ofList] at hi
          obtain ⟨kv, hkv, hi⟩ := hi
          simp only [List.mem_append, List.mem_cons, List.not_mem_nil, or_false] at hkv
          rcases hkv with hkv | rfl | rfl
          · exact Or.inl (pfields_ids c args kv hkv i hi)
          · exact ((storeBoth_ids c args (next + 1)).1.mono (by omega)) i hi
          · exact ((storeBoth_ids c args (next + 1)).2.mono (by omega)) i hi
      split at h
      · cases h; exact hplain
      · cases h; exact hplain
      · cases h
        intro i hi
        have hn := storeBoth_next c args (next + 1)
        have ho := originArg_ids args (storeBoth c args (next + 1)).2
        simp only [V.ids, List.mem_cons] at hi
        rcases hi with hi | hi
        · fresh_omega
        · rw [mem_ids_ofList] at hi
          obtain ⟨kv, hkv, hi⟩ := hi
          simp only [List.mem_cons, List.not_mem_nil, or_false] at hkv
          rcases hkv with rfl | rfl | rfl | rfl | rfl
          · have := pixAdd_ids _ _ _ _ hi; right; omega
          · exact ((storeBoth_ids c args (next + 1)).1.mono (by omega)) i hi
          · exact ((storeBoth_ids c args (next + 1)).2.mono (by omega)) i hi
          · exact Or.inl (lookup_ids _ _ _ hi)
          · exact (ho.1.mono (by omega)) i hi
      · split at h
        · cases h
        · cases h
          intro i hi
          have hn := storeBoth_next c args (next + 1 + 3)
          simp only [V.ids, List.mem_cons] at hi
          rcases hi with hi | hi
          · fresh_omega
          · rw [mem_ids_ofList] at hi
            obtain ⟨kv, hkv, hi⟩ := hi
            simp only [List.mem_append, List.mem_cons, List.not_mem_nil, or_false] at hkv
            rcases hkv with hkv | rfl | rfl | rfl | rfl | rfl | rfl | rfl | rfl | rfl | rfl
            · exact Or.inl (pfields_ids c args kv hkv i hi)
            · exact ((storeBoth_ids c args (next + 1 + 3)).1.mono (by omega)) i hi
            · exact ((storeBoth_ids c args (next + 1 + 3)).2.mono (by omega)) i hi
            all_goals
              (simp [pixElided, qtyElided, pixZero, V.ids, Fields.ids] at hi <;> fresh_omega)


theorem copyArgs_fresh (bound : Nat) (fs : Fields) (changes : List (String × V)) :
    ∀ (keys : List String) (next : Nat),
      (∀ kv ∈ (copyArgs bound fs keys changes next).1, ∀ i ∈ kv.2.ids, next ≤ i) ∧
      next ≤ (copyArgs bound fs keys changes next).2
  | [], next => by simp [copyArgs]
  | key :: rest, next => by
    unfold copyArgs
    split
    · exact copyArgs_fresh bound fs changes rest next
    · have ih := copyArgs_fresh bound fs changes rest (next + bound)
      simp only [deepcopy]
      refine ⟨?_, le_trans (Nat.le_add_right _ _) ih.2⟩
      intro kv hkv i hi
      simp only [List.mem_cons] at hkv
      rcases hkv with rfl | hkv
      · simp only [ids_shift, List.mem_map] at hi
        obtain ⟨j, _, rfl⟩ := hi
        omega
      · exact le_trans (Nat.le_add_right _ _) (ih.1 kv hkv i hi)

/-- `copy_disjoint`, general form: every object of `r.copy(**changes)` is either an object the
caller passed in `changes` or a fresh one (allocated at or after `next`). -/
theorem copy_fresh (bound next : Nat) (r : V) (changes : List (String × V)) (r' : V) (n' : Nat)
    (h : copyRegion bound next r changes = .ok (r', n')) : FreshOr (argsIds changes) next r' := by
  unfold copyRegion at h
  split at h
  · rename_i j cls fs
    split at h
    · cases h
    · rename_i c hc
      simp only at h
      have hca := copyArgs_fresh bound fs changes (cmpKeys cls) next
      have := construct_ids c _ _ r' n' h
      intro i hi
      rcases this i hi with hi | hi
      · simp only [argsIds, List.flatMap_append, List.mem_append, List.mem_flatMap] at hi
        rcases hi with hi | ⟨kv, hkv, hi⟩
        · left; simpa [argsIds, List.mem_flatMap] using hi
        · right; exact hca.1 kv hkv i hi
      · right; exact le_trans hca.2 hi
  · cases h

/-- **copy_disjoint.**  With every existing object id `< next` (the allocation counter) and
changes that share nothing with the original, NO object is reachable from both the original
and the copy. -/
theorem copy_disjoint (bound next : Nat) (r : V) (changes : List (String × V)) (r' : V) (n' : Nat)
    (h : copyRegion bound next r changes = .ok (r', n'))
    (hb : ∀ i ∈ r.ids, i < next) (hc : ∀ i ∈ argsIds changes, i ∉ r.ids) :
    ∀ i ∈ r'.ids, i ∉ r.ids := by
  intro i hi hr
  rcases copy_fresh bound next r changes r' n' h i hi with h1 | h1
  · exact hc i h1 hr
  · have := hb i hr; omega

/-- plain `copy()`: the copy consists of fresh objects only. -/
theorem copy_all_fresh (bound next : Nat) (r r' : V) (n' : Nat)
    (h : copyRegion bound next r [] = .ok (r', n')) : ∀ i ∈ r'.ids, next ≤ i := by
  intro i hi
  rcases copy_fresh bound next r [] r' n' h i hi with h1 | h1
  · simp [argsIds] at h1
  · exact h1

/-- `copy.deepcopy(region)` shares nothing with the original either. -/
theorem deepcopy_disjoint (bound next : Nat) (r : V) (hb : ∀ i ∈ r.ids, i < next) :
    ∀ i ∈ (deepcopy bound next r).1.ids, i ∉ r.ids := by
  intro i hi hr
  have := deepcopy_fresh bound next r i hi
  have := hb i hr
  omega

/-- **mutate_copy_preserves_original.**  After `c = r.copy(**changes)` (changes sharing nothing
with `r`), ANY admissible sequence of in-place mutations of the copy — attribute assignments,
dict edits, array element writes, list edits, of any length, each applied to the whole heap —
leaves the original literally unchanged. -/
theorem mutate_copy_preserves_original (bound next : Nat) (r : V) (changes : List (String × V))
    (c : V) (n' : Nat) (h : copyRegion bound next r changes = .ok (c, n'))
    (hb : ∀ i ∈ r.ids, i < next) (hc : ∀ i ∈ argsIds changes, i ∉ r.ids)
    (ms : List Mut) (hadm : Admissible r c ms) :
    (World.mutateAll [("original", r), ("copy", c)] ms).lookup "original" = some r :=
  (frame_seq r ms c "original" "copy" (by decide)
    (copy_disjoint bound next r changes c n' h hb hc) hadm).1

/-- and the other way round: mutating the original never shows in the copy. -/
theorem mutate_original_preserves_copy (bound next : Nat) (r : V) (changes : List (String × V))
    (c : V) (n' : Nat) (h : copyRegion bound next r changes = .ok (c, n'))
    (hb : ∀ i ∈ r.ids, i < next) (hc : ∀ i ∈ argsIds changes, i ∉ r.ids)
    (ms : List Mut) (hadm : Admissible c r ms) :
    (World.mutateAll [("copy", c), ("original", r)] ms).lookup "copy" = some c :=
  (frame_seq c ms r "copy" "original" (by decide)
    (fun i hi hc' => copy_disjoint bound next r changes c n' h hb hc i hc' hi) hadm).1


/-! ## D. `Regions`: slices and copies are new lists -/

theorem mkRegions_ids (items : List V) (next : Nat) (i : Nat)
    (hi : i ∈ (mkRegions items next).1.ids) :
    i = next ∨ i = next + 1 ∨ ∃ v ∈ items, i ∈ v.ids := by
  simp only [mkRegions, V.ids, Fields.ids, List.mem_cons, List.mem_append, List.append_nil,
    List.not_mem_nil, or_false] at hi
  rcases hi with hi | hi | hi
  · exact Or.inl hi
  · exact Or.inr (Or.inl hi)
  · exact Or.inr (Or.inr ((ids_listItems _ _).mp hi))

/-- what a slice / copy is: a NEW `Regions` object (id `next`) around a NEW list (id `next+1`). -/
theorem mkRegions_listId (items : List V) (next : Nat) :
    regionsListId (mkRegions items next).1 = some (next + 1) := by
  simp [mkRegions, regionsListId, Fields.get?]

theorem regionsSlice_eq (s : V) (start stop step : Option Int) (next : Nat) (t : V) (n' : Nat)
    (h : regionsSlice s start stop step next = .ok (t, n')) :
    ∃ items, t = (mkRegions items next).1 ∧ ∀ v ∈ items, v ∈ regionsItems s := by
  unfold regionsSlice at h
  simp only at h
  split at h
  · cases h
  · rename_i idx _
    cases h
    refine ⟨_, rfl, ?_⟩
    intro v hv
    simp only [List.mem_filterMap] at hv
    obtain ⟨i, _, hi⟩ := hv
    exact List.mem_of_getElem? hi

/-- **slice_copy_independent.**  `T = S[a:b:c]` (any slice) or `T = S.copy()`: ANY sequence of
edits of `T` — append / extend / insert / pop / reverse / item assignment on its list, attribute
assignment on the `Regions` object, of any length and with any regions (also ones that are in
`S`) — leaves `S` unchanged, in every world that holds `S`. -/
theorem slice_copy_independent (s : V) (next : Nat) (hb : ∀ i ∈ s.ids, i < next)
    (w : World) (name : String) (hw : w.lookup name = some s)
    (ms : List Mut) (ht : ∀ m ∈ ms, m.target = next ∨ m.target = next + 1) :
    (w.mutateAll ms).lookup name = some s := by
  apply frame_targets s name ms w hw
  intro m hm hmem
  have := hb _ hmem
  rcases ht m hm with h | h <;> omega

/-- the targets named in `slice_copy_independent` are exactly the new objects of the slice. -/
theorem slice_new_objects (s : V) (start stop step : Option Int) (next : Nat) (t : V) (n' : Nat)
    (h : regionsSlice s start stop step next = .ok (t, n')) :
    (∃ fs, t = .node next .regions fs) ∧ regionsListId t = some (next + 1) := by
  obtain ⟨items, rfl, _⟩ := regionsSlice_eq s start stop step next t n' h
  exact ⟨⟨_, rfl⟩, mkRegions_listId items next⟩

theorem copy_new_objects (s : V) (next : Nat) :
    (∃ fs, (regionsCopy s next).1 = .node next .regions fs) ∧
    regionsListId (regionsCopy s next).1 = some (next + 1) :=
  ⟨⟨_, rfl⟩, mkRegions_listId _ next⟩

/-- every region of a slice / copy is one of the source's regions (shared, not copied): the
lists are independent, the regions are the same objects — `Regions.copy` is shallow. -/
theorem slice_items_shared (s : V) (start stop step : Option Int) (next : Nat) (t : V) (n' : Nat)
    (h : regionsSlice s start stop step next = .ok (t, n')) :
    ∀ v ∈ regionsItems t, v ∈ regionsItems s := by
  obtain ⟨items, rfl, hsub⟩ := regionsSlice_eq s start stop step next t n' h
  intro v hv
  have : regionsItems (mkRegions items next).1 = items := by
    simp only [mkRegions, regionsItems, Fields.get?, if_true]
    unfold listItems
    have : ∀ l : List V, (Fields.ofList (l.map fun v => ("", v))).vals = l := by
      intro l; induction l with
      | nil => rfl
      | cons a l ih => simp [Fields.ofList, Fields.vals, ih]
    exact this items
  rw [this] at hv
  exact hsub v hv

/-- conversely, list edits of the SOURCE (target = its list object, which is not one of its own
items' objects) leave the slice / copy unchanged. -/
theorem source_edits_leave_slice (s : V) (start stop step : Option Int) (next : Nat) (t : V)
    (n' : Nat) (h : regionsSlice s start stop step next = .ok (t, n'))
    (ls : Nat) (hb : ls < next) (hls : ∀ v ∈ regionsItems s, ls ∉ v.ids)
    (w : World) (name : String) (hw : w.lookup name = some t)
    (ms : List Mut) (ht : ∀ m ∈ ms, m.target = ls) :
    (w.mutateAll ms).lookup name = some t := by
  apply frame_targets t name ms w hw
  intro m hm hmem
  rw [ht m hm] at hmem
  obtain ⟨items, rfl, hsub⟩ := regionsSlice_eq s start stop step next t n' h
  rcases mkRegions_ids items next ls hmem with h1 | h1 | ⟨v, hv, hi⟩
  · omega
  · omega
  · exact hls v (hsub v hv) hi


/-! ## E. equality sees every field -/

theorem eqRegion_node (t : Tol) (i j : Nat) (ca cb : String) (fa fb : Fields) :
    eqRegion t (.node i (.region ca) fa) (.node j (.region cb) fb) =
      if !isInstance cb ca then .ok false
      else if cmpKeys ca ≠ cmpKeys cb then .ok false
      else eqLoop t (cmpKeys ca) fa fb := rfl

/-- the loop says "equal" only if EVERY compared attribute of `self` exists in `other`, has the
same `shape` and compares equal (`np.any(a != b)` is `False`, no exception). -/
theorem eqLoop_true (t : Tol) (keys : List String) : ∀ (fa fb : Fields),
    eqLoop t keys fa fb = .ok true →
    ∀ kv ∈ fa.toList, kv.1 ∈ keys →
      ∃ vb, fb.get? kv.1 = some vb ∧ shapeOf kv.2 = shapeOf vb ∧ neV t kv.2 vb = .ok false
  | .nil, _, _, kv, hkv, _ => by simp [Fields.toList] at hkv
  | .cons key va rest, fb, h, kv, hkv, hk => by
    unfold eqLoop at h
    simp only [Fields.toList, List.mem_cons] at hkv
    by_cases hc : keys.contains key = true
    · rw [if_pos hc] at h
      cases hg : fb.get? key with
      | none => rw [hg] at h; simp at h
      | some vb =>
        rw [hg] at h
        simp only at h
        by_cases hs : shapeOf va = shapeOf vb
        · simp only [hs, ne_eq, not_true_eq_false, if_false] at h
          cases hn : neV t va vb with
          | error e =>
            rw [hn] at h
            cases e <;> simp at h
          | ok r =>
            rw [hn] at h
            cases r with
            | true => simp at h
            | false =>
              simp only at h
              rcases hkv with rfl | hkv
              · exact ⟨vb, hg, hs, hn⟩
              · exact eqLoop_true t keys rest fb h kv hkv hk
        · simp [hs] at h
    · rw [if_neg hc] at h
      rcases hkv with rfl | hkv
      · exact absurd (by simpa using hk) hc
      · exact eqLoop_true t keys rest fb h kv hkv hk

/-- **eq_detects_any_field** (contrapositive form).  If two regions compare equal then the
class test passed, the parameter lists agree, and EVERY shape parameter, `meta` and `visual`
has the same array shape and compared equal — no field is skipped, for any class and any number
of parameters. -/
theorem eq_true_all_fields (t : Tol) (i j : Nat) (ca cb : String) (fa fb : Fields)
    (h : eqRegion t (.node i (.region ca) fa) (.node j (.region cb) fb) = .ok true) :
    isInstance cb ca = true ∧ cmpKeys ca = cmpKeys cb ∧
    ∀ kv ∈ fa.toList, kv.1 ∈ cmpKeys ca →
      ∃ vb, fb.get? kv.1 = some vb ∧ shapeOf kv.2 = shapeOf vb ∧ neV t kv.2 vb = .ok false := by
  rw [eqRegion_node] at h
  by_cases h1 : isInstance cb ca = true
  · by_cases h2 : cmpKeys ca = cmpKeys cb
    · simp only [h1, Bool.not_true, Bool.false_eq_true, if_false, ne_eq, h2, not_true_eq_false] at h
      refine ⟨h1, h2, ?_⟩
      rw [← h2] at h
      exact eqLoop_true t _ fa fb h
    · simp [h1, h2] at h
  · simp [h1] at h

/-- **eq_detects_any_field.**  Any differing compared attribute — a shape parameter, `meta` or
`visual` whose array shape differs, for which `!=` answers `True`, or whose comparison fails —
makes `==` not answer `True`. -/
theorem eq_detects_any_field (t : Tol) (i j : Nat) (ca cb : String) (fa fb : Fields)
    (key : String) (va vb : V) (hk : key ∈ cmpKeys ca) (ha : (key, va) ∈ fa.toList)
    (hb : fb.get? key = some vb) (hne : shapeOf va ≠ shapeOf vb ∨ neV t va vb ≠ .ok false) :
    eqRegion t (.node i (.region ca) fa) (.node j (.region cb) fb) ≠ .ok true := by
  intro h
  obtain ⟨_, _, hall⟩ := eq_true_all_fields t i j ca cb fa fb h
  obtain ⟨vb', hg, hs, hn⟩ := hall (key, va) ha hk
  rw [hb] at hg; cases hg
  rcases hne with hne | hne
  · exact hne hs
  · exact hne hn

/-- a class that is not an instance of the other's class, or a different parameter list ⇒ `False`. -/
theorem eq_detects_class (t : Tol) (i j : Nat) (ca cb : String) (fa fb : Fields)
    (h : isInstance cb ca = false ∨ cmpKeys ca ≠ cmpKeys cb) :
    eqRegion t (.node i (.region ca) fa) (.node j (.region cb) fb) = .ok false := by
  rw [eqRegion_node]
  rcases h with h | h
  · simp [h]
  · by_cases h1 : isInstance cb ca = true <;> simp [h1, h]

/-- different concrete classes of the table never compare equal: either the class test fails
or the `_params` lists differ (a subclass always has other parameters than its base). -/
theorem table_distinct_classes :
    ∀ a ∈ classTable, ∀ b ∈ classTable, a.name ≠ b.name →
      isInstance b.name a.name = false ∨ cmpKeys a.name ≠ cmpKeys b.name := by
  decide +kernel


/-- no compared attribute of `self` is missing in `other`, and no comparison of two attributes of
the same shape raises anything but the `TypeError` / `ValueError` that `__eq__` catches. -/
def NoRaise (t : Tol) (keys : List String) (fa fb : Fields) : Prop :=
  ∀ kv ∈ fa.toList, kv.1 ∈ keys →
    ∃ vb, fb.get? kv.1 = some vb ∧
      (shapeOf kv.2 = shapeOf vb → ∀ e, neV t kv.2 vb = .error e → e = .typeError ∨ e = .valueError)

theorem eqLoop_false (t : Tol) (keys : List String) : ∀ (fa fb : Fields),
    NoRaise t keys fa fb →
    (∃ kv ∈ fa.toList, kv.1 ∈ keys ∧ ∃ vb, fb.get? kv.1 = some vb ∧
      (shapeOf kv.2 ≠ shapeOf vb ∨ neV t kv.2 vb ≠ .ok false)) →
    eqLoop t keys fa fb = .ok false
  | .nil, _, _, h => by simp [Fields.toList] at h
  | .cons key va rest, fb, hnr, h => by
    unfold eqLoop
    have hnr' : NoRaise t keys rest fb := fun kv hkv hk =>
      hnr kv (by simp [Fields.toList, hkv]) hk
    by_cases hc : keys.contains key = true
    · rw [if_pos hc]
      obtain ⟨vb, hg, he⟩ := hnr (key, va) (by simp [Fields.toList]) (by simpa using hc)
      simp only at hg he
      rw [hg]
      simp only
      by_cases hs : shapeOf va = shapeOf vb
      · simp only [hs, ne_eq, not_true_eq_false, if_false]
        cases hn : neV t va vb with
        | error e => rcases he hs e hn with rfl | rfl <;> rfl
        | ok r =>
          cases r with
          | true => rfl
          | false =>
            simp only
            apply eqLoop_false t keys rest fb hnr'
            obtain ⟨kv, hkv, hk, vb', hg', hne⟩ := h
            simp only [Fields.toList, List.mem_cons] at hkv
            rcases hkv with rfl | hkv
            · simp only at hg' hne
              rw [hg] at hg'; cases hg'
              rcases hne with hne | hne
              · exact absurd hs hne
              · exact absurd hn hne
            · exact ⟨kv, hkv, hk, vb', hg', hne⟩
      · simp [hs]
    · rw [if_neg hc]
      apply eqLoop_false t keys rest fb hnr'
      obtain ⟨kv, hkv, hk, rest'⟩ := h
      simp only [Fields.toList, List.mem_cons] at hkv
      rcases hkv with rfl | hkv
      · exact absurd (by simpa using hk) hc
      · exact ⟨kv, hkv, hk, rest'⟩

/-- `PixCoord(xs, ys)` with array coordinates. -/
def arrPix (i : Nat) (xs ys : List ℚ) : V :=
  .node i .pixcoord
    (.cons "x" (.node (i + 1) .array (listItems (xs.map fun q => V.atom (.num (.fin q)))))
    (.cons "y" (.node (i + 2) .array (listItems (ys.map fun q => V.atom (.num (.fin q))))) .nil))

/-- `PolygonPixelRegion(PixCoord(xs, ys))` with empty meta / visual (compared attributes only). -/
def polyPix (i : Nat) (xs ys : List ℚ) : V :=
  .node i (.region "PolygonPixelRegion")
    (.cons "vertices" (arrPix (i + 1) xs ys)
    (.cons "meta" (.node (i + 4) .rmeta .nil) (.cons "visual" (.node (i + 5) .rvisual .nil) .nil)))

def tolNumpy : Tol := ⟨1 / 100000, 1 / 100000000⟩

/-- the clause "equality fails as soon as any compared attribute differs", for operands whose
comparisons do not raise (`eq_detects_full` below shows that well-formed regions never do). -/
theorem eq_detects_partial (t : Tol) (i j : Nat) (c : String) (fa fb : Fields) (key : String)
    (va vb : V) (hnr : NoRaise t (cmpKeys c) fa fb)
    (hk : key ∈ cmpKeys c) (ha : (key, va) ∈ fa.toList) (hb : fb.get? key = some vb)
    (hne : shapeOf va ≠ shapeOf vb ∨ neV t va vb ≠ .ok false) :
    eqRegion t (.node i (.region c) fa) (.node j (.region c) fb) = .ok false := by
  rw [eqRegion_node]
  by_cases h1 : isInstance c c = true
  · simp only [h1, Bool.not_true, Bool.false_eq_true, if_false, ne_eq, not_true_eq_false]
    exact eqLoop_false t _ fa fb hnr ⟨(key, va), ha, hk, vb, hb, hne⟩
  · simp [h1]


/-! ## F. equality depends on content only (not on identities, not on the unit of a quantity) -/

/-- `==` never distinguishes `dict`, `RegionMeta` and `RegionVisual`. -/
def normKind : Kind → Kind
  | .rmeta | .rvisual => .dict
  | k => k

mutual
/-- content of a value: identities forgotten, every quantity expressed in the reference unit,
the three dict classes identified. -/
def norm : V → V
  | .atom a => .atom a
  | .node _ k fs =>
    match k with
    | .quantity => .node 0 .quantity
        (.cons "value" (.atom (.num (qprod fs))) (.cons "factor" (.atom (.num (.fin 1))) .nil))
    | _ => .node 0 (normKind k) (normF fs)
def normF : Fields → Fields
  | .nil => .nil
  | .cons key v r => .cons key (norm v) (normF r)
end

theorem norm_node_ne_qty (i : Nat) (k : Kind) (fs : Fields) (h : k ≠ .quantity) :
    norm (.node i k fs) = .node 0 (normKind k) (normF fs) := by
  cases k <;> first | rfl | exact absurd rfl h

theorem normF_get? : ∀ (fs : Fields) (key : String), (normF fs).get? key = (fs.get? key).map norm
  | .nil, _ => by simp [normF, Fields.get?]
  | .cons k v r, key => by
    simp only [normF, Fields.get?]
    split
    · rfl
    · exact normF_get? r key

theorem normF_length : ∀ fs : Fields, (normF fs).length = fs.length
  | .nil => rfl
  | .cons _ _ r => by simp [normF, Fields.length, normF_length r]

theorem normF_toList : ∀ fs : Fields,
    (normF fs).toList = fs.toList.map fun kv => (kv.1, norm kv.2)
  | .nil => rfl
  | .cons _ _ r => by simp [normF, Fields.toList, normF_toList r]

theorem normF_vals : ∀ fs : Fields, (normF fs).vals = fs.vals.map norm
  | .nil => rfl
  | .cons _ _ r => by simp [normF, Fields.vals, normF_vals r]

theorem normF_nums : ∀ fs : Fields, (normF fs).nums = fs.nums
  | .nil => rfl
  | .cons _ (.atom (.num x)) r => by simp [normF, norm, Fields.nums, normF_nums r]
  | .cons _ (.atom (.str _)) r => by simp [normF, norm, Fields.nums, normF_nums r]
  | .cons _ (.atom (.bool _)) r => by simp [normF, norm, Fields.nums, normF_nums r]
  | .cons _ (.atom .none) r => by simp [normF, norm, Fields.nums, normF_nums r]
  | .cons _ (.atom (.fn _)) r => by simp [normF, norm, Fields.nums, normF_nums r]
  | .cons _ (.atom .elided) r => by simp [normF, norm, Fields.nums, normF_nums r]
  | .cons _ (.node _ k fs) r => by
    by_cases hk : k = .quantity
    · subst hk; simp [normF, norm, Fields.nums, normF_nums r]
    · simp [normF, norm_node_ne_qty _ _ _ hk, Fields.nums, normF_nums r]

theorem coordList_norm (v : V) : coordList (norm v) = coordList v := by
  cases v with
  | atom a => rfl
  | node i k fs =>
    by_cases hk : k = .quantity
    · subst hk; rfl
    · rw [norm_node_ne_qty _ _ _ hk]
      cases k <;> simp [coordList, normF_nums, normKind]

theorem coord_norm (fs : Fields) (key : String) :
    ((normF fs).get? key).bind coordList = (fs.get? key).bind coordList := by
  rw [normF_get?]
  cases fs.get? key <;> simp [coordList_norm]

theorem arrOf_norm (fs : Fields) (key : String) :
    arrOf ((normF fs).get? key) = arrOf (fs.get? key) := by
  rw [normF_get?]
  cases h : fs.get? key with
  | none => rfl
  | some v =>
    cases v with
    | atom a => rfl
    | node i k gs =>
      by_cases hk : k = .quantity
      · subst hk; rfl
      · simp only [Option.map_some, norm_node_ne_qty _ _ _ hk]
        cases k <;> simp [arrOf, normF_nums, normKind]

theorem atomOf_norm (fs : Fields) (key : String) :
    atomOf ((normF fs).get? key) = atomOf (fs.get? key) := by
  rw [normF_get?]
  cases h : fs.get? key with
  | none => rfl
  | some v =>
    cases v with
    | atom a => rfl
    | node i k gs =>
      by_cases hk : k = .quantity
      · subst hk; rfl
      · simp only [Option.map_some, norm_node_ne_qty _ _ _ hk]; rfl

theorem Num.mul_one' (x : Num) : x.mul (.fin 1) = x := by
  cases x <;> simp [Num.mul]

theorem qprod_normQ (fs : Fields) :
    qprod (.cons "value" (.atom (.num (qprod fs))) (.cons "factor" (.atom (.num (.fin 1))) .nil))
      = qprod fs := by
  simp [qprod, Fields.get?, numOf, Num.mul_one']

/-- `valNe` on the contents. -/
theorem valNe_norm (a b : V) : valNe (norm a) (norm b) = valNe a b := by
  cases a with
  | atom x =>
    cases b with
    | atom y => rfl
    | node j kb fb =>
      by_cases hk : kb = .quantity
      · subst hk; rfl
      · rw [norm_node_ne_qty _ _ _ hk]; cases kb <;> rfl
  | node i ka fa =>
    by_cases hka : ka = .quantity
    · subst hka
      cases b with
      | atom y => rfl
      | node j kb fb =>
        by_cases hk : kb = .quantity
        · subst hk; rfl
        · rw [norm_node_ne_qty _ _ _ hk]; cases kb <;> rfl
    · rw [norm_node_ne_qty _ _ _ hka]
      cases b with
      | atom y => cases ka <;> rfl
      | node j kb fb =>
        by_cases hk : kb = .quantity
        · subst hk; cases ka <;> first | rfl | exact absurd rfl hka
        · rw [norm_node_ne_qty _ _ _ hk]
          cases ka <;> cases kb <;> try rfl
          -- list against list
          simp only [normKind, valNe, normF_vals, List.length_map]
          congr 1
          have : ∀ (la lb : List V),
              ((la.map norm).zip (lb.map norm)).any (fun ab => match ab with
                | (.atom a, .atom b) => atomNe a b
                | _ => true) =
              (la.zip lb).any (fun ab => match ab with
                | (.atom a, .atom b) => atomNe a b
                | _ => true) := by
            intro la
            induction la with
            | nil => intro lb; rfl
            | cons x la ih =>
              intro lb
              cases lb with
              | nil => rfl
              | cons y lb =>
                simp only [List.map_cons, List.zip_cons_cons, List.any_cons, ih lb]
                congr 1
                cases x with
                | atom ax =>
                  cases y with
                  | atom ay => rfl
                  | node jy ky fy =>
                    by_cases h : ky = .quantity
                    · subst h; rfl
                    · rw [norm_node_ne_qty _ _ _ h]; rfl
                | node ix kx fx =>
                  by_cases h : kx = .quantity
                  · subst h; rfl
                  · rw [norm_node_ne_qty _ _ _ h]
          exact this _ _


theorem shapeOf_norm (v : V) : shapeOf (norm v) = shapeOf v := by
  cases v with
  | atom a => rfl
  | node i k fs =>
    by_cases hk : k = .quantity
    · subst hk; rfl
    · rw [norm_node_ne_qty _ _ _ hk]
      cases k <;> simp [shapeOf, normKind, atomOf_norm, arrOf_norm, normF_length]

theorem nePix_norm (t : Tol) (fa fb : Fields) : nePix t (normF fa) (normF fb) = nePix t fa fb := by
  unfold nePix
  simp only [coord_norm]

theorem neSky_norm (fa fb : Fields) : neSky (normF fa) (normF fb) = neSky fa fb := by
  unfold neSky
  simp only [atomOf_norm, arrOf_norm]

theorem neDict_norm (fa fb : Fields) : neDict (normF fa) (normF fb) = neDict fa fb := by
  unfold neDict
  simp only [normF_length, normF_toList, List.any_map]
  by_cases hl : fa.length ≠ fb.length
  · simp [hl]
  · simp only [hl, if_false]
    congr 1
    funext kv
    simp only [Function.comp, normF_get?]
    cases fb.get? kv.1 with
    | none => rfl
    | some vb => simp [valNe_norm]

theorem norm_norm_qty (fs : Fields) :
    norm (.node 0 .quantity (.cons "value" (.atom (.num (qprod fs)))
      (.cons "factor" (.atom (.num (.fin 1))) .nil))) =
    .node 0 .quantity (.cons "value" (.atom (.num (qprod fs)))
      (.cons "factor" (.atom (.num (.fin 1))) .nil)) := by
  simp [norm, qprod_normQ]

mutual
/-- `!=` sees only the content of its operands. -/
theorem neV_norm (t : Tol) : ∀ (a b : V), neV t (norm a) (norm b) = neV t a b
  | .atom x, .atom y => rfl
  | .atom x, .node j kb fb => by
    by_cases hk : kb = .quantity
    · subst hk; rfl
    · rw [norm_node_ne_qty _ _ _ hk]; rfl
  | .node i ka fa, b => by
    by_cases hka : ka = .quantity
    · subst hka
      cases b with
      | atom y => rfl
      | node j kb fb =>
        by_cases hk : kb = .quantity
        · subst hk
          simp only [norm, neV, neQty, qprod_normQ]
        · rw [norm_node_ne_qty _ _ _ hk]; cases kb <;> first | rfl | exact absurd rfl hk
    · rw [norm_node_ne_qty _ _ _ hka]
      cases b with
      | atom y => cases ka <;> first | rfl | exact absurd rfl hka
      | node j kb fb =>
        by_cases hk : kb = .quantity
        · subst hk; cases ka <;> first | rfl | exact absurd rfl hka
        · rw [norm_node_ne_qty _ _ _ hk]
          cases ka with
          | quantity => exact absurd rfl hka
          | region ca =>
            cases kb <;> try rfl
            rename_i cb
            simp only [normKind, neV, eqLoop_norm t (cmpKeys ca) fa fb]
          | pixcoord => cases kb <;> first | rfl | exact absurd rfl hk | (simp only [normKind, neV, nePix_norm])
          | skycoord => cases kb <;> first | rfl | exact absurd rfl hk | (simp only [normKind, neV, neSky_norm])
          | dict => cases kb <;> first | rfl | exact absurd rfl hk | (simp only [normKind, neV, neDict_norm])
          | rmeta => cases kb <;> first | rfl | exact absurd rfl hk | (simp only [normKind, neV, neDict_norm])
          | rvisual => cases kb <;> first | rfl | exact absurd rfl hk | (simp only [normKind, neV, neDict_norm])
          | list =>
            cases kb <;> try first | rfl | exact absurd rfl hk
            simp only [normKind, neV]
            have := valNe_norm (.node 0 .list fa) (.node j .list fb)
            rw [norm_node_ne_qty _ _ _ (by decide), norm_node_ne_qty _ _ _ (by decide)] at this
            rw [← this]
            rfl
          | array => cases kb <;> first | rfl | exact absurd rfl hk | (simp only [normKind, neV, normF_nums])
          | regions => rfl
theorem eqLoop_norm (t : Tol) (keys : List String) :
    ∀ (fa fb : Fields), eqLoop t keys (normF fa) (normF fb) = eqLoop t keys fa fb
  | .nil, _ => rfl
  | .cons key va rest, fb => by
    simp only [normF, eqLoop, normF_get?]
    split
    · cases hg : fb.get? key with
      | none => rfl
      | some vb =>
        simp only [Option.map_some, shapeOf_norm, neV_norm t va vb, eqLoop_norm t keys rest fb]
    · exact eqLoop_norm t keys rest fb
end

theorem eqRegion_norm (t : Tol) (a b : V) : eqRegion t (norm a) (norm b) = eqRegion t a b := by
  cases a with
  | atom x => cases b <;> rfl
  | node i ka fa =>
    cases b with
    | atom y =>
      by_cases hka : ka = .quantity
      · subst hka; rfl
      · rw [norm_node_ne_qty _ _ _ hka]; cases ka <;> rfl
    | node j kb fb =>
      by_cases hka : ka = .quantity
      · subst hka
        by_cases hk : kb = .quantity
        · subst hk; rfl
        · rw [norm_node_ne_qty _ _ _ hk]; cases kb <;> rfl
      · by_cases hk : kb = .quantity
        · subst hk; rw [norm_node_ne_qty _ _ _ hka]; cases ka <;> rfl
        · rw [norm_node_ne_qty _ _ _ hka, norm_node_ne_qty _ _ _ hk]
          cases ka <;> cases kb <;> try rfl
          simp only [normKind, eqRegion, eqLoop_norm]

/-- two values with the same content are interchangeable in every comparison. -/
theorem eqRegion_congr (t : Tol) (a a' b b' : V) (ha : norm a = norm a') (hb : norm b = norm b') :
    eqRegion t a b = eqRegion t a' b' := by
  rw [← eqRegion_norm t a b, ← eqRegion_norm t a' b', ha, hb]


/-! ## G. copies are equal -/

theorem shiftF_get? (n : Nat) : ∀ (fs : Fields) (key : String),
    (fs.shift n).get? key = (fs.get? key).map (V.shift n)
  | .nil, _ => rfl
  | .cons k v r, key => by
    simp only [Fields.shift, Fields.get?]
    split
    · rfl
    · exact shiftF_get? n r key

theorem numOf_shift (n : Nat) (o : Option V) : numOf (o.map (V.shift n)) = numOf o := by
  cases o with
  | none => rfl
  | some v => cases v <;> rfl

theorem qprod_shift (n : Nat) (fs : Fields) : qprod (fs.shift n) = qprod fs := by
  simp [qprod, shiftF_get?, numOf_shift]

mutual
theorem norm_shift (n : Nat) : ∀ v : V, norm (v.shift n) = norm v
  | .atom _ => rfl
  | .node i k fs => by
    by_cases hk : k = .quantity
    · subst hk; simp [V.shift, norm, qprod_shift]
    · simp [V.shift, norm_node_ne_qty _ _ _ hk, normF_shift n fs]
theorem normF_shift (n : Nat) : ∀ fs : Fields, normF (fs.shift n) = normF fs
  | .nil => rfl
  | .cons _ v r => by simp [Fields.shift, normF, norm_shift n v, normF_shift n r]
end

/-- `copy.deepcopy(r)` is exactly as equal to `r` as `r` is to itself, both ways — for every
value (any class, compound nesting, polygons, …). -/
theorem deepcopy_eq (t : Tol) (bound next : Nat) (r : V) :
    eqRegion t r (deepcopy bound next r).1 = eqRegion t r r ∧
    eqRegion t (deepcopy bound next r).1 r = eqRegion t r r := by
  constructor
  · exact eqRegion_congr t _ _ _ _ rfl (by simp [deepcopy, norm_shift])
  · exact eqRegion_congr t _ _ _ _ (by simp [deepcopy, norm_shift]) rfl


theorem ofList_get? : ∀ (l : List (String × V)) (key : String),
    (Fields.ofList l).get? key = l.lookup key
  | [], _ => rfl
  | (k, v) :: r, key => by
    simp only [Fields.ofList, Fields.get?, List.lookup_cons]
    by_cases h : k = key
    · subst h; simp
    · have : (key == k) = false := by simpa using fun e : key = k => h e.symm
      simp [h, this, ofList_get? r key]

theorem lookup_map_self (f : String → V) : ∀ (l : List String) (p : String), p ∈ l →
    (l.map fun q => (q, f q)).lookup p = some (f p)
  | [], _, h => by simp at h
  | q :: l, p, h => by
    simp only [List.map_cons, List.lookup_cons]
    by_cases hq : p = q
    · subst hq; simp
    · have : (p == q) = false := by simpa using hq
      simp only [this]
      exact lookup_map_self f l p (by simpa [hq] using h)

theorem lookup_map_none (f : String → V) : ∀ (l : List String) (p : String), p ∉ l →
    (l.map fun q => (q, f q)).lookup p = none
  | [], _, _ => rfl
  | q :: l, p, h => by
    simp only [List.mem_cons, not_or] at h
    have : (p == q) = false := by simpa using h.1
    simp only [List.map_cons, List.lookup_cons, this]
    exact lookup_map_none f l p h.2

theorem lookup_append' (l₁ l₂ : List (String × V)) (key : String) :
    (l₁ ++ l₂).lookup key = match l₁.lookup key with
      | some v => some v
      | none => l₂.lookup key := by
  induction l₁ with
  | nil => rfl
  | cons kv l ih =>
    obtain ⟨k, v⟩ := kv
    simp only [List.cons_append, List.lookup_cons]
    cases key == k <;> simp [ih]

/-- what `Region.copy` passes to the constructor for a compared attribute: the caller's value
if the attribute is named in `changes`, otherwise a deep copy (a shifted isomorphic copy) of the
original's attribute. -/
theorem copyArgs_lookup (bound : Nat) (fs : Fields) (changes : List (String × V)) :
    ∀ (keys : List String) (next : Nat) (key : String), key ∈ keys → changes.lookup key = none →
      ∃ m, (copyArgs bound fs keys changes next).1.lookup key
        = some ((fs.getD key (.atom .none)).shift m)
  | [], _, _, h, _ => by simp at h
  | k :: rest, next, key, h, hc => by
    unfold copyArgs
    by_cases hk : key = k
    · subst hk
      simp only [hc, Option.isSome_none, Bool.false_eq_true, if_false, deepcopy]
      exact ⟨next, by simp⟩
    · have hr : key ∈ rest := by simpa [hk] using h
      split
      · exact copyArgs_lookup bound fs changes rest next key hr hc
      · simp only [deepcopy]
        have : (key == k) = false := by simpa using hk
        simp only [List.lookup_cons, this]
        exact copyArgs_lookup bound fs changes rest (next + bound) key hr hc

theorem copy_arg (bound : Nat) (fs : Fields) (changes : List (String × V)) (keys : List String)
    (next : Nat) (key : String) (hk : key ∈ keys) :
    ∃ m, lookup (changes ++ (copyArgs bound fs keys changes next).1) key =
      match changes.lookup key with
      | some v => v
      | none => (fs.getD key (.atom .none)).shift m := by
  unfold lookup
  rw [lookup_append']
  cases hc : changes.lookup key with
  | some v => exact ⟨0, rfl⟩
  | none =>
    obtain ⟨m, hm⟩ := copyArgs_lookup bound fs changes keys next key hk hc
    exact ⟨m, by simp [hm]⟩

/-- labels of the derived attributes of a regular polygon. -/
def regularExtras : List String :=
  ["_vertices", "exterior_angle", "inradius", "interior_angle", "origin", "perimeter",
   "side_length", "vertices"]

/-- the attributes the (non-polygon) constructors store: parameters as given, then `meta` and
`visual` through the class's meta rule; every compared attribute occurs once. -/
theorem construct_get (c : ClassInfo) (args : List (String × V)) (next : Nat) (r' : V) (n' : Nat)
    (h : construct c args next = .ok (r', n')) (hctor : c.ctor ≠ .polygon)
    (hm : "meta" ∉ c.params) (hv : "visual" ∉ c.params)
    (hext : c.ctor = .regularPolygon → ∀ k ∈ regularExtras, k ∉ c.params ++ ["meta", "visual"]) :
    ∃ i fs' b, r' = .node i (.region c.name) fs' ∧
      (∀ p ∈ c.params, fs'.get? p = some (lookup args p)) ∧
      fs'.get? "meta" = some (storeBoth c args b).1.1 ∧
      fs'.get? "visual" = some (storeBoth c args b).1.2 ∧
      (∀ kv ∈ fs'.toList, kv.1 ∈ c.params ++ ["meta", "visual"] → fs'.get? kv.1 = some kv.2) := by
  have key : ∀ (mv : (V × V) × Nat) (extras : List (String × V)),
      (∀ e ∈ extras, e.1 ∉ c.params ++ ["meta", "visual"]) →
      let fs' := Fields.ofList (pfields c args ++ ([("meta", mv.1.1), ("visual", mv.1.2)] ++ extras))
      (∀ p ∈ c.params, fs'.get? p = some (lookup args p)) ∧
      fs'.get? "meta" = some mv.1.1 ∧ fs'.get? "visual" = some mv.1.2 ∧
      (∀ kv ∈ fs'.toList, kv.1 ∈ c.params ++ ["meta", "visual"] → fs'.get? kv.1 = some kv.2) := by
    intro mv extras hex
    have h1 : ∀ p ∈ c.params, (Fields.ofList (pfields c args ++
        ([("meta", mv.1.1), ("visual", mv.1.2)] ++ extras))).get? p = some (lookup args p) := by
      intro p hp
      rw [ofList_get?, lookup_append']
      unfold pfields
      rw [lookup_map_self _ _ _ hp]
    have h2 : (Fields.ofList (pfields c args ++
        ([("meta", mv.1.1), ("visual", mv.1.2)] ++ extras))).get? "meta" = some mv.1.1 := by
      rw [ofList_get?, lookup_append']
      unfold pfields
      rw [lookup_map_none _ _ _ hm]
      simp
    have h3 : (Fields.ofList (pfields c args ++
        ([("meta", mv.1.1), ("visual", mv.1.2)] ++ extras))).get? "visual" = some mv.1.2 := by
      rw [ofList_get?, lookup_append']
      unfold pfields
      rw [lookup_map_none _ _ _ hv]
      have h1 : ("visual" == "meta") = false := by decide
      simp [List.lookup_cons, h1]
    refine ⟨h1, h2, h3, ?_⟩
    intro kv hkv hk
    rw [toList_ofList] at hkv
    simp only [List.mem_append, List.mem_cons, List.not_mem_nil, or_false] at hkv
    rcases hkv with hkv | (rfl | rfl) | hkv
    · unfold pfields at hkv
      simp only [List.mem_map] at hkv
      obtain ⟨p, hp, rfl⟩ := hkv
      exact h1 p hp
    · exact h2
    · exact h3
    · exact absurd hk (hex kv hkv)
  unfold construct at h
  split at h
  · cases h
  · split at h
    · cases h
    · split at h
      · cases h
        have := key (storeBoth c args (next + 1)) [] (by simp)
        simp only [List.append_nil] at this
        exact ⟨next, _, next + 1, rfl, this⟩
      · cases h
        have := key (storeBoth c args (next + 1)) [] (by simp)
        simp only [List.append_nil] at this
        exact ⟨next, _, next + 1, rfl, this⟩
      · rename_i hc; exact absurd hc hctor
      · rename_i hreg
        split at h
        · cases h
        · cases h
          have := key (storeBoth c args (next + 1 + 3))
            [("_vertices", pixElided (next + 1)),
             ("exterior_angle", qtyElided ((storeBoth c args (next + 1 + 3)).2 + 4)),
             ("inradius", .atom .elided),
             ("interior_angle", qtyElided ((storeBoth c args (next + 1 + 3)).2 + 5)),
             ("origin", pixZero (storeBoth c args (next + 1 + 3)).2),
             ("perimeter", .atom .elided), ("side_length", .atom .elided),
             ("vertices", pixElided ((storeBoth c args (next + 1 + 3)).2 + 1))]
            (by
              intro e he
              simp only [List.mem_cons, List.not_mem_nil, or_false] at he
              rcases he with rfl | rfl | rfl | rfl | rfl | rfl | rfl | rfl <;>
                exact hext hreg _ (by simp [regularExtras]))
          exact ⟨next, _, next + 1 + 3, rfl, this⟩

/-- a `dict`, `RegionMeta` or `RegionVisual` object. -/
def isDictNode : V → Bool
  | .node _ .dict _ | .node _ .rmeta _ | .node _ .rvisual _ => true
  | _ => false

theorem isDictNode_shift (n : Nat) (v : V) : isDictNode (v.shift n) = isDictNode v := by
  cases v with
  | atom a => rfl
  | node i k fs => cases k <;> rfl

/-- under the two sound meta rules the stored `meta` / `visual` has the content of the
argument (an empty argument is replaced by a fresh empty object, a plain dict is converted). -/
theorem storeMeta_norm (rule : MetaRule) (want : Kind) (hw : want = .rmeta ∨ want = .rvisual)
    (r1 arg : V) (next : Nat) (hd : isDictNode arg = true) :
    norm (storeMeta rule want r1 arg next).1 = norm arg := by
  cases arg with
  | atom a => simp [isDictNode] at hd
  | node i k fs =>
    cases rule with
    | keepIfGiven => rfl
    | orFresh =>
      rcases hw with rfl | rfl <;> cases k <;> simp [isDictNode] at hd <;>
        cases fs <;> simp [storeMeta, isEmptyDict, emptyDict, norm, normKind, normF]

/-- the value `r.copy(**changes)` is specified to hold in attribute `key`: the named value, or
the original's. -/
def expected (fa : Fields) (changes : List (String × V)) (key : String) : V :=
  match changes.lookup key with
  | some v => v
  | none => fa.getD key (.atom .none)

theorem table_lookup : ∀ c ∈ classTable, classInfo? c.name = some c := by decide +kernel

theorem table_meta_not_param : ∀ c ∈ classTable, "meta" ∉ c.params ∧ "visual" ∉ c.params := by
  decide +kernel

theorem table_extras : ∀ c ∈ classTable, c.ctor = .regularPolygon →
    ∀ k ∈ regularExtras, k ∉ c.params ++ ["meta", "visual"] := by
  decide +kernel

/-- FULL-STRENGTH clause "a copy with changes differs from the original in exactly the named
fields": every compared attribute of the copy has the content of the value named in `changes`,
or else of the original's attribute (classes whose constructor stores the parameters as given;
`PolygonPixelRegion`, which recomputes `vertices + origin`, is `copy_changes_exact_polygon`). -/
def copy_changes_exact_full : Prop :=
  ∀ c ∈ classTable, c.ctor ≠ .polygon →
  ∀ (bound next i : Nat) (fa : Fields) (changes : List (String × V)) (r' : V) (n' : Nat),
    copyRegion bound next (.node i (.region c.name) fa) changes = .ok (r', n') →
    isDictNode (expected fa changes "meta") = true →
    isDictNode (expected fa changes "visual") = true →
    ∀ key ∈ cmpKeys c.name,
      ∃ v, (fieldsOf r').get? key = some v ∧ norm v = norm (expected fa changes key)

/-- **copy_changes_exact**: the clause holds for every class of the table. -/
theorem copy_changes_exact (c : ClassInfo) (hc : c ∈ classTable) (hctor : c.ctor ≠ .polygon)
    (bound next i : Nat) (fa : Fields) (changes : List (String × V)) (r' : V) (n' : Nat)
    (h : copyRegion bound next (.node i (.region c.name) fa) changes = .ok (r', n'))
    (hdm : isDictNode (expected fa changes "meta") = true)
    (hdv : isDictNode (expected fa changes "visual") = true) :
    ∀ key ∈ cmpKeys c.name,
      ∃ v, (fieldsOf r').get? key = some v ∧ norm v = norm (expected fa changes key) := by
  have hci := table_lookup c hc
  obtain ⟨hm, hv⟩ := table_meta_not_param c hc
  have hkeys : cmpKeys c.name = c.params ++ ["meta", "visual"] := by simp [cmpKeys, paramsOf, hci]
  unfold copyRegion at h
  simp only [hci] at h
  obtain ⟨j, fs', b, rfl, hp, hgm, hgv, _⟩ := construct_get c _ _ r' n' h hctor hm hv (table_extras c hc)
  -- the argument passed for each compared key
  have harg : ∀ key ∈ cmpKeys c.name,
      norm (lookup (changes ++ (copyArgs bound fa (cmpKeys c.name) changes next).1) key)
        = norm (expected fa changes key) ∧
      (isDictNode (expected fa changes key) = true →
        isDictNode (lookup (changes ++ (copyArgs bound fa (cmpKeys c.name) changes next).1) key) = true) := by
    intro key hk
    obtain ⟨m, hm'⟩ := copy_arg bound fa changes (cmpKeys c.name) next key hk
    rw [hm']
    unfold expected
    cases changes.lookup key with
    | some v => exact ⟨rfl, id⟩
    | none => exact ⟨norm_shift m _, fun h => by rw [isDictNode_shift]; exact h⟩
  intro key hk
  have hk' := hk
  rw [hkeys] at hk'
  simp only [List.mem_append, List.mem_cons, List.not_mem_nil, or_false] at hk'
  simp only [fieldsOf]
  rcases hk' with hk' | rfl | rfl
  · exact ⟨_, hp key hk', (harg key hk).1⟩
  · refine ⟨_, hgm, ?_⟩
    unfold storeBoth
    simp only
    rw [storeMeta_norm _ _ (Or.inl rfl) _ _ _ ((harg "meta" hk).2 hdm)]
    exact (harg "meta" hk).1
  · refine ⟨_, hgv, ?_⟩
    unfold storeBoth
    simp only
    rw [storeMeta_norm _ _ (Or.inr rfl) _ _ _ ((harg "visual" hk).2 hdv)]
    exact (harg "visual" hk).1


/-- converse of `eqLoop_true`. -/
theorem eqLoop_all (t : Tol) (keys : List String) : ∀ (fa fb : Fields),
    (∀ kv ∈ fa.toList, kv.1 ∈ keys →
      ∃ vb, fb.get? kv.1 = some vb ∧ shapeOf kv.2 = shapeOf vb ∧ neV t kv.2 vb = .ok false) →
    eqLoop t keys fa fb = .ok true
  | .nil, _, _ => rfl
  | .cons key va rest, fb, h => by
    unfold eqLoop
    have hrest := eqLoop_all t keys rest fb (fun kv hkv hk => h kv (by simp [Fields.toList, hkv]) hk)
    by_cases hc : keys.contains key = true
    · rw [if_pos hc]
      obtain ⟨vb, hg, hs, hn⟩ := h (key, va) (by simp [Fields.toList]) (by simpa using hc)
      simp only at hg hs hn
      rw [hg]; simp only [hs, ne_eq, not_true_eq_false, if_false]; rw [hn]; exact hrest
    · rw [if_neg hc]; exact hrest

theorem get?_mem : ∀ (fs : Fields) (key : String) (v : V), fs.get? key = some v →
    (key, v) ∈ fs.toList
  | .nil, _, _, h => by simp [Fields.get?] at h
  | .cons k v0 r, key, v, h => by
    unfold Fields.get? at h
    simp only [Fields.toList, List.mem_cons]
    split at h
    · rename_i hk; cases h; subst hk; exact Or.inl rfl
    · exact Or.inr (get?_mem r key v h)

theorem isInstance_self (c : String) : isInstance c c = true := by simp [isInstance]

/-- **copy_eq** (every class of the table; `PolygonPixelRegion`, which recomputes its vertices, is
`copy_eq_polygon`).  If a region equals itself (no NaN parameter, see `eq_refl_partial`) then
`r.copy()` equals `r`, both ways round. -/
theorem copy_eq (c : ClassInfo) (hc : c ∈ classTable) (hctor : c.ctor ≠ .polygon) (t : Tol)
    (bound next i : Nat) (fa : Fields) (r' : V) (n' : Nat)
    (h : copyRegion bound next (.node i (.region c.name) fa) [] = .ok (r', n'))
    (hpres : ∀ key ∈ cmpKeys c.name, (fa.get? key).isSome = true)
    (hdm : isDictNode (fa.getD "meta" (.atom .none)) = true)
    (hdv : isDictNode (fa.getD "visual" (.atom .none)) = true)
    (hself : eqRegion t (.node i (.region c.name) fa) (.node i (.region c.name) fa) = .ok true) :
    eqRegion t (.node i (.region c.name) fa) r' = .ok true ∧
    eqRegion t r' (.node i (.region c.name) fa) = .ok true := by
  have hex := copy_changes_exact c hc hctor bound next i fa [] r' n' h
    (by simpa [expected] using hdm) (by simpa [expected] using hdv)
  -- shape of the copy
  have hci := table_lookup c hc
  obtain ⟨hm, hv⟩ := table_meta_not_param c hc
  have hkeys : cmpKeys c.name = c.params ++ ["meta", "visual"] := by simp [cmpKeys, paramsOf, hci]
  have h' := h
  unfold copyRegion at h'
  simp only [hci] at h'
  obtain ⟨j, fs', b, rfl, _, _, _, huniq⟩ :=
    construct_get c _ _ r' n' h' hctor hm hv (table_extras c hc)
  simp only [fieldsOf, expected, List.lookup_nil] at hex
  obtain ⟨_, _, hall⟩ := eq_true_all_fields t i i c.name c.name fa fa hself
  constructor
  · rw [eqRegion_node]
    simp only [isInstance_self, Bool.not_true, Bool.false_eq_true, if_false, ne_eq,
      not_true_eq_false]
    apply eqLoop_all
    intro kv hkv hk
    obtain ⟨v, hg, hn⟩ := hex kv.1 hk
    obtain ⟨v1, hg1, hs1, hn1⟩ := hall kv hkv hk
    rw [Fields.getD, hg1, Option.getD_some] at hn
    refine ⟨v, hg, ?_, ?_⟩
    · rw [hs1, ← shapeOf_norm v1, ← hn, shapeOf_norm]
    · rw [← neV_norm, hn, neV_norm]; exact hn1
  · rw [eqRegion_node]
    simp only [isInstance_self, Bool.not_true, Bool.false_eq_true, if_false, ne_eq,
      not_true_eq_false]
    apply eqLoop_all
    intro kv hkv hk
    have hfirst := huniq kv hkv (by rw [← hkeys]; exact hk)
    obtain ⟨v, hg, hn⟩ := hex kv.1 hk
    rw [hfirst] at hg; cases hg
    obtain ⟨va, hga⟩ := Option.isSome_iff_exists.mp (hpres kv.1 hk)
    obtain ⟨v1, hg1, hs1, hn1⟩ := hall (kv.1, va) (get?_mem fa kv.1 va hga) hk
    simp only at hg1 hs1 hn1
    rw [hga] at hg1; cases hg1
    rw [Fields.getD, hga, Option.getD_some] at hn
    refine ⟨va, hga, ?_, ?_⟩
    · rw [← shapeOf_norm, hn, shapeOf_norm]
    · rw [← neV_norm, hn, neV_norm]; exact hn1


/-! ## H. reflexivity -/

def isNumAtom : V → Bool
  | .atom (.num _) => true
  | _ => false

/-- a scalar that `==` can compare (anything but the placeholder for values the model elides). -/
def cmpAtom : V → Bool
  | .atom .elided => false
  | .atom _ => true
  | _ => false

/-- a meta / visual value: a scalar or a flat list of scalars. -/
def wfVal : V → Bool
  | .node _ .list fs => fs.vals.all cmpAtom
  | v => cmpAtom v

def wfArr : Option V → Bool
  | some (.node _ .array fs) => fs.vals.all isNumAtom
  | _ => false

mutual
/-- structural well-formedness of a value as the constructors build it (types of the
attributes, distinct labels); says nothing about the numbers. -/
def wf : V → Bool
  | .atom a => cmpAtom (.atom a)
  | .node _ k fs =>
    match k with
    | .region c => decide (fs.keys.filter (cmpKeys c).contains = cmpKeys c) && wfF (cmpKeys c) fs
    | .pixcoord =>
      match fs.get? "x", fs.get? "y" with
      | some (.atom (.num _)), some (.atom (.num _)) => true
      | some (.node _ .array xs), some (.node _ .array ys) =>
        xs.vals.all isNumAtom && ys.vals.all isNumAtom && decide (xs.nums.length = ys.nums.length)
      | _, _ => false
    | .quantity => isNumAtom (fs.getD "value" (.atom .none)) && isNumAtom (fs.getD "factor" (.atom .none))
    | .skycoord => wfArr (fs.get? "lon") && wfArr (fs.get? "lat") &&
        decide ((arrOf (fs.get? "lon")).length = (arrOf (fs.get? "lat")).length) &&
        decide (atomOf (fs.get? "scalar") = .bool true → (arrOf (fs.get? "lon")).length = 1)
    | .dict | .rmeta | .rvisual => decide fs.keys.Nodup && fs.vals.all wfVal
    | .list => fs.vals.all cmpAtom
    | .array => fs.vals.all isNumAtom
    | .regions => false
def wfF (keys : List String) : Fields → Bool
  | .nil => true
  | .cons k v r => (!keys.contains k || wf v) && wfF keys r
end

def atomIsNaN : Atom → Bool
  | .num .nan => true
  | _ => false

mutual
/-- no NaN anywhere in the value — the decidable predicate that excludes exactly the inputs on
which `==` is not reflexive. -/
def noNaN : V → Bool
  | .atom a => !atomIsNaN a
  | .node _ _ fs => noNaNF fs
def noNaNF : Fields → Bool
  | .nil => true
  | .cons _ v r => noNaN v && noNaNF r
end

theorem noNaNF_get? : ∀ (fs : Fields) (key : String) (v : V), noNaNF fs = true →
    fs.get? key = some v → noNaN v = true
  | .nil, _, _, _, h => by simp [Fields.get?] at h
  | .cons k v0 r, key, v, hn, h => by
    simp only [noNaNF, Bool.and_eq_true] at hn
    unfold Fields.get? at h
    split at h
    · cases h; exact hn.1
    · exact noNaNF_get? r key v hn.2 h

/-- all elements of a well-formed NaN-free array are finite numbers. -/
theorem nums_fin : ∀ (fs : Fields), fs.vals.all isNumAtom = true → noNaNF fs = true →
    ∀ x ∈ fs.nums, ∃ q, x = Num.fin q
  | .nil, _, _, x, hx => by simp [Fields.nums] at hx
  | .cons _ v r, hw, hn, x, hx => by
    simp only [Fields.vals, List.all_cons, Bool.and_eq_true] at hw
    simp only [noNaNF, Bool.and_eq_true] at hn
    cases v with
    | node i k fs => simp [isNumAtom] at hw
    | atom a =>
      cases a with
      | num y =>
        simp only [Fields.nums, List.mem_cons] at hx
        rcases hx with rfl | hx
        · cases x with
          | fin q => exact ⟨q, rfl⟩
          | nan => simp [noNaN, atomIsNaN] at hn
        · exact nums_fin r hw.2 hn.2 x hx
      | _ => simp [isNumAtom] at hw

theorem close_self (t : Tol) (hr : 0 ≤ t.rtol) (ha : 0 ≤ t.atol) (q : ℚ) :
    (Num.fin q).close t (Num.fin q) = true := by
  simp only [Num.close, sub_self, abs_zero, decide_eq_true_eq]
  have := abs_nonneg q
  positivity

theorem close2_self (t : Tol) (hr : 0 ≤ t.rtol) (ha : 0 ≤ t.atol) (q : ℚ) :
    (Num.fin q).close2 t (Num.fin q) = true := by
  simp [Num.close2, close_self t hr ha]

theorem bcastAll_self (p : Num → Num → Bool) (l : List Num) (h : ∀ x ∈ l, p x x = true) :
    bcastAll p l l = .ok true := by
  unfold bcastAll
  simp only [if_true]
  congr 1
  rw [List.all_eq_true]
  intro ab hab
  have : ab.1 = ab.2 := by
    have := List.of_mem_zip hab
    induction l with
    | nil => simp at hab
    | cons a l ih =>
      simp only [List.zip_cons_cons, List.mem_cons] at hab
      rcases hab with rfl | hab
      · rfl
      · exact ih (fun x hx => h x (by simp [hx])) hab (List.of_mem_zip hab)
  obtain ⟨a, b⟩ := ab
  simp only at this
  subst this
  exact h a (List.of_mem_zip hab).1

theorem atomNe_self (a : Atom) (h1 : cmpAtom (.atom a) = true) (h2 : atomIsNaN a = false) :
    atomNe a a = false := by
  cases a with
  | num x => cases x <;> simp_all [atomNe, Num.ne, atomIsNaN]
  | str s => simp [atomNe]
  | bool b => simp [atomNe]
  | none => rfl
  | fn f => simp [atomNe]
  | elided => simp [cmpAtom] at h1

theorem noNaNF_vals : ∀ (fs : Fields), noNaNF fs = true → ∀ v ∈ fs.vals, noNaN v = true
  | .nil, _, v, hv => by simp [Fields.vals] at hv
  | .cons _ v0 r, hn, v, hv => by
    simp only [noNaNF, Bool.and_eq_true] at hn
    simp only [Fields.vals, List.mem_cons] at hv
    rcases hv with rfl | hv
    · exact hn.1
    · exact noNaNF_vals r hn.2 v hv

theorem valNe_self (v : V) (hw : wfVal v = true) (hn : noNaN v = true) : valNe v v = false := by
  cases v with
  | atom a =>
    show atomNe a a = false
    exact atomNe_self a (by simpa [wfVal] using hw) (by simpa [noNaN] using hn)
  | node i k fs =>
    cases k <;> try (simp [wfVal, cmpAtom] at hw)
    simp only [valNe, ne_eq, not_true_eq_false, if_false]
    try simp only [wfVal] at hw
    simp only [noNaN] at hn
    rw [Bool.eq_false_iff]
    intro hany
    rw [List.any_eq_true] at hany
    obtain ⟨ab, hab, hne⟩ := hany
    have hmem := List.of_mem_zip hab
    have heq : ab.1 = ab.2 := by
      clear hne hmem hw hn
      generalize fs.vals = l at hab
      induction l with
      | nil => simp at hab
      | cons a l ih =>
        simp only [List.zip_cons_cons, List.mem_cons] at hab
        rcases hab with rfl | hab
        · rfl
        · exact ih hab
    obtain ⟨a, b⟩ := ab
    simp only at heq hmem
    subst heq
    have hc := hw a hmem.1
    have hnn := noNaNF_vals fs hn a hmem.1
    cases a with
    | node j kk gs => simp at hc
    | atom x =>
      simp only at hne
      rw [atomNe_self x (by simpa [cmpAtom] using hc) (by simpa [noNaN] using hnn)] at hne
      exact absurd hne (by simp)


theorem mem_keys_of_mem_toList : ∀ (fs : Fields) (k : String) (v : V), (k, v) ∈ fs.toList → k ∈ fs.keys
  | .nil, _, _, h => by simp [Fields.toList] at h
  | .cons k1 v1 r1, k, v, h => by
    simp only [Fields.toList, List.mem_cons] at h
    simp only [Fields.keys, List.mem_cons]
    rcases h with h | h
    · cases h; exact Or.inl rfl
    · exact Or.inr (mem_keys_of_mem_toList r1 k v h)

/-- with distinct (selected) labels, every selected entry is the one `getattr` finds. -/
theorem get?_of_nodup (p : String → Bool) : ∀ (fs : Fields) (k : String) (v : V),
    (fs.keys.filter p).Nodup → (k, v) ∈ fs.toList → p k = true → fs.get? k = some v
  | .nil, _, _, _, h, _ => by simp [Fields.toList] at h
  | .cons k0 v0 r, k, v, hnd, h, hp => by
    simp only [Fields.toList, List.mem_cons] at h
    unfold Fields.get?
    by_cases hk : k0 = k
    · subst hk
      rw [if_pos rfl]
      rcases h with h | h
      · cases h; rfl
      · exfalso
        simp only [Fields.keys, List.filter_cons, hp, if_true, List.nodup_cons] at hnd
        apply hnd.1
        rw [List.mem_filter]
        exact ⟨mem_keys_of_mem_toList r _ _ h, hp⟩
    · rw [if_neg hk]
      rcases h with h | h
      · cases h; exact absurd rfl hk
      · apply get?_of_nodup p r k v _ h hp
        simp only [Fields.keys, List.filter_cons] at hnd
        split at hnd
        · exact (List.nodup_cons.mp hnd).2
        · exact hnd

theorem toList_length : ∀ fs : Fields, fs.toList.length = fs.length
  | .nil => rfl
  | .cons _ _ r => by simp [Fields.toList, Fields.length, toList_length r]

theorem mem_vals_of_mem_toList : ∀ (fs : Fields) (kv : String × V), kv ∈ fs.toList → kv.2 ∈ fs.vals
  | .nil, _, h => by simp [Fields.toList] at h
  | .cons _ _ r, kv, h => by
    simp only [Fields.toList, List.mem_cons] at h
    simp only [Fields.vals, List.mem_cons]
    rcases h with rfl | h
    · exact Or.inl rfl
    · exact Or.inr (mem_vals_of_mem_toList r kv h)

theorem neDict_self (fs : Fields) (hk : fs.keys.Nodup) (hv : fs.vals.all wfVal = true)
    (hn : noNaNF fs = true) : neDict fs fs = false := by
  unfold neDict
  simp only [ne_eq, not_true_eq_false, if_false]
  rw [Bool.eq_false_iff]
  intro hany
  rw [List.any_eq_true] at hany
  obtain ⟨kv, hkv, hne⟩ := hany
  have hg : fs.get? kv.1 = some kv.2 :=
    get?_of_nodup (fun _ => true) fs kv.1 kv.2 (by simpa using hk) hkv rfl
  rw [hg] at hne
  simp only at hne
  have hm := mem_vals_of_mem_toList fs kv hkv
  rw [valNe_self kv.2 (List.all_eq_true.mp hv _ hm) (noNaNF_vals fs hn _ hm)] at hne
  exact absurd hne (by simp)

theorem all_close_self (t : Tol) (hr : 0 ≤ t.rtol) (ha : 0 ≤ t.atol) (l : List Num)
    (h : ∀ x ∈ l, ∃ q, x = Num.fin q) : bcastAll (Num.close2 t) l l = .ok true :=
  bcastAll_self _ l (fun x hx => by obtain ⟨q, rfl⟩ := h x hx; exact close2_self t hr ha q)

theorem all_exact_self (l : List Num) (h : ∀ x ∈ l, ∃ q, x = Num.fin q) :
    bcastAll (fun a b => !(a.ne b)) l l = .ok true :=
  bcastAll_self _ l (fun x hx => by obtain ⟨q, rfl⟩ := h x hx; simp [Num.ne])

theorem table_keys_nodup : ∀ c ∈ classTable, (c.params ++ ["meta", "visual"]).Nodup := by
  decide +kernel

theorem classInfo?_mem (cls : String) (c : ClassInfo) (h : classInfo? cls = some c) :
    c ∈ classTable ∧ c.name = cls := by
  unfold classInfo? at h
  exact ⟨List.mem_of_find?_eq_some h, by simpa using List.find?_some h⟩

/-- the compared attribute names of any class are distinct. -/
theorem cmpKeys_nodup (cls : String) : (cmpKeys cls).Nodup := by
  unfold cmpKeys paramsOf
  cases h : classInfo? cls with
  | none => decide
  | some c => exact table_keys_nodup c (classInfo?_mem cls c h).1

mutual
/-- `v != v` is `False` for every well-formed NaN-free value (any nesting of compounds, any
array / dict / list sizes), for any non-negative tolerances. -/
theorem neV_self (t : Tol) (hr : 0 ≤ t.rtol) (ha : 0 ≤ t.atol) :
    ∀ v : V, wf v = true → noNaN v = true → neV t v v = .ok false
  | .atom a, hw, hn => by
    show Except.ok (atomNe a a) = Except.ok false
    rw [atomNe_self a hw (by simpa [noNaN] using hn)]
  | .node i k fs, hw, hn => by
    simp only [noNaN] at hn
    cases k with
    | region c =>
      simp only [wf, Bool.and_eq_true, decide_eq_true_eq] at hw
      have hl : eqLoop t (cmpKeys c) fs fs = .ok true := by
        apply eqLoop_all
        intro kv hkv hk
        refine ⟨kv.2, get?_of_nodup _ fs kv.1 kv.2 (hw.1 ▸ cmpKeys_nodup c) hkv (by simpa using hk), rfl, ?_⟩
        exact loop_self t hr ha (cmpKeys c) fs hw.2 hn kv hkv hk
      simp [neV, isInstance_self, hl]
    | pixcoord =>
      simp only [wf] at hw
      simp only [neV, nePix]
      split at hw
      · rename_i x y hx hy
        rw [hx, hy]
        have hxn := noNaNF_get? fs "x" _ hn hx
        have hyn := noNaNF_get? fs "y" _ hn hy
        cases x with
        | nan => simp [noNaN, atomIsNaN] at hxn
        | fin qx =>
          cases y with
          | nan => simp [noNaN, atomIsNaN] at hyn
          | fin qy =>
            simp [coordList, bcastAll, close2_self t hr ha]
            rfl
      · rename_i i1 xs i2 ys hx hy
        rw [hx, hy]
        simp only [Bool.and_eq_true] at hw
        have hxn := noNaNF_get? fs "x" _ hn hx
        have hyn := noNaNF_get? fs "y" _ hn hy
        simp only [noNaN] at hxn hyn
        simp only [Option.bind_some, coordList, ne_eq, not_true_eq_false, or_self, if_false]
        rw [all_close_self t hr ha _ (nums_fin xs hw.1.1 hxn), all_close_self t hr ha _ (nums_fin ys hw.1.2 hyn)]
        rfl
      · simp at hw
    | quantity =>
      simp only [wf, Bool.and_eq_true, Fields.getD] at hw
      simp only [neV, neQty, qprod]
      cases hv : fs.get? "value" with
      | none => rw [hv] at hw; simp [isNumAtom] at hw
      | some v =>
        cases hf : fs.get? "factor" with
        | none => rw [hf] at hw; simp [isNumAtom] at hw
        | some f =>
          rw [hv, hf] at hw
          have hvn := noNaNF_get? fs "value" _ hn hv
          have hfn := noNaNF_get? fs "factor" _ hn hf
          cases v with
          | node _ _ _ => simp [isNumAtom] at hw
          | atom av =>
            cases f with
            | node _ _ _ => simp [isNumAtom] at hw
            | atom af =>
              cases av <;> try (simp [isNumAtom] at hw)
              cases af <;> try (simp [isNumAtom] at hw)
              rename_i x y
              cases x with
              | nan => simp [noNaN, atomIsNaN] at hvn
              | fin qx =>
                cases y with
                | nan => simp [noNaN, atomIsNaN] at hfn
                | fin qy => simp [numOf, Num.mul, Num.ne]
    | skycoord =>
      simp only [wf, Bool.and_eq_true] at hw
      simp only [neV, neSky, ne_eq, not_true_eq_false, if_false]
      have hlon : ∀ x ∈ arrOf (fs.get? "lon"), ∃ q, x = Num.fin q := by
        cases hg : fs.get? "lon" with
        | none => simp [arrOf]
        | some v =>
          have hw1 := hw.1.1.1
          rw [hg] at hw1
          cases v with
          | atom _ => simp [wfArr] at hw1
          | node j kk gs =>
            cases kk <;> try (simp [wfArr] at hw1)
            have := noNaNF_get? fs "lon" _ hn hg
            exact nums_fin gs (by simpa [wfArr] using hw1) (by simpa [noNaN] using this)
      have hlat : ∀ x ∈ arrOf (fs.get? "lat"), ∃ q, x = Num.fin q := by
        cases hg : fs.get? "lat" with
        | none => simp [arrOf]
        | some v =>
          have hw2 := hw.1.1.2
          rw [hg] at hw2
          cases v with
          | atom _ => simp [wfArr] at hw2
          | node j kk gs =>
            cases kk <;> try (simp [wfArr] at hw2)
            have := noNaNF_get? fs "lat" _ hn hg
            exact nums_fin gs (by simpa [wfArr] using hw2) (by simpa [noNaN] using this)
      rw [all_exact_self _ hlon, all_exact_self _ hlat]
      rfl
    | dict =>
      simp only [wf, Bool.and_eq_true, decide_eq_true_eq] at hw
      simp [neV, neDict_self fs hw.1 hw.2 hn]
    | rmeta =>
      simp only [wf, Bool.and_eq_true, decide_eq_true_eq] at hw
      simp [neV, neDict_self fs hw.1 hw.2 hn]
    | rvisual =>
      simp only [wf, Bool.and_eq_true, decide_eq_true_eq] at hw
      simp [neV, neDict_self fs hw.1 hw.2 hn]
    | list =>
      simp only [wf] at hw
      have := valNe_self (.node 0 .list fs) (by simpa [wfVal] using hw) (by simpa [noNaN] using hn)
      simp only [neV]
      have h2 : valNe (.node 0 .list fs) (.node i .list fs) = valNe (.node 0 .list fs) (.node 0 .list fs) := rfl
      rw [h2, this]
    | array =>
      simp only [wf] at hw
      simp only [neV]
      rw [all_exact_self _ (nums_fin fs hw hn)]
      rfl
    | regions => simp [wf] at hw
theorem loop_self (t : Tol) (hr : 0 ≤ t.rtol) (ha : 0 ≤ t.atol) (keys : List String) :
    ∀ fs : Fields, wfF keys fs = true → noNaNF fs = true →
      ∀ kv ∈ fs.toList, kv.1 ∈ keys → neV t kv.2 kv.2 = .ok false
  | .nil, _, _, kv, h, _ => by simp [Fields.toList] at h
  | .cons k v r, hw, hn, kv, h, hk => by
    simp only [wfF, Bool.and_eq_true, Bool.or_eq_true, Bool.not_eq_true'] at hw
    simp only [noNaNF, Bool.and_eq_true] at hn
    simp only [Fields.toList, List.mem_cons] at h
    rcases h with rfl | h
    · rcases hw.1 with hc | hc
      · simp only at hk
        have : keys.contains k = true := by simpa using hk
        rw [this] at hc; cases hc
      · exact neV_self t hr ha v hc hn.1
    · exact loop_self t hr ha keys r hw.2 hn.2 kv h hk
end


/-! ### concrete regions used as witnesses and non-vacuity examples -/

def scalarPix (i : Nat) (x y : Num) : V :=
  .node i .pixcoord (.cons "x" (.atom (.num x)) (.cons "y" (.atom (.num y)) .nil))

def wMeta (i : Nat) : V := .node i .rmeta (.cons "label" (.atom (.str "a")) .nil)
def wVisual (i : Nat) : V := .node i .rvisual (.cons "color" (.atom (.str "red")) .nil)

/-- `CirclePixelRegion(PixCoord(x, y), r, meta={'label': 'a'}, visual={'color': 'red'})`. -/
def wCircle (i : Nat) (x y r : Num) : V :=
  .node i (.region "CirclePixelRegion")
    (.cons "center" (scalarPix (i + 1) x y) (.cons "radius" (.atom (.num r))
    (.cons "meta" (wMeta (i + 2)) (.cons "visual" (wVisual (i + 3)) .nil))))

def quantity (i : Nat) (v : Num) (unit : String) (factor : ℚ) : V :=
  .node i .quantity (.cons "value" (.atom (.num v)) (.cons "unit" (.atom (.str unit))
    (.cons "factor" (.atom (.num (.fin factor))) .nil)))

def skyCoord (i : Nat) (frame : String) (lon lat : List ℚ) : V :=
  .node i .skycoord (.cons "frame" (.atom (.str frame))
    (.cons "lon" (.node (i + 1) .array (listItems (lon.map fun q => V.atom (.num (.fin q)))))
    (.cons "lat" (.node (i + 2) .array (listItems (lat.map fun q => V.atom (.num (.fin q)))))
    (.cons "scalar" (.atom (.bool true)) .nil))))

/-- `CircleSkyRegion(SkyCoord(lon, lat), radius, meta={'label': 'a'}, visual={'color': 'red'})`. -/
def wCircleSky (i : Nat) (lon lat : ℚ) (radius : V) : V :=
  .node i (.region "CircleSkyRegion")
    (.cons "center" (skyCoord (i + 1) "icrs" [lon] [lat]) (.cons "radius" radius
    (.cons "meta" (wMeta (i + 4)) (.cons "visual" (wVisual (i + 5)) .nil))))

/-- `c1 | c2` for two sky circles: `meta` / `visual` ARE `region1.meta` / `region1.visual`
(the same objects, ids 5 and 6). -/
def wCompoundSky : V :=
  .node 0 (.region "CompoundSkyRegion")
    (.cons "region1" (wCircleSky 1 10 20 (quantity 7 (.fin 1) "deg" 1))
    (.cons "region2" (wCircleSky 10 11 21 (quantity 17 (.fin 30) "arcmin" (1 / 60)))
    (.cons "operator" (.atom (.fn "or_"))
    (.cons "meta" (wMeta 5) (.cons "visual" (wVisual 6) .nil)))))

/-! ### reflexivity: full / refuted / partial -/

/-- FULL-STRENGTH clause "equality is reflexive": every well-formed region equals itself. -/
def eq_refl_full : Prop :=
  ∀ (t : Tol), 0 ≤ t.rtol → 0 ≤ t.atol → ∀ (i : Nat) (c : String) (fs : Fields),
    wf (.node i (.region c) fs) = true →
    eqRegion t (.node i (.region c) fs) (.node i (.region c) fs) = .ok true

/-- refuted on the model of the current code (finding F11c): a circle whose centre has a NaN
coordinate (`PixCoord(nan, 2)` is accepted) is not equal to itself. -/
theorem eq_refl_full_refuted : ¬ eq_refl_full := by
  intro h
  have := h tolNumpy (by decide +kernel) (by decide +kernel) 0 "CirclePixelRegion"
    (fieldsOf (wCircle 0 .nan (.fin 2) (.fin 3))) (by decide +kernel)
  revert this
  decide +kernel

/-- **eq_refl** (partial): every well-formed region WITHOUT NaN equals itself — any class, any
nesting of compound regions, any polygon size, any meta / visual content. -/
theorem eq_refl_partial (t : Tol) (hr : 0 ≤ t.rtol) (ha : 0 ≤ t.atol) (i : Nat) (c : String)
    (fs : Fields) (hw : wf (.node i (.region c) fs) = true)
    (hn : noNaN (.node i (.region c) fs) = true) :
    eqRegion t (.node i (.region c) fs) (.node i (.region c) fs) = .ok true := by
  have h := neV_self t hr ha _ hw hn
  simp only [neV, isInstance_self, Bool.not_true, Bool.false_eq_true, if_false, ne_eq,
    not_true_eq_false] at h
  rw [eqRegion_node]
  simp only [isInstance_self, Bool.not_true, Bool.false_eq_true, if_false, ne_eq,
    not_true_eq_false]
  cases hl : eqLoop t (cmpKeys c) fs fs with
  | error e => rw [hl] at h; cases h
  | ok r =>
    rw [hl] at h
    cases r with
    | true => rfl
    | false => simp at h

/-- the predicates of `eq_refl_partial` are satisfiable by non-trivial regions (a circle with
meta / visual entries; a compound of two sky circles given in different units). -/
example : wf (wCircle 0 (.fin 1) (.fin 2) (.fin 3)) = true ∧
    noNaN (wCircle 0 (.fin 1) (.fin 2) (.fin 3)) = true ∧
    wf wCompoundSky = true ∧ noNaN wCompoundSky = true := by decide +kernel

/-! ### copies are equal, copies with changes are exact: the full-strength clauses hold -/

/-- FULL-STRENGTH clause "a copy compares equal to the original", both ways round (for every
class of the table whose constructor stores its parameters as given; pixel polygons:
`copy_eq_polygon`). -/
def copy_eq_full : Prop :=
  ∀ c ∈ classTable, c.ctor ≠ .polygon → ∀ (t : Tol) (bound next i : Nat) (fa : Fields) (r' : V) (n' : Nat),
    copyRegion bound next (.node i (.region c.name) fa) [] = .ok (r', n') →
    (∀ key ∈ cmpKeys c.name, (fa.get? key).isSome = true) →
    isDictNode (fa.getD "meta" (.atom .none)) = true →
    isDictNode (fa.getD "visual" (.atom .none)) = true →
    eqRegion t (.node i (.region c.name) fa) (.node i (.region c.name) fa) = .ok true →
    eqRegion t (.node i (.region c.name) fa) r' = .ok true ∧
    eqRegion t r' (.node i (.region c.name) fa) = .ok true

/-- holds since commit 23f75f4 (`CompoundSkyRegion` keeps the meta / visual it is given; it was
refuted before by the copy of a compound sky region with a non-empty meta, finding F2c). -/
theorem copy_eq_full_holds : copy_eq_full :=
  fun c hc hctor t bound next i fa r' n' h hpres hdm hdv hself =>
    copy_eq c hc hctor t bound next i fa r' n' h hpres hdm hdv hself

/-- "a copy with changes differs from the original in exactly the named fields" holds as well. -/
theorem copy_changes_exact_full_holds : copy_changes_exact_full :=
  fun c hc hctor bound next i fa changes r' n' h hdm hdv =>
    copy_changes_exact c hc hctor bound next i fa changes r' n' h hdm hdv

/-- regression witness of F2c: the copy of the compound sky region (non-empty meta, shared with
`region1`) equals the original both ways, and its `meta` is a NEW object with the same content. -/
example : (match copyRegion 100 100 wCompoundSky [] with
    | .ok p => (eqRegion tolNumpy wCompoundSky p.1, eqRegion tolNumpy p.1 wCompoundSky,
        ((fieldsOf p.1).get? "meta").map norm)
    | .error _ => (.ok false, .ok false, none)) =
    (.ok true, .ok true, some (norm (wMeta 5))) := by
  decide +kernel

/-! ## I. symmetry -/

theorem Num.ne_comm (a b : Num) : a.ne b = b.ne a := by
  cases a <;> cases b <;> simp [Num.ne, eq_comm]

theorem atomNe_comm (a b : Atom) : atomNe a b = atomNe b a := by
  cases a <;> cases b <;> simp [atomNe, Num.ne_comm, bne_comm]

theorem zip_any_swap {α : Type} (f : α × α → Bool) (g : α × α → Bool)
    (h : ∀ a b, f (a, b) = g (b, a)) : ∀ (la lb : List α), (la.zip lb).any f = (lb.zip la).any g
  | [], lb => by cases lb <;> rfl
  | a :: la, [] => rfl
  | a :: la, b :: lb => by simp [List.zip_cons_cons, h a b, zip_any_swap f g h la lb]

theorem zip_all_swap {α : Type} (f : α × α → Bool) (g : α × α → Bool) :
    ∀ (la lb : List α), (∀ ab ∈ la.zip lb, f ab = g (ab.2, ab.1)) →
      (la.zip lb).all f = (lb.zip la).all g
  | [], lb, _ => by cases lb <;> rfl
  | a :: la, [], _ => rfl
  | a :: la, b :: lb, h => by
    simp only [List.zip_cons_cons, List.all_cons]
    rw [h (a, b) (by simp), zip_all_swap f g la lb (fun ab hab => h ab (by simp [hab]))]

theorem valNe_comm (a b : V) : valNe a b = valNe b a := by
  cases a with
  | atom x =>
    cases b with
    | atom y => exact atomNe_comm x y
    | node j kb fb => cases kb <;> rfl
  | node i ka fa =>
    cases b with
    | atom y => cases ka <;> rfl
    | node j kb fb =>
      cases ka <;> cases kb <;> try rfl
      simp only [valNe]
      by_cases hl : fa.vals.length = fb.vals.length
      · simp only [hl, ne_eq, not_true_eq_false, if_false]
        apply zip_any_swap
        intro x y
        cases x <;> cases y <;> simp [atomNe_comm]
      · have hl' : ¬ fb.vals.length = fa.vals.length := fun e => hl e.symm
        simp [hl, hl']

/-- the pairs of elements numpy compares when it broadcasts two 1-D arrays. -/
def bzip (la lb : List Num) : List (Num × Num) :=
  if la.length = lb.length then la.zip lb
  else match la, lb with
    | [a], _ => lb.map fun b => (a, b)
    | _, [b] => la.map fun a => (a, b)
    | _, _ => []

/-- swapping the operands of a broadcast comparison. -/
theorem bcastAll_symm (p q : Num → Num → Bool) (la lb : List Num)
    (h : ∀ ab ∈ bzip la lb, p ab.1 ab.2 = q ab.2 ab.1) : bcastAll p la lb = bcastAll q lb la := by
  unfold bcastAll
  unfold bzip at h
  by_cases hl : la.length = lb.length
  · simp only [hl, if_true] at h ⊢
    congr 1
    exact zip_all_swap _ _ la lb (fun ab hab => h ab hab)
  · have hl' : ¬ lb.length = la.length := fun e => hl e.symm
    simp only [hl, hl', if_false] at h ⊢
    match la, lb, hl, hl', h with
    | [a], [], _, _, h => rfl
    | [a], [b], hl, _, _ => simp at hl
    | [a], b :: c :: lb, _, _, h =>
      simp only
      congr 1
      rw [List.all_eq, List.all_eq]
      simp only [List.mem_cons, decide_eq_decide]
      constructor
      · intro hall x hx
        rw [← h (a, x) (by simpa using hx)]; exact hall x hx
      · intro hall x hx
        rw [h (a, x) (by simpa using hx)]; exact hall x hx
    | [], [b], _, _, h => rfl
    | a :: c :: la, [b], _, _, h =>
      simp only
      congr 1
      rw [List.all_eq, List.all_eq]
      simp only [List.mem_cons, decide_eq_decide]
      constructor
      · intro hall x hx
        rw [← h (x, b) (by simpa using hx)]; exact hall x hx
      · intro hall x hx
        rw [h (x, b) (by simpa using hx)]; exact hall x hx
    | [], [], hl, _, _ => simp at hl
    | [], b :: c :: lb, _, _, _ => rfl
    | a :: c :: la, [], _, _, _ => rfl
    | a :: c :: la, b :: d :: lb, _, _, _ => rfl


theorem neDict_false_iff (fa fb : Fields) : neDict fa fb = false ↔
    fa.length = fb.length ∧
    ∀ kv ∈ fa.toList, ∃ vb, fb.get? kv.1 = some vb ∧ valNe kv.2 vb = false := by
  unfold neDict
  by_cases hl : fa.length = fb.length
  · simp only [hl, ne_eq, not_true_eq_false, if_false, true_and]
    rw [List.any_eq_false]
    constructor
    · intro h kv hkv
      have := h kv hkv
      cases hg : fb.get? kv.1 with
      | none => rw [hg] at this; simp at this
      | some vb => rw [hg] at this; exact ⟨vb, rfl, by simpa using this⟩
    · intro h kv hkv
      obtain ⟨vb, hg, hv⟩ := h kv hkv
      rw [hg]; simp [hv]
  · simp [hl]

theorem keys_length : ∀ fs : Fields, fs.keys.length = fs.length
  | .nil => rfl
  | .cons _ _ r => by simp [Fields.keys, Fields.length, keys_length r]

theorem mem_toList_of_mem_keys : ∀ (fs : Fields) (k : String), k ∈ fs.keys → ∃ v, (k, v) ∈ fs.toList
  | .nil, _, h => by simp [Fields.keys] at h
  | .cons k1 v1 r, k, h => by
    simp only [Fields.keys, List.mem_cons] at h
    rcases h with rfl | h
    · exact ⟨v1, by simp [Fields.toList]⟩
    · obtain ⟨v, hv⟩ := mem_toList_of_mem_keys r k h
      exact ⟨v, by simp [Fields.toList, hv]⟩

theorem get?_some_mem_keys (fs : Fields) (k : String) (v : V) (h : fs.get? k = some v) :
    k ∈ fs.keys := mem_keys_of_mem_toList fs k v (get?_mem fs k v h)

theorem neDict_false_swap (fa fb : Fields) (ha : fa.keys.Nodup) (hb : fb.keys.Nodup)
    (h : neDict fa fb = false) : neDict fb fa = false := by
  rw [neDict_false_iff] at h ⊢
  obtain ⟨hl, hall⟩ := h
  refine ⟨hl.symm, ?_⟩
  -- every key of fa is a key of fb; equal sizes and distinct keys give the converse
  have hsub : fa.keys ⊆ fb.keys := by
    intro k hk
    obtain ⟨v, hv⟩ := mem_toList_of_mem_keys fa k hk
    obtain ⟨vb, hg, _⟩ := hall (k, v) hv
    exact get?_some_mem_keys fb k vb hg
  have hperm : fa.keys.Perm fb.keys :=
    (List.subperm_of_subset ha hsub).perm_of_length_le (by rw [keys_length, keys_length, hl])
  intro kv hkv
  have hk : kv.1 ∈ fa.keys := hperm.symm.subset (mem_keys_of_mem_toList fb kv.1 kv.2 hkv)
  obtain ⟨va, hva⟩ := mem_toList_of_mem_keys fa kv.1 hk
  obtain ⟨vb, hg, hne⟩ := hall (kv.1, va) hva
  have hgb : fb.get? kv.1 = some kv.2 :=
    get?_of_nodup (fun _ => true) fb kv.1 kv.2 (by simpa using hb) hkv rfl
  simp only at hg hne
  rw [hgb] at hg; cases hg
  refine ⟨va, get?_of_nodup (fun _ => true) fa kv.1 va (by simpa using ha) hva rfl, ?_⟩
  rw [valNe_comm]; exact hne

/-- `dict.__ne__` is symmetric (distinct keys, as in any Python dict). -/
theorem neDict_comm (fa fb : Fields) (ha : fa.keys.Nodup) (hb : fb.keys.Nodup) :
    neDict fa fb = neDict fb fa := by
  cases h1 : neDict fa fb with
  | false => exact (neDict_false_swap fa fb ha hb h1).symm
  | true =>
    cases h2 : neDict fb fa with
    | true => rfl
    | false => rw [neDict_false_swap fb fa hb ha h2] at h1; cases h1


theorem close2_comm (t : Tol) (a b : Num) : a.close2 t b = b.close2 t a := by
  simp [Num.close2, Bool.and_comm]

/-- `PixCoord.__ne__` is symmetric: the shape test is, and the tolerance is tested both ways. -/
theorem nePix_symm (t : Tol) (fa fb : Fields) : nePix t fa fb = nePix t fb fa := by
  unfold nePix
  generalize (fa.get? "x").bind coordList = oxa
  generalize (fa.get? "y").bind coordList = oya
  generalize (fb.get? "x").bind coordList = oxb
  generalize (fb.get? "y").bind coordList = oyb
  cases oxa with
  | none => cases oya <;> cases oxb <;> cases oyb <;> rfl
  | some pxa =>
    cases oya with
    | none => cases oxb <;> cases oyb <;> rfl
    | some pya =>
      cases oxb with
      | none => cases oyb <;> rfl
      | some pxb =>
        cases oyb with
        | none => rfl
        | some pyb =>
          obtain ⟨xa, sa⟩ := pxa
          obtain ⟨ya, sa'⟩ := pya
          obtain ⟨xb, sb⟩ := pxb
          obtain ⟨yb, sb'⟩ := pyb
          simp only
          have hx := bcastAll_symm (Num.close2 t) (Num.close2 t) xa xb
            (fun ab _ => close2_comm t ab.1 ab.2)
          have hy := bcastAll_symm (Num.close2 t) (Num.close2 t) ya yb
            (fun ab _ => close2_comm t ab.1 ab.2)
          rw [hx, hy]
          by_cases hs : sa ≠ sb ∨ xa.length ≠ xb.length
          · have hs' : sb ≠ sa ∨ xb.length ≠ xa.length := by
              rcases hs with h | h
              · exact Or.inl (fun e => h e.symm)
              · exact Or.inr (fun e => h e.symm)
            simp [hs, hs']
          · have hs' : ¬ (sb ≠ sa ∨ xb.length ≠ xa.length) := by
              intro h'
              apply hs
              rcases h' with h | h
              · exact Or.inl (fun e => h e.symm)
              · exact Or.inr (fun e => h e.symm)
            simp only [hs, hs', if_false]

/-- the same loop, written over the list of attribute names. -/
def eqKeys (t : Tol) : List String → Fields → Fields → Except Exc Bool
  | [], _, _ => .ok true
  | k :: ks, fa, fb =>
    match fa.get? k, fb.get? k with
    | some va, some vb =>
      if shapeOf va ≠ shapeOf vb then .ok false
      else
        match neV t va vb with
        | .ok true => .ok false
        | .ok false => eqKeys t ks fa fb
        | .error .typeError => .ok false
        | .error .valueError => .ok false
        | .error e => .error e
    | _, _ => .error .attributeError

theorem eqLoop_eqKeys_aux (t : Tol) (keys : List String) (full fb : Fields) : ∀ rest : Fields,
    (∀ kv ∈ rest.toList, keys.contains kv.1 = true → full.get? kv.1 = some kv.2) →
    eqLoop t keys rest fb = eqKeys t (rest.keys.filter keys.contains) full fb
  | .nil, _ => rfl
  | .cons key va rest, h => by
    have hrest := eqLoop_eqKeys_aux t keys full fb rest
      (fun kv hkv hk => h kv (by simp [Fields.toList, hkv]) hk)
    unfold eqLoop
    by_cases hc : keys.contains key = true
    · have hg := h (key, va) (by simp [Fields.toList]) hc
      simp only at hg
      simp only [hc, if_true, Fields.keys, List.filter_cons, eqKeys, hg]
      cases fb.get? key with
      | none => rfl
      | some vb =>
        simp only
        by_cases hs : shapeOf va = shapeOf vb
        · simp only [hs, ne_eq, not_true_eq_false, if_false]
          rcases hn : neV t va vb with e | r
          · cases e <;> rfl
          · cases r
            · exact hrest
            · rfl
        · simp [hs]
    · simp only [hc, Bool.false_eq_true, if_false, Fields.keys, List.filter_cons]
      exact hrest

theorem eqLoop_eqKeys (t : Tol) (keys : List String) (fa fb : Fields) (hk : keys.Nodup)
    (hf : fa.keys.filter keys.contains = keys) : eqLoop t keys fa fb = eqKeys t keys fa fb := by
  have := eqLoop_eqKeys_aux t keys fa fb fa
    (fun kv hkv hc => get?_of_nodup _ fa kv.1 kv.2 (by rw [hf]; exact hk) hkv hc)
  rw [this, hf]

theorem eqKeys_symm (t : Tol) (fa fb : Fields) : ∀ ks : List String,
    (∀ k ∈ ks, ∀ va vb, fa.get? k = some va → fb.get? k = some vb → neV t va vb = neV t vb va) →
    eqKeys t ks fa fb = eqKeys t ks fb fa
  | [], _ => rfl
  | k :: ks, h => by
    have ih := eqKeys_symm t fa fb ks (fun k' hk' => h k' (by simp [hk']))
    unfold eqKeys
    cases hga : fa.get? k with
    | none => cases fb.get? k <;> rfl
    | some va =>
      cases hgb : fb.get? k with
      | none => rfl
      | some vb =>
        simp only
        by_cases hs : shapeOf va = shapeOf vb
        · simp only [hs, ne_eq, not_true_eq_false, if_false]
          rw [h k (by simp) va vb hga hgb, ih]
        · have hs' : ¬ shapeOf vb = shapeOf va := fun e => hs e.symm
          simp [hs, hs']

theorem wfF_get (keys : List String) : ∀ (fs : Fields) (k : String) (v : V), wfF keys fs = true →
    (k, v) ∈ fs.toList → keys.contains k = true → wf v = true
  | .nil, _, _, _, h, _ => by simp [Fields.toList] at h
  | .cons k0 v0 r, k, v, hw, h, hk => by
    simp only [wfF, Bool.and_eq_true, Bool.or_eq_true, Bool.not_eq_true'] at hw
    simp only [Fields.toList, List.mem_cons] at h
    rcases h with h | h
    · cases h
      rcases hw.1 with hc | hc
      · rw [hk] at hc; cases hc
      · exact hc
    · exact wfF_get keys r k v hw.2 h hk

theorem isInstance_symm_of_keys (ca cb : String) (h : cmpKeys ca = cmpKeys cb) :
    isInstance cb ca = isInstance ca cb := by
  have tbl : ∀ c ∈ classTable, ∀ b ∈ c.bases, cmpKeys b ≠ cmpKeys c.name := by decide +kernel
  by_cases he : ca = cb
  · subst he; rfl
  · have he' : ¬ cb = ca := fun e => he e.symm
    unfold isInstance
    have h1 : (cb == ca) = false := by simpa using he'
    have h2 : (ca == cb) = false := by simpa using he
    rw [h1, h2]
    simp only [Bool.false_or]
    have side : ∀ x y : String, cmpKeys x = cmpKeys y →
        (match classInfo? y with
          | some c => c.bases.contains x
          | none => false) = false := by
      intro x y hxy
      cases hc : classInfo? y with
      | none => rfl
      | some c =>
        simp only
        obtain ⟨hm, hn⟩ := classInfo?_mem y c hc
        rw [Bool.eq_false_iff]
        intro hcon
        have := tbl c hm x (by simpa using hcon)
        rw [hn] at this
        exact this hxy
    exact (side ca cb h).trans (side cb ca h.symm).symm


theorem wf_region (i : Nat) (c : String) (fs : Fields) (h : wf (.node i (.region c) fs) = true) :
    fs.keys.filter (cmpKeys c).contains = cmpKeys c ∧ wfF (cmpKeys c) fs = true := by
  simpa [wf] using h

theorem wf_dictKeys (i : Nat) (k : Kind) (fs : Fields) (hk : k = .dict ∨ k = .rmeta ∨ k = .rvisual)
    (h : wf (.node i k fs) = true) : fs.keys.Nodup := by
  rcases hk with rfl | rfl | rfl <;> (simp [wf] at h; exact h.1)

mutual
/-- `a != b` and `b != a` give the same answer (value or exception) for all well-formed values. -/
theorem neV_symm (t : Tol) : ∀ (a b : V), wf a = true → wf b = true → neV t a b = neV t b a
  | .atom x, .atom y, _, _ => by simp [neV, atomNe_comm]
  | .atom x, .node j kb fb, _, _ => by cases kb <;> rfl
  | .node i ka fa, .atom y, _, _ => by cases ka <;> rfl
  | .node i ka fa, .node j kb fb, hwa, hwb => by
    cases ka with
    | region ca =>
      cases kb <;> try rfl
      rename_i cb
      simp only [neV]
      by_cases hkeys : cmpKeys ca = cmpKeys cb
      · have hinst := isInstance_symm_of_keys ca cb hkeys
        rw [hinst]
        by_cases hi : isInstance ca cb = true
        · simp only [hi, Bool.not_true, Bool.false_eq_true, if_false, ne_eq, hkeys,
            not_true_eq_false]
          obtain ⟨hfa, hwfa⟩ := wf_region i ca fa hwa
          obtain ⟨hfb, hwfb⟩ := wf_region j cb fb hwb
          have hnd := cmpKeys_nodup cb
          rw [← hkeys] at hfb hwfb
          rw [← hkeys]
          rw [eqLoop_eqKeys t _ fa fb (cmpKeys_nodup ca) hfa,
            eqLoop_eqKeys t _ fb fa (cmpKeys_nodup ca) hfb]
          rw [eqKeys_symm t fa fb (cmpKeys ca)]
          intro k hk va vb hga hgb
          have hmem := get?_mem fa k va hga
          have hkc : (cmpKeys ca).contains k = true := by simpa using hk
          apply symF t fa (k, va) hmem vb
          · exact wfF_get _ fa k va hwfa hmem hkc
          · exact wfF_get _ fb k vb hwfb (get?_mem fb k vb hgb) hkc
        · simp [hi]
      · have hkeys' : ¬ cmpKeys cb = cmpKeys ca := fun e => hkeys e.symm
        by_cases h1 : isInstance cb ca = true <;> by_cases h2 : isInstance ca cb = true <;>
          simp [h1, h2, hkeys, hkeys']
    | pixcoord =>
      cases kb <;> try rfl
      simp only [neV]
      exact nePix_symm t fa fb
    | quantity =>
      cases kb <;> try rfl
      simp only [neV, neQty, Num.ne_comm]
    | skycoord =>
      cases kb <;> try rfl
      simp only [neV, neSky]
      by_cases hx : atomOf (fa.get? "extra") = atomOf (fb.get? "extra")
      swap
      · have hx' : ¬ atomOf (fb.get? "extra") = atomOf (fa.get? "extra") := fun e => hx e.symm
        simp [hx, hx']
      simp only [hx, ne_eq, not_true_eq_false, if_false]
      by_cases hf : atomOf (fa.get? "frame") = atomOf (fb.get? "frame")
      · have hf' := hf.symm
        simp only [hf, ne_eq, not_true_eq_false, if_false]
        rw [bcastAll_symm (fun a b => !(a.ne b)) (fun a b => !(a.ne b)) (arrOf (fa.get? "lon"))
            (arrOf (fb.get? "lon")) (fun ab _ => by simp [Num.ne_comm]),
          bcastAll_symm (fun a b => !(a.ne b)) (fun a b => !(a.ne b)) (arrOf (fa.get? "lat"))
            (arrOf (fb.get? "lat")) (fun ab _ => by simp [Num.ne_comm])]
      · have hf' : ¬ atomOf (fb.get? "frame") = atomOf (fa.get? "frame") := fun e => hf e.symm
        simp [hf, hf']
    | dict =>
      cases kb <;> try rfl
      all_goals
        simp only [neV]
        rw [neDict_comm fa fb (wf_dictKeys i _ fa (by simp) hwa) (wf_dictKeys j _ fb (by simp) hwb)]
    | rmeta =>
      cases kb <;> try rfl
      all_goals
        simp only [neV]
        rw [neDict_comm fa fb (wf_dictKeys i _ fa (by simp) hwa) (wf_dictKeys j _ fb (by simp) hwb)]
    | rvisual =>
      cases kb <;> try rfl
      all_goals
        simp only [neV]
        rw [neDict_comm fa fb (wf_dictKeys i _ fa (by simp) hwa) (wf_dictKeys j _ fb (by simp) hwb)]
    | list =>
      cases kb <;> try rfl
      simp only [neV]
      have := valNe_comm (.node 0 .list fa) (.node j .list fb)
      have h1 : valNe (.node 0 .list fa) (.node j .list fb) = valNe (.node j .list fb) (.node 0 .list fa) := this
      have h2 : valNe (.node j .list fb) (.node 0 .list fa) = valNe (.node 0 .list fb) (.node i .list fa) := rfl
      rw [h1, h2]
    | array =>
      cases kb <;> try rfl
      simp only [neV]
      rw [bcastAll_symm (fun x y => !(x.ne y)) (fun x y => !(x.ne y)) fa.nums fb.nums
        (fun ab _ => by simp [Num.ne_comm])]
    | regions => cases kb <;> rfl
theorem symF (t : Tol) : ∀ (fs : Fields) (kv : String × V), kv ∈ fs.toList → ∀ b : V,
    wf kv.2 = true → wf b = true → neV t kv.2 b = neV t b kv.2
  | .nil, _, h, _, _, _ => by simp [Fields.toList] at h
  | .cons k v r, kv, h, b, hwa, hwb => by
    simp only [Fields.toList, List.mem_cons] at h
    rcases h with rfl | h
    · exact neV_symm t v b hwa hwb
    · exact symF t r kv h b hwa hwb
end


/-- `Region.__ne__` is what `!=` evaluates on two regions. -/
theorem neV_region (t : Tol) (i j : Nat) (ca cb : String) (fa fb : Fields) :
    neV t (.node i (.region ca) fa) (.node j (.region cb) fb) =
      neRegion t (.node i (.region ca) fa) (.node j (.region cb) fb) := by
  simp only [neV, neRegion, eqRegion_node]
  by_cases h1 : isInstance cb ca = true
  · by_cases h2 : cmpKeys ca = cmpKeys cb
    · simp [h1, h2]
    · simp [h1, h2]
  · simp [h1]

theorem neRegion_inj (t : Tol) (a b a' b' : V) (h : neRegion t a b = neRegion t a' b') :
    eqRegion t a b = eqRegion t a' b' := by
  unfold neRegion at h
  cases h1 : eqRegion t a b with
  | error e =>
    rw [h1] at h
    cases h2 : eqRegion t a' b' with
    | error e' => rw [h2] at h; simp only at h; cases h; rfl
    | ok r' => rw [h2] at h; simp at h
  | ok r =>
    rw [h1] at h
    cases h2 : eqRegion t a' b' with
    | error e' => rw [h2] at h; simp at h
    | ok r' =>
      rw [h2] at h
      simp only [Except.ok.injEq] at h
      cases r <;> cases r' <;> simp_all

/-- FULL-STRENGTH clause "equality is symmetric": `a == b` and `b == a` agree — same truth
value, or the same exception — for all well-formed regions of any classes, compound nestings and
sizes, at ANY tolerances. -/
def eq_symm_full : Prop :=
  ∀ (t : Tol) (i j : Nat) (ca cb : String) (fa fb : Fields),
    wf (.node i (.region ca) fa) = true → wf (.node j (.region cb) fb) = true →
    eqRegion t (.node i (.region ca) fa) (.node j (.region cb) fb) =
      eqRegion t (.node j (.region cb) fb) (.node i (.region ca) fa)

/-- **eq_symm.**  Holds since commit 7cc5a6b (`PixCoord.__eq__` tests `np.allclose` both ways
round); before, it was refuted by `x = 1` against `x' = 1 + 1.001005e-5` (finding F15). -/
theorem eq_symm_full_holds : eq_symm_full := by
  intro t i j ca cb fa fb hwa hwb
  apply neRegion_inj
  rw [← neV_region, ← neV_region]
  exact neV_symm t _ _ hwa hwb

/-- regression witness of F15: `x = 1` against `x' = 1 + 1.001005e-5` lies between the two
one-way tolerances; both orders now answer `False`. -/
example :
    eqRegion tolNumpy (wCircle 0 (.fin 1) (.fin 2) (.fin 3))
      (wCircle 10 (.fin (1 + 1001005 / 100000000000)) (.fin 2) (.fin 3)) = .ok false ∧
    eqRegion tolNumpy (wCircle 10 (.fin (1 + 1001005 / 100000000000)) (.fin 2) (.fin 3))
      (wCircle 0 (.fin 1) (.fin 2) (.fin 3)) = .ok false ∧
    Num.close tolNumpy (.fin 1) (.fin (1 + 1001005 / 100000000000)) = true ∧
    Num.close tolNumpy (.fin (1 + 1001005 / 100000000000)) (.fin 1) = false := by
  decide +kernel

/-- inside the tolerance both ways (`x = 1` against `1 + 5e-6`) the regions are equal. -/
example : wf (wCircle 0 (.fin 1) (.fin 2) (.fin 3)) = true ∧
    eqRegion tolNumpy (wCircle 0 (.fin 1) (.fin 2) (.fin 3))
      (wCircle 10 (.fin (1 + 5 / 1000000)) (.fin 2) (.fin 3)) = .ok true := by
  decide +kernel

/-- the symmetric element test in closed form: within `atol + rtol·|b|` AND within
`atol + rtol·|a|`. -/
theorem close2_iff (t : Tol) (a b : ℚ) :
    (Num.fin a).close2 t (.fin b) = true ↔
      |a - b| ≤ t.atol + t.rtol * |b| ∧ |a - b| ≤ t.atol + t.rtol * |a| := by
  simp [Num.close2, Num.close, abs_sub_comm b a]

/-- why one `np.allclose` is not enough (the band of the former finding F15):
`isclose(a, b) ≠ isclose(b, a)` iff `|a − b|` lies between the two tolerances. -/
theorem close_asymm_iff (t : Tol) (a b : ℚ) :
    (Num.fin a).close t (.fin b) ≠ (Num.fin b).close t (.fin a) ↔
      (t.atol + t.rtol * |a| < |a - b| ∧ |a - b| ≤ t.atol + t.rtol * |b|) ∨
      (t.atol + t.rtol * |b| < |a - b| ∧ |a - b| ≤ t.atol + t.rtol * |a|) := by
  simp only [Num.close, ne_eq, decide_eq_decide]
  rw [abs_sub_comm b a]
  constructor
  · intro h
    by_cases h1 : |a - b| ≤ t.atol + t.rtol * |b|
    · left
      refine ⟨?_, h1⟩
      by_contra h2
      exact h ⟨fun _ => not_lt.mp h2, fun _ => h1⟩
    · right
      refine ⟨not_le.mp h1, ?_⟩
      by_contra h2
      exact h ⟨fun h3 => absurd h3 h1, fun h3 => absurd h3 h2⟩
  · rintro (⟨h1, h2⟩ | ⟨h1, h2⟩) h
    · exact absurd (h.mp h2) (not_le.mpr h1)
    · exact absurd (h.mpr h2) (not_le.mpr h1)


/-! ## J. unit re-expression -/

mutual
/-- re-express every `Quantity` inside a value in another unit: `g` maps the old unit name to the
new unit name and its size in degrees; the value becomes `value·factor / factor'`. -/
def reunit (g : Atom → String × ℚ) : V → V
  | .atom a => .atom a
  | .node i k fs =>
    match k with
    | .quantity =>
      let u := g (atomOf (fs.get? "unit"))
      quantity i ((qprod fs).mul (.fin (1 / u.2))) u.1 u.2
    | _ => .node i k (reunitF g fs)
def reunitF (g : Atom → String × ℚ) : Fields → Fields
  | .nil => .nil
  | .cons key v r => .cons key (reunit g v) (reunitF g r)
end

theorem qprod_quantity (i : Nat) (v : Num) (u : String) (f : ℚ) :
    qprod (fieldsOf (quantity i v u f)) = v.mul (.fin f) := by
  simp [quantity, fieldsOf, qprod, Fields.get?, numOf]

theorem Num.mul_div_cancel (x : Num) (f : ℚ) (hf : f ≠ 0) :
    (x.mul (.fin (1 / f))).mul (.fin f) = x := by
  cases x with
  | nan => rfl
  | fin q => simp [Num.mul, hf]

mutual
theorem norm_reunit (g : Atom → String × ℚ) (hg : ∀ a, (g a).2 ≠ 0) :
    ∀ v : V, norm (reunit g v) = norm v
  | .atom _ => rfl
  | .node i k fs => by
    by_cases hk : k = .quantity
    · subst hk
      simp only [reunit, norm, quantity]
      have := qprod_quantity i ((qprod fs).mul (.fin (1 / (g (atomOf (fs.get? "unit"))).2)))
        (g (atomOf (fs.get? "unit"))).1 (g (atomOf (fs.get? "unit"))).2
      simp only [quantity, fieldsOf] at this
      rw [this, Num.mul_div_cancel _ _ (hg _)]
    · have : reunit g (.node i k fs) = .node i k (reunitF g fs) := by cases k <;> first | rfl | exact absurd rfl hk
      rw [this, norm_node_ne_qty _ _ _ hk, norm_node_ne_qty _ _ _ hk, normF_reunit g hg fs]
theorem normF_reunit (g : Atom → String × ℚ) (hg : ∀ a, (g a).2 ≠ 0) :
    ∀ fs : Fields, normF (reunitF g fs) = normF fs
  | .nil => rfl
  | .cons _ v r => by simp [reunitF, normF, norm_reunit g hg v, normF_reunit g hg r]
end

/-- **eq_unit_insensitive.**  Re-expressing the angular quantities of either operand in any
units (every quantity possibly in a different one, at any depth of compound nesting) never
changes the answer of `==`. -/
theorem eq_unit_insensitive (t : Tol) (g g' : Atom → String × ℚ) (hg : ∀ a, (g a).2 ≠ 0)
    (hg' : ∀ a, (g' a).2 ≠ 0) (a b : V) :
    eqRegion t (reunit g a) (reunit g' b) = eqRegion t a b :=
  eqRegion_congr t _ _ _ _ (norm_reunit g hg a) (norm_reunit g' hg' b)

/-- in particular a region equals its own re-expression as soon as it equals itself. -/
theorem eq_unit_insensitive_self (t : Tol) (g : Atom → String × ℚ) (hg : ∀ a, (g a).2 ≠ 0) (a : V)
    (h : eqRegion t a a = .ok true) :
    eqRegion t a (reunit g a) = .ok true ∧ eqRegion t (reunit g a) a = .ok true := by
  constructor
  · rw [eqRegion_congr t a a (reunit g a) a rfl (norm_reunit g hg a)]; exact h
  · rw [eqRegion_congr t (reunit g a) a a a (norm_reunit g hg a) rfl]; exact h

/-- everything to arcseconds (factor 1/3600): the sky compound with radii `1 deg` and `30 arcmin`
becomes `3600 arcsec` and `1800 arcsec` and still equals the original. -/
example : let g : Atom → String × ℚ := fun _ => ("arcsec", 1 / 3600)
    reunit g (quantity 7 (.fin 1) "deg" 1) = quantity 7 (.fin 3600) "arcsec" (1 / 3600) ∧
    eqRegion tolNumpy wCompoundSky (reunit g wCompoundSky) = .ok true := by
  decide +kernel

/-- the scalar case spelled out: `v·f = v'·f'` ⇔ the quantities are equal. -/
theorem ne_quantity (t : Tol) (i j : Nat) (v v' : ℚ) (u u' : String) (f f' : ℚ) :
    neV t (quantity i (.fin v) u f) (quantity j (.fin v') u' f') = .ok (decide (v * f ≠ v' * f')) := by
  simp [neV, neQty, quantity, qprod, Fields.get?, numOf, Num.mul, Num.ne]



/-! ## K. what "differs" means at the leaves: tolerances, vertex counts, dict entries -/

theorem nums_listItems (xs : List ℚ) :
    (listItems (xs.map fun q => V.atom (.num (.fin q)))).nums = xs.map Num.fin := by
  induction xs with
  | nil => rfl
  | cons q xs ih =>
    simp only [listItems, List.map_cons, Fields.ofList, Fields.nums] at ih ⊢
    rw [ih]

theorem get?_xy (a b : V) :
    (Fields.cons "x" a (.cons "y" b .nil)).get? "x" = some a ∧
    (Fields.cons "x" a (.cons "y" b .nil)).get? "y" = some b := by
  constructor
  · simp [Fields.get?]
  · have : ¬ ("x" = "y") := by decide
    simp [Fields.get?, this]

/-- `!=` on two `PixCoord` arrays: `True` when the lengths differ (no broadcasting), otherwise the
negated two-way `allclose` of both coordinates. -/
theorem ne_arrPix (t : Tol) (i j : Nat) (xa ya xb yb : List ℚ) :
    neV t (arrPix i xa ya) (arrPix j xb yb) =
      if xa.length ≠ xb.length then .ok true
      else (do
        let cx ← bcastAll (Num.close2 t) (xa.map Num.fin) (xb.map Num.fin)
        let cy ← bcastAll (Num.close2 t) (ya.map Num.fin) (yb.map Num.fin)
        pure (!(cx && cy))) := by
  simp only [arrPix, neV, nePix, (get?_xy _ _).1, (get?_xy _ _).2, Option.bind_some, coordList,
    nums_listItems, ne_eq, not_true_eq_false, false_or, List.length_map]

/-- `!=` on two scalar `PixCoord`s. -/
theorem ne_scalarPix (t : Tol) (i j : Nat) (xa ya xb yb : Num) :
    neV t (scalarPix i xa ya) (scalarPix j xb yb) = .ok (!(xa.close2 t xb && ya.close2 t yb)) := by
  simp only [scalarPix, neV, nePix, (get?_xy _ _).1, (get?_xy _ _).2, Option.bind_some, coordList,
    ne_eq, not_true_eq_false, or_self, if_false, bcastAll, List.length_cons, List.length_nil, if_true,
    List.zip_cons_cons, List.zip_nil_right, List.all_cons, List.all_nil, Bool.and_true]
  rfl

/-- a pixel position OUTSIDE the documented tolerance in one coordinate — relative to either
operand — is a difference: `!=` answers `True`. -/
theorem pix_outside_tolerance (t : Tol) (i j : Nat) (xa ya xb yb : ℚ)
    (h : t.atol + t.rtol * |xb| < |xa - xb| ∨ t.atol + t.rtol * |xa| < |xa - xb| ∨
         t.atol + t.rtol * |yb| < |ya - yb| ∨ t.atol + t.rtol * |ya| < |ya - yb|) :
    neV t (scalarPix i (.fin xa) (.fin ya)) (scalarPix j (.fin xb) (.fin yb)) = .ok true := by
  rw [ne_scalarPix]
  congr 1
  rw [Bool.not_eq_true', Bool.and_eq_false_iff, ← Bool.not_eq_true, ← Bool.not_eq_true, close2_iff,
    close2_iff]
  rcases h with h | h | h | h
  · exact Or.inl (fun hc => absurd hc.1 (not_le.mpr h))
  · exact Or.inl (fun hc => absurd hc.2 (not_le.mpr h))
  · exact Or.inr (fun hc => absurd hc.1 (not_le.mpr h))
  · exact Or.inr (fun hc => absurd hc.2 (not_le.mpr h))

/-- a pixel position INSIDE the tolerance (relative to both operands) in both coordinates is no
difference. -/
theorem pix_inside_tolerance (t : Tol) (i j : Nat) (xa ya xb yb : ℚ)
    (hx : |xa - xb| ≤ t.atol + t.rtol * |xb| ∧ |xa - xb| ≤ t.atol + t.rtol * |xa|)
    (hy : |ya - yb| ≤ t.atol + t.rtol * |yb| ∧ |ya - yb| ≤ t.atol + t.rtol * |ya|) :
    neV t (scalarPix i (.fin xa) (.fin ya)) (scalarPix j (.fin xb) (.fin yb)) = .ok false := by
  rw [ne_scalarPix, (close2_iff t xa xb).mpr hx, (close2_iff t ya yb).mpr hy]
  rfl

/-- every other number is compared exactly. -/
theorem ne_number (t : Tol) (x y : ℚ) :
    neV t (.atom (.num (.fin x))) (.atom (.num (.fin y))) = .ok (decide (x ≠ y)) := by
  simp [neV, atomNe, Num.ne]

/-- FULL-STRENGTH clause for the vertex count: polygons with different numbers of vertices are
not equal. -/
def eq_detects_vertex_count_full : Prop :=
  ∀ (t : Tol) (i j : Nat) (xa ya xb yb : List ℚ), xa.length = ya.length → xb.length = yb.length →
    xa.length ≠ xb.length → eqRegion t (polyPix i xa ya) (polyPix j xb yb) = .ok false

/-- holds since commit 4b5524a (shape test in `PixCoord.__eq__` / `Region.__eq__`); before, 3
against 4 vertices raised `ValueError` (F22) and 1 against n equal vertices compared equal (F22b). -/
theorem eq_detects_vertex_count_full_holds : eq_detects_vertex_count_full := by
  intro t i j xa ya xb yb _ _ hne
  have hk : cmpKeys "PolygonPixelRegion" = ["vertices", "meta", "visual"] := by decide
  have hi : isInstance "PolygonPixelRegion" "PolygonPixelRegion" = true := by decide
  have hc : (["vertices", "meta", "visual"] : List String).contains "vertices" = true := by decide
  have hnev := ne_arrPix t (i + 1) (j + 1) xa ya xb yb
  rw [if_pos hne] at hnev
  simp only [polyPix, eqRegion_node, hi, hk, Bool.not_true, Bool.false_eq_true, if_false, ne_eq,
    not_true_eq_false]
  unfold eqLoop
  simp only [hc, if_true, Fields.get?, hnev]
  rfl

/-- regression witnesses of F22 / F22b (pixel): both answer `False` now, both ways round. -/
example :
    eqRegion tolNumpy (polyPix 0 [0, 1, 2] [0, 1, 0]) (polyPix 10 [0, 1, 2, 3] [0, 1, 0, 1]) = .ok false ∧
    eqRegion tolNumpy (polyPix 10 [0, 1, 2, 3] [0, 1, 0, 1]) (polyPix 0 [0, 1, 2] [0, 1, 0]) = .ok false ∧
    eqRegion tolNumpy (polyPix 0 [1] [2]) (polyPix 10 [1, 1, 1] [2, 2, 2]) = .ok false ∧
    eqRegion tolNumpy (polyPix 10 [1, 1, 1] [2, 2, 2]) (polyPix 0 [1] [2]) = .ok false := by
  decide +kernel

/-! #### meta / visual entries -/

/-- a changed value under an existing key is a difference. -/
theorem neDict_value (fa fb : Fields) (k : String) (va vb : V) (ha : (k, va) ∈ fa.toList)
    (hb : fb.get? k = some vb) (hne : valNe va vb = true) : neDict fa fb = true := by
  unfold neDict
  split
  · rfl
  · rw [List.any_eq_true]
    exact ⟨(k, va), ha, by simp [hb, hne]⟩

/-- a key present on one side only is a difference. -/
theorem neDict_missing (fa fb : Fields) (k : String) (va : V) (ha : (k, va) ∈ fa.toList)
    (hb : fb.get? k = none) : neDict fa fb = true := by
  unfold neDict
  split
  · rfl
  · rw [List.any_eq_true]
    exact ⟨(k, va), ha, by simp [hb]⟩

/-- an added or removed entry changes the size: a difference. -/
theorem neDict_size (fa fb : Fields) (h : fa.length ≠ fb.length) : neDict fa fb = true := by
  unfold neDict; simp [h]


/-! ## L. the hypotheses of the conditional theorems are satisfiable (non-vacuity) -/

/-- executable form of `NoRaise`. -/
def noRaise (t : Tol) (keys : List String) (fa fb : Fields) : Bool :=
  fa.toList.all fun kv =>
    !keys.contains kv.1 ||
      match fb.get? kv.1 with
      | some vb =>
        decide (shapeOf kv.2 ≠ shapeOf vb) ||
        (match neV t kv.2 vb with
          | .error .typeError => true
          | .error .valueError => true
          | .error _ => false
          | .ok _ => true)
      | none => false

theorem NoRaise_of_bool (t : Tol) (keys : List String) (fa fb : Fields)
    (h : noRaise t keys fa fb = true) : NoRaise t keys fa fb := by
  intro kv hkv hk
  unfold noRaise at h
  rw [List.all_eq_true] at h
  have := h kv hkv
  have hc : keys.contains kv.1 = true := by simpa using hk
  simp only [hc, Bool.not_true, Bool.false_or] at this
  cases hg : fb.get? kv.1 with
  | none => rw [hg] at this; cases this
  | some vb =>
    rw [hg] at this
    refine ⟨vb, rfl, ?_⟩
    intro hs e he
    simp only [hs, ne_eq, not_true_eq_false, decide_false, Bool.false_or, he] at this
    cases e <;> first | exact Or.inl rfl | exact Or.inr rfl | cases this

/-- `eq_detects_partial`: two circles that differ in the radius only (3 against 3.000001). -/
example : noRaise tolNumpy (cmpKeys "CirclePixelRegion")
      (fieldsOf (wCircle 0 (.fin 1) (.fin 2) (.fin 3)))
      (fieldsOf (wCircle 10 (.fin 1) (.fin 2) (.fin (3 + 1 / 1000000)))) = true ∧
    eqRegion tolNumpy (wCircle 0 (.fin 1) (.fin 2) (.fin 3))
      (wCircle 10 (.fin 1) (.fin 2) (.fin (3 + 1 / 1000000))) = .ok false := by
  decide +kernel

/-- `copy_disjoint`, `mutate_copy_preserves_original`: the copy of the witness circle
(objects 0–3, allocation counter 4) consists of the objects 20, 5, 14, 19, and the mutation
sequence "`c.center.x = 7`; `c.meta['label'] = ['t', <new list 30>]`; `c.meta['label'].append('u')`;
`c.visual.clear()`; `c.radius = 9`" is admissible. -/
example : ∃ c n', copyRegion 4 4 (wCircle 0 (.fin 1) (.fin 2) (.fin 3)) [] = .ok (c, n') ∧
    (∀ i ∈ (wCircle 0 (.fin 1) (.fin 2) (.fin 3)).ids, i < 4) ∧
    c.ids = [20, 5, 14, 19] ∧
    Admissible (wCircle 0 (.fin 1) (.fin 2) (.fin 3)) c
      [⟨5, .set "x" (.atom (.num (.fin 7)))⟩,
       ⟨14, .set "label" (.node 30 .list (.cons "" (.atom (.str "t")) .nil))⟩,
       ⟨30, .append (.atom (.str "u"))⟩,
       ⟨19, .clear⟩,
       ⟨20, .set "radius" (.atom (.num (.fin 9)))⟩] := by
  refine ⟨_, _, rfl, by decide, by decide +kernel, ?_⟩
  simp only [Admissible]
  decide +kernel

/-- `copy_eq` / `copy_changes_exact`: the witness circle meets every hypothesis. -/
example :
    (⟨"CirclePixelRegion", ["center", "radius"], [], .orFresh, .plain⟩ : ClassInfo) ∈ classTable ∧
    (∀ key ∈ cmpKeys "CirclePixelRegion",
      ((fieldsOf (wCircle 0 (.fin 1) (.fin 2) (.fin 3))).get? key).isSome = true) ∧
    isDictNode ((fieldsOf (wCircle 0 (.fin 1) (.fin 2) (.fin 3))).getD "meta" (.atom .none)) = true ∧
    isDictNode ((fieldsOf (wCircle 0 (.fin 1) (.fin 2) (.fin 3))).getD "visual" (.atom .none)) = true ∧
    eqRegion tolNumpy (wCircle 0 (.fin 1) (.fin 2) (.fin 3)) (wCircle 0 (.fin 1) (.fin 2) (.fin 3))
      = .ok true := by
  decide +kernel

/-- a `Regions` object with two regions (objects 40, 41). -/
def wRegions : V :=
  .node 40 .regions (.cons "regions" (.node 41 .list
    (listItems [wCircle 0 (.fin 1) (.fin 2) (.fin 3), wCircle 10 (.fin 4) (.fin 5) (.fin 6)])) .nil)

/-- `slice_copy_independent`: `T = S[::-1]` is the new objects 50 / 51 around the same two
regions in reverse order; `T.append(S[0]); T.pop(0); T.reverse()` touches only object 51. -/
example : (∀ i ∈ wRegions.ids, i < 50) ∧
    (∃ t n', regionsSlice wRegions none none (some (-1)) 50 = .ok (t, n') ∧
      t.ids.take 2 = [50, 51] ∧ (regionsItems t).map (fun v => v.ids.head!) = [10, 0]) ∧
    (∀ m ∈ ([⟨51, .append (wCircle 0 (.fin 1) (.fin 2) (.fin 3))⟩, ⟨51, .pop 0⟩, ⟨51, .reverse⟩] : List Mut),
      m.target = 50 ∨ m.target = 50 + 1) := by
  refine ⟨by decide, ⟨_, _, rfl, by decide +kernel, by decide +kernel⟩, ?_⟩
  intro m hm
  simp only [List.mem_cons, List.not_mem_nil, or_false] at hm
  rcases hm with rfl | rfl | rfl <;> simp

/-! ## M. `PolygonPixelRegion.copy()`: `vertices + origin` is recomputed, with equal content -/

def atomNum (x : Num) : V := .atom (.num x)

/-- a `PixCoord` holding two coordinate arrays (any numbers, NaN included). -/
def arrPixN (j jx jy : Nat) (xs ys : List Num) : V :=
  .node j .pixcoord (.cons "x" (.node jx .array (listItems (xs.map atomNum)))
    (.cons "y" (.node jy .array (listItems (ys.map atomNum))) .nil))

theorem nums_listItemsN (xs : List Num) : (listItems (xs.map atomNum)).nums = xs := by
  induction xs with
  | nil => rfl
  | cons q xs ih =>
    simp only [listItems, List.map_cons, Fields.ofList, Fields.nums, atomNum] at ih ⊢
    rw [ih]

theorem shift_listItemsN (n : Nat) (xs : List Num) :
    (listItems (xs.map atomNum)).shift n = listItems (xs.map atomNum) := by
  induction xs with
  | nil => rfl
  | cons q xs ih =>
    simp only [listItems, List.map_cons, Fields.ofList, Fields.shift, atomNum, V.shift] at ih ⊢
    rw [ih]

theorem shift_arrPixN (n j jx jy : Nat) (xs ys : List Num) :
    (arrPixN j jx jy xs ys).shift n = arrPixN (j + n) (jx + n) (jy + n) xs ys := by
  simp [arrPixN, V.shift, Fields.shift, shift_listItemsN]

theorem Num.add_zero' (x : Num) : x.add (.fin 0) = x := by
  cases x <;> simp [Num.add]

/-- `array + 0` is a new array with the same elements. -/
theorem addCoord_zero (jx id : Nat) (xs : List Num) :
    addCoord (.node jx .array (listItems (xs.map atomNum))) (.atom (.num (.fin 0))) id =
      .node id .array (listItems (xs.map atomNum)) := by
  simp only [addCoord, coordList, nums_listItemsN, Bool.false_and, Bool.false_eq_true, if_false,
    List.length_cons, List.length_nil, Nat.zero_add, if_true, List.headD_cons]
  congr 2
  apply List.ext_getElem
  · by_cases h1 : xs.length = 1 <;> simp [h1]
  · intro k h1 h2
    simp only [List.getElem_map, List.getElem_range, atomNum]
    have hk : k < xs.length := by simpa using h2
    congr 2
    by_cases hl : xs.length = 1
    · have hk0 : k = 0 := by omega
      subst hk0
      cases xs with
      | nil => simp at hk
      | cons a rest => simp [hl, Num.add_zero']
    · simp [hl, List.getD_eq_getElem?_getD, List.getElem?_eq_getElem hk, Num.add_zero']

theorem pixAdd_zero (j jx jy n m : Nat) (xs ys : List Num) :
    (pixAdd (arrPixN j jx jy xs ys) (pixZero n) m).1 = arrPixN m (m + 1) (m + 2) xs ys := by
  simp only [pixAdd, arrPixN, pixZero, Fields.getD, (get?_xy _ _).1, (get?_xy _ _).2,
    Option.getD_some, addCoord_zero]

theorem norm_arrPixN (j jx jy j' jx' jy' : Nat) (xs ys : List Num) :
    norm (arrPixN j jx jy xs ys) = norm (arrPixN j' jx' jy' xs ys) := by
  simp [arrPixN, norm, normF, normKind]


def polygonInfo : ClassInfo := ⟨"PolygonPixelRegion", ["vertices"], [], .orFresh, .polygon⟩

/-- the compared attributes `PolygonPixelRegion.__init__` stores when `origin` is not passed. -/
theorem construct_polygon (args : List (String × V)) (next : Nat) (r' : V) (n' : Nat)
    (h : construct polygonInfo args next = .ok (r', n')) (ho : args.lookup "origin" = none) :
    ∃ fs' b n m, r' = .node next (.region "PolygonPixelRegion") fs' ∧
      fs'.get? "vertices" = some (pixAdd (lookup args "vertices") (pixZero n) m).1 ∧
      fs'.get? "meta" = some (storeBoth polygonInfo args b).1.1 ∧
      fs'.get? "visual" = some (storeBoth polygonInfo args b).1.2 ∧
      (∀ kv ∈ fs'.toList, kv.1 ∈ ["vertices", "meta", "visual"] → fs'.get? kv.1 = some kv.2) := by
  unfold construct at h
  split at h
  · cases h
  · split at h
    · cases h
    · simp only [polygonInfo] at h
      cases h
      refine ⟨_, next + 1, (storeBoth polygonInfo args (next + 1)).2,
        (storeBoth polygonInfo args (next + 1)).2 + 1, rfl, ?_, ?_, ?_, ?_⟩
      · simp [buildPolygon, originArg, ho, Fields.ofList, Fields.get?, polygonInfo]
      · have : ¬ ("vertices" = "meta") := by decide
        simp [buildPolygon, Fields.ofList, Fields.get?, this, polygonInfo]
      · have h1 : ¬ ("vertices" = "visual") := by decide
        have h2 : ¬ ("meta" = "visual") := by decide
        simp [buildPolygon, Fields.ofList, Fields.get?, h1, h2, polygonInfo]
      · intro kv hkv hk
        have h1 : ¬ ("vertices" = "meta") := by decide
        have h2 : ¬ ("vertices" = "visual") := by decide
        have h3 : ¬ ("meta" = "visual") := by decide
        simp only [buildPolygon, Fields.ofList, Fields.toList, List.mem_cons, List.not_mem_nil,
          or_false] at hkv
        simp only [List.mem_cons, List.not_mem_nil, or_false] at hk
        rcases hkv with rfl | rfl | rfl | rfl | rfl
        · simp [buildPolygon, Fields.ofList, Fields.get?]
        · simp [buildPolygon, Fields.ofList, Fields.get?, h1]
        · simp [buildPolygon, Fields.ofList, Fields.get?, h2, h3]
        · simp only at hk
          have : ¬ ("_vertices" = "vertices" ∨ "_vertices" = "meta" ∨ "_vertices" = "visual") := by decide
          exact absurd hk this
        · simp only at hk
          have : ¬ ("origin" = "vertices" ∨ "origin" = "meta" ∨ "origin" = "visual") := by decide
          exact absurd hk this

/-- **copy_eq for pixel polygons.**  `vertices` of the copy is a NEW `PixCoord` with NEW arrays
(`deepcopy(vertices) + PixCoord(0, 0)`) holding the same numbers; if the polygon equals itself,
the copy equals it both ways.  Any number of vertices, any meta / visual. -/
theorem copy_eq_polygon (t : Tol) (bound next i : Nat) (fa : Fields) (r' : V) (n' : Nat)
    (j jx jy : Nat) (xs ys : List Num)
    (hv : fa.get? "vertices" = some (arrPixN j jx jy xs ys))
    (hm : ∃ v, fa.get? "meta" = some v ∧ isDictNode v = true)
    (hvis : ∃ v, fa.get? "visual" = some v ∧ isDictNode v = true)
    (h : copyRegion bound next (.node i (.region "PolygonPixelRegion") fa) [] = .ok (r', n'))
    (hself : eqRegion t (.node i (.region "PolygonPixelRegion") fa)
      (.node i (.region "PolygonPixelRegion") fa) = .ok true) :
    eqRegion t (.node i (.region "PolygonPixelRegion") fa) r' = .ok true ∧
    eqRegion t r' (.node i (.region "PolygonPixelRegion") fa) = .ok true := by
  have hci : classInfo? "PolygonPixelRegion" = some polygonInfo := by decide
  have hkeys : cmpKeys "PolygonPixelRegion" = ["vertices", "meta", "visual"] := by decide
  unfold copyRegion at h
  simp only [hci] at h
  have hor : (([] : List (String × V)) ++
      (copyArgs bound fa (cmpKeys "PolygonPixelRegion") [] next).1).lookup "origin" = none := by
    simp only [hkeys, copyArgs, List.lookup_nil, Option.isSome_none, Bool.false_eq_true, if_false,
      deepcopy, List.nil_append, List.lookup_cons]
    have e1 : ("origin" == "vertices") = false := by decide
    have e2 : ("origin" == "meta") = false := by decide
    have e3 : ("origin" == "visual") = false := by decide
    simp [e1, e2, e3]
  obtain ⟨fs', b, n, m, rfl, hgv, hgm, hgvis, huniq⟩ := construct_polygon _ _ r' n' h hor
  -- the constructor arguments: deep copies of the original's attributes
  have harg : ∀ key ∈ cmpKeys "PolygonPixelRegion", ∃ k,
      lookup ([] ++ (copyArgs bound fa (cmpKeys "PolygonPixelRegion") [] next).1) key =
        (fa.getD key (.atom .none)).shift k := by
    intro key hk
    obtain ⟨k, hk'⟩ := copy_arg bound fa [] (cmpKeys "PolygonPixelRegion") next key hk
    exact ⟨k, by simpa using hk'⟩
  -- content of the three compared attributes of the copy
  have hex : ∀ key ∈ cmpKeys "PolygonPixelRegion",
      ∃ v, fs'.get? key = some v ∧ norm v = norm (fa.getD key (.atom .none)) := by
    intro key hk
    have hk' := hk
    rw [hkeys] at hk'
    simp only [List.mem_cons, List.not_mem_nil, or_false] at hk'
    obtain ⟨k, hka⟩ := harg key hk
    rcases hk' with rfl | rfl | rfl
    · refine ⟨_, hgv, ?_⟩
      rw [hka, Fields.getD, hv, Option.getD_some, shift_arrPixN, pixAdd_zero]
      exact norm_arrPixN _ _ _ _ _ _ _ _
    · obtain ⟨v, hgv', hd⟩ := hm
      refine ⟨_, hgm, ?_⟩
      unfold storeBoth
      simp only
      rw [storeMeta_norm _ _ (Or.inl rfl) _ _ _ (by rw [hka, isDictNode_shift, Fields.getD, hgv']; exact hd)
        , hka, norm_shift]
    · obtain ⟨v, hgv', hd⟩ := hvis
      refine ⟨_, hgvis, ?_⟩
      unfold storeBoth
      simp only
      rw [storeMeta_norm _ _ (Or.inr rfl) _ _ _ (by rw [hka, isDictNode_shift, Fields.getD, hgv']; exact hd)
        , hka, norm_shift]
  obtain ⟨_, _, hall⟩ := eq_true_all_fields t i i _ _ fa fa hself
  have hpres : ∀ key ∈ cmpKeys "PolygonPixelRegion", ∃ v, fa.get? key = some v := by
    intro key hk
    rw [hkeys] at hk
    simp only [List.mem_cons, List.not_mem_nil, or_false] at hk
    rcases hk with rfl | rfl | rfl
    · exact ⟨_, hv⟩
    · obtain ⟨v, hg, _⟩ := hm; exact ⟨v, hg⟩
    · obtain ⟨v, hg, _⟩ := hvis; exact ⟨v, hg⟩
  constructor
  · rw [eqRegion_node]
    simp only [isInstance_self, Bool.not_true, Bool.false_eq_true, if_false, ne_eq,
      not_true_eq_false]
    apply eqLoop_all
    intro kv hkv hk
    obtain ⟨v, hg, hn⟩ := hex kv.1 hk
    obtain ⟨v1, hg1, hs1, hn1⟩ := hall kv hkv hk
    rw [Fields.getD, hg1, Option.getD_some] at hn
    refine ⟨v, hg, ?_, ?_⟩
    · rw [hs1, ← shapeOf_norm v1, ← hn, shapeOf_norm]
    · rw [← neV_norm, hn, neV_norm]; exact hn1
  · rw [eqRegion_node]
    simp only [isInstance_self, Bool.not_true, Bool.false_eq_true, if_false, ne_eq,
      not_true_eq_false]
    apply eqLoop_all
    intro kv hkv hk
    have hfirst := huniq kv hkv (by rw [← hkeys]; exact hk)
    obtain ⟨v, hg, hn⟩ := hex kv.1 hk
    rw [hfirst] at hg; cases hg
    obtain ⟨va, hga⟩ := hpres kv.1 hk
    obtain ⟨v1, hg1, hs1, hn1⟩ := hall (kv.1, va) (get?_mem fa kv.1 va hga) hk
    simp only at hg1 hs1 hn1
    rw [hga] at hg1; cases hg1
    rw [Fields.getD, hga, Option.getD_some] at hn
    refine ⟨va, hga, ?_, ?_⟩
    · rw [← shapeOf_norm, hn, shapeOf_norm]
    · rw [← neV_norm, hn, neV_norm]; exact hn1


/-- a triangle with meta / visual entries meets the hypotheses of `copy_eq_polygon`. -/
example :
    let fa : Fields := .cons "vertices" (arrPixN 1 2 3 [.fin 0, .fin 1, .fin 2] [.fin 0, .fin 1, .fin 0])
      (.cons "meta" (wMeta 4) (.cons "visual" (wVisual 5) .nil))
    fa.get? "vertices" = some (arrPixN 1 2 3 [.fin 0, .fin 1, .fin 2] [.fin 0, .fin 1, .fin 0]) ∧
    (fa.get? "meta" = some (wMeta 4) ∧ isDictNode (wMeta 4) = true) ∧
    (fa.get? "visual" = some (wVisual 5) ∧ isDictNode (wVisual 5) = true) ∧
    (copyRegion 10 10 (.node 0 (.region "PolygonPixelRegion") fa) []).toOption.isSome = true ∧
    eqRegion tolNumpy (.node 0 (.region "PolygonPixelRegion") fa)
      (.node 0 (.region "PolygonPixelRegion") fa) = .ok true := by
  decide +kernel


/-! ## N. well-formed regions never make `==` raise; the detection clause at full strength -/

theorem bcastAll_ok (p : Num → Num → Bool) (la lb : List Num) (h : la.length = lb.length) :
    ∃ r, bcastAll p la lb = .ok r := by
  unfold bcastAll; rw [if_pos h]; exact ⟨_, rfl⟩

theorem nums_length : ∀ fs : Fields, fs.nums.length = fs.length
  | .nil => rfl
  | .cons _ (.atom (.num _)) r => by simp [Fields.nums, Fields.length, nums_length r]
  | .cons _ (.atom (.str _)) r => by simp [Fields.nums, Fields.length, nums_length r]
  | .cons _ (.atom (.bool _)) r => by simp [Fields.nums, Fields.length, nums_length r]
  | .cons _ (.atom .none) r => by simp [Fields.nums, Fields.length, nums_length r]
  | .cons _ (.atom (.fn _)) r => by simp [Fields.nums, Fields.length, nums_length r]
  | .cons _ (.atom .elided) r => by simp [Fields.nums, Fields.length, nums_length r]
  | .cons _ (.node _ _ _) r => by simp [Fields.nums, Fields.length, nums_length r]

/-- the coordinates of a well-formed `PixCoord`: both scalar or both arrays of one length. -/
theorem wf_pix (i : Nat) (fs : Fields) (h : wf (.node i .pixcoord fs) = true) :
    ∃ xs ys s, (fs.get? "x").bind coordList = some (xs, s) ∧
      (fs.get? "y").bind coordList = some (ys, s) ∧ xs.length = ys.length := by
  simp only [wf] at h
  split at h
  · rename_i x y hx hy
    exact ⟨[x], [y], true, by simp [hx, coordList], by simp [hy, coordList], rfl⟩
  · rename_i i1 xs i2 ys hx hy
    simp only [Bool.and_eq_true, decide_eq_true_eq] at h
    exact ⟨xs.nums, ys.nums, false, by simp [hx, coordList], by simp [hy, coordList], h.2⟩
  · simp at h

theorem nePix_ok (t : Tol) (i j : Nat) (fa fb : Fields) (ha : wf (.node i .pixcoord fa) = true)
    (hb : wf (.node j .pixcoord fb) = true) : ∃ r, nePix t fa fb = .ok r := by
  obtain ⟨xa, ya, sa, hxa, hya, hla⟩ := wf_pix i fa ha
  obtain ⟨xb, yb, sb, hxb, hyb, hlb⟩ := wf_pix j fb hb
  unfold nePix
  rw [hxa, hya, hxb, hyb]
  simp only
  by_cases hc : sa ≠ sb ∨ xa.length ≠ xb.length
  · rw [if_pos hc]; exact ⟨_, rfl⟩
  · rw [if_neg hc]
    have hl : xa.length = xb.length := by
      by_contra h; exact hc (Or.inr h)
    obtain ⟨rx, hrx⟩ := bcastAll_ok (Num.close2 t) xa xb hl
    obtain ⟨ry, hry⟩ := bcastAll_ok (Num.close2 t) ya yb (by rw [← hla, hl, hlb])
    rw [hrx, hry]
    exact ⟨_, rfl⟩

theorem get?_isSome_of_mem_keys : ∀ (fs : Fields) (k : String), k ∈ fs.keys → (fs.get? k).isSome = true
  | .nil, _, h => by simp [Fields.keys] at h
  | .cons k0 v0 r, k, h => by
    unfold Fields.get?
    by_cases hk : k0 = k
    · rw [if_pos hk]; rfl
    · rw [if_neg hk]
      simp only [Fields.keys, List.mem_cons] at h
      rcases h with h | h
      · exact absurd h.symm hk
      · exact get?_isSome_of_mem_keys r k h

mutual
/-- comparing two well-formed values of the same array shape raises nothing but the `TypeError`
of non-equivalent sky frames and the `ValueError` of non-equivalent extra frame attributes (both
of which `Region.__eq__` catches). -/
theorem neV_noRaise (t : Tol) : ∀ (a b : V), wf a = true → wf b = true → shapeOf a = shapeOf b →
    ∀ e, neV t a b = .error e → e = .typeError ∨ e = .valueError
  | .atom x, .atom y, _, _, _, e, h => by simp [neV] at h
  | .atom x, .node j kb fb, _, _, _, e, h => by simp [neV] at h
  | .node i ka fa, .atom y, _, _, _, e, h => by cases ka <;> simp [neV] at h
  | .node i ka fa, .node j kb fb, hwa, hwb, hs, e, h => by
    cases ka with
    | region ca =>
      cases kb <;> try (simp [neV] at h; done)
      rename_i cb
      simp only [neV] at h
      by_cases h1 : isInstance cb ca = true
      · by_cases h2 : cmpKeys ca = cmpKeys cb
        · simp only [h1, Bool.not_true, Bool.false_eq_true, if_false, ne_eq, h2, not_true_eq_false] at h
          obtain ⟨hfa, hwfa⟩ := wf_region i ca fa hwa
          obtain ⟨hfb, hwfb⟩ := wf_region j cb fb hwb
          rw [← h2] at hfb hwfb
          have hpres : ∀ k, (cmpKeys ca).contains k = true → (fb.get? k).isSome = true := by
            intro k hk
            apply get?_isSome_of_mem_keys
            have : k ∈ fb.keys.filter (cmpKeys ca).contains := by
              rw [hfb]; simpa using hk
            exact (List.mem_filter.mp this).1
          rw [← h2] at h
          have := loop_noRaise t (cmpKeys ca) fa fb hwfa hwfb hpres
          cases hl : eqLoop t (cmpKeys ca) fa fb with
          | ok r => rw [hl] at h; simp at h
          | error e' => exact absurd hl (this e')
        · simp [h1, h2] at h
      · simp [h1] at h
    | pixcoord =>
      cases kb <;> try (simp [neV] at h; done)
      simp only [neV] at h
      obtain ⟨r, hr⟩ := nePix_ok t i j fa fb hwa hwb
      rw [hr] at h; cases h
    | quantity => cases kb <;> simp [neV] at h
    | skycoord =>
      cases kb <;> try (simp [neV] at h; done)
      simp only [neV, neSky] at h
      by_cases hx : atomOf (fa.get? "extra") = atomOf (fb.get? "extra")
      swap
      · simp only [hx, ne_eq, not_false_eq_true, if_true] at h
        cases h; exact Or.inr rfl
      simp only [hx, ne_eq, not_true_eq_false, if_false] at h
      by_cases hf : atomOf (fa.get? "frame") = atomOf (fb.get? "frame")
      · simp only [hf, ne_eq, not_true_eq_false, if_false] at h
        simp only [wf, Bool.and_eq_true, decide_eq_true_eq] at hwa hwb
        simp only [shapeOf] at hs
        have hlon : (arrOf (fa.get? "lon")).length = (arrOf (fb.get? "lon")).length := by
          by_cases sa : atomOf (fa.get? "scalar") = .bool true
          · by_cases sb : atomOf (fb.get? "scalar") = .bool true
            · rw [hwa.2 sa, hwb.2 sb]
            · simp [sa, sb] at hs
          · by_cases sb : atomOf (fb.get? "scalar") = .bool true
            · simp [sa, sb] at hs
            · simpa [sa, sb] using hs
        obtain ⟨rx, hrx⟩ := bcastAll_ok (fun a b => !(a.ne b)) _ _ hlon
        obtain ⟨ry, hry⟩ := bcastAll_ok (fun a b => !(a.ne b)) (arrOf (fa.get? "lat"))
          (arrOf (fb.get? "lat")) (by rw [← hwa.1.2, hlon, hwb.1.2])
        rw [hrx, hry] at h
        cases h
      · simp only [hf, ne_eq, not_false_eq_true, if_true] at h
        cases h; exact Or.inl rfl
    | dict => cases kb <;> simp [neV] at h
    | rmeta => cases kb <;> simp [neV] at h
    | rvisual => cases kb <;> simp [neV] at h
    | list => cases kb <;> simp [neV] at h
    | array =>
      cases kb <;> try (simp [neV] at h; done)
      simp only [neV] at h
      simp only [shapeOf, Option.some.injEq, List.cons.injEq, and_true] at hs
      obtain ⟨r, hr⟩ := bcastAll_ok (fun x y => !(x.ne y)) fa.nums fb.nums
        (by rw [nums_length, nums_length, hs])
      rw [hr] at h; cases h
    | regions => cases kb <;> simp [neV] at h
/-- the loop of `Region.__eq__` never raises on well-formed operands with the same attribute names. -/
theorem loop_noRaise (t : Tol) (keys : List String) : ∀ (fa fb : Fields),
    wfF keys fa = true → wfF keys fb = true →
    (∀ k, keys.contains k = true → (fb.get? k).isSome = true) →
    ∀ e, eqLoop t keys fa fb ≠ .error e
  | .nil, _, _, _, _, e => by simp [eqLoop]
  | .cons key va rest, fb, hwa, hwb, hp, e => by
    simp only [wfF, Bool.and_eq_true, Bool.or_eq_true, Bool.not_eq_true'] at hwa
    have ih := loop_noRaise t keys rest fb hwa.2 hwb hp e
    unfold eqLoop
    by_cases hc : keys.contains key = true
    · rw [if_pos hc]
      obtain ⟨vb, hg⟩ := Option.isSome_iff_exists.mp (hp key hc)
      rw [hg]
      simp only
      by_cases hs : shapeOf va = shapeOf vb
      · simp only [hs, ne_eq, not_true_eq_false, if_false]
        have hwva : wf va = true := by
          rcases hwa.1 with h | h
          · rw [hc] at h; cases h
          · exact h
        have hwvb : wf vb = true := wfF_get keys fb key vb hwb (get?_mem fb key vb hg) hc
        cases hn : neV t va vb with
        | error e' =>
          rcases neV_noRaise t va vb hwva hwvb hs e' hn with rfl | rfl <;> simp
        | ok r =>
          cases r
          · exact ih
          · simp
      · simp [hs]
    · rw [if_neg hc]; exact ih
end

/-- well-formed regions of one class satisfy `NoRaise`. -/
theorem NoRaise_of_wf (t : Tol) (i j : Nat) (c : String) (fa fb : Fields)
    (hwa : wf (.node i (.region c) fa) = true) (hwb : wf (.node j (.region c) fb) = true) :
    NoRaise t (cmpKeys c) fa fb := by
  obtain ⟨hfa, hwfa⟩ := wf_region i c fa hwa
  obtain ⟨hfb, hwfb⟩ := wf_region j c fb hwb
  intro kv hkv hk
  have hc : (cmpKeys c).contains kv.1 = true := by simpa using hk
  have hmem : kv.1 ∈ fb.keys.filter (cmpKeys c).contains := by rw [hfb]; exact hk
  obtain ⟨vb, hg⟩ := Option.isSome_iff_exists.mp
    (get?_isSome_of_mem_keys fb kv.1 (List.mem_filter.mp hmem).1)
  refine ⟨vb, hg, ?_⟩
  intro hs e he
  exact neV_noRaise t kv.2 vb (wfF_get _ fa kv.1 kv.2 hwfa hkv hc)
    (wfF_get _ fb kv.1 vb hwfb (get?_mem fb kv.1 vb hg) hc) hs e he

/-- FULL-STRENGTH clause "equality fails as soon as any compared attribute differs": for
well-formed regions of one class, whenever some shape parameter / `meta` / `visual` has another
array shape or does not compare equal, `==` answers `False` (it never raises). -/
def eq_detects_full : Prop :=
  ∀ (t : Tol) (i j : Nat) (c : String) (fa fb : Fields) (key : String) (va vb : V),
    wf (.node i (.region c) fa) = true → wf (.node j (.region c) fb) = true →
    key ∈ cmpKeys c → (key, va) ∈ fa.toList → fb.get? key = some vb →
    (shapeOf va ≠ shapeOf vb ∨ neV t va vb ≠ .ok false) →
    eqRegion t (.node i (.region c) fa) (.node j (.region c) fb) = .ok false

/-- holds since commit 4b5524a; before, a triangle against a quadrilateral raised `ValueError`
(finding F22). -/
theorem eq_detects_full_holds : eq_detects_full :=
  fun t i j c fa fb key va vb hwa hwb hk ha hb hne =>
    eq_detects_partial t i j c fa fb key va vb (NoRaise_of_wf t i j c fa fb hwa hwb) hk ha hb hne

/-- and `==` on well-formed regions of any two classes never raises at all. -/
theorem eq_never_raises (t : Tol) (i j : Nat) (ca cb : String) (fa fb : Fields)
    (hwa : wf (.node i (.region ca) fa) = true) (hwb : wf (.node j (.region cb) fb) = true) :
    ∃ r, eqRegion t (.node i (.region ca) fa) (.node j (.region cb) fb) = .ok r := by
  cases h : eqRegion t (.node i (.region ca) fa) (.node j (.region cb) fb) with
  | ok r => exact ⟨r, rfl⟩
  | error e =>
    exfalso
    rw [eqRegion_node] at h
    by_cases h1 : isInstance cb ca = true
    · by_cases hk : cmpKeys ca = cmpKeys cb
      · simp only [h1, Bool.not_true, Bool.false_eq_true, if_false, ne_eq, hk, not_true_eq_false] at h
        obtain ⟨hfa, hwfa⟩ := wf_region i ca fa hwa
        obtain ⟨hfb, hwfb⟩ := wf_region j cb fb hwb
        have hpres : ∀ k, (cmpKeys cb).contains k = true → (fb.get? k).isSome = true := by
          intro k hk'
          apply get?_isSome_of_mem_keys
          have : k ∈ fb.keys.filter (cmpKeys cb).contains := by rw [hfb]; simpa using hk'
          exact (List.mem_filter.mp this).1
        rw [hk] at hwfa
        exact loop_noRaise t (cmpKeys cb) fa fb hwfa hwfb hpres _ h
      · simp [h1, hk] at h
    · simp [h1] at h

/-- the triangle and the quadrilateral of the former finding are well-formed. -/
example : wf (polyPix 0 [0, 1, 2] [0, 1, 0]) = true ∧ wf (polyPix 10 [0, 1, 2, 3] [0, 1, 0, 1]) = true ∧
    wf wCompoundSky = true := by decide +kernel


/-- a sky circle whose centre carries the extra frame attributes `extra` (as a descriptor). -/
def wCircleSkyX (i : Nat) (extra : String) : V :=
  .node i (.region "CircleSkyRegion")
    (.cons "center" (.node (i + 1) .skycoord
        ((fieldsOf (skyCoord (i + 1) "icrs" [10] [20])).set "extra" (.atom (.str extra))))
    (.cons "radius" (quantity (i + 6) (.fin 1) "deg" 1)
    (.cons "meta" (wMeta (i + 4)) (.cons "visual" (wVisual (i + 5)) .nil))))

/-- regression witness of F15v (fixed in 048db14): an ICRS position with an `obstime` against one
without — the bare `SkyCoord` comparison raises `ValueError`, `==` answers `False` both ways; the
same extra attribute on both sides compares equal. -/
example :
    neV tolNumpy (.node 1 .skycoord ((fieldsOf (skyCoord 1 "icrs" [10] [20])).set "extra" (.atom (.str ""))))
      (.node 1 .skycoord ((fieldsOf (skyCoord 1 "icrs" [10] [20])).set "extra" (.atom (.str "obstime=J2010.000"))))
      = .error .valueError ∧
    eqRegion tolNumpy (wCircleSkyX 0 "") (wCircleSkyX 10 "obstime=J2010.000") = .ok false ∧
    eqRegion tolNumpy (wCircleSkyX 10 "obstime=J2010.000") (wCircleSkyX 0 "") = .ok false ∧
    eqRegion tolNumpy (wCircleSkyX 0 "obstime=J2010.000") (wCircleSkyX 10 "obstime=J2010.000") = .ok true ∧
    wf (wCircleSkyX 0 "obstime=J2010.000") = true := by
  decide +kernel

end RegionsVerif.Props.C16
