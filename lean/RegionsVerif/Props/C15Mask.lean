/-
C15 (translation of masks): translating a region expression by whole pixels translates the box
of its mask by the same amount and leaves the mask ARRAY unchanged, in 'center' and 'subpixels'
mode — simple shapes, annuli and compounds of any depth.
-/
import RegionsVerif.Props.C15Box
import RegionsVerif.Props.C02Mask

namespace RegionsVerif.Props.C15
open RegionsVerif.Impl RegionsVerif.Props

/-- two masks with the same cells whose boxes differ by the shift. -/
def MaskShifted (kx ky : Int) (m m' : GenMask) : Prop :=
  m'.bbox = BBox.shift m.bbox kx ky ∧ ∀ j i, m'.cell j i = m.cell j i

/-- shifting the result of a mask computation. -/
def shiftMaskEx (kx ky : Int) (a b : Except MaskErr GenMask) : Prop :=
  match a, b with
  | .ok m, .ok m' => MaskShifted kx ky m m'
  | .error e, .error e' => e = e'
  | _, _ => False

theorem relGrid_shift (b : BBox) (c : Pt ℚ) (kx ky : Int) :
    relGrid (BBox.shift b kx ky) (c.shift ⟨kx, ky⟩) = relGrid b c := by
  simp only [relGrid, BBox.shift, Pt.shift, BBox.shape, Grid.mk.injEq]
  refine ⟨?_, ?_, ?_, ?_, ?_, ?_⟩ <;> first | (push_cast; ring) | (congr 1; omega)

theorem mapError_shift (kx ky : Int) (x : Except BBoxErr BBox) :
    (shiftEx kx ky x).mapError MaskErr.bbox =
      match x.mapError MaskErr.bbox with
      | .ok b => .ok (BBox.shift b kx ky)
      | .error e => .error e := by
  cases x <;> rfl

/-- circle: same kernel arguments (they are relative to the centre), hence the same array. -/
theorem circle_mask_shift (c : Circle ℚ) (mode : MaskMode) (kx ky : Int) :
    shiftMaskEx kx ky (circleToMask c mode) (circleToMask ⟨c.center.shift ⟨kx, ky⟩, c.radius⟩ mode) := by
  unfold circleToMask
  cases hv : validateMode mode with
  | error e => simp [shiftMaskEx, bind, Except.bind]
  | ok u =>
    simp only [bind, Except.bind]
    rw [circle_extent_shift, extent_shift', mapError_shift]
    cases hb : (bboxOfExtent (Circle.mk c.center c.radius).extent).mapError MaskErr.bbox with
    | error e =>
      simp [shiftMaskEx]
    | ok b =>
      simp only
      cases hn : subpixOf mode with
      | none => simp [shiftMaskEx]
      | some n =>
        simp only [shiftMaskEx, pure, Except.pure, MaskShifted, circleMask]
        refine ⟨trivial, ?_⟩
        intro j i
        rw [relGrid_shift]

theorem ellipse_mask_shift (e : Ellipse ℚ) (mode : MaskMode) (kx ky : Int) :
    shiftMaskEx kx ky (ellipseToMask e mode)
      (ellipseToMask ⟨e.center.shift ⟨kx, ky⟩, e.width, e.height, e.dir⟩ mode) := by
  unfold ellipseToMask
  cases hv : validateMode mode with
  | error er => simp [shiftMaskEx, bind, Except.bind]
  | ok u =>
    simp only [bind, Except.bind]
    rw [ellipse_bbox_shift, mapError_shift]
    cases hb : (Ellipse.mk e.center e.width e.height e.dir).bboxQ.mapError MaskErr.bbox with
    | error er =>
      simp [shiftMaskEx]
    | ok b =>
      simp only
      cases hn : subpixOf mode with
      | none => simp [shiftMaskEx]
      | some n =>
        simp only [shiftMaskEx, pure, Except.pure, MaskShifted, ellipseMask]
        refine ⟨trivial, ?_⟩
        intro j i
        rw [relGrid_shift]

theorem rect_mask_shift (c : Rect ℚ) (mode : MaskMode) (kx ky : Int) :
    shiftMaskEx kx ky (rectToMask c mode)
      (rectToMask ⟨c.center.shift ⟨kx, ky⟩, c.width, c.height, c.dir⟩ mode) := by
  unfold rectToMask
  cases hv : validateMode mode with
  | error er => simp [shiftMaskEx, bind, Except.bind]
  | ok u =>
    simp only [bind, Except.bind]
    rw [rect_extent_shift, extent_shift', mapError_shift]
    cases hb : (bboxOfExtent (Rect.mk c.center c.width c.height c.dir).extent).mapError MaskErr.bbox with
    | error er =>
      simp [shiftMaskEx]
    | ok b =>
      simp only
      cases hn : subpixOf mode with
      | none => simp [shiftMaskEx]
      | some n =>
        simp only [shiftMaskEx, pure, Except.pure, MaskShifted, rectMask]
        refine ⟨trivial, ?_⟩
        intro j i
        rw [relGrid_shift]

/-- combining shifted masks gives the shifted combination (padding offsets are differences of
box corners, which a common shift does not change). -/
theorem combine_shift (op : BoolOp) (m1 m2 m1' m2' : GenMask) (kx ky : Int)
    (h1 : MaskShifted kx ky m1 m1') (h2 : MaskShifted kx ky m2 m2') :
    shiftMaskEx kx ky (combineMasks op m1 m2) (combineMasks op m1' m2') := by
  obtain ⟨b1, c1⟩ := h1
  obtain ⟨b2, c2⟩ := h2
  unfold combineMasks
  rw [b1, b2, union_shift]
  cases hu : BBox.union m1.bbox m2.bbox with
  | error e => simp [shiftMaskEx, shiftEx, Except.mapError, bind, Except.bind]
  | ok B =>
    simp only [shiftEx, Except.mapError, bind, Except.bind, pure, Except.pure, shiftMaskEx, MaskShifted]
    refine ⟨trivial, ?_⟩
    intro j i
    have p1 : padCell m1' (BBox.shift B kx ky) j i = padCell m1 B j i := by
      unfold padCell
      simp only [b1, BBox.shift, BBox.shape, c1]
      have e1 : m1.bbox.ixmin + kx - (B.ixmin + kx) = m1.bbox.ixmin - B.ixmin := by omega
      have e2 : m1.bbox.iymin + ky - (B.iymin + ky) = m1.bbox.iymin - B.iymin := by omega
      have e3 : m1.bbox.iymax + ky - (m1.bbox.iymin + ky) = m1.bbox.iymax - m1.bbox.iymin := by omega
      have e4 : m1.bbox.ixmax + kx - (m1.bbox.ixmin + kx) = m1.bbox.ixmax - m1.bbox.ixmin := by omega
      rw [e1, e2, e3, e4]
      rfl
    have p2 : padCell m2' (BBox.shift B kx ky) j i = padCell m2 B j i := by
      unfold padCell
      simp only [b2, BBox.shift, BBox.shape, c2]
      have e1 : m2.bbox.ixmin + kx - (B.ixmin + kx) = m2.bbox.ixmin - B.ixmin := by omega
      have e2 : m2.bbox.iymin + ky - (B.iymin + ky) = m2.bbox.iymin - B.iymin := by omega
      have e3 : m2.bbox.iymax + ky - (m2.bbox.iymin + ky) = m2.bbox.iymax - m2.bbox.iymin := by omega
      have e4 : m2.bbox.ixmax + kx - (m2.bbox.ixmin + kx) = m2.bbox.ixmax - m2.bbox.ixmin := by omega
      rw [e1, e2, e3, e4]
      rfl
    rw [p1, p2]

/-! ### polygons: the grid is absolute, so grid, skip box, samples and vertices all shift together -/

theorem samplePos_shift (x0 x1 k : ℚ) (n a : Nat) :
    samplePos (x0 + k) (x1 + k) n a = samplePos x0 x1 n a + k := by
  unfold samplePos; ring

theorem subpixelFrac_shift (P P' : ℚ → ℚ → Bool) (kx ky : ℚ) (h : ∀ x y, P' (x + kx) (y + ky) = P x y)
    (x0 y0 x1 y1 : ℚ) (n : Nat) :
    subpixelFrac P' (x0 + kx) (y0 + ky) (x1 + kx) (y1 + ky) n = subpixelFrac P x0 y0 x1 y1 n := by
  unfold subpixelFrac
  rw [C02.subpixelCount_spec, C02.subpixelCount_spec]
  simp only [samplePos_shift, h]

theorem gridCellSkip_shift (P P' : ℚ → ℚ → Bool) (kx ky : ℚ) (h : ∀ x y, P' (x + kx) (y + ky) = P x y)
    (bx0 bx1 by0 by1 xmin xmax ymin ymax : ℚ) (nx ny n j i : Nat) :
    gridCellSkip P' (bx0 + kx) (bx1 + kx) (by0 + ky) (by1 + ky) (xmin + kx) (xmax + kx) (ymin + ky) (ymax + ky)
        nx ny n j i =
      gridCellSkip P bx0 bx1 by0 by1 xmin xmax ymin ymax nx ny n j i := by
  unfold gridCellSkip
  simp only [add_sub_add_right_eq_sub]
  have e1 : xmin + kx + (i : ℚ) * ((xmax - xmin) / nx) = (xmin + (i : ℚ) * ((xmax - xmin) / nx)) + kx := by ring
  have e2 : ymin + ky + (j : ℚ) * ((ymax - ymin) / ny) = (ymin + (j : ℚ) * ((ymax - ymin) / ny)) + ky := by ring
  rw [e1, e2]
  have e3 : ∀ a d : ℚ, a + kx + d = (a + d) + kx := by intro a d; ring
  have e4 : ∀ a d : ℚ, a + ky + d = (a + d) + ky := by intro a d; ring
  rw [e3, e4, subpixelFrac_shift P P' kx ky h]
  simp only [add_lt_add_iff_right, gt_iff_lt]

theorem polygon_mask_shift (g : Polygon ℚ) (mode : MaskMode) (kx ky : Int) :
    shiftMaskEx kx ky (polygonToMask g mode)
      (polygonToMask ⟨g.vertices.map (·.shift ⟨kx, ky⟩)⟩ mode) := by
  unfold polygonToMask
  cases hv : validateMode mode with
  | error er => simp [shiftMaskEx, bind, Except.bind]
  | ok u =>
    simp only [bind, Except.bind]
    rw [polygon_extent_shift]
    have hge : (Polygon.mk g.vertices).extent = g.extent := rfl
    rw [hge]
    cases he : g.extent with
    | none => simp [shiftMaskEx]
    | some e =>
      simp only [Option.map_some]
      rw [extent_shift', mapError_shift]
      cases hb : (bboxOfExtent e).mapError MaskErr.bbox with
      | error er => simp [shiftMaskEx]
      | ok b =>
        simp only
        cases hn : subpixOf mode with
        | none => simp [shiftMaskEx]
        | some n =>
          simp only [shiftMaskEx, pure, Except.pure, MaskShifted, polygonMask]
          refine ⟨trivial, ?_⟩
          intro j i
          simp only [Grid.cellSkip, absGrid, BBox.shift, BBox.shape, shiftExtent]
          have hP : ∀ x y : ℚ, polyK (g.vertices.map (·.shift ⟨(kx : ℚ), (ky : ℚ)⟩)) (x + kx) (y + ky)
              = polyK g.vertices x y := by
            intro x y
            have := C01.pnpoly_translate g.vertices ⟨x, y⟩ ⟨(kx : ℚ), (ky : ℚ)⟩
            have e : (fun v : Pt ℚ => v.shift ⟨(kx : ℚ), (ky : ℚ)⟩) = C01.translate ⟨(kx : ℚ), (ky : ℚ)⟩ := rfl
            unfold polyK
            rw [e]
            exact this
          have a1 : ((b.ixmin + kx : Int) : ℚ) - 1/2 = ((b.ixmin : ℚ) - 1/2) + kx := by push_cast; ring
          have a2 : ((b.ixmax + kx : Int) : ℚ) - 1/2 = ((b.ixmax : ℚ) - 1/2) + kx := by push_cast; ring
          have a3 : ((b.iymin + ky : Int) : ℚ) - 1/2 = ((b.iymin : ℚ) - 1/2) + ky := by push_cast; ring
          have a4 : ((b.iymax + ky : Int) : ℚ) - 1/2 = ((b.iymax : ℚ) - 1/2) + ky := by push_cast; ring
          have n1 : (b.ixmax + kx - (b.ixmin + kx)).toNat = (b.ixmax - b.ixmin).toNat := by congr 1; omega
          have n2 : (b.iymax + ky - (b.iymin + ky)).toNat = (b.iymax - b.iymin).toNat := by congr 1; omega
          rw [a1, a2, a3, a4, n1, n2]
          exact gridCellSkip_shift (polyK g.vertices) _ kx ky hP _ _ _ _ _ _ _ _ _ _ n j i

/-! ### region expressions -/

theorem bind_shift (kx ky : Int) (a a' : Except MaskErr GenMask) (k k' : GenMask → Except MaskErr GenMask)
    (h : shiftMaskEx kx ky a a')
    (hk : ∀ m m', MaskShifted kx ky m m' → shiftMaskEx kx ky (k m) (k' m')) :
    shiftMaskEx kx ky (a >>= k) (a' >>= k') := by
  cases a with
  | error e =>
    cases a' with
    | error e' =>
      simp only [shiftMaskEx] at h
      subst h
      simp [shiftMaskEx, bind, Except.bind]
    | ok m' => simp [shiftMaskEx] at h
  | ok m =>
    cases a' with
    | error e' => simp [shiftMaskEx] at h
    | ok m' =>
      simp only [shiftMaskEx] at h
      exact hk m m' h

theorem annulus_mask_shift (f g f' g' : MaskMode → Except MaskErr GenMask) (mode : MaskMode) (kx ky : Int)
    (hf : shiftMaskEx kx ky (f .center) (f' .center)) (hg : shiftMaskEx kx ky (g .center) (g' .center)) :
    shiftMaskEx kx ky (annulusToMask f g mode) (annulusToMask f' g' mode) := by
  unfold annulusToMask
  cases mode with
  | center =>
    exact bind_shift kx ky _ _ _ _ hf (fun m1 m1' s1 =>
      bind_shift kx ky _ _ _ _ hg (fun m2 m2' s2 => combine_shift .xor _ _ _ _ kx ky s1 s2))
  | subpixels n b => simp [shiftMaskEx]
  | exact => simp [shiftMaskEx]
  | other => simp [shiftMaskEx]

/-- **translating a region by whole pixels leaves its mask array unchanged and moves the mask's
box by the same amount** — every maskable class, annuli and compounds of any depth, 'center' and
'subpixels' modes; error outcomes (unsupported mode/class) are the same as well. -/
theorem mask_shift (r : PReg ℚ) (mode : MaskMode) (kx ky : Int) :
    shiftMaskEx kx ky (r.toMask mode) ((r.shift (⟨(kx : ℚ), (ky : ℚ)⟩ : Pt ℚ)).toMask mode) := by
  induction r generalizing mode with
  | circle c i => exact circle_mask_shift c mode kx ky
  | ellipse e i => exact ellipse_mask_shift e mode kx ky
  | rect c i => exact rect_mask_shift c mode kx ky
  | polygon g i => exact polygon_mask_shift g mode kx ky
  | circleAnnulus c r1 r2 i =>
    exact annulus_mask_shift _ _ _ _ mode kx ky (circle_mask_shift ⟨c, r1⟩ .center kx ky)
      (circle_mask_shift ⟨c, r2⟩ .center kx ky)
  | ellipseAnnulus c w1 h1 w2 h2 d i =>
    exact annulus_mask_shift _ _ _ _ mode kx ky (ellipse_mask_shift ⟨c, w1, h1, d⟩ .center kx ky)
      (ellipse_mask_shift ⟨c, w2, h2, d⟩ .center kx ky)
  | rectAnnulus c w1 h1 w2 h2 d i =>
    exact annulus_mask_shift _ _ _ _ mode kx ky (rect_mask_shift ⟨c, w1, h1, d⟩ .center kx ky)
      (rect_mask_shift ⟨c, w2, h2, d⟩ .center kx ky)
  | empty k a b i => simp [PReg.toMask, PReg.shift, shiftMaskEx]
  | compound op r1 r2 i ih1 ih2 =>
    simp only [PReg.toMask, PReg.shift]
    cases mode with
    | center =>
      exact bind_shift kx ky _ _ _ _ (ih1 .center) (fun m1 m1' s1 =>
        bind_shift kx ky _ _ _ _ (ih2 .center) (fun m2 m2' s2 => combine_shift op _ _ _ _ kx ky s1 s2))
    | subpixels n b => simp [shiftMaskEx]
    | exact => simp [shiftMaskEx]
    | other => simp [shiftMaskEx]

end RegionsVerif.Props.C15
