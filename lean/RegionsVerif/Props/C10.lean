/-
C10 — DS9 text is read according to the DS9 region-file conventions.

Every theorem here is about the REFERENCE interpreter `Spec.Ds9.interp` (Spec/Ds9.lean),
for token streams / statement lists of ANY length and for all numbers.  That the real parser
(`regions/io/ds9/read.py`) computes the same regions is decided by the differential run of
`harness/c10.py`, not by a theorem (see `validated_only` in the evidence file).

Clauses of the property  ->  theorems
  the active frame applies until changed ........ frame_persistence, frame_scope
  no region from a line that lacks a frame ...... no_frame_no_region, no_frame_no_region_scope,
                                                  interp_no_frame_line
  pixel positions shifted, sizes not ............ origin_shift_positions_only (+ _anchor, pixPos_iff, pixSize_iff)
  ellipse radii are semi-axes ................... ellipse_semi_axes
  bare numbers are degrees / pixels ............. bare_is_degrees, bare_is_pixels
  suffixes and sexagesimal forms ................ skySize_suffixes, hours_only_equatorial_lon (+ polygon version)
  '-' or include=0 marks exclusion .............. include_sign_vs_key, region_incl
  per-region properties override global ......... local_overrides_global, later_global_overrides_earlier,
                                                  global_affects_only_later
  composites (global < composite < local; the last member, the line without `||`, still belongs;
  nothing leaks past it) ........................ composite_scope, composite_overrides_global,
                                                  composite_member_state, lookup_compProps
  multi-radius lines expand ..................... multi_annulus_expansion, multi_ellipse_expansion, multi_box_expansion
  newline / ';' / parentheses / commas .......... separators_interchangeable, punctuation_optional
  text kept verbatim ............................ text_verbatim
  unsupported shapes / frames are skipped ....... unsupported_skipped_independent, unsupported_frame_scope
-/
import RegionsVerif.Spec.Ds9
import RegionsVerif.Impl.Ds9ReadQuirks
import Mathlib.Tactic.Ring

namespace RegionsVerif.Props.C10
open RegionsVerif.Spec.Ds9

/-! ### the statement fold -/

theorem final_cons (st : State) (s : Stmt) (l : List Stmt) : final st (s :: l) = final (next st s) l := rfl

theorem final_append (st : State) (a b : List Stmt) : final st (a ++ b) = final (final st a) b := by
  unfold final; exact List.foldl_append

/-- the output of a file is the output of its first part followed by the output of the rest
run from the state the first part leaves behind: output never depends on what comes later. -/
theorem run_append (st : State) (a b : List Stmt) :
    run st (a ++ b) = run st a ++ run (final st a) b := by
  induction a generalizing st with
  | nil => rfl
  | cons s r ih => simp only [List.cons_append, run, final_cons, ih, List.append_assoc]

/-- membership in the output, unfolded: some statement emitted it in the state reached by the
statements before it. -/
theorem mem_run_iff (st : State) (l : List Stmt) (r : Region) :
    r ∈ run st l ↔ ∃ before s post, l = before ++ s :: post ∧ r ∈ emit (final st before) s := by
  induction l generalizing st with
  | nil => simp [run]
  | cons s rest ih =>
    simp only [run, List.mem_append, ih]
    constructor
    · rintro (h | ⟨b, s', p, rfl, h⟩)
      · exact ⟨[], s, rest, rfl, h⟩
      · exact ⟨s :: b, s', p, rfl, h⟩
    · rintro ⟨b, s', p, hl, h⟩
      cases b with
      | nil =>
        simp only [List.nil_append, List.cons.injEq] at hl
        obtain ⟨rfl, rfl⟩ := hl
        exact Or.inl h
      | cons x b =>
        simp only [List.cons_append, List.cons.injEq] at hl
        obtain ⟨rfl, rfl⟩ := hl
        exact Or.inr ⟨b, s', p, rfl, h⟩

/-- a frame line: supported or not. -/
def isFrameLine : Stmt → Bool
  | .frame _ | .badFrame => true
  | _ => false

theorem next_frame_of_not_frameLine (st : State) (s : Stmt) (h : isFrameLine s = false) :
    (next st s).frame = st.frame := by
  cases s <;> simp_all [next, isFrameLine]

theorem final_frame_of_no_frameLine (st : State) (l : List Stmt)
    (h : ∀ s ∈ l, isFrameLine s = false) : (final st l).frame = st.frame := by
  induction l generalizing st with
  | nil => rfl
  | cons s r ih =>
    rw [final_cons, ih _ (fun x hx => h x (List.mem_cons_of_mem _ hx)),
      next_frame_of_not_frameLine _ _ (h s List.mem_cons_self)]

/-- a region carries the frame that was active when its line was read. -/
theorem emit_frame (st : State) (s : Stmt) (r : Region) (h : r ∈ emit st s) :
    st.frame = some r.frame := by
  cases s with
  | region sg sh args kvs =>
    unfold emit at h
    cases hf : st.frame with
    | none => simp [hf] at h
    | some f =>
      simp only [hf, regionsOf, List.mem_map] at h
      obtain ⟨g, _, rfl⟩ := h
      rfl
  | member sg sh args kvs =>
    unfold emit at h
    cases hf : st.frame with
    | none => simp [hf] at h
    | some f =>
      simp only [hf, regionsOf, List.mem_map] at h
      obtain ⟨g, _, rfl⟩ := h
      rfl
  | _ => simp [emit] at h

/-! ### the active frame applies until changed -/

/-- **frame_persistence.** After a supported frame line, every region emitted before the next
frame line (however many lines that is, whatever else is in between) carries that frame, and the
frame is still active afterwards. -/
theorem frame_persistence (st : State) (k : FrameKw) (mid : List Stmt)
    (hmid : ∀ s ∈ mid, isFrameLine s = false) :
    (∀ r ∈ run st (.frame k :: mid), r.frame = k.frame) ∧
    (final st (.frame k :: mid)).frame = some k.frame := by
  have hfin : ∀ pre, (∀ s ∈ pre, s ∈ mid) → (final (next st (.frame k)) pre).frame = some k.frame := by
    intro pre hp
    rw [final_frame_of_no_frameLine _ _ (fun s hs => hmid s (hp s hs))]; rfl
  refine ⟨?_, hfin mid (fun _ h => h)⟩
  intro r hr
  simp only [run, emit, List.nil_append] at hr
  obtain ⟨before, s, post, rfl, hs⟩ := (mem_run_iff _ _ _).1 hr
  have h1 := emit_frame _ _ _ hs
  rw [hfin before (fun x hx => List.mem_append_left _ hx)] at h1
  exact (Option.some.inj h1).symm

/-- **frame_scope.** Position in the file does not matter: a frame line anywhere splits the
output into what came before (unaffected) and its own scope. -/
theorem frame_scope (st : State) (pre mid post : List Stmt) (k : FrameKw)
    (hmid : ∀ s ∈ mid, isFrameLine s = false) :
    run st (pre ++ .frame k :: mid ++ post) =
      run st pre ++ run { final st pre with frame := some k.frame } mid ++
        run (final st (pre ++ .frame k :: mid)) post ∧
    ∀ r ∈ run { final st pre with frame := some k.frame } mid, r.frame = k.frame := by
  constructor
  · rw [List.append_assoc, run_append, List.cons_append, run]
    rw [show pre ++ Stmt.frame k :: mid = pre ++ [Stmt.frame k] ++ mid by simp]
    rw [final_append, final_append, run_append]
    simp [emit, final, next, List.append_assoc]
  · intro r hr
    have := (frame_persistence (final st pre) k mid hmid).1 r
    simp only [run, emit, List.nil_append, next] at this
    exact this hr

/-! ### no region from a line that lacks a frame -/

/-- **no_frame_no_region_scope.** With no active frame and no supported frame line, nothing is
emitted, however many region lines (or unsupported frame lines) there are. -/
theorem no_frame_no_region_scope (st : State) (hst : st.frame = none) (l : List Stmt)
    (h : ∀ s ∈ l, ∀ k, s ≠ .frame k) : run st l = [] := by
  induction l generalizing st with
  | nil => rfl
  | cons s r ih =>
    have hs := h s List.mem_cons_self
    have hr : ∀ x ∈ r, ∀ k, x ≠ .frame k := fun x hx => h x (List.mem_cons_of_mem _ hx)
    have he : emit st s = [] := by cases s <;> simp [emit, hst]
    have hn : (next st s).frame = none := by
      cases s <;> simp_all [next]
    rw [run, he, List.nil_append]
    exact ih _ hn hr

/-- where an active frame comes from: it was there at the start and no frame line intervened,
or the LAST frame line is a supported one for that frame. -/
theorem final_frame_some (st : State) (l : List Stmt) (f : Frame)
    (h : (final st l).frame = some f) :
    (st.frame = some f ∧ ∀ s ∈ l, isFrameLine s = false) ∨
    ∃ pre k mid, l = pre ++ .frame k :: mid ∧ k.frame = f ∧ ∀ s ∈ mid, isFrameLine s = false := by
  induction l generalizing st with
  | nil => exact Or.inl ⟨h, by simp⟩
  | cons s r ih =>
    rw [final_cons] at h
    rcases ih _ h with ⟨h1, h2⟩ | ⟨pre, k, mid, rfl, hk, hm⟩
    · by_cases hs : isFrameLine s = true
      · cases s with
        | frame k =>
          right
          exact ⟨[], k, r, rfl, by simpa [next] using h1, h2⟩
        | badFrame => simp [next] at h1
        | _ => simp [isFrameLine] at hs
      · have hs' : isFrameLine s = false := by simpa using hs
        left
        rw [next_frame_of_not_frameLine _ _ hs'] at h1
        exact ⟨h1, by
          intro x hx
          rcases List.mem_cons.1 hx with rfl | hx
          · exact hs'
          · exact h2 x hx⟩
    · exact Or.inr ⟨s :: pre, k, mid, rfl, hk, hm⟩

/-- **no_frame_no_region.** The invariant of the line fold: every region of the output was emitted
by a line `s` that is preceded by a SUPPORTED frame line for the region's frame with no frame
line (supported or unsupported) between the two — unless the run started with that frame active. -/
theorem no_frame_no_region (st : State) (l : List Stmt) (r : Region) (hr : r ∈ run st l) :
    ∃ before s post, l = before ++ s :: post ∧ r ∈ emit (final st before) s ∧
      ((st.frame = some r.frame ∧ ∀ x ∈ before, isFrameLine x = false) ∨
       ∃ pre k mid, before = pre ++ .frame k :: mid ∧ k.frame = r.frame ∧
         ∀ x ∈ mid, isFrameLine x = false) := by
  obtain ⟨before, s, post, hl, hs⟩ := (mem_run_iff _ _ _).1 hr
  exact ⟨before, s, post, hl, hs, final_frame_some _ _ _ (emit_frame _ _ _ hs)⟩

/-- for a whole file (no frame is active at the start) only the second alternative remains. -/
theorem interp_region_has_frame_line (toks : List Tok) (r : Region) (hr : r ∈ interp toks) :
    ∃ pre k mid s post, stmtsOf toks = pre ++ .frame k :: mid ++ s :: post ∧ k.frame = r.frame ∧
      (∀ x ∈ mid, isFrameLine x = false) ∧ r ∈ emit (final init (pre ++ .frame k :: mid)) s := by
  obtain ⟨before, s, post, hl, hs, h⟩ := no_frame_no_region init _ r hr
  rcases h with ⟨h, _⟩ | ⟨pre, k, mid, rfl, hk, hm⟩
  · simp [init] at h
  · exact ⟨pre, k, mid, s, post, by simpa [List.append_assoc] using hl, hk, hm, hs⟩

/-- a file without any supported frame line yields no region at all. -/
theorem interp_no_frame_line (toks : List Tok) (h : ∀ s ∈ stmtsOf toks, ∀ k, s ≠ .frame k) :
    interp toks = [] :=
  no_frame_no_region_scope init rfl _ h

/-! ### pixel positions are shifted from 1-based to 0-based, sizes are not -/

/-- exactly the bare and `i`-suffixed decimals are pixel positions, and the value is shifted by one. -/
theorem pixPos_iff (n : Num) (v : Val) :
    pixPos n = some v ↔ ∃ q u, n = .dec q u ∧ (u = .none ∨ u = .img) ∧ v = .pix (q - 1) := by
  cases n with
  | dec q u => cases u <;> simp [pixPos, eq_comm]
  | _ => simp [pixPos]

/-- sizes are read with the same notations and are NOT shifted. -/
theorem pixSize_iff (n : Num) (v : Val) :
    pixSize n = some v ↔ ∃ q u, n = .dec q u ∧ (u = .none ∨ u = .img) ∧ v = .pix q := by
  cases n with
  | dec q u => cases u <;> simp [pixSize, eq_comm]
  | _ => simp [pixSize]

/-- the file's pixel `1` is array index `0`, for either coordinate. -/
theorem origin_shift_anchor (lon : Bool) :
    posVal .image lon (.dec 1 .none) = some (.pix 0) ∧ sizeVal .image (.dec 1 .none) = some (.pix 1) := by
  constructor <;> simp [posVal, sizeVal, pixPos, pixSize]

/-- add `d` to a decimal token. -/
def shiftNum (d : ℚ) : Num → Num
  | .dec q u => .dec (q + d) u
  | n => n

/-- add `d` to the POSITION tokens of a split parameter list, and to nothing else. -/
def shiftRaw (d : ℚ) (r : Raw) : Raw :=
  ⟨r.pts.map fun p => (shiftNum d p.1, shiftNum d p.2), r.sizes, r.angle⟩

/-- move a region by `d` in x and y; sizes and angle stay. -/
def translate (d : ℚ) (g : Geom) : Geom :=
  ⟨g.kind, g.pts.map fun p => (p.1.shift d, p.2.shift d), g.sizes, g.angle⟩

theorem pixPos_shift (d : ℚ) (n : Num) : pixPos (shiftNum d n) = (pixPos n).map (Val.shift d) := by
  cases n with
  | dec q u => cases u <;> simp [pixPos, shiftNum, Val.shift] <;> ring
  | _ => simp [pixPos, shiftNum]

theorem evalPt_image_shift (d : ℚ) (p : Num × Num) :
    evalPt .image (shiftNum d p.1, shiftNum d p.2) =
      (evalPt .image p).map fun v => (v.1.shift d, v.2.shift d) := by
  simp only [evalPt, posVal, if_true, pixPos_shift]
  cases pixPos p.1 <;> cases pixPos p.2 <;> simp

theorem traverse_map_of_comm {α β : Type} (g : α → Option β) (a : α → α) (b : β → β)
    (h : ∀ x, g (a x) = (g x).map b) (l : List α) :
    traverse g (l.map a) = (traverse g l).map (List.map b) := by
  induction l with
  | nil => rfl
  | cons x r ih =>
    simp only [List.map_cons, traverse, h, ih]
    cases g x <;> cases traverse g r <;> simp

theorem build_translate (d : ℚ) (s : Shape) (pts : List (Val × Val)) (radii : List Val)
    (axes : List (Val × Val)) (ang : Option Val) :
    build s (pts.map fun p => (p.1.shift d, p.2.shift d)) radii axes ang =
      (build s pts radii axes ang).map (translate d) := by
  cases s with
  | ellipse => rcases axes with _ | ⟨a, _ | ⟨b, r⟩⟩ <;> simp [build, translate, Function.comp_def]
  | box => rcases axes with _ | ⟨a, _ | ⟨b, r⟩⟩ <;> simp [build, translate, Function.comp_def]
  | annulus => simp [build, translate, Function.comp_def]
  | _ => simp [build, translate]

/-- **origin_shift_positions_only.** In the image frame, adding `d` to every position number of
a region line — and to nothing else — moves every resulting region (all the annuli of a
multi-radius line included) by exactly `d` and changes neither sizes nor angle; together with
`origin_shift_anchor` / `pixPos_iff` / `pixSize_iff`: positions are `file value − 1`, sizes are
the file value. -/
theorem origin_shift_positions_only (d : ℚ) (s : Shape) (raw : Raw) :
    geomsRaw .image s (shiftRaw d raw) = (geomsRaw .image s raw).map (translate d) := by
  unfold geomsRaw shiftRaw
  simp only
  rw [traverse_map_of_comm (evalPt .image) (fun p => (shiftNum d p.1, shiftNum d p.2))
    (fun v => (v.1.shift d, v.2.shift d)) (evalPt_image_shift d)]
  cases traverse (evalPt .image) raw.pts with
  | none => simp
  | some pts =>
    cases evalAngle raw.angle with
    | none => simp
    | some ang =>
      simp only [Option.map_some]
      cases raw.sizes with
      | inr rs => rcases h : traverse (sizeVal .image) rs with _ | radii <;> simp [h, build_translate]
      | inl ps => rcases h : traverse (evalPair .image) ps with _ | axes <;> simp [h, build_translate]

/-- non-vacuity: `box(10.5, 20, 4, 3, 30)` and the same line with positions +7. -/
example :
    geoms .image .box [.dec (21/2) .none, .dec 20 .img, .dec 4 .none, .dec 3 .none, .dec 30 .none] =
      [⟨.rectangle, [(.pix (19/2), .pix 19)], [.pix 4, .pix 3], some (.deg 30)⟩] ∧
    geoms .image .box [.dec (35/2) .none, .dec 27 .img, .dec 4 .none, .dec 3 .none, .dec 30 .none] =
      [⟨.rectangle, [(.pix (33/2), .pix 26)], [.pix 4, .pix 3], some (.deg 30)⟩] := by
  decide +kernel

/-! ### ellipse radii are semi-axes -/

/-- **ellipse_semi_axes.** In every frame and every notation: the two numbers of an `ellipse` line
are SEMI-axes (the region's width and height are twice the written values) while the same
numbers on a `box` line are the full width and height. -/
theorem ellipse_semi_axes (f : Frame) (x y a b t : Num) (c : Val × Val) (va vb ang : Val)
    (hc : evalPt f (x, y) = some c) (ha : sizeVal f a = some va) (hb : sizeVal f b = some vb)
    (ht : angVal t = some ang) :
    geoms f .ellipse [x, y, a, b, t] = [⟨.ellipse, [c], [va.dbl, vb.dbl], some ang⟩] ∧
    geoms f .box [x, y, a, b, t] = [⟨.rectangle, [c], [va, vb], some ang⟩] := by
  constructor <;>
    simp [geoms, geomsRaw, splitArgs, splitLast, pairs, traverse, evalPair, evalAngle, build, hc, ha, hb, ht]

theorem dbl_values (q : ℚ) :
    (Val.pix q).dbl = .pix (2 * q) ∧ (Val.deg q).dbl = .deg (2 * q) ∧ (Val.rad q).dbl = .rad (2 * q) :=
  ⟨rfl, rfl, rfl⟩

/-- non-vacuity: `ellipse(10:00:00, +20:30:00, 3", 1.5", 45)` in fk5 is 6" × 3". -/
example :
    geoms .fk5 .ellipse [.colon false 10 0 0, .colon false 20 30 0, .dec 3 .arcsec, .dec (3/2) .arcsec, .dec 45 .none] =
      [⟨.ellipse, [(.deg 150, .deg (41/2))], [.deg (1/600), .deg (1/1200)], some (.deg 45)⟩] := by
  decide +kernel

/-! ### bare numbers are degrees (pixels in the image frame); suffixes -/

/-- give a bare decimal the suffix `u`; every other token is left alone. -/
def withSuffix (u : Suffix) : Num → Num
  | .dec q .none => .dec q u
  | n => n

theorem skyPos_withDeg (h : Bool) (n : Num) : skyPos h (withSuffix .deg n) = skyPos h n := by
  cases n with
  | dec q u => cases u <;> rfl
  | _ => rfl

theorem skySize_withDeg (n : Num) : skySize (withSuffix .deg n) = skySize n := by
  cases n with
  | dec q u => cases u <;> rfl
  | _ => rfl

theorem angVal_withDeg (n : Num) : angVal (withSuffix .deg n) = angVal n := by
  cases n with
  | dec q u => cases u <;> rfl
  | _ => rfl

theorem pixPos_withImg (n : Num) : pixPos (withSuffix .img n) = pixPos n := by
  cases n with
  | dec q u => cases u <;> rfl
  | _ => rfl

theorem pixSize_withImg (n : Num) : pixSize (withSuffix .img n) = pixSize n := by
  cases n with
  | dec q u => cases u <;> rfl
  | _ => rfl

theorem traverse_congr_map {α β : Type} (g : α → Option β) (a : α → α) (h : ∀ x, g (a x) = g x)
    (l : List α) : traverse g (l.map a) = traverse g l := by
  induction l with
  | nil => rfl
  | cons x r ih => simp only [List.map_cons, traverse, h, ih]

/-- apply `a` to every number of a split parameter list; `b` to the angle. -/
def mapRaw (a b : Num → Num) (r : Raw) : Raw :=
  ⟨r.pts.map fun p => (a p.1, a p.2),
   match r.sizes with
   | .inl ps => .inl (ps.map fun p => (a p.1, a p.2))
   | .inr rs => .inr (rs.map a),
   r.angle.map b⟩

theorem geomsRaw_congr (f : Frame) (s : Shape) (a b : Num → Num) (raw : Raw)
    (hp : ∀ lon n, posVal f lon (a n) = posVal f lon n) (hs : ∀ n, sizeVal f (a n) = sizeVal f n)
    (hb : ∀ n, angVal (b n) = angVal n) :
    geomsRaw f s (mapRaw a b raw) = geomsRaw f s raw := by
  unfold geomsRaw mapRaw
  simp only
  rw [traverse_congr_map (evalPt f) (fun p => (a p.1, a p.2)) (by intro p; simp [evalPt, hp])]
  have hang : evalAngle (raw.angle.map b) = evalAngle raw.angle := by
    cases raw.angle <;> simp [evalAngle, hb]
  rw [hang]
  cases raw.sizes with
  | inr rs => simp only [traverse_congr_map (sizeVal f) a hs]
  | inl ps =>
    simp only
    rw [traverse_congr_map (evalPair f) (fun p => (a p.1, a p.2)) (by intro p; simp [evalPair, hs])]

/-- **bare_is_degrees.** In every sky frame a bare number means the same as the number with the
suffix `d`, in every role (position, size, angle) and for every shape: rewriting all bare
numbers of a line to `…d` does not change the regions. -/
theorem bare_is_degrees (f : Frame) (hf : f ≠ .image) (s : Shape) (raw : Raw) :
    geomsRaw f s (mapRaw (withSuffix .deg) (withSuffix .deg) raw) = geomsRaw f s raw := by
  apply geomsRaw_congr
  · intro lon n; simp [posVal, hf, skyPos_withDeg]
  · intro n; simp [sizeVal, hf, skySize_withDeg]
  · exact angVal_withDeg

/-- in the image frame a bare position or size is an image-pixel value (`…i`); the rotation
angle is in degrees in every frame. -/
theorem bare_is_pixels (s : Shape) (raw : Raw) :
    geomsRaw .image s (mapRaw (withSuffix .img) (withSuffix .deg) raw) = geomsRaw .image s raw := by
  apply geomsRaw_congr
  · intro lon n; simp [posVal, pixPos_withImg]
  · intro n; simp [sizeVal, pixSize_withImg]
  · exact angVal_withDeg

theorem pairs_map {α β : Type} (g : α → β) (l : List α) :
    pairs (l.map g) = (pairs l).map (List.map fun p => (g p.1, g p.2)) := by
  fun_induction pairs l with
  | case1 => rfl
  | case2 => rfl
  | case3 x y r ps h ih => simp [pairs, ih, h]
  | case4 x y r h ih => simp [pairs, ih, h]

theorem splitLast_map {α β : Type} (g : α → β) (l : List α) :
    splitLast (l.map g) = (splitLast l).map (fun p => (p.1.map g, g p.2)) := by
  fun_induction splitLast l with
  | case1 => rfl
  | case2 => rfl
  | case3 a b r i l h ih => simp only [List.map_cons] at ih ⊢; simp [splitLast, ih, h]
  | case4 a b r h ih => simp only [List.map_cons] at ih ⊢; simp [splitLast, ih, h]

theorem splitArgs_map (g : Num → Num) (s : Shape) (args : List Num) :
    splitArgs s (args.map g) = (splitArgs s args).map (mapRaw g g) := by
  cases s with
  | circle => rcases args with _ | ⟨a, _ | ⟨b, _ | ⟨c, _ | ⟨d, r⟩⟩⟩⟩ <;> simp [splitArgs, mapRaw]
  | point => rcases args with _ | ⟨a, _ | ⟨b, _ | ⟨c, r⟩⟩⟩ <;> simp [splitArgs, mapRaw]
  | text => rcases args with _ | ⟨a, _ | ⟨b, _ | ⟨c, r⟩⟩⟩ <;> simp [splitArgs, mapRaw]
  | line => rcases args with _ | ⟨a, _ | ⟨b, _ | ⟨c, _ | ⟨d, _ | ⟨e, r⟩⟩⟩⟩⟩ <;> simp [splitArgs, mapRaw]
  | polygon =>
    simp only [splitArgs, pairs_map]
    cases pairs args <;> simp [mapRaw]
  | annulus =>
    rcases args with _ | ⟨a, _ | ⟨b, r⟩⟩ <;> simp [splitArgs, mapRaw]
  | ellipse =>
    rcases args with _ | ⟨a, _ | ⟨b, r⟩⟩ <;> simp [splitArgs]
    rw [splitLast_map]
    cases splitLast r <;> simp [pairs_map]
    rename_i p
    cases pairs p.1 <;> simp
    split <;> simp [mapRaw]
  | box =>
    rcases args with _ | ⟨a, _ | ⟨b, r⟩⟩ <;> simp [splitArgs]
    rw [splitLast_map]
    cases splitLast r <;> simp [pairs_map]
    rename_i p
    cases pairs p.1 <;> simp
    split <;> simp [mapRaw]

/-- `bare_is_degrees` on the parameter list as written: append `d` to every bare number of a
region line in a sky frame — nothing changes. -/
theorem bare_is_degrees_line (f : Frame) (hf : f ≠ .image) (s : Shape) (args : List Num) :
    geoms f s (args.map (withSuffix .deg)) = geoms f s args := by
  unfold geoms
  rw [splitArgs_map]
  cases splitArgs s args <;> simp [bare_is_degrees f hf]

/-- the values themselves. -/
theorem bare_values (f : Frame) (hf : f ≠ .image) (lon : Bool) (q : ℚ) :
    posVal f lon (.dec q .none) = some (.deg q) ∧ sizeVal f (.dec q .none) = some (.deg q) ∧
    angVal (.dec q .none) = some (.deg q) ∧
    posVal .image lon (.dec q .none) = some (.pix (q - 1)) ∧ sizeVal .image (.dec q .none) = some (.pix q) := by
  simp [posVal, sizeVal, hf, skyPos, skySize, angVal, pixPos, pixSize]

/-- the size suffixes: `"` = 1/3600 degree, `'` = 1/60 degree, `d` degrees, `r` radians; image
and physical pixels have no angular meaning. -/
theorem skySize_suffixes (f : Frame) (hf : f ≠ .image) (q : ℚ) :
    sizeVal f (.dec q .arcsec) = some (.deg (q / 3600)) ∧ sizeVal f (.dec q .arcmin) = some (.deg (q / 60)) ∧
    sizeVal f (.dec q .deg) = some (.deg q) ∧ sizeVal f (.dec q .rad) = some (.rad q) ∧
    sizeVal f (.dec q .img) = none ∧ sizeVal f (.dec q .phys) = none := by
  simp [sizeVal, hf, skySize]

/-- non-vacuity for `bare_is_degrees`: `circle(10.5, -20, 0.25)` ≡ `circle(10.5d, -20d, 0.25d)` in galactic. -/
example :
    geoms .galactic .circle [.dec (21/2) .none, .dec (-20) .none, .dec (1/4) .none] =
      geoms .galactic .circle [.dec (21/2) .deg, .dec (-20) .deg, .dec (1/4) .deg] ∧
    geoms .galactic .circle [.dec (21/2) .none, .dec (-20) .none, .dec (1/4) .none] =
      [⟨.circle, [(.deg (21/2), .deg (-20))], [.deg (1/4)], none⟩] := by
  decide +kernel

/-! ### sexagesimal: `a:b:c` longitudes are hours only in equatorial frames -/

theorem equatorial_iff (f : Frame) : f.equatorial = true ↔ f = .fk4 ∨ f = .fk5 ∨ f = .icrs := by
  cases f <;> simp [Frame.equatorial]

/-- the frame keywords that make a right ascension: fk4, b1950, fk5, j2000, icrs. -/
theorem equatorial_keywords (k : FrameKw) :
    k.frame.equatorial = true ↔ k = .fk4 ∨ k = .b1950 ∨ k = .fk5 ∨ k = .j2000 ∨ k = .icrs := by
  cases k <;> simp [FrameKw.frame, Frame.equatorial]

/-- **hours_only_equatorial_lon.** The decision, outright: `±a:b:c` is multiplied by 15 (hours →
degrees) exactly when it is the FIRST coordinate of a pair AND the frame is equatorial; the
second coordinate, and both coordinates in galactic/ecliptic, are degrees.  `..h..m..s` is hours
and `..d..m..s` degrees wherever they stand. -/
theorem hours_only_equatorial_lon (f : Frame) (hf : f ≠ .image) (lon neg : Bool) (a b : ℕ) (c : ℚ) :
    posVal f lon (.colon neg a b c) =
      some (.deg ((if lon = true ∧ f.equatorial = true then 15 else 1) * sexa neg a b c)) ∧
    posVal f lon (.hms neg a b c) = some (.deg (15 * sexa neg a b c)) ∧
    posVal f lon (.dms neg a b c) = some (.deg (sexa neg a b c)) := by
  simp only [posVal, if_neg hf, skyPos, Bool.and_eq_true, and_self]

/-- the same for whole coordinate lists (centres, line ends, every polygon vertex): of each pair
only the first number is ever read as hours. -/
theorem colon_points (f : Frame) (hf : f ≠ .image)
    (l : List ((Bool × ℕ × ℕ × ℚ) × (Bool × ℕ × ℕ × ℚ))) :
    traverse (evalPt f) (l.map fun p => (.colon p.1.1 p.1.2.1 p.1.2.2.1 p.1.2.2.2,
                                         .colon p.2.1 p.2.2.1 p.2.2.2.1 p.2.2.2.2)) =
      some (l.map fun p =>
        (.deg ((if f.equatorial = true then 15 else 1) * sexa p.1.1 p.1.2.1 p.1.2.2.1 p.1.2.2.2),
         .deg (sexa p.2.1 p.2.2.1 p.2.2.2.1 p.2.2.2.2))) := by
  induction l with
  | nil => rfl
  | cons p r ih =>
    simp only [List.map_cons, traverse, ih, evalPt, posVal, if_neg hf, skyPos, Bool.true_and,
      Bool.false_and]
    simp

/-- `sexa` is the usual base-60 value. -/
theorem sexa_value (a b : ℕ) (c : ℚ) :
    sexa false a b c = a + b / 60 + c / 3600 ∧ sexa true a b c = -(a + b / 60 + c / 3600) := by
  constructor <;> simp [sexa]

/-- non-vacuity: `point(13:30:00, +47:12:00)` in fk5 / j2000 is RA 202.5°, in galactic l = 13.5°. -/
example :
    geoms (FrameKw.j2000).frame .point [.colon false 13 30 0, .colon false 47 12 0] =
      [⟨.point, [(.deg (405/2), .deg (236/5))], [], none⟩] ∧
    geoms .galactic .point [.colon false 13 30 0, .colon false 47 12 0] =
      [⟨.point, [(.deg (27/2), .deg (236/5))], [], none⟩] ∧
    geoms .galactic .point [.hms false 13 30 0, .dms true 47 12 0] =
      [⟨.point, [(.deg (405/2), .deg (-236/5))], [], none⟩] := by
  decide +kernel

/-! ### per-region properties override global ones; values are verbatim -/

theorem lookup_append (k : String) (a b : List KV) :
    lookup k (a ++ b) = match lookup k a with | some v => some v | none => lookup k b := by
  unfold lookup
  rw [List.find?_append]
  cases List.find? (fun p => decide (p.key = k)) a <;> rfl

theorem lookup_key (k : String) (l : List KV) (p : KV) (h : lookup k l = some p) : p.key = k := by
  unfold lookup at h
  simpa using List.find?_some h

theorem lookup_filter_not_local (k : String) (loc glob : List KV) (h : lookup k loc = none) :
    lookup k (glob.filter fun g => (lookup g.key loc).isNone) = lookup k glob := by
  induction glob with
  | nil => rfl
  | cons g r ih =>
    by_cases hk : g.key = k
    · have hg : (lookup g.key loc).isNone = true := by rw [hk, h]; rfl
      simp only [List.filter_cons, hg, if_true]
      unfold lookup
      simp [hk]
    · by_cases hg : (lookup g.key loc).isNone = true
      · simp only [List.filter_cons, hg, if_true]
        unfold lookup at ih ⊢
        simp [hk, ih]
      · simp only [List.filter_cons, hg]
        unfold lookup at ih ⊢
        simp [hk, ih]

/-- the effective value of a key: the local one if the line sets it, else the global one. -/
theorem lookup_effective (k : String) (loc glob : List KV) :
    lookup k (effective loc glob) =
      match lookup k loc with | some v => some v | none => lookup k glob := by
  unfold effective
  rw [lookup_append]
  cases h : lookup k loc with
  | some v => rfl
  | none => exact lookup_filter_not_local k loc glob h

/-- the properties in force around a line: those of the composite being read (if any) over the
global ones. -/
def ambient (st : State) : List KV := effective st.comp st.globals

theorem lookup_ambient (st : State) (k : String) :
    lookup k (ambient st) = match lookup k st.comp with | some v => some v | none => lookup k st.globals :=
  lookup_effective k st.comp st.globals

/-- outside a composite the ambient properties are the global ones. -/
theorem lookup_ambient_plain (st : State) (hc : st.comp = []) (k : String) :
    lookup k (ambient st) = lookup k st.globals := by
  rw [lookup_ambient, hc]; rfl

/-- a member line (`… ||`) emits exactly what the same line without `||` emits. -/
theorem member_emits_like_region (st : State) (sg : Sign) (sh : Shape) (args : List Num) (loc : List KV) :
    emit st (.member sg sh args loc) = emit st (.region sg sh args loc) := rfl

/-- every region of a line carries the line's effective properties, include flag and frame. -/
theorem region_fields (st : State) (sg : Sign) (sh : Shape) (args : List Num) (loc : List KV)
    (r : Region) (hr : r ∈ emit st (.region sg sh args loc)) :
    r.props = effective loc (ambient st) ∧ r.incl = includeOf sg loc (ambient st) ∧
    st.frame = some r.frame ∧ r.geom ∈ geoms r.frame sh args := by
  unfold emit at hr
  cases hf : st.frame with
  | none => simp [hf] at hr
  | some f =>
    simp only [hf, regionsOf, List.mem_map] at hr
    obtain ⟨g, hg, rfl⟩ := hr
    exact ⟨rfl, rfl, rfl, hg⟩

/-- **local_overrides_global.** For every region of every line and every key: the value is the
one written on the line itself when there is one (whatever the composite header and the `global`
lines say), otherwise the one of the composite the line belongs to, otherwise the one in force
globally:  global < composite < local. -/
theorem local_overrides_global (st : State) (sg : Sign) (sh : Shape) (args : List Num)
    (loc : List KV) (r : Region) (hr : r ∈ emit st (.region sg sh args loc)) (k : String) :
    lookup k r.props =
      match lookup k loc with
      | some v => some v
      | none => match lookup k st.comp with | some v => some v | none => lookup k st.globals := by
  rw [(region_fields st sg sh args loc r hr).1, lookup_effective, lookup_ambient]

/-- the same outside a composite: local, else global. -/
theorem local_overrides_global_plain (st : State) (hc : st.comp = []) (sg : Sign) (sh : Shape)
    (args : List Num) (loc : List KV) (r : Region) (hr : r ∈ emit st (.region sg sh args loc)) (k : String) :
    lookup k r.props = match lookup k loc with | some v => some v | none => lookup k st.globals := by
  rw [local_overrides_global st sg sh args loc r hr, hc]; rfl

/-- **text_verbatim.** The property token the line carries for key `k` — key, delimiter and the
text between the delimiters, character for character — is what the region gets: no trimming, no
conversion to a number, no delimiter stripping. -/
theorem text_verbatim (st : State) (sg : Sign) (sh : Shape) (args : List Num)
    (loc : List KV) (r : Region) (hr : r ∈ emit st (.region sg sh args loc)) (p : KV)
    (hp : lookup p.key loc = some p) : lookup p.key r.props = some p := by
  rw [local_overrides_global st sg sh args loc r hr, hp]

/-- a later `global` line overrides an earlier one key by key and keeps the other keys. -/
theorem later_global_overrides_earlier (st : State) (kvs : List KV) (k : String) :
    lookup k (next st (.global kvs)).globals =
      match lookup k kvs with | some v => some v | none => lookup k st.globals := by
  simp only [next, lookup_append]

/-- a `global` line only acts on the lines after it. -/
theorem global_affects_only_later (st : State) (pre post : List Stmt) (kvs : List KV) :
    run st (pre ++ .global kvs :: post) =
      run st pre ++ run { final st pre with globals := kvs ++ (final st pre).globals } post := by
  rw [run_append]; simp [run, emit, next]

/-- non-vacuity: `global color=green width=2`, then a line with `# color=red text={ a;b }`. -/
example :
    let glob : List KV := [⟨"color", .bare, "green"⟩, ⟨"width", .bare, "2"⟩]
    let loc : List KV := [⟨"color", .bare, "red"⟩, ⟨"text", .brace, " a;b "⟩]
    lookup "color" (effective loc glob) = some ⟨"color", .bare, "red"⟩ ∧
    lookup "width" (effective loc glob) = some ⟨"width", .bare, "2"⟩ ∧
    lookup "text" (effective loc glob) = some ⟨"text", .brace, " a;b "⟩ ∧
    lookup "fill" (effective loc glob) = none := by
  decide +kernel

/-! ### a leading '-' or include=0 marks exclusion -/

/-- **include_sign_vs_key.** A region is EXCLUDED exactly in these three situations:
the line says `include=0`; or the line has no `include=` key and starts with `-`; or the line has
neither an `include=` key nor a sign and the global properties say `include=0`. -/
theorem include_sign_vs_key (sg : Sign) (loc glob : List KV) :
    includeOf sg loc glob = false ↔
      (∃ p, lookup "include" loc = some p ∧ p.val = "0") ∨
      (lookup "include" loc = none ∧ sg = .minus) ∨
      (lookup "include" loc = none ∧ sg = .none ∧ ∃ p, lookup "include" glob = some p ∧ p.val = "0") := by
  unfold includeOf
  cases h1 : lookup "include" loc with
  | some p => simp [KV.off]
  | none =>
    cases sg with
    | minus => simp
    | plus => simp
    | none =>
      cases h2 : lookup "include" glob with
      | some p => simp [KV.off]
      | none => simp

/-- consequences, one per row of the table. -/
theorem minus_excludes (loc glob : List KV) (h : lookup "include" loc = none) :
    includeOf .minus loc glob = false :=
  (include_sign_vs_key _ _ _).2 (Or.inr (Or.inl ⟨h, rfl⟩))

theorem include0_excludes (sg : Sign) (loc glob : List KV) (p : KV)
    (h : lookup "include" loc = some p) (hp : p.val = "0") : includeOf sg loc glob = false :=
  (include_sign_vs_key _ _ _).2 (Or.inl ⟨p, h, hp⟩)

theorem global_include0_excludes (loc glob : List KV) (p : KV) (h : lookup "include" loc = none)
    (hg : lookup "include" glob = some p) (hp : p.val = "0") : includeOf .none loc glob = false :=
  (include_sign_vs_key _ _ _).2 (Or.inr (Or.inr ⟨h, rfl, p, hg, hp⟩))

theorem plain_line_included (loc glob : List KV) (h : lookup "include" loc = none)
    (hg : lookup "include" glob = none) : includeOf .none loc glob = true := by
  simp [includeOf, h, hg]

/-- the flag of an emitted region is that decision. -/
theorem region_incl (st : State) (sg : Sign) (sh : Shape) (args : List Num) (loc : List KV)
    (r : Region) (hr : r ∈ emit st (.region sg sh args loc)) :
    r.incl = includeOf sg loc (ambient st) :=
  (region_fields st sg sh args loc r hr).2.1

/-- non-vacuity: the rows of the table on concrete property lists. -/
example :
    includeOf .minus [] [] = false ∧
    includeOf .plus [⟨"include", .bare, "0"⟩] [] = false ∧
    includeOf .none [⟨"color", .bare, "red"⟩] [⟨"include", .bare, "0"⟩] = false ∧
    includeOf .none [⟨"include", .bare, "1"⟩] [⟨"include", .bare, "0"⟩] = true ∧
    includeOf .plus [] [⟨"include", .bare, "0"⟩] = true ∧
    includeOf .none [] [] = true := by
  decide +kernel

/-! ### multi-radius annulus / ellipse / box expand into consecutive annuli -/

theorem consecutive_length {α : Type} (l : List α) : (consecutive l).length = l.length - 1 := by
  induction l with
  | nil => rfl
  | cons a r ih =>
    cases r with
    | nil => rfl
    | cons b r => simp only [consecutive, List.length_cons, ih]; omega

theorem consecutive_getElem {α : Type} (l : List α) (i : ℕ) (h : i + 1 < l.length)
    (h' : i < (consecutive l).length := by rw [consecutive_length]; omega) :
    (consecutive l)[i] = (l[i]'(by omega), l[i + 1]) := by
  induction l generalizing i with
  | nil => simp at h
  | cons a r ih =>
    cases r with
    | nil => simp at h
    | cons b r =>
      cases i with
      | zero => simp [consecutive]
      | succ i =>
        simp only [consecutive, List.getElem_cons_succ]
        exact ih i (by simpa using h) _

theorem traverse_length {α β : Type} (g : α → Option β) (l : List α) (m : List β)
    (h : traverse g l = some m) : m.length = l.length := by
  induction l generalizing m with
  | nil => simp [traverse] at h; subst h; rfl
  | cons a r ih =>
    simp only [traverse] at h
    cases ha : g a with
    | none => simp [ha] at h
    | some b =>
      cases hr : traverse g r with
      | none => simp [ha, hr] at h
      | some bs =>
        simp only [ha, hr, Option.some.injEq] at h
        subst h
        simp [ih bs hr]

theorem traverse_getElem {α β : Type} (g : α → Option β) (l : List α) (m : List β)
    (h : traverse g l = some m) (i : ℕ) (hi : i < l.length)
    (hi' : i < m.length := by rw [traverse_length g l m h]; exact hi) :
    g l[i] = some m[i] := by
  induction l generalizing m i with
  | nil => simp at hi
  | cons a r ih =>
    simp only [traverse] at h
    cases ha : g a with
    | none => simp [ha] at h
    | some b =>
      cases hr : traverse g r with
      | none => simp [ha, hr] at h
      | some bs =>
        simp only [ha, hr, Option.some.injEq] at h
        subst h
        cases i with
        | zero => simpa using ha
        | succ i => simpa using ih bs hr i (by simpa using hi) (by simpa using hi')

/-- **multi_annulus_expansion.** `annulus x y r₁ … rₙ` (n ≥ 2, any n) is the list of the n−1
annuli (rᵢ, rᵢ₊₁), in order, all with the same centre: region `i` has inner radius rᵢ and outer
radius rᵢ₊₁ — so the outer radius of each is the inner radius of the next. -/
theorem multi_annulus_expansion (f : Frame) (x y : Num) (rs : List Num) (c : Val × Val)
    (radii : List Val) (hn : 2 ≤ rs.length) (hc : evalPt f (x, y) = some c)
    (hr : traverse (sizeVal f) rs = some radii) :
    geoms f .annulus (x :: y :: rs) =
      (consecutive radii).map (fun p => ⟨.circleAnnulus, [c], [p.1, p.2], none⟩) ∧
    (geoms f .annulus (x :: y :: rs)).length = rs.length - 1 ∧
    ∀ i (h : i + 1 < radii.length) (h' : i < (geoms f .annulus (x :: y :: rs)).length),
      (geoms f .annulus (x :: y :: rs))[i] =
        ⟨.circleAnnulus, [c], [radii[i]'(by omega), radii[i + 1]], none⟩ := by
  have h0 : geoms f .annulus (x :: y :: rs) =
      (consecutive radii).map (fun p => ⟨.circleAnnulus, [c], [p.1, p.2], none⟩) := by
    simp [geoms, geomsRaw, splitArgs, hn, traverse, hc, hr, evalAngle, build]
  refine ⟨h0, ?_, ?_⟩
  · rw [h0, List.length_map, consecutive_length, traverse_length _ _ _ hr]
  · intro i h h'
    simp only [h0, List.getElem_map]
    rw [consecutive_getElem radii i h]

/-- `[(a₁,b₁), …] ↦ [a₁, b₁, …]` — how the pairs of a multi-ellipse / multi-box line are written. -/
def flatPairs : List (Num × Num) → List Num
  | [] => []
  | p :: r => p.1 :: p.2 :: flatPairs r

theorem pairs_flatPairs (ps : List (Num × Num)) : pairs (flatPairs ps) = some ps := by
  induction ps with
  | nil => rfl
  | cons p r ih => simp [flatPairs, pairs, ih]

theorem splitLast_append {α : Type} (l : List α) (a : α) : splitLast (l ++ [a]) = some (l, a) := by
  induction l with
  | nil => rfl
  | cons x r ih =>
    cases r with
    | nil => rfl
    | cons y r => simp only [List.cons_append] at ih ⊢; simp [splitLast, ih]

/-- **multi_ellipse_expansion.** `ellipse x y a₁ b₁ … aₙ bₙ θ` with n ≥ 2 pairs is the list of
the n−1 elliptical annuli between consecutive pairs, in order, sharing centre and angle; every
axis is doubled (semi-axes). -/
theorem multi_ellipse_expansion (f : Frame) (x y t : Num) (ps : List (Num × Num)) (c : Val × Val)
    (axes : List (Val × Val)) (ang : Val) (hn : 2 ≤ ps.length) (hc : evalPt f (x, y) = some c)
    (ha : traverse (evalPair f) ps = some axes) (ht : angVal t = some ang) :
    geoms f .ellipse (x :: y :: (flatPairs ps ++ [t])) =
      (consecutive axes).map (fun p =>
        ⟨.ellipseAnnulus, [c], [p.1.1.dbl, p.1.2.dbl, p.2.1.dbl, p.2.2.dbl], some ang⟩) ∧
    (geoms f .ellipse (x :: y :: (flatPairs ps ++ [t]))).length = ps.length - 1 := by
  have hl : axes.length = ps.length := traverse_length _ _ _ ha
  have h0 : geoms f .ellipse (x :: y :: (flatPairs ps ++ [t])) =
      (consecutive axes).map (fun p =>
        ⟨.ellipseAnnulus, [c], [p.1.1.dbl, p.1.2.dbl, p.2.1.dbl, p.2.2.dbl], some ang⟩) := by
    have h1 : 1 ≤ ps.length := by omega
    simp only [geoms, splitArgs, splitLast_append, pairs_flatPairs, h1, if_true, geomsRaw, traverse, hc, ha,
      evalAngle, ht, build]
    rcases axes with _ | ⟨a, _ | ⟨b, r⟩⟩
    · simp at hl; omega
    · simp at hl; omega
    · rfl
  exact ⟨h0, by rw [h0, List.length_map, consecutive_length, hl]⟩

/-- **multi_box_expansion.** The same for `box x y w₁ h₁ … wₙ hₙ θ`, without the doubling. -/
theorem multi_box_expansion (f : Frame) (x y t : Num) (ps : List (Num × Num)) (c : Val × Val)
    (axes : List (Val × Val)) (ang : Val) (hn : 2 ≤ ps.length) (hc : evalPt f (x, y) = some c)
    (ha : traverse (evalPair f) ps = some axes) (ht : angVal t = some ang) :
    geoms f .box (x :: y :: (flatPairs ps ++ [t])) =
      (consecutive axes).map (fun p =>
        ⟨.rectangleAnnulus, [c], [p.1.1, p.1.2, p.2.1, p.2.2], some ang⟩) ∧
    (geoms f .box (x :: y :: (flatPairs ps ++ [t]))).length = ps.length - 1 := by
  have hl : axes.length = ps.length := traverse_length _ _ _ ha
  have h0 : geoms f .box (x :: y :: (flatPairs ps ++ [t])) =
      (consecutive axes).map (fun p =>
        ⟨.rectangleAnnulus, [c], [p.1.1, p.1.2, p.2.1, p.2.2], some ang⟩) := by
    have h1 : 1 ≤ ps.length := by omega
    simp only [geoms, splitArgs, splitLast_append, pairs_flatPairs, h1, if_true, geomsRaw, traverse, hc, ha,
      evalAngle, ht, build]
    rcases axes with _ | ⟨a, _ | ⟨b, r⟩⟩
    · simp at hl; omega
    · simp at hl; omega
    · rfl
  exact ⟨h0, by rw [h0, List.length_map, consecutive_length, hl]⟩

/-- the i-th annulus of a multi-ellipse / multi-box line lies between pair i and pair i+1. -/
theorem consecutive_map_getElem {α β : Type} (l : List α) (g : α × α → β) (i : ℕ)
    (h : i + 1 < l.length) (h' : i < ((consecutive l).map g).length) :
    ((consecutive l).map g)[i] = g (l[i]'(by omega), l[i + 1]) := by
  simp only [List.getElem_map]; rw [consecutive_getElem l i h]

/-- non-vacuity: `annulus(10,20,3,5,8)` in image and `ellipse(10,20,1,2,3,4,5,6,30)` in fk5. -/
example :
    geoms .image .annulus [.dec 10 .none, .dec 20 .none, .dec 3 .none, .dec 5 .none, .dec 8 .none] =
      [⟨.circleAnnulus, [(.pix 9, .pix 19)], [.pix 3, .pix 5], none⟩,
       ⟨.circleAnnulus, [(.pix 9, .pix 19)], [.pix 5, .pix 8], none⟩] ∧
    geoms .fk5 .ellipse [.dec 10 .none, .dec 20 .none, .dec 1 .arcmin, .dec 2 .arcmin, .dec 3 .arcmin,
        .dec 4 .arcmin, .dec 5 .arcmin, .dec 6 .arcmin, .dec 30 .none] =
      [⟨.ellipseAnnulus, [(.deg 10, .deg 20)], [.deg (1/30), .deg (1/15), .deg (1/10), .deg (2/15)], some (.deg 30)⟩,
       ⟨.ellipseAnnulus, [(.deg 10, .deg 20)], [.deg (1/10), .deg (2/15), .deg (1/6), .deg (1/5)], some (.deg 30)⟩] := by
  decide +kernel

/-! ### newline, ';' and optional parentheses / commas are interchangeable -/

theorem splitStmts_map (g : Tok → Tok) (hs : ∀ t, isSep t = true → isSep (g t) = true)
    (hn : ∀ t, isSep t = false → g t = t) (l : List Tok) :
    splitStmts (l.map g) = splitStmts l := by
  induction l with
  | nil => rfl
  | cons t r ih =>
    simp only [List.map_cons, splitStmts, ih]
    cases h : isSep t with
    | true => simp [hs t h]
    | false => rw [hn t h]; simp [h]

theorem stripPunct_map (g : Tok → Tok) (hs : ∀ t, isSep t = true → isSep (g t) = true)
    (hn : ∀ t, isSep t = false → g t = t) (l : List Tok) :
    stripPunct (l.map g) = (stripPunct l).map g := by
  unfold stripPunct
  rw [List.filter_map]
  congr 1
  apply List.filter_congr
  intro t _
  cases h : isSep t with
  | false => simp [hn t h]
  | true =>
    have h2 := hs t h
    have p1 : isPunct t = false := by cases t <;> simp_all [isSep, isPunct]
    have p2 : isPunct (g t) = false := by
      generalize g t = u at h2
      cases u <;> simp_all [isSep, isPunct]
    simp [p1, p2]

/-- **separators_interchangeable.** Any re-labelling of the statement separators — every newline
to ';', every ';' to newline, or any mixture, position by position — leaves the regions
unchanged: `g` may send each separator to any separator and must leave every other token alone. -/
theorem separators_interchangeable (g : Tok → Tok)
    (hs : ∀ t, isSep t = true → isSep (g t) = true) (hn : ∀ t, isSep t = false → g t = t)
    (toks : List Tok) : interp (toks.map g) = interp toks := by
  unfold interp stmtsOf
  rw [stripPunct_map g hs hn, splitStmts_map g hs hn]

/-- one line per statement  ≡  everything on one line with ';'. -/
theorem newline_eq_semicolon (toks : List Tok) :
    interp (toks.map fun t => if t = .nl then .semi else t) = interp toks ∧
    interp (toks.map fun t => if t = .semi then .nl else t) = interp toks := by
  constructor <;> apply separators_interchangeable
  · intro t h; cases t <;> simp_all [isSep]
  · intro t h; cases t <;> simp_all [isSep]
  · intro t h; cases t <;> simp_all [isSep]
  · intro t h; cases t <;> simp_all [isSep]

/-- **punctuation_optional.** Parentheses and commas carry no meaning: two token streams that
differ only in where `(`, `)` and `,` stand (or whether they are there at all) give the same
regions.  In particular any single one can be inserted or removed anywhere. -/
theorem punctuation_optional (a b : List Tok) (h : stripPunct a = stripPunct b) :
    interp a = interp b := by
  unfold interp stmtsOf; rw [h]

theorem punct_insert (l₁ l₂ : List Tok) (p : Tok) (hp : isPunct p = true) :
    interp (l₁ ++ p :: l₂) = interp (l₁ ++ l₂) := by
  apply punctuation_optional
  simp [stripPunct, List.filter_append, hp]

theorem punct_strip (toks : List Tok) : interp (stripPunct toks) = interp toks := by
  apply punctuation_optional
  simp [stripPunct, List.filter_filter]

/-- non-vacuity / end to end: `fk5 ⏎ circle(10,20,3") # color=red ⏎ -box 1 2 3 4 5` read with
newlines and parentheses/commas equals `fk5;circle 10 20 3" # color=red;-box(1,2,3,4,5)`. -/
example :
    interp [.word (.frame .fk5), .nl,
            .word (.shape .circle), .lpar, .num (.dec 10 .none), .comma, .num (.dec 20 .none), .comma,
              .num (.dec 3 .arcsec), .rpar, .hash, .kv ⟨"color", .bare, "red"⟩, .nl,
            .minus, .word (.shape .box), .num (.dec 1 .none), .num (.dec 2 .none), .num (.dec 3 .none),
              .num (.dec 4 .none), .num (.dec 5 .none)] =
    interp [.word (.frame .fk5), .semi,
            .word (.shape .circle), .num (.dec 10 .none), .num (.dec 20 .none),
              .num (.dec 3 .arcsec), .hash, .kv ⟨"color", .bare, "red"⟩, .semi,
            .minus, .word (.shape .box), .lpar, .num (.dec 1 .none), .comma, .num (.dec 2 .none), .comma,
              .num (.dec 3 .none), .comma, .num (.dec 4 .none), .comma, .num (.dec 5 .none), .rpar] ∧
    interp [.word (.frame .fk5), .semi,
            .word (.shape .circle), .num (.dec 10 .none), .num (.dec 20 .none),
              .num (.dec 3 .arcsec), .hash, .kv ⟨"color", .bare, "red"⟩, .semi,
            .minus, .word (.shape .box), .num (.dec 1 .none), .num (.dec 2 .none), .num (.dec 3 .none),
              .num (.dec 4 .none), .num (.dec 5 .none)] =
      [⟨⟨.circle, [(.deg 10, .deg 20)], [.deg (1/1200)], none⟩, .fk5, true, [⟨"color", .bare, "red"⟩]⟩,
       ⟨⟨.rectangle, [(.deg 1, .deg 2)], [.deg 3, .deg 4], some (.deg 5)⟩, .fk5, false, []⟩] := by
  decide +kernel

/-! ### unsupported shapes / frames are skipped without affecting the other regions -/

/-- statements that are skipped whatever the state: blank lines, comments, unsupported shapes that
are followed by `||`, lines outside the grammar. -/
def inert : Stmt → Bool
  | .blank | .comment | .badMember | .junk => true
  | _ => false

theorem inert_noop (st : State) (s : Stmt) (h : inert s = true) : emit st s = [] ∧ next st s = st := by
  cases s <;> simp_all [inert, emit, next]

theorem comp_reset_noop (st : State) (hc : st.comp = []) : { st with comp := [] } = st := by
  cases st; simp_all

/-- **unsupported_skipped_independent.** Deleting an unsupported-shape line (or a comment, a blank
line) from anywhere in a file of any length changes nothing: the regions before it AND after it
are exactly the same, in the same order.  (`s` inert: a comment, a blank line, an unsupported
shape followed by `||`; for an unsupported shape NOT followed by `||` see the next theorem.) -/
theorem unsupported_skipped_independent (st : State) (pre post : List Stmt) (s : Stmt)
    (h : inert s = true) : run st (pre ++ s :: post) = run st (pre ++ post) := by
  obtain ⟨h1, h2⟩ := inert_noop (final st pre) s h
  rw [run_append, run_append, run, h1, h2, List.nil_append]

/-- an unsupported shape line that is not followed by `||` is skipped in the same way wherever no
composite is open; inside a composite it is the composite's last member (it still yields no
region, and the composite ends after it as after any other last member). -/
theorem unsupported_shape_skipped (st : State) (pre post : List Stmt)
    (hc : (final st pre).comp = []) : run st (pre ++ .badShape :: post) = run st (pre ++ post) := by
  rw [run_append, run_append, run]
  simp only [emit, next, List.nil_append, comp_reset_noop _ hc]

/-- a region line whose numbers cannot be represented in the active frame (`3"` in `image`,
`10i` in `fk5`, physical `p`, …) is skipped in the same way. -/
theorem unrepresentable_skipped (st : State) (pre post : List Stmt) (sg : Sign) (sh : Shape)
    (args : List Num) (kvs : List KV) (hc : (final st pre).comp = [])
    (hgeo : ∀ f, (final st pre).frame = some f → geoms f sh args = []) :
    run st (pre ++ .region sg sh args kvs :: post) = run st (pre ++ post) := by
  rw [run_append, run_append, run]
  have : emit (final st pre) (.region sg sh args kvs) = [] := by
    unfold emit
    cases hf : (final st pre).frame with
    | none => rfl
    | some f => simp [regionsOf, hgeo f hf]
  rw [this]
  simp only [next, List.nil_append, comp_reset_noop _ hc]

/-- global and composite properties evolve independently of the frame. -/
theorem final_props_congr (st st' : State) (l : List Stmt) (hg : st.globals = st'.globals)
    (hc : st.comp = st'.comp) :
    (final st l).globals = (final st' l).globals ∧ (final st l).comp = (final st' l).comp := by
  induction l generalizing st st' with
  | nil => exact ⟨hg, hc⟩
  | cons s r ih =>
    rw [final_cons, final_cons]
    apply ih
    · cases s <;> simp [next, hg]
    · cases s <;> simp [next, hc]

/-- **unsupported_frame_scope.** An unsupported frame line cancels the active frame up to the next
frame line and does nothing else: the output is that of the same file WITHOUT the unsupported
frame line, minus the regions of the lines `mid` in its scope — the regions before it are
untouched, and from the next frame line on everything (frame, global and composite properties)
is exactly as if the line had not been there. -/
theorem unsupported_frame_scope (st : State) (pre mid post : List Stmt) (k : FrameKw)
    (hmid : ∀ s ∈ mid, isFrameLine s = false) :
    run st (pre ++ .badFrame :: mid ++ .frame k :: post) =
      run st pre ++ run (final st (pre ++ mid ++ [.frame k])) post ∧
    run st (pre ++ mid ++ .frame k :: post) =
      run st pre ++ run (final st pre) mid ++ run (final st (pre ++ mid ++ [.frame k])) post := by
  have hnone : run (next (final st pre) .badFrame) mid = [] := by
    apply no_frame_no_region_scope _ rfl
    intro s hs k' hk'
    have := hmid s hs
    rw [hk'] at this
    simp [isFrameLine] at this
  have hst : final st (pre ++ Stmt.badFrame :: mid ++ [Stmt.frame k]) = final st (pre ++ mid ++ [Stmt.frame k]) := by
    have e : pre ++ Stmt.badFrame :: mid ++ [Stmt.frame k] = pre ++ ([Stmt.badFrame] ++ (mid ++ [Stmt.frame k])) := by simp
    rw [e, final_append, final_append, final_append, final_append, final_append]
    obtain ⟨h1, h2⟩ := final_props_congr (final (final st pre) [Stmt.badFrame]) (final st pre) mid rfl rfl
    simp only [final, List.foldl_cons, List.foldl_nil, next] at h1 h2 ⊢
    rw [h1, h2]
  constructor
  · have e : pre ++ Stmt.badFrame :: mid ++ Stmt.frame k :: post =
        (pre ++ Stmt.badFrame :: mid ++ [Stmt.frame k]) ++ post := by simp
    rw [e, run_append, hst]
    congr 1
    have e2 : pre ++ Stmt.badFrame :: mid ++ [Stmt.frame k] = pre ++ (Stmt.badFrame :: (mid ++ [Stmt.frame k])) := by simp
    rw [e2, run_append, run, run_append]
    simp only [emit, List.nil_append, hnone, run, List.append_nil]
  · have e : pre ++ mid ++ Stmt.frame k :: post = (pre ++ mid ++ [Stmt.frame k]) ++ post := by simp
    rw [e, run_append]
    congr 1
    rw [run_append, run_append]
    simp [run, emit]

/-! ### composites: `# composite(...) || composite=1 props`, members `… ||`, last member without `||` -/

/-- lines that continue a composite. -/
def isMemberLine : Stmt → Bool
  | .member _ _ _ _ | .badMember => true
  | _ => false

theorem final_members (st : State) (ms : List Stmt) (h : ∀ m ∈ ms, isMemberLine m = true) :
    final st ms = st := by
  induction ms generalizing st with
  | nil => rfl
  | cons m r ih =>
    have hm := h m List.mem_cons_self
    rw [final_cons]
    have : next st m = st := by cases m <;> simp_all [isMemberLine, next]
    rw [this]
    exact ih _ (fun x hx => h x (List.mem_cons_of_mem _ hx))

/-- **composite_scope.** A composite of any number of members: every member line AND the last line
(the one without `||`) is read with the header's properties in force; after the last line they
are gone — the rest of the file is read exactly as if the composite had never set them. -/
theorem composite_scope (st : State) (kvs : List KV) (ms : List Stmt)
    (hms : ∀ m ∈ ms, isMemberLine m = true) (sg : Sign) (sh : Shape) (args : List Num) (loc : List KV)
    (post : List Stmt) :
    run st (.composite kvs :: ms ++ .region sg sh args loc :: post) =
      run { st with comp := compProps kvs } ms ++
      emit { st with comp := compProps kvs } (.region sg sh args loc) ++
      run { st with comp := [] } post := by
  rw [List.cons_append, run]
  simp only [emit, List.nil_append, next]
  rw [run_append, final_members _ ms hms, run]
  simp only [emit, next, List.append_assoc]

/-- every member is read in the state the header leaves. -/
theorem composite_member_state (st : State) (kvs : List KV) (ms : List Stmt)
    (hms : ∀ m ∈ ms, isMemberLine m = true) :
    final st (.composite kvs :: ms) = { st with comp := compProps kvs } := by
  rw [final_cons, final_members _ ms hms]; rfl

/-- **composite_overrides_global.** For the regions of the LAST member (and, by
`member_emits_like_region`, of every member): own property, else the composite's, else the global. -/
theorem composite_overrides_global (st : State) (kvs : List KV) (sg : Sign) (sh : Shape)
    (args : List Num) (loc : List KV) (r : Region)
    (hr : r ∈ emit { st with comp := compProps kvs } (.region sg sh args loc)) (k : String) :
    lookup k r.props =
      match lookup k loc with
      | some v => some v
      | none => match lookup k (compProps kvs) with | some v => some v | none => lookup k st.globals :=
  local_overrides_global _ sg sh args loc r hr k

theorem lookup_filter_of_key (k : String) (q : KV → Bool) (l : List KV)
    (h : ∀ p : KV, p.key = k → q p = true) : lookup k (l.filter q) = lookup k l := by
  induction l with
  | nil => rfl
  | cons p r ih =>
    unfold lookup at ih ⊢
    by_cases hq : q p = true
    · by_cases hp : p.key = k
      · simp [List.filter_cons, hq, hp]
      · simp [List.filter_cons, hq, hp, ih]
    · have hp : ¬ p.key = k := fun e => hq (h p e)
      simp [List.filter_cons, hq, hp, ih]

/-- `composite=1` itself is not handed down; every other header property is, verbatim. -/
theorem lookup_compProps (kvs : List KV) (k : String) (hk : k ≠ "composite") :
    lookup k (compProps kvs) = lookup k kvs := by
  unfold compProps
  apply lookup_filter_of_key
  intro p hp
  simp only [ne_eq, decide_eq_true_eq]
  rw [hp]; exact hk

/-- non-vacuity, the composite conventions on a file: global color=green; a composite with
color=red include=0 and three members, the second with its own color, the last without `||`; then a
plain circle (global colour again, included); then a second composite. -/
example :
    (interp [.word .global, .kv ⟨"color", .bare, "green"⟩, .nl, .word (.frame .image), .nl,
            .hash, .word .composite, .num (.dec 1 .none), .num (.dec 2 .none), .num (.dec 0 .none), .bars,
              .kv ⟨"composite", .bare, "1"⟩, .kv ⟨"color", .bare, "red"⟩, .kv ⟨"include", .bare, "0"⟩, .nl,
            .word (.shape .point), .num (.dec 1 .none), .num (.dec 2 .none), .bars, .nl,
            .plus, .word (.shape .point), .num (.dec 3 .none), .num (.dec 4 .none), .bars, .hash,
              .kv ⟨"color", .bare, "blue"⟩, .nl,
            .word (.shape .point), .num (.dec 5 .none), .num (.dec 6 .none), .nl,
            .word (.shape .point), .num (.dec 7 .none), .num (.dec 8 .none), .nl,
            .hash, .word .composite, .num (.dec 1 .none), .num (.dec 2 .none), .num (.dec 0 .none), .bars,
              .kv ⟨"composite", .bare, "1"⟩, .kv ⟨"width", .bare, "3"⟩, .nl,
            .word (.shape .point), .num (.dec 9 .none), .num (.dec 9 .none)]).map
        (fun r => (r.incl, lookup "color" r.props, lookup "width" r.props, lookup "composite" r.props)) =
      [(false, some ⟨"color", .bare, "red"⟩, none, none),
       (true, some ⟨"color", .bare, "blue"⟩, none, none),
       (false, some ⟨"color", .bare, "red"⟩, none, none),      -- the LAST member still belongs to the composite
       (true, some ⟨"color", .bare, "green"⟩, none, none),     -- the next region does not
       (true, some ⟨"color", .bare, "green"⟩, some ⟨"width", .bare, "3"⟩, none)] := by
  decide +kernel

/-- non-vacuity: `image; circle(1,2,3); panda(...); physical; circle(4,5,6); fk5; point(7,8)`. -/
example :
    interp [.word (.frame .image), .semi,
            .word (.shape .circle), .num (.dec 1 .none), .num (.dec 2 .none), .num (.dec 3 .none), .semi,
            .word .badShape, .num (.dec 1 .none), .num (.dec 2 .none), .semi,
            .word .badFrame, .semi,
            .word (.shape .circle), .num (.dec 4 .none), .num (.dec 5 .none), .num (.dec 6 .none), .semi,
            .word (.frame .fk5), .semi,
            .word (.shape .point), .num (.dec 7 .none), .num (.dec 8 .none)] =
      [⟨⟨.circle, [(.pix 0, .pix 1)], [.pix 3], none⟩, .image, true, []⟩,
       ⟨⟨.point, [(.deg 7, .deg 8)], [], none⟩, .fk5, true, []⟩] ∧
    -- a region line in a frame in which its numbers have no meaning
    interp [.word (.frame .image), .nl,
            .word (.shape .circle), .num (.dec 1 .none), .num (.dec 2 .none), .num (.dec 3 .arcsec)] = [] ∧
    -- no frame at all
    interp [.word (.shape .circle), .num (.dec 1 .none), .num (.dec 2 .none), .num (.dec 3 .none)] = [] := by
  decide +kernel

/-! ### keywords and property keys are case-insensitive (executable lexer, used by the driver) -/

example :
    classify "CIRCLE" = .shape .circle ∧ classify "Circle" = classify "circle" ∧
    classify "J2000" = .frame .j2000 ∧ classify "Physical" = .badFrame ∧ classify "WCSa" = .badFrame ∧
    classify "bPanda" = .badShape ∧ classify "GLOBAL" = .global ∧ classify "foo" = .other ∧
    mkKV "TEXT" .brace "Hi There" = ⟨"text", .brace, "Hi There"⟩ := by
  decide +kernel

/-! ### the hypotheses of the scope theorems are satisfiable -/

/-- a scope made of region lines, a `global` line, a comment and an unsupported shape contains no
frame line (hypothesis of `frame_persistence`, `frame_scope`, `unsupported_frame_scope`), and it is
not inert as a whole: in `fk5` it emits two regions, after an unsupported frame none. -/
example :
    let mid : List Stmt :=
      [.region .none .point [.dec 1 .none, .dec 2 .none] [], .global [⟨"color", .bare, "red"⟩], .comment,
       .badShape, .region .minus .point [.dec 3 .none, .dec 4 .none] []]
    (∀ s ∈ mid, isFrameLine s = false) ∧
    (run init (.frame .fk5 :: mid)).length = 2 ∧
    (∀ r ∈ run init (.frame .fk5 :: mid), r.frame = .fk5) ∧
    run init (.frame .fk5 :: .badFrame :: mid) = [] ∧
    inert .badMember = true ∧ inert .comment = true ∧
    (∀ f, (final init [.frame .image]).frame = some f →
      geoms f .circle [.dec 1 .none, .dec 2 .none, .dec 3 .arcsec] = []) := by
  decide +kernel

/-! ### character level: the executable lexer `Spec.Ds9.lex` (no general theorems; the driver checks
`lex text = tokens` on every generated file) -/

example :
    lex "FK5; -Circle(10:00:00, -20:30:00.5 3\")" =
      [.word (.frame .fk5), .semi, .minus, .word (.shape .circle), .lpar, .num (.colon false 10 0 0), .comma,
       .num (.colon true 20 30 (1/2)), .num (.dec 3 .arcsec), .rpar] := by
  decide +kernel

example :
    lex "box # Color=red TEXT={Hi; there} dashlist=8 3 note\n# c" =
      [.word (.shape .box), .hash, .kv ⟨"color", .bare, "red"⟩, .kv ⟨"text", .brace, "Hi; there"⟩,
       .kv ⟨"dashlist", .bare, "8 3"⟩, .note "note", .nl, .hash, .note "c"] := by
  decide +kernel

/-- from characters to regions: newline/parentheses/commas versus ';'/blanks, read by `lex`. -/
example :
    interp (lex "image\n-box(10.5,20,4,3,30) # text={007}") =
      [⟨⟨.rectangle, [(.pix (19/2), .pix 19)], [.pix 4, .pix 3], some (.deg 30)⟩, .image, false,
          [⟨"text", .brace, "007"⟩]⟩] ∧
    interp (lex "IMAGE;-Box 10.5 20 4 3 30 # TEXT={007}") =
      [⟨⟨.rectangle, [(.pix (19/2), .pix 19)], [.pix 4, .pix 3], some (.deg 30)⟩, .image, false,
          [⟨"text", .brace, "007"⟩]⟩] := by
  decide +kernel

/-! ### the current reader versus the composite conventions (open findings F105, F106)

`Impl.Ds9Read.runQ q` is the reference with the reader's two known deviations switched on by `q`.
The full clause "the reader's composite handling IS the reference's" is refuted for each
deviation by a concrete file, and proved for every file outside the deviations' input classes
(`quirkFree`, decidable).  When the fixes are committed, `Impl.Ds9Read.currentCode` is set to
`Quirks.none`, for which the full clause holds (`runQ_none`). -/

open RegionsVerif.Impl.Ds9Read

theorem runQ_none (st : State) (l : List Stmt) : runQ Quirks.none st l = run st l := by
  induction l generalizing st with
  | nil => rfl
  | cons s r ih =>
    have : nextQ Quirks.none st s = next st s := by cases s <;> simp [nextQ, next, Quirks.none]
    simp only [runQ, run, this, ih]

/-- full clause, F105: with the header values lower-cased the reader still reads every file as the
conventions say. -/
def composite_values_full : Prop := ∀ toks, interpQ ⟨true, false⟩ toks = interp toks

/-- refuted: `image; # composite(1,2,0) || composite=1 color=Red; point(1,2)`. -/
theorem composite_values_full_refuted : ¬ composite_values_full := by
  intro h
  have := h [.word (.frame .image), .nl, .hash, .word .composite, .num (.dec 1 .none), .num (.dec 2 .none),
             .num (.dec 0 .none), .bars, .kv ⟨"composite", .bare, "1"⟩, .kv ⟨"color", .bare, "Red"⟩, .nl,
             .word (.shape .point), .num (.dec 1 .none), .num (.dec 2 .none)]
  revert this
  decide +kernel

/-- full clause, F106: with an unsupported last member not ending the composite the reader still
reads every file as the conventions say. -/
def composite_last_member_full : Prop := ∀ toks, interpQ ⟨false, true⟩ toks = interp toks

/-- refuted: `image; composite(1,2,0) || composite=1 color=red; point(1,2) ||; ruler(…); point(3,4)`:
the last point is NOT a member, the reader gives it the composite's colour. -/
theorem composite_last_member_full_refuted : ¬ composite_last_member_full := by
  intro h
  have := h [.word (.frame .image), .nl, .word .composite, .num (.dec 1 .none), .num (.dec 2 .none),
             .num (.dec 0 .none), .bars, .kv ⟨"composite", .bare, "1"⟩, .kv ⟨"color", .bare, "red"⟩, .nl,
             .word (.shape .point), .num (.dec 1 .none), .num (.dec 2 .none), .bars, .nl,
             .word .badShape, .num (.dec 1 .none), .nl,
             .word (.shape .point), .num (.dec 3 .none), .num (.dec 4 .none)]
  revert this
  decide +kernel

/-- **composite_partial.** Outside the two input classes — whatever deviations are switched on —
the reader's composite handling is the reference's, for files of any length. -/
theorem composite_partial (q : Quirks) (st : State) (l : List Stmt) (h : quirkFree q st l = true) :
    runQ q st l = run st l := by
  induction l generalizing st with
  | nil => rfl
  | cons s r ih =>
    simp only [quirkFree, Bool.and_eq_true] at h
    obtain ⟨hs, hr⟩ := h
    have hn : nextQ q st s = next st s := by
      cases s with
      | composite kvs =>
        simp only [Bool.and_eq_true, Bool.or_eq_true, Bool.not_eq_true', decide_eq_true_eq] at hs
        obtain ⟨h1, h2⟩ := hs
        have hskip : (q.badLastMemberKeepsComposite && st.frame.isNone) = false := by
          rcases h2 with h2 | h2
          · simp [h2]
          · cases hf : st.frame <;> simp_all
        simp only [nextQ, next, hskip, Bool.false_eq_true, if_false]
        rcases h1 with hq | hk
        · simp [hq]
        · split
          · rw [hk]
          · rfl
      | badShape =>
        simp only [Bool.or_eq_true, Bool.not_eq_true', decide_eq_true_eq] at hs
        rcases hs with hq | hc
        · simp [nextQ, next, hq]
        · simp only [nextQ, next]
          split
          · exact (comp_reset_noop st hc).symm
          · rfl
      | _ => rfl
    simp only [runQ, run, hn, ih _ hr]

theorem composite_partial_interp (q : Quirks) (toks : List Tok)
    (h : quirkFree q init (stmtsOf toks) = true) : interpQ q toks = interp toks :=
  composite_partial q init _ h

/-- the predicate is satisfiable by files that do contain composites and unsupported shapes:
lower-case header values, an unsupported shape as a MIDDLE member and another one outside. -/
example :
    quirkFree Quirks.b51f440 init
      [.frame .image, .composite [⟨"composite", .bare, "1"⟩, ⟨"color", .bare, "red"⟩, ⟨"text", .brace, "a b"⟩],
       .member .none .point [.dec 1 .none, .dec 2 .none] [⟨"text", .brace, "Own Text"⟩], .badMember,
       .region .minus .point [.dec 3 .none, .dec 4 .none] [], .badShape,
       .region .none .point [.dec 5 .none, .dec 6 .none] []] = true ∧
    quirkFree Quirks.b51f440 init
      [.frame .image, .composite [⟨"color", .bare, "Red"⟩], .region .none .point [.dec 1 .none, .dec 2 .none] []] = false ∧
    quirkFree Quirks.b51f440 init
      [.frame .image, .composite [⟨"color", .bare, "red"⟩], .member .none .point [.dec 1 .none, .dec 2 .none] [],
       .badShape] = false := by
  decide +kernel

end RegionsVerif.Props.C10
