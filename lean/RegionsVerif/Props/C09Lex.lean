/-
C09 — characters: `lex (render o) = toRaw o` as a THEOREM (`lex_render`), for files of any length,
any precision, any numbers, under the decidable side condition `WellFormedText o` on the metadata
strings (what it excludes and why: `Props/C09LexLemmas.lean`, "the side condition of the theorem").
`toRaw (roundTo o.prec) o` is the token list the driver compares with (`Driver/C09Ops.lean`) and the
structured theorems of `Props/C09.lean` start from.

Layers
1. scanners (`Props/C09LexLemmas.lean`): `findItems_spaced`, `spaced_protected`, `metaStr_spaced`;
2. one line (`Props/C09LexLines.lean` + here): `lexPhys_region` — a rendered region line, with or
   without its `frame; ` prefix, gives `[frame] ++ [shape none sh (rounded numbers) (rawDict mta)]`;
3. the global line `lexPhys_global`, the frame line `lexPhys_frame`, the header `lexPhys_hdr`;
4. the file: `render_eq` (the text is the physical lines of `physPairs`, each + a line break),
   `splitOnChar_lines`, `lexLines_pairs`, `toRaw_eq` ⇒ `lex_render`.
`renderSafe` (the model's side condition) alone is NOT enough: `lex_render_dup_refuted`,
`lex_render_default_style_refuted`; with `keysWF` it is: `lex_render_of_renderSafe`.
-/
import RegionsVerif.Props.C09LexLines

namespace RegionsVerif.Props.C09
open RegionsVerif.Impl.Ds9 RegionsVerif.Impl.Dec

/-! ### `lexLines` over a list of physical lines -/

theorem lexLines_cons_some (l : Str) (ls : List Str) (x : RLine) (rs : ROut) (hne : l ≠ [])
    (h1 : lexLine l = .ok (some x)) (h2 : lexLines ls = .ok rs) : lexLines (l :: ls) = .ok (x :: rs) := by
  rw [lexLines, if_neg hne, h1]
  dsimp only
  rw [h2]

theorem lexLines_append (a b : List Str) (ra rb : ROut) (ha : lexLines a = .ok ra)
    (hb : lexLines b = .ok rb) : lexLines (a ++ b) = .ok (ra ++ rb) := by
  induction a generalizing ra with
  | nil => simp only [lexLines, Except.ok.injEq] at ha; subst ha; simpa using hb
  | cons l ls ih =>
    rw [List.cons_append, lexLines]
    rw [lexLines] at ha
    by_cases hl : l = []
    · rw [if_pos hl] at ha ⊢
      exact ih ra ha
    · rw [if_neg hl] at ha ⊢
      cases h1 : lexLine l with
      | error e => rw [h1] at ha; simp at ha
      | ok r =>
        rw [h1] at ha
        dsimp only at ha ⊢
        cases h2 : lexLines ls with
        | error e => rw [h2] at ha; simp at ha
        | ok rs =>
          rw [h2] at ha
          dsimp only at ha
          rw [ih rs h2]
          dsimp only
          simp only [Except.ok.injEq] at ha
          subst ha
          cases r <;> simp

/-- lex of one physical line (no line break inside). -/
def lexPhys (L : Str) : Except String ROut := lexLines ((splitSemicolon L).map strip)

theorem lexLines_pairs (prs : List (Str × ROut)) (h : ∀ pr ∈ prs, lexPhys pr.1 = .ok pr.2) :
    lexLines ((prs.map (·.1)).flatMap fun l => (splitSemicolon l).map strip) = .ok (prs.flatMap (·.2)) := by
  induction prs with
  | nil => rfl
  | cons pr prs ih =>
    rw [List.map_cons, List.flatMap_cons, List.flatMap_cons]
    exact lexLines_append _ _ _ _ (h pr (by simp)) (ih (fun q hq => h q (by simp [hq])))

/-! ### the physical lines -/

def hdr : Str := "# Region file format: DS9 astropy/regions".toList

theorem header_eq : header = hdr ++ ['\n'] := by decide

theorem lexPhys_hdr : lexPhys hdr = .ok [] := by decide

theorem lexPhys_nil : lexPhys [] = .ok [] := by decide

theorem lexPhys_frame (f : FName) : lexPhys f.name = .ok [.frame f] := by cases f <;> decide

theorem lexPhys_global (g : Dict) (hg : dictWF g = true) :
    lexPhys ("global ".toList ++ metaStr g) = .ok [.global (rawDict g)] := by
  obtain ⟨lead, A, e, hl, hwf, hkv⟩ := metaStr_spaced g hg
  obtain ⟨hne, hlex⟩ := global_line_lex g hg
  unfold lexPhys
  have hsp : splitSemicolon ("global ".toList ++ metaStr g) = ["global ".toList ++ metaStr g] := by
    rw [e, ← List.append_assoc]
    apply splitSemicolon_one _ A hwf
    · intro c hc
      rcases List.mem_append.mp hc with h | h
      · have hh : ∀ c ∈ "global ".toList, c ≠ ';' := by decide
        exact hh c h
      · rw [hl c h]; decide
    · intro a ha
      have hm := List.mem_of_getLast? ha
      have : "global ".toList ++ lead = "global".toList ++ (' ' :: lead) := by rw [global_lit]; rfl
      rw [this, List.getLast?_append_of_ne_nil _ (by simp)] at ha
      have := List.mem_of_getLast? ha
      rcases List.mem_cons.mp this with h | h
      · rw [h]; decide
      · rw [hl a h]; decide
  rw [hsp]
  exact lexLines_cons_some _ [] _ [] hne hlex rfl

/-- a region line without the line break. -/
def lineBody (p : Nat) (gframe : Option FName) (l : WLine) : Str :=
  (match gframe with
   | some _ => []
   | none => l.frame.name ++ "; ".toList) ++
  bodyOf l.shape.name (joinWith [','] (l.params.map fun w => fmt p w.val)) (metaStr l.mta)

theorem renderLine_eq (p : Nat) (gframe : Option FName) (l : WLine) :
    renderLine p gframe l = lineBody p gframe l ++ ['\n'] := by
  unfold renderLine lineBody bodyOf
  have : " # ".toList = [' ', '#', ' '] := by decide
  by_cases hM : metaStr l.mta = []
  · cases gframe <;> simp [hM]
  · cases gframe <;> simp [hM, this]

theorem shape_nospace (sh : DShape) : ∀ c ∈ sh.name, isSpace c = false := by cases sh <;> decide

theorem shape_chars (sh : DShape) : ∀ c ∈ sh.name, c ≠ ';' ∧ c ≠ '\n' := by cases sh <;> decide

theorem pChar_misc (c : Char) (h : pChar c) : c ≠ ';' ∧ c ≠ '\n' :=
  ⟨pChar_ne c ';' h (by decide), pChar_ne c '\n' h (by decide)⟩

theorem strip_fname (f : FName) : strip f.name = f.name ∧ f.name ≠ [] := by cases f <;> decide

theorem strip_cons_space (b : Str) : strip (' ' :: b) = strip b := by
  unfold strip lstrip
  rw [List.dropWhile_cons_of_pos (by decide)]

theorem lexPhys_region (p : Nat) (gframe : Option FName) (l : WLine) (hl : dictWF l.mta = true) :
    lexPhys (lineBody p gframe l) = .ok
      ((match gframe with
        | some _ => []
        | none => [RLine.frame l.frame]) ++
       [RLine.shape none l.shape (l.params.map fun w => roundTo p w.val) (rawDict l.mta)]) := by
  obtain ⟨lead, A, e, hld, hwf, hkv⟩ := metaStr_spaced l.mta hl
  obtain ⟨w0, W', hS, hw0, hlow, hal, hfn, hds⟩ := shape_facts l.shape
  set PS := joinWith [','] (l.params.map fun w => fmt p w.val) with hPSdef
  have hPS : ∀ c ∈ PS, pChar c := by
    have := params_chars p (l.params.map (·.val))
    rw [List.map_map] at this
    exact this
  have hnums : readParams (splitParams PS) = .ok (l.params.map fun w => roundTo p w.val) := by
    have := params_read p (l.params.map (·.val))
    rw [List.map_map, List.map_map] at this
    exact this
  have hw0s : isSpace w0 = false := shape_nospace l.shape w0 (by rw [hS]; simp)
  -- the stripped body lexes to the shape token
  obtain ⟨TL, ms, hstrip, hTL, hpm⟩ := region_body_strip l.mta hl l.shape.name PS w0 W' hS hw0s
  have hbody : lexLine (strip (bodyOf l.shape.name PS (metaStr l.mta))) =
      .ok (some (RLine.shape none l.shape (l.params.map fun w => roundTo p w.val) (rawDict l.mta))) := by
    rw [hstrip, lexLine_shape_core l.shape.name w0 W' l.shape hS hw0 hlow hal hfn hds PS TL ms hPS hTL _ hnums, hpm]
  have hbne : strip (bodyOf l.shape.name PS (metaStr l.mta)) ≠ [] := by
    rw [hstrip, hS]; simp
  -- the body as `Pre ++ spaced A`
  set Pre := l.shape.name ++ '(' :: (PS ++ ')' :: (if metaStr l.mta = [] then [] else ' ' :: '#' :: ' ' :: lead)) with hPre
  have hbeq : bodyOf l.shape.name PS (metaStr l.mta) = Pre ++ spaced A := by
    unfold bodyOf
    rw [hPre]
    by_cases hM : metaStr l.mta = []
    · have : spaced A = [] := by
        rw [e] at hM; exact (List.append_eq_nil_iff.mp hM).2
      rw [if_pos hM, if_pos hM, this]; simp
    · rw [if_neg hM, if_neg hM, e]; simp
  have hPre1 : ∀ c ∈ Pre, c ≠ ';' := by
    intro c hc
    rw [hPre] at hc
    simp only [List.mem_append, List.mem_cons] at hc
    rcases hc with h | h | h | h | h
    · exact (shape_chars l.shape c h).1
    · rw [h]; decide
    · exact (pChar_misc c (hPS c h)).1
    · rw [h]; decide
    · split_ifs at h
      · simp at h
      · simp only [List.mem_cons] at h
        rcases h with h | h | h | h
        · rw [h]; decide
        · rw [h]; decide
        · rw [h]; decide
        · rw [hld c h]; decide
  have hPre2 : ∀ a, Pre.getLast? = some a → isAlpha a = false := by
    intro a ha
    rw [hPre] at ha
    by_cases hM : metaStr l.mta = []
    · rw [if_pos hM] at ha
      have : l.shape.name ++ '(' :: (PS ++ [')']) = (l.shape.name ++ '(' :: PS) ++ [')'] := by simp
      rw [this, List.getLast?_append_of_ne_nil _ (by simp)] at ha
      simp at ha; rw [← ha]; decide
    · rw [if_neg hM] at ha
      have : l.shape.name ++ '(' :: (PS ++ ')' :: ' ' :: '#' :: ' ' :: lead) =
          (l.shape.name ++ '(' :: (PS ++ [')', ' ', '#'])) ++ (' ' :: lead) := by simp
      rw [this, List.getLast?_append_of_ne_nil _ (by simp)] at ha
      rcases List.mem_cons.mp (List.mem_of_getLast? ha) with h | h
      · rw [h]; decide
      · rw [hld a h]; decide
  have hPrene : Pre ≠ [] := by rw [hPre, hS]; simp
  unfold lexPhys lineBody
  cases gframe with
  | some f0 =>
    dsimp only
    rw [List.nil_append, hbeq, splitSemicolon_one Pre A hwf hPre1 hPre2, ← hbeq]
    exact lexLines_cons_some _ [] _ [] hbne hbody rfl
  | none =>
    dsimp only
    have e2 : l.frame.name ++ "; ".toList ++ bodyOf l.shape.name PS (metaStr l.mta) =
        l.frame.name ++ ';' :: (' ' :: Pre ++ spaced A) := by
      rw [hbeq]
      have : "; ".toList = [';', ' '] := by decide
      rw [this]; simp
    rw [e2, splitSemicolon_two l.frame Pre A hwf hPre1 (by
      intro a ha
      have : (' ' :: Pre) = [' '] ++ Pre := rfl
      rw [this, List.getLast?_append_of_ne_nil _ hPrene] at ha
      exact hPre2 a ha)]
    simp only [List.map_cons, List.map_nil]
    have e3 : (' ' :: Pre ++ spaced A) = ' ' :: bodyOf l.shape.name PS (metaStr l.mta) := by
      rw [hbeq]; rfl
    rw [e3, strip_cons_space, (strip_fname l.frame).1]
    refine lexLines_cons_some _ _ _ _ (strip_fname l.frame).2 (lexLine_frame l.frame) ?_
    exact lexLines_cons_some _ [] _ [] hbne hbody rfl

/-! ### no line break inside a physical line -/

theorem alpha_ne_nl (c : Char) (h : isAlpha c = true) : c ≠ '\n' := by
  intro e; subst e; revert h; decide

theorem spaced_no_nl : ∀ (A : List Atom), wfAtoms A → ∀ c ∈ spaced A, c ≠ '\n' := by
  intro A
  induction A with
  | nil => intro _ c hc; simp [spaced] at hc
  | cons a r ih =>
    intro hwf c hc
    obtain ⟨-, hKa, -, hVn, hW, -, -⟩ := hwf.1
    simp only [spaced, Atom.str, List.mem_append, List.mem_cons] at hc
    rcases hc with ((h | h | h) | h) | h
    · exact alpha_ne_nl c (hKa c h)
    · rw [h]; decide
    · exact hVn c h
    · exact (hW c h).2
    · exact ih hwf.2 c h

theorem metaStr_no_nl (m : Dict) (h : dictWF m = true) : ∀ c ∈ metaStr m, c ≠ '\n' := by
  obtain ⟨lead, A, e, hl, hwf, -⟩ := metaStr_spaced m h
  intro c hc
  rw [e] at hc
  rcases List.mem_append.mp hc with h | h
  · rw [hl c h]; decide
  · exact spaced_no_nl A hwf c h

theorem lineBody_no_nl (p : Nat) (gframe : Option FName) (l : WLine) (hl : dictWF l.mta = true) :
    ∀ c ∈ lineBody p gframe l, c ≠ '\n' := by
  intro c hc
  have hPS : ∀ c ∈ joinWith [','] (l.params.map fun w => fmt p w.val), pChar c := by
    have := params_chars p (l.params.map (·.val))
    rw [List.map_map] at this
    exact this
  unfold lineBody bodyOf at hc
  rcases List.mem_append.mp hc with h | h
  · cases gframe with
    | some f => simp at h
    | none =>
      dsimp only at h
      rcases List.mem_append.mp h with h | h
      · exact (fname_chars l.frame c h).2.2.2
      · have hh : ∀ c ∈ "; ".toList, c ≠ '\n' := by decide
        exact hh c h
  · simp only [List.mem_append, List.mem_cons] at h
    rcases h with h | h | h | h | h
    · exact (shape_chars l.shape c h).2
    · rw [h]; decide
    · exact (pChar_misc c (hPS c h)).2
    · rw [h]; decide
    · split_ifs at h
      · simp at h
      · simp only [List.mem_cons] at h
        rcases h with h | h | h | h
        · rw [h]; decide
        · rw [h]; decide
        · rw [h]; decide
        · exact metaStr_no_nl l.mta hl c h

/-! ### the file -/

theorem splitOnChar_line (L rest : Str) (hL : ∀ c ∈ L, c ≠ '\n') :
    splitOnChar '\n' (L ++ '\n' :: rest) = L :: splitOnChar '\n' rest := by
  induction L with
  | nil => simp [splitOnChar]
  | cons d ds ih =>
    have hd : d ≠ '\n' := hL d (by simp)
    rw [List.cons_append, splitOnChar, if_neg hd, ih (fun c hc => hL c (by simp [hc]))]

theorem splitOnChar_lines : ∀ (Ls : List Str), (∀ L ∈ Ls, ∀ c ∈ L, c ≠ '\n') →
    splitOnChar '\n' ((Ls.map (· ++ ['\n'])).flatten) = Ls ++ [[]] := by
  intro Ls
  induction Ls with
  | nil => intro _; rfl
  | cons L Ls ih =>
    intro h
    rw [List.map_cons, List.flatten_cons, List.append_assoc, List.singleton_append,
      splitOnChar_line L _ (h L (by simp)), ih (fun M hM => h M (by simp [hM]))]
    rfl

/-- the physical lines of `render o` with the tokens each one is to give. -/
def physPairs (o : WOut) : List (Str × ROut) :=
  [(hdr, [])] ++
  (if o.global = [] then [] else [("global ".toList ++ metaStr o.global, [RLine.global (rawDict o.global)])]) ++
  (match o.gframe with
   | some f => [(f.name, [RLine.frame f])]
   | none => []) ++
  o.lines.map (fun l => (lineBody o.prec o.gframe l,
    (match o.gframe with
     | some _ => []
     | none => [RLine.frame l.frame]) ++
    [RLine.shape none l.shape (l.params.map fun w => roundTo o.prec w.val) (rawDict l.mta)]))

theorem render_eq (o : WOut) : render o = (((physPairs o).map (·.1)).map (· ++ ['\n'])).flatten := by
  obtain ⟨p, g, gf, ls⟩ := o
  have hl : (ls.map (renderLine p gf)).flatten =
      ((ls.map (lineBody p gf)).map (· ++ ['\n'])).flatten := by
    rw [List.map_map]
    congr 1
    apply List.map_congr_left
    intro l _
    exact renderLine_eq p gf l
  unfold render physPairs
  dsimp only
  rw [hl, header_eq]
  by_cases hg : g = [] <;> cases gf <;> simp [hg, List.map_map, Function.comp_def]

theorem toRaw_eq (o : WOut) : toRaw (roundTo o.prec) o = (physPairs o).flatMap (·.2) := by
  obtain ⟨p, g, gf, ls⟩ := o
  unfold toRaw physPairs
  dsimp only
  by_cases hg : g = [] <;> cases gf <;>
    simp [hg, List.flatMap_def, List.map_map, Function.comp_def]

/-! ### the theorem -/

/-- the metadata `lex_render` covers: `dictWF` (see `Props/C09LexLemmas.lean` for the list of the
excluded classes and which of them the real reader fails on) for the global dictionary and for the
dictionary of every line.  Nothing is asked of shapes, frames, numbers, precision. -/
def WellFormedText (o : WOut) : Prop := dictWF o.global = true ∧ ∀ l ∈ o.lines, dictWF l.mta = true

instance (o : WOut) : Decidable (WellFormedText o) := by unfold WellFormedText; infer_instance

/-- keys pairwise distinct and readable: what `WellFormedText` asks beyond the model's `renderSafe`. -/
def keysWF (m : Dict) : Bool := decide ((m.map (·.1)).Nodup) && m.all (fun kv => keyOK kv.1)

theorem wellFormed_of_renderSafe (o : WOut) (h : renderSafe o = true)
    (hk : keysWF o.global = true ∧ ∀ l ∈ o.lines, keysWF l.mta = true) : WellFormedText o := by
  simp only [renderSafe, Bool.and_eq_true, List.all_eq_true] at h
  simp only [keysWF, Bool.and_eq_true, decide_eq_true_eq, List.all_eq_true] at hk
  exact ⟨dictWF_of_dictSafe _ h.1 hk.1.1 hk.1.2,
    fun l hl => dictWF_of_dictSafe _ (h.2 l hl) (hk.2 l hl).1 (hk.2 l hl).2⟩

/-- **the character level**: the reader's tokeniser on the writer's text gives exactly the token
list the structured round-trip theorems start from. -/
theorem lex_render (o : WOut) (hwf : WellFormedText o) :
    lex (render o) = .ok (toRaw (roundTo o.prec) o) := by
  obtain ⟨hg, hls⟩ := hwf
  have hpairs : ∀ pr ∈ physPairs o, lexPhys pr.1 = .ok pr.2 ∧ ∀ c ∈ pr.1, c ≠ '\n' := by
    intro pr hpr
    unfold physPairs at hpr
    simp only [List.mem_append, List.mem_singleton, List.mem_map] at hpr
    rcases hpr with ((h | h) | h) | ⟨l, hl, h⟩
    · rw [h]; exact ⟨lexPhys_hdr, by decide⟩
    · split_ifs at h
      · simp at h
      · simp only [List.mem_singleton] at h
        rw [h]
        refine ⟨lexPhys_global o.global hg, ?_⟩
        intro c hc
        rcases List.mem_append.mp hc with h | h
        · have hh : ∀ c ∈ "global ".toList, c ≠ '\n' := by decide
          exact hh c h
        · exact metaStr_no_nl o.global hg c h
    · cases hgf : o.gframe with
      | none => rw [hgf] at h; simp at h
      | some f =>
        rw [hgf] at h
        simp only [List.mem_singleton] at h
        rw [h]
        exact ⟨lexPhys_frame f, fun c hc => (fname_chars f c hc).2.2.2⟩
    · rw [← h]
      exact ⟨lexPhys_region o.prec o.gframe l (hls l hl), lineBody_no_nl o.prec o.gframe l (hls l hl)⟩
  unfold lex splitLines
  rw [render_eq, splitOnChar_lines _ (by
    intro L hL
    obtain ⟨pr, hpr, rfl⟩ := List.mem_map.mp hL
    exact (hpairs pr hpr).2)]
  have e : (physPairs o).map (·.1) ++ [[]] = ((physPairs o) ++ [(([] : Str), ([] : ROut))]).map (·.1) := by simp
  rw [e, lexLines_pairs _ (by
    intro pr hpr
    rcases List.mem_append.mp hpr with h | h
    · exact (hpairs pr h).1
    · simp only [List.mem_singleton] at h
      rw [h]; exact lexPhys_nil), toRaw_eq]
  simp

/-- the same under the model's own side condition plus the two classes it forgot. -/
theorem lex_render_of_renderSafe (o : WOut) (h : renderSafe o = true)
    (hk : keysWF o.global = true ∧ ∀ l ∈ o.lines, keysWF l.mta = true) :
    lex (render o) = .ok (toRaw (roundTo o.prec) o) :=
  lex_render o (wellFormed_of_renderSafe o h hk)

/-! ### `renderSafe` alone is not enough (the two classes it forgot) -/

def circ (m : Dict) : WLine := ⟨.image, .circle, [⟨false, 1⟩, ⟨false, 2⟩, ⟨false, 3⟩], m⟩

/-- two entries with one key: `renderSafe`, yet the tokens differ (`findall` keeps the first). -/
theorem lex_render_dup_refuted :
    ∃ o : WOut, renderSafe o = true ∧ lex (render o) ≠ .ok (toRaw (roundTo o.prec) o) :=
  ⟨⟨2, [], none, [circ [(.color, .str "green".toList), (.color, .str "red".toList)]]⟩, by decide, by decide +kernel⟩

/-- the key `default_style` is read back as `style`. -/
theorem lex_render_default_style_refuted :
    ∃ o : WOut, renderSafe o = true ∧ lex (render o) ≠ .ok (toRaw (roundTo o.prec) o) :=
  ⟨⟨2, [], none, [circ [(.default_style, .str "ds9".toList)]]⟩, by decide, by decide +kernel⟩

/-! ### non-vacuity -/

/-- a global line, a text with blanks, `=`, `;`, a quote and a `#`, a tag list, two frames. -/
def exFile : WOut :=
  ⟨3, [(.color, .str "green".toList), (.font, .str "\"helvetica 10 normal\"".toList), (.width, .int 2)], none,
   [⟨.image, .circle, [⟨false, 1⟩, ⟨false, 5/2⟩, ⟨false, -3⟩],
      [(.text, .str "{a = b; c 'd #e}".toList), (.tag, .strs ["x y".toList, "z;".toList])]⟩,
    ⟨.fk5, .box, [⟨true, 10⟩, ⟨true, 1/3⟩, ⟨false, 2⟩, ⟨false, 4⟩, ⟨false, 0⟩],
      [(.dashlist, .str "8 3".toList), (.point, .str "x 12".toList), (.tag, .strs [])]⟩]⟩

example : WellFormedText exFile := by decide
example : lex (render exFile) = .ok (toRaw (roundTo exFile.prec) exFile) := lex_render exFile (by decide)
example : render exFile =
    ("# Region file format: DS9 astropy/regions\n" ++
     "global color=green font=\"helvetica 10 normal\" width=2\n" ++
     "image; circle(1.000,2.500,-3.000) # text={a = b; c 'd #e} tag={x y} tag={z;}\n" ++
     "fk5; box(10.000,0.333,2.000,4.000,0.000) # dashlist=8 3 point=x 12 \n").toList := by decide +kernel

/-- a global frame line, no global metadata, a line without metadata. -/
def exFile2 : WOut :=
  ⟨0, [], some .galactic, [⟨.galactic, .point, [⟨true, 7⟩, ⟨true, 8⟩], []⟩,
    ⟨.galactic, .text, [⟨true, 1⟩, ⟨true, 2⟩], [(.text, .str "{}".toList), (.color, .str "#ff0000".toList)]⟩]⟩

example : WellFormedText exFile2 := by decide
example : lex (render exFile2) = .ok
    [.frame .galactic, .shape none .point [7, 8] [],
     .shape none .text [1, 2] [(.text, .str []), (.color, .str "#ff0000".toList)]] := by
  rw [lex_render exFile2 (by decide)]; decide +kernel

/-- values `dictSafe` rejects and `WellFormedText` accepts: blanks after a bare word and after a
quoted value, an unbraced `text`. -/
def exFile3 : WOut :=
  ⟨1, [(.color, .str "green ".toList)], none,
   [circ [(.font, .str "\"a b\"  ".toList), (.text, .str "'t'".toList), (.width, .int 1)]]⟩

example : renderSafe exFile3 = false := by decide
example : WellFormedText exFile3 := by decide
example : lex (render exFile3) = .ok (toRaw (roundTo exFile3.prec) exFile3) := lex_render exFile3 (by decide)

/-- outside `WellFormedText` (two bare words): the reader does lose the second word. -/
example : ¬ WellFormedText ⟨2, [], none, [circ [(.font, .str "helvetica bold".toList)]]⟩ := by decide
example : lex (render ⟨2, [], none, [circ [(.font, .str "helvetica bold".toList)]]⟩) =
    .ok [.frame .image, .shape none .circle [1, 2, 3] [(.font, .str "helvetica".toList)]] := by decide +kernel

#print axioms lex_render
#print axioms lex_render_of_renderSafe
#print axioms lex_render_dup_refuted
#print axioms lex_render_default_style_refuted
#print axioms lexPhys_region
#print axioms lexPhys_global

end RegionsVerif.Props.C09
