/-
C03 (ellipse) — the ELLIPSE 'exact' kernel: `overlap_area_triangle_unit_circle`, and one grid cell of
`elliptical_overlap_grid(…, use_exact=1)`, are the Lebesgue measure of (triangle ∩ unit disk),
resp. area(pixel ∩ ellipse)/(dx·dy) — PARTIAL (`…_partial`), with the excluded inputs explicit, and
REFUTED on three of them.  Model: `Gen/EllipseExactReal` (same text as the `Float` instance the driver
runs against the compiled kernel).  Geometry / measure lemmas: `Props/C03EllipseGeom.lean`.

Main statements
* `overlapTri_terminates`         the recursion terminates (fuel 2) for every input;
* `on1_branch_refuted` (F3a), `on2_branch_refuted` (F3b)
                                  branch `elif on1: area = 0.0` returns 0 on a triangle that contains
                                  a square of area 1/25 of the disk; branch `… and not on2` →
                                  `elif intersect13` returns more than the area of the whole triangle;
* `on_tip_branch_refuted` (F3c)   branch `elif intersect23` with vertex 2 in the `1e-10` ring just OUTSIDE
                                  the circle and the edge 2→3 tangent: `circle_line` returns the sentinel
                                  `(2,2)`, the code takes `area_arc_unit` of a chord longer than 2 (NaN in
                                  C; over ℝ `π/2`, total > area of the whole triangle).  Needs the ring:
                                  `circleLine_entering` (no sentinel from `d₂ ≤ 1` + negative dot product),
                                  `on_tip_exact_correct` (vertex exactly at the tip: value = overlap);
* `overlapTri_correct_partial`    `Good n A B C → TriCorrect n A B C`, i.e. the routine returns
                                  `volume (triangle ∩ open unit disk)` on every non-degenerate
                                  triangle whose vertices (sorted as the kernel sorts them) are all
                                  inside-or-on the circle, or two inside / one outside, or one inside /
                                  two outside (far edge cutting the circle twice or not), or all
                                  outside (no chord: `π` or `0` via `in_triangle`; a chord: the recursion,
                                  provided the two halves are `Good`) — every vertex clear of the
                                  `1e-10` ring unless all are inside-or-on, no "tiny" edge;
* `ellipseCell_eq_volume_partial` (in Geom), `ellipseCell_eq_volume_good`
                                  the grid cell value `v` satisfies
                                  `volume (pixel ∩ ellipse) = v · dx · dy` and `0 ≤ v ≤ 1`, when the two
                                  triangles the kernel builds are `TriCorrect` / `Good`;
                                  `ellipseCell_outside_box`: outside the bounding box, unconditionally;
* `triSet_eq_convexHull`          the triangle sets are Mathlib's `convexHull ℝ {A, B, C}`.

What is NOT proved, and why (`_partial`):
* vertices in the `1e-10` tolerance ring (`|d − 1| < 1e-10`, `d ≠ 1`): the code treats them as on
  the circle, the value is then off by O(1e-10) — not an exact identity;
* a vertex exactly on the circle together with an outside vertex: WRONG when an adjacent edge enters
  the disk (the two `_refuted` theorems; findings F3a/F3b, reproduced on the compiled kernel), right
  otherwise but not proved here;
* "tiny" edges (both |dx|, |dy| < 1e-10: `circle_line` gives up) and degenerate triangles.
-/
import RegionsVerif.Props.C03EllipseGeom
import RegionsVerif.Props.C01Tri
import Mathlib.Analysis.Convex.Join

namespace RegionsVerif.Props.C03E
open RegionsVerif.Gen.EllipseExactReal
open MeasureTheory

/-! ### one vertex inside (model part) -/

theorem onCircle_sq (p : Point) (h : OnCircle p) : (p.x, p.y).1 ^ 2 + (p.x, p.y).2 ^ 2 = 1 := by
  unfold OnCircle at h; simp only; nlinarith

/-- a diameter: `area_arc_unit = π/2`. -/
theorem areaArcUnit_diameter (P Q : ℝ × ℝ) (hP : P.1 ^ 2 + P.2 ^ 2 = 1) (hQ : Q.1 ^ 2 + Q.2 ^ 2 = 1)
    (h0 : cross P Q = 0) (hne : 0 < (Q.1 - P.1) ^ 2 + (Q.2 - P.2) ^ 2) :
    areaArcUnit P.1 P.2 Q.1 Q.2 = Real.pi / 2 := by
  have hc : P.1 * Q.1 + P.2 * Q.2 = -1 := by
    unfold cross at h0
    have h1 : (P.1 * Q.1 + P.2 * Q.2) ^ 2 = 1 := by nlinarith
    have h2 : P.1 * Q.1 + P.2 * Q.2 < 1 := by nlinarith
    have : (P.1 * Q.1 + P.2 * Q.2 - 1) * (P.1 * Q.1 + P.2 * Q.2 + 1) = 0 := by nlinarith
    rcases mul_eq_zero.mp this with h | h
    · linarith
    · linarith
  rw [areaArcUnit_eq_capArea P.1 P.2 Q.1 Q.2 0 le_rfl (by nlinarith)]
  unfold capArea; simp

theorem areaArcUnit_le (x1 y1 x2 y2 : ℝ) : areaArcUnit x1 y1 x2 y2 ≤ Real.pi / 2 := by
  unfold areaArcUnit
  simp only
  have h0 : 0 ≤ 0.5 * distance x1 y1 x2 y2 := by unfold distance; positivity
  have h1 : 0 ≤ Real.arcsin (0.5 * distance x1 y1 x2 y2) := Real.arcsin_nonneg.mpr h0
  have h2 : Real.arcsin (0.5 * distance x1 y1 x2 y2) ≤ Real.pi / 2 := Real.arcsin_le_pi_div_two _
  have h3 : 0 ≤ Real.sin (2 * Real.arcsin (0.5 * distance x1 y1 x2 y2)) :=
    Real.sin_nonneg_of_nonneg_of_le_pi (by linarith) (by linarith)
  nlinarith

/-- the `sep`-style side test of the code agrees with the geometric criterion. -/
theorem sep_test (s o arc : ℝ) (ho : o ≠ 0) (hdia : s = 0 → arc = Real.pi / 2) :
    (if (decide (s > 0) != decide (o > 0)) = true then Real.pi - arc else arc) =
      (if 0 ≤ o * s then arc else Real.pi - arc) := by
  rcases lt_or_gt_of_ne ho with ho' | ho'
  · have e : decide (o > 0) = false := decide_eq_false (by linarith)
    rcases lt_trichotomy s 0 with hs | hs | hs
    · have e2 : decide (s > 0) = false := decide_eq_false (by linarith)
      have h : 0 ≤ o * s := by nlinarith
      simp [e, e2, h]
    · have e2 : decide (s > 0) = false := decide_eq_false (by linarith)
      have h : 0 ≤ o * s := by rw [hs]; simp
      simp [e, e2, h]
    · have e2 : decide (s > 0) = true := decide_eq_true hs
      have h : ¬ 0 ≤ o * s := by push Not; nlinarith
      simp [e, e2, h]
  · have e : decide (o > 0) = true := decide_eq_true ho'
    rcases lt_trichotomy s 0 with hs | hs | hs
    · have e2 : decide (s > 0) = false := decide_eq_false (by linarith)
      have h : ¬ 0 ≤ o * s := by push Not; nlinarith
      simp [e, e2, h]
    · have e2 : decide (s > 0) = false := decide_eq_false (by linarith)
      have h : 0 ≤ o * s := by rw [hs]; simp
      simp only [e, e2, h, if_true]
      rw [hdia hs]; simp; ring
    · have e2 : decide (s > 0) = true := decide_eq_true hs
      have h : 0 ≤ o * s := by nlinarith
      simp [e, e2, h]

theorem eq_zero_of_sq_sum_nonpos (a b : ℝ) (h : a ^ 2 + b ^ 2 ≤ 0) : a = 0 ∧ b = 0 := by
  constructor <;> nlinarith [sq_nonneg a, sq_nonneg b]

theorem notTiny_pos (A C : ℝ × ℝ) (h : NotTiny A C) :
    0 < (C.1 - A.1) * (C.1 - A.1) + (C.2 - A.2) * (C.2 - A.2) := by
  by_contra hn; push Not at hn
  have e1 : C.1 - A.1 = 0 := by nlinarith [mul_self_nonneg (C.1 - A.1), mul_self_nonneg (C.2 - A.2)]
  have e2 : C.2 - A.2 = 0 := by nlinarith [mul_self_nonneg (C.1 - A.1), mul_self_nonneg (C.2 - A.2)]
  apply h; rw [e1, e2]; norm_num

/-- the `swap` test of the chord branch compares the parameters along the edge. -/
theorem swap_test (B C : ℝ × ℝ) (q1 q2 : Point) (s1 s2 : ℝ) (hs1 : 0 < s1) (hs2 : 0 < s2)
    (hN : 0 < (C.1 - B.1) * (C.1 - B.1) + (C.2 - B.2) * (C.2 - B.2))
    (e1x : q1.x = B.1 + s1 * (C.1 - B.1)) (e1y : q1.y = B.2 + s1 * (C.2 - B.2))
    (e2x : q2.x = B.1 + s2 * (C.1 - B.1)) (e2y : q2.y = B.2 + s2 * (C.2 - B.2)) :
    (pow2 (q2.x - B.1) + pow2 (q2.y - B.2) < pow2 (q1.x - B.1) + pow2 (q1.y - B.2)) ↔ s2 < s1 := by
  rw [pow2_eq, pow2_eq, pow2_eq, pow2_eq, e1x, e1y, e2x, e2y]
  have : ∀ s : ℝ, (B.1 + s * (C.1 - B.1) - B.1) * (B.1 + s * (C.1 - B.1) - B.1) +
      (B.2 + s * (C.2 - B.2) - B.2) * (B.2 + s * (C.2 - B.2) - B.2) =
      s * s * ((C.1 - B.1) * (C.1 - B.1) + (C.2 - B.2) * (C.2 - B.2)) := by intro s; ring
  rw [this, this]
  constructor
  · intro h
    have : s2 * s2 < s1 * s1 := lt_of_mul_lt_mul_right h hN.le
    nlinarith
  · intro h
    exact mul_lt_mul_of_pos_right (by nlinarith) hN

/-- value of `caseOneIn` in the chord branch, no swap. -/
theorem caseOneIn_chord_noswap (x1 y1 x2 y2 x3 y3 : ℝ)
    (hle : (circleSegment x2 y2 x3 y3).p1.x ≤ 1)
    (hsw : ¬ (pow2 ((circleSegment x2 y2 x3 y3).p2.x - x2) + pow2 ((circleSegment x2 y2 x3 y3).p2.y - y2) <
      pow2 ((circleSegment x2 y2 x3 y3).p1.x - x2) + pow2 ((circleSegment x2 y2 x3 y3).p1.y - y2))) :
    caseOneIn x1 y1 x2 y2 x3 y3 =
      areaTriangle x1 y1 (circleSegmentSingle2 x1 y1 x2 y2).x (circleSegmentSingle2 x1 y1 x2 y2).y
          (circleSegment x2 y2 x3 y3).p1.x (circleSegment x2 y2 x3 y3).p1.y
        + areaTriangle x1 y1 (circleSegment x2 y2 x3 y3).p1.x (circleSegment x2 y2 x3 y3).p1.y
          (circleSegment x2 y2 x3 y3).p2.x (circleSegment x2 y2 x3 y3).p2.y
        + areaTriangle x1 y1 (circleSegment x2 y2 x3 y3).p2.x (circleSegment x2 y2 x3 y3).p2.y
          (circleSegmentSingle2 x1 y1 x3 y3).x (circleSegmentSingle2 x1 y1 x3 y3).y
        + areaArcUnit (circleSegment x2 y2 x3 y3).p1.x (circleSegment x2 y2 x3 y3).p1.y
          (circleSegmentSingle2 x1 y1 x2 y2).x (circleSegmentSingle2 x1 y1 x2 y2).y
        + areaArcUnit (circleSegment x2 y2 x3 y3).p2.x (circleSegment x2 y2 x3 y3).p2.y
          (circleSegmentSingle2 x1 y1 x3 y3).x (circleSegmentSingle2 x1 y1 x3 y3).y := by
  unfold caseOneIn; simp only
  rw [if_neg (by push Not; exact hle), decide_eq_false hsw]
  simp

/-- value of `caseOneIn` in the chord branch, swap. -/
theorem caseOneIn_chord_swap (x1 y1 x2 y2 x3 y3 : ℝ)
    (hle : (circleSegment x2 y2 x3 y3).p1.x ≤ 1)
    (hsw : pow2 ((circleSegment x2 y2 x3 y3).p2.x - x2) + pow2 ((circleSegment x2 y2 x3 y3).p2.y - y2) <
      pow2 ((circleSegment x2 y2 x3 y3).p1.x - x2) + pow2 ((circleSegment x2 y2 x3 y3).p1.y - y2)) :
    caseOneIn x1 y1 x2 y2 x3 y3 =
      areaTriangle x1 y1 (circleSegmentSingle2 x1 y1 x2 y2).x (circleSegmentSingle2 x1 y1 x2 y2).y
          (circleSegment x2 y2 x3 y3).p2.x (circleSegment x2 y2 x3 y3).p2.y
        + areaTriangle x1 y1 (circleSegment x2 y2 x3 y3).p2.x (circleSegment x2 y2 x3 y3).p2.y
          (circleSegment x2 y2 x3 y3).p1.x (circleSegment x2 y2 x3 y3).p1.y
        + areaTriangle x1 y1 (circleSegment x2 y2 x3 y3).p1.x (circleSegment x2 y2 x3 y3).p1.y
          (circleSegmentSingle2 x1 y1 x3 y3).x (circleSegmentSingle2 x1 y1 x3 y3).y
        + areaArcUnit (circleSegment x2 y2 x3 y3).p2.x (circleSegment x2 y2 x3 y3).p2.y
          (circleSegmentSingle2 x1 y1 x2 y2).x (circleSegmentSingle2 x1 y1 x2 y2).y
        + areaArcUnit (circleSegment x2 y2 x3 y3).p1.x (circleSegment x2 y2 x3 y3).p1.y
          (circleSegmentSingle2 x1 y1 x3 y3).x (circleSegmentSingle2 x1 y1 x3 y3).y := by
  unfold caseOneIn; simp only
  rw [if_neg (by push Not; exact hle), decide_eq_true hsw]
  simp

/-- value of `caseOneIn` in the "no intersection" branch, with the geometric form of the side test. -/
theorem caseOneIn_nochord (x1 y1 x2 y2 x3 y3 : ℝ)
    (hgt : 1 < (circleSegment x2 y2 x3 y3).p1.x)
    (oA : orient ((circleSegmentSingle2 x1 y1 x2 y2).x, (circleSegmentSingle2 x1 y1 x2 y2).y)
      ((circleSegmentSingle2 x1 y1 x3 y3).x, (circleSegmentSingle2 x1 y1 x3 y3).y) (x1, y1) ≠ 0)
    (hdia : cross ((circleSegmentSingle2 x1 y1 x2 y2).x, (circleSegmentSingle2 x1 y1 x2 y2).y)
      ((circleSegmentSingle2 x1 y1 x3 y3).x, (circleSegmentSingle2 x1 y1 x3 y3).y) = 0 →
      areaArcUnit (circleSegmentSingle2 x1 y1 x2 y2).x (circleSegmentSingle2 x1 y1 x2 y2).y
        (circleSegmentSingle2 x1 y1 x3 y3).x (circleSegmentSingle2 x1 y1 x3 y3).y = Real.pi / 2) :
    caseOneIn x1 y1 x2 y2 x3 y3 =
      areaTriangle x1 y1 (circleSegmentSingle2 x1 y1 x2 y2).x (circleSegmentSingle2 x1 y1 x2 y2).y
          (circleSegmentSingle2 x1 y1 x3 y3).x (circleSegmentSingle2 x1 y1 x3 y3).y +
        (if 0 ≤ orient ((circleSegmentSingle2 x1 y1 x2 y2).x, (circleSegmentSingle2 x1 y1 x2 y2).y)
              ((circleSegmentSingle2 x1 y1 x3 y3).x, (circleSegmentSingle2 x1 y1 x3 y3).y) (x1, y1) *
            cross ((circleSegmentSingle2 x1 y1 x2 y2).x, (circleSegmentSingle2 x1 y1 x2 y2).y)
              ((circleSegmentSingle2 x1 y1 x3 y3).x, (circleSegmentSingle2 x1 y1 x3 y3).y)
          then areaArcUnit (circleSegmentSingle2 x1 y1 x2 y2).x (circleSegmentSingle2 x1 y1 x2 y2).y
            (circleSegmentSingle2 x1 y1 x3 y3).x (circleSegmentSingle2 x1 y1 x3 y3).y
          else Real.pi - areaArcUnit (circleSegmentSingle2 x1 y1 x2 y2).x (circleSegmentSingle2 x1 y1 x2 y2).y
            (circleSegmentSingle2 x1 y1 x3 y3).x (circleSegmentSingle2 x1 y1 x3 y3).y) := by
  set pt3 := circleSegmentSingle2 x1 y1 x2 y2 with hpt3
  set pt4 := circleSegmentSingle2 x1 y1 x3 y3 with hpt4
  have hst := sep_test (cross (pt3.x, pt3.y) (pt4.x, pt4.y)) (orient (pt3.x, pt3.y) (pt4.x, pt4.y) (x1, y1))
    (areaArcUnit pt3.x pt3.y pt4.x pt4.y) oA hdia
  rw [← hst]
  unfold caseOneIn; simp only
  rw [if_pos hgt, ← hpt3, ← hpt4]
  have eO : ((0 - pt3.y) * (pt4.x - pt3.x) > (pt4.y - pt3.y) * (0 - pt3.x)) ↔ cross (pt3.x, pt3.y) (pt4.x, pt4.y) > 0 := by
    unfold cross; simp only; constructor <;> intro h <;> nlinarith
  have eA : ((y1 - pt3.y) * (pt4.x - pt3.x) > (pt4.y - pt3.y) * (x1 - pt3.x)) ↔ orient (pt3.x, pt3.y) (pt4.x, pt4.y) (x1, y1) > 0 := by
    unfold orient; simp only; constructor <;> intro h <;> nlinarith
  simp only [eO, eA]
  split_ifs <;> rfl

/-- **(c) one vertex inside, two outside** (all clear of the `1e-10` ring, edges not "tiny"). -/
theorem sorted_oneIn (self : ℝ → ℝ → ℝ → ℝ → ℝ → ℝ → Option ℝ) (V1 V2 V3 : ℝ × ℝ)
    (hD : orient V1 V2 V3 ≠ 0) (h1 : dd V1 ≤ 1 - 1.0e-10) (h2 : 1 + 1.0e-10 ≤ dd V2) (h23 : dd V2 ≤ dd V3)
    (nt12 : NotTiny V1 V2) (nt13 : NotTiny V1 V3) (nt23 : NotTiny V2 V3) :
    SortedCorrect self V1 V2 V3 := by
  have h3 : 1 + 1.0e-10 ≤ dd V3 := le_trans h2 h23
  have i1 : V1.1 * V1.1 + V1.2 * V1.2 < 1 := by unfold dd at h1; norm_num at h1 ⊢; linarith
  have i2 : 1 < V2.1 * V2.1 + V2.2 * V2.2 := by unfold dd at h2; norm_num at h2 ⊢; linarith
  have i3 : 1 < V3.1 * V3.1 + V3.2 * V3.2 := by unfold dd at h3; norm_num at h3 ⊢; linarith
  obtain ⟨t, ht0, ht1, px, py, pc⟩ := single2_spec V1.1 V1.2 V2.1 V2.2 i1 i2 nt12
  obtain ⟨u, hu0, hu1, qx, qy, qc⟩ := single2_spec V1.1 V1.2 V3.1 V3.2 i1 i3 nt13
  set pt3 := circleSegmentSingle2 V1.1 V1.2 V2.1 V2.2 with hpt3
  set pt4 := circleSegmentSingle2 V1.1 V1.2 V3.1 V3.2 with hpt4
  have hP3 : (pt3.x, pt3.y) = lerp V1 V2 t := by unfold lerp; rw [px, py]
  have hP4 : (pt4.x, pt4.y) = lerp V1 V3 u := by unfold lerp; rw [qx, qy]
  have c3 := onCircle_sq pt3 pc
  have c4 := onCircle_sq pt4 qc
  have hA : V1.1 ^ 2 + V1.2 ^ 2 < 1 := by nlinarith
  -- the model reaches `caseOneIn`
  have hmodel : overlapSorted self V1.1 V1.2 (dd V1) V2.1 V2.2 (dd V2) V3.1 V3.2 (dd V3) =
      some (caseOneIn V1.1 V1.2 V2.1 V2.2 V3.1 V3.2) := by
    unfold overlapSorted
    rw [if_neg (by push Not; exact ⟨by linarith, h23, by linarith⟩)]
    have n3 : ¬ (|dd V3 - 1| < 1.0e-10) := by
      rw [abs_of_nonneg (by linarith)]; push Not; linarith
    have n3' : ¬ (dd V3 < 1) := by push Not; norm_num at h3 ⊢; linarith
    have n2 : ¬ (|dd V2 - 1| < 1.0e-10) := by
      rw [abs_of_nonneg (by linarith)]; push Not; linarith
    have n2' : ¬ (dd V2 < 1) := by push Not; norm_num at h2 ⊢; linarith
    have y1 : dd V1 < 1 := by norm_num at h1 ⊢; linarith
    have n1 : ¬ (|dd V1 - 1| < 1.0e-10) := by
      rw [abs_of_nonpos (by linarith)]; push Not; linarith
    simp only [n3, n3', n2, n2', y1, n1, decide_false, decide_true, Bool.or_false,
      Bool.false_eq_true, if_false, if_true]
  rcases circleSegment_outside V2.1 V2.2 V3.1 V3.2 i2 i3 nt23 with
    ⟨s1, s2, a1, a2, a3, a4, hne, e1x, e1y, e2x, e2y, oc1, oc2, hle⟩ | ⟨hgt, hmiss⟩
  · -- the far edge cuts the circle twice
    have hN := notTiny_pos V2 V3 nt23
    have hsw := swap_test V2 V3 _ _ s1 s2 a1 a3 hN e1x e1y e2x e2y
    have hQ1 : (((circleSegment V2.1 V2.2 V3.1 V3.2).p1.x, (circleSegment V2.1 V2.2 V3.1 V3.2).p1.y) : ℝ × ℝ) = lerp V2 V3 s1 := by
      unfold lerp; rw [e1x, e1y]
    have hQ2 : (((circleSegment V2.1 V2.2 V3.1 V3.2).p2.x, (circleSegment V2.1 V2.2 V3.1 V3.2).p2.y) : ℝ × ℝ) = lerp V2 V3 s2 := by
      unfold lerp; rw [e2x, e2y]
    have cq1 := onCircle_sq _ oc1
    have cq2 := onCircle_sq _ oc2
    rcases lt_or_gt_of_ne hne with hlt | hlt
    · have g := oneIn_chord_geometry V1 V2 V3 t u s1 s2 hD ht0 ht1 hu0 hu1 a1 hlt a4 hA
        (by rw [← hP3]; exact c3) (by rw [← hP4]; exact c4) (by rw [← hQ1]; exact cq1) (by rw [← hQ2]; exact cq2)
      rw [← hP3, ← hP4, ← hQ1, ← hQ2] at g
      simp only at g
      have hv := caseOneIn_chord_noswap V1.1 V1.2 V2.1 V2.2 V3.1 V3.2 hle (by rw [hsw]; linarith)
      refine ⟨_, hmodel, ?_, ?_⟩
      · rw [hv]
        exact add_nonneg (add_nonneg (add_nonneg (add_nonneg (areaTriangle_nonneg _ _ _ _ _ _)
          (areaTriangle_nonneg _ _ _ _ _ _)) (areaTriangle_nonneg _ _ _ _ _ _)) (areaArcUnit_nonneg _ _ _ _))
          (areaArcUnit_nonneg _ _ _ _)
      · rw [g, hv]
    · have g := oneIn_chord_geometry V1 V2 V3 t u s2 s1 hD ht0 ht1 hu0 hu1 a3 hlt a2 hA
        (by rw [← hP3]; exact c3) (by rw [← hP4]; exact c4) (by rw [← hQ2]; exact cq2) (by rw [← hQ1]; exact cq1)
      rw [← hP3, ← hP4, ← hQ1, ← hQ2] at g
      simp only at g
      have hv := caseOneIn_chord_swap V1.1 V1.2 V2.1 V2.2 V3.1 V3.2 hle (by rw [hsw]; exact hlt)
      refine ⟨_, hmodel, ?_, ?_⟩
      · rw [hv]
        exact add_nonneg (add_nonneg (add_nonneg (add_nonneg (areaTriangle_nonneg _ _ _ _ _ _)
          (areaTriangle_nonneg _ _ _ _ _ _)) (areaTriangle_nonneg _ _ _ _ _ _)) (areaArcUnit_nonneg _ _ _ _))
          (areaArcUnit_nonneg _ _ _ _)
      · rw [g, hv]
  · -- the far edge misses the disk
    have g := oneIn_noChord_geometry V1 V2 V3 t u hD ht0 ht1 hu0 hu1 hA
      (by rw [← hP3]; exact c3) (by rw [← hP4]; exact c4)
      (by intro s k0 k1; have := hmiss s k0 k1; unfold lerp; simp only; nlinarith)
    rw [← hP3, ← hP4] at g
    simp only at g
    have oA : orient (pt3.x, pt3.y) (pt4.x, pt4.y) (V1.1, V1.2) ≠ 0 := by
      have : orient (lerp V1 V2 t) (lerp V1 V3 u) V1 = t * u * orient V1 V2 V3 := by unfold orient lerp; ring
      rw [hP3, hP4, show ((V1.1, V1.2) : ℝ × ℝ) = V1 from rfl, this]
      exact mul_ne_zero (mul_pos ht0 hu0).ne' hD
    have hne' : 0 < (pt4.x - pt3.x) ^ 2 + (pt4.y - pt3.y) ^ 2 := by
      by_contra hn; push Not at hn
      obtain ⟨e1, e2⟩ := eq_zero_of_sq_sum_nonpos _ _ hn
      apply oA; unfold orient; simp only; rw [e1, e2]; ring
    have hdia : cross (pt3.x, pt3.y) (pt4.x, pt4.y) = 0 → areaArcUnit pt3.x pt3.y pt4.x pt4.y = Real.pi / 2 := by
      intro h0
      exact areaArcUnit_diameter (pt3.x, pt3.y) (pt4.x, pt4.y) c3 c4 h0 hne'
    have hval := caseOneIn_nochord V1.1 V1.2 V2.1 V2.2 V3.1 V3.2 hgt oA hdia
    rw [← hpt3, ← hpt4] at hval
    have hpi := Real.pi_pos
    have harc0 := areaArcUnit_nonneg pt3.x pt3.y pt4.x pt4.y
    have harc1 := areaArcUnit_le pt3.x pt3.y pt4.x pt4.y
    have hsecond : 0 ≤ (if 0 ≤ orient (pt3.x, pt3.y) (pt4.x, pt4.y) (V1.1, V1.2) * cross (pt3.x, pt3.y) (pt4.x, pt4.y)
            then areaArcUnit pt3.x pt3.y pt4.x pt4.y else Real.pi - areaArcUnit pt3.x pt3.y pt4.x pt4.y) := by
      split_ifs <;> linarith
    refine ⟨_, hmodel, ?_, ?_⟩
    · rw [hval]; exact add_nonneg (areaTriangle_nonneg _ _ _ _ _ _) hsecond
    · rw [g, hval, ENNReal.ofReal_add (areaTriangle_nonneg _ _ _ _ _ _) hsecond]

/-! ### all three vertices outside: `in_triangle`, the exit lemma -/

/-- the kernel's `in_triangle` is the even-odd rule `Impl.pnpoly` (proved correct for triangles in
`Props/C01Tri`) on the vertex list `[v1, v3, v2]`. -/
theorem inTriangle_eq_pnpoly (x y x1 y1 x2 y2 x3 y3 : ℝ) :
    inTriangle x y x1 y1 x2 y2 x3 y3 =
      Impl.pnpoly [(⟨x1, y1⟩ : Impl.Pt ℝ), ⟨x3, y3⟩, ⟨x2, y2⟩] ⟨x, y⟩ := by
  rw [C01.pnpoly_tri]
  unfold inTriangle Impl.edgeCross
  simp only
  generalize (decide (y1 > y) != decide (y2 > y) && decide (x < (x2 - x1) * (y - y1) / (y2 - y1) + x1)) = b1
  generalize (decide (y2 > y) != decide (y3 > y) && decide (x < (x3 - x2) * (y - y2) / (y3 - y2) + x2)) = b2
  generalize (decide (y3 > y) != decide (y1 > y) && decide (x < (x1 - x3) * (y - y3) / (y1 - y3) + x3)) = b3
  cases b1 <;> cases b2 <;> cases b3 <;> rfl

/-- a convex combination of two points of the disk is in the disk. -/
theorem disk_convex (P Q : ℝ × ℝ) (w : ℝ) (hw0 : 0 ≤ w) (hw1 : w ≤ 1)
    (hP : P.1 ^ 2 + P.2 ^ 2 < 1) (hQ : Q.1 ^ 2 + Q.2 ^ 2 < 1) :
    ((1 - w) * P.1 + w * Q.1) ^ 2 + ((1 - w) * P.2 + w * Q.2) ^ 2 < 1 := by
  have key : ((1 - w) * P.1 + w * Q.1) ^ 2 + ((1 - w) * P.2 + w * Q.2) ^ 2 =
      (1 - w) * (P.1 ^ 2 + P.2 ^ 2) + w * (Q.1 ^ 2 + Q.2 ^ 2) - (1 - w) * w * ((P.1 - Q.1) ^ 2 + (P.2 - Q.2) ^ 2) := by ring
  rw [key]
  have h1 : 0 ≤ (1 - w) * w * ((P.1 - Q.1) ^ 2 + (P.2 - Q.2) ^ 2) :=
    mul_nonneg (mul_nonneg (by linarith) hw0) (by positivity)
  rcases hw0.lt_or_eq with h | h
  · nlinarith [mul_pos h (sub_pos.mpr hQ), mul_nonneg (sub_nonneg.mpr hw1) (sub_pos.mpr hP).le]
  · rw [← h]; simp; linarith

/-- **exit lemma** (one edge): going from `P` (on the inner side of `B C`) to `Q` (strictly
beyond `B C`), if the line `B C` is the first of the three edge lines to be crossed, the
crossing point is on the segment `B C`; it is in the disk if `P` and `Q` are. -/
theorem exit_at (A B C P Q : ℝ × ℝ) (hD : orient A B C ≠ 0)
    (hPd : P.1 ^ 2 + P.2 ^ 2 < 1) (hQd : Q.1 ^ 2 + Q.2 ^ 2 < 1)
    (aP : 0 ≤ orient A B C * orient B C P) (aQ : orient A B C * orient B C Q < 0)
    (h1 : 0 ≤ orient B C P * orient C A Q - orient B C Q * orient C A P)
    (h2 : 0 ≤ orient B C P * orient A B Q - orient B C Q * orient A B P) :
    ∃ s : ℝ, 0 ≤ s ∧ s ≤ 1 ∧ (lerp B C s).1 ^ 2 + (lerp B C s).2 ^ 2 < 1 := by
  set D := orient A B C with hDdef
  set den := orient B C P - orient B C Q with hden
  have hDden : 0 < D * den := by rw [hden]; nlinarith
  have hne : D * den ≠ 0 := hDden.ne'
  have hdenne : den ≠ 0 := by intro h0; rw [h0, mul_zero] at hDden; exact lt_irrefl _ hDden
  have hsumP : orient B C P + orient C A P + orient A B P = D := by rw [hDdef]; unfold orient; ring
  have hsumQ : orient B C Q + orient C A Q + orient A B Q = D := by rw [hDdef]; unfold orient; ring
  have hsum : (orient B C P * orient C A Q - orient B C Q * orient C A P) +
      (orient B C P * orient A B Q - orient B C Q * orient A B P) = D * den := by
    rw [hden]
    have e1 : orient C A Q + orient A B Q = D - orient B C Q := by linarith
    have e2 : orient C A P + orient A B P = D - orient B C P := by linarith
    linear_combination (orient B C P) * e1 - (orient B C Q) * e2
  set s := (orient B C P * orient A B Q - orient B C Q * orient A B P) / (D * den) with hs
  have hs0 : 0 ≤ s := div_nonneg h2 hDden.le
  have hs1 : s ≤ 1 := by rw [hs, div_le_one hDden]; linarith
  refine ⟨s, hs0, hs1, ?_⟩
  -- the crossing point as a convex combination of P and Q
  set w := (D * orient B C P) / (D * den) with hw
  have hw0 : 0 ≤ w := div_nonneg aP hDden.le
  have hw1 : w ≤ 1 := by rw [hw, div_le_one hDden, hden]; nlinarith
  have c1 : (lerp B C s).1 = (1 - w) * P.1 + w * Q.1 := by
    rw [hs, hw, hden, hDdef]; unfold lerp orient; simp only
    have : (B.1 - A.1) * (C.2 - A.2) - (B.2 - A.2) * (C.1 - A.1) ≠ 0 := hD
    have h3 : (C.1 - B.1) * (P.2 - B.2) - (C.2 - B.2) * (P.1 - B.1) - ((C.1 - B.1) * (Q.2 - B.2) - (C.2 - B.2) * (Q.1 - B.1)) ≠ 0 := hdenne
    field_simp
    ring
  have c2 : (lerp B C s).2 = (1 - w) * P.2 + w * Q.2 := by
    rw [hs, hw, hden, hDdef]; unfold lerp orient; simp only
    have : (B.1 - A.1) * (C.2 - A.2) - (B.2 - A.2) * (C.1 - A.1) ≠ 0 := hD
    have h3 : (C.1 - B.1) * (P.2 - B.2) - (C.2 - B.2) * (P.1 - B.1) - ((C.1 - B.1) * (Q.2 - B.2) - (C.2 - B.2) * (Q.1 - B.1)) ≠ 0 := hdenne
    field_simp
    ring
  rw [c1, c2]
  exact disk_convex P Q w hw0 hw1 hPd hQd

/-- **exit lemma**: a segment inside the disk that starts in the triangle and ends outside it
meets one of the three edges (segments) at a point of the disk. -/
theorem exit_edge (A B C P Q : ℝ × ℝ) (hD : orient A B C ≠ 0)
    (hP : P ∈ triSet A B C) (hQ : Q ∉ triSet A B C)
    (hPd : P.1 ^ 2 + P.2 ^ 2 < 1) (hQd : Q.1 ^ 2 + Q.2 ^ 2 < 1) :
    (∃ s : ℝ, 0 ≤ s ∧ s ≤ 1 ∧ (lerp B C s).1 ^ 2 + (lerp B C s).2 ^ 2 < 1) ∨
    (∃ s : ℝ, 0 ≤ s ∧ s ≤ 1 ∧ (lerp C A s).1 ^ 2 + (lerp C A s).2 ^ 2 < 1) ∨
    (∃ s : ℝ, 0 ≤ s ∧ s ≤ 1 ∧ (lerp A B s).1 ^ 2 + (lerp A B s).2 ^ 2 < 1) := by
  rw [mem_triSet_iff _ _ _ _ hD] at hP hQ
  obtain ⟨aP, bP, cP⟩ := hP
  set D := orient A B C with hDdef
  have hD2 : 0 < D * D := mul_self_pos.mpr hD
  have hDb : orient B C A = D := by rw [hDdef]; unfold orient; ring
  have hDc : orient C A B = D := by rw [hDdef]; unfold orient; ring
  -- the three pairwise quantities
  have Xab : (D * orient B C P) * (D * orient C A Q) - (D * orient B C Q) * (D * orient C A P) =
      D * D * (orient B C P * orient C A Q - orient B C Q * orient C A P) := by ring
  have Xbc : (D * orient C A P) * (D * orient A B Q) - (D * orient C A Q) * (D * orient A B P) =
      D * D * (orient C A P * orient A B Q - orient C A Q * orient A B P) := by ring
  have Xca : (D * orient A B P) * (D * orient B C Q) - (D * orient A B Q) * (D * orient B C P) =
      D * D * (orient A B P * orient B C Q - orient A B Q * orient B C P) := by ring
  set a' := D * orient B C P
  set b' := D * orient C A P
  set c' := D * orient A B P
  set a'' := D * orient B C Q
  set b'' := D * orient C A Q
  set c'' := D * orient A B Q
  set xab := orient B C P * orient C A Q - orient B C Q * orient C A P
  set xbc := orient C A P * orient A B Q - orient C A Q * orient A B P
  set xca := orient A B P * orient B C Q - orient A B Q * orient B C P
  -- exits
  have exitA : a'' < 0 → 0 ≤ xab → xca ≤ 0 →
      ∃ s : ℝ, 0 ≤ s ∧ s ≤ 1 ∧ (lerp B C s).1 ^ 2 + (lerp B C s).2 ^ 2 < 1 := by
    intro h1 h2 h3
    exact exit_at A B C P Q hD hPd hQd aP h1 h2 (by
      have : orient B C P * orient A B Q - orient B C Q * orient A B P = -xca := by ring
      rw [this]; linarith)
  have exitB : b'' < 0 → 0 ≤ xbc → xab ≤ 0 →
      ∃ s : ℝ, 0 ≤ s ∧ s ≤ 1 ∧ (lerp C A s).1 ^ 2 + (lerp C A s).2 ^ 2 < 1 := by
    intro h1 h2 h3
    exact exit_at B C A P Q (by rw [hDb]; exact hD) hPd hQd (by rw [hDb]; exact bP) (by rw [hDb]; exact h1) h2 (by
      have : orient C A P * orient B C Q - orient C A Q * orient B C P = -xab := by ring
      rw [this]; linarith)
  have exitC : c'' < 0 → 0 ≤ xca → xbc ≤ 0 →
      ∃ s : ℝ, 0 ≤ s ∧ s ≤ 1 ∧ (lerp A B s).1 ^ 2 + (lerp A B s).2 ^ 2 < 1 := by
    intro h1 h2 h3
    exact exit_at C A B P Q (by rw [hDc]; exact hD) hPd hQd (by rw [hDc]; exact cP) (by rw [hDc]; exact h1) h2 (by
      have : orient A B P * orient C A Q - orient A B Q * orient C A P = -xbc := by ring
      rw [this]; linarith)
  have pos_of : ∀ x : ℝ, 0 ≤ D * D * x → 0 ≤ x := fun x h => nonneg_of_mul_nonneg_right h hD2
  have neg_of : ∀ x : ℝ, D * D * x ≤ 0 → x ≤ 0 := fun x h => by
    by_contra hn; push Not at hn
    have := mul_pos hD2 hn; linarith
  by_cases ha : a'' < 0 <;> by_cases hb : b'' < 0 <;> by_cases hc : c'' < 0
  · -- all negative: impossible
    exfalso
    have s1 : a' + b' + c' = D * D := by
      have : orient B C P + orient C A P + orient A B P = D := by rw [hDdef]; unfold orient; ring
      calc a' + b' + c' = D * (orient B C P + orient C A P + orient A B P) := by ring
        _ = D * D := by rw [this]
    have s2 : a'' + b'' + c'' = D * D := by
      have : orient B C Q + orient C A Q + orient A B Q = D := by rw [hDdef]; unfold orient; ring
      calc a'' + b'' + c'' = D * (orient B C Q + orient C A Q + orient A B Q) := by ring
        _ = D * D := by rw [this]
    linarith
  · -- a'', b'' < 0 ≤ c''
    push Not at hc
    by_cases hx : 0 ≤ xab
    · left; exact exitA ha hx (neg_of _ (by rw [← Xca]; nlinarith [mul_nonneg cP (neg_nonneg.mpr ha.le), mul_nonneg hc aP]))
    · push Not at hx
      right; left
      exact exitB hb (pos_of _ (by rw [← Xbc]; nlinarith [mul_nonneg bP hc, mul_nonneg (neg_nonneg.mpr hb.le) cP])) hx.le
  · -- a'', c'' < 0 ≤ b''
    push Not at hb
    by_cases hx : 0 ≤ xca
    · right; right
      exact exitC hc hx (neg_of _ (by rw [← Xbc]; nlinarith [mul_nonneg bP (neg_nonneg.mpr hc.le), mul_nonneg hb cP]))
    · push Not at hx
      left
      exact exitA ha (pos_of _ (by rw [← Xab]; nlinarith [mul_nonneg aP hb, mul_nonneg (neg_nonneg.mpr ha.le) bP])) hx.le
  · -- only a'' < 0
    push Not at hb hc
    left
    exact exitA ha (pos_of _ (by rw [← Xab]; nlinarith [mul_nonneg aP hb, mul_nonneg (neg_nonneg.mpr ha.le) bP]))
      (neg_of _ (by rw [← Xca]; nlinarith [mul_nonneg cP (neg_nonneg.mpr ha.le), mul_nonneg hc aP]))
  · -- b'', c'' < 0 ≤ a''
    push Not at ha
    by_cases hx : 0 ≤ xbc
    · right; left
      exact exitB hb hx (neg_of _ (by rw [← Xab]; nlinarith [mul_nonneg aP (neg_nonneg.mpr hb.le), mul_nonneg ha bP]))
    · push Not at hx
      right; right
      exact exitC hc (pos_of _ (by rw [← Xca]; nlinarith [mul_nonneg cP ha, mul_nonneg (neg_nonneg.mpr hc.le) aP])) hx.le
  · -- only b'' < 0
    push Not at ha hc
    right; left
    exact exitB hb (pos_of _ (by rw [← Xbc]; nlinarith [mul_nonneg bP hc, mul_nonneg (neg_nonneg.mpr hb.le) cP]))
      (neg_of _ (by rw [← Xab]; nlinarith [mul_nonneg aP (neg_nonneg.mpr hb.le), mul_nonneg ha bP]))
  · -- only c'' < 0
    push Not at ha hb
    right; right
    exact exitC hc (pos_of _ (by rw [← Xca]; nlinarith [mul_nonneg cP ha, mul_nonneg (neg_nonneg.mpr hc.le) aP]))
      (neg_of _ (by rw [← Xbc]; nlinarith [mul_nonneg bP (neg_nonneg.mpr hc.le), mul_nonneg hb cP]))
  · -- none negative: Q is in the triangle
    push Not at ha hb hc
    exact absurd ⟨ha, hb, hc⟩ hQ

/-- a point of the (closed) triangle on the line `B C` is on the segment `B C`. -/
theorem on_edge_of_orient_zero (A B C X : ℝ × ℝ) (hD : orient A B C ≠ 0) (hX : X ∈ triSet A B C)
    (h0 : orient B C X = 0) : ∃ s : ℝ, 0 ≤ s ∧ s ≤ 1 ∧ X = lerp B C s := by
  rw [mem_triSet_iff _ _ _ _ hD] at hX
  obtain ⟨-, b, c⟩ := hX
  set D := orient A B C with hDdef
  have hD2 : 0 < D * D := mul_self_pos.mpr hD
  have hsum : orient C A X + orient A B X = D := by
    have : orient B C X + orient C A X + orient A B X = D := by rw [hDdef]; unfold orient; ring
    linarith
  refine ⟨orient A B X / D, ?_, ?_, ?_⟩
  · have : orient A B X / D = (D * orient A B X) / (D * D) := by field_simp
    rw [this]; exact div_nonneg c hD2.le
  · have : 1 - orient A B X / D = (D * orient C A X) / (D * D) := by
      have : orient C A X = D - orient A B X := by linarith
      rw [this]; field_simp
    have h2 : 0 ≤ 1 - orient A B X / D := by rw [this]; exact div_nonneg b hD2.le
    linarith
  · have bx : D * X.1 = orient B C X * A.1 + orient C A X * B.1 + orient A B X * C.1 := by
      rw [hDdef]; unfold orient; ring
    have by' : D * X.2 = orient B C X * A.2 + orient C A X * B.2 + orient A B X * C.2 := by
      rw [hDdef]; unfold orient; ring
    rw [h0] at bx by'
    have e : orient C A X = D - orient A B X := by linarith
    rw [e] at bx by'
    unfold lerp
    ext
    · simp only; field_simp; linarith
    · simp only; field_simp; linarith

/-- `in_triangle(0, 0, …)` decides whether the centre is in the triangle, when no edge passes
through the open disk. -/
theorem inTriangle_origin (V1 V2 V3 : ℝ × ℝ) (hD : orient V1 V2 V3 ≠ 0)
    (m12 : ∀ s : ℝ, 0 ≤ s → s ≤ 1 → 1 ≤ (lerp V1 V2 s).1 ^ 2 + (lerp V1 V2 s).2 ^ 2)
    (m23 : ∀ s : ℝ, 0 ≤ s → s ≤ 1 → 1 ≤ (lerp V2 V3 s).1 ^ 2 + (lerp V2 V3 s).2 ^ 2)
    (m31 : ∀ s : ℝ, 0 ≤ s → s ≤ 1 → 1 ≤ (lerp V3 V1 s).1 ^ 2 + (lerp V3 V1 s).2 ^ 2) :
    inTriangle 0 0 V1.1 V1.2 V2.1 V2.2 V3.1 V3.2 = true ↔ ((0 : ℝ), (0 : ℝ)) ∈ triSet V1 V2 V3 := by
  rw [inTriangle_eq_pnpoly]
  set O : ℝ × ℝ := (0, 0) with hO
  have hD' : C01.orient (⟨V1.1, V1.2⟩ : Impl.Pt ℝ) ⟨V3.1, V3.2⟩ ⟨V2.1, V2.2⟩ ≠ 0 := by
    have : C01.orient (⟨V1.1, V1.2⟩ : Impl.Pt ℝ) ⟨V3.1, V3.2⟩ ⟨V2.1, V2.2⟩ = -orient V1 V2 V3 := by
      unfold C01.orient orient; ring
    rw [this]; exact neg_ne_zero.mpr hD
  have key := C01.pnpoly_triangle (⟨V1.1, V1.2⟩ : Impl.Pt ℝ) ⟨V3.1, V3.2⟩ ⟨V2.1, V2.2⟩ ⟨0, 0⟩ hD'
  have e0 : C01.orient (⟨V1.1, V1.2⟩ : Impl.Pt ℝ) ⟨V3.1, V3.2⟩ ⟨V2.1, V2.2⟩ = -orient V1 V2 V3 := by
    unfold C01.orient orient; ring
  have e1 : C01.orient (⟨V1.1, V1.2⟩ : Impl.Pt ℝ) ⟨V3.1, V3.2⟩ ⟨0, 0⟩ = -orient V3 V1 O := by
    unfold C01.orient orient; simp only [hO]; ring
  have e2 : C01.orient (⟨V3.1, V3.2⟩ : Impl.Pt ℝ) ⟨V2.1, V2.2⟩ ⟨0, 0⟩ = -orient V2 V3 O := by
    unfold C01.orient orient; simp only [hO]; ring
  have e3 : C01.orient (⟨V2.1, V2.2⟩ : Impl.Pt ℝ) ⟨V1.1, V1.2⟩ ⟨0, 0⟩ = -orient V1 V2 O := by
    unfold C01.orient orient; simp only [hO]; ring
  rw [e0, e1, e2, e3] at key
  obtain ⟨kin, kout⟩ := key
  have hDb : orient V2 V3 V1 = orient V1 V2 V3 := by unfold orient; ring
  have hDc : orient V3 V1 V2 = orient V1 V2 V3 := by unfold orient; ring
  constructor
  · intro htrue
    by_contra hnot
    rw [mem_triSet_iff _ _ _ _ hD] at hnot
    have : -orient V1 V2 V3 * -orient V3 V1 O < 0 ∨ -orient V1 V2 V3 * -orient V2 V3 O < 0 ∨
        -orient V1 V2 V3 * -orient V1 V2 O < 0 := by
      by_contra hc
      push Not at hc
      exact hnot ⟨by linarith [hc.2.1], by linarith [hc.1], by linarith [hc.2.2]⟩
    rw [kout this] at htrue
    exact Bool.false_ne_true htrue
  · intro hin
    have hin' := hin
    rw [mem_triSet_iff _ _ _ _ hD] at hin'
    obtain ⟨a, b, c⟩ := hin'
    have hOd : O.1 ^ 2 + O.2 ^ 2 < 1 := by simp [hO]
    have strict : ∀ (A B C : ℝ × ℝ), orient A B C ≠ 0 → O ∈ triSet A B C →
        (∀ s : ℝ, 0 ≤ s → s ≤ 1 → 1 ≤ (lerp B C s).1 ^ 2 + (lerp B C s).2 ^ 2) →
        orient B C O ≠ 0 := by
      intro A B C hd hmem hm h0
      obtain ⟨s, s0, s1, hs⟩ := on_edge_of_orient_zero A B C O hd hmem h0
      have := hm s s0 s1
      rw [← hs] at this
      linarith
    have n1 := strict V1 V2 V3 hD hin m23
    have n2 := strict V2 V3 V1 (by rw [hDb]; exact hD) (by rw [← triSet_rot]; exact hin) m31
    have n3 := strict V3 V1 V2 (by rw [hDc]; exact hD) (by rw [triSet_rot V3 V1 V2]; exact hin) m12
    apply kin
    have hne : orient V1 V2 V3 ≠ 0 := hD
    refine ⟨?_, ?_, ?_⟩
    · have : -orient V1 V2 V3 * -orient V3 V1 O = orient V1 V2 V3 * orient V3 V1 O := by ring
      rw [this]; exact lt_of_le_of_ne b (Ne.symm (mul_ne_zero hne n2))
    · have : -orient V1 V2 V3 * -orient V2 V3 O = orient V1 V2 V3 * orient V2 V3 O := by ring
      rw [this]; exact lt_of_le_of_ne a (Ne.symm (mul_ne_zero hne n1))
    · have : -orient V1 V2 V3 * -orient V1 V2 O = orient V1 V2 V3 * orient V1 V2 O := by ring
      rw [this]; exact lt_of_le_of_ne c (Ne.symm (mul_ne_zero hne n3))

/-! ### all three vertices outside: no chord (0 or π), and the recursion step -/

open Classical in

/-- **all edges miss the open disk**: the overlap is the whole disk or nothing. -/
theorem noneIn_noChord_volume (V1 V2 V3 : ℝ × ℝ) (hD : orient V1 V2 V3 ≠ 0)
    (m12 : ∀ s : ℝ, 0 ≤ s → s ≤ 1 → 1 ≤ (lerp V1 V2 s).1 ^ 2 + (lerp V1 V2 s).2 ^ 2)
    (m23 : ∀ s : ℝ, 0 ≤ s → s ≤ 1 → 1 ≤ (lerp V2 V3 s).1 ^ 2 + (lerp V2 V3 s).2 ^ 2)
    (m31 : ∀ s : ℝ, 0 ≤ s → s ≤ 1 → 1 ≤ (lerp V3 V1 s).1 ^ 2 + (lerp V3 V1 s).2 ^ 2) :
    volume (triSet V1 V2 V3 ∩ disk) =
      ENNReal.ofReal (if ((0 : ℝ), (0 : ℝ)) ∈ triSet V1 V2 V3 then Real.pi else 0) := by
  have hOd : ((0 : ℝ), (0 : ℝ)).1 ^ 2 + ((0 : ℝ), (0 : ℝ)).2 ^ 2 < 1 := by simp
  have contra : ∀ P Q : ℝ × ℝ, P ∈ triSet V1 V2 V3 → Q ∉ triSet V1 V2 V3 →
      P.1 ^ 2 + P.2 ^ 2 < 1 → Q.1 ^ 2 + Q.2 ^ 2 < 1 → False := by
    intro P Q hP hQ hPd hQd
    rcases exit_edge V1 V2 V3 P Q hD hP hQ hPd hQd with ⟨s, s0, s1, h⟩ | ⟨s, s0, s1, h⟩ | ⟨s, s0, s1, h⟩
    · linarith [m23 s s0 s1]
    · linarith [m31 s s0 s1]
    · linarith [m12 s s0 s1]
  by_cases hO : ((0 : ℝ), (0 : ℝ)) ∈ triSet V1 V2 V3
  · rw [if_pos hO, ← volume_disk]
    congr 1
    ext X
    simp only [Set.mem_inter_iff, and_iff_right_iff_imp]
    intro hX
    by_contra hn
    exact contra _ X hO hn hOd hX
  · rw [if_neg hO, ENNReal.ofReal_zero]
    have : triSet V1 V2 V3 ∩ disk = ∅ := by
      rw [Set.eq_empty_iff_forall_notMem]
      rintro X ⟨hX, hXd⟩
      exact contra X _ hX hO hXd hOd
    rw [this, measure_empty]

theorem optAdd_comm (a b : Option ℝ) : optAdd a b = optAdd b a := by
  cases a <;> cases b <;> simp [optAdd, add_comm]

/-- **the recursion step**: an edge `E1 E2` (both ends outside) cutting the circle twice; the
triangle is split at the midpoint `M` of the chord, and the answer is right if it is right on
the two halves. -/
theorem rec_edge (n : Nat) (E1 E2 W : ℝ × ℝ) (hD : orient E1 E2 W ≠ 0)
    (h1 : 1 < E1.1 * E1.1 + E1.2 * E1.2) (h2 : 1 < E2.1 * E2.1 + E2.2 * E2.2) (nt : NotTiny E1 E2)
    (hle : (circleSegment E1.1 E1.2 E2.1 E2.2).p1.x ≤ 1)
    (c1 : TriCorrect n E1 W (0.5 * ((circleSegment E1.1 E1.2 E2.1 E2.2).p1.x + (circleSegment E1.1 E1.2 E2.1 E2.2).p2.x),
                              0.5 * ((circleSegment E1.1 E1.2 E2.1 E2.2).p1.y + (circleSegment E1.1 E1.2 E2.1 E2.2).p2.y)))
    (c2 : TriCorrect n E2 W (0.5 * ((circleSegment E1.1 E1.2 E2.1 E2.2).p1.x + (circleSegment E1.1 E1.2 E2.1 E2.2).p2.x),
                              0.5 * ((circleSegment E1.1 E1.2 E2.1 E2.2).p1.y + (circleSegment E1.1 E1.2 E2.1 E2.2).p2.y))) :
    ∃ v : ℝ, optAdd
        (overlapTri n E1.1 E1.2 W.1 W.2
          (0.5 * ((circleSegment E1.1 E1.2 E2.1 E2.2).p1.x + (circleSegment E1.1 E1.2 E2.1 E2.2).p2.x))
          (0.5 * ((circleSegment E1.1 E1.2 E2.1 E2.2).p1.y + (circleSegment E1.1 E1.2 E2.1 E2.2).p2.y)))
        (overlapTri n E2.1 E2.2 W.1 W.2
          (0.5 * ((circleSegment E1.1 E1.2 E2.1 E2.2).p1.x + (circleSegment E1.1 E1.2 E2.1 E2.2).p2.x))
          (0.5 * ((circleSegment E1.1 E1.2 E2.1 E2.2).p1.y + (circleSegment E1.1 E1.2 E2.1 E2.2).p2.y))) = some v ∧
      0 ≤ v ∧ volume (triSet E1 E2 W ∩ disk) = ENNReal.ofReal v := by
  rcases circleSegment_outside E1.1 E1.2 E2.1 E2.2 h1 h2 nt with
    ⟨s1, s2, a1, a2, a3, a4, -, e1x, e1y, e2x, e2y, -, -, -⟩ | ⟨hgt, -⟩
  · set M : ℝ × ℝ := (0.5 * ((circleSegment E1.1 E1.2 E2.1 E2.2).p1.x + (circleSegment E1.1 E1.2 E2.1 E2.2).p2.x),
        0.5 * ((circleSegment E1.1 E1.2 E2.1 E2.2).p1.y + (circleSegment E1.1 E1.2 E2.1 E2.2).p2.y)) with hM
    have hMl : M = lerp E1 E2 ((s1 + s2) / 2) := by
      rw [hM, e1x, e1y, e2x, e2y]; unfold lerp; ext <;> simp only <;> ring
    obtain ⟨u, hu, hu0, hu1⟩ := c1
    obtain ⟨w, hw, hw0, hw1⟩ := c2
    refine ⟨u + w, ?_, add_nonneg hu0 hw0, ?_⟩
    · rw [hu, hw]; rfl
    · have hD' : orient W E1 E2 ≠ 0 := by
        have : orient W E1 E2 = orient E1 E2 W := by unfold orient; ring
        rw [this]; exact hD
      have sp := volume_split W E1 E2 ((s1 + s2) / 2) disk measurableSet_disk hD' (by linarith) (by linarith)
      rw [← hMl] at sp
      rw [← triSet_rot W E1 E2, sp, triSet_swap12 W E1 M, triSet_swap12 W E2 M, hu1, hw1,
        ENNReal.ofReal_add hu0 hw0]
  · exfalso; linarith

/-- the chord midpoint used by the all-outside branch for the edge `E1 E2`. -/
noncomputable def chordMid (E1 E2 : ℝ × ℝ) : ℝ × ℝ :=
  (0.5 * ((circleSegment E1.1 E1.2 E2.1 E2.2).p1.x + (circleSegment E1.1 E1.2 E2.1 E2.2).p2.x),
   0.5 * ((circleSegment E1.1 E1.2 E2.1 E2.2).p1.y + (circleSegment E1.1 E1.2 E2.1 E2.2).p2.y))

/-- `circle_segment` reports two crossings of the edge. -/
def HasChord (E1 E2 : ℝ × ℝ) : Prop := (circleSegment E1.1 E1.2 E2.1 E2.2).p1.x ≤ 1

open Classical in
/-- **(b)/(c) all three vertices outside** (clear of the `1e-10` ring, edges not "tiny"): no
chord ⇒ `π` or `0` as the centre is in the triangle or not; a chord on an edge ⇒ the recursion,
right as soon as it is right (`R`) on the two halves the kernel builds. -/
theorem sorted_noneIn (n : Nat) (V1 V2 V3 : ℝ × ℝ)
    (hD : orient V1 V2 V3 ≠ 0) (h1 : 1 + 1.0e-10 ≤ dd V1) (h12 : dd V1 ≤ dd V2) (h23 : dd V2 ≤ dd V3)
    (nt12 : NotTiny V1 V2) (nt23 : NotTiny V2 V3) (nt31 : NotTiny V3 V1)
    (r12 : HasChord V1 V2 → TriCorrect n V1 V3 (chordMid V1 V2) ∧ TriCorrect n V2 V3 (chordMid V1 V2))
    (r23 : ¬ HasChord V1 V2 → HasChord V2 V3 →
      TriCorrect n V3 V1 (chordMid V2 V3) ∧ TriCorrect n V2 V1 (chordMid V2 V3))
    (r31 : ¬ HasChord V1 V2 → ¬ HasChord V2 V3 → HasChord V3 V1 →
      TriCorrect n V1 V2 (chordMid V3 V1) ∧ TriCorrect n V3 V2 (chordMid V3 V1)) :
    SortedCorrect (overlapTri n) V1 V2 V3 := by
  have h2 : 1 + 1.0e-10 ≤ dd V2 := le_trans h1 h12
  have h3 : 1 + 1.0e-10 ≤ dd V3 := le_trans h2 h23
  have i1 : 1 < V1.1 * V1.1 + V1.2 * V1.2 := by unfold dd at h1; norm_num at h1 ⊢; linarith
  have i2 : 1 < V2.1 * V2.1 + V2.2 * V2.2 := by unfold dd at h2; norm_num at h2 ⊢; linarith
  have i3 : 1 < V3.1 * V3.1 + V3.2 * V3.2 := by unfold dd at h3; norm_num at h3 ⊢; linarith
  have hmodel : overlapSorted (overlapTri n) V1.1 V1.2 (dd V1) V2.1 V2.2 (dd V2) V3.1 V3.2 (dd V3) =
      caseNoneIn (overlapTri n) V1.1 V1.2 V2.1 V2.2 V3.1 V3.2 := by
    unfold overlapSorted
    rw [if_neg (by push Not; exact ⟨h12, h23, le_trans h12 h23⟩)]
    have n3 : ¬ (|dd V3 - 1| < 1.0e-10) := by
      rw [abs_of_nonneg (by linarith)]; push Not; linarith
    have n3' : ¬ (dd V3 < 1) := by push Not; norm_num at h3 ⊢; linarith
    have n2 : ¬ (|dd V2 - 1| < 1.0e-10) := by
      rw [abs_of_nonneg (by linarith)]; push Not; linarith
    have n2' : ¬ (dd V2 < 1) := by push Not; norm_num at h2 ⊢; linarith
    have n1 : ¬ (|dd V1 - 1| < 1.0e-10) := by
      rw [abs_of_nonneg (by linarith)]; push Not; linarith
    have n1' : ¬ (dd V1 < 1) := by push Not; norm_num at h1 ⊢; linarith
    simp only [n3, n3', n2, n2', n1, n1', decide_false, Bool.or_false,
      Bool.false_eq_true, if_false]
  unfold SortedCorrect
  rw [hmodel]
  unfold caseNoneIn
  simp only
  have hDb : orient V2 V3 V1 = orient V1 V2 V3 := by unfold orient; ring
  have hDc : orient V3 V1 V2 = orient V1 V2 V3 := by unfold orient; ring
  by_cases k1 : HasChord V1 V2
  · rw [if_pos (show (circleSegment V1.1 V1.2 V2.1 V2.2).p1.x ≤ 1 from k1)]
    obtain ⟨c1, c2⟩ := r12 k1
    exact rec_edge n V1 V2 V3 hD i1 i2 nt12 k1 c1 c2
  · rw [if_neg (show ¬ (circleSegment V1.1 V1.2 V2.1 V2.2).p1.x ≤ 1 from k1)]
    by_cases k2 : HasChord V2 V3
    · rw [if_pos (show (circleSegment V2.1 V2.2 V3.1 V3.2).p1.x ≤ 1 from k2)]
      obtain ⟨c1, c2⟩ := r23 k1 k2
      have := rec_edge n V2 V3 V1 (by rw [hDb]; exact hD) i2 i3 nt23 k2 c2 c1
      rw [optAdd_comm, triSet_rot V1 V2 V3]
      exact this
    · rw [if_neg (show ¬ (circleSegment V2.1 V2.2 V3.1 V3.2).p1.x ≤ 1 from k2)]
      by_cases k3 : HasChord V3 V1
      · rw [if_pos (show (circleSegment V3.1 V3.2 V1.1 V1.2).p1.x ≤ 1 from k3)]
        obtain ⟨c1, c2⟩ := r31 k1 k2 k3
        have := rec_edge n V3 V1 V2 (by rw [hDc]; exact hD) i3 i1 nt31 k3 c2 c1
        rw [optAdd_comm, ← triSet_rot V3 V1 V2]
        exact this
      · rw [if_neg (show ¬ (circleSegment V3.1 V3.2 V1.1 V1.2).p1.x ≤ 1 from k3)]
        -- no chord at all
        have m12 : ∀ s : ℝ, 0 ≤ s → s ≤ 1 → 1 ≤ (lerp V1 V2 s).1 ^ 2 + (lerp V1 V2 s).2 ^ 2 := by
          rcases circleSegment_outside V1.1 V1.2 V2.1 V2.2 i1 i2 nt12 with ⟨_, _, _, _, _, _, _, _, _, _, _, _, _, hle⟩ | ⟨-, hm⟩
          · exact absurd hle k1
          · intro s s0 s1; have := hm s s0 s1; unfold lerp; simp only; nlinarith
        have m23 : ∀ s : ℝ, 0 ≤ s → s ≤ 1 → 1 ≤ (lerp V2 V3 s).1 ^ 2 + (lerp V2 V3 s).2 ^ 2 := by
          rcases circleSegment_outside V2.1 V2.2 V3.1 V3.2 i2 i3 nt23 with ⟨_, _, _, _, _, _, _, _, _, _, _, _, _, hle⟩ | ⟨-, hm⟩
          · exact absurd hle k2
          · intro s s0 s1; have := hm s s0 s1; unfold lerp; simp only; nlinarith
        have m31 : ∀ s : ℝ, 0 ≤ s → s ≤ 1 → 1 ≤ (lerp V3 V1 s).1 ^ 2 + (lerp V3 V1 s).2 ^ 2 := by
          rcases circleSegment_outside V3.1 V3.2 V1.1 V1.2 i3 i1 nt31 with ⟨_, _, _, _, _, _, _, _, _, _, _, _, _, hle⟩ | ⟨-, hm⟩
          · exact absurd hle k3
          · intro s s0 s1; have := hm s s0 s1; unfold lerp; simp only; nlinarith
        have hvol := noneIn_noChord_volume V1 V2 V3 hD m12 m23 m31
        have hin := inTriangle_origin V1 V2 V3 hD m12 m23 m31
        by_cases hO : ((0 : ℝ), (0 : ℝ)) ∈ triSet V1 V2 V3
        · rw [if_pos (hin.mpr hO)]
          rw [if_pos hO] at hvol
          exact ⟨Real.pi, rfl, Real.pi_pos.le, hvol⟩
        · have : ¬ inTriangle 0 0 V1.1 V1.2 V2.1 V2.2 V3.1 V3.2 = true := fun h => hO (hin.mp h)
          rw [if_neg this]
          rw [if_neg hO] at hvol
          exact ⟨0, rfl, le_rfl, hvol⟩

/-! ### the classes of triangles on which the routine is proved right -/

/-- the non-recursive classes (vertices sorted by distance as the kernel sorts them):
all inside-or-exactly-on; two inside / one outside; one inside / two outside — every vertex
either exactly on the circle (first class only) or clear of the `1e-10` tolerance ring, and the
edges that `circle_line` is called on not "tiny". -/
def BaseOK (V1 V2 V3 : ℝ × ℝ) : Prop :=
  (dd V3 ≤ 1) ∨
  (dd V2 ≤ 1 - 1.0e-10 ∧ 1 + 1.0e-10 ≤ dd V3 ∧ NotTiny V1 V3 ∧ NotTiny V2 V3) ∨
  (dd V1 ≤ 1 - 1.0e-10 ∧ 1 + 1.0e-10 ≤ dd V2 ∧ NotTiny V1 V2 ∧ NotTiny V1 V3 ∧ NotTiny V2 V3)

/-- `Good n A B C`: the triangle is non-degenerate and, for the vertex order the kernel's sort
produces, it is in one of the base classes, or all three vertices are outside (clear of the ring,
edges not tiny) and — if an edge has a chord — the two halves the kernel recurses on are `Good`
with one unit of fuel less. -/
def Good : Nat → (ℝ × ℝ) → (ℝ × ℝ) → (ℝ × ℝ) → Prop
  | 0, _, _, _ => False
  | n + 1, A, B, C =>
    orient A B C ≠ 0 ∧
    ∀ V1 V2 V3 : ℝ × ℝ, IsPerm3 V1 V2 V3 A B C → dd V1 ≤ dd V2 → dd V2 ≤ dd V3 →
      BaseOK V1 V2 V3 ∨
      (1 + 1.0e-10 ≤ dd V1 ∧ NotTiny V1 V2 ∧ NotTiny V2 V3 ∧ NotTiny V3 V1 ∧
        (HasChord V1 V2 → Good n V1 V3 (chordMid V1 V2) ∧ Good n V2 V3 (chordMid V1 V2)) ∧
        (¬ HasChord V1 V2 → HasChord V2 V3 → Good n V3 V1 (chordMid V2 V3) ∧ Good n V2 V1 (chordMid V2 V3)) ∧
        (¬ HasChord V1 V2 → ¬ HasChord V2 V3 → HasChord V3 V1 →
          Good n V1 V2 (chordMid V3 V1) ∧ Good n V3 V2 (chordMid V3 V1)))

/-- **`overlap_area_triangle_unit_circle` = Lebesgue measure of (triangle ∩ unit disk)** on every
`Good` triangle — PARTIAL: the classes left out are exactly those with a vertex in the `1e-10`
ring around the circle but not on it, a vertex exactly on the circle together with a vertex
outside (where the code is WRONG for entering edges: `on1_branch_refuted`, `on2_branch_refuted`),
degenerate triangles and "tiny" edges.

FULL STATEMENT (false, see the two `_refuted` theorems):
`∀ n A B C, TriCorrect (n + 2) A B C`. -/
theorem overlapTri_correct_partial : ∀ (n : Nat) (A B C : ℝ × ℝ), Good n A B C → TriCorrect n A B C := by
  intro n
  induction n with
  | zero => intro A B C h; exact absurd h (by simp [Good])
  | succ n ih =>
    intro A B C h
    obtain ⟨hD, hall⟩ := h
    apply triCorrect_of_sorted n A B C
    intro V1 V2 V3 hp s1 s2
    have hDV := orient_perm_ne V1 V2 V3 A B C hp hD
    rcases hall V1 V2 V3 hp s1 s2 with hb | ⟨o1, n12, n23, n31, r12, r23, r31⟩
    · rcases hb with h3 | ⟨h2, h3, a, b⟩ | ⟨h1, h2, a, b, c⟩
      · exact sorted_allIn _ V1 V2 V3 hDV s1 s2 h3
      · exact sorted_twoIn _ V1 V2 V3 hDV s1 h2 h3 a b
      · exact sorted_oneIn _ V1 V2 V3 hDV h1 h2 s2 a b c
    · apply sorted_noneIn n V1 V2 V3 hDV o1 s1 s2 n12 n23 n31
      · intro k; exact ⟨ih _ _ _ (r12 k).1, ih _ _ _ (r12 k).2⟩
      · intro k1 k2; exact ⟨ih _ _ _ (r23 k1 k2).1, ih _ _ _ (r23 k1 k2).2⟩
      · intro k1 k2 k3; exact ⟨ih _ _ _ (r31 k1 k2 k3).1, ih _ _ _ (r31 k1 k2 k3).2⟩

/-- the grid cell, on pixels whose two triangles (in the unit-circle frame) are `Good`. -/
theorem ellipseCell_eq_volume_good (pxmin pymin dx dy rx ry θ : ℝ)
    (hdx : 0 < dx) (hdy : 0 < dy) (hrx : 0 < rx) (hry : 0 < ry)
    (g1 : Good 8 (toUnit rx ry (Real.cos (-θ)) (Real.sin (-θ)) (pxmin, pymin))
                 (toUnit rx ry (Real.cos (-θ)) (Real.sin (-θ)) (pxmin + dx, pymin))
                 (toUnit rx ry (Real.cos (-θ)) (Real.sin (-θ)) (pxmin + dx, pymin + dy)))
    (g2 : Good 8 (toUnit rx ry (Real.cos (-θ)) (Real.sin (-θ)) (pxmin, pymin))
                 (toUnit rx ry (Real.cos (-θ)) (Real.sin (-θ)) (pxmin, pymin + dy))
                 (toUnit rx ry (Real.cos (-θ)) (Real.sin (-θ)) (pxmin + dx, pymin + dy))) :
    ∃ v : ℝ, ellipseCell pxmin pymin dx dy rx ry θ = some v ∧
      volume (pixelSet pxmin pymin (pxmin + dx) (pymin + dy) ∩ ellipseSet rx ry θ) =
        ENNReal.ofReal (v * (dx * dy)) ∧ 0 ≤ v ∧ v ≤ 1 :=
  ellipseCell_eq_volume_partial pxmin pymin dx dy rx ry θ hdx hdy hrx hry
    (overlapTri_correct_partial 8 _ _ _ g1) (overlapTri_correct_partial 8 _ _ _ g2)

/-! ### non-vacuity: concrete triangles of every class, a concrete pixel -/

theorem good_of_base (n : Nat) (A B C : ℝ × ℝ) (hD : orient A B C ≠ 0)
    (h : ∀ V1 V2 V3 : ℝ × ℝ, IsPerm3 V1 V2 V3 A B C → dd V1 ≤ dd V2 → dd V2 ≤ dd V3 → BaseOK V1 V2 V3) :
    Good (n + 1) A B C :=
  ⟨hD, fun V1 V2 V3 hp s1 s2 => Or.inl (h V1 V2 V3 hp s1 s2)⟩

-- all inside
example : Good 8 ((0 : ℝ), (0 : ℝ)) (1 / 2, 0) (0, 1 / 2) := by
  apply good_of_base 7 _ _ _ (by norm_num [orient])
  intro V1 V2 V3 hp
  rcases hp with ⟨rfl, rfl, rfl⟩ | ⟨rfl, rfl, rfl⟩ | ⟨rfl, rfl, rfl⟩ | ⟨rfl, rfl, rfl⟩ | ⟨rfl, rfl, rfl⟩ | ⟨rfl, rfl, rfl⟩
  all_goals
    intro s1 s2
    first
      | (exfalso; revert s1 s2; norm_num [dd]; done)
      | (left; norm_num [dd])

-- one vertex inside, two outside (lower-right half of the pixel [1/2,3/2] × [-1/2,1/2], r = 1)
theorem good_ex1 : Good 8 ((1 / 2 : ℝ), (-(1 / 2) : ℝ)) (3 / 2, -(1 / 2)) (3 / 2, 1 / 2) := by
  apply good_of_base 7 _ _ _ (by norm_num [orient])
  intro V1 V2 V3 hp
  rcases hp with ⟨rfl, rfl, rfl⟩ | ⟨rfl, rfl, rfl⟩ | ⟨rfl, rfl, rfl⟩ | ⟨rfl, rfl, rfl⟩ | ⟨rfl, rfl, rfl⟩ | ⟨rfl, rfl, rfl⟩
  all_goals
    intro s1 s2
    first
      | (exfalso; revert s1 s2; norm_num [dd]; done)
      | (right; right; norm_num [dd, NotTiny])

-- two vertices inside, one outside (upper-left half of the same pixel)
theorem good_ex2 : Good 8 ((1 / 2 : ℝ), (-(1 / 2) : ℝ)) (1 / 2, 1 / 2) (3 / 2, 1 / 2) := by
  apply good_of_base 7 _ _ _ (by norm_num [orient])
  intro V1 V2 V3 hp
  rcases hp with ⟨rfl, rfl, rfl⟩ | ⟨rfl, rfl, rfl⟩ | ⟨rfl, rfl, rfl⟩ | ⟨rfl, rfl, rfl⟩ | ⟨rfl, rfl, rfl⟩ | ⟨rfl, rfl, rfl⟩
  all_goals
    intro s1 s2
    first
      | (exfalso; revert s1 s2; norm_num [dd]; done)
      | (right; left; norm_num [dd, NotTiny])

/-- a concrete boundary pixel of the unit circle seen as an ellipse (`rx = ry = 1`, `θ = 0`):
the kernel's value is the exact area fraction. -/
example : ∃ v : ℝ, ellipseCell (1 / 2) (-1 / 2) 1 1 1 1 0 = some v ∧
    volume (pixelSet (1 / 2) (-1 / 2) (1 / 2 + 1) (-1 / 2 + 1) ∩ ellipseSet 1 1 0) = ENNReal.ofReal (v * (1 * 1)) ∧
    0 ≤ v ∧ v ≤ 1 := by
  have e : ∀ a b : ℝ, toUnit 1 1 (Real.cos (-0)) (Real.sin (-0)) (a, b) = (a, b) := by
    intro a b; simp [toUnit]
  apply ellipseCell_eq_volume_good _ _ _ _ _ _ _ (by norm_num) (by norm_num) (by norm_num) (by norm_num)
  · rw [e, e, e]; norm_num; exact good_ex1
  · rw [e, e, e]; norm_num; exact good_ex2

-- all three vertices outside, the edge `x = 3/5` cuts the circle at `(3/5, ∓4/5)`: the recursion
theorem circleSegment_ex_a : circleSegment (3 / 5) (-2) (3 / 5) 2 = ⟨⟨3 / 5, 4 / 5⟩, ⟨3 / 5, -(4 / 5)⟩⟩ := by
  have h16 : Real.sqrt 16 = 4 := by
    rw [show (16 : ℝ) = 4 * 4 by norm_num]; exact Real.sqrt_mul_self (by norm_num)
  have h25 : Real.sqrt 25 = 5 := by
    rw [show (25 : ℝ) = 5 * 5 by norm_num]; exact Real.sqrt_mul_self (by norm_num)
  have hl : circleLine (3 / 5) (-2) (3 / 5) 2 = ⟨⟨3 / 5, -(4 / 5)⟩, ⟨3 / 5, 4 / 5⟩⟩ := by
    unfold circleLine
    norm_num [h16, h25]
  unfold circleSegment
  rw [hl]
  norm_num [offSegment]

theorem circleSegment_ex_b : circleSegment (3 / 5) 2 (3 / 5) (-2) = ⟨⟨3 / 5, 4 / 5⟩, ⟨3 / 5, -(4 / 5)⟩⟩ := by
  have h16 : Real.sqrt 16 = 4 := by
    rw [show (16 : ℝ) = 4 * 4 by norm_num]; exact Real.sqrt_mul_self (by norm_num)
  have h25 : Real.sqrt 25 = 5 := by
    rw [show (25 : ℝ) = 5 * 5 by norm_num]; exact Real.sqrt_mul_self (by norm_num)
  have hl : circleLine (3 / 5) 2 (3 / 5) (-2) = ⟨⟨3 / 5, -(4 / 5)⟩, ⟨3 / 5, 4 / 5⟩⟩ := by
    unfold circleLine
    norm_num [h16, h25]
  unfold circleSegment
  rw [hl]
  norm_num [offSegment]

theorem good_ex3a : Good 7 ((3 / 5 : ℝ), (-2 : ℝ)) (3, 0) (3 / 5, 0) := by
  apply good_of_base 6 _ _ _ (by norm_num [orient])
  intro V1 V2 V3 hp
  rcases hp with ⟨rfl, rfl, rfl⟩ | ⟨rfl, rfl, rfl⟩ | ⟨rfl, rfl, rfl⟩ | ⟨rfl, rfl, rfl⟩ | ⟨rfl, rfl, rfl⟩ | ⟨rfl, rfl, rfl⟩
  all_goals
    intro s1 s2
    first
      | (exfalso; revert s1 s2; norm_num [dd]; done)
      | (right; right; norm_num [dd, NotTiny])

theorem good_ex3b : Good 7 ((3 / 5 : ℝ), (2 : ℝ)) (3, 0) (3 / 5, 0) := by
  apply good_of_base 6 _ _ _ (by norm_num [orient])
  intro V1 V2 V3 hp
  rcases hp with ⟨rfl, rfl, rfl⟩ | ⟨rfl, rfl, rfl⟩ | ⟨rfl, rfl, rfl⟩ | ⟨rfl, rfl, rfl⟩ | ⟨rfl, rfl, rfl⟩ | ⟨rfl, rfl, rfl⟩
  all_goals
    intro s1 s2
    first
      | (exfalso; revert s1 s2; norm_num [dd]; done)
      | (right; right; norm_num [dd, NotTiny])

/-- a triangle with all three vertices outside whose edge `x = 3/5` is cut by the circle: the
recursive class is inhabited, and the kernel's answer is the exact area. -/
theorem good_ex3 : Good 8 ((3 / 5 : ℝ), (-2 : ℝ)) (3 / 5, 2) (3, 0) := by
  have hMa : chordMid ((3 / 5 : ℝ), (-2 : ℝ)) (3 / 5, 2) = (3 / 5, 0) := by
    unfold chordMid; simp only; rw [circleSegment_ex_a]; norm_num
  have hMb : chordMid ((3 / 5 : ℝ), (2 : ℝ)) (3 / 5, -2) = (3 / 5, 0) := by
    unfold chordMid; simp only; rw [circleSegment_ex_b]; norm_num
  have hCa : HasChord ((3 / 5 : ℝ), (-2 : ℝ)) (3 / 5, 2) := by
    unfold HasChord; simp only; rw [circleSegment_ex_a]; norm_num
  have hCb : HasChord ((3 / 5 : ℝ), (2 : ℝ)) (3 / 5, -2) := by
    unfold HasChord; simp only; rw [circleSegment_ex_b]; norm_num
  refine ⟨by norm_num [orient], ?_⟩
  intro V1 V2 V3 hp
  rcases hp with ⟨rfl, rfl, rfl⟩ | ⟨rfl, rfl, rfl⟩ | ⟨rfl, rfl, rfl⟩ | ⟨rfl, rfl, rfl⟩ | ⟨rfl, rfl, rfl⟩ | ⟨rfl, rfl, rfl⟩
  all_goals
    intro s1 s2
    first
      | (exfalso; revert s1 s2; norm_num [dd]; done)
      | (right
         refine ⟨by norm_num [dd], by norm_num [NotTiny], by norm_num [NotTiny], by norm_num [NotTiny], ?_, ?_, ?_⟩
         · intro _
           first
             | (rw [hMa]; exact ⟨good_ex3a, good_ex3b⟩)
             | (rw [hMb]; exact ⟨good_ex3b, good_ex3a⟩)
         · intro k; first | exact absurd hCa k | exact absurd hCb k
         · intro k; first | exact absurd hCa k | exact absurd hCb k)

example : TriCorrect 8 ((3 / 5 : ℝ), (-2 : ℝ)) (3 / 5, 2) (3, 0) :=
  overlapTri_correct_partial 8 _ _ _ good_ex3

/-! ### `triSet` is Mathlib's convex hull of the three vertices -/

theorem triSet_eq_convexHull (A B C : ℝ × ℝ) : triSet A B C = convexHull ℝ {A, B, C} := by
  rw [convexHull_insert (by simp), convexHull_pair]
  ext p
  rw [mem_convexJoin]
  constructor
  · rintro ⟨a, b, c, ha, hb, hc, hs, rfl⟩
    refine ⟨A, rfl, ?_⟩
    by_cases hbc : b + c = 0
    · have hb0 : b = 0 := by linarith
      have hc0 : c = 0 := by linarith
      have ha1 : a = 1 := by linarith
      refine ⟨B, left_mem_segment ℝ B C, ?_⟩
      rw [hb0, hc0, ha1]
      have : ((1 : ℝ) * A.1 + 0 * B.1 + 0 * C.1, (1 : ℝ) * A.2 + 0 * B.2 + 0 * C.2) = A := by
        ext <;> simp
      rw [this]; exact left_mem_segment ℝ A B
    · have hpos : 0 < b + c := lt_of_le_of_ne (by linarith) (Ne.symm hbc)
      refine ⟨(b / (b + c)) • B + (c / (b + c)) • C, ⟨b / (b + c), c / (b + c), by positivity, by positivity,
        by field_simp, rfl⟩, ?_⟩
      refine ⟨a, b + c, ha, hpos.le, by linarith, ?_⟩
      ext
      · simp only [Prod.fst_add, Prod.smul_fst, smul_eq_mul]; field_simp; ring
      · simp only [Prod.snd_add, Prod.smul_snd, smul_eq_mul]; field_simp; ring
  · rintro ⟨a, ha, q, ⟨β, γ, hβ, hγ, hβγ, rfl⟩, ⟨l, m, hl, hm, hlm, rfl⟩⟩
    rw [Set.mem_singleton_iff] at ha
    subst ha
    refine ⟨l, m * β, m * γ, hl, mul_nonneg hm hβ, mul_nonneg hm hγ, ?_, ?_⟩
    · calc l + m * β + m * γ = l + m * (β + γ) := by ring
        _ = 1 := by rw [hβγ]; linarith
    · ext
      · simp only [Prod.fst_add, Prod.smul_fst, smul_eq_mul]; ring
      · simp only [Prod.snd_add, Prod.smul_snd, smul_eq_mul]; ring

/-! ### F3c: the tangent edge at a vertex in the tolerance ring (`on_tip_branch_refuted`) -/

/-- the sentinel `(2,2)` of `circle_line` cannot come from an edge that ENTERS the disk at a vertex
inside or exactly on the circle: with `d ≤ 1` and a negative dot product the discriminant is
positive.  Hence the third alternative of `caseTwoIn` (`elif intersect23`) gets the sentinel only
from a vertex 2 strictly OUTSIDE the circle, i.e. in the `1e-10` ring. -/
theorem circleLine_entering (x1 y1 x2 y2 : ℝ) (hd : x1 * x1 + y1 * y1 ≤ 1)
    (hdot : x1 * (x2 - x1) + y1 * (y2 - y1) < 0)
    (hnt : ¬(|x2 - x1| < 1.0e-10 ∧ |y2 - y1| < 1.0e-10)) :
    OnCircle (circleLine x1 y1 x2 y2).p1 ∧ OnCircle (circleLine x1 y1 x2 y2).p2 := by
  have key : ∀ u v : ℝ, u ≠ 0 → x1 * u + y1 * v < 0 →
      0 < 1 + v / u * (v / u) - (y1 - v / u * x1) * (y1 - v / u * x1) := by
    intro u v hu hneg
    have h1 : (y1 - v / u * x1) * (y1 - v / u * x1) =
        (1 + v / u * (v / u)) * (x1 * x1 + y1 * y1) - (x1 + v / u * y1) * (x1 + v / u * y1) := by ring
    have h2 : x1 + v / u * y1 = (x1 * u + y1 * v) / u := by field_simp
    have h3 : 0 < (x1 + v / u * y1) * (x1 + v / u * y1) := by
      rw [h2]; apply mul_self_pos.mpr; exact div_ne_zero (ne_of_lt hneg) hu
    have h4 : (0 : ℝ) < 1 + v / u * (v / u) := by nlinarith [mul_self_nonneg (v / u)]
    nlinarith [mul_le_mul_of_nonneg_left hd h4.le]
  have key' : ∀ u v : ℝ, v ≠ 0 → x1 * u + y1 * v < 0 →
      0 < 1 + u / v * (u / v) - (x1 - u / v * y1) * (x1 - u / v * y1) := by
    intro u v hv hneg
    have h1 : (x1 - u / v * y1) * (x1 - u / v * y1) =
        (1 + u / v * (u / v)) * (x1 * x1 + y1 * y1) - (y1 + u / v * x1) * (y1 + u / v * x1) := by ring
    have h2 : y1 + u / v * x1 = (x1 * u + y1 * v) / v := by field_simp; ring
    have h3 : 0 < (y1 + u / v * x1) * (y1 + u / v * x1) := by
      rw [h2]; apply mul_self_pos.mpr; exact div_ne_zero (ne_of_lt hneg) hv
    have h4 : (0 : ℝ) < 1 + u / v * (u / v) := by nlinarith [mul_self_nonneg (u / v)]
    nlinarith [mul_le_mul_of_nonneg_left hd h4.le]
  rcases circleLine_cases_aux x1 y1 x2 y2 with ⟨-, h | ⟨hu, h⟩ | ⟨hv, h⟩⟩ | h
  · exact absurd h hnt
  · exact absurd (key _ _ hu hdot) h
  · exact absurd (key' _ _ hv hdot) h
  · exact ⟨h.1, h.2.1⟩

theorem circleLine_tangent_ex (t : ℝ) (ht : 0 < t) :
    circleLine t (-1) (-(4 / 5)) (-1) = ⟨⟨2, 2⟩, ⟨2, 2⟩⟩ := by
  unfold circleLine
  have h1 : ¬ (|-(4 / 5) - t| < (1.0e-10 : ℝ) ∧ |(-1 : ℝ) - -1| < 1.0e-10) := by
    rintro ⟨h, -⟩
    rw [abs_lt] at h
    norm_num at h
    linarith [h.1]
  have h2 : |(-1 : ℝ) - -1| < |-(4 / 5) - t| := by
    rw [show (-1 : ℝ) - -1 = 0 by ring, abs_zero]
    apply abs_pos.mpr; linarith
  simp only [h1, if_false, gt_iff_lt, h2, if_true]
  norm_num

/-- **F3c** — branch `elif intersect23` of the two-inside case, reached with the sentinel `(2,2)`.
Vertex 1 `= (-4/5, -3/5)` is on the circle (its edge to vertex 3 leaves the disk), vertex 2
`= (10⁻⁶, -1)` is in the `1e-10` ring just OUTSIDE the circle next to the tip `(0, -1)`
(`d₂ − 1 = 10⁻¹²`), vertex 3 `= (-4/5, -1)` is outside.  The edge 2→3 lies on the tangent `y = -1`:
the dot-product test says "enters" (`-10⁻⁶·(4/5 + 10⁻⁶) < 0`), `circle_line` has discriminant `0`
and returns the sentinel, and the code adds `area_triangle(v1, v2, (2,2)) +
area_arc_unit(v1, (2,2))` — a chord of length `√365/5 > 2`: `asin(1.91)`, NaN in C, clamped to
`π/2` by `Real.arcsin`.  The real-number value `8/5 + 13·10⁻⁷ + π/2` exceeds the area `π` of the
whole disk (true overlap ≈ 0.064).  (In the unit-circle frame this is pixel `[1, 4]` of
`EllipsePixelRegion(PixCoord(0, 1.5), 2.5, 5, angle=90°)`, where `10⁻⁶` is `cos(π/2) = 6·10⁻¹⁷`.) -/
theorem on_tip_branch_refuted :
    ∃ v : ℝ, overlapTri 3 (-4 / 5) (-3 / 5) (1 / 10 ^ 6) (-1) (-4 / 5) (-1) = some v ∧
      volume (triSet ((-4 / 5 : ℝ), (-3 / 5 : ℝ)) (1 / 10 ^ 6, -1) (-4 / 5, -1) ∩ disk) < ENNReal.ofReal v := by
  refine ⟨8 / 5 + 13 / 10 ^ 7 + Real.pi / 2, ?_, ?_⟩
  · have hs : circleSegmentSingle2 (1 / 10 ^ 6) (-1) (-(4 / 5)) (-1) = ⟨2, 2⟩ := by
      unfold circleSegmentSingle2
      rw [circleLine_tangent_ex _ (by norm_num)]
      norm_num
    have hd : (2 : ℝ) ≤ distance (-(4 / 5)) (-(3 / 5)) 2 2 := by
      unfold distance
      rw [pow2_eq, pow2_eq]
      apply Real.le_sqrt_of_sq_le
      norm_num
    have harc : areaArcUnit (-(4 / 5)) (-(3 / 5)) 2 2 = Real.pi / 2 := by
      unfold areaArcUnit
      simp only
      rw [Real.arcsin_of_one_le (by linarith)]
      rw [show 2 * (Real.pi / 2) = Real.pi by ring, Real.sin_pi]
      ring
    have hs' : circleSegmentSingle2 (1 / 1000000) (-1) (-(4 / 5)) (-1) = ⟨2, 2⟩ := by
      have := hs; norm_num at this; exact this
    norm_num [overlapTri, overlapSorted, caseTwoIn, hs', areaTriangle, harc]
  · have hD : orient ((-4 / 5 : ℝ), (-3 / 5 : ℝ)) (1 / 10 ^ 6, -1) (-4 / 5, -1) = -(800001 / 2500000) := by
      norm_num [orient]
    calc volume (triSet ((-4 / 5 : ℝ), (-3 / 5 : ℝ)) (1 / 10 ^ 6, -1) (-4 / 5, -1) ∩ disk)
        ≤ volume (triSet ((-4 / 5 : ℝ), (-3 / 5 : ℝ)) (1 / 10 ^ 6, -1) (-4 / 5, -1)) :=
          measure_mono Set.inter_subset_left
      _ = ENNReal.ofReal (800001 / 5000000) := by
          rw [volume_triSet _ _ _ (by rw [hD]; norm_num), hD]; norm_num
      _ < _ := by
          rw [ENNReal.ofReal_lt_ofReal_iff (by positivity)]
          have := Real.pi_pos
          norm_num
          linarith

/-- the same triangle with vertex 2 EXACTLY at the tip `(0, -1)`: the dot product is `0`, the last
alternative (`area_arc_unit(v1, v2)`) is taken, and that IS the overlap.  So over ℝ the on-tip
configuration is fine; F3c needs the tolerance ring (in floating point: `cos(π/2) = 6·10⁻¹⁷`). -/
theorem on_tip_exact_correct :
    overlapTri 3 (-4 / 5) (-3 / 5) 0 (-1) (-4 / 5) (-1) = some (areaArcUnit 0 (-1) (-4 / 5) (-3 / 5)) ∧
    volume (triSet ((-4 / 5 : ℝ), (-3 / 5 : ℝ)) (0, -1) (-4 / 5, -1) ∩ disk) =
      ENNReal.ofReal (areaArcUnit 0 (-1) (-4 / 5) (-3 / 5)) := by
  constructor
  · norm_num [overlapTri, overlapSorted, caseTwoIn]
  · rw [triSet_swap12]
    exact volume_tri_cap ((0 : ℝ), (-1 : ℝ)) (-4 / 5, -3 / 5) (-4 / 5, -1) (by norm_num) (by norm_num)
      (by norm_num [orient]) (by norm_num [dot]) (by norm_num [dot])

end RegionsVerif.Props.C03E

#print axioms RegionsVerif.Props.C03E.overlapTri_terminates
#print axioms RegionsVerif.Props.C03E.on1_branch_refuted
#print axioms RegionsVerif.Props.C03E.on2_branch_refuted
#print axioms RegionsVerif.Props.C03E.on_tip_branch_refuted
#print axioms RegionsVerif.Props.C03E.on_tip_exact_correct
#print axioms RegionsVerif.Props.C03E.circleLine_entering
#print axioms RegionsVerif.Props.C03E.volume_pixel_ellipse
#print axioms RegionsVerif.Props.C03E.ellipseCell_eq_volume_partial
#print axioms RegionsVerif.Props.C03E.ellipseCell_outside_box
#print axioms RegionsVerif.Props.C03E.overlapTri_correct_partial
#print axioms RegionsVerif.Props.C03E.ellipseCell_eq_volume_good
#print axioms RegionsVerif.Props.C03E.triSet_eq_convexHull
