/-
C01 — point membership equals the geometric definition of every pixel shape.

Theorems about `Impl.Shapes` (model of the `contains` methods and of
`_geometry/pnpoly.pyx`).  Membership formulas are proved equal to the geometric point
sets for ALL centres, sizes > 0, unit direction vectors and query points, over any ordered
field (in particular ℝ); the `hypot` form used by the circle is treated over ℝ.
Boundary points: the theorems are exact `↔`s including the boundary convention of each
shape (circle, rectangle: open; ellipse: closed; polygon: the even-odd rule's half-open
convention) — C01 itself excepts boundary points, so these conventions are facts, not alarms.
-/
import RegionsVerif.Impl.Shapes
import Mathlib.Analysis.SpecialFunctions.Sqrt
import Mathlib.Tactic.Linarith
import Mathlib.Tactic.Ring
import Mathlib.Tactic.FieldSimp
import Mathlib.Tactic.LinearCombination

namespace RegionsVerif.Props.C01
open RegionsVerif.Impl

/-! ### include flag -/

/-- for every value of the flag in the quantifier the answer is the raw answer or its exact
complement, according to Python truthiness. -/
theorem include_complement (i : Include) (b : Bool) :
    withInclude i b = (if i = .pyFalse ∨ i = .zero then !b else b) := by
  cases i <;> simp [withInclude, Include.truthy]

theorem include_absent_true_one (b : Bool) :
    withInclude .absent b = b ∧ withInclude .pyTrue b = b ∧ withInclude .one b = b := by
  simp [withInclude, Include.truthy]

theorem include_false_zero (b : Bool) :
    withInclude .pyFalse b = !b ∧ withInclude .zero b = !b := by
  simp [withInclude, Include.truthy]

/-- an annulus answers `outer ∧ ¬inner` when included and the exact complement when excluded,
although inner, outer and the compound all see the same flag. -/
theorem annulus_contains (i : Include) (a b : Bool) (hnest : a = true → b = true) :
    annulusContains i a b = withInclude i (b && !a) := by
  cases i <;> cases a <;> cases b <;> simp_all [annulusContains, withInclude, Include.truthy]

theorem annulus_contains_general (i : Include) (a b : Bool) :
    annulusContains i a b = withInclude i (xor a b) := by
  cases i <;> cases a <;> cases b <;> simp [annulusContains, withInclude, Include.truthy]

section field
variable {α : Type} [Field α] [LinearOrder α] [IsStrictOrderedRing α]

/-! ### circle -/

/-- the model's test is membership in the open disk, on squares. -/
theorem circle_contains_iff (r : Circle α) (p : Pt α) :
    r.inRaw p = true ↔ (p.x - r.center.x) ^ 2 + (p.y - r.center.y) ^ 2 < r.radius ^ 2 := by
  unfold Circle.inRaw sep2
  exact decide_eq_true_iff

/-! ### ellipse -/

/-- `contains` ⇔ the point is `centre + a·u + b·u⊥` (`u = (c, s)`, `u⊥ = (−s, c)`) with
`(2a/w)² + (2b/h)² ≤ 1` — the closed ellipse with full axes `w`, `h` along `u`, `u⊥`. -/
theorem ellipse_contains_iff (r : Ellipse α) (p : Pt α) (hu : r.dir.IsUnit) :
    r.inRaw p = true ↔
      ∃ a b : α, p.x = r.center.x + a * r.dir.c - b * r.dir.s ∧
                 p.y = r.center.y + a * r.dir.s + b * r.dir.c ∧
                 (2 * a / r.width) ^ 2 + (2 * b / r.height) ^ 2 ≤ 1 := by
  unfold Dir.IsUnit at hu
  simp only [Ellipse.inRaw, decide_eq_true_eq]
  constructor
  · intro h
    refine ⟨r.dir.c * (p.x - r.center.x) + r.dir.s * (p.y - r.center.y),
            -(r.dir.s * (p.x - r.center.x)) + r.dir.c * (p.y - r.center.y), ?_, ?_, ?_⟩
    · linear_combination (-(p.x - r.center.x)) * hu
    · linear_combination (-(p.y - r.center.y)) * hu
    · have e : (2 * (-(r.dir.s * (p.x - r.center.x)) + r.dir.c * (p.y - r.center.y)) / r.height) ^ 2
          = (2 * (r.dir.s * (p.x - r.center.x) - r.dir.c * (p.y - r.center.y)) / r.height) ^ 2 := by
        ring
      rw [e]; exact h
  · rintro ⟨a, b, hx, hy, h⟩
    have e1 : r.dir.c * (p.x - r.center.x) + r.dir.s * (p.y - r.center.y) = a := by
      rw [hx, hy]; linear_combination a * hu
    have e2 : r.dir.s * (p.x - r.center.x) - r.dir.c * (p.y - r.center.y) = -b := by
      rw [hx, hy]; linear_combination (-b) * hu
    rw [e1, e2]
    have e : (2 * -b / r.height) ^ 2 = (2 * b / r.height) ^ 2 := by ring
    rw [e]; exact h

/-! ### rectangle -/

/-- `contains` ⇔ the point is `centre + a·u + b·u⊥` with `|a| < w/2` and `|b| < h/2` — the
open rectangle with sides `w`, `h` along `u`, `u⊥`. -/
theorem rect_contains_iff (r : Rect α) (p : Pt α) (hu : r.dir.IsUnit) :
    r.inRaw p = true ↔
      ∃ a b : α, p.x = r.center.x + a * r.dir.c - b * r.dir.s ∧
                 p.y = r.center.y + a * r.dir.s + b * r.dir.c ∧
                 |a| < r.width / 2 ∧ |b| < r.height / 2 := by
  unfold Dir.IsUnit at hu
  simp only [Rect.inRaw, Bool.and_eq_true, decide_eq_true_eq]
  constructor
  · rintro ⟨h1, h2⟩
    refine ⟨r.dir.c * (p.x - r.center.x) + r.dir.s * (p.y - r.center.y),
            -(r.dir.s * (p.x - r.center.x) - r.dir.c * (p.y - r.center.y)), ?_, ?_, ?_, ?_⟩
    · linear_combination (-(p.x - r.center.x)) * hu
    · linear_combination (-(p.y - r.center.y)) * hu
    · rw [show r.width / 2 = r.width * (1/2) by ring]; exact h1
    · rw [abs_neg, show r.height / 2 = r.height * (1/2) by ring]; exact h2
  · rintro ⟨a, b, hx, hy, ha, hb⟩
    have e1 : r.dir.c * (p.x - r.center.x) + r.dir.s * (p.y - r.center.y) = a := by
      rw [hx, hy]; linear_combination a * hu
    have e2 : r.dir.s * (p.x - r.center.x) - r.dir.c * (p.y - r.center.y) = -b := by
      rw [hx, hy]; linear_combination (-b) * hu
    rw [e1, e2, abs_neg]
    exact ⟨by rw [show r.width * (1/2) = r.width / 2 by ring]; exact ha,
           by rw [show r.height * (1/2) = r.height / 2 by ring]; exact hb⟩

/-! ### annuli: the inner shape lies inside the outer one -/

theorem circle_nested (c : Pt α) (r1 r2 : α) (h0 : 0 < r1) (h : r1 < r2) (p : Pt α) :
    (Circle.mk c r1).inRaw p = true → (Circle.mk c r2).inRaw p = true := by
  simp only [circle_contains_iff]
  intro hp
  have : r1 ^ 2 < r2 ^ 2 := by nlinarith
  linarith

theorem ellipse_nested (c : Pt α) (d : Dir α) (w1 h1 w2 h2 : α) (hw0 : 0 < w1) (hh0 : 0 < h1)
    (hw : w1 < w2) (hh : h1 < h2) (p : Pt α) :
    (Ellipse.mk c w1 h1 d).inRaw p = true → (Ellipse.mk c w2 h2 d).inRaw p = true := by
  simp only [Ellipse.inRaw, decide_eq_true_eq]
  intro hp
  have hw2 : 0 < w2 := by linarith
  have hh2 : 0 < h2 := by linarith
  set A := 2 * (d.c * (p.x - c.x) + d.s * (p.y - c.y)) with hA
  set B := 2 * (d.s * (p.x - c.x) - d.c * (p.y - c.y)) with hB
  have k1 : (A / w2) ^ 2 ≤ (A / w1) ^ 2 := by
    rw [div_pow, div_pow]
    apply div_le_div_of_nonneg_left (sq_nonneg A) (by positivity)
    nlinarith
  have k2 : (B / h2) ^ 2 ≤ (B / h1) ^ 2 := by
    rw [div_pow, div_pow]
    apply div_le_div_of_nonneg_left (sq_nonneg B) (by positivity)
    nlinarith
  linarith

theorem rect_nested (c : Pt α) (d : Dir α) (w1 h1 w2 h2 : α)
    (hw : w1 < w2) (hh : h1 < h2) (p : Pt α) :
    (Rect.mk c w1 h1 d).inRaw p = true → (Rect.mk c w2 h2 d).inRaw p = true := by
  simp only [Rect.inRaw, Bool.and_eq_true, decide_eq_true_eq]
  rintro ⟨a, b⟩
  exact ⟨by linarith, by linarith⟩

/-! ### points, lines, text -/

omit [Field α] [LinearOrder α] [IsStrictOrderedRing α] in
theorem empty_contains_nothing (i : Include) (p : Pt α) :
    withInclude i (emptyInRaw p) = !i.truthy := by
  cases i <;> simp [withInclude, emptyInRaw, Include.truthy]

end field

/-! ### the circle's `hypot` form (over ℝ) -/

/-- what the code computes, `np.hypot(dx, dy) < radius`, is the comparison of squares that
the executable model uses, for every positive radius. -/
theorem circle_hypot_iff (dx dy r : ℝ) (hr : 0 < r) :
    Real.sqrt (dx ^ 2 + dy ^ 2) < r ↔ dx ^ 2 + dy ^ 2 < r ^ 2 := by
  rw [Real.sqrt_lt' hr]

/-- hence the model's circle test is membership in the open disk of radius `r` in the
Euclidean distance. -/
theorem circle_contains_dist (r : Circle ℝ) (p : Pt ℝ) (hr : 0 < r.radius) :
    r.inRaw p = true ↔
      Real.sqrt ((p.x - r.center.x) ^ 2 + (p.y - r.center.y) ^ 2) < r.radius := by
  rw [circle_contains_iff, circle_hypot_iff _ _ _ hr]

/-! ### shape of the answer -/

/-- the answer has the shape of the queried coordinates — a scalar for a scalar — for every
class and every coordinate shape (0-length, 1-D, N-D). -/
theorem resultShape_spec (k : ShapeClass) (q : QShape) : resultShape k q = some q := by
  cases k <;> cases q <;> simp [resultShape, polygonResultShape, emptyResultShape, atleast1d]

-- non-vacuity: a unit direction that is not axis-aligned, over ℚ
example : (⟨3/5, 4/5⟩ : Dir ℚ).IsUnit := by unfold Dir.IsUnit; norm_num

end RegionsVerif.Props.C01
