/-
C12 — FITS region tables round-trip every supported pixel region.

Theorems about `Impl.Fits` (the model of `regions/io/fits/{write,read,core}.py`), for ALL
lists of regions (any length, any mix of classes ⇒ any padding pattern), exact in ℚ.

Layout
  §0  tie T: the tables of the model equal the tables extracted from the live source
  §1  what the property means (representable, same region, components clause)
  §2  cells and padding
  §3  the reader, shape by shape (also the box / rectangle / rotrectangle notations)
  §4  one region through the table
  §5  components
  §6  the round trip for lists; through a file; skipped regions; fixed point; other notations
  §7  the property at full strength (`RoundTrip`, `FileRoundTrip`, `FixedPoint`) for every code
      variant: characterisation `…_iff` (holds ⇔ the repairs are in), one independent witness per
      finding, then the statements about the code as it is now (`…_full`, `…_full_refuted`,
      `…_partial` + satisfiability examples) and about the patched code (`…_fixed`)

Reading of "the same component numbers where given (fresh, distinct ones otherwise)": when no
region of the list carries a component no COMPONENT column is written and none comes back
(`ComponentsOK`, first clause).
-/
import RegionsVerif.Impl.Fits
import RegionsVerif.Gen.FitsTables
import Mathlib.Algebra.Order.Field.Rat
import Mathlib.Tactic.Linarith
import Mathlib.Tactic.Ring

namespace RegionsVerif.Props.C12
open RegionsVerif.Impl.Fits

/-! ## §0 tie T -/

def refName (r : ColRef) : Name :=
  r.col.name ++ (match r.idx with | some i => [Char.ofNat (48 + i)] | none => [])

/-- `shape_map` of the live `regions/io/fits/core.py` is the model's `shapeMap`. -/
theorem tables_shapeMap :
    RegionsVerif.Gen.FitsTables.shapeMap.map (fun e => (e.1.toList, e.2.1.toList, e.2.2.map String.toList)) =
    shapeMap.map (fun e => (e.1, e.2.1.className, e.2.2.map refName)) := by decide

theorem tables_regionMap :
    RegionsVerif.Gen.FitsTables.regionMap.map (fun e => (e.1.toList, e.2.toList)) = regionMap := by decide

theorem tables_unsupportedRegions :
    RegionsVerif.Gen.FitsTables.unsupportedRegions.map String.toList = unsupportedRegions := by decide

theorem tables_unsupportedShapes :
    RegionsVerif.Gen.FitsTables.unsupportedShapes.map String.toList = unsupportedShapes := by decide

theorem tables_validColumns :
    RegionsVerif.Gen.FitsTables.validColumns.map String.toList = validColumns := by decide

/-! ## §1 what the property means -/

/-- the FITS-representable pixel classes -/
def supported (k : Kind) : Bool :=
  match k with
  | .point | .circle | .ellipse | .circleAnnulus | .ellipseAnnulus | .rectangle | .polygon => true
  | _ => false

/-- a FITS-representable pixel region *object*: a pixel region of one of the eight classes
that satisfies the invariants its constructor enforces (strictly positive sizes, inner < outer,
as many x as y vertices, at least one; the angular unit has a positive scale).  Decidable. -/
def representable (r : Reg) : Bool :=
  !r.sky && decide (0 < r.aunit.deg) &&
  match r.kind, r.xs, r.ys, r.params, r.angle with
  | .point, [_], [_], [], none => true
  | .circle, [_], [_], [rad], none => decide (0 < rad)
  | .ellipse, [_], [_], [w, h], some _ => decide (0 < w) && decide (0 < h)
  | .circleAnnulus, [_], [_], [ri, ro], none => decide (0 < ri) && decide (ri < ro)
  | .ellipseAnnulus, [_], [_], [iw, ow, ih, oh], some _ =>
    decide (0 < iw) && decide (iw < ow) && decide (0 < ih) && decide (ih < oh)
  | .rectangle, [_], [_], [w, h], some _ => decide (0 < w) && decide (0 < h)
  | .polygon, xs, ys, [], none => decide (xs.length = ys.length) && !xs.isEmpty
  | .regularPolygon, xs, ys, _, _ => decide (xs.length = ys.length) && !xs.isEmpty
  | _, _, _, _, _ => false

/-- the region as the writer sees it ("regular polygons as polygons") -/
def asWritten (r : Reg) : Reg := if r.kind = .regularPolygon then r.toPolygon else r

/-- "is skipped with a warning": sky regions and shapes without a FITS counterpart -/
def skipped (r : Reg) : Bool :=
  r.sky || unsupportedRegions.contains (asWritten r).kind.className

/-- `o` is what must come back for `r`: same class, IDENTICAL geometry, same exclude flag,
the component that was given. -/
structure SameRegion (r o : Reg) : Prop where
  cls : o.kind = (asWritten r).kind
  pixel : o.sky = false
  xs : o.xs = r.xs
  ys : o.ys = r.ys
  params : o.params = (asWritten r).params
  /-- the rotation angle as a physical quantity (value × degrees per unit): the unit may change -/
  angle : o.angle.map (· * o.aunit.deg) = (asWritten r).angle.map (· * r.aunit.deg)
  excl : o.incl.truthy = r.incl.truthy
  comp : ∀ c, r.comp = some c → o.comp = some c

/-- the numbers that came back (`got`) for the regions that had none (`given = none`) -/
def freshInts : List (Option Int) → List Int → List Int
  | none :: gs, c :: cs => c :: freshInts gs cs
  | some _ :: gs, _ :: cs => freshInts gs cs
  | _, _ => []

/-- the component clause: nothing given ⇒ no components come back; otherwise every region comes
back with one, the given ones unchanged, the others fresh (not among the given) and distinct. -/
def ComponentsOK (given got : List (Option Int)) : Prop :=
  ((∀ g ∈ given, g = none) → ∀ c ∈ got, c = none) ∧
  ((∃ g ∈ given, g ≠ none) → ∃ l : List Int, got = l.map some ∧
     List.Forall₂ (fun g c => ∀ x, g = some x → c = x) given l ∧
     (freshInts given l).Nodup ∧ ∀ f ∈ freshInts given l, some f ∉ given)

theorem eqZero_eq_not_truthy (i : Incl) : i.eqZero = !i.truthy := by
  cases i <;> simp [Incl.eqZero, Incl.truthy, bne]

/-! ## §2 cells and padding -/

theorem foldl_max_le (l : List Nat) (a : Nat) : a ≤ l.foldl max a := by
  induction l generalizing a with
  | nil => exact Nat.le_refl _
  | cons b t ih => exact Nat.le_trans (Nat.le_max_left a b) (ih _)

theorem le_foldl_max (l : List Nat) (a x : Nat) (h : x ∈ l) : x ≤ l.foldl max a := by
  induction l generalizing a with
  | nil => cases h
  | cons b t ih =>
    rcases List.mem_cons.mp h with rfl | h
    · exact Nat.le_trans (Nat.le_max_right a x) (foldl_max_le t _)
    · exact ih _ h

/-- every array fits in its column -/
theorem le_colWidth (arrays : List (List ℚ)) (a : List ℚ) (h : a ∈ arrays) :
    a.length ≤ colWidth arrays :=
  le_foldl_max _ 0 _ (List.mem_map_of_mem h)

/-- what the reader sees of a written cell: the array, then the padding
("zero padding of columns to a common width", "scalar column when width 1"). -/
theorem atleast1d_padCell (fill : Num) (w : Nat) (arr : List ℚ) (h1 : arr ≠ []) (h2 : arr.length ≤ w) :
    (padCell fill w arr).atleast1d = arr.map some ++ List.replicate (w - arr.length) fill := by
  unfold padCell
  by_cases hp : w - arr.length = 0
  · have hw : arr.length = w := by omega
    simp only [hp, bne_self_eq_false, Bool.false_eq_true, if_false, beq_self_eq_true, Bool.and_true,
      List.replicate_zero, List.append_nil]
    by_cases h1w : w = 1
    · subst h1w
      match arr, hw with
      | [a], _ => simp [Cell.atleast1d]
    · simp [h1w, Cell.atleast1d]
  · have : (w - arr.length != 0) = true := by simp [hp]
    simp [this, hp, Cell.atleast1d]

/-- the scalar/vector choice: a column cell is a scalar exactly when the column width is 1. -/
theorem padCell_scalar_iff (fill : Num) (w : Nat) (arr : List ℚ) (h1 : arr ≠ []) (h2 : arr.length ≤ w) :
    (∃ q, padCell fill w arr = .scalar q) ↔ w = 1 := by
  unfold padCell
  constructor
  · rintro ⟨q, hq⟩
    by_cases hc : (w == 1 && w - arr.length == 0) = true
    · simp only [Bool.and_eq_true, beq_iff_eq] at hc; exact hc.1
    · simp [hc] at hq
  · intro hw
    subst hw
    have : arr.length = 1 := by
      have := List.length_pos_iff.mpr h1; omega
    simp [this]

theorem nums_map_some (l : List ℚ) : nums (l.map some) = .ok l := by
  induction l with
  | nil => rfl
  | cons a t ih => simp [nums, ih, bind, Except.bind, pure, Except.pure]

theorem filter_isSome_padded (l : List ℚ) (k : Nat) :
    (l.map some ++ List.replicate k (none : Num)).filter Option.isSome = l.map some := by
  induction l with
  | nil => induction k with
    | zero => rfl
    | succ n ih => simp [List.replicate_succ]
  | cons a t ih => simp

/-! ## §3 the reader, shape by shape -/

/-- the column names of a table the writer produced (with or without COMPONENT);
any table with these columns, in the reader's eyes. -/
def stdCols (hasComp : Bool) : List Name :=
  [cSHAPE, cX, cY, cR, cROTANG] ++ (if hasComp then [cCOMPONENT] else [])

theorem stdCols_component (hc : Bool) : (stdCols hc).contains cCOMPONENT = hc := by
  cases hc <;> decide

theorem getCol_idx (v : Variant) (row : TRow) (c : Col) (i : Nat) (q : Num)
    (h : (row.cell c).atleast1d[i]? = some q) :
    getColumnValues v row ⟨c, some i⟩ = .ok [q] := by
  simp only [getColumnValues, h]

/-- `parse_row` once the name is recognised, the columns are there, the values are fetched and
the constructor accepts them. -/
theorem parseRow_of (v : Variant) (hc : Bool) (au : AUnit) (row : TRow) (shape : Name) (incl1 : Bool) (kind : Kind)
    (refs : List ColRef) (xs ys rest : List ℚ) (region : Reg)
    (hs : readShape row.shape = .ok (some shape, incl1))
    (hl : shapeMap.lookup shape = some (kind, refs))
    (hp : refs.any (fun ref => !(stdCols hc).contains ref.col.name) = false)
    (hg : getShapeParams v shape row refs = .ok (xs, ys, rest))
    (hcst : construct au kind xs ys rest = .ok region) :
    parseRow v (stdCols hc) au row = .ok (some (setMeta v (stdCols hc) incl1 row.component region)) := by
  have h1 : (stdCols hc).contains cSHAPE = true := by cases hc <;> decide
  simp only [parseRow, getShape, h1, Bool.not_true, Bool.false_eq_true, if_false, hs, bind, Except.bind,
    hl, hp, hg, hcst, pure, Except.pure]

/-- `get_shape_params` for the centre-based shapes and the polygon. -/
theorem getShapeParams_plain (v : Variant) (shape : Name) (row : TRow) (refs : List ColRef)
    (vx vy : List Num) (tail : List (List Num)) (xs ys rest : List ℚ)
    (hr : isInfix "rectangle".toList shape = false)
    (hm : refs.mapM (getColumnValues v row) = .ok (vx :: vy :: tail))
    (hx : nums vx = .ok xs) (hy : nums vy = .ok ys) (ht : nums tail.flatten = .ok rest) :
    getShapeParams v shape row refs = .ok (xs, ys,
      if shape = "ellipse".toList then rest.dropLast.map (· * 2) ++ rest.drop (rest.length - 1) else rest) := by
  simp only [getShapeParams, hm, bind, Except.bind, hr, Bool.false_eq_true, if_false, hx, hy, ht, pure,
    Except.pure]

/-- `get_shape_params` for the corner notations. -/
theorem getShapeParams_corners (v : Variant) (shape : Name) (row : TRow) (refs : List ColRef)
    (x0 x1 y0 y1 : ℚ) (tail : List (List Num))
    (hr : isInfix "rectangle".toList shape = true)
    (hm : refs.mapM (getColumnValues v row) = .ok ([some x0] :: [some x1] :: [some y0] :: [some y1] :: tail)) :
    getShapeParams v shape row refs =
      if shape = "rotrectangle".toList then
        (nums (tail.getLastD [])).map fun ang =>
          ([1 / 2 * (x0 + x1)], [1 / 2 * (y0 + y1)], [x1 - x0, y1 - y0] ++ ang)
      else .ok ([1 / 2 * (x0 + x1)], [1 / 2 * (y0 + y1)], [x1 - x0, y1 - y0]) := by
  have hn : nums ([some x0] ++ [some x1] ++ [some y0] ++ [some y1]) = .ok [x0, x1, y0, y1] :=
    nums_map_some [x0, x1, y0, y1]
  simp only [getShapeParams, hm, bind, Except.bind, hr, if_true, hn, pure, Except.pure]
  split
  · cases nums (tail.getLastD []) <;> rfl
  · rfl

section readers
variable (v : Variant) (hc : Bool) (au : AUnit) (row : TRow) (incl1 : Bool)

theorem stdCols_numeric (hc : Bool) (c : Col) : (stdCols hc).contains c.name = true := by
  cases hc <;> cases c <;> decide

private theorem present (refs : List ColRef) :
    refs.any (fun ref => !(stdCols hc).contains ref.col.name) = false := by
  induction refs with
  | nil => rfl
  | cons r t ih => simp only [List.any_cons, stdCols_numeric hc r.col, Bool.not_true, ih, Bool.or_self]

/-- a `point` row -/
theorem read_point (x y : ℚ)
    (hs : readShape row.shape = .ok (some "point".toList, incl1))
    (hx : row.x.atleast1d[0]? = some (some x)) (hy : row.y.atleast1d[0]? = some (some y)) :
    parseRow v (stdCols hc) au row = .ok (some (setMeta v (stdCols hc) incl1 row.component
      ⟨.point, false, [x], [y], [], none, .absent, none, AUnit.degree⟩)) := by
  refine parseRow_of v hc au row "point".toList incl1 .point [⟨.X, some 0⟩, ⟨.Y, some 0⟩] [x] [y] [] _ hs (by decide)
    (present hc _) ?_ ?_
  · have := getShapeParams_plain v "point".toList row [⟨.X, some 0⟩, ⟨.Y, some 0⟩] [some x] [some y] [] [x] [y] []
      (by decide)
      (by simp only [List.mapM_cons, List.mapM_nil, getCol_idx v row .X 0 _ hx, getCol_idx v row .Y 0 _ hy,
            bind, Except.bind, pure, Except.pure])
      (nums_map_some [x]) (nums_map_some [y]) rfl
    rw [this, if_neg (by decide)]
  · rfl

/-- a `circle` row: centre `(X0, Y0)`, radius `R0`. -/
theorem read_circle (x y rad : ℚ)
    (hs : readShape row.shape = .ok (some "circle".toList, incl1))
    (hx : row.x.atleast1d[0]? = some (some x)) (hy : row.y.atleast1d[0]? = some (some y))
    (hr : row.r.atleast1d[0]? = some (some rad)) (hpos : 0 < rad) :
    parseRow v (stdCols hc) au row = .ok (some (setMeta v (stdCols hc) incl1 row.component
      ⟨.circle, false, [x], [y], [rad], none, .absent, none, AUnit.degree⟩)) := by
  refine parseRow_of v hc au row "circle".toList incl1 .circle [⟨.X, some 0⟩, ⟨.Y, some 0⟩, ⟨.R, some 0⟩] [x] [y] [rad] _ hs
    (by decide) (present hc _) ?_ ?_
  · have := getShapeParams_plain v "circle".toList row [⟨.X, some 0⟩, ⟨.Y, some 0⟩, ⟨.R, some 0⟩]
      [some x] [some y] [[some rad]] [x] [y] [rad] (by decide)
      (by simp only [List.mapM_cons, List.mapM_nil, getCol_idx v row .X 0 _ hx, getCol_idx v row .Y 0 _ hy,
            getCol_idx v row .R 0 _ hr, bind, Except.bind, pure, Except.pure])
      (nums_map_some [x]) (nums_map_some [y]) (nums_map_some [rad])
    rw [this, if_neg (by decide)]
  · simp only [construct, not_le.mpr hpos, if_false]

/-- an `ellipse` row: centre `(X0, Y0)`, SEMI-axes `R0, R1` (so width `2·R0`, height `2·R1`),
angle `ROTANG0`. -/
theorem read_ellipse (x y a b t : ℚ)
    (hs : readShape row.shape = .ok (some "ellipse".toList, incl1))
    (hx : row.x.atleast1d[0]? = some (some x)) (hy : row.y.atleast1d[0]? = some (some y))
    (hr0 : row.r.atleast1d[0]? = some (some a)) (hr1 : row.r.atleast1d[1]? = some (some b))
    (ht : row.rotang.atleast1d[0]? = some (some t)) (ha : 0 < a) (hb : 0 < b) :
    parseRow v (stdCols hc) au row = .ok (some (setMeta v (stdCols hc) incl1 row.component
      ⟨.ellipse, false, [x], [y], [a * 2, b * 2], some t, .absent, none, au⟩)) := by
  refine parseRow_of v hc au row "ellipse".toList incl1 .ellipse
    [⟨.X, some 0⟩, ⟨.Y, some 0⟩, ⟨.R, some 0⟩, ⟨.R, some 1⟩, ⟨.ROTANG, some 0⟩] [x] [y] [a * 2, b * 2, t] _ hs
    (by decide) (present hc _) ?_ ?_
  · have := getShapeParams_plain v "ellipse".toList row
      [⟨.X, some 0⟩, ⟨.Y, some 0⟩, ⟨.R, some 0⟩, ⟨.R, some 1⟩, ⟨.ROTANG, some 0⟩]
      [some x] [some y] [[some a], [some b], [some t]] [x] [y] [a, b, t] (by decide)
      (by simp only [List.mapM_cons, List.mapM_nil, getCol_idx v row .X 0 _ hx, getCol_idx v row .Y 0 _ hy,
            getCol_idx v row .R 0 _ hr0, getCol_idx v row .R 1 _ hr1, getCol_idx v row .ROTANG 0 _ ht,
            bind, Except.bind, pure, Except.pure])
      (nums_map_some [x]) (nums_map_some [y]) (nums_map_some [a, b, t])
    rw [this, if_pos rfl]
    rfl
  · have h1 : ¬ (a * 2 ≤ 0 ∨ b * 2 ≤ 0) := by
      intro h; rcases h with h | h <;> linarith
    simp only [construct, h1, if_false]

/-- an `annulus` row: centre, inner and outer radius `R0 < R1`. -/
theorem read_annulus (x y ri ro : ℚ)
    (hs : readShape row.shape = .ok (some "annulus".toList, incl1))
    (hx : row.x.atleast1d[0]? = some (some x)) (hy : row.y.atleast1d[0]? = some (some y))
    (hr0 : row.r.atleast1d[0]? = some (some ri)) (hr1 : row.r.atleast1d[1]? = some (some ro))
    (h0 : 0 < ri) (h1 : ri < ro) :
    parseRow v (stdCols hc) au row = .ok (some (setMeta v (stdCols hc) incl1 row.component
      ⟨.circleAnnulus, false, [x], [y], [ri, ro], none, .absent, none, AUnit.degree⟩)) := by
  refine parseRow_of v hc au row "annulus".toList incl1 .circleAnnulus
    [⟨.X, some 0⟩, ⟨.Y, some 0⟩, ⟨.R, some 0⟩, ⟨.R, some 1⟩] [x] [y] [ri, ro] _ hs
    (by decide) (present hc _) ?_ ?_
  · have := getShapeParams_plain v "annulus".toList row
      [⟨.X, some 0⟩, ⟨.Y, some 0⟩, ⟨.R, some 0⟩, ⟨.R, some 1⟩]
      [some x] [some y] [[some ri], [some ro]] [x] [y] [ri, ro] (by decide)
      (by simp only [List.mapM_cons, List.mapM_nil, getCol_idx v row .X 0 _ hx, getCol_idx v row .Y 0 _ hy,
            getCol_idx v row .R 0 _ hr0, getCol_idx v row .R 1 _ hr1, bind, Except.bind, pure, Except.pure])
      (nums_map_some [x]) (nums_map_some [y]) (nums_map_some [ri, ro])
    rw [this, if_neg (by decide)]
  · have h2 : ¬ (ri ≤ 0 ∨ ro ≤ 0 ∨ ri ≥ ro) := by
      intro h; rcases h with h | h | h <;> linarith
    simp only [construct, h2, if_false]

/-- an `elliptannulus` row: `R0..R3` = inner width, outer width, inner height, outer height
(the convention of this package's writer: full lengths, not halved), angle `ROTANG0`. -/
theorem read_elliptannulus (x y iw ow ih oh t : ℚ)
    (hs : readShape row.shape = .ok (some "elliptannulus".toList, incl1))
    (hx : row.x.atleast1d[0]? = some (some x)) (hy : row.y.atleast1d[0]? = some (some y))
    (hr0 : row.r.atleast1d[0]? = some (some iw)) (hr1 : row.r.atleast1d[1]? = some (some ow))
    (hr2 : row.r.atleast1d[2]? = some (some ih)) (hr3 : row.r.atleast1d[3]? = some (some oh))
    (ht : row.rotang.atleast1d[0]? = some (some t))
    (h0 : 0 < iw) (h1 : iw < ow) (h2 : 0 < ih) (h3 : ih < oh) :
    parseRow v (stdCols hc) au row = .ok (some (setMeta v (stdCols hc) incl1 row.component
      ⟨.ellipseAnnulus, false, [x], [y], [iw, ow, ih, oh], some t, .absent, none, au⟩)) := by
  refine parseRow_of v hc au row "elliptannulus".toList incl1 .ellipseAnnulus
    [⟨.X, some 0⟩, ⟨.Y, some 0⟩, ⟨.R, some 0⟩, ⟨.R, some 1⟩, ⟨.R, some 2⟩, ⟨.R, some 3⟩, ⟨.ROTANG, some 0⟩]
    [x] [y] [iw, ow, ih, oh, t] _ hs (by decide) (present hc _) ?_ ?_
  · have := getShapeParams_plain v "elliptannulus".toList row
      [⟨.X, some 0⟩, ⟨.Y, some 0⟩, ⟨.R, some 0⟩, ⟨.R, some 1⟩, ⟨.R, some 2⟩, ⟨.R, some 3⟩, ⟨.ROTANG, some 0⟩]
      [some x] [some y] [[some iw], [some ow], [some ih], [some oh], [some t]] [x] [y] [iw, ow, ih, oh, t]
      (by decide)
      (by simp only [List.mapM_cons, List.mapM_nil, getCol_idx v row .X 0 _ hx, getCol_idx v row .Y 0 _ hy,
            getCol_idx v row .R 0 _ hr0, getCol_idx v row .R 1 _ hr1, getCol_idx v row .R 2 _ hr2,
            getCol_idx v row .R 3 _ hr3, getCol_idx v row .ROTANG 0 _ ht, bind, Except.bind, pure, Except.pure])
      (nums_map_some [x]) (nums_map_some [y]) (nums_map_some [iw, ow, ih, oh, t])
    rw [this, if_neg (by decide)]
  · have h4 : ¬ (iw ≤ 0 ∨ ow ≤ 0 ∨ ih ≤ 0 ∨ oh ≤ 0 ∨ iw ≥ ow ∨ ih ≥ oh) := by
      intro h; rcases h with h | h | h | h | h | h <;> linarith
    simp only [construct, h4, if_false]

/-- a `box` row: centre `(X0, Y0)`, full width `R0`, full height `R1`, no rotation. -/
theorem read_box (x y w h : ℚ)
    (hs : readShape row.shape = .ok (some "box".toList, incl1))
    (hx : row.x.atleast1d[0]? = some (some x)) (hy : row.y.atleast1d[0]? = some (some y))
    (hr0 : row.r.atleast1d[0]? = some (some w)) (hr1 : row.r.atleast1d[1]? = some (some h))
    (hw : 0 < w) (hh : 0 < h) :
    parseRow v (stdCols hc) au row = .ok (some (setMeta v (stdCols hc) incl1 row.component
      ⟨.rectangle, false, [x], [y], [w, h], some 0, .absent, none, AUnit.degree⟩)) := by
  refine parseRow_of v hc au row "box".toList incl1 .rectangle
    [⟨.X, some 0⟩, ⟨.Y, some 0⟩, ⟨.R, some 0⟩, ⟨.R, some 1⟩] [x] [y] [w, h] _ hs
    (by decide) (present hc _) ?_ ?_
  · have := getShapeParams_plain v "box".toList row
      [⟨.X, some 0⟩, ⟨.Y, some 0⟩, ⟨.R, some 0⟩, ⟨.R, some 1⟩]
      [some x] [some y] [[some w], [some h]] [x] [y] [w, h] (by decide)
      (by simp only [List.mapM_cons, List.mapM_nil, getCol_idx v row .X 0 _ hx, getCol_idx v row .Y 0 _ hy,
            getCol_idx v row .R 0 _ hr0, getCol_idx v row .R 1 _ hr1, bind, Except.bind, pure, Except.pure])
      (nums_map_some [x]) (nums_map_some [y]) (nums_map_some [w, h])
    rw [this, if_neg (by decide)]
  · have h2 : ¬ (w ≤ 0 ∨ h ≤ 0) := by
      intro h; rcases h with h | h <;> linarith
    simp only [construct, h2, if_false]

/-- a `rotbox` row: as `box`, rotated by `ROTANG0`. -/
theorem read_rotbox (x y w h t : ℚ)
    (hs : readShape row.shape = .ok (some "rotbox".toList, incl1))
    (hx : row.x.atleast1d[0]? = some (some x)) (hy : row.y.atleast1d[0]? = some (some y))
    (hr0 : row.r.atleast1d[0]? = some (some w)) (hr1 : row.r.atleast1d[1]? = some (some h))
    (ht : row.rotang.atleast1d[0]? = some (some t)) (hw : 0 < w) (hh : 0 < h) :
    parseRow v (stdCols hc) au row = .ok (some (setMeta v (stdCols hc) incl1 row.component
      ⟨.rectangle, false, [x], [y], [w, h], some t, .absent, none, au⟩)) := by
  refine parseRow_of v hc au row "rotbox".toList incl1 .rectangle
    [⟨.X, some 0⟩, ⟨.Y, some 0⟩, ⟨.R, some 0⟩, ⟨.R, some 1⟩, ⟨.ROTANG, some 0⟩] [x] [y] [w, h, t] _ hs
    (by decide) (present hc _) ?_ ?_
  · have := getShapeParams_plain v "rotbox".toList row
      [⟨.X, some 0⟩, ⟨.Y, some 0⟩, ⟨.R, some 0⟩, ⟨.R, some 1⟩, ⟨.ROTANG, some 0⟩]
      [some x] [some y] [[some w], [some h], [some t]] [x] [y] [w, h, t] (by decide)
      (by simp only [List.mapM_cons, List.mapM_nil, getCol_idx v row .X 0 _ hx, getCol_idx v row .Y 0 _ hy,
            getCol_idx v row .R 0 _ hr0, getCol_idx v row .R 1 _ hr1, getCol_idx v row .ROTANG 0 _ ht,
            bind, Except.bind, pure, Except.pure])
      (nums_map_some [x]) (nums_map_some [y]) (nums_map_some [w, h, t])
    rw [this, if_neg (by decide)]
  · have h2 : ¬ (w ≤ 0 ∨ h ≤ 0) := by
      intro h; rcases h with h | h <;> linarith
    simp only [construct, h2, if_false]

/-- a `rectangle` row (corner form): corners `(X0, Y0)` and `(X1, Y1)`;
centre = midpoint, sizes = differences, no rotation. -/
theorem read_rectangle (x0 x1 y0 y1 : ℚ)
    (hs : readShape row.shape = .ok (some "rectangle".toList, incl1))
    (hx0 : row.x.atleast1d[0]? = some (some x0)) (hx1 : row.x.atleast1d[1]? = some (some x1))
    (hy0 : row.y.atleast1d[0]? = some (some y0)) (hy1 : row.y.atleast1d[1]? = some (some y1))
    (hw : x0 < x1) (hh : y0 < y1) :
    parseRow v (stdCols hc) au row = .ok (some (setMeta v (stdCols hc) incl1 row.component
      ⟨.rectangle, false, [1 / 2 * (x0 + x1)], [1 / 2 * (y0 + y1)], [x1 - x0, y1 - y0], some 0,
       .absent, none, AUnit.degree⟩)) := by
  refine parseRow_of v hc au row "rectangle".toList incl1 .rectangle
    [⟨.X, some 0⟩, ⟨.X, some 1⟩, ⟨.Y, some 0⟩, ⟨.Y, some 1⟩] [1 / 2 * (x0 + x1)] [1 / 2 * (y0 + y1)]
    [x1 - x0, y1 - y0] _ hs
    (by decide) (present hc _) ?_ ?_
  · have := getShapeParams_corners v "rectangle".toList row
      [⟨.X, some 0⟩, ⟨.X, some 1⟩, ⟨.Y, some 0⟩, ⟨.Y, some 1⟩] x0 x1 y0 y1 [] (by decide)
      (by simp only [List.mapM_cons, List.mapM_nil, getCol_idx v row .X 0 _ hx0, getCol_idx v row .X 1 _ hx1,
            getCol_idx v row .Y 0 _ hy0, getCol_idx v row .Y 1 _ hy1, bind, Except.bind, pure, Except.pure])
    rw [this, if_neg (by decide)]
  · have h2 : ¬ (x1 - x0 ≤ 0 ∨ y1 - y0 ≤ 0) := by
      intro h; rcases h with h | h <;> linarith
    simp only [construct, h2, if_false]

/-- a `rotrectangle` row: as `rectangle`, rotated by `ROTANG0`. -/
theorem read_rotrectangle (x0 x1 y0 y1 t : ℚ)
    (hs : readShape row.shape = .ok (some "rotrectangle".toList, incl1))
    (hx0 : row.x.atleast1d[0]? = some (some x0)) (hx1 : row.x.atleast1d[1]? = some (some x1))
    (hy0 : row.y.atleast1d[0]? = some (some y0)) (hy1 : row.y.atleast1d[1]? = some (some y1))
    (ht : row.rotang.atleast1d[0]? = some (some t)) (hw : x0 < x1) (hh : y0 < y1) :
    parseRow v (stdCols hc) au row = .ok (some (setMeta v (stdCols hc) incl1 row.component
      ⟨.rectangle, false, [1 / 2 * (x0 + x1)], [1 / 2 * (y0 + y1)], [x1 - x0, y1 - y0], some t,
       .absent, none, au⟩)) := by
  refine parseRow_of v hc au row "rotrectangle".toList incl1 .rectangle
    [⟨.X, some 0⟩, ⟨.X, some 1⟩, ⟨.Y, some 0⟩, ⟨.Y, some 1⟩, ⟨.ROTANG, some 0⟩] [1 / 2 * (x0 + x1)]
    [1 / 2 * (y0 + y1)] [x1 - x0, y1 - y0, t] _ hs
    (by decide) (present hc _) ?_ ?_
  · have := getShapeParams_corners v "rotrectangle".toList row
      [⟨.X, some 0⟩, ⟨.X, some 1⟩, ⟨.Y, some 0⟩, ⟨.Y, some 1⟩, ⟨.ROTANG, some 0⟩] x0 x1 y0 y1 [[some t]]
      (by decide)
      (by simp only [List.mapM_cons, List.mapM_nil, getCol_idx v row .X 0 _ hx0, getCol_idx v row .X 1 _ hx1,
            getCol_idx v row .Y 0 _ hy0, getCol_idx v row .Y 1 _ hy1, getCol_idx v row .ROTANG 0 _ ht,
            bind, Except.bind, pure, Except.pure])
    rw [this, if_pos rfl]
    rfl
  · have h2 : ¬ (x1 - x0 ≤ 0 ∨ y1 - y0 ≤ 0) := by
      intro h; rcases h with h | h <;> linarith
    simp only [construct, h2, if_false]

/-- a `polygon` row: ALL values of X and Y are vertices (with F10 repaired: all non-NaN values). -/
theorem read_polygon (xs ys : List ℚ)
    (hs : readShape row.shape = .ok (some "polygon".toList, incl1))
    (hx : nums (if v.f10 then row.x.atleast1d.filter Option.isSome else row.x.atleast1d) = .ok xs)
    (hy : nums (if v.f10 then row.y.atleast1d.filter Option.isSome else row.y.atleast1d) = .ok ys)
    (hlen : xs.length = ys.length) :
    parseRow v (stdCols hc) au row = .ok (some (setMeta v (stdCols hc) incl1 row.component
      ⟨.polygon, false, xs, ys, [], none, .absent, none, AUnit.degree⟩)) := by
  refine parseRow_of v hc au row "polygon".toList incl1 .polygon [⟨.X, none⟩, ⟨.Y, none⟩] xs ys [] _ hs
    (by decide) (present hc _) ?_ ?_
  · have := getShapeParams_plain v "polygon".toList row [⟨.X, none⟩, ⟨.Y, none⟩] _ _ [] xs ys [] (by decide)
      (by simp only [List.mapM_cons, List.mapM_nil, getColumnValues, TRow.cell, bind, Except.bind, pure,
            Except.pure])
      hx hy rfl
    rw [this, if_neg (by decide)]
  · simp only [construct, hlen, true_or, if_true, Nat.max_self]

end readers

/-! ## §4 one region through the table -/

/-- "class name -> FITS shape name" -/
def fitsName : Kind → Name
  | .point => "point".toList
  | .circle => "circle".toList
  | .ellipse => "ellipse".toList
  | .circleAnnulus => "annulus".toList
  | .ellipseAnnulus => "elliptannulus".toList
  | .rectangle => "rotbox".toList
  | .polygon => "polygon".toList
  | _ => []

/-- the classes whose FITS name is not the lower-cased class name, or whose sizes are halved:
the ones finding F8 is about. -/
def renamed (k : Kind) : Bool :=
  match k with
  | .ellipse | .circleAnnulus | .ellipseAnnulus | .rectangle => true
  | _ => false

/-- F8 does not bite: the repair is in, or the region is not an excluded one of a renamed class. -/
def ok8 (v : Variant) (r : Reg) : Bool := v.f8 || !(r.incl.eqZero && renamed (asWritten r).kind)

def isPoly (r : Reg) : Bool := r.kind = .polygon || r.kind = .regularPolygon

/-- the writer's name computation, as a finite table (48 entries, each evaluated). -/
theorem shapeOf_ok (f8 excl : Bool) (k : Kind) (hs : supported k = true)
    (h8 : f8 = true ∨ ¬ (excl = true ∧ renamed k = true)) :
    shapeOf f8 k excl = ((if excl then '!' :: fitsName k else fitsName k), decide (k = .ellipse)) := by
  cases f8 <;> cases excl <;> cases k <;> first | decide | (simp [supported, renamed] at hs h8)

/-- the reader recognises every name the writer produces, and the `'!'`. -/
theorem readShape_ok (excl : Bool) (k : Kind) (hs : supported k = true) :
    readShape (if excl then '!' :: fitsName k else fitsName k) = .ok (some (fitsName k), !excl) := by
  cases excl <;> cases k <;> first | decide | (simp [supported] at hs)

theorem not_unsupported (k : Kind) (hs : supported k = true) :
    unsupportedRegions.contains k.className = false := by
  cases k <;> first | decide | (simp [supported] at hs)

/-- the written `_RegionData` of a region of a supported class. -/
def dataOf (v : Variant) (r : Reg) : RegData :=
  ⟨if r.incl.eqZero then '!' :: fitsName r.kind else fitsName r.kind, r.xs, r.ys,
   (let p := if r.kind = .ellipse then r.params.map (· / 2) else r.params
    if p.isEmpty then [0] else p),
   [(rotOf v r).1], r.comp, (rotOf v r).2⟩

theorem serializeRegion_eq (v : Variant) (r : Reg) (hk : supported r.kind = true)
    (h8 : v.f8 = true ∨ ¬ (r.incl.eqZero = true ∧ renamed r.kind = true)) :
    serializeRegion v r = some (dataOf v r) := by
  have hne : r.kind ≠ .regularPolygon := by intro h; rw [h] at hk; simp [supported] at hk
  simp only [serializeRegion, hne, if_false, not_unsupported _ hk, Bool.false_eq_true,
    shapeOf_ok _ _ _ hk h8, dataOf, decide_eq_true_eq]

theorem serializeRegion_regular (v : Variant) (r : Reg) (hk : r.kind = .regularPolygon) :
    serializeRegion v r = serializeRegion v r.toPolygon := by
  have h2 : r.toPolygon.kind ≠ .regularPolygon := by simp [Reg.toPolygon]
  simp only [serializeRegion, hk, if_true, h2, if_false]

theorem padCell_get (fill : Num) (w : Nat) (arr : List ℚ) (h2 : arr.length ≤ w) (i : Nat)
    (hi : i < arr.length) : (padCell fill w arr).atleast1d[i]? = some (some arr[i]) := by
  have h1 : arr ≠ [] := by intro h; rw [h] at hi; exact Nat.not_lt_zero _ hi
  rw [atleast1d_padCell fill w arr h1 h2, List.getElem?_append_left (by simpa using hi),
    List.getElem?_map, List.getElem?_eq_getElem hi]
  rfl

/-- what must come back for `r` when its row carries component `c` and the ROTANG column has unit `u0`
(the angle converted to `u0`, as a Quantity in `u0`). -/
def backAngle (v : Variant) (u0 : AUnit) (r : Reg) : Option ℚ :=
  r.angle.map (fun _ => convAngle (rotOf v r).2 u0 (rotOf v r).1)

def backOf (v : Variant) (hc : Bool) (u0 : AUnit) (r : Reg) (c : Int) : Reg :=
  setMeta v (stdCols hc) (!r.incl.eqZero) c
    { asWritten r with sky := false, incl := .absent, comp := none, angle := backAngle v u0 (asWritten r),
                       aunit := if (asWritten r).angle.isSome then u0 else AUnit.degree }

/-- ONE ROW: a representable region of a supported class, written into a table whose columns
have ANY widths that fit (= any padding), is read back as itself.
`h10`: the polygon clause of finding F10. -/
theorem row_roundtrip_supported (v : Variant) (hc : Bool) (r : Reg) (hr : representable r = true)
    (hk : supported r.kind = true)
    (h8 : v.f8 = true ∨ ¬ (r.incl.eqZero = true ∧ renamed r.kind = true))
    (wx wy wr wa : Nat) (hwx : r.xs.length ≤ wx) (hwy : r.ys.length ≤ wy)
    (hwr : (dataOf v r).r.length ≤ wr) (hwa : 1 ≤ wa)
    (h10 : v.f10 = true ∨ r.kind ≠ .polygon ∨ (wx = r.xs.length ∧ wy = r.ys.length)) (u0 : AUnit) (c : Int) :
    parseRow v (stdCols hc) u0 (mkRow v wx wy wr wa u0 (dataOf v r) c) = .ok (some (backOf v hc u0 r c)) := by
  obtain ⟨kind, sky, xs, ys, params, angle, incl, comp, aunit⟩ := r
  have hsh := readShape_ok incl.eqZero kind hk
  have hne : kind ≠ .regularPolygon := by intro h; rw [h] at hk; simp [supported] at hk
  simp only [representable, Bool.and_eq_true, Bool.not_eq_true'] at hr
  obtain ⟨⟨hsky, -⟩, hr⟩ := hr
  simp only at hsky hwx hwy hwr hk h8 h10 hsh
  subst hsky
  simp only [backOf, backAngle, asWritten, hne, if_false]
  split at hr
  · -- point
    rename_i x y
    exact read_point v hc u0 _ _ x y hsh (padCell_get _ wx [x] hwx 0 (by simp)) (padCell_get _ wy [y] hwy 0 (by simp))
  · -- circle
    rename_i x y rad
    have hpos : 0 < rad := by simpa using hr
    exact read_circle v hc u0 _ _ x y rad hsh (padCell_get _ wx [x] hwx 0 (by simp))
      (padCell_get _ wy [y] hwy 0 (by simp)) (padCell_get _ wr [rad] hwr 0 (by simp)) hpos
  · -- ellipse
    rename_i x y w h t
    simp only [Bool.and_eq_true, decide_eq_true_eq] at hr
    have := read_ellipse v hc u0 (mkRow v wx wy wr wa u0 (dataOf v ⟨.ellipse, false, [x], [y], [w, h], some t, incl, comp, aunit⟩) c)
      (!incl.eqZero) x y (w / 2) (h / 2) _ hsh (padCell_get _ wx [x] hwx 0 (by simp))
      (padCell_get _ wy [y] hwy 0 (by simp)) (padCell_get _ wr [w / 2, h / 2] hwr 0 (by simp))
      (padCell_get _ wr [w / 2, h / 2] hwr 1 (by simp)) (padCell_get _ wa [convAngle (rotOf v (⟨.ellipse, false, [x], [y], [w, h], some t, incl, comp, aunit⟩ : Reg)).2 u0 (rotOf v (⟨.ellipse, false, [x], [y], [w, h], some t, incl, comp, aunit⟩ : Reg)).1] hwa 0 (by simp))
      (by linarith [hr.1]) (by linarith [hr.2])
    rw [this]
    have e1 : w / 2 * 2 = w := by ring
    have e2 : h / 2 * 2 = h := by ring
    rw [e1, e2]
    rfl
  · -- circle annulus
    rename_i x y ri ro
    simp only [Bool.and_eq_true, decide_eq_true_eq] at hr
    exact read_annulus v hc u0 _ _ x y ri ro hsh (padCell_get _ wx [x] hwx 0 (by simp))
      (padCell_get _ wy [y] hwy 0 (by simp)) (padCell_get _ wr [ri, ro] hwr 0 (by simp))
      (padCell_get _ wr [ri, ro] hwr 1 (by simp)) hr.1 hr.2
  · -- ellipse annulus
    rename_i x y iw ow ih oh t
    simp only [Bool.and_eq_true, decide_eq_true_eq] at hr
    exact read_elliptannulus v hc u0 _ _ x y iw ow ih oh _ hsh (padCell_get _ wx [x] hwx 0 (by simp))
      (padCell_get _ wy [y] hwy 0 (by simp)) (padCell_get _ wr [iw, ow, ih, oh] hwr 0 (by simp))
      (padCell_get _ wr [iw, ow, ih, oh] hwr 1 (by simp)) (padCell_get _ wr [iw, ow, ih, oh] hwr 2 (by simp))
      (padCell_get _ wr [iw, ow, ih, oh] hwr 3 (by simp)) (padCell_get _ wa [convAngle (rotOf v (⟨.ellipseAnnulus, false, [x], [y], [iw, ow, ih, oh], some t, incl, comp, aunit⟩ : Reg)).2 u0 (rotOf v (⟨.ellipseAnnulus, false, [x], [y], [iw, ow, ih, oh], some t, incl, comp, aunit⟩ : Reg)).1] hwa 0 (by simp))
      hr.1.1.1 hr.1.1.2 hr.1.2 hr.2
  · -- rectangle
    rename_i x y w h t
    simp only [Bool.and_eq_true, decide_eq_true_eq] at hr
    exact read_rotbox v hc u0 _ _ x y w h _ hsh (padCell_get _ wx [x] hwx 0 (by simp))
      (padCell_get _ wy [y] hwy 0 (by simp)) (padCell_get _ wr [w, h] hwr 0 (by simp))
      (padCell_get _ wr [w, h] hwr 1 (by simp)) (padCell_get _ wa [convAngle (rotOf v (⟨.rectangle, false, [x], [y], [w, h], some t, incl, comp, aunit⟩ : Reg)).2 u0 (rotOf v (⟨.rectangle, false, [x], [y], [w, h], some t, incl, comp, aunit⟩ : Reg)).1] hwa 0 (by simp)) hr.1 hr.2
  · -- polygon
    simp only [Bool.and_eq_true, decide_eq_true_eq, Bool.not_eq_true', List.isEmpty_eq_false_iff] at hr
    obtain ⟨hlen, hnex⟩ := hr
    have hney : ys ≠ [] := by
      intro h; rw [h] at hlen; exact hnex (List.length_eq_zero_iff.mp hlen)
    have key : ∀ (w : Nat) (l : List ℚ), l ≠ [] → l.length ≤ w → (v.f10 = true ∨ w = l.length) →
        nums (if v.f10 then (padCell (fillXY v) w l).atleast1d.filter Option.isSome
              else (padCell (fillXY v) w l).atleast1d) = .ok l := by
      intro w l hl hw h
      rw [atleast1d_padCell _ w l hl hw]
      by_cases hf : v.f10 = true
      · simp only [hf, if_true, fillXY, filter_isSome_padded, nums_map_some]
      · rcases h with h | h
        · exact absurd h hf
        · simp only [hf, Bool.false_eq_true, if_false, h, Nat.sub_self, List.replicate_zero, List.append_nil,
            nums_map_some]
    refine read_polygon v hc u0 _ _ xs ys hsh (key wx xs hnex hwx ?_) (key wy ys hney hwy ?_) hlen
    · rcases h10 with h | h | h
      · exact Or.inl h
      · exact absurd rfl h
      · exact Or.inr h.1
    · rcases h10 with h | h | h
      · exact Or.inl h
      · exact absurd rfl h
      · exact Or.inr h.2
  · -- regular polygon: not a supported *written* class
    exact absurd rfl hne
  · exact absurd hr (by simp)

theorem representable_facts (r : Reg) (hr : representable r = true) :
    r.sky = false ∧ supported (asWritten r).kind = true ∧ representable (asWritten r) = true ∧
    r.xs.length = r.ys.length ∧ r.xs ≠ [] ∧ 0 < r.aunit.deg := by
  obtain ⟨kind, sky, xs, ys, params, angle, incl, comp, aunit⟩ := r
  simp only [representable, Bool.and_eq_true, Bool.not_eq_true', decide_eq_true_eq] at hr
  obtain ⟨⟨hsky, hu⟩, hr⟩ := hr
  subst hsky
  split at hr <;> simp_all [asWritten, Reg.toPolygon, supported, representable]

theorem asWritten_idem (r : Reg) : asWritten (asWritten r) = asWritten r := by
  unfold asWritten
  by_cases h : r.kind = .regularPolygon
  · simp [h, Reg.toPolygon]
  · simp [h]

theorem asWritten_fields (r : Reg) :
    (asWritten r).xs = r.xs ∧ (asWritten r).ys = r.ys ∧ (asWritten r).incl = r.incl ∧
    (asWritten r).comp = r.comp ∧ (asWritten r).sky = r.sky ∧ (asWritten r).aunit = r.aunit := by
  unfold asWritten
  by_cases h : r.kind = .regularPolygon <;> simp [h, Reg.toPolygon]

theorem backOf_asWritten (v : Variant) (hc : Bool) (u0 : AUnit) (r : Reg) (c : Int) :
    backOf v hc u0 (asWritten r) c = backOf v hc u0 r c := by
  simp only [backOf, asWritten_idem, (asWritten_fields r).2.2.1]

/-- the writer writes a representable region (unless F8 bites) and what it writes. -/
theorem serializeRegion_rep (v : Variant) (r : Reg) (hr : representable r = true) (h8 : ok8 v r = true) :
    serializeRegion v r = some (dataOf v (asWritten r)) := by
  obtain ⟨_, hk, _, _, _⟩ := representable_facts r hr
  have h8' : v.f8 = true ∨ ¬ ((asWritten r).incl.eqZero = true ∧ renamed (asWritten r).kind = true) := by
    rw [(asWritten_fields r).2.2.1]
    simp only [ok8, Bool.or_eq_true, Bool.not_eq_true', Bool.and_eq_false_iff] at h8
    rcases h8 with h | h | h
    · exact Or.inl h
    · exact Or.inr (by simp [h])
    · exact Or.inr (by simp [h])
  by_cases hreg : r.kind = .regularPolygon
  · rw [serializeRegion_regular v r hreg]
    have : asWritten r = r.toPolygon := by simp [asWritten, hreg]
    rw [this] at hk h8' ⊢
    exact serializeRegion_eq v _ hk h8'
  · have : asWritten r = r := by simp [asWritten, hreg]
    rw [this] at hk h8' ⊢
    exact serializeRegion_eq v _ hk h8'

/-! ## §5 components -/

theorem foldl_max_le_int (l : List Int) (a : Int) : a ≤ l.foldl max a := by
  induction l generalizing a with
  | nil => exact le_refl _
  | cons b t ih => exact le_trans (le_max_left a b) (ih _)

theorem le_foldl_max_int (l : List Int) (a x : Int) (h : x ∈ a :: l) : x ≤ l.foldl max a := by
  induction l generalizing a with
  | nil => simp at h; subst h; exact le_refl _
  | cons b t ih =>
    simp only [List.foldl_cons]
    rcases List.mem_cons.mp h with rfl | h
    · exact le_trans (le_max_left _ _) (foldl_max_le_int t _)
    · rcases List.mem_cons.mp h with rfl | h
      · exact le_trans (le_max_right _ _) (foldl_max_le_int t _)
      · exact ih _ (List.mem_cons_of_mem _ h)

theorem fill_length (start : Int) (k : Nat) (cs : List (Option Int)) :
    (fillComponents start k cs).length = cs.length := by
  induction cs generalizing k with
  | nil => rfl
  | cons g t ih => cases g <;> simp [fillComponents, ih]

/-- given components are kept -/
theorem fill_given (start : Int) (k : Nat) (cs : List (Option Int)) :
    List.Forall₂ (fun g c => ∀ x, g = some x → c = x) cs (fillComponents start k cs) := by
  induction cs generalizing k with
  | nil => exact List.Forall₂.nil
  | cons g t ih =>
    cases g with
    | none => exact List.Forall₂.cons (by intro x h; cases h) (ih _)
    | some c => exact List.Forall₂.cons (by intro x h; cases h; rfl) (ih _)

/-- the filled-in numbers are `start + k, start + k + 1, …`: increasing, all `≥ start + k`. -/
theorem fill_fresh (start : Int) (k : Nat) (cs : List (Option Int)) :
    (∀ f ∈ freshInts cs (fillComponents start k cs), start + k ≤ f) ∧
    (freshInts cs (fillComponents start k cs)).Pairwise (· < ·) := by
  induction cs generalizing k with
  | nil => exact ⟨by simp [freshInts], by simp [freshInts]⟩
  | cons g t ih =>
    cases g with
    | some c => simpa [freshInts, fillComponents] using ih k
    | none =>
      obtain ⟨h1, h2⟩ := ih (k + 1)
      simp only [freshInts, fillComponents, List.mem_cons, forall_eq_or_imp, le_refl, true_and,
        List.pairwise_cons]
      refine ⟨fun f hf => ?_, fun f hf => ?_, h2⟩
      · have := h1 f hf; push_cast at this; omega
      · have := h1 f hf; push_cast at this; omega

theorem filterMap_id_given (cs : List (Option Int)) (h : cs.all Option.isSome = true) :
    cs = (cs.filterMap id).map some := by
  induction cs with
  | nil => rfl
  | cons g t ih =>
    cases g with
    | none => simp at h
    | some c =>
      simp only [List.all_cons, Option.isSome_some, Bool.true_and] at h
      simp only [List.filterMap_cons, id, List.map_cons]
      rw [← ih h]

theorem freshInts_all_given (l : List Int) : freshInts (l.map some) l = [] := by
  induction l with
  | nil => rfl
  | cons a t ih => simpa [freshInts] using ih

/-- `_define_components`: the given numbers are kept, the missing ones are filled with fresh,
pairwise distinct numbers; no column iff no region has one. -/
theorem defineComponents_spec (v : Variant) (cs : List (Option Int)) :
    match defineComponents v cs with
    | none => ∀ g ∈ cs, g = none
    | some (l, _) =>
      l.length = cs.length ∧ List.Forall₂ (fun g c => ∀ x, g = some x → c = x) cs l ∧
      (freshInts cs l).Nodup ∧ ∀ f ∈ freshInts cs l, some f ∉ cs := by
  unfold defineComponents
  by_cases hall : cs.all Option.isSome = true
  · simp only [hall, if_true]
    have e := filterMap_id_given cs hall
    have hf : freshInts cs (cs.filterMap id) = [] := by
      have := freshInts_all_given (cs.filterMap id)
      rwa [← e] at this
    refine ⟨?_, ?_, ?_, ?_⟩
    · conv_rhs => rw [e]
      simp
    · conv => arg 2; rw [e]
      generalize cs.filterMap id = l
      induction l with
      | nil => exact List.Forall₂.nil
      | cons a t ih => exact List.Forall₂.cons (by intro x h; cases h; rfl) ih
    · rw [hf]; exact List.nodup_nil
    · rw [hf]; simp
  · simp only [hall, Bool.false_eq_true, if_false]
    cases hfm : cs.filterMap id with
    | nil =>
      simp only
      intro g hg
      cases g with
      | none => rfl
      | some c =>
        have : c ∈ cs.filterMap id := List.mem_filterMap.mpr ⟨some c, hg, rfl⟩
        rw [hfm] at this; cases this
    | cons c rest =>
      simp only
      obtain ⟨h1, h2⟩ := fill_fresh (rest.foldl max c + 1) 0 cs
      refine ⟨fill_length _ _ _, fill_given _ _ _, ?_, ?_⟩
      · exact (h2.imp (fun h => ne_of_lt h))
      · intro f hf hmem
        have hle := h1 f hf
        have : f ∈ cs.filterMap id := List.mem_filterMap.mpr ⟨some f, hmem, rfl⟩
        rw [hfm] at this
        have := le_foldl_max_int rest c f this
        simp at hle
        omega

/-! ## §6 lists -/

/-- F9 does not bite: repaired, or nothing excluded, or no COMPONENT column. -/
def ok9 (v : Variant) (regs : List Reg) : Bool :=
  v.f9 || regs.all (fun r => !r.incl.eqZero) || regs.all (fun r => r.comp.isNone)

/-- F10 does not bite: repaired, or no polygon gets padded (all polygons of the list are as long as
the X column is wide). -/
def ok10 (v : Variant) (regs : List Reg) : Bool :=
  v.f10 || regs.all (fun r => !isPoly r || decide (r.xs.length = colWidth (regs.map (·.xs))))

/-- F121 does not bite: repaired, or the components are all given or all absent. -/
def ok121 (v : Variant) (regs : List Reg) : Bool :=
  v.f121 || regs.all (fun r => r.comp.isSome) || regs.all (fun r => r.comp.isNone)

theorem parseRows_zipWith {α : Type} (v : Variant) (cols : List Name) (au : AUnit) (f : α → Int → TRow)
    (g : α → Int → Reg) (l : List α) (cs : List Int)
    (h : ∀ a ∈ l, ∀ c, parseRow v cols au (f a c) = .ok (some (g a c))) :
    parseRows v cols au (List.zipWith f l cs) = .ok (List.zipWith g l cs) := by
  induction l generalizing cs with
  | nil => rfl
  | cons a t ih =>
    cases cs with
    | nil => rfl
    | cons c ct =>
      simp only [List.zipWith_cons_cons, parseRows, h a (List.mem_cons_self ..) c,
        ih ct (fun a' ha' => h a' (List.mem_cons_of_mem _ ha')), bind, Except.bind, pure, Except.pure]

theorem parseRows_map {α : Type} (v : Variant) (cols : List Name) (au : AUnit) (f : α → TRow) (g : α → Reg)
    (l : List α) (h : ∀ a ∈ l, parseRow v cols au (f a) = .ok (some (g a))) :
    parseRows v cols au (l.map f) = .ok (l.map g) := by
  induction l with
  | nil => rfl
  | cons a t ih =>
    simp only [List.map_cons, parseRows, h a (List.mem_cons_self ..),
      ih (fun a' ha' => h a' (List.mem_cons_of_mem _ ha')), bind, Except.bind, pure, Except.pure]

theorem regionData_rep (v : Variant) (regs : List Reg) (hrep : ∀ r ∈ regs, representable r = true)
    (h8 : ∀ r ∈ regs, ok8 v r = true) :
    regionData v regs = regs.map (fun r => dataOf v (asWritten r)) := by
  induction regs with
  | nil => rfl
  | cons r t ih =>
    have hr := hrep r (List.mem_cons_self ..)
    have hsky := (representable_facts r hr).1
    have hser := serializeRegion_rep v r hr (h8 r (List.mem_cons_self ..))
    have iht := ih (fun a ha => hrep a (List.mem_cons_of_mem _ ha)) (fun a ha => h8 a (List.mem_cons_of_mem _ ha))
    unfold regionData at iht ⊢
    simp only [List.filterMap_cons, dataOpt, hsky, Bool.false_eq_true, if_false, hser, iht, List.map_cons]

theorem colWidth_xs_ys (regs : List Reg) (h : ∀ r ∈ regs, r.xs.length = r.ys.length) :
    colWidth (regs.map (·.xs)) = colWidth (regs.map (·.ys)) := by
  unfold colWidth
  congr 1
  simp only [List.map_map]
  exact List.map_congr_left (fun r hr => by simpa using h r hr)

/-- a region of the list, in the table of the list. -/
theorem row_in_list (v : Variant) (hc : Bool) (regs : List Reg) (hrep : ∀ r ∈ regs, representable r = true)
    (h8 : ∀ r ∈ regs, ok8 v r = true) (h10 : ok10 v regs = true) (r : Reg) (hr : r ∈ regs) (c : Int) :
    let rd := regs.map (fun r => dataOf v (asWritten r))
    parseRow v (stdCols hc) (columnUnit rd)
      (mkRow v (colWidth (rd.map (·.x))) (colWidth (rd.map (·.y))) (colWidth (rd.map (·.r)))
        (colWidth (rd.map (·.rotang))) (columnUnit rd) (dataOf v (asWritten r)) c) =
      .ok (some (backOf v hc (columnUnit rd) r c)) := by
  intro rd
  obtain ⟨_, hk, hrepW, hlen, _⟩ := representable_facts r (hrep r hr)
  have hf := asWritten_fields r
  have hmem : dataOf v (asWritten r) ∈ rd := List.mem_map_of_mem (f := fun r => dataOf v (asWritten r)) hr
  have hxs : rd.map (·.x) = regs.map (·.xs) := by
    simp only [rd, List.map_map]
    exact List.map_congr_left (fun a _ => (asWritten_fields a).1)
  have hys : rd.map (·.y) = regs.map (·.ys) := by
    simp only [rd, List.map_map]
    exact List.map_congr_left (fun a _ => (asWritten_fields a).2.1)
  have h8' : v.f8 = true ∨ ¬ ((asWritten r).incl.eqZero = true ∧ renamed (asWritten r).kind = true) := by
    rw [hf.2.2.1]
    have := h8 r hr
    simp only [ok8, Bool.or_eq_true, Bool.not_eq_true', Bool.and_eq_false_iff] at this
    rcases this with h | h | h
    · exact Or.inl h
    · exact Or.inr (by simp [h])
    · exact Or.inr (by simp [h])
  rw [← backOf_asWritten]
  refine row_roundtrip_supported v hc (asWritten r) hrepW hk h8' _ _ _ _ ?_ ?_ ?_ ?_ ?_ _ c
  · exact le_colWidth _ _ (List.mem_map_of_mem (f := (·.x)) hmem)
  · exact le_colWidth _ _ (List.mem_map_of_mem (f := (·.y)) hmem)
  · exact le_colWidth _ _ (List.mem_map_of_mem (f := (·.r)) hmem)
  · exact le_colWidth _ [(rotOf v (asWritten r)).1]
      (List.mem_map_of_mem (f := (·.rotang)) hmem)
  · by_cases hf10 : v.f10 = true
    · exact Or.inl hf10
    · by_cases hp : (asWritten r).kind = .polygon
      · right; right
        have hpoly : isPoly r = true := by
          unfold asWritten at hp
          by_cases hreg : r.kind = .regularPolygon
          · simp [isPoly, hreg]
          · simp only [hreg, if_false] at hp; simp [isPoly, hp]
        simp only [ok10, hf10, Bool.false_or, List.all_eq_true, Bool.or_eq_true, Bool.not_eq_true',
          decide_eq_true_eq] at h10
        have h := h10 r hr
        rw [hpoly] at h
        have hx : r.xs.length = colWidth (regs.map (·.xs)) := by
          rcases h with h | h
          · cases h
          · exact h
        rw [hxs, hys, hf.1, hf.2.1]
        refine ⟨hx.symm, ?_⟩
        rw [← colWidth_xs_ys regs (fun a ha => (representable_facts a (hrep a ha)).2.2.2.1), ← hlen]
        exact hx.symm
      · exact Or.inr (Or.inl hp)

/-- the unit of the ROTANG column of the table of a list: the unit of the first written angle
(`deg` if the first region has none). -/
def colUnitOf (v : Variant) (regs : List Reg) : AUnit :=
  columnUnit (regs.map (fun r => dataOf v (asWritten r)))

/-- what the table gives back for a list -/
def backList (v : Variant) (regs : List Reg) : List Reg :=
  match defineComponents v (regs.map (·.comp)) with
  | none => regs.map (fun r => backOf v false (colUnitOf v regs) r 0)
  | some (cs, _) => List.zipWith (fun r c => backOf v true (colUnitOf v regs) r c) regs cs

/-- serialise then parse, computed: every region comes back as `backOf` says. -/
theorem parse_serialize (v : Variant) (regs : List Reg) (hrep : ∀ r ∈ regs, representable r = true)
    (h8 : ∀ r ∈ regs, ok8 v r = true) (h10 : ok10 v regs = true) :
    parseTable v (serialize v regs) = .ok (backList v regs) := by
  unfold serialize
  rw [regionData_rep v regs hrep h8]
  cases regs with
  | nil => rfl
  | cons r0 t =>
    simp only [List.map_cons, List.isEmpty_cons, Bool.false_eq_true, if_false]
    rw [← List.map_cons (f := fun r => dataOf v (asWritten r))]
    generalize hregs : r0 :: t = regs at *
    have hcomp : (regs.map (fun r => dataOf v (asWritten r))).map (·.component) = regs.map (·.comp) := by
      simp only [List.map_map]
      exact List.map_congr_left (fun a _ => (asWritten_fields a).2.2.2.1)
    unfold makeTable backList colUnitOf
    simp only [hcomp]
    cases hdc : defineComponents v (regs.map (·.comp)) with
    | none =>
      simp only [parseTable]
      rw [if_neg (by decide), List.map_map]
      exact parseRows_map v (stdCols false) _ _ _ regs (fun r hr => row_in_list v false regs hrep h8 h10 r hr 0)
    | some p =>
      obtain ⟨cs, obj⟩ := p
      simp only [parseTable]
      rw [if_neg (by decide), List.zipWith_map_left]
      exact parseRows_zipWith v (stdCols true) _ _ _ regs cs
        (fun r hr c => row_in_list v true regs hrep h8 h10 r hr c)

theorem backOf_comp (v : Variant) (hc : Bool) (u0 : AUnit) (r : Reg) (c : Int) :
    (backOf v hc u0 r c).comp = if hc then some c else none := by
  simp only [backOf, setMeta, stdCols_component]
  cases hc <;> rfl

theorem inclOut_truthy (e : Bool) : (if (!e) = true then Incl.absent else Incl.int 0).truthy = !e := by
  cases e <;> rfl

/-- unit conversion keeps the physical angle (value × scale). -/
theorem conv_phys (src dst : AUnit) (x : ℚ) (h : dst.deg ≠ 0) :
    convAngle src dst x * dst.deg = x * src.deg := by
  unfold convAngle
  split
  · rename_i he; rw [he]
  · exact div_mul_cancel₀ _ h

/-- the written `rotang` Quantity is the region's angle, physically. -/
theorem rotOf_phys (v : Variant) (r : Reg) (a : ℚ) (h : r.angle = some a) :
    (rotOf v r).1 * (rotOf v r).2.deg = a * r.aunit.deg := by
  unfold rotOf
  rw [h]
  cases v.f122
  · rfl
  · simp only [if_true]
    exact conv_phys _ _ _ (by decide)

theorem backOf_angle (v : Variant) (hc : Bool) (u0 : AUnit) (r : Reg) (c : Int) (hu : u0.deg ≠ 0) :
    (backOf v hc u0 r c).angle.map (· * (backOf v hc u0 r c).aunit.deg) =
      (asWritten r).angle.map (· * r.aunit.deg) := by
  have hang : (backOf v hc u0 r c).angle = backAngle v u0 (asWritten r) := by
    simp only [backOf, setMeta]; split <;> rfl
  have hun : (backOf v hc u0 r c).aunit = if (asWritten r).angle.isSome then u0 else AUnit.degree := by
    simp only [backOf, setMeta]; split <;> rfl
  rw [hang, hun]
  unfold backAngle
  cases h : (asWritten r).angle with
  | none => rfl
  | some a =>
    simp only [Option.map_some, Option.isSome_some, if_true, Option.some.injEq]
    rw [conv_phys _ _ _ hu, rotOf_phys v (asWritten r) a h, (asWritten_fields r).2.2.2.2.2]

/-- `backOf` is the same region — provided F9 does not bite on it. -/
theorem sameRegion_backOf (v : Variant) (hc : Bool) (u0 : AUnit) (hu : u0.deg ≠ 0) (r : Reg) (c : Int)
    (h9 : hc = true → v.f9 = false → r.incl.eqZero = false)
    (hcomp : ∀ x, r.comp = some x → hc = true ∧ c = x) : SameRegion r (backOf v hc u0 r c) := by
  have ht := eqZero_eq_not_truthy r.incl
  have hexcl : (if (!r.incl.eqZero) = true then Incl.absent else Incl.int 0).truthy = r.incl.truthy := by
    rw [inclOut_truthy, ht, Bool.not_not]
  have hangle := backOf_angle v hc u0 r c hu
  cases hc with
  | false =>
    simp only [backOf, setMeta, stdCols_component, Bool.false_eq_true, if_false] at hangle ⊢
    exact ⟨rfl, rfl, (asWritten_fields r).1, (asWritten_fields r).2.1, rfl, hangle, hexcl,
      fun x hx => absurd (hcomp x hx).1 (by simp)⟩
  | true =>
    simp only [backOf, setMeta, stdCols_component, if_true] at hangle ⊢
    refine ⟨rfl, rfl, (asWritten_fields r).1, (asWritten_fields r).2.1, rfl, hangle, ?_, ?_⟩
    · cases hf : v.f9
      · have h0 := h9 rfl hf
        rw [h0] at ht
        have : r.incl.truthy = true := by
          cases h : r.incl.truthy
          · rw [h] at ht; cases ht
          · rfl
        simp only [Bool.false_eq_true, if_false, this]
        rfl
      · simpa using hexcl
    · intro x hx; rw [(hcomp x hx).2]

theorem colUnitOf_pos (v : Variant) (regs : List Reg) (hrep : ∀ r ∈ regs, representable r = true) :
    0 < (colUnitOf v regs).deg := by
  unfold colUnitOf columnUnit
  cases regs with
  | nil => simp [AUnit.degree]
  | cons r t =>
    have hpos := (representable_facts r (hrep r (List.mem_cons_self ..))).2.2.2.2.2
    simp only [List.map_cons, dataOf, rotOf]
    cases (asWritten r).angle with
    | none => simp [AUnit.degree]
    | some a =>
      simp only
      cases v.f122
      · simp only [Bool.false_eq_true, if_false, (asWritten_fields r).2.2.2.2.2]; exact hpos
      · simp [AUnit.degree]

theorem forall₂_map_of {R : Reg → Reg → Prop} (g : Reg → Reg) (l : List Reg) (h : ∀ a ∈ l, R a (g a)) :
    List.Forall₂ R l (l.map g) := by
  induction l with
  | nil => exact List.Forall₂.nil
  | cons a t ih =>
    exact List.Forall₂.cons (h a (List.mem_cons_self ..)) (ih (fun b hb => h b (List.mem_cons_of_mem _ hb)))

theorem forall₂_get {R : Reg → Reg → Prop} (l1 l2 : List Reg) (h : List.Forall₂ R l1 l2) :
    l1.length = l2.length ∧ ∀ (i : Nat) (hi : i < l1.length) (hi' : i < l2.length), R l1[i] l2[i] := by
  induction h with
  | nil => exact ⟨rfl, fun i hi => absurd hi (Nat.not_lt_zero _)⟩
  | cons hab _ ih =>
    refine ⟨by simp [ih.1], fun i hi hi' => ?_⟩
    cases i with
    | zero => exact hab
    | succ j => exact ih.2 j (by simpa using hi) (by simpa using hi')

theorem forall₂_zipWith_of {R : Reg → Reg → Prop} {P : Option Int → Int → Prop} (g : Reg → Int → Reg)
    (regs : List Reg) (cs : List Int) (hP : List.Forall₂ P (regs.map (·.comp)) cs)
    (h : ∀ r ∈ regs, ∀ c, P r.comp c → R r (g r c)) :
    List.Forall₂ R regs (List.zipWith g regs cs) := by
  induction regs generalizing cs with
  | nil => cases hP; exact List.Forall₂.nil
  | cons r t ih =>
    cases hP with
    | cons hp ht =>
      exact List.Forall₂.cons (h r (List.mem_cons_self ..) _ hp)
        (ih _ ht (fun a ha => h a (List.mem_cons_of_mem _ ha)))

theorem map_comp_zipWith (v : Variant) (u0 : AUnit) (regs : List Reg) (cs : List Int)
    (hl : cs.length = regs.length) :
    (List.zipWith (fun r c => backOf v true u0 r c) regs cs).map (·.comp) = cs.map some := by
  induction regs generalizing cs with
  | nil => cases cs with
    | nil => rfl
    | cons _ _ => simp at hl
  | cons r t ih =>
    cases cs with
    | nil => simp at hl
    | cons c ct =>
      simp only [List.zipWith_cons_cons, List.map_cons, backOf_comp, if_true]
      rw [ih ct (by simpa using hl)]

theorem defineComponents_some_of_all_none (v : Variant) (cs : List (Option Int)) (p : List Int × Bool)
    (h : defineComponents v cs = some p) (hn : ∀ g ∈ cs, g = none) : cs = [] := by
  cases cs with
  | nil => rfl
  | cons g t =>
    have hg := hn g (List.mem_cons_self ..)
    subst hg
    have hfm : (none :: t).filterMap id = [] := by
      rw [List.filterMap_eq_nil_iff]
      intro a ha; rw [hn a ha]; rfl
    simp [defineComponents, hfm] at h

theorem sameRegions_backList (v : Variant) (regs : List Reg) (hrep : ∀ r ∈ regs, representable r = true)
    (h9 : ok9 v regs = true) : List.Forall₂ SameRegion regs (backList v regs) := by
  have hu : (colUnitOf v regs).deg ≠ 0 := ne_of_gt (colUnitOf_pos v regs hrep)
  have hspec := defineComponents_spec v (regs.map (·.comp))
  unfold backList
  cases hdc : defineComponents v (regs.map (·.comp)) with
  | none =>
    rw [hdc] at hspec
    simp only at hspec ⊢
    have hnone : ∀ r ∈ regs, r.comp = none := fun r hr => hspec _ (List.mem_map_of_mem (f := (·.comp)) hr)
    exact forall₂_map_of _ regs (fun r hr => sameRegion_backOf v false _ hu r 0 (by simp)
      (by intro x hx; rw [hnone r hr] at hx; cases hx))
  | some p =>
    obtain ⟨cs, obj⟩ := p
    rw [hdc] at hspec
    simp only at hspec ⊢
    obtain ⟨hlen, hgiven, hnodup, hfresh⟩ := hspec
    refine forall₂_zipWith_of _ regs cs hgiven (fun r hr c hp => sameRegion_backOf v true _ hu r c ?_ ?_)
    · intro _ hf9
      simp only [ok9, hf9, Bool.false_or, Bool.or_eq_true, List.all_eq_true, Bool.not_eq_true',
        Option.isNone_iff_eq_none] at h9
      rcases h9 with h | h
      · exact h r hr
      · have := defineComponents_some_of_all_none v _ _ hdc (by
          intro g hg; obtain ⟨a, ha, rfl⟩ := List.mem_map.mp hg; exact h a ha)
        rw [List.map_eq_nil_iff] at this
        rw [this] at hr; cases hr
    · intro x hx; exact ⟨rfl, hp x hx⟩

theorem components_backList (v : Variant) (regs : List Reg) :
    ComponentsOK (regs.map (·.comp)) ((backList v regs).map (·.comp)) := by
  have hspec := defineComponents_spec v (regs.map (·.comp))
  unfold backList
  cases hdc : defineComponents v (regs.map (·.comp)) with
  | none =>
    rw [hdc] at hspec
    simp only at hspec ⊢
    refine ⟨fun _ c hc => ?_, fun ⟨g, hg, hne⟩ => absurd (hspec g hg) hne⟩
    simp only [List.map_map, List.mem_map, Function.comp] at hc
    obtain ⟨r, _, rfl⟩ := hc
    simp [backOf_comp]
  | some p =>
    obtain ⟨cs, obj⟩ := p
    rw [hdc] at hspec
    simp only at hspec ⊢
    obtain ⟨hlen, hgiven, hnodup, hfresh⟩ := hspec
    have hlen' : cs.length = regs.length := by simpa using hlen
    rw [map_comp_zipWith v _ regs cs hlen']
    refine ⟨fun hn => ?_, fun _ => ⟨cs, rfl, hgiven, hnodup, hfresh⟩⟩
    have := defineComponents_some_of_all_none v _ _ hdc hn
    rw [List.map_eq_nil_iff] at this
    subst this
    cases cs with
    | nil => simp
    | cons _ _ => simp at hlen'

/-- THE ROUND TRIP, for every variant of the code: for every list of representable regions on
which none of the (unrepaired) findings bites, parsing the serialised table gives the same
regions — same classes, identical geometry, same exclude flag — with the components clause. -/
theorem roundtrip_core (v : Variant) (regs : List Reg) (hrep : ∀ r ∈ regs, representable r = true)
    (h8 : ∀ r ∈ regs, ok8 v r = true) (h9 : ok9 v regs = true) (h10 : ok10 v regs = true) :
    ∃ out, parseTable v (serialize v regs) = .ok out ∧ List.Forall₂ SameRegion regs out ∧
      ComponentsOK (regs.map (·.comp)) (out.map (·.comp)) :=
  ⟨backList v regs, parse_serialize v regs hrep h8 h10, sameRegions_backList v regs hrep h9,
   components_backList v regs⟩

/-! ### through a file -/

theorem defineComponents_obj (v : Variant) (cs : List (Option Int)) (p : List Int × Bool)
    (h : defineComponents v cs = some p)
    (h25 : v.f121 = true ∨ cs.all Option.isSome = true ∨ ∀ g ∈ cs, g = none) : p.2 = false := by
  unfold defineComponents at h
  by_cases hall : cs.all Option.isSome = true
  · simp only [hall, if_true, Option.some.injEq] at h
    rw [← h]
  · simp only [hall, Bool.false_eq_true, if_false] at h
    rcases h25 with h25 | h25 | h25
    · cases hfm : cs.filterMap id with
      | nil => rw [hfm] at h; cases h
      | cons c rest =>
        rw [hfm] at h
        simp only [Option.some.injEq] at h
        rw [← h, h25]; rfl
    · exact absurd h25 hall
    · have hfm : cs.filterMap id = [] := by
        rw [List.filterMap_eq_nil_iff]
        intro a ha; rw [h25 a ha]; rfl
      rw [hfm] at h; cases h

/-- the written table has an object-dtype COMPONENT column only if F121 bites
(unrepaired and the components are partially present). -/
theorem compObject_serialize (v : Variant) (regs : List Reg) (hrep : ∀ r ∈ regs, representable r = true)
    (h8 : ∀ r ∈ regs, ok8 v r = true) (h25 : ok121 v regs = true) :
    (serialize v regs).compObject = false := by
  unfold serialize
  rw [regionData_rep v regs hrep h8]
  cases regs with
  | nil => rfl
  | cons r0 t =>
    simp only [List.map_cons, List.isEmpty_cons, Bool.false_eq_true, if_false]
    rw [← List.map_cons (f := fun r => dataOf v (asWritten r))]
    generalize hregs : r0 :: t = regs at *
    have hcomp : (regs.map (fun r => dataOf v (asWritten r))).map (·.component) = regs.map (·.comp) := by
      simp only [List.map_map]
      exact List.map_congr_left (fun a _ => (asWritten_fields a).2.2.2.1)
    unfold makeTable
    simp only [hcomp]
    cases hdc : defineComponents v (regs.map (·.comp)) with
    | none => rfl
    | some p =>
      obtain ⟨cs, obj⟩ := p
      simp only
      refine defineComponents_obj v _ (cs, obj) hdc ?_
      simp only [ok121, Bool.or_eq_true, List.all_eq_true, Option.isNone_iff_eq_none] at h25
      rcases h25 with (h | h) | h
      · exact Or.inl h
      · right; left
        simp only [List.all_eq_true, List.mem_map, forall_exists_index, and_imp, forall_apply_eq_imp_iff₂]
        exact h
      · right; right
        intro g hg
        obtain ⟨a, ha, rfl⟩ := List.mem_map.mp hg
        exact h a ha

/-- F122 does not bite: repaired (ROTANG always in degrees), or the unit the ROTANG column takes —
the unit of the first written angle — is one FITS can store. -/
def okUnit (v : Variant) (regs : List Reg) : Bool := v.f122 || (colUnitOf v regs).fits

theorem colUnitOf_f122 (v : Variant) (regs : List Reg) (h : v.f122 = true) :
    colUnitOf v regs = AUnit.degree := by
  unfold colUnitOf columnUnit
  cases regs with
  | nil => rfl
  | cons r t =>
    simp only [List.map_cons, dataOf, rotOf, h, if_true]
    cases (asWritten r).angle <;> rfl

/-- the ROTANG column of the written table has the unit `colUnitOf`, so the table can be stored
unless F122 bites. -/
theorem unitStorable_serialize (v : Variant) (regs : List Reg) (hrep : ∀ r ∈ regs, representable r = true)
    (h8 : ∀ r ∈ regs, ok8 v r = true) (hU : okUnit v regs = true) :
    (serialize v regs).unitStorable = true := by
  have hfits : (colUnitOf v regs).fits = true := by
    simp only [okUnit, Bool.or_eq_true] at hU
    rcases hU with h | h
    · rw [colUnitOf_f122 v regs h]; rfl
    · exact h
  unfold serialize
  rw [regionData_rep v regs hrep h8]
  cases regs with
  | nil => rfl
  | cons r0 t =>
    simp only [List.map_cons, List.isEmpty_cons, Bool.false_eq_true, if_false]
    rw [← List.map_cons (f := fun r => dataOf v (asWritten r))]
    unfold colUnitOf at hfits
    unfold makeTable Table.unitStorable
    simp only
    cases defineComponents v (((r0 :: t).map (fun r => dataOf v (asWritten r))).map (·.component)) with
    | none => simp only [hfits, Bool.or_true]
    | some p => simp only [hfits, Bool.or_true]

/-- THE ROUND TRIP THROUGH A FILE, for every variant and every lawful file layer. -/
theorem file_roundtrip_core {F : Type} (fl : FileLayer F) (hfl : fl.Lawful) (v : Variant) (regs : List Reg)
    (hrep : ∀ r ∈ regs, representable r = true) (h8 : ∀ r ∈ regs, ok8 v r = true)
    (h9 : ok9 v regs = true) (h10 : ok10 v regs = true) (h121 : ok121 v regs = true)
    (hU : okUnit v regs = true) :
    ∃ out, throughFile fl v regs = .ok out ∧ List.Forall₂ SameRegion regs out ∧
      ComponentsOK (regs.map (·.comp)) (out.map (·.comp)) := by
  obtain ⟨out, hout, hs, hc⟩ := roundtrip_core v regs hrep h8 h9 h10
  obtain ⟨f, hw, hrd⟩ := hfl.2.2 _ (compObject_serialize v regs hrep h8 h121)
    (unitStorable_serialize v regs hrep h8 hU)
  refine ⟨out, ?_, hs, hc⟩
  simp only [throughFile, hw, bind, Except.bind, hrd, hout]

theorem idFileLayer_lawful : idFileLayer.Lawful := by
  refine ⟨?_, ?_, ?_⟩
  · intro t ht; simp [idFileLayer, ht]
  · intro t ht hu; simp [idFileLayer, ht, hu]
  · intro t ht hu; exact ⟨t, by simp [idFileLayer, ht, hu], rfl⟩

/-! ### skipped regions -/

theorem serializeRegion_none_iff (v : Variant) (r : Reg) :
    serializeRegion v r = none ↔ unsupportedRegions.contains (asWritten r).kind.className = true := by
  unfold serializeRegion asWritten
  simp only
  split <;> simp_all

/-- a region is skipped exactly when it is a sky region or its class has no FITS counterpart;
it then contributes no row … -/
theorem skipped_iff (v : Variant) (r : Reg) : skipped r = true ↔ dataOpt v r = none := by
  unfold skipped dataOpt
  by_cases hs : r.sky = true
  · simp [hs]
  · simp only [hs, Bool.false_eq_true, if_false, Bool.or_eq_true, false_or]
    exact (serializeRegion_none_iff v r).symm

/-- … and exactly one warning; the others contribute a row and no warning. -/
theorem warn_iff (v : Variant) (r : Reg) : (warnOpt v r).isSome = (dataOpt v r).isNone := by
  unfold warnOpt dataOpt
  by_cases hs : r.sky = true
  · simp [hs]
  · simp only [hs, Bool.false_eq_true, if_false]
    cases serializeRegion v r <;> rfl

theorem regionData_filter (v : Variant) (regs : List Reg) :
    regionData v regs = regionData v (regs.filter (fun r => !skipped r)) := by
  induction regs with
  | nil => rfl
  | cons r t ih =>
    unfold regionData at ih ⊢
    by_cases hs : skipped r = true
    · have := (skipped_iff v r).mp hs
      simp only [List.filterMap_cons, this, List.filter_cons, hs, Bool.not_true, Bool.false_eq_true, if_false, ih]
    · have hs' : skipped r = false := by simpa using hs
      simp only [List.filter_cons, hs', Bool.not_false, if_true, List.filterMap_cons, ih]

/-- SKIP-INDEPENDENCE, for ALL lists (no assumption on the other regions): sky regions and shapes
without a FITS counterpart leave no trace in the table — it is the table of the other regions. -/
theorem skip_independent (v : Variant) (regs : List Reg) :
    serialize v regs = serialize v (regs.filter (fun r => !skipped r)) := by
  unfold serialize
  rw [← regionData_filter]

/-- … so a skipped region can be inserted anywhere without changing any row. -/
theorem skip_insert (v : Variant) (l1 l2 : List Reg) (s : Reg) (hs : skipped s = true) :
    serialize v (l1 ++ s :: l2) = serialize v (l1 ++ l2) := by
  rw [skip_independent v (l1 ++ s :: l2), skip_independent v (l1 ++ l2)]
  simp [List.filter_append, hs]

/-- one warning per skipped region, none for the others; one row per region that is not skipped. -/
theorem warnings_and_rows (v : Variant) (regs : List Reg) :
    (warnings v regs).length = regs.countP skipped ∧
    (regionData v regs).length = regs.countP (fun r => !skipped r) := by
  induction regs with
  | nil => exact ⟨rfl, rfl⟩
  | cons r t ih =>
    unfold warnings regionData at ih ⊢
    have hw := warn_iff v r
    by_cases hs : skipped r = true
    · have h1 := (skipped_iff v r).mp hs
      rw [h1] at hw
      cases hwv : warnOpt v r with
      | none => rw [hwv] at hw; cases hw
      | some w =>
        simp only [List.filterMap_cons, hwv, h1, List.length_cons, List.countP_cons, hs, if_true,
          Bool.not_true, Bool.false_eq_true, if_false, Nat.add_zero, ih.1, ih.2, and_self]
    · have hs' : skipped r = false := by simpa using hs
      cases hv : dataOpt v r with
      | none => exact absurd ((skipped_iff v r).mpr hv) hs
      | some d =>
        rw [hv] at hw
        cases hwv : warnOpt v r with
        | some w => rw [hwv] at hw; cases hw
        | none =>
          simp only [List.filterMap_cons, hwv, hv, List.length_cons, List.countP_cons, hs', Bool.not_false,
            if_true, Bool.false_eq_true, if_false, Nat.add_zero, ih.1, ih.2, and_self]

/-! ### fixed point -/

theorem bc_len (l : List ℚ) (n : Nat) :
    (if l.length = n then l else List.replicate n (l.headD 0)).length = n := by
  split <;> simp [*]

/-- whatever the constructors accept is a representable region object in canonical form. -/
theorem construct_canon (au : AUnit) (hau : 0 < au.deg) (kind : Kind) (xs ys rest : List ℚ) (region : Reg)
    (h : construct au kind xs ys rest = .ok region) :
    region.sky = false ∧ region.kind ≠ .regularPolygon ∧ region.incl = .absent ∧ region.comp = none ∧
    (region.xs ≠ [] → representable region = true) := by
  have h1 : (0 : ℚ) < AUnit.degree.deg := by decide
  unfold construct at h
  split at h
  all_goals (try split at h)
  all_goals (first | (cases h; done) | skip)
  all_goals (simp only [Except.ok.injEq] at h; subst h)
  all_goals (refine ⟨rfl, by simp, rfl, rfl, ?_⟩)
  all_goals (intro hne)
  all_goals (first
    | (simp_all [representable, not_or, not_le]; done)
    | (simp only [representable, Bool.not_false, Bool.true_and, Bool.and_eq_true, decide_eq_true_eq,
         Bool.not_eq_true', List.isEmpty_eq_false_iff]
       exact ⟨h1, by rw [bc_len, bc_len], hne⟩))

theorem parseRow_some' (v : Variant) (cols : List Name) (au : AUnit) (row : TRow) (r : Reg)
    (h : parseRow v cols au row = .ok (some r)) :
    ∃ incl1 shape kind refs xs ys rest region, shapeMap.lookup shape = some (kind, refs) ∧
      getShapeParams v shape row refs = .ok (xs, ys, rest) ∧
      construct au kind xs ys rest = .ok region ∧
      r = setMeta v cols incl1 row.component region := by
  unfold parseRow at h
  simp only [bind, Except.bind] at h
  cases hgs : getShape cols row with
  | error e => rw [hgs] at h; cases h
  | ok p =>
    obtain ⟨shape?, incl1⟩ := p
    rw [hgs] at h
    simp only at h
    cases shape? with
    | none => simp [pure, Except.pure] at h
    | some shape =>
      simp only at h
      cases hl : shapeMap.lookup shape with
      | none => rw [hl] at h; cases h
      | some kr =>
        obtain ⟨kind, refs⟩ := kr
        rw [hl] at h
        simp only at h
        split at h
        · simp [pure, Except.pure] at h
        · cases hg : getShapeParams v shape row refs with
          | error e => rw [hg] at h; cases h
          | ok q =>
            obtain ⟨xs, ys, rest⟩ := q
            rw [hg] at h
            simp only at h
            cases hc : construct au kind xs ys rest with
            | error e => rw [hc] at h; cases h
            | ok region =>
              rw [hc] at h
              simp only [pure, Except.pure, Except.ok.injEq, Option.some.injEq] at h
              exact ⟨incl1, shape, kind, refs, xs, ys, rest, region, hl, hg, hc, h.symm⟩

theorem parseRow_some (v : Variant) (cols : List Name) (au : AUnit) (row : TRow) (r : Reg)
    (h : parseRow v cols au row = .ok (some r)) :
    ∃ incl1 kind xs ys rest region, construct au kind xs ys rest = .ok region ∧
      r = setMeta v cols incl1 row.component region := by
  obtain ⟨incl1, _, kind, _, xs, ys, rest, region, _, _, hc, hr⟩ := parseRow_some' v cols au row r h
  exact ⟨incl1, kind, xs, ys, rest, region, hc, hr⟩

theorem parseRows_mem (v : Variant) (cols : List Name) (au : AUnit) (rows : List TRow) (regs : List Reg)
    (h : parseRows v cols au rows = .ok regs) (r : Reg) (hr : r ∈ regs) :
    ∃ row ∈ rows, parseRow v cols au row = .ok (some r) := by
  induction rows generalizing regs with
  | nil => simp only [parseRows, Except.ok.injEq] at h; rw [← h] at hr; cases hr
  | cons row t ih =>
    simp only [parseRows, bind, Except.bind] at h
    cases hp : parseRow v cols au row with
    | error e => rw [hp] at h; cases h
    | ok o =>
      rw [hp] at h
      simp only at h
      cases ht : parseRows v cols au t with
      | error e => rw [ht] at h; cases h
      | ok rs =>
        rw [ht] at h
        simp only [pure, Except.pure, Except.ok.injEq] at h
        cases o with
        | none =>
          simp only at h
          rw [← h] at hr
          obtain ⟨row', hm, hq⟩ := ih rs ht hr
          exact ⟨row', List.mem_cons_of_mem _ hm, hq⟩
        | some x =>
          simp only at h
          rw [← h] at hr
          rcases List.mem_cons.mp hr with rfl | hr
          · exact ⟨row, List.mem_cons_self .., hp⟩
          · obtain ⟨row', hm, hq⟩ := ih rs ht hr
            exact ⟨row', List.mem_cons_of_mem _ hm, hq⟩

/-- what the reader returns is in the reader's normal form: a representable region (if it has a vertex
at all), with a component exactly when the table has a COMPONENT column, and (unrepaired F9) never
excluded when it has one. -/
theorem parsed_canon (v : Variant) (hc : Bool) (cols : List Name) (hcols : cols.contains cCOMPONENT = hc)
    (au : AUnit) (hau : 0 < au.deg) (row : TRow) (r : Reg) (h : parseRow v cols au row = .ok (some r)) :
    (r.xs ≠ [] → representable r = true) ∧ r.comp.isSome = hc ∧
    (hc = true → v.f9 = false → r.incl.eqZero = false) := by
  obtain ⟨incl1, kind, xs, ys, rest, region, hcst, rfl⟩ := parseRow_some v cols au row r h
  obtain ⟨hsky, hkind, hincl, hcomp, hrep⟩ := construct_canon au hau kind xs ys rest region hcst
  obtain ⟨k, s, rx, ry, rp, ra, ri, rc, ru⟩ := region
  simp only at hsky hkind hincl hcomp hrep
  subst hsky hincl hcomp
  cases hc with
  | false =>
    simp only [setMeta, hcols, Bool.false_eq_true, if_false]
    refine ⟨fun hne => ?_, rfl, fun h => by cases h⟩
    have := hrep hne
    simpa [representable] using this
  | true =>
    simp only [setMeta, hcols, if_true]
    refine ⟨fun hne => ?_, rfl, fun _ hf => ?_⟩
    · have := hrep hne
      simpa [representable] using this
    · simp [hf, Incl.eqZero]

/-- the reader's output round-trips (parse ∘ serialise ∘ parse ≡ parse: same classes, identical
coordinates and sizes, the same angle as a physical quantity, same exclude flag, same components),
for every variant, whenever F8 and F10 do not bite on the parsed regions. -/
theorem fixed_point_core (v : Variant) (t : Table) (regs : List Reg)
    (h : parseTable v t = .ok regs) (hau : 0 < t.rotangUnit.deg) (hne : ∀ r ∈ regs, r.xs ≠ [])
    (h8 : ∀ r ∈ regs, ok8 v r = true) (h10 : ok10 v regs = true) :
    ∃ out, parseTable v (serialize v regs) = .ok out ∧ List.Forall₂ SameRegion regs out ∧
      ComponentsOK (regs.map (·.comp)) (out.map (·.comp)) := by
  unfold parseTable at h
  split at h
  · cases h
  · have hcan : ∀ r ∈ regs, (r.xs ≠ [] → representable r = true) ∧
        r.comp.isSome = t.cols.contains cCOMPONENT ∧
        (t.cols.contains cCOMPONENT = true → v.f9 = false → r.incl.eqZero = false) := by
      intro r hr
      obtain ⟨row, _, hrow⟩ := parseRows_mem v t.cols t.rotangUnit t.rows regs h r hr
      exact parsed_canon v _ t.cols rfl t.rotangUnit hau row r hrow
    have hrep : ∀ r ∈ regs, representable r = true := fun r hr => (hcan r hr).1 (hne r hr)
    refine roundtrip_core v regs hrep h8 ?_ h10
    simp only [ok9, Bool.or_eq_true, List.all_eq_true, Bool.not_eq_true', Option.isNone_iff_eq_none]
    cases hf : v.f9
    · cases hc : t.cols.contains cCOMPONENT
      · right
        intro r hr
        have := (hcan r hr).2.1
        rw [hc] at this
        cases hrc : r.comp with
        | none => rfl
        | some c => rw [hrc] at this; cases this
      · left; right
        intro r hr
        exact (hcan r hr).2.2 hc hf
    · left; left; rfl

/-! ### the other accepted notations on the read side -/

/-- `rectangle` (corner form) and `box` (centre form) rows describe the same region when the box
row carries the midpoint and the differences; likewise `rotrectangle` and `rotbox`.  Any padding,
any other cell content, with or without COMPONENT, excluded or not. -/
theorem corner_form_agrees (v : Variant) (hc : Bool) (au : AUnit) (rowC rowB : TRow) (incl1 : Bool) (x0 x1 y0 y1 t : ℚ)
    (hw : x0 < x1) (hh : y0 < y1) (hcomp : rowC.component = rowB.component)
    (hx0 : rowC.x.atleast1d[0]? = some (some x0)) (hx1 : rowC.x.atleast1d[1]? = some (some x1))
    (hy0 : rowC.y.atleast1d[0]? = some (some y0)) (hy1 : rowC.y.atleast1d[1]? = some (some y1))
    (hbx : rowB.x.atleast1d[0]? = some (some (1 / 2 * (x0 + x1))))
    (hby : rowB.y.atleast1d[0]? = some (some (1 / 2 * (y0 + y1))))
    (hbr0 : rowB.r.atleast1d[0]? = some (some (x1 - x0)))
    (hbr1 : rowB.r.atleast1d[1]? = some (some (y1 - y0)))
    (htC : rowC.rotang.atleast1d[0]? = some (some t)) (htB : rowB.rotang.atleast1d[0]? = some (some t)) :
    (readShape rowC.shape = .ok (some "rectangle".toList, incl1) →
     readShape rowB.shape = .ok (some "box".toList, incl1) →
       parseRow v (stdCols hc) au rowC = parseRow v (stdCols hc) au rowB) ∧
    (readShape rowC.shape = .ok (some "rotrectangle".toList, incl1) →
     readShape rowB.shape = .ok (some "rotbox".toList, incl1) →
       parseRow v (stdCols hc) au rowC = parseRow v (stdCols hc) au rowB) := by
  constructor
  · intro hC hB
    rw [read_rectangle v hc au rowC incl1 x0 x1 y0 y1 hC hx0 hx1 hy0 hy1 hw hh,
      read_box v hc au rowB incl1 _ _ _ _ hB hbx hby hbr0 hbr1 (by linarith) (by linarith), hcomp]
  · intro hC hB
    rw [read_rotrectangle v hc au rowC incl1 x0 x1 y0 y1 t hC hx0 hx1 hy0 hy1 htC hw hh,
      read_rotbox v hc au rowB incl1 _ _ _ _ t hB hbx hby hbr0 hbr1 htB (by linarith) (by linarith), hcomp]

/-- non-vacuity of the reader theorems: a padded, upper-case, excluded `ROTRECTANGLE` row of a table with a
COMPONENT column meets the hypotheses of `read_rotrectangle`. -/
example :
    let row : TRow := ⟨"!ROTRECTANGLE".toList, .vec [some 1, some 4, some 0], .vec [some 2, some 8, some 0],
      .vec [some 0, some 0], .scalar (some 30), 7⟩
    readShape row.shape = .ok (some "rotrectangle".toList, false) ∧
    row.x.atleast1d[1]? = some (some 4) ∧ (1 : ℚ) < 4 ∧
    parseRow Variant.fixed (stdCols true) AUnit.degree row =
      .ok (some ⟨.rectangle, false, [5 / 2], [5], [3, 6], some 30, .int 0, some 7, AUnit.degree⟩) := by
  decide +kernel

/-! ## §7 the property at full strength, the findings, the partial theorems -/

/-- C12, in memory, for the code variant `v`: EVERY list of representable regions round-trips. -/
def RoundTrip (v : Variant) : Prop :=
  ∀ regs : List Reg, (∀ r ∈ regs, representable r = true) →
    ∃ out, parseTable v (serialize v regs) = .ok out ∧ List.Forall₂ SameRegion regs out ∧
      ComponentsOK (regs.map (·.comp)) (out.map (·.comp))

/-- C12, through a file, for every lawful file layer. -/
def FileRoundTrip (v : Variant) : Prop :=
  ∀ (F : Type) (fl : FileLayer F), fl.Lawful → ∀ regs : List Reg, (∀ r ∈ regs, representable r = true) →
    ∃ out, throughFile fl v regs = .ok out ∧ List.Forall₂ SameRegion regs out ∧
      ComponentsOK (regs.map (·.comp)) (out.map (·.comp))

/-- a table as astropy holds it, seen through what was read from it: no zero-vertex polygon, and
(only relevant while F10 is open) the polygons are as long as the X column is wide — true of
every table whose columns have one width ≥ 1 for all rows. -/
def ReadFromRealTable (v : Variant) (regs : List Reg) : Prop :=
  (∀ r ∈ regs, r.xs ≠ []) ∧ ok10 v regs = true

/-- C12, "parse → serialise → parse is a fixed point": what was parsed comes back as the same regions
(`SameRegion`: class, coordinates, sizes, the angle as a physical quantity, exclude flag) with the same
components.  (Literal equality of the records is too much to ask: a `box` row has the default angle
`0 deg` while the ROTANG column may be in radians, and `Quantity` conversion changes unit and value,
not the angle.) -/
def FixedPoint (v : Variant) : Prop :=
  ∀ (t : Table) (regs : List Reg), parseTable v t = .ok regs → 0 < t.rotangUnit.deg →
    ReadFromRealTable v regs →
    ∃ out, parseTable v (serialize v regs) = .ok out ∧ List.Forall₂ SameRegion regs out ∧
      ComponentsOK (regs.map (·.comp)) (out.map (·.comp))

/-- the F8 witness: one excluded ellipse. -/
def wF8 : List Reg := [⟨.ellipse, false, [1], [2], [4, 2], some 30, .int 0, none, AUnit.degree⟩]
/-- the F9 witness: one excluded circle that carries a component. -/
def wF9 : List Reg := [⟨.circle, false, [1], [2], [3], none, .bool false, some 5, AUnit.degree⟩]
/-- the F10 witness: a triangle next to a quadrilateral. -/
def wF10 : List Reg :=
  [⟨.polygon, false, [1, 2, 3], [4, 5, 7], [], none, .absent, none, AUnit.degree⟩,
   ⟨.polygon, false, [1, 2, 3, 4], [4, 5, 7, 1], [], none, .absent, none, AUnit.degree⟩]
/-- the F121 witness: two points, one with a component. -/
def wF121 : List Reg :=
  [⟨.point, false, [1], [2], [], none, .absent, some 3, AUnit.degree⟩, ⟨.point, false, [1], [2], [], none, .absent, none, AUnit.degree⟩]
/-- `hourangle` as astropy has it: 15 degrees, not storable as a FITS TUNIT. -/
def hourangle : AUnit := ⟨"hourangle".toList, 15, false⟩
/-- the F122 witness: one ellipse whose angle is given in hour angle. -/
def wF122 : List Reg := [⟨.ellipse, false, [1], [2], [4, 2], some 2, .absent, none, hourangle⟩]
/-- the F8 fixed-point witness: a table with one `!ellipse` row. -/
def tF8 : Table :=
  ⟨stdCols false, [⟨"!ellipse".toList, .scalar (some 1), .scalar (some 2), .vec [some 2, some 1],
     .scalar (some 30), 0⟩], false, AUnit.degree⟩

/-- F8: while `'!'` is prefixed before the name map / the `'ellipse'` test, an excluded ellipse comes
back with doubled axes — whatever the state of the other repairs. -/
theorem not_roundtrip_of_F8 (f9 f10 f121 f122 : Bool) : ¬ RoundTrip ⟨false, f9, f10, f121, f122⟩ := by
  intro h
  obtain ⟨out, hp, hs, -⟩ := h wF8 (by decide +kernel)
  have e : parseTable ⟨false, f9, f10, f121, f122⟩ (serialize ⟨false, f9, f10, f121, f122⟩ wF8) =
      .ok [⟨.ellipse, false, [1], [2], [8, 4], some 30, .int 0, none, AUnit.degree⟩] := by
    cases f9 <;> cases f10 <;> cases f121 <;> cases f122 <;> decide +kernel
  rw [e] at hp
  cases hp
  cases hs with
  | cons h1 _ => exact absurd h1.params (by decide +kernel)

/-- F9: while the reader replaces `{'include': 0}` by `{'component': n}`, an excluded region that
travels with a COMPONENT column comes back included. -/
theorem not_roundtrip_of_F9 (f8 f10 f121 f122 : Bool) : ¬ RoundTrip ⟨f8, false, f10, f121, f122⟩ := by
  intro h
  obtain ⟨out, hp, hs, -⟩ := h wF9 (by decide +kernel)
  have e : parseTable ⟨f8, false, f10, f121, f122⟩ (serialize ⟨f8, false, f10, f121, f122⟩ wF9) =
      .ok [⟨.circle, false, [1], [2], [3], none, .absent, some 5, AUnit.degree⟩] := by
    cases f8 <;> cases f10 <;> cases f121 <;> cases f122 <;> decide +kernel
  rw [e] at hp
  cases hp
  cases hs with
  | cons h1 _ => exact absurd h1.excl (by decide)

/-- F10: while polygons are padded with zeros, a polygon shorter than the X column comes back
with extra `(0, 0)` vertices. -/
theorem not_roundtrip_of_F10 (f8 f9 f121 f122 : Bool) : ¬ RoundTrip ⟨f8, f9, false, f121, f122⟩ := by
  intro h
  obtain ⟨out, hp, hs, -⟩ := h wF10 (by decide +kernel)
  have e : parseTable ⟨f8, f9, false, f121, f122⟩ (serialize ⟨f8, f9, false, f121, f122⟩ wF10) =
      .ok [⟨.polygon, false, [1, 2, 3, 0], [4, 5, 7, 0], [], none, .absent, none, AUnit.degree⟩,
           ⟨.polygon, false, [1, 2, 3, 4], [4, 5, 7, 1], [], none, .absent, none, AUnit.degree⟩] := by
    cases f8 <;> cases f9 <;> cases f121 <;> cases f122 <;> decide +kernel
  rw [e] at hp
  cases hp
  cases hs with
  | cons h1 _ => exact absurd h1.xs (by decide +kernel)

/-- F121: while the filled COMPONENT array keeps dtype `object`, a list whose components are
partially present cannot be written to a file at all. -/
theorem not_fileRoundtrip_of_F121 (f8 f9 f10 f122 : Bool) : ¬ FileRoundTrip ⟨f8, f9, f10, false, f122⟩ := by
  intro h
  obtain ⟨out, hp, -, -⟩ := h Table idFileLayer idFileLayer_lawful wF121 (by decide +kernel)
  have e : throughFile idFileLayer ⟨f8, f9, f10, false, f122⟩ wF121 = .error .typeError := by
    cases f8 <;> cases f9 <;> cases f10 <;> cases f122 <;> decide +kernel
  rw [e] at hp
  cases hp

/-- F8 also breaks the fixed point: the reader's own output `!ellipse` is re-written un-halved. -/
theorem not_fixedPoint_of_F8 (f9 f10 f121 f122 : Bool) : ¬ FixedPoint ⟨false, f9, f10, f121, f122⟩ := by
  intro h
  have e1 : parseTable ⟨false, f9, f10, f121, f122⟩ tF8 =
      .ok [⟨.ellipse, false, [1], [2], [4, 2], some 30, .int 0, none, AUnit.degree⟩] := by
    cases f9 <;> cases f10 <;> cases f121 <;> cases f122 <;> decide +kernel
  obtain ⟨out, hp, hs, -⟩ := h tF8 _ e1 (by decide +kernel)
    ⟨by decide +kernel, by cases f9 <;> cases f10 <;> cases f121 <;> cases f122 <;> decide +kernel⟩
  have e2 : parseTable ⟨false, f9, f10, f121, f122⟩ (serialize ⟨false, f9, f10, f121, f122⟩
      [⟨.ellipse, false, [1], [2], [4, 2], some 30, .int 0, none, AUnit.degree⟩]) =
      .ok [⟨.ellipse, false, [1], [2], [8, 4], some 30, .int 0, none, AUnit.degree⟩] := by
    cases f9 <;> cases f10 <;> cases f121 <;> cases f122 <;> decide +kernel
  rw [e2] at hp
  cases hp
  cases hs with
  | cons h1 _ => exact absurd h1.params (by decide +kernel)

/-- F122: while ROTANG takes the unit of the first angle, a list that starts with an angle in hour angle
cannot be written to a file (`UnitScaleError`). -/
theorem not_fileRoundtrip_of_F122 (f8 f9 f10 f121 : Bool) : ¬ FileRoundTrip ⟨f8, f9, f10, f121, false⟩ := by
  intro h
  obtain ⟨out, hp, -, -⟩ := h Table idFileLayer idFileLayer_lawful wF122 (by decide +kernel)
  have e : throughFile idFileLayer ⟨f8, f9, f10, f121, false⟩ wF122 = .error .unitScaleError := by
    cases f8 <;> cases f9 <;> cases f10 <;> cases f121 <;> decide +kernel
  rw [e] at hp
  cases hp

/-- THE CHARACTERISATION: the in-memory round trip holds for all lists exactly when the three
repairs F8, F9, F10 are in. -/
theorem roundTrip_iff (v : Variant) : RoundTrip v ↔ (v.f8 = true ∧ v.f9 = true ∧ v.f10 = true) := by
  obtain ⟨f8, f9, f10, f121, f122⟩ := v
  constructor
  · intro h
    cases f8
    · exact absurd h (not_roundtrip_of_F8 _ _ _ _)
    · cases f9
      · exact absurd h (not_roundtrip_of_F9 _ _ _ _)
      · cases f10
        · exact absurd h (not_roundtrip_of_F10 _ _ _ _)
        · exact ⟨rfl, rfl, rfl⟩
  · rintro ⟨h8, h9, h10⟩ regs hrep
    simp only at h8 h9 h10
    exact roundtrip_core _ regs hrep (fun r _ => by simp [ok8, h8]) (by simp [ok9, h9]) (by simp [ok10, h10])

/-- … through a file: exactly when F121 and F122 are in as well. -/
theorem fileRoundTrip_iff (v : Variant) :
    FileRoundTrip v ↔ (v.f8 = true ∧ v.f9 = true ∧ v.f10 = true ∧ v.f121 = true ∧ v.f122 = true) := by
  constructor
  · intro h
    have hm : RoundTrip v := by
      intro regs hrep
      obtain ⟨out, hp, hs, hc⟩ := h Table idFileLayer idFileLayer_lawful regs hrep
      refine ⟨out, ?_, hs, hc⟩
      simp only [throughFile, idFileLayer, bind, Except.bind] at hp
      split at hp
      · cases hp
      · rename_i f hf
        split at hf
        · cases hf
        · split at hf
          · cases hf
          · cases hf; exact hp
    obtain ⟨h8, h9, h10⟩ := (roundTrip_iff v).mp hm
    obtain ⟨f8, f9, f10, f121, f122⟩ := v
    cases f121
    · exact absurd h (not_fileRoundtrip_of_F121 _ _ _ _)
    · cases f122
      · exact absurd h (not_fileRoundtrip_of_F122 _ _ _ _)
      · exact ⟨h8, h9, h10, rfl, rfl⟩
  · rintro ⟨h8, h9, h10, h121, h122⟩ F fl hfl regs hrep
    exact file_roundtrip_core fl hfl v regs hrep (fun r _ => by simp [ok8, h8]) (by simp [ok9, h9])
      (by simp [ok10, h10]) (by simp [ok121, h121]) (by simp [okUnit, h122])

/-- … and the fixed point: exactly when F8 is in. -/
theorem fixedPoint_iff (v : Variant) : FixedPoint v ↔ v.f8 = true := by
  constructor
  · intro h
    obtain ⟨f8, f9, f10, f121, f122⟩ := v
    cases f8
    · exact absurd h (not_fixedPoint_of_F8 _ _ _ _)
    · rfl
  · intro h8 t regs hp hau hwf
    exact fixed_point_core v t regs hp hau hwf.1 (fun r _ => by simp [ok8, h8]) hwf.2

/-! ### real tables are rectangular -/

/-- an astropy table column has one width for all rows (≥ 1). -/
def Rectangular (t : Table) : Prop :=
  ∃ wx wy : Nat, 1 ≤ wx ∧ 1 ≤ wy ∧
    ∀ row ∈ t.rows, row.x.atleast1d.length = wx ∧ row.y.atleast1d.length = wy

theorem nums_length (l : List Num) (q : List ℚ) (h : nums l = .ok q) : q.length = l.length := by
  induction l generalizing q with
  | nil => simp only [nums, Except.ok.injEq] at h; subst h; rfl
  | cons a t ih =>
    cases a with
    | none => simp [nums] at h
    | some x =>
      simp only [nums, bind, Except.bind] at h
      cases ht : nums t with
      | error e => rw [ht] at h; cases h
      | ok qs =>
        rw [ht] at h
        simp only [pure, Except.pure, Except.ok.injEq] at h
        rw [← h, List.length_cons, List.length_cons, ih qs ht]

theorem colWidth_le (arrays : List (List ℚ)) (N : Nat) (h : ∀ a ∈ arrays, a.length ≤ N) :
    colWidth arrays ≤ N := by
  unfold colWidth
  have : ∀ (l : List Nat) (a : Nat), a ≤ N → (∀ x ∈ l, x ≤ N) → l.foldl max a ≤ N := by
    intro l
    induction l with
    | nil => intro a ha _; exact ha
    | cons b t ih =>
      intro a ha hl
      exact ih _ (Nat.max_le.mpr ⟨ha, hl b (List.mem_cons_self ..)⟩)
        (fun x hx => hl x (List.mem_cons_of_mem _ hx))
  refine this _ 0 (Nat.zero_le _) ?_
  intro x hx
  obtain ⟨a, ha, rfl⟩ := List.mem_map.mp hx
  exact h a ha

/-- the only entry of `shape_map` that builds a polygon is `'polygon': ('X', 'Y')` … -/
theorem polygon_entry : ∀ e ∈ shapeMap, e.2.1 = Kind.polygon →
    e.1 = "polygon".toList ∧ e.2.2 = [⟨.X, none⟩, ⟨.Y, none⟩] := by decide

theorem lookup_mem {α β : Type} [BEq α] [LawfulBEq α] (l : List (α × β)) (k : α) (b : β)
    (h : l.lookup k = some b) : (k, b) ∈ l := by
  induction l with
  | nil => cases h
  | cons e t ih =>
    obtain ⟨k', b'⟩ := e
    simp only [List.lookup] at h
    split at h
    · rename_i heq
      simp only [Option.some.injEq] at h
      have : k = k' := by simpa using heq
      subst this; subst h
      exact List.mem_cons_self ..
    · exact List.mem_cons_of_mem _ (ih h)

/-- every constructor except the polygon's takes a scalar centre. -/
theorem construct_xs_len (au : AUnit) (kind : Kind) (xs ys rest : List ℚ) (region : Reg)
    (h : construct au kind xs ys rest = .ok region) :
    (kind ≠ .polygon → region.xs.length = 1 ∧ region.kind ≠ .polygon) ∧
    (kind = .polygon → region.kind = .polygon ∧ region.xs.length = max xs.length ys.length) := by
  unfold construct at h
  split at h
  all_goals (try split at h)
  all_goals (first | (cases h; done) | skip)
  all_goals (simp only [Except.ok.injEq] at h; subst h)
  all_goals (first
    | (exact ⟨fun _ => ⟨rfl, by simp⟩, fun hk => by cases hk⟩)
    | (exact ⟨fun hk => absurd rfl hk, fun _ => ⟨rfl, bc_len _ _⟩⟩))

/-- what is read from a rectangular table by the current (zero-padding) reader satisfies
`ReadFromRealTable`: the hypothesis of the fixed-point theorems is met by every real table. -/
theorem readFromRealTable_of_rectangular (v : Variant) (hf10 : v.f10 = false) (t : Table)
    (hrect : Rectangular t) (hau : 0 < t.rotangUnit.deg) (regs : List Reg) (hp : parseTable v t = .ok regs) :
    ReadFromRealTable v regs := by
  obtain ⟨wx, wy, hwx, hwy, hrows⟩ := hrect
  unfold parseTable at hp
  split at hp
  · cases hp
  · have key : ∀ r ∈ regs, (r.kind ≠ .polygon → r.xs.length = 1) ∧
        (r.kind = .polygon → r.xs.length = max wx wy) ∧ r.kind ≠ .regularPolygon := by
      intro r hr
      obtain ⟨row, hrow, hpr⟩ := parseRows_mem v t.cols t.rotangUnit t.rows regs hp r hr
      obtain ⟨incl1, shape, kind, refs, xs, ys, rest, region, hl, hg, hc, rfl⟩ :=
        parseRow_some' v t.cols t.rotangUnit row r hpr
      have hx := construct_xs_len _ kind xs ys rest region hc
      have hcan := construct_canon _ hau kind xs ys rest region hc
      have hk : (setMeta v t.cols incl1 row.component region).kind = region.kind := by
        simp only [setMeta]; split <;> rfl
      have hxs : (setMeta v t.cols incl1 row.component region).xs = region.xs := by
        simp only [setMeta]; split <;> rfl
      rw [hk, hxs]
      refine ⟨fun hne => ?_, fun hpoly => ?_, hcan.2.1⟩
      · by_cases hkp : kind = .polygon
        · exact absurd (hx.2 hkp).1 hne
        · exact (hx.1 hkp).1
      · by_cases hkp : kind = .polygon
        · subst hkp
          obtain ⟨hs, hrefs⟩ := polygon_entry _ (lookup_mem _ _ _ hl) rfl
          simp only at hs hrefs
          subst hs; subst hrefs
          have hri : isInfix "rectangle".toList "polygon".toList = false := by decide
          simp only [getShapeParams, List.mapM_cons, List.mapM_nil, getColumnValues, hf10, TRow.cell, bind,
            Except.bind, pure, Except.pure, hri, Bool.false_eq_true, if_false] at hg
          cases hnx : nums row.x.atleast1d with
          | error e => rw [hnx] at hg; cases hg
          | ok qx =>
            rw [hnx] at hg
            simp only at hg
            cases hny : nums row.y.atleast1d with
            | error e => rw [hny] at hg; cases hg
            | ok qy =>
              rw [hny] at hg
              simp only [List.flatten_nil, nums, if_neg (show ¬ ("polygon".toList = "ellipse".toList) by decide),
                Except.ok.injEq, Prod.mk.injEq] at hg
              obtain ⟨rfl, rfl, _⟩ := hg
              rw [(hx.2 rfl).2, nums_length _ _ hnx, nums_length _ _ hny, (hrows row hrow).1, (hrows row hrow).2]
        · exact absurd hpoly (hx.1 hkp).2
    have hN : 1 ≤ max wx wy := le_trans hwx (Nat.le_max_left _ _)
    refine ⟨fun r hr => ?_, ?_⟩
    · intro hnil
      obtain ⟨h1, h2, _⟩ := key r hr
      by_cases hkp : r.kind = .polygon
      · have := h2 hkp; rw [hnil] at this; simp at this; omega
      · have := h1 hkp; rw [hnil] at this; simp at this
    · simp only [ok10, hf10, Bool.false_or, List.all_eq_true, Bool.or_eq_true, Bool.not_eq_true',
        decide_eq_true_eq]
      intro r hr
      obtain ⟨h1, h2, h3⟩ := key r hr
      by_cases hkp : r.kind = .polygon
      · right
        have hub : colWidth (regs.map (·.xs)) ≤ max wx wy := by
          refine colWidth_le _ _ (fun a ha => ?_)
          obtain ⟨r', hr', rfl⟩ := List.mem_map.mp ha
          obtain ⟨h1', h2', _⟩ := key r' hr'
          by_cases hkp' : r'.kind = .polygon
          · rw [h2' hkp']
          · rw [h1' hkp']; exact hN
        have hlb : r.xs.length ≤ colWidth (regs.map (·.xs)) :=
          le_colWidth _ _ (List.mem_map_of_mem (f := (·.xs)) hr)
        rw [h2 hkp] at hlb ⊢
        omega
      · left
        simp [isPoly, hkp, h3]

/-- the fixed point for real (rectangular) tables read by the zero-padding reader: no side
condition besides F8. -/
theorem fixed_point_rectangular (v : Variant) (hf10 : v.f10 = false) (t : Table) (hrect : Rectangular t)
    (hau : 0 < t.rotangUnit.deg) (regs : List Reg) (hp : parseTable v t = .ok regs)
    (h8 : ∀ r ∈ regs, ok8 v r = true) :
    ∃ out, parseTable v (serialize v regs) = .ok out ∧ List.Forall₂ SameRegion regs out ∧
      ComponentsOK (regs.map (·.comp)) (out.map (·.comp)) := by
  obtain ⟨hne, h10⟩ := readFromRealTable_of_rectangular v hf10 t hrect hau regs hp
  exact fixed_point_core v t regs hp hau hne h8 h10

/-! ### the code as it is now (`Variant.current`: F8, F9, F121, F122 repaired; F10 open) -/

theorem roundTrip_of_fileRoundTrip (v : Variant) (h : FileRoundTrip v) : RoundTrip v :=
  ((fileRoundTrip_iff v).mp h |> fun ⟨h8, h9, h10, _⟩ => (roundTrip_iff v).mpr ⟨h8, h9, h10⟩)

/-- `fits_roundtrip` at full strength on the current code. -/
def fits_roundtrip_full : Prop := RoundTrip Variant.current

/-- refuted on the model of the current code, by F10 alone: the witness `wF10` (a triangle next to
a quadrilateral) comes back with a fourth vertex `(0, 0)` on the triangle. -/
theorem fits_roundtrip_full_refuted : ¬ fits_roundtrip_full := not_roundtrip_of_F10 true true true true

/-- the F10 input class, exactly: some polygon (or regular polygon) of the list has fewer vertices
than the X column is wide, i.e. than the longest polygon of the list.  `NoShortPolygon` is its
complement.  Decidable. -/
def NoShortPolygon (regs : List Reg) : Prop :=
  ∀ r ∈ regs, isPoly r = true → r.xs.length = colWidth (regs.map (·.xs))

instance (regs : List Reg) : Decidable (NoShortPolygon regs) := by unfold NoShortPolygon; infer_instance

theorem ok10_of_noShortPolygon (v : Variant) (regs : List Reg) (h : NoShortPolygon regs) :
    ok10 v regs = true := by
  simp only [ok10, Bool.or_eq_true, List.all_eq_true, Bool.not_eq_true', decide_eq_true_eq]
  right
  intro r hr
  cases hp : isPoly r
  · exact Or.inl rfl
  · exact Or.inr (h r hr hp)

/-- the predicate excludes exactly the failing class: a list of representable regions that is NOT
`NoShortPolygon` does not round-trip on the current code (its short polygon grows). -/
theorem short_polygon_fails (regs : List Reg) (hrep : ∀ r ∈ regs, representable r = true)
    (hshort : ¬ NoShortPolygon regs) :
    ¬ ∃ out, parseTable Variant.current (serialize Variant.current regs) = .ok out ∧
        List.Forall₂ SameRegion regs out := by
  rintro ⟨out, hp, hs⟩
  unfold NoShortPolygon at hshort
  simp only [not_forall] at hshort
  obtain ⟨r, hr, hpoly, hlen⟩ := hshort
  -- r is written with padding and read back with all the padded values as vertices
  have hfacts := representable_facts r (hrep r hr)
  have hle : r.xs.length ≤ colWidth (regs.map (·.xs)) := le_colWidth _ _ (List.mem_map_of_mem (f := (·.xs)) hr)
  have hlt : r.xs.length < colWidth (regs.map (·.xs)) := lt_of_le_of_ne hle hlen
  -- compute what comes back for every region with the F10-repaired reader/writer switched OFF:
  -- we only need the length of the vertex list of the row of `r`
  have hrd := regionData_rep Variant.current regs hrep (fun a _ => by simp [ok8, Variant.current])
  -- the position of r in the list
  obtain ⟨i, hi, hri⟩ := List.getElem_of_mem hr
  have hlenout : out.length = regs.length := (forall₂_get _ _ hs).1.symm
  have hio : i < out.length := by omega
  have hsame : SameRegion regs[i] out[i] := (forall₂_get _ _ hs).2 i hi hio
  -- the row of r in the table
  have hrow : ∃ rows, (serialize Variant.current regs).rows = rows ∧ rows.length = regs.length ∧
      ∀ (j : Nat) (hj : j < regs.length) (hj' : j < rows.length),
        rows[j].x = padCell (fillXY Variant.current) (colWidth (regs.map (·.xs))) regs[j].xs ∧
        rows[j].shape = (dataOf Variant.current (asWritten regs[j])).shape := by
    unfold serialize
    rw [hrd]
    have hne : regs ≠ [] := by intro h; rw [h] at hr; cases hr
    have hxs : (regs.map (fun r => dataOf Variant.current (asWritten r))).map (·.x) = regs.map (·.xs) := by
      simp only [List.map_map]
      exact List.map_congr_left (fun a _ => (asWritten_fields a).1)
    have hemp : (regs.map (fun r => dataOf Variant.current (asWritten r))).isEmpty = false := by
      cases regs with
      | nil => exact absurd rfl hne
      | cons _ _ => rfl
    simp only [hemp, Bool.false_eq_true, if_false, makeTable, hxs]
    have hspec := defineComponents_spec Variant.current
      ((regs.map (fun r => dataOf Variant.current (asWritten r))).map (·.component))
    cases hdc : defineComponents Variant.current
        ((regs.map (fun r => dataOf Variant.current (asWritten r))).map (·.component)) with
    | none =>
      refine ⟨_, rfl, by simp, ?_⟩
      intro j hj hj'
      simp only [List.getElem_map, mkRow, (asWritten_fields regs[j]).1, dataOf, and_self]
    | some p =>
      obtain ⟨cs, obj⟩ := p
      rw [hdc] at hspec
      have hl : cs.length = regs.length := by simpa using hspec.1
      refine ⟨_, rfl, by simp [hl], ?_⟩
      intro j hj hj'
      simp only [List.getElem_zipWith, List.getElem_map, mkRow, (asWritten_fields regs[j]).1, dataOf, and_self]
  obtain ⟨rows, hrows, hrl, hrowj⟩ := hrow
  -- parse: row i gives out[i]
  have hparse : ∀ (cols : List Name) (au : AUnit) (rows : List TRow) (out : List Reg),
      parseRows Variant.current cols au rows = .ok out → out.length = rows.length →
      ∀ (j : Nat) (hj : j < rows.length) (hj' : j < out.length),
        parseRow Variant.current cols au rows[j] = .ok (some out[j]) := by
    intro cols au rows
    induction rows with
    | nil => intro out _ _ j hj; cases hj
    | cons row t ih =>
      intro out hp hl j hj hj'
      simp only [parseRows, bind, Except.bind] at hp
      cases hpr : parseRow Variant.current cols au row with
      | error e => rw [hpr] at hp; cases hp
      | ok o =>
        rw [hpr] at hp
        simp only at hp
        cases hpt : parseRows Variant.current cols au t with
        | error e => rw [hpt] at hp; cases hp
        | ok rs =>
          rw [hpt] at hp
          simp only [pure, Except.pure, Except.ok.injEq] at hp
          have hrs : rs.length ≤ t.length := by
            clear hp hl hj hj' ih
            induction t generalizing rs with
            | nil => simp only [parseRows, Except.ok.injEq] at hpt; rw [← hpt]; exact Nat.le_refl _
            | cons row' t' ih' =>
              simp only [parseRows, bind, Except.bind] at hpt
              cases h1 : parseRow Variant.current cols au row' with
              | error e => rw [h1] at hpt; cases hpt
              | ok o' =>
                rw [h1] at hpt
                simp only at hpt
                cases h2 : parseRows Variant.current cols au t' with
                | error e => rw [h2] at hpt; cases hpt
                | ok rs' =>
                  rw [h2] at hpt
                  simp only [pure, Except.pure, Except.ok.injEq] at hpt
                  have := ih' rs' h2
                  cases o' <;> simp only at hpt <;> rw [← hpt] <;> simp only [List.length_cons] <;> omega
          cases o with
          | none =>
            simp only at hp
            rw [← hp] at hl
            simp only [List.length_cons] at hl
            omega
          | some x =>
            simp only at hp
            subst hp
            cases j with
            | zero => exact hpr
            | succ j' =>
              simp only [List.getElem_cons_succ]
              exact ih rs hpt (by simpa using hl) j' (by simpa using hj) (by simpa using hj')
  unfold parseTable at hp
  split at hp
  · cases hp
  · rw [hrows] at hp
    have hpi := hparse _ _ rows out hp (by omega) i (by omega) hio
    obtain ⟨hxi, hsi⟩ := hrowj i hi (by omega)
    -- what parseRow returns for a polygon row has as many vertices as the X cell has values
    obtain ⟨incl1, shape, kind, refs, xs, ys, rest, region, hl, hg, hc, hout⟩ :=
      parseRow_some' Variant.current _ _ rows[i] out[i] hpi
    have hkind : out[i].kind = .polygon := by
      rw [hsame.cls, hri]
      unfold asWritten
      simp only [isPoly, Bool.or_eq_true, decide_eq_true_eq] at hpoly
      rcases hpoly with h | h
      · simp [h]
      · simp [h, Reg.toPolygon]
    have hk2 : region.kind = .polygon := by
      have : (setMeta Variant.current (serialize Variant.current regs).cols incl1 rows[i].component region).kind
          = region.kind := by simp only [setMeta]; split <;> rfl
      rw [← this, ← hout]; exact hkind
    have hx := construct_xs_len _ kind xs ys rest region hc
    have hkp : kind = .polygon := by
      by_contra hne
      exact (hx.1 hne).2 hk2
    subst hkp
    obtain ⟨hs', hrefs⟩ := polygon_entry _ (lookup_mem _ _ _ hl) rfl
    simp only at hs' hrefs
    subst hs'; subst hrefs
    have hri' : isInfix "rectangle".toList "polygon".toList = false := by decide
    have hf10 : Variant.current.f10 = false := rfl
    simp only [getShapeParams, List.mapM_cons, List.mapM_nil, getColumnValues, hf10, TRow.cell, bind,
      Except.bind, pure, Except.pure, hri', Bool.false_eq_true, if_false] at hg
    cases hnx : nums rows[i].x.atleast1d with
    | error e => rw [hnx] at hg; cases hg
    | ok qx =>
      rw [hnx] at hg
      simp only at hg
      cases hny : nums rows[i].y.atleast1d with
      | error e => rw [hny] at hg; cases hg
      | ok qy =>
        rw [hny] at hg
        simp only [List.flatten_nil, nums, if_neg (show ¬ ("polygon".toList = "ellipse".toList) by decide),
          Except.ok.injEq, Prod.mk.injEq] at hg
        obtain ⟨rfl, rfl, _⟩ := hg
        have hlx : qx.length = colWidth (regs.map (·.xs)) := by
          rw [nums_length _ _ hnx, hxi, atleast1d_padCell _ _ _ (by rw [hri]; exact hfacts.2.2.2.2.1)
            (by rw [hri]; exact hle)]
          simp only [List.length_append, List.length_map, List.length_replicate, hri]
          omega
        have hxs_out : out[i].xs.length = max qx.length qy.length := by
          have : (setMeta Variant.current (serialize Variant.current regs).cols incl1 rows[i].component region).xs
              = region.xs := by simp only [setMeta]; split <;> rfl
          rw [hout, this, (hx.2 rfl).2]
        have : out[i].xs.length = r.xs.length := by rw [hsame.xs, hri]
        have hge : qx.length ≤ max qx.length qy.length := Nat.le_max_left _ _
        omega

/-- `fits_roundtrip`, partial — the property minus exactly the F10 class: on the current code every list
of representable regions in which no polygon is shorter than the longest one round-trips exactly:
same classes, identical geometry in ℚ, same exclude flag (F8, F9 repaired), components clause.
Any length, any mix of classes, any padding of the non-polygon rows. -/
theorem fits_roundtrip_partial (regs : List Reg) (hrep : ∀ r ∈ regs, representable r = true)
    (hok : NoShortPolygon regs) :
    ∃ out, parseTable Variant.current (serialize Variant.current regs) = .ok out ∧
      List.Forall₂ SameRegion regs out ∧ ComponentsOK (regs.map (·.comp)) (out.map (·.comp)) :=
  roundtrip_core Variant.current regs hrep (fun r _ => by simp [ok8, Variant.current])
    (by simp [ok9, Variant.current]) (ok10_of_noShortPolygon _ regs hok)

/-- radians and arc minutes with (rational stand-ins for) astropy's scales. -/
def radian : AUnit := ⟨"rad".toList, 5156620156177409 / 90000000000000, true⟩
def arcmin : AUnit := ⟨"arcmin".toList, 1 / 60, true⟩

/-- the predicate is satisfiable by a non-trivial mixed list: padding in X, Y and R, excluded regions of the
renamed/halved classes (the former F8 class), an excluded region next to given components (F9), components
partially present (F121), angles in three different units with the first row having none (so the ROTANG
column is in degrees and every other angle is converted), two polygons of equal length. -/
def sampleList : List Reg :=
  [⟨.circle, false, [1], [2], [3], none, .bool false, some 7, AUnit.degree⟩,
   ⟨.ellipse, false, [5 / 2], [-4], [4, 2], some (1 / 2), .int 0, none, radian⟩,
   ⟨.ellipseAnnulus, false, [0], [0], [1, 2, 3, 4], some 1200, .bool false, none, arcmin⟩,
   ⟨.circleAnnulus, false, [0], [0], [1, 2], none, .int 0, some 2, AUnit.degree⟩,
   ⟨.polygon, false, [1, 2, 3], [4, 5, 15 / 2], [], none, .int 0, none, AUnit.degree⟩,
   ⟨.regularPolygon, false, [0, 1, 2], [3, 1, 3], [], none, .absent, none, AUnit.degree⟩,
   ⟨.rectangle, false, [7], [8], [2, 1], some 90, .int 0, none, AUnit.degree⟩]

example : (∀ r ∈ sampleList, representable r = true) ∧ NoShortPolygon sampleList := by decide +kernel

/-- and the witness of the refutation is outside it. -/
example : (∀ r ∈ wF10, representable r = true) ∧ ¬ NoShortPolygon wF10 := by decide +kernel

/-- a unit mix-up would be visible: every angle is written in degrees (F122 repaired), so in the table of
`[ellipse 1/2 rad, rectangle 10 deg]` the ellipse's angle comes back as `1/2 · (1 rad / 1 deg)` deg — not
as `1/2` deg — and the rectangle's as `10` deg. -/
example :
    parseTable Variant.current (serialize Variant.current
      [⟨.ellipse, false, [1], [2], [4, 2], some (1 / 2), .absent, none, radian⟩,
       ⟨.rectangle, false, [1], [2], [4, 2], some 10, .absent, none, AUnit.degree⟩]) =
    .ok [⟨.ellipse, false, [1], [2], [4, 2], some (1 / 2 * radian.deg), .absent, none, AUnit.degree⟩,
         ⟨.rectangle, false, [1], [2], [4, 2], some 10, .absent, none, AUnit.degree⟩] := by
  decide +kernel

/-- `fits_roundtrip` with the F10 patch applied as well: the full property. -/
theorem fits_roundtrip_fixed : RoundTrip Variant.fixed :=
  (roundTrip_iff Variant.fixed).mpr ⟨rfl, rfl, rfl⟩

/-- through a file, full strength, current code. -/
def fits_file_roundtrip_full : Prop := FileRoundTrip Variant.current

/-- refuted by the same F10 witness — and now only through F10 (F121 and F122 are repaired: every table the
writer produces can be stored; `fileRoundTrip_iff`). -/
theorem fits_file_roundtrip_full_refuted : ¬ fits_file_roundtrip_full :=
  fun h => not_roundtrip_of_F10 true true true true (roundTrip_of_fileRoundTrip _ h)

/-- through a file, partial: `NoShortPolygon` (F10), nothing else (components absent, given, or partly
given; angles in any mix of units, hour angle included), for every lawful file layer. -/
theorem fits_file_roundtrip_partial {F : Type} (fl : FileLayer F) (hfl : fl.Lawful) (regs : List Reg)
    (hrep : ∀ r ∈ regs, representable r = true) (hok : NoShortPolygon regs) :
    ∃ out, throughFile fl Variant.current regs = .ok out ∧
      List.Forall₂ SameRegion regs out ∧ ComponentsOK (regs.map (·.comp)) (out.map (·.comp)) :=
  file_roundtrip_core fl hfl Variant.current regs hrep (fun r _ => by simp [ok8, Variant.current])
    (by simp [ok9, Variant.current]) (ok10_of_noShortPolygon _ regs hok) (by simp [ok121, Variant.current])
    (by simp [okUnit, Variant.current])

example : idFileLayer.Lawful := idFileLayer_lawful

/-- the former F122 witness (an ellipse in hour angle, first row) now meets the hypotheses and makes the trip
through the executable file layer: it is written as `30 deg`. -/
example : (∀ r ∈ wF122, representable r = true) ∧ NoShortPolygon wF122 ∧
    throughFile idFileLayer Variant.current wF122 =
      .ok [⟨.ellipse, false, [1], [2], [4, 2], some 30, .absent, none, AUnit.degree⟩] := by
  decide +kernel

theorem fits_file_roundtrip_fixed : FileRoundTrip Variant.fixed :=
  (fileRoundTrip_iff Variant.fixed).mpr ⟨rfl, rfl, rfl, rfl, rfl⟩

/-- the fixed point at full strength, current code. -/
def fits_fixed_point_full : Prop := FixedPoint Variant.current

/-- PROVED on the current code (F8 is repaired; F10 does not disturb the fixed point: what the reader
returns is already in its own normal form — all polygons read from one table are equally long). -/
theorem fits_fixed_point : fits_fixed_point_full := (fixedPoint_iff Variant.current).mpr rfl

/-- … and for real (rectangular) tables without any side condition. -/
theorem fits_fixed_point_rectangular (t : Table) (hrect : Rectangular t) (hau : 0 < t.rotangUnit.deg)
    (regs : List Reg) (hp : parseTable Variant.current t = .ok regs) :
    ∃ out, parseTable Variant.current (serialize Variant.current regs) = .ok out ∧
      List.Forall₂ SameRegion regs out ∧ ComponentsOK (regs.map (·.comp)) (out.map (·.comp)) :=
  fixed_point_rectangular Variant.current rfl t hrect hau regs hp (fun r _ => by simp [ok8, Variant.current])

/-- non-vacuity: a rectangular table in the other notations (corner form, upper case, excluded ellipse and
box — the former F8 class —, padded, ROTANG in radians so that the `box` rows' default `0 deg` and the
column unit differ) parses, and what is parsed meets the hypotheses. -/
example :
    let t : Table := ⟨stdCols false,
      [⟨"RECTANGLE".toList, .vec [some 1, some 4], .vec [some 2, some 8], .vec [some 1, some 1], .scalar (some 0), 0⟩,
       ⟨"!ellipse".toList, .vec [some 3, some 0], .vec [some 3, some 0], .vec [some 2, some 1], .scalar (some (1 / 2)), 0⟩,
       ⟨"!BOX".toList, .vec [some 3, some 0], .vec [some 3, some 0], .vec [some 2, some 1], .scalar (some 0), 0⟩,
       ⟨"polygon".toList, .vec [some 1, some 4], .vec [some 2, some 8], .vec [some 0, some 0], .scalar (some 0), 0⟩],
      false, radian⟩
    Rectangular t ∧ 0 < t.rotangUnit.deg ∧ ∃ regs, parseTable Variant.current t = .ok regs ∧ regs.length = 4 ∧
      ReadFromRealTable Variant.current regs := by
  refine ⟨⟨2, 2, by decide, by decide, by decide +kernel⟩, by decide +kernel,
    [⟨.rectangle, false, [5 / 2], [5], [3, 6], some 0, .absent, none, AUnit.degree⟩,
     ⟨.ellipse, false, [3], [3], [4, 2], some (1 / 2), .int 0, none, radian⟩,
     ⟨.rectangle, false, [3], [3], [2, 1], some 0, .int 0, none, AUnit.degree⟩,
     ⟨.polygon, false, [1, 4], [2, 8], [], none, .absent, none, AUnit.degree⟩],
    by decide +kernel, by decide +kernel, ⟨by decide +kernel, by decide +kernel⟩⟩

theorem fits_fixed_point_fixed : FixedPoint Variant.fixed := (fixedPoint_iff Variant.fixed).mpr rfl

end RegionsVerif.Props.C12
