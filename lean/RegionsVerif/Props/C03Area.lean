/-
C03 — the AREA IDENTITY for the circle 'exact' kernel (completes `Props/C03.lean`).

All statements are about the real-number instance `Gen.CircleExactReal` of
`regions/_geometry/circular_overlap.pyx` (`circular_overlap_core`, `area_arc`, `area_triangle`,
`floor_sqrt`, `circular_overlap_single_exact`, the 'exact' branch of `circular_overlap_grid`).

Main theorems (no hypotheses beyond `0 < r` and a well-ordered rectangle / positive pixel size):

* `core_eq_integral`   `core xmin ymin xmax ymax r = ∫ x in xmin..xmax, max 0 (min ymax √(r²−x²) − ymin)`
                       for `0 ≤ xmin ≤ xmax`, `0 ≤ ymin ≤ ymax` — all six branches, degenerate
                       rectangles included;
* `core_eq_volume`     … `= volume (rectangle ∩ open disk)` (Lebesgue measure on ℝ × ℝ);
* `singleExact_eq_integral`, `singleExact_eq_volume`, `singleExact_eq_area`
                       the quadrant recursion returns the area of (rectangle ∩ disk) for EVERY
                       rectangle (any signs);
* `exactCell_eq_area`, `exactCell_eq_volume`, `exactCell_mem_unit`
                       one grid cell = area(pixel ∩ disk)/(dx·dy) through the skip box, both fast
                       paths and the recursion; hence every mask value is in `[0, 1]`;
* `exact_grid_sum`     over any grid covering the disk, Σ mask·dx·dy = π r².

Ingredients: antiderivative `FF r x = (x√(r²−x²) + r² asin(x/r))/2` of the half-chord
(`hasDerivAt_FF`, `integral_hs`); the chord lemma `chord_angle`
(`2·asin(a/2r) = asin(x₂/r) − asin(x₁/r)`, via injectivity of `cos` on `[0, π]`), hence
`areaArc_eq` (segment = integral − trapezoid); piecewise evaluation of the slice
(`int_top`, `int_slice`, `int_zero`); the four mixed branches `branchA … branchD`; the purely
algebraic symmetry `core_transpose` (x ↔ y), which avoids Fubini for the rotated quadrants;
the signed clamp `clampS` making the slice length additive, so that `C03.single_additive` applies.
-/
import RegionsVerif.Props.C03
import Mathlib.MeasureTheory.Integral.IntervalIntegral.FundThmCalculus
import Mathlib.Analysis.SpecialFunctions.Trigonometric.InverseDeriv
import Mathlib.Analysis.SpecialFunctions.Sqrt
import Mathlib.MeasureTheory.Measure.Lebesgue.Integral
import Mathlib.Tactic.LinearCombination
import Mathlib.Tactic.Positivity

namespace RegionsVerif.Props.C03
open RegionsVerif.Gen.CircleExactReal

/-- half-chord: `hs r x = √(r² − x²)` (0 outside `[-r, r]`). -/
noncomputable def hs (r x : ℝ) : ℝ := Real.sqrt (r * r - x * x)

/-- antiderivative of `hs r`. -/
noncomputable def FF (r x : ℝ) : ℝ := (x * hs r x + r * r * Real.arcsin (x / r)) / 2

theorem hs_nonneg (r x : ℝ) : 0 ≤ hs r x := Real.sqrt_nonneg _

theorem hs_sq (r x : ℝ) (h : x * x ≤ r * r) : hs r x * hs r x = r * r - x * x :=
  Real.mul_self_sqrt (by linarith)

theorem continuous_hs (r : ℝ) : Continuous (hs r) := by
  unfold hs; fun_prop

theorem continuous_FF (r : ℝ) : Continuous (FF r) := by
  unfold FF
  have := continuous_hs r
  have h2 : Continuous fun x : ℝ => Real.arcsin (x / r) := Real.continuous_arcsin.comp (continuous_id.div_const r)
  fun_prop

theorem hasDerivAt_FF (r x : ℝ) (hr : 0 < r) (h1 : -r < x) (h2 : x < r) :
    HasDerivAt (FF r) (hs r x) x := by
  have hpos : 0 < r * r - x * x := by nlinarith
  have ht : 0 < hs r x := Real.sqrt_pos.mpr hpos
  have hsq : hs r x * hs r x = r * r - x * x := hs_sq r x (by linarith)
  have hne : r * r - x * x ≠ 0 := hpos.ne'
  have d1 : HasDerivAt (fun y : ℝ => r * r - y * y) (-(1 * x + x * 1)) x := by
    have := ((hasDerivAt_id' x).mul (hasDerivAt_id' x)).const_sub (r * r)
    simpa using this
  have d2 : HasDerivAt (hs r) (-(1 * x + x * 1) / (2 * hs r x)) x := d1.sqrt hne
  have hxr1 : x / r ≠ -1 := by
    intro h; have : x = -r := by field_simp at h; linarith
    linarith
  have hxr2 : x / r ≠ 1 := by
    intro h; have : x = r := by field_simp at h; linarith
    linarith
  have d3 : HasDerivAt (fun y : ℝ => Real.arcsin (y / r)) (1 / Real.sqrt (1 - (x / r) ^ 2) * (1 / r)) x :=
    HasDerivAt.comp x (h₂ := Real.arcsin) (h := fun y : ℝ => y / r) (Real.hasDerivAt_arcsin hxr1 hxr2) ((hasDerivAt_id' x).div_const r)
  have hq : Real.sqrt (1 - (x / r) ^ 2) = hs r x / r := by
    rw [Real.sqrt_eq_iff_mul_self_eq (by
      have : (x / r) ^ 2 ≤ 1 := by rw [div_pow, div_le_one (by positivity)]; nlinarith
      linarith) (by positivity)]
    field_simp
    nlinarith
  have key := (((hasDerivAt_id' x).mul d2).add (d3.const_mul (r * r))).div_const 2
  unfold FF
  refine key.congr_deriv ?_
  rw [hq]
  field_simp
  nlinarith

theorem integral_hs (r a b : ℝ) (hr : 0 < r) (ha : -r ≤ a) (hab : a ≤ b) (hb : b ≤ r) :
    ∫ x in a..b, hs r x = FF r b - FF r a := by
  apply intervalIntegral.integral_eq_sub_of_hasDerivAt_of_le hab (continuous_FF r).continuousOn
  · intro x hx
    exact hasDerivAt_FF r x hr (by linarith [hx.1]) (by linarith [hx.2])
  · exact (continuous_hs r).intervalIntegrable _ _


/-! ### the circular segment (`area_arc`) -/

theorem hs_of_on_circle (r x y : ℝ) (hy : 0 ≤ y) (h : x * x + y * y = r * r) : hs r x = y := by
  unfold hs
  rw [show r * r - x * x = y * y by linarith]
  exact Real.sqrt_mul_self hy

theorem cos_arcsin_div (r x y : ℝ) (hr : 0 < r) (hy : 0 ≤ y) (h : x * x + y * y = r * r) :
    Real.cos (Real.arcsin (x / r)) = y / r := by
  rw [Real.cos_arcsin]
  have : 1 - (x / r) ^ 2 = (y / r) * (y / r) := by
    field_simp; linarith
  rw [this]
  exact Real.sqrt_mul_self (by positivity)

theorem sin_arcsin_div (r x y : ℝ) (hr : 0 < r) (hx : 0 ≤ x) (h : x * x + y * y = r * r) :
    Real.sin (Real.arcsin (x / r)) = x / r := by
  have hxr : x ≤ r := by nlinarith [mul_self_nonneg y]
  apply Real.sin_arcsin
  · have : 0 ≤ x / r := by positivity
    linarith
  · rw [div_le_one hr]; exact hxr

/-- chord lemma: the angle `2·asin(a/2r)` subtended by the chord `P1P2` is the difference of
the polar "arcsin" angles, for two points of the first quadrant on the circle. -/
theorem chord_angle (x1 y1 x2 y2 r : ℝ) (hr : 0 < r)
    (hx1 : 0 ≤ x1) (hy1 : 0 ≤ y1) (hx2 : 0 ≤ x2) (hy2 : 0 ≤ y2) (h12 : x1 ≤ x2)
    (h1 : x1 * x1 + y1 * y1 = r * r) (h2 : x2 * x2 + y2 * y2 = r * r) :
    2 * Real.arcsin (0.5 * distance x1 y1 x2 y2 / r) =
      Real.arcsin (x2 / r) - Real.arcsin (x1 / r) := by
  set a := distance x1 y1 x2 y2 with ha
  have ha0 : 0 ≤ a := Real.sqrt_nonneg _
  have hasq : a * a = 2 * (r * r) - 2 * (x1 * x2 + y1 * y2) := by
    rw [ha, distance, Real.mul_self_sqrt (by positivity)]
    linear_combination h1 + h2
  have hdot : 0 ≤ x1 * x2 + y1 * y2 := by positivity
  set w := 0.5 * a / r with hw
  have hw0 : 0 ≤ w := by rw [hw]; positivity
  have hwsq : w * w = (2 * (r * r) - 2 * (x1 * x2 + y1 * y2)) / (4 * (r * r)) := by
    rw [hw, ← hasq]; field_simp; ring
  have hw1 : w ≤ 1 := by
    have : w * w ≤ 1 := by
      rw [hwsq, div_le_one (by positivity)]; nlinarith
    nlinarith
  have hθ0 : 0 ≤ Real.arcsin w := Real.arcsin_nonneg.mpr hw0
  have hθ1 : Real.arcsin w ≤ Real.pi / 2 := Real.arcsin_le_pi_div_two w
  have hA0 : 0 ≤ Real.arcsin (x1 / r) := Real.arcsin_nonneg.mpr (by positivity)
  have hAB : Real.arcsin (x1 / r) ≤ Real.arcsin (x2 / r) :=
    Real.arcsin_le_arcsin (by gcongr)
  have hB1 : Real.arcsin (x2 / r) ≤ Real.pi / 2 := Real.arcsin_le_pi_div_two _
  have hpi := Real.pi_pos
  apply Real.injOn_cos ⟨by linarith, by linarith⟩ ⟨by linarith, by linarith⟩
  rw [Real.cos_two_mul', Real.cos_sub, cos_arcsin_div r x1 y1 hr hy1 h1,
    cos_arcsin_div r x2 y2 hr hy2 h2, sin_arcsin_div r x1 y1 hr hx1 h1,
    sin_arcsin_div r x2 y2 hr hx2 h2, Real.sin_arcsin (by linarith) hw1, Real.cos_arcsin]
  rw [Real.sq_sqrt (by nlinarith)]
  have : w ^ 2 = w * w := sq w
  rw [this, hwsq]
  field_simp
  ring

theorem areaArc_symm (x1 y1 x2 y2 r : ℝ) : areaArc x1 y1 x2 y2 r = areaArc x2 y2 x1 y1 r := by
  have : distance x1 y1 x2 y2 = distance x2 y2 x1 y1 := by
    unfold distance; congr 1; ring
  unfold areaArc; rw [this]

/-- **`area_arc` is the circular segment**: integral of the half-chord minus the trapezoid
under the chord. -/
theorem areaArc_eq (x1 y1 x2 y2 r : ℝ) (hr : 0 < r)
    (hx1 : 0 ≤ x1) (hy1 : 0 ≤ y1) (hx2 : 0 ≤ x2) (hy2 : 0 ≤ y2) (h12 : x1 ≤ x2)
    (h1 : x1 * x1 + y1 * y1 = r * r) (h2 : x2 * x2 + y2 * y2 = r * r) :
    areaArc x1 y1 x2 y2 r = FF r x2 - FF r x1 - (x2 - x1) * (y1 + y2) / 2 := by
  have hc := chord_angle x1 y1 x2 y2 r hr hx1 hy1 hx2 hy2 h12 h1 h2
  unfold areaArc
  simp only
  rw [hc, Real.sin_sub, cos_arcsin_div r x1 y1 hr hy1 h1,
    cos_arcsin_div r x2 y2 hr hy2 h2, sin_arcsin_div r x1 y1 hr hx1 h1,
    sin_arcsin_div r x2 y2 hr hx2 h2]
  unfold FF
  rw [hs_of_on_circle r x1 y1 hy1 h1, hs_of_on_circle r x2 y2 hy2 h2]
  field_simp
  ring

/-! ### the vertical slice of (first-quadrant rectangle ∩ disk) and its integral -/

/-- length of `{y ∈ [ymin, ymax] : x² + y² < r²}` for `0 ≤ ymin`. -/
noncomputable def sl (r ymin ymax x : ℝ) : ℝ := max 0 (min ymax (hs r x) - ymin)

theorem continuous_sl (r ymin ymax : ℝ) : Continuous (sl r ymin ymax) := by
  unfold sl; have := continuous_hs r; fun_prop

theorem sl_integrable (r ymin ymax a b : ℝ) :
    IntervalIntegrable (sl r ymin ymax) MeasureTheory.volume a b :=
  (continuous_sl r ymin ymax).intervalIntegrable _ _

theorem le_hs (r a y : ℝ) (ha : 0 ≤ a) (h : a * a + y * y ≤ r * r) : a ≤ hs r y := by
  unfold hs
  rw [Real.le_sqrt ha (by nlinarith [mul_self_nonneg a])]
  nlinarith

theorem hs_le (r a y : ℝ) (ha : 0 ≤ a) (h : r * r ≤ a * a + y * y) : hs r y ≤ a := by
  unfold hs
  rw [Real.sqrt_le_iff]
  exact ⟨ha, by nlinarith⟩

theorem le_of_mul_self_le' (a b : ℝ) (hb : 0 ≤ b) (h : a * a ≤ b * b) : a ≤ b := by
  by_contra hc
  have : b < a := not_le.mp hc
  nlinarith

theorem int_slice (r ymin ymax a b : ℝ) (hr : 0 < r) (hy : 0 ≤ ymin) (hy' : 0 ≤ ymax)
    (ha : 0 ≤ a) (hab : a ≤ b)
    (h1 : b * b + ymin * ymin ≤ r * r) (h2 : r * r ≤ a * a + ymax * ymax) :
    ∫ x in a..b, sl r ymin ymax x = FF r b - FF r a - ymin * (b - a) := by
  have hbr : b ≤ r := le_of_mul_self_le' b r hr.le (by nlinarith [mul_self_nonneg ymin])
  have : ∫ x in a..b, sl r ymin ymax x = ∫ x in a..b, (hs r x - ymin) := by
    apply intervalIntegral.integral_congr
    intro x hx
    rw [Set.uIcc_of_le hab] at hx
    have hx0 : 0 ≤ x := le_trans ha hx.1
    have e1 : ymin ≤ hs r x := le_hs r ymin x hy (by nlinarith [hx.2])
    have e2 : hs r x ≤ ymax := hs_le r ymax x hy' (by nlinarith [hx.1])
    show max 0 (min ymax (hs r x) - ymin) = hs r x - ymin
    rw [min_eq_right e2, max_eq_right (by linarith)]
  rw [this, intervalIntegral.integral_sub ((continuous_hs r).intervalIntegrable _ _)
    (intervalIntegrable_const), integral_hs r a b hr (by linarith) hab hbr,
    intervalIntegral.integral_const, smul_eq_mul]
  ring

theorem int_top (r ymin ymax a b : ℝ) (hy' : 0 ≤ ymax) (hyy : ymin ≤ ymax)
    (ha : 0 ≤ a) (hab : a ≤ b) (h1 : b * b + ymax * ymax ≤ r * r) :
    ∫ x in a..b, sl r ymin ymax x = (ymax - ymin) * (b - a) := by
  have : ∫ x in a..b, sl r ymin ymax x = ∫ x in a..b, (ymax - ymin) := by
    apply intervalIntegral.integral_congr
    intro x hx
    rw [Set.uIcc_of_le hab] at hx
    have hx0 : 0 ≤ x := le_trans ha hx.1
    have e1 : ymax ≤ hs r x := le_hs r ymax x hy' (by nlinarith [hx.2])
    show max 0 (min ymax (hs r x) - ymin) = ymax - ymin
    rw [min_eq_left e1, max_eq_right (by linarith)]
  rw [this, intervalIntegral.integral_const, smul_eq_mul]
  ring

theorem int_zero (r ymin ymax a b : ℝ) (hy : 0 ≤ ymin)
    (ha : 0 ≤ a) (hab : a ≤ b) (h1 : r * r ≤ a * a + ymin * ymin) :
    ∫ x in a..b, sl r ymin ymax x = 0 := by
  have : ∫ x in a..b, sl r ymin ymax x = ∫ x in a..b, (0 : ℝ) := by
    apply intervalIntegral.integral_congr
    intro x hx
    rw [Set.uIcc_of_le hab] at hx
    have hx0 : 0 ≤ x := le_trans ha hx.1
    have e1 : hs r x ≤ ymin := hs_le r ymin x hy (by nlinarith [hx.1])
    show max 0 (min ymax (hs r x) - ymin) = 0
    exact max_eq_left (by linarith [min_le_right ymax (hs r x)])
  rw [this, intervalIntegral.integral_const, smul_eq_mul, mul_zero]

/-! ### triangles with known orientation -/

theorem areaTriangle_of_nonneg (x1 y1 x2 y2 x3 y3 : ℝ)
    (h : 0 ≤ x1 * (y2 - y3) + x2 * (y3 - y1) + x3 * (y1 - y2)) :
    areaTriangle x1 y1 x2 y2 x3 y3 = (x1 * (y2 - y3) + x2 * (y3 - y1) + x3 * (y1 - y2)) / 2 := by
  unfold areaTriangle; rw [abs_of_nonneg h]; norm_num; ring

theorem areaTriangle_of_nonpos (x1 y1 x2 y2 x3 y3 : ℝ)
    (h : x1 * (y2 - y3) + x2 * (y3 - y1) + x3 * (y1 - y2) ≤ 0) :
    areaTriangle x1 y1 x2 y2 x3 y3 = -(x1 * (y2 - y3) + x2 * (y3 - y1) + x3 * (y1 - y2)) / 2 := by
  unfold areaTriangle; rw [abs_of_nonpos h]; norm_num; ring

/-! ### the four mixed branches of `circular_overlap_core` -/

/-- both `(xmax, ymin)` and `(xmin, ymax)` inside, `(xmax, ymax)` not inside. -/
theorem branchA (xmin ymin xmax ymax r : ℝ) (hr : 0 < r) (hx : 0 ≤ xmin) (hy : 0 ≤ ymin)
    (hxx : xmin ≤ xmax) (hyy : ymin ≤ ymax)
    (h1 : xmax * xmax + ymin * ymin < r * r) (h2 : xmin * xmin + ymax * ymax < r * r)
    (hf : r * r ≤ xmax * xmax + ymax * ymax) :
    (xmax - xmin) * (ymax - ymin) - areaTriangle (hs r ymax) ymax xmax (hs r xmax) xmax ymax
        + areaArc (hs r ymax) ymax xmax (hs r xmax) r
      = ∫ x in xmin..xmax, sl r ymin ymax x := by
  have hy' : 0 ≤ ymax := le_trans hy hyy
  have hx' : 0 ≤ xmax := le_trans hx hxx
  have sa : hs r ymax * hs r ymax = r * r - ymax * ymax := hs_sq r ymax (by nlinarith [mul_self_nonneg xmin])
  have sb : hs r xmax * hs r xmax = r * r - xmax * xmax := hs_sq r xmax (by nlinarith [mul_self_nonneg ymin])
  have a0 : 0 ≤ hs r ymax := hs_nonneg _ _
  have b0 : 0 ≤ hs r xmax := hs_nonneg _ _
  have a1 : xmin ≤ hs r ymax := le_hs r xmin ymax hx h2.le
  have a2 : hs r ymax ≤ xmax := hs_le r xmax ymax hx' hf
  have b1 : ymin ≤ hs r xmax := le_hs r ymin xmax hy (by linarith)
  have b2 : hs r xmax ≤ ymax := hs_le r ymax xmax hy' (by linarith)
  rw [← intervalIntegral.integral_add_adjacent_intervals (sl_integrable r ymin ymax xmin (hs r ymax))
    (sl_integrable r ymin ymax (hs r ymax) xmax),
    int_top r ymin ymax xmin (hs r ymax) hy' hyy hx a1 (by linarith),
    int_slice r ymin ymax (hs r ymax) xmax hr hy hy' a0 a2 h1.le (by linarith),
    areaArc_eq (hs r ymax) ymax xmax (hs r xmax) r hr a0 hy' hx' b0 a2 (by linarith) (by linarith),
    areaTriangle_of_nonneg _ _ _ _ _ _ (by nlinarith [mul_nonneg (sub_nonneg.mpr a2) (sub_nonneg.mpr b2)])]
  ring

/-- `(xmax, ymin)` inside, `(xmin, ymax)` not inside. -/
theorem branchB (xmin ymin xmax ymax r : ℝ) (hr : 0 < r) (hx : 0 ≤ xmin) (hy : 0 ≤ ymin)
    (hxx : xmin ≤ xmax) (hyy : ymin ≤ ymax)
    (h1 : xmax * xmax + ymin * ymin < r * r) (h2 : r * r ≤ xmin * xmin + ymax * ymax) :
    areaArc xmin (hs r xmin) xmax (hs r xmax) r
        + areaTriangle xmin (hs r xmin) xmin ymin xmax ymin
        + areaTriangle xmin (hs r xmin) xmax ymin xmax (hs r xmax)
      = ∫ x in xmin..xmax, sl r ymin ymax x := by
  have hy' : 0 ≤ ymax := le_trans hy hyy
  have hx' : 0 ≤ xmax := le_trans hx hxx
  have hmm : xmin * xmin ≤ xmax * xmax := by nlinarith
  have sa : hs r xmin * hs r xmin = r * r - xmin * xmin := hs_sq r xmin (by nlinarith [mul_self_nonneg ymin])
  have sb : hs r xmax * hs r xmax = r * r - xmax * xmax := hs_sq r xmax (by nlinarith [mul_self_nonneg ymin])
  have a0 : 0 ≤ hs r xmin := hs_nonneg _ _
  have b0 : 0 ≤ hs r xmax := hs_nonneg _ _
  have a1 : ymin ≤ hs r xmin := le_hs r ymin xmin hy (by linarith)
  have b1 : ymin ≤ hs r xmax := le_hs r ymin xmax hy (by linarith)
  rw [int_slice r ymin ymax xmin xmax hr hy hy' hx hxx h1.le h2,
    areaArc_eq xmin (hs r xmin) xmax (hs r xmax) r hr hx a0 hx' b0 hxx (by linarith) (by linarith),
    areaTriangle_of_nonneg _ _ _ _ _ _ (by nlinarith [mul_nonneg (sub_nonneg.mpr hxx) (sub_nonneg.mpr a1)]),
    areaTriangle_of_nonneg _ _ _ _ _ _ (by nlinarith [mul_nonneg (sub_nonneg.mpr hxx) (sub_nonneg.mpr b1)])]
  ring

/-- `(xmin, ymax)` inside, `(xmax, ymin)` not inside. -/
theorem branchC (xmin ymin xmax ymax r : ℝ) (hr : 0 < r) (hx : 0 ≤ xmin) (hy : 0 ≤ ymin)
    (hxx : xmin ≤ xmax) (hyy : ymin ≤ ymax)
    (h1 : r * r ≤ xmax * xmax + ymin * ymin) (h2 : xmin * xmin + ymax * ymax < r * r) :
    areaArc (hs r ymin) ymin (hs r ymax) ymax r
        + areaTriangle (hs r ymin) ymin xmin ymin xmin ymax
        + areaTriangle (hs r ymin) ymin xmin ymax (hs r ymax) ymax
      = ∫ x in xmin..xmax, sl r ymin ymax x := by
  have hy' : 0 ≤ ymax := le_trans hy hyy
  have hx' : 0 ≤ xmax := le_trans hx hxx
  have hmm : ymin * ymin ≤ ymax * ymax := by nlinarith
  have sa : hs r ymax * hs r ymax = r * r - ymax * ymax := hs_sq r ymax (by nlinarith [mul_self_nonneg xmin])
  have sb : hs r ymin * hs r ymin = r * r - ymin * ymin := hs_sq r ymin (by nlinarith [mul_self_nonneg xmin])
  have a0 : 0 ≤ hs r ymax := hs_nonneg _ _
  have b0 : 0 ≤ hs r ymin := hs_nonneg _ _
  have a1 : xmin ≤ hs r ymax := le_hs r xmin ymax hx h2.le
  have ab : hs r ymax ≤ hs r ymin := le_hs r _ ymin a0 (by nlinarith)
  have b2 : hs r ymin ≤ xmax := hs_le r xmax ymin hx' h1
  rw [← intervalIntegral.integral_add_adjacent_intervals (sl_integrable r ymin ymax xmin (hs r ymin))
    (sl_integrable r ymin ymax (hs r ymin) xmax),
    ← intervalIntegral.integral_add_adjacent_intervals (sl_integrable r ymin ymax xmin (hs r ymax))
    (sl_integrable r ymin ymax (hs r ymax) (hs r ymin)),
    int_top r ymin ymax xmin (hs r ymax) hy' hyy hx a1 (by linarith),
    int_slice r ymin ymax (hs r ymax) (hs r ymin) hr hy hy' a0 ab (by linarith) (by linarith),
    int_zero r ymin ymax (hs r ymin) xmax hy b0 b2 (by linarith),
    areaArc_symm,
    areaArc_eq (hs r ymax) ymax (hs r ymin) ymin r hr a0 hy' b0 hy ab (by linarith) (by linarith),
    areaTriangle_of_nonpos _ _ _ _ _ _ (by nlinarith [mul_nonneg (sub_nonneg.mpr (le_trans a1 ab)) (sub_nonneg.mpr hyy)]),
    areaTriangle_of_nonpos _ _ _ _ _ _ (by nlinarith [mul_nonneg (sub_nonneg.mpr a1) (sub_nonneg.mpr hyy)])]
  ring

/-- neither `(xmax, ymin)` nor `(xmin, ymax)` inside, `(xmin, ymin)` in the closed disk. -/
theorem branchD (xmin ymin xmax ymax r : ℝ) (hr : 0 < r) (hx : 0 ≤ xmin) (hy : 0 ≤ ymin)
    (hxx : xmin ≤ xmax) (hyy : ymin ≤ ymax)
    (h0 : xmin * xmin + ymin * ymin ≤ r * r)
    (h1 : r * r ≤ xmax * xmax + ymin * ymin) (h2 : r * r ≤ xmin * xmin + ymax * ymax) :
    areaArc (hs r ymin) ymin xmin (hs r xmin) r
        + areaTriangle (hs r ymin) ymin xmin (hs r xmin) xmin ymin
      = ∫ x in xmin..xmax, sl r ymin ymax x := by
  have hy' : 0 ≤ ymax := le_trans hy hyy
  have hx' : 0 ≤ xmax := le_trans hx hxx
  have sa : hs r xmin * hs r xmin = r * r - xmin * xmin := hs_sq r xmin (by nlinarith [mul_self_nonneg ymin])
  have sb : hs r ymin * hs r ymin = r * r - ymin * ymin := hs_sq r ymin (by nlinarith [mul_self_nonneg xmin])
  have a0 : 0 ≤ hs r xmin := hs_nonneg _ _
  have b0 : 0 ≤ hs r ymin := hs_nonneg _ _
  have a1 : ymin ≤ hs r xmin := le_hs r ymin xmin hy (by linarith)
  have b1 : xmin ≤ hs r ymin := le_hs r xmin ymin hx h0
  have b2 : hs r ymin ≤ xmax := hs_le r xmax ymin hx' h1
  rw [← intervalIntegral.integral_add_adjacent_intervals (sl_integrable r ymin ymax xmin (hs r ymin))
    (sl_integrable r ymin ymax (hs r ymin) xmax),
    int_slice r ymin ymax xmin (hs r ymin) hr hy hy' hx b1 (by linarith) h2,
    int_zero r ymin ymax (hs r ymin) xmax hy b0 b2 (by linarith),
    areaArc_symm,
    areaArc_eq xmin (hs r xmin) (hs r ymin) ymin r hr hx a0 b0 hy b1 (by linarith) (by linarith),
    areaTriangle_of_nonneg _ _ _ _ _ _ (by nlinarith [mul_nonneg (sub_nonneg.mpr b1) (sub_nonneg.mpr a1)])]
  ring

/-! ### the area identity for `circular_overlap_core` -/

theorem floorSqrt_eq (x : ℝ) : floorSqrt x = Real.sqrt x := by
  unfold floorSqrt
  split_ifs with h
  · rfl
  · exact (Real.sqrt_eq_zero_of_nonpos (not_lt.mp h)).symm

theorem sqrt_lt_r_iff (r t : ℝ) (hr : 0 < r) : Real.sqrt t < r ↔ t < r * r := by
  rw [Real.sqrt_lt' hr, sq]

theorem core_eq_integral_sl (xmin ymin xmax ymax r : ℝ) (hr : 0 < r) (hx : 0 ≤ xmin) (hy : 0 ≤ ymin)
    (hxx : xmin ≤ xmax) (hyy : ymin ≤ ymax) :
    core xmin ymin xmax ymax r = ∫ x in xmin..xmax, sl r ymin ymax x := by
  have hy' : 0 ≤ ymax := le_trans hy hyy
  have hx' : 0 ≤ xmax := le_trans hx hxx
  unfold core
  simp only [floorSqrt_eq, sqrt_lt_r_iff _ _ hr]
  have e : ∀ t, Real.sqrt (r * r - t * t) = hs r t := fun t => rfl
  simp only [e]
  split_ifs with c1 c2 c3 c4 c5
  · exact (int_zero r ymin ymax xmin xmax hy hx hxx c1.le).symm
  · rw [int_top r ymin ymax xmin xmax hy' hyy hx hxx c2.le]; ring
  · exact branchA xmin ymin xmax ymax r hr hx hy hxx hyy c3.1 c3.2 (not_lt.mp c2)
  · exact branchB xmin ymin xmax ymax r hr hx hy hxx hyy c4 (not_lt.mp (fun h => c3 ⟨c4, h⟩))
  · exact branchC xmin ymin xmax ymax r hr hx hy hxx hyy (not_lt.mp c4) c5
  · exact branchD xmin ymin xmax ymax r hr hx hy hxx hyy (not_lt.mp c1) (not_lt.mp c4) (not_lt.mp c5)

/-- **the area identity**: `circular_overlap_core` is the integral of the length of the vertical
slice of (rectangle ∩ open disk), for every first-quadrant rectangle (all six branches). -/
theorem core_eq_integral (xmin ymin xmax ymax r : ℝ) (hr : 0 < r) (hx : 0 ≤ xmin) (hy : 0 ≤ ymin)
    (hxx : xmin ≤ xmax) (hyy : ymin ≤ ymax) :
    core xmin ymin xmax ymax r =
      ∫ x in xmin..xmax, max 0 (min ymax (Real.sqrt (r * r - x * x)) - ymin) :=
  core_eq_integral_sl xmin ymin xmax ymax r hr hx hy hxx hyy

/-! ### general rectangles: signed clamp, slice length, Lebesgue measure -/

/-- `t` clamped to `[-s, s]`, `s = √(r² − x²)`: signed length of `{y between 0 and t : x²+y²<r²}`. -/
noncomputable def clampS (r x t : ℝ) : ℝ := max (-(hs r x)) (min (hs r x) t)

/-- length of `{y ∈ [ymin, ymax] : x² + y² < r²}` (for `ymin ≤ ymax`, any signs); symmetric
under `y ↦ -y` and `x ↦ -x`, additive in the `y`-interval. -/
noncomputable def sliceLen (r ymin ymax x : ℝ) : ℝ := clampS r x ymax - clampS r x ymin

theorem clampS_mono (r x : ℝ) {s t : ℝ} (h : s ≤ t) : clampS r x s ≤ clampS r x t := by
  unfold clampS
  exact max_le_max le_rfl (min_le_min le_rfl h)

theorem clampS_neg (r x t : ℝ) : clampS r x (-t) = -clampS r x t := by
  have := hs_nonneg r x
  unfold clampS
  simp only [max_def, min_def]
  split_ifs <;> linarith

theorem hs_neg (r x : ℝ) : hs r (-x) = hs r x := by
  unfold hs; congr 1; ring

theorem clampS_negx (r x t : ℝ) : clampS r (-x) t = clampS r x t := by
  unfold clampS; rw [hs_neg]

theorem sliceLen_nonneg (r ymin ymax x : ℝ) (h : ymin ≤ ymax) : 0 ≤ sliceLen r ymin ymax x :=
  sub_nonneg.mpr (clampS_mono r x h)

theorem sliceLen_le (r ymin ymax x : ℝ) (h : ymin ≤ ymax) : sliceLen r ymin ymax x ≤ ymax - ymin := by
  have := hs_nonneg r x
  unfold sliceLen clampS
  simp only [max_def, min_def]
  split_ifs <;> linarith

/-- the explicit form of the slice length. -/
theorem sliceLen_eq (r ymin ymax x : ℝ) (h : ymin ≤ ymax) :
    sliceLen r ymin ymax x = max 0 (min ymax (hs r x) - max ymin (-(hs r x))) := by
  have := hs_nonneg r x
  unfold sliceLen clampS
  simp only [max_def, min_def]
  split_ifs <;> linarith

theorem sliceLen_q1 (r ymin ymax x : ℝ) (hy : 0 ≤ ymin) (h : ymin ≤ ymax) :
    sliceLen r ymin ymax x = sl r ymin ymax x := by
  have := hs_nonneg r x
  unfold sliceLen clampS sl
  simp only [max_def, min_def]
  split_ifs <;> linarith

theorem sliceLen_negy (r ymin ymax x : ℝ) :
    sliceLen r (-ymax) (-ymin) x = sliceLen r ymin ymax x := by
  unfold sliceLen; rw [clampS_neg, clampS_neg]; ring

theorem sliceLen_negx (r ymin ymax x : ℝ) : sliceLen r ymin ymax (-x) = sliceLen r ymin ymax x := by
  unfold sliceLen; rw [clampS_negx, clampS_negx]

theorem sliceLen_add (r a m b x : ℝ) : sliceLen r a m x + sliceLen r m b x = sliceLen r a b x := by
  unfold sliceLen; ring

theorem continuous_clampS (r t : ℝ) : Continuous fun x => clampS r x t := by
  unfold clampS; have := continuous_hs r; fun_prop

theorem continuous_sliceLen (r ymin ymax : ℝ) : Continuous (sliceLen r ymin ymax) := by
  unfold sliceLen
  exact (continuous_clampS r ymax).sub (continuous_clampS r ymin)

theorem sliceLen_integrable (r ymin ymax a b : ℝ) :
    IntervalIntegrable (sliceLen r ymin ymax) MeasureTheory.volume a b :=
  (continuous_sliceLen r ymin ymax).intervalIntegrable _ _

/-- the slice really is the slice: membership in the open disk ⇔ strictly between the clamps. -/
theorem mem_Ioo_clampS (r x y b d : ℝ) :
    y ∈ Set.Ioo (clampS r x b) (clampS r x d) ↔ b < y ∧ y < d ∧ x ^ 2 + y ^ 2 < r ^ 2 := by
  have hs0 := hs_nonneg r x
  have key : x ^ 2 + y ^ 2 < r ^ 2 ↔ -(hs r x) < y ∧ y < hs r x := by
    unfold hs
    rw [← Real.sq_lt]
    constructor <;> intro h <;> nlinarith
  rw [key]
  unfold clampS
  simp only [Set.mem_Ioo, max_lt_iff, lt_max_iff, min_lt_iff, lt_min_iff]
  constructor
  · rintro ⟨⟨h1, h2⟩, h3⟩
    rcases h3 with h3 | ⟨h3, h4⟩
    · linarith
    · rcases h2 with h2 | h2
      · linarith
      · exact ⟨h2, h4, h1, h3⟩
  · rintro ⟨h1, h2, h3, h4⟩
    exact ⟨⟨h3, Or.inr h1⟩, Or.inr ⟨h4, h2⟩⟩

/-- **Lebesgue measure of (rectangle ∩ open disk)** for any rectangle. -/
theorem volume_rect_disk (a b c d r : ℝ) (hac : a ≤ c) (hbd : b ≤ d) :
    MeasureTheory.volume {p : ℝ × ℝ | p.1 ∈ Set.Icc a c ∧ b < p.2 ∧ p.2 < d ∧ p.1 ^ 2 + p.2 ^ 2 < r ^ 2}
      = ENNReal.ofReal (∫ x in a..c, sliceLen r b d x) := by
  have hset : {p : ℝ × ℝ | p.1 ∈ Set.Icc a c ∧ b < p.2 ∧ p.2 < d ∧ p.1 ^ 2 + p.2 ^ 2 < r ^ 2}
      = regionBetween (fun x => clampS r x b) (fun x => clampS r x d) (Set.Icc a c) := by
    ext p
    simp only [regionBetween, Set.mem_ofPred_eq]
    rw [mem_Ioo_clampS]
  rw [hset, MeasureTheory.Measure.volume_eq_prod,
    volume_regionBetween_eq_integral (continuous_clampS r b).integrableOn_Icc
      (continuous_clampS r d).integrableOn_Icc measurableSet_Icc
      (fun x _ => clampS_mono r x hbd),
    intervalIntegral.integral_of_le hac, MeasureTheory.integral_Icc_eq_integral_Ioc]
  rfl

/-- **`circular_overlap_core` is the Lebesgue measure of (rectangle ∩ open disk)**. -/
theorem core_eq_volume (xmin ymin xmax ymax r : ℝ) (hr : 0 < r) (hx : 0 ≤ xmin) (hy : 0 ≤ ymin)
    (hxx : xmin ≤ xmax) (hyy : ymin ≤ ymax) :
    MeasureTheory.volume {p : ℝ × ℝ | p.1 ∈ Set.Icc xmin xmax ∧ ymin < p.2 ∧ p.2 < ymax ∧
        p.1 ^ 2 + p.2 ^ 2 < r ^ 2}
      = ENNReal.ofReal (core xmin ymin xmax ymax r) := by
  rw [volume_rect_disk xmin ymin xmax ymax r hxx hyy, core_eq_integral_sl xmin ymin xmax ymax r hr hx hy hxx hyy]
  congr 1
  apply intervalIntegral.integral_congr
  intro x _
  exact sliceLen_q1 r ymin ymax x hy hyy


/-! ### stretch 1: the quadrant recursion computes the area of (rectangle ∩ disk) -/

theorem areaArc_tr (x1 y1 x2 y2 r : ℝ) : areaArc y1 x1 y2 x2 r = areaArc x1 y1 x2 y2 r := by
  have : distance y1 x1 y2 x2 = distance x1 y1 x2 y2 := by
    unfold distance; congr 1; ring
  unfold areaArc; rw [this]

theorem areaTriangle_tr (x1 y1 x2 y2 x3 y3 : ℝ) :
    areaTriangle y1 x1 y2 x2 y3 x3 = areaTriangle x1 y1 x2 y2 x3 y3 := by
  unfold areaTriangle
  rw [← abs_neg]; congr 2; ring

theorem areaTriangle_ts (x1 y1 x2 y2 x3 y3 : ℝ) :
    areaTriangle y2 x2 y1 x1 y3 x3 = areaTriangle x1 y1 x2 y2 x3 y3 := by
  unfold areaTriangle
  congr 2; ring

/-- `circular_overlap_core` is symmetric under the transposition `x ↔ y` (pure algebra). -/
theorem core_transpose (a b c d r : ℝ) : core a b c d r = core b a d c r := by
  unfold core
  simp only [floorSqrt_eq]
  rw [add_comm (b * b) (a * a), add_comm (d * d) (c * c), add_comm (d * d) (a * a),
    add_comm (b * b) (c * c)]
  by_cases h0 : a * a + b * b > r * r
  · simp only [if_pos h0]
  by_cases h1 : c * c + d * d < r * r
  · simp only [if_neg h0, if_pos h1]; ring
  by_cases h2 : Real.sqrt (c * c + b * b) < r <;> by_cases h3 : Real.sqrt (a * a + d * d) < r
  · simp only [if_neg h0, if_neg h1, h2, h3, and_self, if_true]
    rw [areaTriangle_ts, areaArc_symm, areaArc_tr]; ring
  · simp only [if_neg h0, if_neg h1, h2, h3, and_false, false_and, if_false, if_true]
    rw [areaArc_tr a _ c _, areaTriangle_tr a _ a b c b, areaTriangle_tr a _ c b c _]
  · simp only [if_neg h0, if_neg h1, h2, h3, and_true, and_false, if_false, if_true]
    rw [← areaArc_tr b _ d _, ← areaTriangle_tr b _ b a d a, ← areaTriangle_tr b _ d a d _]
  · simp only [if_neg h0, if_neg h1, h2, h3, and_self, if_false]
    rw [areaTriangle_ts, areaArc_symm, areaArc_tr]

/-- area of (rectangle `[a,c] × [b,d]` ∩ open disk of radius `r`), as an iterated integral. -/
noncomputable def rectArea (r a b c d : ℝ) : ℝ := ∫ x in a..c, sliceLen r b d x

theorem rectArea_q1 (r a b c d : ℝ) (hr : 0 < r) (ha : 0 ≤ a) (hb : 0 ≤ b) (hac : a ≤ c) (hbd : b ≤ d) :
    core a b c d r = rectArea r a b c d := by
  rw [core_eq_integral_sl a b c d r hr ha hb hac hbd]
  apply intervalIntegral.integral_congr
  intro x _
  exact (sliceLen_q1 r b d x hb hbd).symm

theorem rectArea_negy (r a b c d : ℝ) : rectArea r a (-d) c (-b) = rectArea r a b c d := by
  unfold rectArea
  simp only [sliceLen_negy]

theorem rectArea_negx (r a b c d : ℝ) : rectArea r (-c) b (-a) d = rectArea r a b c d := by
  unfold rectArea
  rw [← intervalIntegral.integral_comp_neg]
  simp only [sliceLen_negx]

theorem definite_area (n : Nat) (a b c d r : ℝ) (hr : 0 < r) (hac : a ≤ c) (hbd : b ≤ d)
    (hx : 0 ≤ a ∨ 0 ≥ c) (hy : 0 ≤ b ∨ 0 ≥ d) :
    singleExact (n + 1) a b c d r = some (rectArea r a b c d) := by
  by_cases h1 : 0 ≤ a <;> by_cases h2 : 0 ≤ b
  · rw [single_q1 n _ _ _ _ _ h1 h2, rectArea_q1 r a b c d hr h1 h2 hac hbd]
  · have h3 : 0 ≥ d := by tauto
    rw [single_q4 n _ _ _ _ _ h1 h2 h3, core_transpose,
      rectArea_q1 r a (-d) c (-b) hr h1 (by linarith) hac (by linarith), rectArea_negy]
  · have h3 : 0 ≥ c := by tauto
    rw [single_q2 n _ _ _ _ _ h1 h3 h2,
      rectArea_q1 r (-c) b (-a) d hr (by linarith) h2 (by linarith) hbd, rectArea_negx]
  · have h3 : 0 ≥ c := by tauto
    have h4 : 0 ≥ d := by tauto
    rw [single_q3 n _ _ _ _ _ h1 h3 h2 h4,
      rectArea_q1 r (-c) (-d) (-a) (-b) hr (by linarith) (by linarith) (by linarith) (by linarith),
      rectArea_negx, rectArea_negy]

/-- **the quadrant recursion returns the area of (rectangle ∩ open disk)**, for every rectangle
(any signs) — fuel 2 or more. -/
theorem singleExact_eq_area (n : Nat) (xmin ymin xmax ymax r : ℝ) (hr : 0 < r)
    (hxx : xmin ≤ xmax) (hyy : ymin ≤ ymax) :
    singleExact (n + 2) xmin ymin xmax ymax r = some (rectArea r xmin ymin xmax ymax) := by
  apply single_additive n xmin ymin xmax ymax r hxx hyy (fun a b c d => rectArea r a b c d)
  · intro a b c d _ h2 _ _ h5 _ hx hy
    exact definite_area n a b c d r hr h2 h5 hx hy
  · intro a b c d m
    exact intervalIntegral.integral_add_adjacent_intervals (sliceLen_integrable r b d a m)
      (sliceLen_integrable r b d m c)
  · intro a b c d m
    show rectArea r a b c m + rectArea r a m c d = rectArea r a b c d
    unfold rectArea
    rw [← intervalIntegral.integral_add (sliceLen_integrable r b m a c) (sliceLen_integrable r m d a c)]
    simp only [sliceLen_add]

/-- the model's call (`fuel = 3`), integral form with the explicit slice length. -/
theorem singleExact_eq_integral (xmin ymin xmax ymax r : ℝ) (hr : 0 < r)
    (hxx : xmin ≤ xmax) (hyy : ymin ≤ ymax) :
    singleExact 3 xmin ymin xmax ymax r =
      some (∫ x in xmin..xmax,
        max 0 (min ymax (Real.sqrt (r * r - x * x)) - max ymin (-Real.sqrt (r * r - x * x)))) := by
  rw [show (3 : Nat) = 1 + 2 from rfl, singleExact_eq_area 1 xmin ymin xmax ymax r hr hxx hyy]
  congr 1
  apply intervalIntegral.integral_congr
  intro x _
  exact sliceLen_eq r ymin ymax x hyy

/-- … and the measure-theoretic form. -/
theorem singleExact_eq_volume (xmin ymin xmax ymax r : ℝ) (hr : 0 < r)
    (hxx : xmin ≤ xmax) (hyy : ymin ≤ ymax) :
    ∃ A, singleExact 3 xmin ymin xmax ymax r = some A ∧
      MeasureTheory.volume {p : ℝ × ℝ | p.1 ∈ Set.Icc xmin xmax ∧ ymin < p.2 ∧ p.2 < ymax ∧
        p.1 ^ 2 + p.2 ^ 2 < r ^ 2} = ENNReal.ofReal A :=
  ⟨_, singleExact_eq_area 1 xmin ymin xmax ymax r hr hxx hyy,
    volume_rect_disk xmin ymin xmax ymax r hxx hyy⟩

/-! ### stretch 2: the grid cell in 'exact' mode is area(pixel ∩ disk) / area(pixel) -/

theorem sliceLen_zero_of_outside (r b d x : ℝ) (hbd : b ≤ d)
    (h : ∀ y, b ≤ y → y ≤ d → r * r ≤ x * x + y * y) : sliceLen r b d x = 0 := by
  have s0 := hs_nonneg r x
  by_cases hpos : r * r - x * x ≤ 0
  · have hz : hs r x = 0 := Real.sqrt_eq_zero'.mpr hpos
    unfold sliceLen clampS
    rw [hz]
    simp only [max_def, min_def]
    split_ifs <;> linarith
  · have hsq : hs r x * hs r x = r * r - x * x := hs_sq r x (by linarith)
    have spos : 0 < hs r x := by
      rcases s0.lt_or_eq with h' | h'
      · exact h'
      · rw [← h'] at hsq; linarith
    have fin : hs r x ≤ b ∨ d ≤ -(hs r x) := by
      by_contra hc
      rw [not_or] at hc
      obtain ⟨hc1, hc2⟩ := hc
      have hc1 := not_le.mp hc1
      have hc2 := not_le.mp hc2
      by_cases hb0 : 0 ≤ b
      · have := h b le_rfl hbd; nlinarith
      · by_cases hd0 : d ≤ 0
        · have := h d hbd le_rfl; nlinarith
        · have := h 0 (by linarith) (by linarith); nlinarith
    unfold sliceLen clampS
    simp only [max_def, min_def]
    rcases fin with f | f <;> split_ifs <;> linarith

theorem sliceLen_full_of_inside (r b d x : ℝ)
    (hb : x * x + b * b < r * r) (hd : x * x + d * d < r * r) : sliceLen r b d x = d - b := by
  have hb' := Real.sq_lt.mp (show b ^ 2 < r * r - x * x by nlinarith)
  have hd' := Real.sq_lt.mp (show d ^ 2 < r * r - x * x by nlinarith)
  have e : Real.sqrt (r * r - x * x) = hs r x := rfl
  rw [e] at hb' hd'
  unfold sliceLen clampS
  simp only [max_def, min_def]
  split_ifs <;> linarith

theorem rectArea_zero_of_outside (r a b c d : ℝ) (hac : a ≤ c) (hbd : b ≤ d)
    (h : ∀ x y, a ≤ x → x ≤ c → b ≤ y → y ≤ d → r * r ≤ x * x + y * y) : rectArea r a b c d = 0 := by
  unfold rectArea
  have : ∫ x in a..c, sliceLen r b d x = ∫ x in a..c, (0 : ℝ) := by
    apply intervalIntegral.integral_congr
    intro x hx
    rw [Set.uIcc_of_le hac] at hx
    exact sliceLen_zero_of_outside r b d x hbd (fun y h1 h2 => h x y hx.1 hx.2 h1 h2)
  rw [this, intervalIntegral.integral_const, smul_eq_mul, mul_zero]

theorem rectArea_full_of_covered (r a b c d : ℝ) (hac : a ≤ c) (hbd : b ≤ d)
    (h : Covered a b c d r) : rectArea r a b c d = (c - a) * (d - b) := by
  unfold rectArea
  have : ∫ x in a..c, sliceLen r b d x = ∫ x in a..c, (d - b) := by
    apply intervalIntegral.integral_congr
    intro x hx
    rw [Set.uIcc_of_le hac] at hx
    exact sliceLen_full_of_inside r b d x (h x b hx.1 hx.2 le_rfl hbd) (h x d hx.1 hx.2 hbd le_rfl)
  rw [this, intervalIntegral.integral_const, smul_eq_mul]

theorem rectArea_nonneg (r a b c d : ℝ) (hac : a ≤ c) (hbd : b ≤ d) : 0 ≤ rectArea r a b c d :=
  intervalIntegral.integral_nonneg hac (fun x _ => sliceLen_nonneg r b d x hbd)

theorem rectArea_le (r a b c d : ℝ) (hac : a ≤ c) (hbd : b ≤ d) :
    rectArea r a b c d ≤ (c - a) * (d - b) := by
  have := intervalIntegral.integral_mono_on hac (sliceLen_integrable r b d a c)
    (intervalIntegrable_const (c := d - b)) (fun x _ => sliceLen_le r b d x hbd)
  rw [intervalIntegral.integral_const, smul_eq_mul] at this
  exact this

theorem ss_nonneg (a b : ℝ) : 0 ≤ a * a + b * b := add_nonneg (mul_self_nonneg a) (mul_self_nonneg b)

/-- Minkowski / triangle inequality in the plane, by hand. -/
theorem mink (p q u v : ℝ) :
    Real.sqrt ((p + u) * (p + u) + (q + v) * (q + v)) ≤
      Real.sqrt (p * p + q * q) + Real.sqrt (u * u + v * v) := by
  have hcs : p * u + q * v ≤ Real.sqrt (p * p + q * q) * Real.sqrt (u * u + v * v) := by
    rw [← Real.sqrt_mul (ss_nonneg p q)]
    apply Real.le_sqrt_of_sq_le
    nlinarith [sq_nonneg (p * v - q * u)]
  have h1 := Real.mul_self_sqrt (ss_nonneg p q)
  have h2 := Real.mul_self_sqrt (ss_nonneg u v)
  rw [Real.sqrt_le_iff]
  refine ⟨by positivity, ?_⟩
  nlinarith

theorem near_centre (cx cy x y dx dy : ℝ) (hx : (x - cx) * (x - cx) ≤ dx * dx / 4)
    (hy : (y - cy) * (y - cy) ≤ dy * dy / 4) :
    Real.sqrt (x * x + y * y) ≤ Real.sqrt (cx * cx + cy * cy) + 0.5 * Real.sqrt (dx * dx + dy * dy) ∧
    Real.sqrt (cx * cx + cy * cy) ≤ Real.sqrt (x * x + y * y) + 0.5 * Real.sqrt (dx * dx + dy * dy) := by
  have hQ : Real.sqrt ((x - cx) * (x - cx) + (y - cy) * (y - cy)) ≤ 0.5 * Real.sqrt (dx * dx + dy * dy) := by
    rw [Real.sqrt_le_iff]
    refine ⟨by positivity, ?_⟩
    rw [mul_pow, Real.sq_sqrt (ss_nonneg dx dy)]
    norm_num
    linarith
  have hQ' : Real.sqrt ((cx - x) * (cx - x) + (cy - y) * (cy - y)) ≤ 0.5 * Real.sqrt (dx * dx + dy * dy) := by
    have : (cx - x) * (cx - x) + (cy - y) * (cy - y) = (x - cx) * (x - cx) + (y - cy) * (y - cy) := by ring
    rw [this]; exact hQ
  have m1 := mink cx cy (x - cx) (y - cy)
  have m2 := mink x y (cx - x) (cy - y)
  rw [show cx + (x - cx) = x by ring, show cy + (y - cy) = y by ring] at m1
  rw [show x + (cx - x) = cx by ring, show y + (cy - y) = cy by ring] at m2
  exact ⟨by linarith, by linarith⟩

theorem in_pixel_near (p d x : ℝ) (h1 : p ≤ x) (h2 : x ≤ p + d) :
    (x - (p + d * 0.5)) * (x - (p + d * 0.5)) ≤ d * d / 4 := by
  have e : (0.5 : ℝ) = 1 / 2 := by norm_num
  rw [e]
  nlinarith [mul_nonneg (sub_nonneg.mpr h1) (sub_nonneg.mpr h2)]

/-- **one grid cell in 'exact' mode = area(pixel ∩ open disk) / area(pixel)** — through the
skip box, both fast paths and the quadrant recursion. -/
theorem exactCell_eq_area (pxmin pymin dx dy r : ℝ) (hdx : 0 < dx) (hdy : 0 < dy) (hr : 0 < r) :
    exactCell pxmin pymin dx dy r =
      some (rectArea r pxmin pymin (pxmin + dx) (pymin + dy) / (dx * dy)) := by
  have hxx : pxmin ≤ pxmin + dx := by linarith
  have hyy : pymin ≤ pymin + dy := by linarith
  have hA : 0 < dx * dy := by positivity
  have e5 : (0.5 : ℝ) = 1 / 2 := by norm_num
  have zero : (∀ x y, pxmin ≤ x → x ≤ pxmin + dx → pymin ≤ y → y ≤ pymin + dy → r * r ≤ x * x + y * y) →
      (some 0 : Option ℝ) = some (rectArea r pxmin pymin (pxmin + dx) (pymin + dy) / (dx * dy)) := by
    intro h
    rw [rectArea_zero_of_outside r _ _ _ _ hxx hyy h, zero_div]
  unfold exactCell
  simp only
  split_ifs with c1 c2 c3 c4
  · -- fast path "inside"
    have hc : Covered pxmin pymin (pxmin + dx) (pymin + dy) r := by
      intro x y h1 h2 h3 h4
      have := (near_centre (pxmin + dx * 0.5) (pymin + dy * 0.5) x y dx dy
        (in_pixel_near pxmin dx x h1 h2) (in_pixel_near pymin dy y h3 h4)).1
      have hlt : Real.sqrt (x * x + y * y) < r := by linarith
      rw [Real.sqrt_lt' hr] at hlt
      linarith
    rw [rectArea_full_of_covered r _ _ _ _ hxx hyy hc]
    congr 1
    field_simp
    ring
  · -- the quadrant recursion
    rw [show (3 : Nat) = 1 + 2 from rfl, singleExact_eq_area 1 _ _ _ _ r hr hxx hyy]
    rfl
  · -- fast path "outside"
    apply zero
    intro x y h1 h2 h3 h4
    have := (near_centre (pxmin + dx * 0.5) (pymin + dy * 0.5) x y dx dy
      (in_pixel_near pxmin dx x h1 h2) (in_pixel_near pymin dy y h3 h4)).2
    have hle : r ≤ Real.sqrt (x * x + y * y) := by linarith [not_lt.mp c4]
    have h0 : 0 ≤ x * x + y * y := ss_nonneg x y
    rw [Real.le_sqrt hr.le h0] at hle
    linarith
  · -- skip box in y
    apply zero
    intro x y h1 h2 h3 h4
    rw [not_and_or, not_lt, not_lt] at c2
    rcases c2 with c2 | c2
    · nlinarith [mul_self_nonneg x]
    · nlinarith [mul_self_nonneg x]
  · -- skip box in x
    apply zero
    intro x y h1 h2 h3 h4
    rw [not_and_or, not_lt, not_lt] at c1
    rcases c1 with c1 | c1
    · nlinarith [mul_self_nonneg y]
    · nlinarith [mul_self_nonneg y]

/-- hence every 'exact' mask value lies in `[0, 1]`. -/
theorem exactCell_mem_unit (pxmin pymin dx dy r : ℝ) (hdx : 0 < dx) (hdy : 0 < dy) (hr : 0 < r) :
    ∃ v, exactCell pxmin pymin dx dy r = some v ∧ 0 ≤ v ∧ v ≤ 1 := by
  refine ⟨_, exactCell_eq_area pxmin pymin dx dy r hdx hdy hr, ?_, ?_⟩
  · exact div_nonneg (rectArea_nonneg r _ _ _ _ (by linarith) (by linarith)) (by positivity)
  · rw [div_le_one (by positivity)]
    have := rectArea_le r pxmin pymin (pxmin + dx) (pymin + dy) (by linarith) (by linarith)
    linarith [show (pxmin + dx - pxmin) * (pymin + dy - pymin) = dx * dy by ring]

/-- … and is the Lebesgue measure of (open pixel-in-y, closed-in-x ∩ open disk) over `dx·dy`. -/
theorem exactCell_eq_volume (pxmin pymin dx dy r : ℝ) (hdx : 0 < dx) (hdy : 0 < dy) (hr : 0 < r) :
    ∃ v, exactCell pxmin pymin dx dy r = some v ∧
      MeasureTheory.volume {p : ℝ × ℝ | p.1 ∈ Set.Icc pxmin (pxmin + dx) ∧ pymin < p.2 ∧
        p.2 < pymin + dy ∧ p.1 ^ 2 + p.2 ^ 2 < r ^ 2} = ENNReal.ofReal (v * (dx * dy)) := by
  refine ⟨_, exactCell_eq_area pxmin pymin dx dy r hdx hdy hr, ?_⟩
  rw [volume_rect_disk pxmin pymin (pxmin + dx) (pymin + dy) r (by linarith) (by linarith)]
  congr 1
  have : dx * dy ≠ 0 := by positivity
  unfold rectArea
  field_simp

/-! ### stretch 3: the 'exact' mask of a grid that covers the disk sums to `π r²` -/

theorem rectArea_add_x (r a b c d m : ℝ) : rectArea r a b m d + rectArea r m b c d = rectArea r a b c d :=
  intervalIntegral.integral_add_adjacent_intervals (sliceLen_integrable r b d a m)
    (sliceLen_integrable r b d m c)

theorem rectArea_add_y (r a b c d m : ℝ) : rectArea r a b c m + rectArea r a m c d = rectArea r a b c d := by
  unfold rectArea
  rw [← intervalIntegral.integral_add (sliceLen_integrable r b m a c) (sliceLen_integrable r m d a c)]
  simp only [sliceLen_add]

theorem rectArea_sum_y (r a c y0 dy : ℝ) (ny : ℕ) :
    ∑ j ∈ Finset.range ny, rectArea r a (y0 + j * dy) c (y0 + j * dy + dy) =
      rectArea r a y0 c (y0 + ny * dy) := by
  induction ny with
  | zero => simp [rectArea, sliceLen]
  | succ n ih =>
    rw [Finset.sum_range_succ, ih, rectArea_add_y]
    congr 1; push_cast; ring

theorem rectArea_sum_x (r x0 dx b d : ℝ) (nx : ℕ) :
    ∑ i ∈ Finset.range nx, rectArea r (x0 + i * dx) b (x0 + i * dx + dx) d =
      rectArea r x0 b (x0 + nx * dx) d := by
  induction nx with
  | zero => simp [rectArea]
  | succ n ih =>
    rw [Finset.sum_range_succ, ih, rectArea_add_x]
    congr 1; push_cast; ring

theorem hs_zero_of (r x : ℝ) (h : r * r ≤ x * x) : hs r x = 0 :=
  Real.sqrt_eq_zero'.mpr (by linarith)

theorem hs_le_r (r x : ℝ) (hr : 0 < r) : hs r x ≤ r :=
  hs_le r r x hr.le (by nlinarith [mul_self_nonneg x])

theorem sliceLen_through (r b d x : ℝ) (hr : 0 < r) (hb : b ≤ -r) (hd : r ≤ d) :
    sliceLen r b d x = 2 * hs r x := by
  have h0 := hs_nonneg r x
  have h1 := hs_le_r r x hr
  unfold sliceLen clampS
  simp only [max_def, min_def]
  split_ifs <;> linarith

/-- the half-disk: `∫ √(r² − x²) = π r² / 2` over any interval containing `[-r, r]`. -/
theorem integral_hs_full (r X0 X1 : ℝ) (hr : 0 < r) (h0 : X0 ≤ -r) (h1 : r ≤ X1) :
    ∫ x in X0..X1, hs r x = Real.pi * r ^ 2 / 2 := by
  have ii := fun a b => (continuous_hs r).intervalIntegrable (μ := MeasureTheory.volume) a b
  have z1 : ∫ x in X0..(-r), hs r x = 0 := by
    have : ∫ x in X0..(-r), hs r x = ∫ x in X0..(-r), (0 : ℝ) := by
      apply intervalIntegral.integral_congr
      intro x hx
      rw [Set.uIcc_of_le h0] at hx
      exact hs_zero_of r x (by nlinarith [hx.2])
    rw [this, intervalIntegral.integral_const, smul_eq_mul, mul_zero]
  have z2 : ∫ x in r..X1, hs r x = 0 := by
    have : ∫ x in r..X1, hs r x = ∫ x in r..X1, (0 : ℝ) := by
      apply intervalIntegral.integral_congr
      intro x hx
      rw [Set.uIcc_of_le h1] at hx
      exact hs_zero_of r x (by nlinarith [hx.1])
    rw [this, intervalIntegral.integral_const, smul_eq_mul, mul_zero]
  have m : ∫ x in (-r)..r, hs r x = Real.pi * r ^ 2 / 2 := by
    rw [integral_hs r (-r) r hr le_rfl (by linarith) le_rfl]
    unfold FF
    rw [hs_zero_of r r le_rfl, hs_zero_of r (-r) (by nlinarith), div_self hr.ne', neg_div,
      div_self hr.ne', Real.arcsin_one, Real.arcsin_neg_one]
    ring
  rw [← intervalIntegral.integral_add_adjacent_intervals (ii X0 r) (ii r X1),
    ← intervalIntegral.integral_add_adjacent_intervals (ii X0 (-r)) (ii (-r) r), z1, z2, m]
  ring

/-- a rectangle containing the disk: the area is `π r²`. -/
theorem rectArea_full_disk (r a b c d : ℝ) (hr : 0 < r) (ha : a ≤ -r) (hc : r ≤ c) (hb : b ≤ -r)
    (hd : r ≤ d) : rectArea r a b c d = Real.pi * r ^ 2 := by
  unfold rectArea
  have : ∫ x in a..c, sliceLen r b d x = ∫ x in a..c, 2 * hs r x := by
    apply intervalIntegral.integral_congr
    intro x _
    exact sliceLen_through r b d x hr hb hd
  rw [this, intervalIntegral.integral_const_mul, integral_hs_full r a c hr ha hc]
  ring

/-- **the 'exact' mask over any pixel grid that covers the disk sums to `π r²`** (mask values
times the pixel area). -/
theorem exact_grid_sum (x0 y0 dx dy r : ℝ) (nx ny : ℕ) (hdx : 0 < dx) (hdy : 0 < dy) (hr : 0 < r)
    (hx0 : x0 ≤ -r) (hx1 : r ≤ x0 + nx * dx) (hy0 : y0 ≤ -r) (hy1 : r ≤ y0 + ny * dy) :
    ∑ i ∈ Finset.range nx, ∑ j ∈ Finset.range ny,
        (exactCell (x0 + i * dx) (y0 + j * dy) dx dy r).getD 0 * (dx * dy) = Real.pi * r ^ 2 := by
  have hne : dx * dy ≠ 0 := by positivity
  have cell : ∀ i j : ℕ, (exactCell (x0 + i * dx) (y0 + j * dy) dx dy r).getD 0 * (dx * dy) =
      rectArea r (x0 + i * dx) (y0 + j * dy) (x0 + i * dx + dx) (y0 + j * dy + dy) := by
    intro i j
    rw [exactCell_eq_area _ _ dx dy r hdx hdy hr, Option.getD_some, div_mul_cancel₀ _ hne]
  simp only [cell]
  simp only [rectArea_sum_y, rectArea_sum_x]
  exact rectArea_full_disk r _ _ _ _ hr hx0 hx1 hy0 hy1

/-! ### corollaries and non-vacuity -/

theorem core_nonneg (xmin ymin xmax ymax r : ℝ) (hr : 0 < r) (hx : 0 ≤ xmin) (hy : 0 ≤ ymin)
    (hxx : xmin ≤ xmax) (hyy : ymin ≤ ymax) : 0 ≤ core xmin ymin xmax ymax r := by
  rw [rectArea_q1 r xmin ymin xmax ymax hr hx hy hxx hyy]
  exact rectArea_nonneg r _ _ _ _ hxx hyy

theorem core_le_area (xmin ymin xmax ymax r : ℝ) (hr : 0 < r) (hx : 0 ≤ xmin) (hy : 0 ≤ ymin)
    (hxx : xmin ≤ xmax) (hyy : ymin ≤ ymax) :
    core xmin ymin xmax ymax r ≤ (xmax - xmin) * (ymax - ymin) := by
  rw [rectArea_q1 r xmin ymin xmax ymax hr hx hy hxx hyy]
  exact rectArea_le r _ _ _ _ hxx hyy

-- "neither" branch (D): r = 1, rectangle [1/2, 9/10]²
example : core (1 / 2) (1 / 2) (9 / 10) (9 / 10) 1 =
    ∫ x in (1 / 2 : ℝ)..(9 / 10), max 0 (min (9 / 10) (Real.sqrt (1 * 1 - x * x)) - 1 / 2) :=
  core_eq_integral _ _ _ _ _ (by norm_num) (by norm_num) (by norm_num) (by norm_num) (by norm_num)

-- … and it really is that branch: the formula used is arc + one triangle
example : core (1 / 2) (1 / 2) (9 / 10) (9 / 10) 1 =
    areaArc (hs 1 (1 / 2)) (1 / 2) (1 / 2) (hs 1 (1 / 2)) 1
      + areaTriangle (hs 1 (1 / 2)) (1 / 2) (1 / 2) (hs 1 (1 / 2)) (1 / 2) (1 / 2) := by
  unfold core
  simp only [floorSqrt_eq, sqrt_lt_r_iff _ _ (zero_lt_one' ℝ)]
  rw [if_neg (by norm_num), if_neg (by norm_num), if_neg (by norm_num), if_neg (by norm_num),
    if_neg (by norm_num)]
  rfl

-- `d1 < r ∧ d2 < r` branch (A): r = 1, rectangle [0, 4/5]²
example : core 0 0 (4 / 5) (4 / 5) 1 =
    ∫ x in (0 : ℝ)..(4 / 5), max 0 (min (4 / 5) (Real.sqrt (1 * 1 - x * x)) - 0) :=
  core_eq_integral _ _ _ _ _ (by norm_num) (by norm_num) (by norm_num) (by norm_num) (by norm_num)

example : (4 / 5 : ℝ) * (4 / 5) + 0 * 0 < 1 * 1 ∧ (0 : ℝ) * 0 + (4 / 5) * (4 / 5) < 1 * 1 ∧
    (1 : ℝ) * 1 ≤ (4 / 5) * (4 / 5) + (4 / 5) * (4 / 5) := by norm_num

-- a straddling pixel for the recursion and the grid cell
example : ∃ v, exactCell (-1 / 2) (1 / 2) 1 1 1 = some v ∧ 0 ≤ v ∧ v ≤ 1 :=
  exactCell_mem_unit _ _ _ _ _ (by norm_num) (by norm_num) (by norm_num)

-- a 4 × 4 grid of pixels of size 1 covering the disk of radius 2
example : ∑ i ∈ Finset.range 4, ∑ j ∈ Finset.range 4,
    (exactCell (-2 + i * 1) (-2 + j * 1) 1 1 2).getD 0 * (1 * 1) = Real.pi * 2 ^ 2 :=
  exact_grid_sum (-2) (-2) 1 1 2 4 4 (by norm_num) (by norm_num) (by norm_num) (by norm_num)
    (by norm_num) (by norm_num) (by norm_num)

end RegionsVerif.Props.C03

#print axioms RegionsVerif.Props.C03.core_eq_integral
#print axioms RegionsVerif.Props.C03.core_eq_volume
#print axioms RegionsVerif.Props.C03.singleExact_eq_integral
#print axioms RegionsVerif.Props.C03.singleExact_eq_volume
#print axioms RegionsVerif.Props.C03.exactCell_eq_area
#print axioms RegionsVerif.Props.C03.exactCell_eq_volume
#print axioms RegionsVerif.Props.C03.exactCell_mem_unit
#print axioms RegionsVerif.Props.C03.exact_grid_sum
