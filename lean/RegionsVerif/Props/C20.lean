/-
C20 — pixel coordinates behave as broadcast (x, y) arrays under every operation.

Theorems about `Impl.PixCoord` (the model of `regions/core/pixcoord.py`).  numpy broadcasting and
indexing are a stated parameter of the model (`Impl.NP`); `Lemmas/NDArr.lean` proves the facts about
that parameter which are needed here (identity broadcast, every read in range, result sizes, the
multi-index characterisation of the broadcast values, naturality).  Everything below is for ALL
shapes (any rank, zero-length axes included), all index expressions of the modelled language, all
element values of any ring / field / ordered field, and all unit vectors `(c, s)`, `c² + s² = 1`
(= all rotation angles in all units).

Clauses of the property and their theorems
* construction: `ctor_error_iff`, `ctor_shape`, `ctor_values`, `broadcast_scalar_scalar`,
  `ctor_scalar_iff`, `ctor_same_shape`, `ctor_array_scalar`
* indexing: `getitem_delegates` (index-then-pair = pair-then-index, same exception),
  `getitem_components`, `getitem_error`, `getitem_scalar`
* length / iteration: `iter_len_agree`, `len_iter_scalar`
* `+` / `-`: `add_componentwise`, `add_sub_inverse` (`_same`), `add_sub_type_error`, `add_sub_value_error`
* separation: `separation_euclid` (with the point facts `Pt.sep2_euclid/_symm/_nonneg/_eq_zero_iff`)
* rotation: `rotate_ok` (= point-wise `Pt.rotate` on the broadcast points), `rotate_isometry` (`_same`),
  `rotate_compose`, `rotate_fixes_center`, `rotate_inverse` (`_same`), `rotate_center_dist`, `rotate_err`
  (with `Pt.rotate_*`, `unit_mul`)
* copies: `copy_independent` (trivial in a functional model — the real aliasing check is the harness's)
* sky: `sky_roundtrip` (`_origin01`) under the hypothesis that the WCS maps are mutually inverse
-/
import RegionsVerif.Impl.PixCoord
import RegionsVerif.Lemmas.NDArr
import Mathlib.Tactic.Ring
import Mathlib.Tactic.Linarith
import Mathlib.Tactic.LinearCombination
import Mathlib.Tactic.NormNum
import Mathlib.Algebra.Order.Field.Rat

namespace RegionsVerif.Props.C20
open RegionsVerif.Impl RegionsVerif.Impl.NP RegionsVerif.Lemmas.NDArr

variable {α β γ : Type}

/-! ## 2. construction: `x` and `y` are broadcast against each other -/
section ctor
variable [Zero α]

/-- the constructor fails exactly when the shapes do not broadcast, and then with `ValueError`. -/
theorem ctor_error_iff (x y : NDArr α) (e : PyErr) :
    PixCoord.ctor x y = .error e ↔ (bshape x.shape y.shape = none ∧ e = .valueError) := by
  unfold PixCoord.ctor
  split
  · rename_i h; simp [h, eq_comm]
  · rename_i s h; simp [h]

/-- **ctor_shape**: on success both attributes have the broadcast shape, hold the broadcast
values of the arguments, and the class invariant holds. -/
theorem ctor_shape (x y : NDArr α) (p : PixCoord α) (h : PixCoord.ctor x y = .ok p) :
    ∃ s, bshape x.shape y.shape = some s ∧ p.x = broadcastTo 0 x s ∧ p.y = broadcastTo 0 y s ∧
      p.x.shape = s ∧ p.y.shape = s ∧ p.WF := by
  unfold PixCoord.ctor at h
  split at h
  · simp at h
  · rename_i s hs
    simp only [Except.ok.injEq] at h; subst h
    obtain ⟨hl, -, -⟩ := bshape_spec hs
    refine ⟨s, hs, rfl, rfl, rfl, rfl, ?_, ?_, rfl⟩
    · exact broadcastTo_WF _ _ _ (by omega)
    · exact broadcastTo_WF _ _ _ (by omega)

/-- **the values are the broadcast values**: at every multi-index `mi` of the result shape, the
stored `x` (`y`) is the argument's element at the same multi-index with the stretched positions
(argument dimension 1, or missing on the left) set to 0. -/
theorem ctor_values (x y : NDArr α) (p : PixCoord α) (h : PixCoord.ctor x y = .ok p)
    (mi : List Nat) (hv : ValidIdx mi p.x.shape) :
    p.x.data[flatIdx p.x.shape mi]? = some (x.data.getD
      (flatIdx (pad p.x.shape.length x.shape) (bproj p.x.shape (pad p.x.shape.length x.shape) mi)) 0) ∧
    p.y.data[flatIdx p.x.shape mi]? = some (y.data.getD
      (flatIdx (pad p.x.shape.length y.shape) (bproj p.x.shape (pad p.x.shape.length y.shape) mi)) 0) := by
  obtain ⟨s, hs, hx, hy, hxs, -, -⟩ := ctor_shape x y p h
  obtain ⟨hl, -, -⟩ := bshape_spec hs
  rw [hxs] at hv ⊢
  rw [hx, hy]
  exact ⟨broadcastTo_get 0 x s mi hv (by omega), broadcastTo_get 0 y s mi hv (by omega)⟩

/-- arguments of equal shape are stored unchanged. -/
theorem ctor_same_shape (x y : NDArr α) (hx : x.WF) (hy : y.WF) (h : x.shape = y.shape) :
    PixCoord.ctor x y = .ok ⟨x, y⟩ := by
  unfold PixCoord.ctor
  rw [← h, bshape_self]
  simp only
  rw [broadcastTo_self 0 x hx]
  have : broadcastTo 0 y x.shape = y := by rw [h]; exact broadcastTo_self 0 y hy
  rw [this]

/-- **broadcast_scalar_scalar**: a scalar pair stays scalar, with the same values. -/
theorem broadcast_scalar_scalar (u v : α) :
    PixCoord.ctor (NDArr.scalar u) (NDArr.scalar v) = .ok ⟨NDArr.scalar u, NDArr.scalar v⟩ ∧
    (PixCoord.mk (NDArr.scalar u) (NDArr.scalar v)).isscalar = true := by
  refine ⟨ctor_same_shape _ _ ?_ ?_ rfl, rfl⟩ <;> simp [NDArr.WF, NDArr.scalar]

/-- the result is scalar only when both arguments are. -/
theorem ctor_scalar_iff (x y : NDArr α) (p : PixCoord α) (h : PixCoord.ctor x y = .ok p) :
    p.isscalar = true ↔ (x.shape = [] ∧ y.shape = []) := by
  obtain ⟨s, hs, -, -, hxs, -, -⟩ := ctor_shape x y p h
  obtain ⟨hl, -, -⟩ := bshape_spec hs
  unfold PixCoord.isscalar
  rw [hxs, List.isEmpty_iff]
  constructor
  · intro h0; subst h0
    simp only [List.length_nil] at hl
    exact ⟨List.length_eq_zero_iff.mp (by omega), List.length_eq_zero_iff.mp (by omega)⟩
  · rintro ⟨h1, h2⟩
    rw [h1, h2] at hl
    exact List.length_eq_zero_iff.mp (by simpa using hl)

/-- a scalar argument is stretched over the whole shape of the other one. -/
theorem ctor_array_scalar (x : NDArr α) (v : α) (hx : x.WF) :
    PixCoord.ctor x (NDArr.scalar v) = .ok ⟨x, ⟨x.shape, List.replicate x.shape.prod v⟩⟩ := by
  have hb : bshape x.shape (NDArr.scalar v).shape = some x.shape := by
    simp only [NDArr.scalar, bshape, List.length_nil, Nat.max_zero, pad_self]
    apply (bzip_of_stretch _).2
    simp only [pad, List.length_nil, Nat.sub_zero, List.append_nil]
    generalize x.shape = t
    induction t with
    | nil => exact List.Forall₂.nil
    | cons n ns ih => exact List.Forall₂.cons (Or.inr rfl) ih
  unfold PixCoord.ctor
  rw [hb]
  simp only
  rw [broadcastTo_self 0 x hx, broadcastTo_scalar]

end ctor

/-! ## 3. indexing -/

theorem pts_shape (p : PixCoord α) : p.pts.shape = p.x.shape := rfl

theorem pts_WF (p : PixCoord α) (hp : p.WF) : p.pts.WF := by
  obtain ⟨hx, hy, hs⟩ := hp
  unfold NDArr.WF at *
  simp only [PixCoord.pts, List.length_zip, hx, hy, hs, Nat.min_self]

section getitem
variable [Zero α]

/-- a scalar coordinate cannot be indexed: `IndexError`, whatever the key. -/
theorem getitem_scalar (p : PixCoord α) (hs : p.isscalar = true) (key : List Ix) :
    p.getitem key = .error .indexError := by
  unfold PixCoord.getitem; simp [hs]

/-- indexing delegates to numpy on `x` and on `y`: the components of the result are exactly
`x[key]` and `y[key]` (the constructor's re-broadcast changes nothing), and the result satisfies
the class invariant. -/
theorem getitem_components (p : PixCoord α) (hp : p.WF) (hs : p.isscalar = false) (key : List Ix)
    (r : PixCoord α) (h : p.getitem key = .ok r) :
    NP.getitem 0 p.x key = .ok r.x ∧ NP.getitem 0 p.y key = .ok r.y ∧ r.WF := by
  unfold PixCoord.getitem at h
  simp only [hs, Bool.false_eq_true, if_false] at h
  split at h
  · simp at h
  · rename_i x hx
    split at h
    · simp at h
    · rename_i y hy
      have hsh : x.shape = y.shape :=
        (getitem_shape_indep 0 0 p.x p.y key hp.2.2).2 x y hx hy
      rw [ctor_same_shape x y (getitem_WF _ _ _ _ hx) (getitem_WF _ _ _ _ hy) hsh] at h
      simp only [Except.ok.injEq] at h; subst h
      exact ⟨hx, hy, getitem_WF _ _ _ _ hx, getitem_WF _ _ _ _ hy, hsh⟩

/-- … and it raises exactly what numpy raises on `x` (equivalently on `y`). -/
theorem getitem_error (p : PixCoord α) (hp : p.WF) (hs : p.isscalar = false) (key : List Ix)
    (e : PyErr) :
    p.getitem key = .error e ↔ NP.getitem 0 p.x key = .error e := by
  have hi := getitem_shape_indep (0 : α) (0 : α) p.x p.y key hp.2.2
  unfold PixCoord.getitem
  simp only [hs, Bool.false_eq_true, if_false]
  cases hx : NP.getitem 0 p.x key with
  | error e' => simp
  | ok x =>
    cases hy : NP.getitem 0 p.y key with
    | error e' => have := (hi.1 e').2 hy; rw [hx] at this; simp at this
    | ok y =>
      simp only
      rw [ctor_same_shape x y (getitem_WF _ _ _ _ hx) (getitem_WF _ _ _ _ hy) (hi.2 x y hx hy)]
      simp

/-- **getitem_delegates**: for EVERY index expression of the modelled language (ints, negative
ints, slices, integer and boolean arrays, Ellipsis, tuples of these), indexing the coordinate and
then pairing the components is the same as pairing first and indexing the array of points
`(x, y)` — same shape, same points in the same order, same exception. -/
theorem getitem_delegates (p : PixCoord α) (hp : p.WF) (hs : p.isscalar = false) (key : List Ix) :
    (p.getitem key).map PixCoord.pts = NP.getitem ((0 : α), (0 : α)) p.pts key := by
  obtain ⟨hx, hy, hsh⟩ := hp
  have hlen : p.x.data.length = p.y.data.length := by
    unfold NDArr.WF at hx hy; rw [hx, hy, hsh]
  unfold PixCoord.getitem
  simp only [hs, Bool.false_eq_true, if_false]
  unfold NP.getitem
  rw [pts_shape, ← hsh]
  cases hpl : plan p.x.shape key with
  | error e => rfl
  | ok v =>
    obtain ⟨s, idx⟩ := v
    simp only
    have hsz := plan_size _ _ _ _ hpl
    have hwx : (NDArr.mk s (gather 0 p.x.data idx)).WF := by simp [NDArr.WF, gather_length, hsz]
    have hwy : (NDArr.mk s (gather 0 p.y.data idx)).WF := by simp [NDArr.WF, gather_length, hsz]
    rw [ctor_same_shape _ _ hwx hwy rfl]
    simp only [Except.map, PixCoord.pts, Except.ok.injEq, NDArr.mk.injEq, true_and]
    exact (gather_zip 0 0 _ _ hlen idx).symm

end getitem

/-! ## 4. length and iteration -/

section iter
variable [Zero α]

/-- the `i`-th row of a coordinate. -/
def rowAt (p : PixCoord α) (rest : List Nat) (i : Nat) : PixCoord α :=
  ⟨⟨rest, (p.x.data.drop (i * rest.prod)).take rest.prod⟩,
   ⟨rest, (p.y.data.drop (i * rest.prod)).take rest.prod⟩⟩

omit [Zero α] in
theorem chunk_WF (a : NDArr α) (n : Nat) (rest : List Nat) (hs : a.shape = n :: rest) (hw : a.WF)
    (i : Nat) (hi : i < n) :
    (NDArr.mk rest ((a.data.drop (i * rest.prod)).take rest.prod)).WF := by
  unfold NDArr.WF at *
  rw [hs, List.prod_cons] at hw
  simp only [List.length_take, List.length_drop, hw]
  have : (i + 1) * rest.prod ≤ n * rest.prod := Nat.mul_le_mul_right _ hi
  rw [Nat.succ_mul] at this
  omega

theorem iter_eq (p : PixCoord α) (hp : p.WF) (n : Nat) (rest : List Nat) (hs : p.x.shape = n :: rest) :
    p.iter = .ok ((List.range n).map (rowAt p rest)) := by
  obtain ⟨hx, hy, hsh⟩ := hp
  have hsy : p.y.shape = n :: rest := hsh ▸ hs
  unfold PixCoord.iter PixCoord.isscalar
  rw [rows_eq p.x n rest hs, rows_eq p.y n rest hsy, hs]
  simp only [List.isEmpty_cons, Bool.false_eq_true, if_false, List.length_map, List.length_range,
    ne_eq, not_true_eq_false, List.zip_map']
  rw [List.mapM_map]  
  apply mapM_ok
  intro i hi
  simp only [List.mem_range] at hi
  exact ctor_same_shape _ _ (chunk_WF p.x n rest hs hx i hi) (chunk_WF p.y n rest hsy hy i hi) rfl

/-- a scalar coordinate has no length and cannot be iterated: `TypeError`. -/
theorem len_iter_scalar (p : PixCoord α) (hs : p.isscalar = true) :
    p.len = .error .typeError ∧ p.iter = .error .typeError := by
  unfold PixCoord.len PixCoord.iter; simp [hs]

/-- **iter_len_agree**: for a non-scalar coordinate `len` is the first dimension, iteration yields
exactly `len` items, the `i`-th item is `self[i]` (also `self[i - len]`), and every item
satisfies the class invariant with the remaining dimensions as its shape. -/
theorem iter_len_agree (p : PixCoord α) (hp : p.WF) (hs : p.isscalar = false) :
    ∃ (n : Nat) (items : List (PixCoord α)),
      p.len = .ok n ∧ p.iter = .ok items ∧ items.length = n ∧ p.x.shape.head? = some n ∧
      ∀ (i : Nat) (hi : i < items.length),
        p.getitem [Ix.int i] = .ok items[i] ∧ p.getitem [Ix.int ((i : Int) - n)] = .ok items[i] ∧
        items[i].WF ∧ items[i].x.shape = p.x.shape.tail := by
  have hne : p.x.shape ≠ [] := by
    intro h; simp [PixCoord.isscalar, h] at hs
  obtain ⟨n, rest, hsx⟩ := List.exists_cons_of_ne_nil hne
  have hsy : p.y.shape = n :: rest := hp.2.2 ▸ hsx
  refine ⟨n, (List.range n).map (rowAt p rest), ?_, iter_eq p hp n rest hsx, by simp, by simp [hsx], ?_⟩
  · unfold PixCoord.len; simp [hs, hsx]
  · intro i hi
    simp only [List.length_map, List.length_range] at hi
    have hget : ∀ j : Int, -(n : Int) ≤ j → j < n → (if j < 0 then j + n else j).toNat = i →
        p.getitem [Ix.int j] = .ok (rowAt p rest i) := by
      intro j h1 h2 hji
      unfold PixCoord.getitem
      simp only [hs, Bool.false_eq_true, if_false]
      rw [np_getitem_int 0 p.x n rest hsx hp.1 j h1 h2, np_getitem_int 0 p.y n rest hsy hp.2.1 j h1 h2, hji]
      exact ctor_same_shape _ _ (chunk_WF p.x n rest hsx hp.1 i hi) (chunk_WF p.y n rest hsy hp.2.1 i hi) rfl
    simp only [List.getElem_map, List.getElem_range]
    refine ⟨hget i (by omega) (by omega) (by split <;> omega),
            hget (i - n) (by omega) (by omega) (by split <;> omega), ?_, by simp [rowAt, hsx]⟩
    exact ⟨chunk_WF p.x n rest hsx hp.1 i hi, chunk_WF p.y n rest hsy hp.2.1 i hi, rfl⟩

end iter

/-! ## 5. addition and subtraction -/

section arith
variable [Zero α]

/-- the points of `p` broadcast to the shape `S`. -/
def bpts (p : PixCoord α) (S : List Nat) : List (α × α) :=
  List.zip (broadcastTo 0 p.x S).data (broadcastTo 0 p.y S).data

/-- `p` broadcast to the shape `S`. -/
def bcoord (p : PixCoord α) (S : List Nat) : PixCoord α := ⟨broadcastTo 0 p.x S, broadcastTo 0 p.y S⟩

/-- component-wise `f` on the broadcasts of `p` and `q`. -/
def zip2 (f : α → α → α) (p q : PixCoord α) (S : List Nat) : PixCoord α :=
  ⟨⟨S, List.zipWith f (broadcastTo 0 p.x S).data (broadcastTo 0 q.x S).data⟩,
   ⟨S, List.zipWith f (broadcastTo 0 p.y S).data (broadcastTo 0 q.y S).data⟩⟩

theorem ufunc_ok (f : α → α → α) (a b : NDArr α) (S : List Nat) (h : bshape a.shape b.shape = some S) :
    PixCoord.ufunc f a b = .ok ⟨S, List.zipWith f (broadcastTo 0 a S).data (broadcastTo 0 b S).data⟩ := by
  simp [PixCoord.ufunc, binop, h]

theorem ufunc_err (f : α → α → α) (a b : NDArr α) (h : bshape a.shape b.shape = none) :
    PixCoord.ufunc f a b = .error .valueError := by
  simp [PixCoord.ufunc, binop, h]

theorem bcoord_WF (p : PixCoord α) (S : List Nat) (h : p.x.shape.length ≤ S.length) (hp : p.WF) :
    (bcoord p S).WF :=
  ⟨broadcastTo_WF _ _ _ h, broadcastTo_WF _ _ _ (hp.2.2 ▸ h), rfl⟩

theorem bcoord_self (p : PixCoord α) (hp : p.WF) : bcoord p p.x.shape = p := by
  obtain ⟨hx, hy, hs⟩ := hp
  unfold bcoord
  rw [broadcastTo_self 0 p.x hx]
  have : broadcastTo 0 p.y p.x.shape = p.y := by rw [hs]; exact broadcastTo_self 0 p.y hy
  rw [this]

theorem zip2_WF (f : α → α → α) (p q : PixCoord α) (hp : p.WF) (hq : q.WF) (S : List Nat)
    (hS : bshape p.x.shape q.x.shape = some S) : (zip2 f p q S).WF := by
  have hSy : bshape p.y.shape q.y.shape = some S := by rw [← hp.2.2, ← hq.2.2]; exact hS
  exact ⟨zipWith_bcast_WF f _ _ S hS, zipWith_bcast_WF f _ _ S hSy, rfl⟩

end arith

section ring
variable [Ring α]

theorem add_ok (p q : PixCoord α) (hp : p.WF) (hq : q.WF) (S : List Nat)
    (hS : bshape p.x.shape q.x.shape = some S) :
    p.add (.pix q) = .ok (zip2 (· + ·) p q S) := by
  have hSy : bshape p.y.shape q.y.shape = some S := by rw [← hp.2.2, ← hq.2.2]; exact hS
  unfold PixCoord.add
  simp only
  rw [ufunc_ok _ _ _ S hS, ufunc_ok _ _ _ S hSy]
  simp only
  exact ctor_same_shape _ _ (zipWith_bcast_WF _ _ _ S hS) (zipWith_bcast_WF _ _ _ S hSy) rfl

theorem sub_ok (p q : PixCoord α) (hp : p.WF) (hq : q.WF) (S : List Nat)
    (hS : bshape p.x.shape q.x.shape = some S) :
    p.sub (.pix q) = .ok (zip2 (· - ·) p q S) := by
  have hSy : bshape p.y.shape q.y.shape = some S := by rw [← hp.2.2, ← hq.2.2]; exact hS
  unfold PixCoord.sub
  simp only
  rw [ufunc_ok _ _ _ S hS, ufunc_ok _ _ _ S hSy]
  simp only
  exact ctor_same_shape _ _ (zipWith_bcast_WF _ _ _ S hS) (zipWith_bcast_WF _ _ _ S hSy) rfl

/-- `+` / `-` with something that is not a `PixCoord`: `TypeError`. -/
theorem add_sub_type_error (p : PixCoord α) :
    p.add .other = .error .typeError ∧ p.sub .other = .error .typeError := ⟨rfl, rfl⟩

/-- `+` / `-` of coordinates whose shapes do not broadcast: `ValueError`. -/
theorem add_sub_value_error (p q : PixCoord α) (hS : bshape p.x.shape q.x.shape = none) :
    p.add (.pix q) = .error .valueError ∧ p.sub (.pix q) = .error .valueError := by
  unfold PixCoord.add PixCoord.sub
  simp only
  rw [ufunc_err _ _ _ hS, ufunc_err _ _ _ hS]
  exact ⟨rfl, rfl⟩

end ring

section ring
variable [Ring α]

/-- **add_componentwise**: `+` (and `-`) succeed exactly when the shapes broadcast; the result
has the broadcast shape, satisfies the class invariant, and its `k`-th point is the
component-wise sum (difference) of the `k`-th broadcast points. -/
theorem add_componentwise (p q : PixCoord α) (hp : p.WF) (hq : q.WF) (S : List Nat)
    (hS : bshape p.x.shape q.x.shape = some S) :
    ∃ r d, p.add (.pix q) = .ok r ∧ p.sub (.pix q) = .ok d ∧
      r.WF ∧ d.WF ∧ r.x.shape = S ∧ d.x.shape = S ∧
      r.pts.data = List.zipWith Pt.add (bpts p S) (bpts q S) ∧
      d.pts.data = List.zipWith Pt.sub (bpts p S) (bpts q S) := by
  obtain ⟨hl, -, -⟩ := bshape_spec hS
  have hly : S.length = max p.y.shape.length q.y.shape.length := by rw [← hp.2.2, ← hq.2.2]; exact hl
  have e1 := broadcastTo_length (0 : α) p.x S (by omega)
  have e2 := broadcastTo_length (0 : α) q.x S (by omega)
  have e3 := broadcastTo_length (0 : α) p.y S (by omega)
  have e4 := broadcastTo_length (0 : α) q.y S (by omega)
  refine ⟨_, _, add_ok p q hp hq S hS, sub_ok p q hp hq S hS, zip2_WF _ p q hp hq S hS,
    zip2_WF _ p q hp hq S hS, rfl, rfl, ?_, ?_⟩
  · exact zip_zipWith _ _ _ _ _ (by omega) (by omega) (by omega)
  · exact zip_zipWith _ _ _ _ _ (by omega) (by omega) (by omega)

/-- **add_sub_inverse**: for any shapes that broadcast, `(p + q) - q` and `(p - q) + q` are `p`
(broadcast to the common shape; `p` itself when it already has that shape). -/
theorem add_sub_inverse (p q : PixCoord α) (hp : p.WF) (hq : q.WF) (S : List Nat)
    (hS : bshape p.x.shape q.x.shape = some S) :
    (p.add (.pix q) >>= fun r => r.sub (.pix q)) = .ok (bcoord p S) ∧
    (p.sub (.pix q) >>= fun r => r.add (.pix q)) = .ok (bcoord p S) := by
  obtain ⟨hl, -, -⟩ := bshape_spec hS
  have hly : S.length = max p.y.shape.length q.y.shape.length := by rw [← hp.2.2, ← hq.2.2]; exact hl
  have e1 := broadcastTo_length (0 : α) p.x S (by omega)
  have e2 := broadcastTo_length (0 : α) q.x S (by omega)
  have e3 := broadcastTo_length (0 : α) p.y S (by omega)
  have e4 := broadcastTo_length (0 : α) q.y S (by omega)
  have hS' : ∀ f, bshape (zip2 f p q S).x.shape q.x.shape = some S := fun _ => (bshape_idem hS).2.2.2
  have key : ∀ (f g : α → α → α), (∀ A B : List α, A.length = B.length →
        List.zipWith g (List.zipWith f A B) B = A) → zip2 g (zip2 f p q S) q S = bcoord p S := by
    intro f g hfg
    have hw := zip2_WF f p q hp hq S hS
    have hx : broadcastTo 0 (zip2 f p q S).x S = (zip2 f p q S).x := broadcastTo_self 0 _ hw.1
    have hy : broadcastTo 0 (zip2 f p q S).y S = (zip2 f p q S).y := broadcastTo_self 0 _ hw.2.1
    unfold zip2 bcoord at *
    simp only at hx hy
    simp only [hx, hy, PixCoord.mk.injEq]
    refine ⟨?_, ?_⟩
    · rw [hfg _ _ (by omega)]; rfl
    · rw [hfg _ _ (by omega)]; rfl
  constructor
  · rw [add_ok p q hp hq S hS]
    show (zip2 _ p q S).sub (.pix q) = _
    rw [sub_ok _ q (zip2_WF _ p q hp hq S hS) hq S (hS' _), key _ _ zipWith_add_sub]
  · rw [sub_ok p q hp hq S hS]
    show (zip2 _ p q S).add (.pix q) = _
    rw [add_ok _ q (zip2_WF _ p q hp hq S hS) hq S (hS' _), key _ _ zipWith_sub_add]

/-- … in particular, when `p` already has the common shape (e.g. `q` is a scalar, or both have
the same shape), `(p + q) - q = p` exactly. -/
theorem add_sub_inverse_same (p q : PixCoord α) (hp : p.WF) (hq : q.WF)
    (hS : bshape p.x.shape q.x.shape = some p.x.shape) :
    (p.add (.pix q) >>= fun r => r.sub (.pix q)) = .ok p ∧
    (p.sub (.pix q) >>= fun r => r.add (.pix q)) = .ok p := by
  have := add_sub_inverse p q hp hq _ hS
  rwa [bcoord_self p hp] at this

end ring

/-! ## 6. the geometry of single points -/

section pt
variable [CommRing α]

/-- squared separation is `dx² + dy²`. -/
theorem Pt.sep2_euclid (p q : α × α) : Pt.sep2 p q = (q.1 - p.1) ^ 2 + (q.2 - p.2) ^ 2 := by
  unfold Pt.sep2; ring

theorem Pt.sep2_symm (p q : α × α) : Pt.sep2 p q = Pt.sep2 q p := by
  unfold Pt.sep2; ring

/-- the product of unit vectors (= angle addition) is a unit vector. -/
theorem unit_mul (c₁ s₁ c₂ s₂ : α) (h₁ : c₁ ^ 2 + s₁ ^ 2 = 1) (h₂ : c₂ ^ 2 + s₂ ^ 2 = 1) :
    (c₁ * c₂ - s₁ * s₂) ^ 2 + (s₁ * c₂ + c₁ * s₂) ^ 2 = 1 := by
  linear_combination (c₂ ^ 2 + s₂ ^ 2) * h₁ + h₂

/-- rotation preserves distances. -/
theorem Pt.rotate_isometry (c s : α) (hcs : c ^ 2 + s ^ 2 = 1) (ctr p q : α × α) :
    Pt.sep2 (Pt.rotate c s ctr p) (Pt.rotate c s ctr q) = Pt.sep2 p q := by
  unfold Pt.sep2 Pt.rotate
  linear_combination ((q.1 - p.1) ^ 2 + (q.2 - p.2) ^ 2) * hcs

/-- rotating by `u` then by `v` about the same centre is rotating by the product `u·v`
(angles add). -/
theorem Pt.rotate_compose (c₁ s₁ c₂ s₂ : α) (ctr p : α × α) :
    Pt.rotate c₂ s₂ ctr (Pt.rotate c₁ s₁ ctr p) =
      Pt.rotate (c₁ * c₂ - s₁ * s₂) (s₁ * c₂ + c₁ * s₂) ctr p := by
  unfold Pt.rotate; ext <;> simp <;> ring

/-- the centre is a fixed point. -/
theorem Pt.rotate_fixes_center (c s : α) (ctr : α × α) : Pt.rotate c s ctr ctr = ctr := by
  unfold Pt.rotate; ext <;> simp

/-- rotating back by the conjugate unit vector (the opposite angle) is the inverse. -/
theorem Pt.rotate_inverse (c s : α) (hcs : c ^ 2 + s ^ 2 = 1) (ctr p : α × α) :
    Pt.rotate c (-s) ctr (Pt.rotate c s ctr p) = p := by
  unfold Pt.rotate
  ext
  · simp only; linear_combination (p.1 - ctr.1) * hcs
  · simp only; linear_combination (p.2 - ctr.2) * hcs

/-- the zero angle is the identity. -/
theorem Pt.rotate_zero (ctr p : α × α) : Pt.rotate 1 0 ctr p = p := by
  unfold Pt.rotate; ext <;> simp

/-- the distance to the centre is preserved. -/
theorem Pt.rotate_center_dist (c s : α) (hcs : c ^ 2 + s ^ 2 = 1) (ctr p : α × α) :
    Pt.sep2 (Pt.rotate c s ctr p) ctr = Pt.sep2 p ctr := by
  have := Pt.rotate_isometry c s hcs ctr p ctr
  rwa [Pt.rotate_fixes_center] at this

end pt

section ptorder
variable [Field α] [LinearOrder α] [IsStrictOrderedRing α]

theorem Pt.sep2_nonneg (p q : α × α) : 0 ≤ Pt.sep2 p q := by
  unfold Pt.sep2
  exact add_nonneg (mul_self_nonneg _) (mul_self_nonneg _)

/-- separation zero iff the points are equal. -/
theorem Pt.sep2_eq_zero_iff (p q : α × α) : Pt.sep2 p q = 0 ↔ p = q := by
  unfold Pt.sep2
  constructor
  · intro h
    have h1 : (q.1 - p.1) * (q.1 - p.1) = 0 := by
      nlinarith [mul_self_nonneg (q.1 - p.1), mul_self_nonneg (q.2 - p.2)]
    have h2 : (q.2 - p.2) * (q.2 - p.2) = 0 := by
      nlinarith [mul_self_nonneg (q.1 - p.1), mul_self_nonneg (q.2 - p.2)]
    have e1 : q.1 - p.1 = 0 := mul_self_eq_zero.mp h1
    have e2 : q.2 - p.2 = 0 := mul_self_eq_zero.mp h2
    ext
    · exact (sub_eq_zero.mp e1).symm
    · exact (sub_eq_zero.mp e2).symm
  · rintro rfl; simp

end ptorder

/-! ## 7. separation and rotation of arrays -/

/-- the coordinate of shape `S` whose points are `L`. -/
def ofPts (S : List Nat) (L : List (α × α)) : PixCoord α :=
  ⟨⟨S, L.map Prod.fst⟩, ⟨S, L.map Prod.snd⟩⟩

theorem ofPts_WF (S : List Nat) (L : List (α × α)) (h : L.length = S.prod) : (ofPts S L).WF := by
  simp [ofPts, PixCoord.WF, NDArr.WF, h]

theorem ofPts_pts (S : List Nat) (L : List (α × α)) : (ofPts S L).pts = ⟨S, L⟩ := by
  simp only [ofPts, PixCoord.pts, NDArr.mk.injEq, true_and]
  induction L with
  | nil => rfl
  | cons a L ih => simp [ih]

theorem ofPts_of_pts (p : PixCoord α) (hp : p.WF) : ofPts p.x.shape p.pts.data = p := by
  obtain ⟨hx, hy, hs⟩ := hp
  have hl : p.x.data.length = p.y.data.length := by unfold NDArr.WF at hx hy; rw [hx, hy, hs]
  cases p with
  | mk x y =>
    cases x; cases y
    simp only [ofPts, PixCoord.pts, PixCoord.mk.injEq, NDArr.mk.injEq, true_and] at *
    exact ⟨List.map_fst_zip (by omega), hs, List.map_snd_zip (by omega)⟩

section
variable [Zero α]

theorem bpts_length (p : PixCoord α) (hp : p.WF) (S : List Nat) (h : p.x.shape.length ≤ S.length) :
    (bpts p S).length = S.prod := by
  unfold bpts
  rw [List.length_zip, broadcastTo_length _ _ _ h, broadcastTo_length _ _ _ (hp.2.2 ▸ h), Nat.min_self]

theorem bpts_self (p : PixCoord α) (hp : p.WF) : bpts p p.x.shape = p.pts.data := by
  have := bcoord_self p hp
  unfold bcoord at this
  unfold bpts PixCoord.pts
  have hx : broadcastTo 0 p.x p.x.shape = p.x := congrArg PixCoord.x this
  have hy : broadcastTo 0 p.y p.x.shape = p.y := congrArg PixCoord.y this
  rw [hx, hy]

theorem bpts_ofPts (S : List Nat) (L : List (α × α)) (h : L.length = S.prod) : bpts (ofPts S L) S = L := by
  have := bpts_self (ofPts S L) (ofPts_WF S L h)
  rw [ofPts_pts] at this
  exact this

end

section ring
variable [Ring α]

/-- `separation` (squared) is the point-wise squared Euclidean distance of the broadcast points. -/
theorem sep2_ok (p q : PixCoord α) (hp : p.WF) (hq : q.WF) (S : List Nat)
    (hS : bshape p.x.shape q.x.shape = some S) :
    p.sep2 q = .ok ⟨S, List.zipWith Pt.sep2 (bpts p S) (bpts q S)⟩ := by
  have hS' : bshape q.x.shape p.x.shape = some S := by rw [bshape_comm]; exact hS
  have hSy : bshape q.y.shape p.y.shape = some S := by rw [← hp.2.2, ← hq.2.2]; exact hS'
  obtain ⟨hl, -, -⟩ := bshape_spec hS
  have hly : S.length = max p.y.shape.length q.y.shape.length := by rw [← hp.2.2, ← hq.2.2]; exact hl
  have e1 := broadcastTo_length (0 : α) p.x S (by omega)
  have e2 := broadcastTo_length (0 : α) q.x S (by omega)
  have e3 := broadcastTo_length (0 : α) p.y S (by omega)
  have e4 := broadcastTo_length (0 : α) q.y S (by omega)
  unfold PixCoord.sep2
  rw [ufunc_ok _ _ _ S hS', ufunc_ok _ _ _ S hSy]
  simp only
  rw [ufunc_ok _ _ _ S (bshape_self S)]
  rw [broadcastTo_self 0 _ (zipWith_bcast_WF _ _ _ S hS'), broadcastTo_self 0 _ (zipWith_bcast_WF _ _ _ S hSy)]
  simp only [Except.ok.injEq, NDArr.mk.injEq, true_and]
  unfold bpts
  apply List.ext_getElem
  · simp [List.length_zipWith, List.length_zip]; omega
  · intro i _ _; simp [Pt.sep2]

theorem sep2_err (p q : PixCoord α) (hS : bshape p.x.shape q.x.shape = none) :
    p.sep2 q = .error .valueError := by
  unfold PixCoord.sep2
  rw [ufunc_err _ _ _ (by rw [bshape_comm]; exact hS)]

end ring

/-- `rotate` is the point-wise rotation of the broadcast points about the broadcast centres;
it fails (with `ValueError`) only when the shapes do not broadcast. -/
theorem rotate_ok [Ring α] (p ctr : PixCoord α) (c s : α) (hp : p.WF) (hc : ctr.WF) (S : List Nat)
    (hS : bshape p.x.shape ctr.x.shape = some S) :
    p.rotate ctr c s = .ok (ofPts S (List.zipWith (Pt.rotate c s) (bpts ctr S) (bpts p S))) := by
  have hSy : bshape p.y.shape ctr.y.shape = some S := by rw [← hp.2.2, ← hc.2.2]; exact hS
  have hCx : bshape ctr.x.shape S = some S := (bshape_idem hS).2.2.1
  have hCy : bshape ctr.y.shape S = some S := by rw [← hc.2.2]; exact hCx
  obtain ⟨hl, -, -⟩ := bshape_spec hS
  have hly : S.length = max p.y.shape.length ctr.y.shape.length := by rw [← hp.2.2, ← hc.2.2]; exact hl
  have e1 := broadcastTo_length (0 : α) p.x S (by omega)
  have e2 := broadcastTo_length (0 : α) ctr.x S (by omega)
  have e3 := broadcastTo_length (0 : α) p.y S (by omega)
  have e4 := broadcastTo_length (0 : α) ctr.y S (by omega)
  have wdx := zipWith_bcast_WF (· - ·) p.x ctr.x S hS
  have wdy := zipWith_bcast_WF (· - ·) p.y ctr.y S hSy
  unfold PixCoord.rotate
  rw [ufunc_ok _ _ _ S hS, ufunc_ok _ _ _ S hSy]
  simp only
  rw [ufunc_ok _ _ _ S (bshape_self S), ufunc_ok _ _ _ S (bshape_self S)]
  simp only
  rw [broadcastTo_self' _ S rfl (map_WF _ _ wdx), broadcastTo_self' _ S rfl (map_WF _ _ wdy),
    broadcastTo_self' _ S rfl (map_WF _ _ wdx), broadcastTo_self' _ S rfl (map_WF _ _ wdy)]
  rw [ufunc_ok _ _ _ S hCx, ufunc_ok _ _ _ S hCy]
  simp only
  have wrx : (NDArr.mk S (List.zipWith (· - ·)
      (NDArr.map (fun x => c * x) ⟨S, List.zipWith (· - ·) (broadcastTo 0 p.x S).data (broadcastTo 0 ctr.x S).data⟩).data
      (NDArr.map (fun x => s * x) ⟨S, List.zipWith (· - ·) (broadcastTo 0 p.y S).data (broadcastTo 0 ctr.y S).data⟩).data)).WF := by
    simp [NDArr.WF, NDArr.map, List.length_zipWith]; omega
  have wry : (NDArr.mk S (List.zipWith (· + ·)
      (NDArr.map (fun x => s * x) ⟨S, List.zipWith (· - ·) (broadcastTo 0 p.x S).data (broadcastTo 0 ctr.x S).data⟩).data
      (NDArr.map (fun x => c * x) ⟨S, List.zipWith (· - ·) (broadcastTo 0 p.y S).data (broadcastTo 0 ctr.y S).data⟩).data)).WF := by
    simp [NDArr.WF, NDArr.map, List.length_zipWith]; omega
  rw [broadcastTo_self' _ S rfl wrx, broadcastTo_self' _ S rfl wry]
  refine Eq.trans (ctor_same_shape _ _ ?_ ?_ rfl) ?_
  · simp [NDArr.WF, NDArr.map, List.length_zipWith]; omega
  · simp [NDArr.WF, NDArr.map, List.length_zipWith]; omega
  simp only [ofPts, bpts, Except.ok.injEq, PixCoord.mk.injEq, NDArr.mk.injEq, true_and, NDArr.map]
  constructor
  · apply List.ext_getElem
    · simp [List.length_zipWith, List.length_zip]; omega
    · intro i _ _; simp [Pt.rotate]
  · apply List.ext_getElem
    · simp [List.length_zipWith, List.length_zip]; omega
    · intro i _ _; simp [Pt.rotate]

theorem rotate_err [Ring α] (p ctr : PixCoord α) (c s : α) (hS : bshape p.x.shape ctr.x.shape = none) :
    p.rotate ctr c s = .error .valueError := by
  unfold PixCoord.rotate
  rw [ufunc_err _ _ _ hS]

theorem zipWith_rot_length [Ring α] (c s : α) (C P : List (α × α)) (n : Nat) (h1 : C.length = n) (h2 : P.length = n) :
    (List.zipWith (Pt.rotate c s) C P).length = n := by
  simp [List.length_zipWith, h1, h2]

section clauses
variable [CommRing α]

/-- **rotate_compose**: rotating by `u = (c₁, s₁)` and then by `v = (c₂, s₂)` about the same centre
is rotating once by the product `u·v` (the sum of the angles) — for coordinates and centres of
any shapes (when the shapes do not broadcast both sides raise `ValueError`). -/
theorem rotate_compose (p ctr : PixCoord α) (c₁ s₁ c₂ s₂ : α) (hp : p.WF) (hc : ctr.WF) :
    (p.rotate ctr c₁ s₁ >>= fun r => r.rotate ctr c₂ s₂) =
      p.rotate ctr (c₁ * c₂ - s₁ * s₂) (s₁ * c₂ + c₁ * s₂) := by
  cases hS : bshape p.x.shape ctr.x.shape with
  | none => rw [rotate_err _ _ _ _ hS, rotate_err _ _ _ _ hS]; rfl
  | some S =>
    obtain ⟨hl, -, -⟩ := bshape_spec hS
    have lc := bpts_length ctr hc S (by omega)
    have lp := bpts_length p hp S (by omega)
    have l1 := zipWith_rot_length c₁ s₁ _ _ _ lc lp
    rw [rotate_ok p ctr _ _ hp hc S hS, rotate_ok p ctr _ _ hp hc S hS]
    show (ofPts S _).rotate ctr c₂ s₂ = _
    rw [rotate_ok _ ctr _ _ (ofPts_WF S _ l1) hc S (bshape_idem hS).2.2.2, bpts_ofPts S _ l1]
    congr 2
    apply List.ext_getElem
    · simp [List.length_zipWith]
    · intro i _ _
      simp only [List.getElem_zipWith]
      exact Pt.rotate_compose _ _ _ _ _ _

/-- **rotate_inverse**: rotating back by the opposite angle (the conjugate unit vector) returns
the starting coordinates (broadcast against the centre; `p` itself when the centre is a scalar
or has `p`'s shape). -/
theorem rotate_inverse (p ctr : PixCoord α) (c s : α) (hcs : c ^ 2 + s ^ 2 = 1) (hp : p.WF) (hc : ctr.WF)
    (S : List Nat) (hS : bshape p.x.shape ctr.x.shape = some S) :
    (p.rotate ctr c s >>= fun r => r.rotate ctr c (-s)) = .ok (bcoord p S) := by
  obtain ⟨hl, -, -⟩ := bshape_spec hS
  have lc := bpts_length ctr hc S (by omega)
  have lp := bpts_length p hp S (by omega)
  have l1 := zipWith_rot_length c s _ _ _ lc lp
  rw [rotate_ok p ctr _ _ hp hc S hS]
  show (ofPts S _).rotate ctr c (-s) = _
  rw [rotate_ok _ ctr _ _ (ofPts_WF S _ l1) hc S (bshape_idem hS).2.2.2, bpts_ofPts S _ l1]
  have hb : bcoord p S = ofPts S (bpts p S) := by
    have hw := bcoord_WF p S (by omega) hp
    have := ofPts_of_pts (bcoord p S) hw
    rw [← this]; rfl
  rw [hb]
  congr 2
  apply List.ext_getElem
  · simp [List.length_zipWith, lc, lp]
  · intro i _ _
    simp only [List.getElem_zipWith]
    exact Pt.rotate_inverse c s hcs _ _

theorem rotate_inverse_same (p ctr : PixCoord α) (c s : α) (hcs : c ^ 2 + s ^ 2 = 1) (hp : p.WF) (hc : ctr.WF)
    (hS : bshape p.x.shape ctr.x.shape = some p.x.shape) :
    (p.rotate ctr c s >>= fun r => r.rotate ctr c (-s)) = .ok p := by
  rw [rotate_inverse p ctr c s hcs hp hc _ hS, bcoord_self p hp]

/-- **rotate_fixes_center**: rotating the centre about itself returns it, for every `(c, s)`
(scalar or array centre). -/
theorem rotate_fixes_center (ctr : PixCoord α) (c s : α) (hc : ctr.WF) :
    ctr.rotate ctr c s = .ok ctr := by
  rw [rotate_ok ctr ctr c s hc hc _ (bshape_self _), bpts_self ctr hc]
  have : List.zipWith (Pt.rotate c s) ctr.pts.data ctr.pts.data = ctr.pts.data := by
    apply List.ext_getElem
    · simp
    · intro i _ _
      simp only [List.getElem_zipWith]
      exact Pt.rotate_fixes_center c s _
  rw [this, ofPts_of_pts ctr hc]

/-- **rotate_isometry**: rotation about a centre preserves all separations: for coordinates `p`,
`q` of a common shape and any centre (scalar or array) the separations of the rotated
coordinates are the separations of the original points (broadcast against the centre). -/
theorem rotate_isometry (p q ctr : PixCoord α) (c s : α) (hcs : c ^ 2 + s ^ 2 = 1)
    (hp : p.WF) (hq : q.WF) (hc : ctr.WF) (hpq : p.x.shape = q.x.shape)
    (S : List Nat) (hS : bshape p.x.shape ctr.x.shape = some S) :
    ∃ p' q', p.rotate ctr c s = .ok p' ∧ q.rotate ctr c s = .ok q' ∧ p'.WF ∧ q'.WF ∧
      p'.sep2 q' = .ok ⟨S, List.zipWith Pt.sep2 (bpts p S) (bpts q S)⟩ := by
  obtain ⟨hl, -, -⟩ := bshape_spec hS
  have hSq : bshape q.x.shape ctr.x.shape = some S := hpq ▸ hS
  have lc := bpts_length ctr hc S (by omega)
  have lp := bpts_length p hp S (by omega)
  have lq := bpts_length q hq S (by rw [← hpq]; omega)
  have l1 := zipWith_rot_length c s _ _ _ lc lp
  have l2 := zipWith_rot_length c s _ _ _ lc lq
  refine ⟨_, _, rotate_ok p ctr c s hp hc S hS, rotate_ok q ctr c s hq hc S hSq,
    ofPts_WF S _ l1, ofPts_WF S _ l2, ?_⟩
  rw [sep2_ok _ _ (ofPts_WF S _ l1) (ofPts_WF S _ l2) S (bshape_self S), bpts_ofPts S _ l1, bpts_ofPts S _ l2]
  congr 2
  apply List.ext_getElem
  · simp [List.length_zipWith, lc, lp, lq]
  · intro i _ _
    simp only [List.getElem_zipWith]
    exact Pt.rotate_isometry c s hcs _ _ _

/-- … in particular (centre scalar or of the coordinates' shape) `sep(rot p, rot q) = sep(p, q)`. -/
theorem rotate_isometry_same (p q ctr : PixCoord α) (c s : α) (hcs : c ^ 2 + s ^ 2 = 1)
    (hp : p.WF) (hq : q.WF) (hc : ctr.WF) (hpq : p.x.shape = q.x.shape)
    (hS : bshape p.x.shape ctr.x.shape = some p.x.shape) :
    ∃ p' q', p.rotate ctr c s = .ok p' ∧ q.rotate ctr c s = .ok q' ∧ p'.sep2 q' = p.sep2 q := by
  obtain ⟨p', q', h1, h2, -, -, h3⟩ := rotate_isometry p q ctr c s hcs hp hq hc hpq _ hS
  refine ⟨p', q', h1, h2, ?_⟩
  rw [h3, sep2_ok p q hp hq p.x.shape (by rw [← hpq]; exact bshape_self _)]

/-- the distance of every point to its centre is preserved (any shapes that broadcast). -/
theorem rotate_center_dist (p ctr : PixCoord α) (c s : α) (hcs : c ^ 2 + s ^ 2 = 1)
    (hp : p.WF) (hc : ctr.WF) (S : List Nat) (hS : bshape p.x.shape ctr.x.shape = some S) :
    (p.rotate ctr c s >>= fun r => r.sep2 ctr) = p.sep2 ctr := by
  obtain ⟨hl, -, -⟩ := bshape_spec hS
  have lc := bpts_length ctr hc S (by omega)
  have lp := bpts_length p hp S (by omega)
  have l1 := zipWith_rot_length c s _ _ _ lc lp
  rw [rotate_ok p ctr c s hp hc S hS, sep2_ok p ctr hp hc S hS]
  show (ofPts S _).sep2 ctr = _
  rw [sep2_ok _ ctr (ofPts_WF S _ l1) hc S (bshape_idem hS).2.2.2, bpts_ofPts S _ l1]
  congr 2
  apply List.ext_getElem
  · simp [List.length_zipWith, lc, lp]
  · intro i _ _
    simp only [List.getElem_zipWith]
    exact Pt.rotate_center_dist c s hcs _ _

end clauses

section sepclause
variable [Field α] [LinearOrder α] [IsStrictOrderedRing α]

theorem zipWith_sep2_zero_iff (A B : List (α × α)) (h : A.length = B.length) :
    (∀ v ∈ List.zipWith Pt.sep2 A B, v = 0) ↔ A = B := by
  constructor
  · intro hz
    apply List.ext_getElem h
    intro i h1 h2
    have hm : Pt.sep2 A[i] B[i] ∈ List.zipWith Pt.sep2 A B := by
      rw [List.mem_iff_getElem]
      exact ⟨i, by simp [List.length_zipWith, h1, h2], by simp⟩
    exact (Pt.sep2_eq_zero_iff _ _).mp (hz _ hm)
  · rintro rfl v hv
    rw [List.mem_iff_getElem] at hv
    obtain ⟨i, hi, rfl⟩ := hv
    simp only [List.getElem_zipWith]
    exact (Pt.sep2_eq_zero_iff _ _).mpr rfl

/-- **separation_euclid**: `separation` is the Euclidean distance of the broadcast points
(here squared: `dx² + dy²`), has the broadcast shape, is symmetric, non-negative, and is zero
everywhere iff the (broadcast) coordinates are equal. -/
theorem separation_euclid (p q : PixCoord α) (hp : p.WF) (hq : q.WF) (S : List Nat)
    (hS : bshape p.x.shape q.x.shape = some S) :
    ∃ r, p.sep2 q = .ok r ∧ q.sep2 p = .ok r ∧ r.shape = S ∧ r.WF ∧
      r.data = List.zipWith (fun a b => (b.1 - a.1) ^ 2 + (b.2 - a.2) ^ 2) (bpts p S) (bpts q S) ∧
      (∀ v ∈ r.data, 0 ≤ v) ∧
      ((∀ v ∈ r.data, v = 0) ↔ bpts p S = bpts q S) := by
  obtain ⟨hl, -, -⟩ := bshape_spec hS
  have lp := bpts_length p hp S (by omega)
  have lq := bpts_length q hq S (by omega)
  refine ⟨_, sep2_ok p q hp hq S hS, ?_, rfl, ?_, ?_, ?_, ?_⟩
  · rw [sep2_ok q p hq hp S (by rw [bshape_comm]; exact hS)]
    congr 2
    apply List.ext_getElem
    · simp [List.length_zipWith, lp, lq]
    · intro i _ _
      simp only [List.getElem_zipWith]
      exact Pt.sep2_symm _ _
  · simp [NDArr.WF, List.length_zipWith, lp, lq]
  · apply List.ext_getElem
    · simp [List.length_zipWith]
    · intro i _ _
      simp only [List.getElem_zipWith]
      exact Pt.sep2_euclid _ _
  · intro v hv
    simp only at hv
    rw [List.mem_iff_getElem] at hv
    obtain ⟨i, hi, rfl⟩ := hv
    simp only [List.getElem_zipWith]
    exact Pt.sep2_nonneg _ _
  · exact zipWith_sep2_zero_iff _ _ (by rw [lp, lq])

end sepclause

/-! ## 8. copies and sky round trip -/

/-- **copy_independent**: `copy()` returns an equal coordinate.  In this functional model values
cannot be mutated, so independence of the copy is trivially true and says nothing about the
real arrays; the real aliasing check (mutate the copy's arrays, look at the original, and the
other way round) is done by the harness on every constructed coordinate. -/
theorem copy_independent [Zero α] (p : PixCoord α) (hp : p.WF) : p.copy = .ok p :=
  ctor_same_shape p.x p.y hp.1 hp.2.1 hp.2.2

/-- **sky_roundtrip**: if the WCS world→pixel map inverts the pixel→world map (for the chosen
`mode`), converting to sky and back returns the starting coordinates, for every pixel-origin
convention `origin` (in particular 0 and 1): the `± (1 - origin)` shifts cancel, shape and
scalar-ness are preserved. -/
theorem sky_roundtrip [Ring α] {W : Type} (w : PixCoord.WCSMaps α W) (modeAll : Bool)
    (hinv : ∀ q, w.w2p modeAll (w.p2w modeAll q) = q) (origin : α) (p : PixCoord α) (hp : p.WF) :
    PixCoord.fromSky w origin modeAll (PixCoord.toSky w origin modeAll p) = .ok p ∧
    (PixCoord.toSky w origin modeAll p).shape = p.x.shape := by
  obtain ⟨hx, hy, hs⟩ := hp
  have hl : p.x.data.length = p.y.data.length := by unfold NDArr.WF at hx hy; rw [hx, hy, hs]
  refine ⟨?_, rfl⟩
  unfold PixCoord.fromSky PixCoord.toSky
  simp only
  have ex : (List.zipWith (fun x y => w.p2w modeAll (x + (1 - origin), y + (1 - origin))) p.x.data p.y.data).map
      (fun v => (w.w2p modeAll v).1 - (1 - origin)) = p.x.data := by
    apply List.ext_getElem
    · simp [List.length_zipWith]; omega
    · intro i _ _; simp [hinv]
  have ey : (List.zipWith (fun x y => w.p2w modeAll (x + (1 - origin), y + (1 - origin))) p.x.data p.y.data).map
      (fun v => (w.w2p modeAll v).2 - (1 - origin)) = p.y.data := by
    apply List.ext_getElem
    · simp [List.length_zipWith]; omega
    · intro i _ _; simp [hinv]
  rw [ex, ey]
  have := ctor_same_shape p.x p.y hx hy hs
  cases p with
  | mk x y => cases x; cases y; simp only at hs; subst hs; exact this

theorem sky_roundtrip_origin01 [Ring α] {W : Type} (w : PixCoord.WCSMaps α W) (modeAll : Bool)
    (hinv : ∀ q, w.w2p modeAll (w.p2w modeAll q) = q) (p : PixCoord α) (hp : p.WF) :
    PixCoord.fromSky w 0 modeAll (PixCoord.toSky w 0 modeAll p) = .ok p ∧
    PixCoord.fromSky w 1 modeAll (PixCoord.toSky w 1 modeAll p) = .ok p :=
  ⟨(sky_roundtrip w modeAll hinv 0 p hp).1, (sky_roundtrip w modeAll hinv 1 p hp).1⟩

/-! ## 9. non-vacuity: concrete inputs meet the hypotheses, the parameter computes what numpy does -/

-- the broadcasting parameter
example : bshape [2, 1] [3] = some [2, 3] := by decide
example : bshape [2, 3] [2] = none := by decide
example : bshape [] [0, 3] = some [0, 3] := by decide
example : bshape [3, 1, 2] [4, 1] = some [3, 4, 2] := by decide
-- element (1, 2) of a (2,3) result comes from element (0, 2) of a (1,3) argument, flat position 2
example : bproj [2, 3] [1, 3] [1, 2] = [0, 2] ∧ flatIdx [1, 3] [0, 2] = 2 ∧ flatIdx [2, 3] [1, 2] = 5 ∧
    ValidIdx [1, 2] [2, 3] := ⟨rfl, rfl, rfl, by unfold ValidIdx; decide⟩
-- the indexing parameter (negative step, integer array with a negative entry; int + slice + array
-- with the broadcast dimension moved to the front; boolean mask; Ellipsis; the error classes)
example : plan [2, 3] [Ix.slice none none (some (-1)), Ix.intArr [2] [0, -1]] = .ok ([2, 2], [3, 5, 0, 2]) := by decide
example : plan [2, 3, 4] [Ix.int 0, Ix.slice none none none, Ix.intArr [2] [1, 2]] = .ok ([2, 3], [1, 5, 9, 2, 6, 10]) := by decide
example : plan [2, 3] [Ix.boolArr [2, 3] [true, false, true, false, false, true]] = .ok ([3], [0, 2, 5]) := by decide
example : plan [2, 3] [Ix.ellipsis, Ix.int (-1)] = .ok ([2], [2, 5]) := by decide
example : plan [2, 3] [Ix.int 2] = .error .indexError := by decide
example : plan [2, 3] [Ix.int 0, Ix.int 0, Ix.int 0] = .error .indexError := by decide
example : plan [2, 3] [Ix.slice none none (some 0)] = .error .valueError := by decide
-- the constructor on shapes (2,1) and (3,)
example : PixCoord.ctor (⟨[2, 1], [1, 2]⟩ : NDArr Int) ⟨[3], [10, 20, 30]⟩ =
    .ok ⟨⟨[2, 3], [1, 1, 1, 2, 2, 2]⟩, ⟨[2, 3], [10, 20, 30, 10, 20, 30]⟩⟩ := by decide
-- a well-formed non-scalar coordinate (hypotheses of getitem_delegates, iter_len_agree, …)
example : (PixCoord.mk (⟨[2, 2], [0, 1, 2, 3]⟩ : NDArr Int) ⟨[2, 2], [1, 3, 5, 7]⟩).WF ∧
    (PixCoord.mk (⟨[2, 2], [0, 1, 2, 3]⟩ : NDArr Int) ⟨[2, 2], [1, 3, 5, 7]⟩).isscalar = false :=
  ⟨⟨by decide, by decide, rfl⟩, rfl⟩
-- rotation of a (2,2)-shaped coordinate by 90° about the origin is (x, y) ↦ (-y, x) element-wise
-- (the input class of finding F201: the matmul-based code mixed the rows here)
example : (PixCoord.mk (⟨[2, 2], [0, 1, 2, 3]⟩ : NDArr Int) ⟨[2, 2], [1, 3, 5, 7]⟩).rotate
      ⟨⟨[], [0]⟩, ⟨[], [0]⟩⟩ 0 1 =
    .ok ⟨⟨[2, 2], [-1, -3, -5, -7]⟩, ⟨[2, 2], [0, 1, 2, 3]⟩⟩ := by decide
-- … and about a (2,1)-shaped centre
example : (PixCoord.mk (⟨[3], [1, 2, 3]⟩ : NDArr Int) ⟨[3], [0, 0, 0]⟩).rotate
      ⟨⟨[2, 1], [0, 1]⟩, ⟨[2, 1], [0, 1]⟩⟩ 0 1 =
    .ok ⟨⟨[2, 3], [0, 0, 0, 2, 2, 2]⟩, ⟨[2, 3], [1, 2, 3, 1, 2, 3]⟩⟩ := by decide
-- unit vectors exist beyond the axes, and their product is the sum of the angles
example : ((3 : ℚ) / 5) ^ 2 + (4 / 5) ^ 2 = 1 := by norm_num
example : ((3 : ℚ) / 5 * (5 / 13) - 4 / 5 * (12 / 13)) ^ 2 + (4 / 5 * (5 / 13) + 3 / 5 * (12 / 13)) ^ 2 = 1 :=
  unit_mul _ _ _ _ (by norm_num) (by norm_num)
-- an invertible WCS exists (hypothesis of sky_roundtrip)
example : ∃ w : PixCoord.WCSMaps Int (Int × Int), ∀ m q, w.w2p m (w.p2w m q) = q :=
  ⟨⟨fun _ q => (q.1 + 5, q.2 - 7), fun _ v => (v.1 - 5, v.2 + 7)⟩, fun _ q => by simp⟩

end RegionsVerif.Props.C20
