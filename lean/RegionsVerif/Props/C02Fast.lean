/-
C02 (circle kernel fast paths, over ℝ): `circular_overlap_grid` does not sample a pixel whose
centre is farther than `pixel_radius` inside (value 1) or outside (value 0) the circle.  Both
shortcuts agree with sampling: every sub-sample centre lies within `pixel_radius` of the pixel
centre, so by the triangle inequality it is on the same side of the circle as the fast path says.
-/
import RegionsVerif.Props.C02
import Mathlib.Analysis.SpecialFunctions.Sqrt
import Mathlib.Tactic.Positivity

namespace RegionsVerif.Props.C02
open RegionsVerif.Impl

/-- one cell of `circular_overlap_grid(…, use_exact=0, subpixels=n)` WITH the fast paths, as the
code computes it (`d`, `pixel_radius` with `sqrt`). -/
noncomputable def circleCellFast (pxmin pymin dx dy r : ℝ) (n : Nat) : ℝ :=
  let pxcen := pxmin + dx * (1/2)
  let pycen := pymin + dy * (1/2)
  let pixelRadius := (1/2) * Real.sqrt (dx * dx + dy * dy)
  let d := Real.sqrt (pxcen * pxcen + pycen * pycen)
  if d < r - pixelRadius then 1
  else if d < r + pixelRadius then subpixelFrac (circleK r) pxmin pymin (pxmin + dx) (pymin + dy) n
  else 0

theorem subpixelFrac_all (P : ℝ → ℝ → Bool) (x0 y0 x1 y1 : ℝ) (n : Nat) (hn : 0 < n)
    (h : ∀ a b, a < n → b < n → P (samplePos x0 x1 n a) (samplePos y0 y1 n b) = true) :
    subpixelFrac P x0 y0 x1 y1 n = 1 := by
  unfold subpixelFrac
  rw [subpixelCount_spec]
  have : ((List.range n).map fun (a : Nat) =>
      ((List.range n).filter fun (b : Nat) => P (samplePos x0 x1 n a) (samplePos y0 y1 n b)).length) =
      (List.range n).map fun _ => n := by
    apply List.map_congr_left
    intro a ha
    have : (List.range n).filter (fun (b : Nat) => P (samplePos x0 x1 n a) (samplePos y0 y1 n b)) = List.range n := by
      rw [List.filter_eq_self]
      intro b hb
      exact h a b (List.mem_range.mp ha) (List.mem_range.mp hb)
    rw [this, List.length_range]
  rw [this]
  simp only [List.map_const', List.length_range, List.sum_replicate, smul_eq_mul]
  have hn' : (n : ℝ) ≠ 0 := by exact_mod_cast (Nat.pos_iff_ne_zero.mp hn)
  push_cast
  field_simp

theorem subpixelFrac_none (P : ℝ → ℝ → Bool) (x0 y0 x1 y1 : ℝ) (n : Nat)
    (h : ∀ a b, a < n → b < n → P (samplePos x0 x1 n a) (samplePos y0 y1 n b) = false) :
    subpixelFrac P x0 y0 x1 y1 n = 0 := by
  unfold subpixelFrac
  rw [subpixelCount_spec]
  have : ((List.range n).map fun (a : Nat) =>
      ((List.range n).filter fun (b : Nat) => P (samplePos x0 x1 n a) (samplePos y0 y1 n b)).length) =
      (List.range n).map fun _ => 0 := by
    apply List.map_congr_left
    intro a ha
    rw [List.length_eq_zero_iff, List.filter_eq_nil_iff]
    intro b hb
    simp [h a b (List.mem_range.mp ha) (List.mem_range.mp hb)]
  rw [this]; simp

/-- triangle inequality in the form needed: a point `c + e` with `|e| < pr` is inside the circle
when `|c| < r − pr` and outside when `|c| ≥ r + pr` (Cauchy–Schwarz for the cross term). -/
theorem tri (cx cy ex ey pr r : ℝ) (hpr : 0 ≤ pr) (hE : ex ^ 2 + ey ^ 2 < pr ^ 2) :
    (Real.sqrt (cx * cx + cy * cy) < r - pr → (cx + ex) * (cx + ex) + (cy + ey) * (cy + ey) < r ^ 2) ∧
    (r + pr ≤ Real.sqrt (cx * cx + cy * cy) → 0 ≤ r →
      ¬ ((cx + ex) * (cx + ex) + (cy + ey) * (cy + ey) < r ^ 2)) := by
  have hcc : 0 ≤ cx * cx + cy * cy := add_nonneg (mul_self_nonneg _) (mul_self_nonneg _)
  have hee : 0 ≤ ex ^ 2 + ey ^ 2 := add_nonneg (sq_nonneg _) (sq_nonneg _)
  generalize hd : Real.sqrt (cx * cx + cy * cy) = d
  have hd0 : 0 ≤ d := by rw [← hd]; exact Real.sqrt_nonneg _
  have hdsq : d ^ 2 = cx * cx + cy * cy := by rw [← hd]; exact Real.sq_sqrt hcc
  generalize hEdef : Real.sqrt (ex ^ 2 + ey ^ 2) = E
  have hE0 : 0 ≤ E := by rw [← hEdef]; exact Real.sqrt_nonneg _
  have hEsq : E ^ 2 = ex ^ 2 + ey ^ 2 := by rw [← hEdef]; exact Real.sq_sqrt hee
  have hEpr : E < pr := by
    apply lt_of_pow_lt_pow_left₀ 2 hpr
    rw [hEsq]; exact hE
  have hcs : (cx * ex + cy * ey) ^ 2 ≤ (d * E) ^ 2 := by
    rw [mul_pow, hdsq, hEsq]
    nlinarith [sq_nonneg (cx * ey - cy * ex)]
  have hdE0 : 0 ≤ d * E := mul_nonneg hd0 hE0
  have hcs' := abs_le_of_sq_le_sq' hcs hdE0
  have hxy : (cx + ex) * (cx + ex) + (cy + ey) * (cy + ey) = d ^ 2 + 2 * (cx * ex + cy * ey) + E ^ 2 := by
    rw [hdsq, hEsq]; ring
  constructor
  · intro hlt
    have h1 : d + E < r := by linarith
    have h2 : (d + E) ^ 2 < r ^ 2 := by
      apply sq_lt_sq' <;> nlinarith
    rw [hxy]; nlinarith [hcs'.2]
  · intro hge hr0 hlt
    have h1 : r < d - E := by linarith
    have h2 : r ^ 2 < (d - E) ^ 2 := by
      apply sq_lt_sq' <;> nlinarith
    rw [hxy] at hlt; nlinarith [hcs'.1]

/-- **the fast paths of the circle kernel agree with sampling**: for every pixel, every radius
and every sub-sampling factor `n ≥ 1` the value computed with the shortcuts equals the fraction
of the `n × n` sample centres inside the circle. -/
theorem circle_fast_paths_sound (pxmin pymin dx dy r : ℝ) (n : Nat) (hn : 0 < n)
    (hdx : 0 < dx) (hdy : 0 < dy) (hr : 0 ≤ r) :
    circleCellFast pxmin pymin dx dy r n =
      subpixelFrac (circleK r) pxmin pymin (pxmin + dx) (pymin + dy) n := by
  have hpr0 : 0 ≤ (1/2) * Real.sqrt (dx * dx + dy * dy) := by positivity
  have hprsq : ((1/2) * Real.sqrt (dx * dx + dy * dy)) ^ 2 = (dx * dx + dy * dy) / 4 := by
    rw [mul_pow, Real.sq_sqrt (add_nonneg (mul_self_nonneg _) (mul_self_nonneg _))]; ring
  -- every sample is within pixel_radius of the pixel centre
  have near : ∀ a b, a < n → b < n →
      (samplePos pxmin (pxmin + dx) n a - (pxmin + dx * (1/2))) ^ 2
        + (samplePos pymin (pymin + dy) n b - (pymin + dy * (1/2))) ^ 2
        < ((1/2) * Real.sqrt (dx * dx + dy * dy)) ^ 2 := by
    intro a b ha hb
    have sx := samplePos_mem pxmin (pxmin + dx) (by linarith) n a ha
    have sy := samplePos_mem pymin (pymin + dy) (by linarith) n b hb
    have h1 : (samplePos pxmin (pxmin + dx) n a - (pxmin + dx * (1/2))) ^ 2 < (dx / 2) ^ 2 :=
      sq_lt_sq' (by linarith [sx.1]) (by linarith [sx.2])
    have h2 : (samplePos pymin (pymin + dy) n b - (pymin + dy * (1/2))) ^ 2 < (dy / 2) ^ 2 :=
      sq_lt_sq' (by linarith [sy.1]) (by linarith [sy.2])
    rw [hprsq]; nlinarith
  have split_pt : ∀ (c e : ℝ), c + (e - c) = e := by intro c e; ring
  unfold circleCellFast
  simp only
  split
  · rename_i hfast
    symm
    apply subpixelFrac_all _ _ _ _ _ _ hn
    intro a b ha hb
    have := (tri (pxmin + dx * (1/2)) (pymin + dy * (1/2)) _ _ _ r hpr0 (near a b ha hb)).1 hfast
    rw [split_pt, split_pt] at this
    simp only [circleK, decide_eq_true_eq]
    exact this
  · split
    · rfl
    · rename_i h1 h2
      symm
      apply subpixelFrac_none
      intro a b ha hb
      have := (tri (pxmin + dx * (1/2)) (pymin + dy * (1/2)) _ _ _ r hpr0 (near a b ha hb)).2 (not_lt.mp h2) hr
      rw [split_pt, split_pt] at this
      simp only [circleK, decide_eq_false_iff_not]
      exact this

end RegionsVerif.Props.C02
