/-
C04 (integer boxes of whole region expressions): the box returned by `bounding_box` for any
region expression — simple shape, annulus, compound of any depth — covers, with its
pixel-edge extent, every point that lies in any of the shapes the expression is built from;
an annulus has its outer shape's box; a compound has the union of its operands' boxes.
-/
import RegionsVerif.Props.C04

namespace RegionsVerif.Props.C04
open RegionsVerif.Impl RegionsVerif.Spec RegionsVerif.Props

/-- well-formed parameters (what the constructors' validators guarantee, plus unit rotation
vectors and `inner < outer` for annuli). -/
def WFReg : PReg ℚ → Prop
  | .circle r _ => 0 < r.radius
  | .ellipse r _ => 0 < r.width ∧ 0 < r.height ∧ r.dir.IsUnit
  | .rect r _ => 0 < r.width ∧ 0 < r.height ∧ r.dir.IsUnit
  | .polygon r _ => r.vertices ≠ []
  | .circleAnnulus _ r1 r2 _ => 0 < r1 ∧ r1 < r2
  | .ellipseAnnulus _ w1 h1 w2 h2 d _ => 0 < w1 ∧ 0 < h1 ∧ w1 < w2 ∧ h1 < h2 ∧ d.IsUnit
  | .rectAnnulus _ w1 h1 w2 h2 d _ => 0 < w1 ∧ 0 < h1 ∧ w1 < w2 ∧ h1 < h2 ∧ d.IsUnit
  | .empty _ _ _ _ => True
  | .compound _ r1 r2 _ => WFReg r1 ∧ WFReg r2

/-- the point lies in one of the shapes the expression is built from (include flags and
operators ignored: this is the union of all component shapes, an upper bound for the
member set of any `&`, `|`, `^` combination of included shapes). -/
def inSomeShape : PReg ℚ → Pt ℚ → Prop
  | .circle r _, p => r.inRaw p = true
  | .ellipse r _, p => r.inRaw p = true
  | .rect r _, p => r.inRaw p = true
  | .polygon r _, p => r.inRaw p = true
  | .circleAnnulus c r1 r2 _, p => (Circle.mk c r1).inRaw p = true ∨ (Circle.mk c r2).inRaw p = true
  | .ellipseAnnulus c w1 h1 w2 h2 d _, p =>
      (Ellipse.mk c w1 h1 d).inRaw p = true ∨ (Ellipse.mk c w2 h2 d).inRaw p = true
  | .rectAnnulus c w1 h1 w2 h2 d _, p =>
      (Rect.mk c w1 h1 d).inRaw p = true ∨ (Rect.mk c w2 h2 d).inRaw p = true
  | .empty _ _ _ _, _ => False
  | .compound _ r1 r2 _, p => inSomeShape r1 p ∨ inSomeShape r2 p

/-- the point lies inside the box's pixel-edge extent. -/
def inEdgeExtent (b : BBox) (p : Pt ℚ) : Prop :=
  (b.ixmin : ℚ) - 1/2 ≤ p.x ∧ p.x ≤ (b.ixmax : ℚ) - 1/2 ∧
  (b.iymin : ℚ) - 1/2 ≤ p.y ∧ p.y ≤ (b.iymax : ℚ) - 1/2

theorem inEdgeExtent_mono (a c : BBox) (h : cornerLe a c) (p : Pt ℚ) (hp : inEdgeExtent a p) :
    inEdgeExtent c p := by
  unfold inEdgeExtent cornerLe at *
  obtain ⟨h1, h2, h3, h4⟩ := h
  have e1 : (c.ixmin : ℚ) ≤ a.ixmin := by exact_mod_cast h1
  have e2 : (a.ixmax : ℚ) ≤ c.ixmax := by exact_mod_cast h2
  have e3 : (c.iymin : ℚ) ≤ a.iymin := by exact_mod_cast h3
  have e4 : (a.iymax : ℚ) ≤ c.iymax := by exact_mod_cast h4
  refine ⟨by linarith [hp.1], by linarith [hp.2.1], by linarith [hp.2.2.1], by linarith [hp.2.2.2]⟩

theorem extent_box_encloses (e : ℚ × ℚ × ℚ × ℚ) (b : BBox) (h : bboxOfExtent e = .ok b) (p : Pt ℚ)
    (hp : e.1 ≤ p.x ∧ p.x ≤ e.2.1 ∧ e.2.2.1 ≤ p.y ∧ p.y ≤ e.2.2.2) : inEdgeExtent b p := by
  obtain ⟨⟨h1, h2, h3, h4⟩, -, -⟩ := bbox_of_extent e b h
  unfold inEdgeExtent
  refine ⟨by linarith [hp.1], by linarith [hp.2.1], by linarith [hp.2.2.1], by linarith [hp.2.2.2]⟩

theorem circle_box_encloses (r : Circle ℚ) (hr : 0 < r.radius) (b : BBox)
    (h : bboxOfExtent r.extent = .ok b) (p : Pt ℚ) (hp : r.inRaw p = true) : inEdgeExtent b p := by
  obtain ⟨h1, h2, h3, h4⟩ := circle_extent_encloses r hr p hp
  exact extent_box_encloses _ b h p ⟨h1.le, h2.le, h3.le, h4.le⟩

theorem rect_box_encloses (r : Rect ℚ) (hw : 0 < r.width) (hh : 0 < r.height) (hu : r.dir.IsUnit)
    (b : BBox) (h : bboxOfExtent r.extent = .ok b) (p : Pt ℚ) (hp : r.inRaw p = true) :
    inEdgeExtent b p :=
  extent_box_encloses _ b h p (rect_extent_encloses r hu hw hh p hp)

/-- the executable ellipse box (exact `⌊· − √·⌋`) encloses every member point. -/
theorem ellipse_box_encloses (r : Ellipse ℚ) (hw : 0 < r.width) (hh : 0 < r.height)
    (hu : r.dir.IsUnit) (b : BBox) (h : r.bboxQ = .ok b) (p : Pt ℚ) (hp : r.inRaw p = true) :
    inEdgeExtent b p := by
  obtain ⟨s1, s2⟩ := ellipse_extent_encloses_sq r hu hw hh p hp
  unfold Ellipse.bboxQ at h
  simp only at h
  obtain ⟨hb, -⟩ := C19.ctor_value _ _ _ _ _ h
  have hD1 : 0 ≤ r.halfExtent2.1 := le_trans (sq_nonneg _) s1
  have hD2 : 0 ≤ r.halfExtent2.2 := le_trans (sq_nonneg _) s2
  have r1 : |((p.x - r.center.x : ℚ) : ℝ)| ≤ Real.sqrt (r.halfExtent2.1 : ℚ) := by
    apply Real.abs_le_sqrt
    have : (((p.x - r.center.x) ^ 2 : ℚ) : ℝ) ≤ ((r.halfExtent2.1 : ℚ) : ℝ) := by exact_mod_cast s1
    simpa using this
  have r2 : |((p.y - r.center.y : ℚ) : ℝ)| ≤ Real.sqrt (r.halfExtent2.2 : ℚ) := by
    apply Real.abs_le_sqrt
    have : (((p.y - r.center.y) ^ 2 : ℚ) : ℝ) ≤ ((r.halfExtent2.2 : ℚ) : ℝ) := by exact_mod_cast s2
    simpa using this
  rw [abs_le] at r1 r2
  subst hb
  unfold inEdgeExtent
  simp only
  rw [floorSubSqrt_spec _ _ hD1, ceilAddSqrt_spec _ _ hD1, floorSubSqrt_spec _ _ hD2,
      ceilAddSqrt_spec _ _ hD2]
  have f1 := Int.floor_le (((r.center.x + 1/2 : ℚ) : ℝ) - Real.sqrt (r.halfExtent2.1 : ℚ))
  have f2 := Int.le_ceil (((r.center.x + 1/2 : ℚ) : ℝ) + Real.sqrt (r.halfExtent2.1 : ℚ))
  have f3 := Int.floor_le (((r.center.y + 1/2 : ℚ) : ℝ) - Real.sqrt (r.halfExtent2.2 : ℚ))
  have f4 := Int.le_ceil (((r.center.y + 1/2 : ℚ) : ℝ) + Real.sqrt (r.halfExtent2.2 : ℚ))
  generalize ⌊((r.center.x + 1/2 : ℚ) : ℝ) - Real.sqrt (r.halfExtent2.1 : ℚ)⌋ = k1 at f1 ⊢
  generalize ⌈((r.center.x + 1/2 : ℚ) : ℝ) + Real.sqrt (r.halfExtent2.1 : ℚ)⌉ = k2 at f2 ⊢
  generalize ⌊((r.center.y + 1/2 : ℚ) : ℝ) - Real.sqrt (r.halfExtent2.2 : ℚ)⌋ = k3 at f3 ⊢
  generalize ⌈((r.center.y + 1/2 : ℚ) : ℝ) + Real.sqrt (r.halfExtent2.2 : ℚ)⌉ = k4 at f4 ⊢
  push_cast at f1 f2 f3 f4 r1 r2
  refine ⟨?_, ?_, ?_, ?_⟩
  · have : (((k1 : ℚ) - 1/2 : ℚ) : ℝ) ≤ ((p.x : ℚ) : ℝ) := by push_cast; linarith [r1.1]
    exact Rat.cast_le.mp this
  · have : ((p.x : ℚ) : ℝ) ≤ (((k2 : ℚ) - 1/2 : ℚ) : ℝ) := by push_cast; linarith [r1.2]
    exact Rat.cast_le.mp this
  · have : (((k3 : ℚ) - 1/2 : ℚ) : ℝ) ≤ ((p.y : ℚ) : ℝ) := by push_cast; linarith [r2.1]
    exact Rat.cast_le.mp this
  · have : ((p.y : ℚ) : ℝ) ≤ (((k4 : ℚ) - 1/2 : ℚ) : ℝ) := by push_cast; linarith [r2.2]
    exact Rat.cast_le.mp this

/-- the executable ellipse box *is* `from_float` applied to the real-number extent
`(cx − √dx², cx + √dx², cy − √dy², cy + √dy²)` — so `bbox_of_extent` (minimality, border
columns reached) applies to it verbatim over ℝ. -/
theorem ellipse_bboxQ_eq_fromFloat_real (r : Ellipse ℚ) (hD1 : 0 ≤ r.halfExtent2.1)
    (hD2 : 0 ≤ r.halfExtent2.2) :
    r.bboxQ = BBox.fromFloat
      ((r.center.x : ℝ) - Real.sqrt (r.halfExtent2.1 : ℚ)) ((r.center.x : ℝ) + Real.sqrt (r.halfExtent2.1 : ℚ))
      ((r.center.y : ℝ) - Real.sqrt (r.halfExtent2.2 : ℚ)) ((r.center.y : ℝ) + Real.sqrt (r.halfExtent2.2 : ℚ)) := by
  unfold Ellipse.bboxQ BBox.fromFloat
  simp only
  rw [floorSubSqrt_spec _ _ hD1, ceilAddSqrt_spec _ _ hD1, floorSubSqrt_spec _ _ hD2,
      ceilAddSqrt_spec _ _ hD2]
  congr 2 <;> (push_cast; ring)

/-- **enclosure for every region expression** (any nesting depth): a point in any component
shape lies inside the pixel-edge extent of the expression's bounding box. -/
theorem bbox_encloses (r : PReg ℚ) (hwf : WFReg r) (b : BBox) (hb : r.bbox = .ok b) (p : Pt ℚ)
    (hp : inSomeShape r p) : inEdgeExtent b p := by
  induction r generalizing b with
  | circle c i => exact circle_box_encloses c hwf b hb p hp
  | ellipse e i => exact ellipse_box_encloses e hwf.1 hwf.2.1 hwf.2.2 b hb p hp
  | rect c i => exact rect_box_encloses c hwf.1 hwf.2.1 hwf.2.2 b hb p hp
  | polygon g i =>
    simp only [PReg.bbox] at hb
    cases he : g.extent with
    | none => rw [he] at hb; simp at hb
    | some e =>
      rw [he] at hb
      obtain ⟨h1, h2, h3, h4⟩ := polygon_extent_encloses g e he p hp
      exact extent_box_encloses e b hb p ⟨h1, h2.le, h3, h4.le⟩
  | circleAnnulus c r1 r2 i =>
    obtain ⟨h0, h12⟩ := hwf
    have : (Circle.mk c r2).inRaw p = true := by
      rcases hp with hp | hp
      · exact C01.circle_nested c r1 r2 h0 h12 p hp
      · exact hp
    exact circle_box_encloses _ (by simp only; linarith) b hb p this
  | ellipseAnnulus c w1 h1 w2 h2 d i =>
    obtain ⟨hw0, hh0, hw, hh, hu⟩ := hwf
    have : (Ellipse.mk c w2 h2 d).inRaw p = true := by
      rcases hp with hp | hp
      · exact C01.ellipse_nested c d w1 h1 w2 h2 hw0 hh0 hw hh p hp
      · exact hp
    exact ellipse_box_encloses _ (by simp only; linarith) (by simp only; linarith) hu b hb p this
  | rectAnnulus c w1 h1 w2 h2 d i =>
    obtain ⟨hw0, hh0, hw, hh, hu⟩ := hwf
    have : (Rect.mk c w2 h2 d).inRaw p = true := by
      rcases hp with hp | hp
      · exact C01.rect_nested c d w1 h1 w2 h2 hw hh p hp
      · exact hp
    exact rect_box_encloses _ (by simp only; linarith) (by simp only; linarith) hu b hb p this
  | empty k a c i => exact absurd hp (by simp [inSomeShape])
  | compound op r1 r2 i ih1 ih2 =>
    simp only [PReg.bbox] at hb
    cases hb1 : r1.bbox with
    | error e => rw [hb1] at hb; simp [bind, Except.bind] at hb
    | ok b1 =>
      cases hb2 : r2.bbox with
      | error e => rw [hb1, hb2] at hb; simp [bind, Except.bind] at hb
      | ok b2 =>
        rw [hb1, hb2] at hb
        simp only [bind, Except.bind] at hb
        obtain ⟨hu1, hu2⟩ := C19.union_upper b1 b2 b hb
        rcases hp with hp | hp
        · exact inEdgeExtent_mono b1 b hu1 p (ih1 hwf.1 b1 hb1 hp)
        · exact inEdgeExtent_mono b2 b hu2 p (ih2 hwf.2 b2 hb2 hp)

/-- an annulus has the box of its outer shape; a compound has the union of the operands'. -/
theorem annulus_bbox_eq_outer (c : Pt ℚ) (r1 r2 : ℚ) (i j : Include) :
    (PReg.circleAnnulus c r1 r2 i).bbox = (PReg.circle ⟨c, r2⟩ j).bbox := rfl

theorem ellipse_annulus_bbox_eq_outer (c : Pt ℚ) (w1 h1 w2 h2 : ℚ) (d : Dir ℚ) (i j : Include) :
    (PReg.ellipseAnnulus c w1 h1 w2 h2 d i).bbox = (PReg.ellipse ⟨c, w2, h2, d⟩ j).bbox := rfl

theorem rect_annulus_bbox_eq_outer (c : Pt ℚ) (w1 h1 w2 h2 : ℚ) (d : Dir ℚ) (i j : Include) :
    (PReg.rectAnnulus c w1 h1 w2 h2 d i).bbox = (PReg.rect ⟨c, w2, h2, d⟩ j).bbox := rfl

theorem compound_bbox_eq_union (op : BoolOp) (r1 r2 : PReg ℚ) (i : Include) (b1 b2 : BBox)
    (h1 : r1.bbox = .ok b1) (h2 : r2.bbox = .ok b2) :
    (PReg.compound op r1 r2 i).bbox = BBox.union b1 b2 := by
  simp only [PReg.bbox, h1, h2, bind, Except.bind]

-- non-vacuity: a well-formed nested expression
example : WFReg (.compound .xor (.circle ⟨⟨0, 0⟩, 2⟩ .absent)
    (.compound .and (.rect ⟨⟨1, 1⟩, 2, 3, ⟨3/5, 4/5⟩⟩ .zero) (.circleAnnulus ⟨0, 1⟩ 1 2 .absent) .absent)
    .pyFalse) := by
  simp only [WFReg, Dir.IsUnit]; norm_num

end RegionsVerif.Props.C04
