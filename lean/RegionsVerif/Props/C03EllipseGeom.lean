/-
C03 (ellipse) — geometry and measure toolkit for the ELLIPSE 'exact' kernel
(`Gen/EllipseExactReal`, generated from `Impl/templates/EllipseExact.lean.in`).  Main results are
collected in `Props/C03Ellipse.lean`; this file holds

* (a) `circle_line` / `circle_segment` / `circle_segment_single2`: `circleLine_cases`,
  `circleLine_through_inside`, `single2_spec`, `circleSegment_two`, `circleSegment_outside`;
* termination of the recursion of `overlap_area_triangle_unit_circle`: `overlapTri_terminates`
  (fuel 2 suffices over ℝ);
* the two WRONG branches at concrete rational inputs: `on1_branch_refuted` (F3a),
  `on2_branch_refuted` (F3b);
* measure toolkit: affine change of variables `volume_affine_preimage`, null lines, the unit disk
  (`volume_disk`, `volume_circle`), the triangle `volume_triSet` (= the kernel's `area_triangle`),
  circular segments `volume_cap`, `volume_chord_side`, `volume_tri_cap` (= `area_arc_unit`);
* (d) `volume_pixel_ellipse` and the PARTIAL grid-cell theorem `ellipseCell_eq_volume_partial`
  (hypothesis: the triangle routine is right on the kernel's two triangles), `ellipseCell_outside_box`;
* decomposition geometry: `cone_outside`, `cap_eq`, `volume_split`, `twoIn_geometry`,
  `oneIn_chord_geometry`, `oneIn_noChord_geometry`; the first two case theorems `sorted_allIn`,
  `sorted_twoIn` and the bridge `triCorrect_of_sorted` from the sorted body to the routine.
-/
import RegionsVerif.Gen.EllipseExactReal
import RegionsVerif.Props.C03Area
import Mathlib.MeasureTheory.Measure.Lebesgue.EqHaar
import Mathlib.LinearAlgebra.Matrix.ToLin
import Mathlib.LinearAlgebra.Basis.Fin
import Mathlib.Analysis.SpecialFunctions.Trigonometric.Bounds
import Mathlib.Tactic.LinearCombination
import Mathlib.Tactic.Positivity
import Mathlib.Tactic.FieldSimp
import Mathlib.Tactic.NormNum

namespace RegionsVerif.Props.C03E
open RegionsVerif.Gen.EllipseExactReal

/-! ### (a) `circle_line`: the two intersections of a line with the unit circle -/

def OnCircle (p : Point) : Prop := p.x * p.x + p.y * p.y = 1

/-- `p` lies on the line through `(x1,y1)`, `(x2,y2)`. -/
def OnLine (x1 y1 x2 y2 : ℝ) (p : Point) : Prop := (p.x - x1) * (y2 - y1) = (p.y - y1) * (x2 - x1)

/-- the "no solution" sentinel of the code. -/
def noPt : Point := ⟨2, 2⟩

theorem pow2_eq (x : ℝ) : pow2 x = x * x := by unfold pow2; ring

/-- what `circle_line` returns: either the sentinel pair (and then the edge is "tiny" or the
discriminant is not positive), or two distinct points of the line on the circle. -/
theorem circleLine_cases_aux (x1 y1 x2 y2 : ℝ) :
    (((circleLine x1 y1 x2 y2).p1 = noPt ∧ (circleLine x1 y1 x2 y2).p2 = noPt) ∧
      ((|x2 - x1| < 1.0e-10 ∧ |y2 - y1| < 1.0e-10) ∨
       (x2 - x1 ≠ 0 ∧ ¬ (1 + (y2 - y1) / (x2 - x1) * ((y2 - y1) / (x2 - x1)) -
          (y1 - (y2 - y1) / (x2 - x1) * x1) * (y1 - (y2 - y1) / (x2 - x1) * x1) > 0)) ∨
       (y2 - y1 ≠ 0 ∧ ¬ (1 + (x2 - x1) / (y2 - y1) * ((x2 - x1) / (y2 - y1)) -
          (x1 - (x2 - x1) / (y2 - y1) * y1) * (x1 - (x2 - x1) / (y2 - y1) * y1) > 0)))) ∨
    (OnCircle (circleLine x1 y1 x2 y2).p1 ∧ OnCircle (circleLine x1 y1 x2 y2).p2 ∧
      OnLine x1 y1 x2 y2 (circleLine x1 y1 x2 y2).p1 ∧ OnLine x1 y1 x2 y2 (circleLine x1 y1 x2 y2).p2 ∧
      ((circleLine x1 y1 x2 y2).p1.x < (circleLine x1 y1 x2 y2).p2.x ∨
       (circleLine x1 y1 x2 y2).p1.y < (circleLine x1 y1 x2 y2).p2.y)) := by
  unfold circleLine
  simp only
  split_ifs with h1 h2 h3 h4
  · left; exact ⟨⟨rfl, rfl⟩, Or.inl h1⟩
  · -- |dx| > |dy|, delta > 0
    right
    have hdx : x2 - x1 ≠ 0 := by
      intro h; rw [h, abs_zero] at h2; exact absurd h2 (not_lt.mpr (abs_nonneg _))
    set a := (y2 - y1) / (x2 - x1) with ha
    set b := y1 - a * x1 with hb
    have hsq : Real.sqrt (1 + a * a - b * b) * Real.sqrt (1 + a * a - b * b) = 1 + a * a - b * b :=
      Real.mul_self_sqrt h3.le
    have hpos : 0 < Real.sqrt (1 + a * a - b * b) := Real.sqrt_pos.mpr h3
    set s := Real.sqrt (1 + a * a - b * b) with hs
    have hq : (0 : ℝ) < 1 + a * a := by nlinarith [mul_self_nonneg a]
    have hady : a * (x2 - x1) = y2 - y1 := by rw [ha]; field_simp
    refine ⟨?_, ?_, ?_, ?_, Or.inl ?_⟩
    · unfold OnCircle; simp only; field_simp; linear_combination (1 + a * a) * hsq
    · unfold OnCircle; simp only; field_simp; linear_combination (1 + a * a) * hsq
    · unfold OnLine; simp only; rw [← hady, hb]; ring
    · unfold OnLine; simp only; rw [← hady, hb]; ring
    · simp only; apply div_lt_div_of_pos_right _ hq; linarith
  · left
    refine ⟨⟨rfl, rfl⟩, Or.inr (Or.inl ⟨?_, h3⟩)⟩
    intro h; rw [h, abs_zero] at h2; exact absurd h2 (not_lt.mpr (abs_nonneg _))
  · -- |dy| ≥ |dx|, delta > 0
    right
    have hdy : y2 - y1 ≠ 0 := by
      intro h
      rw [h, abs_zero] at h1 h2
      have : |x2 - x1| = 0 := le_antisymm (not_lt.mp h2) (abs_nonneg _)
      rw [this] at h1
      exact h1 ⟨by norm_num, by norm_num⟩
    set a := (x2 - x1) / (y2 - y1) with ha
    set b := x1 - a * y1 with hb
    have hsq : Real.sqrt (1 + a * a - b * b) * Real.sqrt (1 + a * a - b * b) = 1 + a * a - b * b :=
      Real.mul_self_sqrt h4.le
    have hpos : 0 < Real.sqrt (1 + a * a - b * b) := Real.sqrt_pos.mpr h4
    set s := Real.sqrt (1 + a * a - b * b) with hs
    have hq : (0 : ℝ) < 1 + a * a := by nlinarith [mul_self_nonneg a]
    have hady : a * (y2 - y1) = x2 - x1 := by rw [ha]; field_simp
    refine ⟨?_, ?_, ?_, ?_, Or.inr ?_⟩
    · unfold OnCircle; simp only; field_simp; linear_combination (1 + a * a) * hsq
    · unfold OnCircle; simp only; field_simp; linear_combination (1 + a * a) * hsq
    · unfold OnLine; simp only; rw [← hady, hb]; ring
    · unfold OnLine; simp only; rw [← hady, hb]; ring
    · simp only; apply div_lt_div_of_pos_right _ hq; linarith
  · left
    refine ⟨⟨rfl, rfl⟩, Or.inr (Or.inr ⟨?_, h4⟩)⟩
    intro h
    rw [h, abs_zero] at h1 h2
    have : |x2 - x1| = 0 := le_antisymm (not_lt.mp h2) (abs_nonneg _)
    rw [this] at h1
    exact h1 ⟨by norm_num, by norm_num⟩

theorem circleLine_cases (x1 y1 x2 y2 : ℝ) :
    ((circleLine x1 y1 x2 y2).p1 = noPt ∧ (circleLine x1 y1 x2 y2).p2 = noPt) ∨
    (OnCircle (circleLine x1 y1 x2 y2).p1 ∧ OnCircle (circleLine x1 y1 x2 y2).p2 ∧
      OnLine x1 y1 x2 y2 (circleLine x1 y1 x2 y2).p1 ∧ OnLine x1 y1 x2 y2 (circleLine x1 y1 x2 y2).p2 ∧
      ((circleLine x1 y1 x2 y2).p1.x < (circleLine x1 y1 x2 y2).p2.x ∨
       (circleLine x1 y1 x2 y2).p1.y < (circleLine x1 y1 x2 y2).p2.y)) := by
  rcases circleLine_cases_aux x1 y1 x2 y2 with ⟨h, -⟩ | h
  · exact Or.inl h
  · exact Or.inr h

/-! ### `circle_segment`, chord midpoints, and termination of the recursion -/

theorem noPt_x : noPt.x = 2 := rfl

/-- when `circle_segment` reports two intersections (`p1.x ≤ 1`) they are the two (distinct)
points of `circle_line`, in swapped order, and neither was discarded. -/
theorem circleSegment_two (x1 y1 x2 y2 : ℝ) (h : (circleSegment x1 y1 x2 y2).p1.x ≤ 1) :
    (circleSegment x1 y1 x2 y2).p1 = (circleLine x1 y1 x2 y2).p2 ∧
    (circleSegment x1 y1 x2 y2).p2 = (circleLine x1 y1 x2 y2).p1 ∧
    ¬ offSegment (circleLine x1 y1 x2 y2).p1 x1 y1 x2 y2 ∧
    ¬ offSegment (circleLine x1 y1 x2 y2).p2 x1 y1 x2 y2 ∧
    (circleLine x1 y1 x2 y2).p1.x ≤ 1 := by
  unfold circleSegment at h ⊢
  simp only at h ⊢
  by_cases o1 : offSegment (circleLine x1 y1 x2 y2).p1 x1 y1 x2 y2 <;>
  by_cases o2 : offSegment (circleLine x1 y1 x2 y2).p2 x1 y1 x2 y2
  · simp only [o1, o2, if_true] at h
    split_ifs at h <;> norm_num at h
  · simp only [o1, o2, if_true, if_false] at h
    split_ifs at h with c
    · norm_num at h
    · exact absurd ⟨by norm_num, by linarith⟩ c
  · simp only [o1, o2, if_true, if_false] at h
    split_ifs at h with c
    · norm_num at c
    · norm_num at h
  · simp only [o1, o2, if_false] at h ⊢
    split_ifs at h ⊢ with c
    · linarith [c.1]
    · refine ⟨rfl, rfl, not_false, not_false, ?_⟩
      by_contra hc
      exact c ⟨not_le.mp hc, by linarith⟩

/-- the midpoint of a chord is strictly inside the circle. -/
theorem midpoint_inside (p q : Point) (hp : OnCircle p) (hq : OnCircle q)
    (hne : p.x < q.x ∨ p.y < q.y) :
    (0.5 * (p.x + q.x)) * (0.5 * (p.x + q.x)) + (0.5 * (p.y + q.y)) * (0.5 * (p.y + q.y)) < 1 := by
  unfold OnCircle at hp hq
  have : 0 < (p.x - q.x) * (p.x - q.x) + (p.y - q.y) * (p.y - q.y) := by
    rcases hne with h | h
    · nlinarith [mul_self_nonneg (p.y - q.y), mul_pos (sub_pos.mpr h) (sub_pos.mpr h)]
    · nlinarith [mul_self_nonneg (p.x - q.x), mul_pos (sub_pos.mpr h) (sub_pos.mpr h)]
  norm_num
  nlinarith

/-- the chord midpoint used by the all-outside branch is strictly inside the circle. -/
theorem circleSegment_mid_inside (x1 y1 x2 y2 : ℝ) (h : (circleSegment x1 y1 x2 y2).p1.x ≤ 1) :
    (0.5 * ((circleSegment x1 y1 x2 y2).p1.x + (circleSegment x1 y1 x2 y2).p2.x)) *
      (0.5 * ((circleSegment x1 y1 x2 y2).p1.x + (circleSegment x1 y1 x2 y2).p2.x)) +
    (0.5 * ((circleSegment x1 y1 x2 y2).p1.y + (circleSegment x1 y1 x2 y2).p2.y)) *
      (0.5 * ((circleSegment x1 y1 x2 y2).p1.y + (circleSegment x1 y1 x2 y2).p2.y)) < 1 := by
  obtain ⟨e1, e2, -, -, hx⟩ := circleSegment_two x1 y1 x2 y2 h
  rw [e1, e2]
  rcases circleLine_cases x1 y1 x2 y2 with ⟨s1, -⟩ | ⟨c1, c2, -, -, hne⟩
  · rw [s1, noPt_x] at hx; norm_num at hx
  · have := midpoint_inside _ _ c1 c2 hne
    nlinarith [this]

/-- with a vertex strictly inside the circle the sorted body never recurses. -/
theorem overlapSorted_isSome_of_in (self : ℝ → ℝ → ℝ → ℝ → ℝ → ℝ → Option ℝ)
    (x1 y1 d1 x2 y2 d2 x3 y3 d3 : ℝ) (h12 : d1 ≤ d2) (h23 : d2 ≤ d3) (hin : d1 < 1) :
    (overlapSorted self x1 y1 d1 x2 y2 d2 x3 y3 d3).isSome = true := by
  unfold overlapSorted
  rw [if_neg (by push Not; exact ⟨h12, h23, le_trans h12 h23⟩)]
  simp only
  split_ifs with c1 c2 c3 c4
  · rfl
  · rfl
  · rfl
  · rfl
  · exact absurd (decide_eq_true hin) c4

/-- the vertex sort: `overlapTri (n+1)` is `overlapSorted` on a permutation of the vertices with
`d1 ≤ d2 ≤ d3` (the `raise` is unreachable over ℝ). -/
theorem overlapTri_succ (n : Nat) (x1 y1 x2 y2 x3 y3 : ℝ) :
    ∃ a1 b1 a2 b2 a3 b3 : ℝ,
      overlapTri (n + 1) x1 y1 x2 y2 x3 y3 =
        overlapSorted (overlapTri n) a1 b1 (a1 * a1 + b1 * b1) a2 b2 (a2 * a2 + b2 * b2) a3 b3 (a3 * a3 + b3 * b3) ∧
      a1 * a1 + b1 * b1 ≤ a2 * a2 + b2 * b2 ∧ a2 * a2 + b2 * b2 ≤ a3 * a3 + b3 * b3 ∧
      (((a1, b1), (a2, b2), (a3, b3)) = ((x1, y1), (x2, y2), (x3, y3)) ∨
       ((a1, b1), (a2, b2), (a3, b3)) = ((x1, y1), (x3, y3), (x2, y2)) ∨
       ((a1, b1), (a2, b2), (a3, b3)) = ((x3, y3), (x1, y1), (x2, y2)) ∨
       ((a1, b1), (a2, b2), (a3, b3)) = ((x2, y2), (x1, y1), (x3, y3)) ∨
       ((a1, b1), (a2, b2), (a3, b3)) = ((x2, y2), (x3, y3), (x1, y1)) ∨
       ((a1, b1), (a2, b2), (a3, b3)) = ((x3, y3), (x2, y2), (x1, y1))) := by
  unfold overlapTri
  simp only
  split_ifs with c1 c2 c3 c4 c5
  · exact ⟨x1, y1, x2, y2, x3, y3, rfl, c1.le, c2.le, Or.inl rfl⟩
  · exact ⟨x1, y1, x3, y3, x2, y2, rfl, c3.le, not_lt.mp c2, Or.inr (Or.inl rfl)⟩
  · exact ⟨x3, y3, x1, y1, x2, y2, rfl, not_lt.mp c3, c1.le, Or.inr (Or.inr (Or.inl rfl))⟩
  · exact ⟨x2, y2, x1, y1, x3, y3, rfl, not_lt.mp c1, c4.le, Or.inr (Or.inr (Or.inr (Or.inl rfl)))⟩
  · exact ⟨x2, y2, x3, y3, x1, y1, rfl, c5.le, not_lt.mp c4, Or.inr (Or.inr (Or.inr (Or.inr (Or.inl rfl))))⟩
  · exact ⟨x3, y3, x2, y2, x1, y1, rfl, not_lt.mp c5, not_lt.mp c1, Or.inr (Or.inr (Or.inr (Or.inr (Or.inr rfl))))⟩

theorem overlapTri_isSome_of_in (n : Nat) (x1 y1 x2 y2 x3 y3 : ℝ)
    (h : x1 * x1 + y1 * y1 < 1 ∨ x2 * x2 + y2 * y2 < 1 ∨ x3 * x3 + y3 * y3 < 1) :
    (overlapTri (n + 1) x1 y1 x2 y2 x3 y3).isSome = true := by
  obtain ⟨a1, b1, a2, b2, a3, b3, e, s1, s2, hp⟩ := overlapTri_succ n x1 y1 x2 y2 x3 y3
  rw [e]
  apply overlapSorted_isSome_of_in _ _ _ _ _ _ _ _ _ _ s1 s2
  rcases hp with hp | hp | hp | hp | hp | hp <;>
    (simp only [Prod.mk.injEq] at hp
     obtain ⟨⟨r1, r2⟩, ⟨r3, r4⟩, r5, r6⟩ := hp
     subst r1 r2 r3 r4 r5 r6
     rcases h with h | h | h <;> linarith)

theorem optAdd_isSome (a b : Option ℝ) (ha : a.isSome = true) (hb : b.isSome = true) :
    (optAdd a b).isSome = true := by
  cases a <;> cases b <;> simp_all [optAdd]

/-- **the recursion terminates**: fuel 2 suffices for every input (the all-outside branch
recurses on triangles having the chord midpoint, strictly inside the circle, as a vertex). -/
theorem overlapTri_terminates (n : Nat) (x1 y1 x2 y2 x3 y3 : ℝ) :
    (overlapTri (n + 2) x1 y1 x2 y2 x3 y3).isSome = true := by
  obtain ⟨a1, b1, a2, b2, a3, b3, e, s1, s2, -⟩ := overlapTri_succ (n + 1) x1 y1 x2 y2 x3 y3
  rw [e]
  unfold overlapSorted
  rw [if_neg (by push Not; exact ⟨s1, s2, le_trans s1 s2⟩)]
  simp only
  split_ifs with c1 c2 c3 c4
  · rfl
  · rfl
  · rfl
  · rfl
  · unfold caseNoneIn
    simp only
    split_ifs with k1 k2 k3 k4
    · exact optAdd_isSome _ _
        (overlapTri_isSome_of_in n _ _ _ _ _ _ (Or.inr (Or.inr (circleSegment_mid_inside _ _ _ _ k1))))
        (overlapTri_isSome_of_in n _ _ _ _ _ _ (Or.inr (Or.inr (circleSegment_mid_inside _ _ _ _ k1))))
    · exact optAdd_isSome _ _
        (overlapTri_isSome_of_in n _ _ _ _ _ _ (Or.inr (Or.inr (circleSegment_mid_inside _ _ _ _ k2))))
        (overlapTri_isSome_of_in n _ _ _ _ _ _ (Or.inr (Or.inr (circleSegment_mid_inside _ _ _ _ k2))))
    · exact optAdd_isSome _ _
        (overlapTri_isSome_of_in n _ _ _ _ _ _ (Or.inr (Or.inr (circleSegment_mid_inside _ _ _ _ k3))))
        (overlapTri_isSome_of_in n _ _ _ _ _ _ (Or.inr (Or.inr (circleSegment_mid_inside _ _ _ _ k3))))
    · rfl
    · rfl

/-! ### measure toolkit: affine changes of variables, null lines -/

open MeasureTheory

instance instHaarPlane : Measure.IsAddHaarMeasure (volume : Measure (ℝ × ℝ)) :=
  Measure.prod.instIsAddHaarMeasure _ _

/-- the linear map `(x, y) ↦ (a x + b y, c x + d y)`. -/
noncomputable def linMap (a b c d : ℝ) : (ℝ × ℝ) →ₗ[ℝ] (ℝ × ℝ) :=
  Matrix.toLin (Module.Basis.finTwoProd ℝ) (Module.Basis.finTwoProd ℝ) !![a, b; c, d]

theorem linMap_apply (a b c d : ℝ) (p : ℝ × ℝ) :
    linMap a b c d p = (a * p.1 + b * p.2, c * p.1 + d * p.2) :=
  Matrix.toLin_finTwoProd_apply _ _ _ _ _

theorem det_linMap (a b c d : ℝ) : LinearMap.det (linMap a b c d) = a * d - b * c := by
  rw [linMap, LinearMap.det_toLin, Matrix.det_fin_two_of]

/-- **affine change of variables** in the plane. -/
theorem volume_affine_preimage (a b c d e f : ℝ) (h : a * d - b * c ≠ 0) (s : Set (ℝ × ℝ)) :
    volume {p : ℝ × ℝ | (a * p.1 + b * p.2 + e, c * p.1 + d * p.2 + f) ∈ s} =
      ENNReal.ofReal |(a * d - b * c)⁻¹| * volume s := by
  have hset : {p : ℝ × ℝ | (a * p.1 + b * p.2 + e, c * p.1 + d * p.2 + f) ∈ s} =
      (linMap a b c d) ⁻¹' ((fun q : ℝ × ℝ => q + (e, f)) ⁻¹' s) := by
    ext p
    simp only [Set.mem_ofPred_eq, Set.mem_preimage, linMap_apply, Prod.mk_add_mk]
  rw [hset, Measure.addHaar_preimage_linearMap volume (by rw [det_linMap]; exact h), det_linMap,
    measure_preimage_add_right]

/-- a line is a null set. -/
theorem volume_line (u v w : ℝ) (h : u ≠ 0 ∨ v ≠ 0) :
    volume {p : ℝ × ℝ | u * p.1 + v * p.2 = w} = 0 := by
  have hd : u * u - v * (-v) ≠ 0 := by
    have : 0 < u * u + v * v := by
      rcases h with h | h
      · nlinarith [mul_self_pos.mpr h, mul_self_nonneg v]
      · nlinarith [mul_self_pos.mpr h, mul_self_nonneg u]
    intro h0; nlinarith
  have := volume_affine_preimage u v (-v) u 0 0 hd ({w} ×ˢ Set.univ)
  have hs : {p : ℝ × ℝ | (u * p.1 + v * p.2 + 0, -v * p.1 + u * p.2 + 0) ∈ ({w} ×ˢ Set.univ : Set (ℝ × ℝ))} =
      {p : ℝ × ℝ | u * p.1 + v * p.2 = w} := by
    ext p; simp
  rw [hs] at this
  rw [this, Measure.volume_eq_prod, Measure.prod_prod, Real.volume_singleton, zero_mul, mul_zero]

/-- two sets that differ by a null set have the same volume. -/
theorem volume_eq_of_subset_of_diff_null {S T N : Set (ℝ × ℝ)} (hST : S ⊆ T) (hN : T ⊆ S ∪ N)
    (h0 : volume N = 0) : volume S = volume T := by
  apply le_antisymm (measure_mono hST)
  calc volume T ≤ volume (S ∪ N) := measure_mono hN
    _ ≤ volume S + volume N := measure_union_le _ _
    _ = volume S := by rw [h0, add_zero]

/-! ### triangles: barycentric set, half-plane description, volume -/

/-- the open unit disk. -/
def disk : Set (ℝ × ℝ) := {p | p.1 ^ 2 + p.2 ^ 2 < 1}

/-- twice the signed area of the triangle `A B C`. -/
def orient (A B C : ℝ × ℝ) : ℝ := (B.1 - A.1) * (C.2 - A.2) - (B.2 - A.2) * (C.1 - A.1)

/-- the closed triangle with vertices `A B C` (convex combinations). -/
def triSet (A B C : ℝ × ℝ) : Set (ℝ × ℝ) :=
  {p | ∃ a b c : ℝ, 0 ≤ a ∧ 0 ≤ b ∧ 0 ≤ c ∧ a + b + c = 1 ∧
    p = (a * A.1 + b * B.1 + c * C.1, a * A.2 + b * B.2 + c * C.2)}

theorem areaTriangle_eq_orient (A B C : ℝ × ℝ) :
    areaTriangle A.1 A.2 B.1 B.2 C.1 C.2 = |orient A B C| / 2 := by
  unfold areaTriangle orient
  have : A.1 * (B.2 - C.2) + B.1 * (C.2 - A.2) + C.1 * (A.2 - B.2) =
      (B.1 - A.1) * (C.2 - A.2) - (B.2 - A.2) * (C.1 - A.1) := by ring
  rw [this]; norm_num; ring

/-- half-plane description of a non-degenerate triangle. -/
theorem mem_triSet_iff (A B C p : ℝ × ℝ) (hD : orient A B C ≠ 0) :
    p ∈ triSet A B C ↔
      0 ≤ orient A B C * orient B C p ∧ 0 ≤ orient A B C * orient C A p ∧
      0 ≤ orient A B C * orient A B p := by
  constructor
  · rintro ⟨a, b, c, ha, hb, hc, hs, rfl⟩
    have e1 : orient B C (a * A.1 + b * B.1 + c * C.1, a * A.2 + b * B.2 + c * C.2) = a * orient A B C := by
      have : a = 1 - b - c := by linarith
      subst this; unfold orient; ring
    have e2 : orient C A (a * A.1 + b * B.1 + c * C.1, a * A.2 + b * B.2 + c * C.2) = b * orient A B C := by
      have : a = 1 - b - c := by linarith
      subst this; unfold orient; ring
    have e3 : orient A B (a * A.1 + b * B.1 + c * C.1, a * A.2 + b * B.2 + c * C.2) = c * orient A B C := by
      have : a = 1 - b - c := by linarith
      subst this; unfold orient; ring
    rw [e1, e2, e3]
    have := mul_self_nonneg (orient A B C)
    refine ⟨?_, ?_, ?_⟩ <;> nlinarith
  · rintro ⟨h1, h2, h3⟩
    have hD2 : 0 < orient A B C * orient A B C := mul_self_pos.mpr hD
    refine ⟨orient B C p / orient A B C, orient C A p / orient A B C, orient A B p / orient A B C,
      ?_, ?_, ?_, ?_, ?_⟩
    · rw [div_eq_mul_inv, show orient B C p * (orient A B C)⁻¹ =
        (orient A B C * orient B C p) * ((orient A B C)⁻¹ * (orient A B C)⁻¹) by field_simp]
      exact mul_nonneg h1 (mul_self_nonneg _)
    · rw [div_eq_mul_inv, show orient C A p * (orient A B C)⁻¹ =
        (orient A B C * orient C A p) * ((orient A B C)⁻¹ * (orient A B C)⁻¹) by field_simp]
      exact mul_nonneg h2 (mul_self_nonneg _)
    · rw [div_eq_mul_inv, show orient A B p * (orient A B C)⁻¹ =
        (orient A B C * orient A B p) * ((orient A B C)⁻¹ * (orient A B C)⁻¹) by field_simp]
      exact mul_nonneg h3 (mul_self_nonneg _)
    · field_simp; unfold orient; ring
    · ext
      · simp only; field_simp; unfold orient; ring
      · simp only; field_simp; unfold orient; ring

/-- the standard triangle. -/
def stdTri : Set (ℝ × ℝ) := {p | 0 ≤ p.1 ∧ 0 ≤ p.2 ∧ p.1 + p.2 ≤ 1}

theorem volume_stdTri : volume stdTri = ENNReal.ofReal (1 / 2) := by
  have hrb : volume (regionBetween (fun _ : ℝ => (0 : ℝ)) (fun x => 1 - x) (Set.Icc 0 1)) =
      ENNReal.ofReal (1 / 2) := by
    rw [Measure.volume_eq_prod, volume_regionBetween_eq_integral (f := fun _ : ℝ => (0 : ℝ))
      (g := fun x : ℝ => 1 - x) (s := Set.Icc (0 : ℝ) 1)
      (continuous_const.integrableOn_Icc) ((by fun_prop : Continuous fun x : ℝ => 1 - x).integrableOn_Icc)
      measurableSet_Icc (fun x hx => by simp only [Set.mem_Icc] at hx; linarith [hx.2])]
    congr 1
    rw [integral_Icc_eq_integral_Ioc, ← intervalIntegral.integral_of_le (by norm_num : (0 : ℝ) ≤ 1)]
    simp only [Pi.sub_apply, sub_zero]
    have hd : ∀ x ∈ Set.uIcc (0 : ℝ) 1, HasDerivAt (fun x : ℝ => x - x * x / 2) (1 - x) x := by
      intro x _
      have := ((hasDerivAt_id' x).sub (((hasDerivAt_id' x).mul (hasDerivAt_id' x)).div_const 2))
      exact this.congr_deriv (by ring)
    rw [intervalIntegral.integral_eq_sub_of_hasDerivAt hd
      ((by fun_prop : Continuous fun x : ℝ => 1 - x).intervalIntegrable _ _)]
    norm_num
  rw [← hrb]
  symm
  apply volume_eq_of_subset_of_diff_null (N := {p : ℝ × ℝ | 0 * p.1 + 1 * p.2 = 0} ∪ {p : ℝ × ℝ | 1 * p.1 + 1 * p.2 = 1})
  · intro p hp
    simp only [regionBetween, Set.mem_ofPred_eq, Set.mem_Icc, Set.mem_Ioo] at hp
    exact ⟨hp.1.1, hp.2.1.le, by linarith [hp.2.2]⟩
  · intro p hp
    obtain ⟨h1, h2, h3⟩ := hp
    by_cases e1 : p.2 = 0
    · right; left; simp [e1]
    · by_cases e2 : p.1 + p.2 = 1
      · right; right; simp [e2]
      · left
        simp only [regionBetween, Set.mem_ofPred_eq, Set.mem_Icc, Set.mem_Ioo]
        refine ⟨⟨h1, by linarith⟩, lt_of_le_of_ne h2 (Ne.symm e1), ?_⟩
        rcases lt_or_eq_of_le h3 with h | h
        · linarith
        · exact absurd h e2
  · exact measure_union_null (volume_line 0 1 0 (Or.inr one_ne_zero)) (volume_line 1 1 1 (Or.inl one_ne_zero))

/-- **the Lebesgue measure of a (non-degenerate) triangle** is `|orient| / 2`, i.e. exactly the
kernel's `area_triangle`. -/
theorem volume_triSet (A B C : ℝ × ℝ) (hD : orient A B C ≠ 0) :
    volume (triSet A B C) = ENNReal.ofReal (|orient A B C| / 2) := by
  set D := orient A B C with hDdef
  -- barycentric coordinates (b, c) as an affine map of p
  have hset : triSet A B C =
      {p : ℝ × ℝ | ((-(A.2 - C.2) / D) * p.1 + ((A.1 - C.1) / D) * p.2 + ((A.2 - C.2) * C.1 - (A.1 - C.1) * C.2) / D,
                     (-(B.2 - A.2) / D) * p.1 + ((B.1 - A.1) / D) * p.2 + ((B.2 - A.2) * A.1 - (B.1 - A.1) * A.2) / D) ∈ stdTri} := by
    ext p
    rw [mem_triSet_iff A B C p hD]
    have hD2 : 0 < D * D := mul_self_pos.mpr hD
    have e2 : (-(A.2 - C.2) / D) * p.1 + ((A.1 - C.1) / D) * p.2 + ((A.2 - C.2) * C.1 - (A.1 - C.1) * C.2) / D =
        (D * orient C A p) / (D * D) := by
      field_simp; unfold orient; ring
    have e3 : (-(B.2 - A.2) / D) * p.1 + ((B.1 - A.1) / D) * p.2 + ((B.2 - A.2) * A.1 - (B.1 - A.1) * A.2) / D =
        (D * orient A B p) / (D * D) := by
      field_simp; unfold orient; ring
    have e1 : orient B C p = D - orient C A p - orient A B p := by
      rw [hDdef]; unfold orient; ring
    simp only [stdTri, Set.mem_ofPred_eq]
    rw [e2, e3]
    constructor
    · rintro ⟨h1, h2, h3⟩
      refine ⟨div_nonneg h2 hD2.le, div_nonneg h3 hD2.le, ?_⟩
      rw [← add_div, div_le_one hD2]
      rw [e1] at h1; nlinarith
    · rintro ⟨h2, h3, h1⟩
      rw [← add_div, div_le_one hD2] at h1
      refine ⟨?_, ?_, ?_⟩
      · rw [e1]; nlinarith
      · have := (div_nonneg_iff.mp h2); rcases this with ⟨k, -⟩ | ⟨-, k⟩
        · exact k
        · linarith
      · have := (div_nonneg_iff.mp h3); rcases this with ⟨k, -⟩ | ⟨-, k⟩
        · exact k
        · linarith
  have hdet : (-(A.2 - C.2) / D) * ((B.1 - A.1) / D) - ((A.1 - C.1) / D) * (-(B.2 - A.2) / D) = 1 / D := by
    field_simp; rw [hDdef]; unfold orient; ring
  rw [hset, volume_affine_preimage _ _ _ _ _ _ (by rw [hdet]; exact one_div_ne_zero hD), hdet, volume_stdTri,
    ← ENNReal.ofReal_mul (abs_nonneg _)]
  congr 1
  rw [one_div, inv_inv]; ring

/-! ### the unit disk: measurable, volume `π`, the circle is a null set -/

def closedDisk : Set (ℝ × ℝ) := {p | p.1 ^ 2 + p.2 ^ 2 ≤ 1}

theorem measurableSet_disk : MeasurableSet disk := by
  unfold disk
  exact measurableSet_lt (by fun_prop) measurable_const

theorem measurableSet_closedDisk : MeasurableSet closedDisk := by
  unfold closedDisk
  exact measurableSet_le (by fun_prop) measurable_const

theorem volume_disk : volume disk = ENNReal.ofReal Real.pi := by
  have h := C03.volume_rect_disk (-1) (-2) 1 2 1 (by norm_num) (by norm_num)
  have hs : {p : ℝ × ℝ | p.1 ∈ Set.Icc (-1 : ℝ) 1 ∧ (-2 : ℝ) < p.2 ∧ p.2 < 2 ∧ p.1 ^ 2 + p.2 ^ 2 < 1 ^ 2} = disk := by
    ext p
    simp only [disk, Set.mem_ofPred_eq, Set.mem_Icc, one_pow]
    constructor
    · intro h; exact h.2.2.2
    · intro h
      refine ⟨⟨by nlinarith [sq_nonneg p.2, sq_nonneg (p.1 - 1), sq_nonneg (p.1+1)], by nlinarith [sq_nonneg p.2, sq_nonneg (p.1 - 1), sq_nonneg (p.1+1)]⟩,
        by nlinarith [sq_nonneg p.1, sq_nonneg (p.2 - 1), sq_nonneg (p.2+1)], by nlinarith [sq_nonneg p.1, sq_nonneg (p.2 - 1), sq_nonneg (p.2+1)], h⟩
  rw [hs] at h
  rw [h]
  congr 1
  have := C03.rectArea_full_disk 1 (-1) (-2) 1 2 (by norm_num) (by norm_num) (by norm_num) (by norm_num) (by norm_num)
  unfold C03.rectArea at this
  rw [this]; ring

theorem volume_closedDisk_le (t : ℝ) (ht : 1 < t) :
    volume closedDisk ≤ ENNReal.ofReal (t * t * Real.pi) := by
  have h0 : (0 : ℝ) < t := by linarith
  have hsub : closedDisk ⊆ {p : ℝ × ℝ | (t⁻¹ * p.1 + 0 * p.2 + 0, 0 * p.1 + t⁻¹ * p.2 + 0) ∈ disk} := by
    intro p hp
    simp only [closedDisk, Set.mem_ofPred_eq] at hp
    simp only [disk, Set.mem_ofPred_eq, zero_mul, add_zero, zero_add, mul_pow]
    have h1 : t⁻¹ ^ 2 < 1 := by
      rw [inv_pow]; exact inv_lt_one_of_one_lt₀ (by nlinarith)
    have h2 : 0 < t⁻¹ ^ 2 := by positivity
    by_cases hz : p.1 ^ 2 + p.2 ^ 2 = 0
    · nlinarith [sq_nonneg p.1, sq_nonneg p.2]
    · have : 0 < p.1 ^ 2 + p.2 ^ 2 := lt_of_le_of_ne (by positivity) (Ne.symm hz)
      nlinarith
  have hd : t⁻¹ * t⁻¹ - 0 * 0 ≠ 0 := by
    have : 0 < t⁻¹ := inv_pos.mpr h0
    nlinarith
  calc volume closedDisk ≤ _ := measure_mono hsub
    _ = ENNReal.ofReal |(t⁻¹ * t⁻¹ - 0 * 0)⁻¹| * volume disk := volume_affine_preimage _ _ _ _ _ _ hd _
    _ = ENNReal.ofReal (t * t * Real.pi) := by
      rw [volume_disk, ← ENNReal.ofReal_mul (abs_nonneg _)]
      congr 1
      have : (t⁻¹ * t⁻¹ - 0 * 0)⁻¹ = t * t := by rw [mul_zero, sub_zero, ← mul_inv, inv_inv]
      rw [this, abs_of_pos (by positivity)]

theorem volume_closedDisk : volume closedDisk = ENNReal.ofReal Real.pi := by
  apply le_antisymm
  · have hfin : volume closedDisk ≠ ⊤ :=
      ne_top_of_le_ne_top ENNReal.ofReal_ne_top (volume_closedDisk_le 2 (by norm_num))
    rw [← ENNReal.ofReal_toReal hfin]
    apply ENNReal.ofReal_le_ofReal
    by_contra hc
    have hc := not_le.mp hc
    have hpi := Real.pi_pos
    set x := (volume closedDisk).toReal with hx
    have hs1 : 1 < (x / Real.pi + 1) / 2 := by
      have : 1 < x / Real.pi := by rw [lt_div_iff₀ hpi]; linarith
      linarith
    have ht : 1 < Real.sqrt ((x / Real.pi + 1) / 2) := by
      rw [Real.lt_sqrt (by norm_num)]; linarith
    have := volume_closedDisk_le _ ht
    rw [Real.mul_self_sqrt (by linarith), ← ENNReal.ofReal_toReal hfin] at this
    have h2 := (ENNReal.ofReal_le_ofReal_iff (by positivity)).mp this
    have : (x / Real.pi + 1) / 2 * Real.pi = (x + Real.pi) / 2 := by field_simp
    rw [this] at h2
    linarith
  · rw [← volume_disk]
    apply measure_mono
    intro p hp
    simp only [disk, closedDisk, Set.mem_ofPred_eq] at hp ⊢
    exact hp.le

/-- the unit circle is a null set. -/
theorem volume_circle : volume {p : ℝ × ℝ | p.1 ^ 2 + p.2 ^ 2 = 1} = 0 := by
  have hU : closedDisk = disk ∪ {p : ℝ × ℝ | p.1 ^ 2 + p.2 ^ 2 = 1} := by
    ext p
    simp only [closedDisk, disk, Set.mem_ofPred_eq, Set.mem_union]
    exact le_iff_lt_or_eq
  have hdisj : Disjoint disk {p : ℝ × ℝ | p.1 ^ 2 + p.2 ^ 2 = 1} := by
    rw [Set.disjoint_left]
    intro p hp hq
    simp only [disk, Set.mem_ofPred_eq] at hp hq
    linarith
  have hm : MeasurableSet {p : ℝ × ℝ | p.1 ^ 2 + p.2 ^ 2 = 1} :=
    measurableSet_eq_fun (by fun_prop) measurable_const
  have h := measure_union (μ := volume) hdisj hm
  rw [← hU, volume_closedDisk, volume_disk] at h
  have hne : ENNReal.ofReal Real.pi ≠ ⊤ := ENNReal.ofReal_ne_top
  have : ENNReal.ofReal Real.pi + 0 = ENNReal.ofReal Real.pi + volume {p : ℝ × ℝ | p.1 ^ 2 + p.2 ^ 2 = 1} := by
    rw [add_zero]; exact h
  exact ((ENNReal.add_right_inj hne).mp this).symm

/-! ### triangles and the disk: measurability, convexity, splitting -/

theorem measurableSet_triSet (A B C : ℝ × ℝ) (hD : orient A B C ≠ 0) : MeasurableSet (triSet A B C) := by
  have : triSet A B C = {p | 0 ≤ orient A B C * orient B C p} ∩ ({p | 0 ≤ orient A B C * orient C A p} ∩
      {p | 0 ≤ orient A B C * orient A B p}) := by
    ext p; rw [mem_triSet_iff A B C p hD]; rfl
  rw [this]
  unfold orient
  exact (measurableSet_le measurable_const (by fun_prop)).inter
    ((measurableSet_le measurable_const (by fun_prop)).inter (measurableSet_le measurable_const (by fun_prop)))

/-- a triangle with its vertices in the closed disk lies in the closed disk. -/
theorem triSet_subset_closedDisk (A B C : ℝ × ℝ) (hA : A.1 ^ 2 + A.2 ^ 2 ≤ 1) (hB : B.1 ^ 2 + B.2 ^ 2 ≤ 1)
    (hC : C.1 ^ 2 + C.2 ^ 2 ≤ 1) : triSet A B C ⊆ closedDisk := by
  rintro p ⟨a, b, c, ha, hb, hc, hs, rfl⟩
  simp only [closedDisk, Set.mem_ofPred_eq]
  have hA2 : a = 1 - b - c := by linarith
  subst hA2
  -- Jensen, by hand: |Σ a_i v_i|² ≤ Σ a_i |v_i|²
  nlinarith [mul_nonneg ha hb, mul_nonneg ha hc, mul_nonneg hb hc,
    sq_nonneg (A.1 - B.1), sq_nonneg (A.2 - B.2), sq_nonneg (A.1 - C.1), sq_nonneg (A.2 - C.2),
    sq_nonneg (B.1 - C.1), sq_nonneg (B.2 - C.2), mul_nonneg ha (sub_nonneg.mpr hA),
    mul_nonneg hb (sub_nonneg.mpr hB), mul_nonneg hc (sub_nonneg.mpr hC)]

/-- **all vertices inside or on the circle**: the overlap is the whole triangle. -/
theorem volume_triSet_inter_disk_of_inside (A B C : ℝ × ℝ) (hD : orient A B C ≠ 0)
    (hA : A.1 ^ 2 + A.2 ^ 2 ≤ 1) (hB : B.1 ^ 2 + B.2 ^ 2 ≤ 1) (hC : C.1 ^ 2 + C.2 ^ 2 ≤ 1) :
    volume (triSet A B C ∩ disk) = ENNReal.ofReal (areaTriangle A.1 A.2 B.1 B.2 C.1 C.2) := by
  rw [areaTriangle_eq_orient, ← volume_triSet A B C hD]
  apply volume_eq_of_subset_of_diff_null (N := {p : ℝ × ℝ | p.1 ^ 2 + p.2 ^ 2 = 1}) Set.inter_subset_left
  · intro p hp
    have := triSet_subset_closedDisk A B C hA hB hC hp
    simp only [closedDisk, Set.mem_ofPred_eq] at this
    rcases lt_or_eq_of_le this with h | h
    · left; exact ⟨hp, h⟩
    · right; exact h
  · exact volume_circle

/-! ### the two wrong branches (findings F3a / F3b), at concrete rational inputs -/

theorem sqrt_16_25 : Real.sqrt (16 / 25) = 4 / 5 := by
  rw [show (16 / 25 : ℝ) = (4 / 5) * (4 / 5) by norm_num]
  exact Real.sqrt_mul_self (by norm_num)

/-- **F3a** — branch `elif on1: area = 0.0`.  The vertex `(3/5, 4/5)` is on the circle, the other
two are outside, the code answers `0`; but the triangle contains the square `(-1/10, 1/10)²`
around the centre of the circle, so the true overlap has measure at least `1/25`.
(This is pixel `(0,0)` of `EllipsePixelRegion(PixCoord(0.2, 0.1), 1, 1)` in the unit-circle frame.) -/
theorem on1_branch_refuted :
    overlapTri 3 (-7 / 5) (-6 / 5) (3 / 5) (-6 / 5) (3 / 5) (4 / 5) = some 0 ∧
    ENNReal.ofReal (1 / 25) ≤
      volume (triSet ((-7 / 5 : ℝ), (-6 / 5 : ℝ)) (3 / 5, -6 / 5) (3 / 5, 4 / 5) ∩ disk) := by
  constructor
  · norm_num [overlapTri, overlapSorted]
  · have hsq : volume (Set.Ioo (-1 / 10 : ℝ) (1 / 10) ×ˢ Set.Ioo (-1 / 10 : ℝ) (1 / 10)) = ENNReal.ofReal (1 / 25) := by
      rw [Measure.volume_eq_prod, Measure.prod_prod, Real.volume_Ioo, ← ENNReal.ofReal_mul (by norm_num)]
      norm_num
    rw [← hsq]
    apply measure_mono
    rintro ⟨x, y⟩ ⟨hx, hy⟩
    simp only [Set.mem_Ioo] at hx hy
    constructor
    · rw [mem_triSet_iff _ _ _ _ (by norm_num [orient])]
      norm_num [orient]
      refine ⟨by linarith [hx.1, hx.2, hy.1, hy.2], by linarith [hx.1, hx.2, hy.1, hy.2], by linarith [hx.1, hx.2, hy.1, hy.2]⟩
    · simp only [disk, Set.mem_ofPred_eq]
      nlinarith [hx.1, hx.2, hy.1, hy.2]

theorem circleLine_ex : circleLine (-3 / 5) (-1 / 10) (-3 / 5) 1 = ⟨⟨-3 / 5, -4 / 5⟩, ⟨-3 / 5, 4 / 5⟩⟩ := by
  have h16 : Real.sqrt 16 = 4 := by
    rw [show (16 : ℝ) = 4 * 4 by norm_num]; exact Real.sqrt_mul_self (by norm_num)
  have h25 : Real.sqrt 25 = 5 := by
    rw [show (25 : ℝ) = 5 * 5 by norm_num]; exact Real.sqrt_mul_self (by norm_num)
  unfold circleLine
  norm_num [h16, h25]

/-- **F3b** — `… and not on2` → `elif intersect13`.  Vertex 2 `= (3/5, 4/5)` is on the circle and
the edge to vertex 3 `= (-3/5, 1)` re-enters the disk; the code answers
`27/50 + (asin(3/5) − 12/25) > 33/50 = area of the whole triangle ≥ true overlap`. -/
theorem on2_branch_refuted :
    ∃ v : ℝ, overlapTri 3 (-3 / 5) (-1 / 10) (3 / 5) (4 / 5) (-3 / 5) 1 = some v ∧
      volume (triSet ((-3 / 5 : ℝ), (-1 / 10 : ℝ)) (3 / 5, 4 / 5) (-3 / 5, 1) ∩ disk) < ENNReal.ofReal v := by
  refine ⟨27 / 50 + 0.5 * (2 * Real.arcsin (3 / 5) - Real.sin (2 * Real.arcsin (3 / 5))), ?_, ?_⟩
  · have hd : distance (3 / 5) (4 / 5) (-(3 / 5)) (4 / 5) = 6 / 5 := by
      unfold distance
      rw [pow2_eq, pow2_eq, show ((-(3 / 5) : ℝ) - 3 / 5) * (-(3 / 5) - 3 / 5) + (4 / 5 - 4 / 5) * (4 / 5 - 4 / 5) = (6 / 5) * (6 / 5) by norm_num]
      exact Real.sqrt_mul_self (by norm_num)
    have hs : circleSegmentSingle2 (-(3 / 5)) (-(1 / 10)) (-(3 / 5)) 1 = ⟨-(3 / 5), 4 / 5⟩ := by
      have := circleLine_ex
      norm_num at this
      unfold circleSegmentSingle2
      rw [this]
      norm_num
    norm_num [overlapTri, overlapSorted, caseTwoIn, hs, areaTriangle, areaArcUnit, hd]
  · have hpi := Real.one_le_pi_div_two
    have hlt : (3 / 5 : ℝ) < Real.arcsin (3 / 5) := by
      rw [Real.lt_arcsin_iff_sin_lt ⟨by linarith, by linarith⟩ ⟨by norm_num, by norm_num⟩]
      exact Real.sin_lt (by norm_num)
    have hsin : Real.sin (2 * Real.arcsin (3 / 5)) = 24 / 25 := by
      rw [Real.sin_two_mul, Real.sin_arcsin (by norm_num) (by norm_num), Real.cos_arcsin,
        show (1 - (3 / 5 : ℝ) ^ 2) = 16 / 25 by norm_num, sqrt_16_25]
      norm_num
    have hD : orient ((-3 / 5 : ℝ), (-1 / 10 : ℝ)) (3 / 5, 4 / 5) (-3 / 5, 1) = 33 / 25 := by
      norm_num [orient]
    calc volume (triSet ((-3 / 5 : ℝ), (-1 / 10 : ℝ)) (3 / 5, 4 / 5) (-3 / 5, 1) ∩ disk)
        ≤ volume (triSet ((-3 / 5 : ℝ), (-1 / 10 : ℝ)) (3 / 5, 4 / 5) (-3 / 5, 1)) := measure_mono Set.inter_subset_left
      _ = ENNReal.ofReal (33 / 50) := by
          rw [volume_triSet _ _ _ (by rw [hD]; norm_num), hD]; norm_num
      _ < _ := by
          rw [ENNReal.ofReal_lt_ofReal_iff (by rw [hsin]; norm_num; linarith)]
          rw [hsin]; norm_num; linarith

/-! ### (d) the affine change of variables: pixel ∩ ellipse ↦ two triangles ∩ unit disk -/

/-- the kernel's map into the frame in which the ellipse is the unit circle
(`c = cos(-θ)`, `s = sin(-θ)`). -/
noncomputable def toUnit (rx ry c s : ℝ) (p : ℝ × ℝ) : ℝ × ℝ :=
  ((p.1 * c - p.2 * s) / rx, (p.1 * s + p.2 * c) / ry)

/-- the open ellipse with semi-axes `rx`, `ry`, rotated by `θ` (counter-clockwise), centred at the
origin. -/
def ellipseSet (rx ry θ : ℝ) : Set (ℝ × ℝ) :=
  {p | ((p.1 * Real.cos θ + p.2 * Real.sin θ) / rx) ^ 2 + ((-p.1 * Real.sin θ + p.2 * Real.cos θ) / ry) ^ 2 < 1}

/-- the closed pixel. -/
def pixelSet (xmin ymin xmax ymax : ℝ) : Set (ℝ × ℝ) :=
  {p | xmin ≤ p.1 ∧ p.1 ≤ xmax ∧ ymin ≤ p.2 ∧ p.2 ≤ ymax}

theorem ellipseSet_eq (rx ry θ : ℝ) :
    ellipseSet rx ry θ = {p | toUnit rx ry (Real.cos (-θ)) (Real.sin (-θ)) p ∈ disk} := by
  ext p
  simp only [ellipseSet, toUnit, disk, Set.mem_ofPred_eq, Real.cos_neg, Real.sin_neg]
  have e1 : p.1 * Real.cos θ - p.2 * -Real.sin θ = p.1 * Real.cos θ + p.2 * Real.sin θ := by ring
  have e2 : p.1 * -Real.sin θ + p.2 * Real.cos θ = -p.1 * Real.sin θ + p.2 * Real.cos θ := by ring
  rw [e1, e2]

theorem orient_toUnit (rx ry c s : ℝ) (hrx : rx ≠ 0) (hry : ry ≠ 0) (A B C : ℝ × ℝ) :
    orient (toUnit rx ry c s A) (toUnit rx ry c s B) (toUnit rx ry c s C) =
      (c * c + s * s) / (rx * ry) * orient A B C := by
  unfold orient toUnit
  simp only
  field_simp
  ring

/-- triangles are preserved by the (invertible) linear map. -/
theorem toUnit_mem_triSet (rx ry c s : ℝ) (hrx : 0 < rx) (hry : 0 < ry) (hcs : c * c + s * s = 1)
    (A B C p : ℝ × ℝ) (hD : orient A B C ≠ 0) :
    toUnit rx ry c s p ∈ triSet (toUnit rx ry c s A) (toUnit rx ry c s B) (toUnit rx ry c s C) ↔
      p ∈ triSet A B C := by
  have hk : 0 < (c * c + s * s) / (rx * ry) := by rw [hcs]; positivity
  have hD' : orient (toUnit rx ry c s A) (toUnit rx ry c s B) (toUnit rx ry c s C) ≠ 0 := by
    rw [orient_toUnit _ _ _ _ hrx.ne' hry.ne']; exact mul_ne_zero hk.ne' hD
  rw [mem_triSet_iff _ _ _ _ hD', mem_triSet_iff _ _ _ _ hD]
  simp only [orient_toUnit _ _ _ _ hrx.ne' hry.ne']
  set k := (c * c + s * s) / (rx * ry) with hkdef
  have hkk : 0 < k * k := mul_pos hk hk
  have e : ∀ u v : ℝ, 0 ≤ k * u * (k * v) ↔ 0 ≤ u * v := by
    intro u v
    rw [show k * u * (k * v) = (k * k) * (u * v) by ring]
    constructor
    · intro h; by_contra hn; push Not at hn; nlinarith
    · intro h; positivity
  rw [e, e, e]

/-- a rectangle is the union of the two triangles cut by its diagonal. -/
theorem pixelSet_eq_union (xmin ymin xmax ymax : ℝ) (hx : xmin < xmax) (hy : ymin < ymax) :
    pixelSet xmin ymin xmax ymax =
      triSet (xmin, ymin) (xmax, ymin) (xmax, ymax) ∪ triSet (xmin, ymin) (xmin, ymax) (xmax, ymax) := by
  have hdx : 0 < xmax - xmin := sub_pos.mpr hx
  have hdy : 0 < ymax - ymin := sub_pos.mpr hy
  have h1 : orient (xmin, ymin) (xmax, ymin) (xmax, ymax) = (xmax - xmin) * (ymax - ymin) := by
    unfold orient; ring
  have h2 : orient (xmin, ymin) (xmin, ymax) (xmax, ymax) = -((xmax - xmin) * (ymax - ymin)) := by
    unfold orient; ring
  have hp : 0 < (xmax - xmin) * (ymax - ymin) := mul_pos hdx hdy
  ext p
  rw [Set.mem_union, mem_triSet_iff _ _ _ _ (by rw [h1]; exact hp.ne'),
    mem_triSet_iff _ _ _ _ (by rw [h2]; exact (neg_neg_of_pos hp).ne)]
  rw [h1, h2]
  simp only [pixelSet, Set.mem_ofPred_eq, orient]
  constructor
  · rintro ⟨a1, a2, a3, a4⟩
    by_cases hdiag : 0 ≤ (xmax - xmin) * (p.2 - ymin) - (ymax - ymin) * (p.1 - xmin)
    · right
      refine ⟨?_, ?_, ?_⟩
      · nlinarith [mul_nonneg hdx.le (sub_nonneg.mpr a4), mul_nonneg hp.le (mul_nonneg hdx.le (sub_nonneg.mpr a4))]
      · nlinarith [mul_nonneg hp.le hdiag]
      · nlinarith [mul_nonneg hp.le (mul_nonneg hdy.le (sub_nonneg.mpr a1))]
    · left
      push Not at hdiag
      refine ⟨?_, ?_, ?_⟩
      · nlinarith [mul_nonneg hp.le (mul_nonneg hdy.le (sub_nonneg.mpr a2))]
      · nlinarith [mul_nonneg hp.le (neg_nonneg.mpr hdiag.le)]
      · nlinarith [mul_nonneg hp.le (mul_nonneg hdx.le (sub_nonneg.mpr a3))]
  · rintro (⟨b1, b2, b3⟩ | ⟨b1, b2, b3⟩)
    · have c1 := nonneg_of_mul_nonneg_right b1 hp
      have c2 := nonneg_of_mul_nonneg_right b2 hp
      have c3 := nonneg_of_mul_nonneg_right b3 hp
      refine ⟨?_, ?_, ?_, ?_⟩ <;> nlinarith
    · have c1 : 0 ≤ -(((xmin, ymax) : ℝ × ℝ).1 - xmin) * 0 + 0 := by simp
      have d1 := nonneg_of_mul_nonneg_right (by linarith [b1] : 0 ≤ (xmax - xmin) * (ymax - ymin) * -((xmax - xmin) * (p.2 - ymax) - (ymax - ymax) * (p.1 - xmin))) hp
      have d2 := nonneg_of_mul_nonneg_right (by linarith [b2] : 0 ≤ (xmax - xmin) * (ymax - ymin) * -((xmin - xmax) * (p.2 - ymax) - (ymin - ymax) * (p.1 - xmax))) hp
      have d3 := nonneg_of_mul_nonneg_right (by linarith [b3] : 0 ≤ (xmax - xmin) * (ymax - ymin) * -((xmin - xmin) * (p.2 - ymin) - (ymax - ymin) * (p.1 - xmin))) hp
      refine ⟨?_, ?_, ?_, ?_⟩ <;> nlinarith

theorem triSet_swap12 (A B C : ℝ × ℝ) : triSet A B C = triSet B A C := by
  ext p; constructor
  · rintro ⟨a, b, c, ha, hb, hc, hs, rfl⟩
    exact ⟨b, a, c, hb, ha, hc, by linarith, by ext <;> simp only <;> ring⟩
  · rintro ⟨a, b, c, ha, hb, hc, hs, rfl⟩
    exact ⟨b, a, c, hb, ha, hc, by linarith, by ext <;> simp only <;> ring⟩

theorem triSet_swap23 (A B C : ℝ × ℝ) : triSet A B C = triSet A C B := by
  ext p; constructor
  · rintro ⟨a, b, c, ha, hb, hc, hs, rfl⟩
    exact ⟨a, c, b, ha, hc, hb, by linarith, by ext <;> simp only <;> ring⟩
  · rintro ⟨a, b, c, ha, hb, hc, hs, rfl⟩
    exact ⟨a, c, b, ha, hc, hb, by linarith, by ext <;> simp only <;> ring⟩

theorem triSet_rot (A B C : ℝ × ℝ) : triSet A B C = triSet B C A := by
  rw [triSet_swap12 A B C, triSet_swap23 B A C]

theorem volume_union_of_inter_null {S T : Set (ℝ × ℝ)} (hT : MeasurableSet T)
    (h0 : volume (S ∩ T) = 0) : volume (S ∪ T) = volume S + volume T := by
  have := measure_union_add_inter (μ := volume) S hT
  rw [h0, add_zero] at this
  exact this

/-- two triangles on opposite sides of a common edge `A C` meet in a null set (inside the line). -/
theorem triSet_inter_subset_line (A B B' C : ℝ × ℝ) (h : orient A B C * orient A B' C < 0) :
    triSet A B C ∩ triSet A B' C ⊆ {p | orient C A p = 0} := by
  have h1 : orient A B C ≠ 0 := by intro h0; rw [h0, zero_mul] at h; exact lt_irrefl _ h
  have h2 : orient A B' C ≠ 0 := by intro h0; rw [h0, mul_zero] at h; exact lt_irrefl _ h
  rintro p ⟨hp, hq⟩
  rw [mem_triSet_iff _ _ _ _ h1] at hp
  rw [mem_triSet_iff _ _ _ _ h2] at hq
  have a := hp.2.1
  have b := hq.2.1
  simp only [Set.mem_ofPred_eq]
  by_contra hne
  have hsq : 0 < orient C A p * orient C A p := mul_self_pos.mpr hne
  nlinarith [mul_nonneg a b]

theorem volume_line_orient (A C : ℝ × ℝ) (hne : A ≠ C) : volume {p : ℝ × ℝ | orient C A p = 0} = 0 := by
  have hs : {p : ℝ × ℝ | orient C A p = 0} =
      {p : ℝ × ℝ | (-(A.2 - C.2)) * p.1 + (A.1 - C.1) * p.2 = -(A.2 - C.2) * C.1 + (A.1 - C.1) * C.2} := by
    ext p; simp only [Set.mem_ofPred_eq, orient]
    constructor <;> intro h <;> linarith
  rw [hs]
  apply volume_line
  by_contra hc
  push Not at hc
  apply hne
  ext <;> linarith [hc.1, hc.2]

/-- additivity of the overlap over two triangles on opposite sides of a common edge. -/
theorem volume_two_triangles (A B B' C : ℝ × ℝ) (S : Set (ℝ × ℝ)) (hS : MeasurableSet S)
    (h : orient A B C * orient A B' C < 0) :
    volume ((triSet A B C ∪ triSet A B' C) ∩ S) = volume (triSet A B C ∩ S) + volume (triSet A B' C ∩ S) := by
  have h2 : orient A B' C ≠ 0 := by intro h0; rw [h0, mul_zero] at h; exact lt_irrefl _ h
  have hne : A ≠ C := by
    intro e; rw [e] at h2; apply h2; unfold orient; ring
  rw [Set.union_inter_distrib_right]
  apply volume_union_of_inter_null ((measurableSet_triSet _ _ _ h2).inter hS)
  apply measure_mono_null _ (volume_line_orient A C hne)
  intro p hp
  exact triSet_inter_subset_line A B B' C h ⟨hp.1.1, hp.2.1⟩

/-- **(d)**: Lebesgue measure of pixel ∩ ellipse = `rx·ry ×` (overlaps of the two triangles of the
kernel with the unit disk). -/
theorem volume_pixel_ellipse (xmin ymin xmax ymax rx ry θ : ℝ) (hx : xmin < xmax) (hy : ymin < ymax)
    (hrx : 0 < rx) (hry : 0 < ry) :
    volume (pixelSet xmin ymin xmax ymax ∩ ellipseSet rx ry θ) =
      ENNReal.ofReal (rx * ry) *
        (volume (triSet (toUnit rx ry (Real.cos (-θ)) (Real.sin (-θ)) (xmin, ymin))
                        (toUnit rx ry (Real.cos (-θ)) (Real.sin (-θ)) (xmax, ymin))
                        (toUnit rx ry (Real.cos (-θ)) (Real.sin (-θ)) (xmax, ymax)) ∩ disk) +
         volume (triSet (toUnit rx ry (Real.cos (-θ)) (Real.sin (-θ)) (xmin, ymin))
                        (toUnit rx ry (Real.cos (-θ)) (Real.sin (-θ)) (xmin, ymax))
                        (toUnit rx ry (Real.cos (-θ)) (Real.sin (-θ)) (xmax, ymax)) ∩ disk)) := by
  set c := Real.cos (-θ) with hc
  set s := Real.sin (-θ) with hs
  have hcs : c * c + s * s = 1 := by
    have := Real.cos_sq_add_sin_sq (-θ); rw [← hc, ← hs] at this; nlinarith
  have hdx : 0 < xmax - xmin := sub_pos.mpr hx
  have hdy : 0 < ymax - ymin := sub_pos.mpr hy
  have o1 : orient (xmin, ymin) (xmax, ymin) (xmax, ymax) = (xmax - xmin) * (ymax - ymin) := by
    unfold orient; ring
  have o2 : orient (xmin, ymin) (xmin, ymax) (xmax, ymax) = -((xmax - xmin) * (ymax - ymin)) := by
    unfold orient; ring
  have hp : 0 < (xmax - xmin) * (ymax - ymin) := mul_pos hdx hdy
  set T1 := triSet (toUnit rx ry c s (xmin, ymin)) (toUnit rx ry c s (xmax, ymin)) (toUnit rx ry c s (xmax, ymax)) with hT1
  set T2 := triSet (toUnit rx ry c s (xmin, ymin)) (toUnit rx ry c s (xmin, ymax)) (toUnit rx ry c s (xmax, ymax)) with hT2
  have hset : pixelSet xmin ymin xmax ymax ∩ ellipseSet rx ry θ =
      {p : ℝ × ℝ | ((c / rx) * p.1 + (-s / rx) * p.2 + 0, (s / ry) * p.1 + (c / ry) * p.2 + 0) ∈ (T1 ∪ T2) ∩ disk} := by
    ext p
    have e : ((c / rx) * p.1 + (-s / rx) * p.2 + 0, (s / ry) * p.1 + (c / ry) * p.2 + 0) = toUnit rx ry c s p := by
      unfold toUnit; ext <;> simp only <;> ring
    rw [Set.mem_ofPred_eq, e, ellipseSet_eq, pixelSet_eq_union _ _ _ _ hx hy, ← hc, ← hs]
    simp only [Set.mem_inter_iff, Set.mem_union, Set.mem_ofPred_eq, hT1, hT2]
    rw [toUnit_mem_triSet rx ry c s hrx hry hcs _ _ _ p (by rw [o1]; exact hp.ne'),
      toUnit_mem_triSet rx ry c s hrx hry hcs _ _ _ p (by rw [o2]; exact (neg_neg_of_pos hp).ne)]
  have hdet : (c / rx) * (c / ry) - (-s / rx) * (s / ry) = (rx * ry)⁻¹ := by
    field_simp; linarith
  rw [hset, volume_affine_preimage _ _ _ _ _ _ (by rw [hdet]; positivity), hdet, inv_inv,
    abs_of_pos (by positivity)]
  congr 1
  apply volume_two_triangles _ _ _ _ _ measurableSet_disk
  rw [orient_toUnit _ _ _ _ hrx.ne' hry.ne', orient_toUnit _ _ _ _ hrx.ne' hry.ne', o1, o2, hcs]
  have : 0 < 1 / (rx * ry) := by positivity
  nlinarith [mul_pos this hp, mul_pos (mul_pos this hp) (mul_pos this hp)]

/-! ### the grid cell, reduced to the correctness of `overlap_area_triangle_unit_circle` on its two triangles -/

/-- "the kernel's triangle routine is right on this triangle": it returns the Lebesgue measure of
(closed triangle ∩ open unit disk). -/
def TriCorrect (n : Nat) (A B C : ℝ × ℝ) : Prop :=
  ∃ v : ℝ, overlapTri n A.1 A.2 B.1 B.2 C.1 C.2 = some v ∧ 0 ≤ v ∧
    volume (triSet A B C ∩ disk) = ENNReal.ofReal v

theorem ellipseSet_subset_box (rx ry θ r : ℝ) (hrx : 0 < rx) (hry : 0 < ry) (h1 : rx ≤ r) (h2 : ry ≤ r)
    (p : ℝ × ℝ) (hp : p ∈ ellipseSet rx ry θ) : p.1 ^ 2 < r ^ 2 ∧ p.2 ^ 2 < r ^ 2 := by
  simp only [ellipseSet, Set.mem_ofPred_eq] at hp
  set u := p.1 * Real.cos θ + p.2 * Real.sin θ with hu
  set w := -p.1 * Real.sin θ + p.2 * Real.cos θ with hw
  have hcs := Real.cos_sq_add_sin_sq θ
  have hsum : p.1 ^ 2 + p.2 ^ 2 = u ^ 2 + w ^ 2 := by
    rw [hu, hw]; nlinarith [hcs]
  have hr : 0 < r := lt_of_lt_of_le hrx h1
  have e1 : u ^ 2 ≤ r ^ 2 * (u / rx) ^ 2 := by
    rw [div_pow, mul_div_assoc']
    rw [le_div_iff₀ (by positivity)]
    have : rx ^ 2 ≤ r ^ 2 := by nlinarith
    nlinarith [sq_nonneg u]
  have e2 : w ^ 2 ≤ r ^ 2 * (w / ry) ^ 2 := by
    rw [div_pow, mul_div_assoc']
    rw [le_div_iff₀ (by positivity)]
    have : ry ^ 2 ≤ r ^ 2 := by nlinarith
    nlinarith [sq_nonneg w]
  have : u ^ 2 + w ^ 2 < r ^ 2 := by nlinarith [mul_pos hr hr]
  constructor <;> nlinarith [sq_nonneg p.1, sq_nonneg p.2]

theorem volume_pixelSet (xmin ymin xmax ymax : ℝ) (hx : xmin ≤ xmax) (_hy : ymin ≤ ymax) :
    volume (pixelSet xmin ymin xmax ymax) = ENNReal.ofReal ((xmax - xmin) * (ymax - ymin)) := by
  have : pixelSet xmin ymin xmax ymax = Set.Icc xmin xmax ×ˢ Set.Icc ymin ymax := by
    ext p; simp only [pixelSet, Set.mem_ofPred_eq, Set.mem_prod, Set.mem_Icc]; tauto
  rw [this, Measure.volume_eq_prod, Measure.prod_prod, Real.volume_Icc, Real.volume_Icc,
    ← ENNReal.ofReal_mul (by linarith)]

/-- **one grid cell of the ellipse 'exact' kernel = area(pixel ∩ ellipse)/(dx·dy), hence in `[0,1]`**
— PARTIAL: under the hypothesis that `overlap_area_triangle_unit_circle` is right on the two
triangles the kernel builds (`TriCorrect`, proved below for the cases listed in the file header;
FALSE in general: `on1_branch_refuted`, `on2_branch_refuted`).  A pixel outside the kernel's
bounding box needs no hypothesis (`ellipseCell_outside_box`).

FULL STATEMENT (not proved, and false as it stands because of F3a/F3b and the `1e-10` tolerances):
`∀ pxmin pymin dx dy rx ry θ, 0 < dx → 0 < dy → 0 < rx → 0 < ry →
   ∃ v, ellipseCell pxmin pymin dx dy rx ry θ = some v ∧
     volume (pixelSet pxmin pymin (pxmin+dx) (pymin+dy) ∩ ellipseSet rx ry θ) = ENNReal.ofReal (v * (dx*dy))`. -/
theorem ellipseCell_eq_volume_partial (pxmin pymin dx dy rx ry θ : ℝ)
    (hdx : 0 < dx) (hdy : 0 < dy) (hrx : 0 < rx) (hry : 0 < ry)
    (h1 : TriCorrect 8 (toUnit rx ry (Real.cos (-θ)) (Real.sin (-θ)) (pxmin, pymin))
                       (toUnit rx ry (Real.cos (-θ)) (Real.sin (-θ)) (pxmin + dx, pymin))
                       (toUnit rx ry (Real.cos (-θ)) (Real.sin (-θ)) (pxmin + dx, pymin + dy)))
    (h2 : TriCorrect 8 (toUnit rx ry (Real.cos (-θ)) (Real.sin (-θ)) (pxmin, pymin))
                       (toUnit rx ry (Real.cos (-θ)) (Real.sin (-θ)) (pxmin, pymin + dy))
                       (toUnit rx ry (Real.cos (-θ)) (Real.sin (-θ)) (pxmin + dx, pymin + dy))) :
    ∃ v : ℝ, ellipseCell pxmin pymin dx dy rx ry θ = some v ∧
      volume (pixelSet pxmin pymin (pxmin + dx) (pymin + dy) ∩ ellipseSet rx ry θ) =
        ENNReal.ofReal (v * (dx * dy)) ∧ 0 ≤ v ∧ v ≤ 1 := by
  have hA : 0 < dx * dy := mul_pos hdx hdy
  have hvol := volume_pixel_ellipse pxmin pymin (pxmin + dx) (pymin + dy) rx ry θ (by linarith) (by linarith) hrx hry
  have hle : volume (pixelSet pxmin pymin (pxmin + dx) (pymin + dy) ∩ ellipseSet rx ry θ) ≤ ENNReal.ofReal (dx * dy) := by
    calc _ ≤ volume (pixelSet pxmin pymin (pxmin + dx) (pymin + dy)) := measure_mono Set.inter_subset_left
      _ = _ := by rw [volume_pixelSet _ _ _ _ (by linarith) (by linarith)]; congr 1; ring
  -- a pixel that meets the ellipse is inside the bounding box
  have hbox : ∀ p : ℝ × ℝ, p ∈ pixelSet pxmin pymin (pxmin + dx) (pymin + dy) ∩ ellipseSet rx ry θ →
      let r := if ry > rx then ry else rx
      (pxmin + dx > -r - 0.5 * dx ∧ pxmin < r + 0.5 * dx) ∧ (pymin + dy > -r - 0.5 * dy ∧ pymin < r + 0.5 * dy) := by
    rintro p ⟨⟨a1, a2, a3, a4⟩, hp⟩
    intro r
    have hr1 : rx ≤ r := by
      simp only [r]; split_ifs with h
      · exact h.le
      · exact le_rfl
    have hr2 : ry ≤ r := by
      simp only [r]; split_ifs with h
      · exact le_rfl
      · exact not_lt.mp h
    have hr : 0 < r := lt_of_lt_of_le hrx hr1
    obtain ⟨b1, b2⟩ := ellipseSet_subset_box rx ry θ r hrx hry hr1 hr2 p hp
    have c1 := abs_lt_of_sq_lt_sq b1 hr.le
    have c2 := abs_lt_of_sq_lt_sq b2 hr.le
    rw [abs_lt] at c1 c2
    refine ⟨⟨by nlinarith, by nlinarith⟩, ⟨by nlinarith, by nlinarith⟩⟩
  obtain ⟨u, hu, hu0, hu1⟩ := h1
  obtain ⟨w, hw, hw0, hw1⟩ := h2
  by_cases hin : (pxmin + dx > -(if ry > rx then ry else rx) - 0.5 * dx ∧ pxmin < (if ry > rx then ry else rx) + 0.5 * dx) ∧
      (pymin + dy > -(if ry > rx then ry else rx) - 0.5 * dy ∧ pymin < (if ry > rx then ry else rx) + 0.5 * dy)
  · refine ⟨(u + w) * (rx * ry) * (1 / (dx * dy)), ?_, ?_, ?_, ?_⟩
    · unfold ellipseCell
      simp only
      rw [if_pos hin.1, if_pos hin.2]
      unfold singleExact toUnit at *
      simp only at hu hw ⊢
      rw [hu, hw]
      rfl
    · rw [hvol, hu1, hw1, ← ENNReal.ofReal_add hu0 hw0, ← ENNReal.ofReal_mul (by positivity)]
      congr 1
      field_simp
    · positivity
    · have : volume (pixelSet pxmin pymin (pxmin + dx) (pymin + dy) ∩ ellipseSet rx ry θ) =
          ENNReal.ofReal ((u + w) * (rx * ry)) := by
        rw [hvol, hu1, hw1, ← ENNReal.ofReal_add hu0 hw0, ← ENNReal.ofReal_mul (by positivity)]
        congr 1; ring
      rw [this] at hle
      have := (ENNReal.ofReal_le_ofReal_iff hA.le).mp hle
      rw [mul_one_div, div_le_one hA]
      exact this
  · have hempty : pixelSet pxmin pymin (pxmin + dx) (pymin + dy) ∩ ellipseSet rx ry θ = ∅ := by
      rw [Set.eq_empty_iff_forall_notMem]
      intro p hp
      exact hin (hbox p hp)
    refine ⟨0, ?_, ?_, le_rfl, zero_le_one⟩
    · unfold ellipseCell
      simp only
      by_cases hx : pxmin + dx > -(if ry > rx then ry else rx) - 0.5 * dx ∧ pxmin < (if ry > rx then ry else rx) + 0.5 * dx
      · rw [if_pos hx, if_neg (fun h => hin ⟨hx, h⟩)]
      · rw [if_neg hx]
    · rw [hempty, measure_empty, zero_mul, ENNReal.ofReal_zero]

/-- a pixel outside the kernel's bounding box: value `0`, and indeed the pixel misses the ellipse
(no hypothesis on the triangle routine). -/
theorem ellipseCell_outside_box (pxmin pymin dx dy rx ry θ : ℝ)
    (hdx : 0 < dx) (hdy : 0 < dy) (hrx : 0 < rx) (hry : 0 < ry)
    (hout : ¬ ((pxmin + dx > -(if ry > rx then ry else rx) - 0.5 * dx ∧ pxmin < (if ry > rx then ry else rx) + 0.5 * dx) ∧
      (pymin + dy > -(if ry > rx then ry else rx) - 0.5 * dy ∧ pymin < (if ry > rx then ry else rx) + 0.5 * dy))) :
    ellipseCell pxmin pymin dx dy rx ry θ = some 0 ∧
      pixelSet pxmin pymin (pxmin + dx) (pymin + dy) ∩ ellipseSet rx ry θ = ∅ := by
  constructor
  · unfold ellipseCell
    simp only
    by_cases hx : pxmin + dx > -(if ry > rx then ry else rx) - 0.5 * dx ∧ pxmin < (if ry > rx then ry else rx) + 0.5 * dx
    · rw [if_pos hx, if_neg (fun h => hout ⟨hx, h⟩)]
    · rw [if_neg hx]
  · rw [Set.eq_empty_iff_forall_notMem]
    rintro p ⟨⟨a1, a2, a3, a4⟩, hp⟩
    apply hout
    set r := if ry > rx then ry else rx with hrdef
    have hr1 : rx ≤ r := by
      rw [hrdef]; split_ifs with h
      · exact h.le
      · exact le_rfl
    have hr2 : ry ≤ r := by
      rw [hrdef]; split_ifs with h
      · exact le_rfl
      · exact not_lt.mp h
    have hr : 0 < r := lt_of_lt_of_le hrx hr1
    obtain ⟨b1, b2⟩ := ellipseSet_subset_box rx ry θ r hrx hry hr1 hr2 p hp
    have c1 := abs_lt_of_sq_lt_sq b1 hr.le
    have c2 := abs_lt_of_sq_lt_sq b2 hr.le
    rw [abs_lt] at c1 c2
    refine ⟨⟨by nlinarith, by nlinarith⟩, ⟨by nlinarith, by nlinarith⟩⟩

/-! ### (c) geometry of the mixed cases: the cone lemma and the cap lemma -/

def dot (u v : ℝ × ℝ) : ℝ := u.1 * v.1 + u.2 * v.2
def cross (u v : ℝ × ℝ) : ℝ := u.1 * v.2 - u.2 * v.1

/-- **cone lemma**: `P` on the unit circle, two directions `r1`, `r2` that do not point into the
disk at `P`; every point of the closed cone `P + s·r1 + t·r2` (`s, t ≥ 0`, expressed through
cross products) is outside the open disk. -/
theorem cone_outside (P X r1 r2 : ℝ × ℝ) (hP : P.1 ^ 2 + P.2 ^ 2 = 1)
    (h1 : 0 ≤ dot r1 P) (h2 : 0 ≤ dot r2 P)
    (hcr : cross r1 r2 ≠ 0)
    (hs : 0 ≤ cross r1 r2 * cross (X.1 - P.1, X.2 - P.2) r2)
    (ht : 0 ≤ cross r1 r2 * cross r1 (X.1 - P.1, X.2 - P.2)) :
    X ∉ disk := by
  simp only [disk, Set.mem_ofPred_eq, not_lt]
  unfold dot at h1 h2
  unfold cross at hcr hs ht
  simp only at hs ht
  have hcr2 : 0 < (r1.1 * r2.2 - r1.2 * r2.1) * (r1.1 * r2.2 - r1.2 * r2.1) := mul_self_pos.mpr hcr
  -- (X − P)·P ≥ 0
  have key : 0 ≤ ((X.1 - P.1) * P.1 + (X.2 - P.2) * P.2) * ((r1.1 * r2.2 - r1.2 * r2.1) * (r1.1 * r2.2 - r1.2 * r2.1)) := by
    have e : ((X.1 - P.1) * P.1 + (X.2 - P.2) * P.2) * ((r1.1 * r2.2 - r1.2 * r2.1) * (r1.1 * r2.2 - r1.2 * r2.1)) =
        ((r1.1 * r2.2 - r1.2 * r2.1) * ((X.1 - P.1) * r2.2 - (X.2 - P.2) * r2.1)) * (r1.1 * P.1 + r1.2 * P.2) +
        ((r1.1 * r2.2 - r1.2 * r2.1) * (r1.1 * (X.2 - P.2) - r1.2 * (X.1 - P.1))) * (r2.1 * P.1 + r2.2 * P.2) := by ring
    rw [e]
    exact add_nonneg (mul_nonneg hs h1) (mul_nonneg ht h2)
  have hXP : 0 ≤ (X.1 - P.1) * P.1 + (X.2 - P.2) * P.2 := nonneg_of_mul_nonneg_left key hcr2
  nlinarith [sq_nonneg (X.1 * P.2 - X.2 * P.1), sq_nonneg (X.1 * P.1 + X.2 * P.2 - 1)]

/-- **cap lemma**: `P`, `Q` on the unit circle, `C` strictly on one side of the chord, and the
segments `P C`, `Q C` leave the disk at `P`, `Q`.  Then (triangle `P Q C`) ∩ disk is exactly the
part of the disk on `C`'s side of the chord. -/
theorem cap_eq (P Q C : ℝ × ℝ) (hP : P.1 ^ 2 + P.2 ^ 2 = 1) (hQ : Q.1 ^ 2 + Q.2 ^ 2 = 1)
    (hD : orient P Q C ≠ 0)
    (lP : 0 ≤ dot (C.1 - P.1, C.2 - P.2) P) (lQ : 0 ≤ dot (C.1 - Q.1, C.2 - Q.2) Q) :
    triSet P Q C ∩ disk = {p | 0 ≤ orient P Q C * orient P Q p} ∩ disk := by
  ext X
  simp only [Set.mem_inter_iff, Set.mem_ofPred_eq]
  constructor
  · rintro ⟨hX, hd⟩
    rw [mem_triSet_iff _ _ _ _ hD] at hX
    exact ⟨hX.2.2, hd⟩
  · rintro ⟨hX, hd⟩
    refine ⟨?_, hd⟩
    rw [mem_triSet_iff _ _ _ _ hD]
    have hPQ : 0 ≤ dot (P.1 - Q.1, P.2 - Q.2) P := by
      unfold dot; simp only
      nlinarith [sq_nonneg (P.1 - Q.1), sq_nonneg (P.2 - Q.2)]
    have hQP : 0 ≤ dot (Q.1 - P.1, Q.2 - P.2) Q := by
      unfold dot; simp only
      nlinarith [sq_nonneg (P.1 - Q.1), sq_nonneg (P.2 - Q.2)]
    refine ⟨?_, ?_, hX⟩
    · -- the side of line Q C
      by_contra hneg
      push Not at hneg
      apply cone_outside Q X (C.1 - Q.1, C.2 - Q.2) (Q.1 - P.1, Q.2 - P.2) hQ lQ hQP _ _ _ hd
      · unfold cross; simp only
        intro h0; apply hD; unfold orient; linarith
      · unfold cross orient at *; simp only at *
        nlinarith
      · unfold cross orient at *; simp only at *
        nlinarith
    · by_contra hneg
      push Not at hneg
      apply cone_outside P X (C.1 - P.1, C.2 - P.2) (P.1 - Q.1, P.2 - Q.2) hP lP hPQ _ _ _ hd
      · unfold cross; simp only
        intro h0; apply hD; unfold orient; linarith
      · unfold cross orient at *; simp only at *
        nlinarith
      · unfold cross orient at *; simp only at *
        nlinarith

/-! ### the volume of a circular segment, and `area_arc_unit` -/

/-- area of the part of the unit disk with `n·p ≥ h` (`n` a unit vector, `-1 ≤ h ≤ 1`). -/
noncomputable def capArea (h : ℝ) : ℝ := Real.pi / 2 - Real.arcsin h - h * Real.sqrt (1 - h ^ 2)

theorem volume_cap_x (h : ℝ) (h1 : -1 ≤ h) (h2 : h ≤ 1) :
    volume ({q : ℝ × ℝ | h ≤ q.1} ∩ disk) = ENNReal.ofReal (capArea h) := by
  have hv := C03.volume_rect_disk h (-2) 1 2 1 h2 (by norm_num)
  have hs : {p : ℝ × ℝ | p.1 ∈ Set.Icc h 1 ∧ (-2 : ℝ) < p.2 ∧ p.2 < 2 ∧ p.1 ^ 2 + p.2 ^ 2 < 1 ^ 2} =
      {q : ℝ × ℝ | h ≤ q.1} ∩ disk := by
    ext p
    simp only [disk, Set.mem_ofPred_eq, Set.mem_Icc, one_pow, Set.mem_inter_iff]
    constructor
    · intro k; exact ⟨k.1.1, k.2.2.2⟩
    · rintro ⟨k1, k2⟩
      refine ⟨⟨k1, by nlinarith [sq_nonneg p.2, sq_nonneg (p.1 - 1), sq_nonneg (p.1 + 1)]⟩,
        by nlinarith [sq_nonneg p.1, sq_nonneg (p.2 - 1), sq_nonneg (p.2 + 1)],
        by nlinarith [sq_nonneg p.1, sq_nonneg (p.2 - 1), sq_nonneg (p.2 + 1)], k2⟩
  rw [hs] at hv
  rw [hv]
  congr 1
  have e : ∫ x in h..1, C03.sliceLen 1 (-2) 2 x = ∫ x in h..1, 2 * C03.hs 1 x := by
    apply intervalIntegral.integral_congr
    intro x _
    exact C03.sliceLen_through 1 (-2) 2 x (by norm_num) (by norm_num) (by norm_num)
  rw [e, intervalIntegral.integral_const_mul, C03.integral_hs 1 h 1 (by norm_num) h1 h2 le_rfl]
  unfold C03.FF capArea
  rw [C03.hs_zero_of 1 1 le_rfl]
  have : C03.hs 1 h = Real.sqrt (1 - h ^ 2) := by unfold C03.hs; congr 1; ring
  rw [this, div_one, div_one, Real.arcsin_one]
  ring

/-- the circular segment cut by any line (unit normal `n`, signed distance `h`). -/
theorem volume_cap (n : ℝ × ℝ) (h : ℝ) (hn : n.1 ^ 2 + n.2 ^ 2 = 1) (h1 : -1 ≤ h) (h2 : h ≤ 1) :
    volume ({p : ℝ × ℝ | h ≤ n.1 * p.1 + n.2 * p.2} ∩ disk) = ENNReal.ofReal (capArea h) := by
  have hset : {p : ℝ × ℝ | h ≤ n.1 * p.1 + n.2 * p.2} ∩ disk =
      {p : ℝ × ℝ | (n.1 * p.1 + n.2 * p.2 + 0, -n.2 * p.1 + n.1 * p.2 + 0) ∈ {q : ℝ × ℝ | h ≤ q.1} ∩ disk} := by
    ext p
    simp only [disk, Set.mem_inter_iff, Set.mem_ofPred_eq, add_zero]
    have : (n.1 * p.1 + n.2 * p.2) ^ 2 + (-n.2 * p.1 + n.1 * p.2) ^ 2 = p.1 ^ 2 + p.2 ^ 2 := by
      have : (n.1 * p.1 + n.2 * p.2) ^ 2 + (-n.2 * p.1 + n.1 * p.2) ^ 2 = (n.1 ^ 2 + n.2 ^ 2) * (p.1 ^ 2 + p.2 ^ 2) := by ring
      rw [this, hn, one_mul]
    rw [this]
  have hdet : n.1 * n.1 - n.2 * (-n.2) = 1 := by nlinarith
  rw [hset, volume_affine_preimage _ _ _ _ _ _ (by rw [hdet]; exact one_ne_zero), hdet, volume_cap_x h h1 h2]
  simp

/-- `area_arc_unit` in terms of the distance `h ≥ 0` from the centre to the chord
(`(a/2)² = 1 − h²`). -/
theorem areaArcUnit_eq_capArea (x1 y1 x2 y2 h : ℝ) (h0 : 0 ≤ h)
    (hh : (x2 - x1) ^ 2 + (y2 - y1) ^ 2 = 4 * (1 - h ^ 2)) :
    areaArcUnit x1 y1 x2 y2 = capArea h := by
  have hle : h ^ 2 ≤ 1 := by nlinarith [sq_nonneg (x2 - x1), sq_nonneg (y2 - y1)]
  have hh1 : h ≤ 1 := by nlinarith
  have hw : 0.5 * distance x1 y1 x2 y2 = Real.sqrt (1 - h ^ 2) := by
    unfold distance
    rw [pow2_eq, pow2_eq, ← sq, ← sq, hh,
      show (4 : ℝ) * (1 - h ^ 2) = 2 * 2 * (1 - h ^ 2) by ring,
      Real.sqrt_mul (by norm_num), Real.sqrt_mul_self (by norm_num)]
    ring
  unfold areaArcUnit capArea
  simp only
  rw [hw]
  set w := Real.sqrt (1 - h ^ 2) with hwdef
  have hw0 : 0 ≤ w := Real.sqrt_nonneg _
  have hwsq : w ^ 2 = 1 - h ^ 2 := Real.sq_sqrt (by linarith)
  have hw1 : w ≤ 1 := by nlinarith
  have e1 : Real.arcsin w = Real.pi / 2 - Real.arcsin h := by
    rw [hwdef, ← Real.arccos_eq_arcsin h0, Real.arccos_eq_pi_div_two_sub_arcsin]
  have e2 : Real.cos (Real.arcsin w) = h := by
    rw [Real.cos_arcsin, hwsq, show 1 - (1 - h ^ 2) = h ^ 2 by ring, Real.sqrt_sq h0]
  rw [Real.sin_two_mul, Real.sin_arcsin (by linarith) hw1, e2, e1]
  ring

/-- the centre of the circle is never strictly on `C`'s side of the chord when both `P C` and
`Q C` leave the disk. -/
theorem centre_side (P Q C : ℝ × ℝ) (hP : P.1 ^ 2 + P.2 ^ 2 = 1) (hQ : Q.1 ^ 2 + Q.2 ^ 2 = 1)
    (lP : 0 ≤ dot (C.1 - P.1, C.2 - P.2) P) (lQ : 0 ≤ dot (C.1 - Q.1, C.2 - Q.2) Q) :
    cross P Q * orient P Q C ≤ 0 := by
  unfold dot at lP lQ
  simp only at lP lQ
  set s := cross P Q with hs
  set c := P.1 * Q.1 + P.2 * Q.2 with hc
  have hlag : s * s = 1 - c * c := by
    rw [hs, hc]; unfold cross
    nlinarith [hP, hQ]
  have hc1 : c ≤ 1 := by rw [hc]; nlinarith [sq_nonneg (P.1 - Q.1), sq_nonneg (P.2 - Q.2)]
  have hc2 : -1 ≤ c := by rw [hc]; nlinarith [sq_nonneg (P.1 + Q.1), sq_nonneg (P.2 + Q.2)]
  have hD : orient P Q C = s - (cross C Q + cross P C) := by
    rw [hs]; unfold orient cross; ring
  have hK : s * ((C.1 * P.1 + C.2 * P.2) + (C.1 * Q.1 + C.2 * Q.2)) = (cross C Q + cross P C) * (1 + c) := by
    rw [hs, hc]; unfold cross
    linear_combination ((C.1 * Q.2 - C.2 * Q.1) * 1) * hP + ((P.1 * C.2 - P.2 * C.1) * 1) * hQ
  have hsum : 2 ≤ (C.1 * P.1 + C.2 * P.2) + (C.1 * Q.1 + C.2 * Q.2) := by nlinarith
  rcases eq_or_lt_of_le hc2 with h | h
  · have : s * s = 0 := by rw [hlag, ← h]; ring
    have hs0 : s = 0 := by nlinarith
    rw [hs0, zero_mul]
  · have h1c : 0 < 1 + c := by linarith
    have : (1 + c) * (s * orient P Q C) ≤ 0 := by
      rw [hD]
      have : (1 + c) * (s * (s - (cross C Q + cross P C))) =
          (1 + c) * (s * s) - s * ((cross C Q + cross P C) * (1 + c)) := by ring
      rw [this, ← hK]
      nlinarith [mul_self_nonneg s, mul_nonneg (mul_self_nonneg s) (by linarith : 0 ≤ (C.1 * P.1 + C.2 * P.2) + (C.1 * Q.1 + C.2 * Q.2) - 2)]
    by_contra hpos
    push Not at hpos
    nlinarith [mul_pos h1c hpos]

/-- **the cap**: (triangle `P Q C`) ∩ disk, with `P`, `Q` on the circle and both edges to `C`
leaving the disk, has exactly the area `area_arc_unit(P, Q)`. -/
theorem volume_tri_cap (P Q C : ℝ × ℝ) (hP : P.1 ^ 2 + P.2 ^ 2 = 1) (hQ : Q.1 ^ 2 + Q.2 ^ 2 = 1)
    (hD : orient P Q C ≠ 0)
    (lP : 0 ≤ dot (C.1 - P.1, C.2 - P.2) P) (lQ : 0 ≤ dot (C.1 - Q.1, C.2 - Q.2) Q) :
    volume (triSet P Q C ∩ disk) = ENNReal.ofReal (areaArcUnit P.1 P.2 Q.1 Q.2) := by
  rw [cap_eq P Q C hP hQ hD lP lQ]
  have hcs := centre_side P Q C hP hQ lP lQ
  set D := orient P Q C with hDdef
  set s := cross P Q with hs
  set a2 := (Q.1 - P.1) ^ 2 + (Q.2 - P.2) ^ 2 with ha2
  have ha2pos : 0 < a2 := by
    by_contra hn
    push Not at hn
    have e1 : Q.1 - P.1 = 0 := by nlinarith [sq_nonneg (Q.1 - P.1), sq_nonneg (Q.2 - P.2)]
    have e2 : Q.2 - P.2 = 0 := by nlinarith [sq_nonneg (Q.1 - P.1), sq_nonneg (Q.2 - P.2)]
    apply hD; rw [hDdef]; unfold orient; rw [e1, e2]; ring
  set a := Real.sqrt a2 with ha
  have hapos : 0 < a := Real.sqrt_pos.mpr ha2pos
  have hasq : a * a = a2 := Real.mul_self_sqrt ha2pos.le
  have hlag : s * s = 1 - (P.1 * Q.1 + P.2 * Q.2) * (P.1 * Q.1 + P.2 * Q.2) := by
    rw [hs]; unfold cross; nlinarith [hP, hQ]
  have ha2c : a2 = 2 - 2 * (P.1 * Q.1 + P.2 * Q.2) := by rw [ha2]; nlinarith [hP, hQ]
  -- the sign of D
  obtain ⟨σ, hσ, hσD⟩ : ∃ σ : ℝ, σ * σ = 1 ∧ 0 < σ * D := by
    rcases lt_or_gt_of_ne hD with h | h
    · exact ⟨-1, by norm_num, by linarith⟩
    · exact ⟨1, by norm_num, by linarith⟩
  have hσs : σ * s ≤ 0 := by
    by_contra hn
    push Not at hn
    have : 0 < (σ * s) * (σ * D) := mul_pos hn hσD
    have : (σ * s) * (σ * D) = (σ * σ) * (s * D) := by ring
    nlinarith
  set n : ℝ × ℝ := (σ * (-(Q.2 - P.2)) / a, σ * (Q.1 - P.1) / a) with hn
  set h := -(σ * s) / a with hh
  have hh0 : 0 ≤ h := div_nonneg (by linarith) hapos.le
  have hnn : n.1 ^ 2 + n.2 ^ 2 = 1 := by
    rw [hn]; simp only
    rw [div_pow, div_pow, ← add_div, div_eq_one_iff_eq (by positivity), sq a, hasq, ha2]
    nlinarith
  have hhsq : h ^ 2 = s * s / a2 := by
    rw [hh, div_pow, sq a, hasq]
    congr 1; nlinarith
  have hkey : a2 = 4 * (1 - h ^ 2) := by
    rw [hhsq]
    field_simp
    have hs2 : s ^ 2 = 1 - (P.1 * Q.1 + P.2 * Q.2) * (P.1 * Q.1 + P.2 * Q.2) := by rw [sq]; exact hlag
    rw [hs2, ha2c]; ring
  have hh1 : h ≤ 1 := by
    have h2 : h ^ 2 < 1 := by linarith [hkey, ha2pos]
    by_contra hc
    push Not at hc
    have h3 : 1 * 1 < h * h := mul_lt_mul'' hc hc (by norm_num) (by norm_num)
    rw [sq] at h2; linarith
  have hset : {p : ℝ × ℝ | 0 ≤ D * orient P Q p} = {p : ℝ × ℝ | h ≤ n.1 * p.1 + n.2 * p.2} := by
    ext p
    simp only [Set.mem_ofPred_eq]
    have e : σ * orient P Q p = a * ((n.1 * p.1 + n.2 * p.2) - h) := by
      rw [hn, hh, hs]; simp only; unfold orient cross
      field_simp
      ring
    have e2 : D * orient P Q p = (σ * D) * (σ * orient P Q p) := by
      rw [show (σ * D) * (σ * orient P Q p) = (σ * σ) * (D * orient P Q p) by ring, hσ, one_mul]
    rw [e2, e]
    constructor
    · intro k
      have := nonneg_of_mul_nonneg_right k hσD
      have := nonneg_of_mul_nonneg_right this hapos
      linarith
    · intro k
      exact mul_nonneg hσD.le (mul_nonneg hapos.le (by linarith))
  rw [hset, volume_cap n h hnn (by linarith) hh1]
  congr 1
  exact (areaArcUnit_eq_capArea P.1 P.2 Q.1 Q.2 h hh0 (by rw [← ha2]; exact hkey)).symm

/-! ### splitting a triangle at a point of an edge -/

/-- the point `B + u·(C − B)`. -/
def lerp (B C : ℝ × ℝ) (u : ℝ) : ℝ × ℝ := (B.1 + u * (C.1 - B.1), B.2 + u * (C.2 - B.2))

theorem triSet_split_eq (A B C : ℝ × ℝ) (u : ℝ) (hD : orient A B C ≠ 0) (hu0 : 0 < u) (hu1 : u < 1) :
    triSet A B C = triSet A B (lerp B C u) ∪ triSet A C (lerp B C u) := by
  set D := orient A B C with hDdef
  have hD2 : 0 < D * D := mul_self_pos.mpr hD
  have o1 : orient A B (lerp B C u) = u * D := by rw [hDdef]; unfold orient lerp; ring
  have o2 : orient A C (lerp B C u) = -((1 - u) * D) := by rw [hDdef]; unfold orient lerp; ring
  have hv : 0 < 1 - u := by linarith
  ext p
  rw [Set.mem_union, mem_triSet_iff _ _ _ _ hD,
    mem_triSet_iff _ _ _ _ (by rw [o1]; exact mul_ne_zero hu0.ne' hD),
    mem_triSet_iff _ _ _ _ (by rw [o2]; exact neg_ne_zero.mpr (mul_ne_zero hv.ne' hD)), o1, o2]
  have e1 : orient B (lerp B C u) p = u * orient B C p := by unfold orient lerp; ring
  have e2 : orient (lerp B C u) A p = u * orient C A p - (1 - u) * orient A B p := by unfold orient lerp; ring
  have e3 : orient C (lerp B C u) p = -((1 - u) * orient B C p) := by unfold orient lerp; ring
  have e4 : orient A C p = -orient C A p := by unfold orient; ring
  have e5 : orient B C p = D - orient C A p - orient A B p := by rw [hDdef]; unfold orient; ring
  rw [e1, e2, e3, e4]
  set β := orient C A p with hβ
  set γ := orient A B p with hγ
  set α := orient B C p with hα
  have r1 : u * D * (u * α) = (u * u) * (D * α) := by ring
  have r2 : u * D * (u * β - (1 - u) * γ) = u * (u * (D * β) - (1 - u) * (D * γ)) := by ring
  have r3 : -((1 - u) * D) * -((1 - u) * α) = ((1 - u) * (1 - u)) * (D * α) := by ring
  have r4 : -((1 - u) * D) * (u * β - (1 - u) * γ) = (1 - u) * ((1 - u) * (D * γ) - u * (D * β)) := by ring
  have r5 : -((1 - u) * D) * -β = (1 - u) * (D * β) := by ring
  have r6 : u * D * γ = u * (D * γ) := by ring
  rw [r1, r2, r3, r4, r5, r6]
  have huu : 0 < u * u := mul_pos hu0 hu0
  have hvv : 0 < (1 - u) * (1 - u) := mul_pos hv hv
  constructor
  · rintro ⟨a, b, c⟩
    by_cases hc : 0 ≤ u * (D * β) - (1 - u) * (D * γ)
    · left
      exact ⟨mul_nonneg huu.le a, mul_nonneg hu0.le hc, mul_nonneg hu0.le c⟩
    · right
      push Not at hc
      exact ⟨mul_nonneg hvv.le a, mul_nonneg hv.le (by linarith), mul_nonneg hv.le b⟩
  · rintro (⟨a, b, c⟩ | ⟨a, b, c⟩)
    · have a' := nonneg_of_mul_nonneg_right a huu
      have b' := nonneg_of_mul_nonneg_right b hu0
      have c' := nonneg_of_mul_nonneg_right c hu0
      refine ⟨a', ?_, c'⟩
      have : 0 ≤ u * (D * β) := by nlinarith [mul_nonneg hv.le c']
      exact nonneg_of_mul_nonneg_right this hu0
    · have a' := nonneg_of_mul_nonneg_right a hvv
      have b' := nonneg_of_mul_nonneg_right b hv
      have c' := nonneg_of_mul_nonneg_right c hv
      refine ⟨a', c', ?_⟩
      have : 0 ≤ (1 - u) * (D * γ) := by nlinarith [mul_nonneg hu0.le c']
      exact nonneg_of_mul_nonneg_right this hv

/-- **split lemma**: cutting the triangle `A B C` along the segment from `A` to a point of the
opposite edge is additive for the overlap with any measurable set. -/
theorem volume_split (A B C : ℝ × ℝ) (u : ℝ) (S : Set (ℝ × ℝ)) (hS : MeasurableSet S)
    (hD : orient A B C ≠ 0) (hu0 : 0 < u) (hu1 : u < 1) :
    volume (triSet A B C ∩ S) =
      volume (triSet A B (lerp B C u) ∩ S) + volume (triSet A C (lerp B C u) ∩ S) := by
  rw [triSet_split_eq A B C u hD hu0 hu1]
  apply volume_two_triangles _ _ _ _ _ hS
  have o1 : orient A B (lerp B C u) = u * orient A B C := by unfold orient lerp; ring
  have o2 : orient A C (lerp B C u) = -((1 - u) * orient A B C) := by unfold orient lerp; ring
  rw [o1, o2]
  have := mul_self_pos.mpr hD
  have hv : 0 < 1 - u := by linarith
  nlinarith [mul_pos (mul_pos hu0 hv) this]

/-! ### `circle_segment_single2` from a point strictly inside to a point strictly outside -/

/-- a line through a point strictly inside the circle (and not a "tiny" edge) has two distinct
intersections, and `circle_line` returns them. -/
theorem circleLine_through_inside (x1 y1 x2 y2 : ℝ) (hin : x1 * x1 + y1 * y1 < 1)
    (hnt : ¬(|x2 - x1| < 1.0e-10 ∧ |y2 - y1| < 1.0e-10)) :
    OnCircle (circleLine x1 y1 x2 y2).p1 ∧ OnCircle (circleLine x1 y1 x2 y2).p2 ∧
      OnLine x1 y1 x2 y2 (circleLine x1 y1 x2 y2).p1 ∧ OnLine x1 y1 x2 y2 (circleLine x1 y1 x2 y2).p2 ∧
      ((circleLine x1 y1 x2 y2).p1.x < (circleLine x1 y1 x2 y2).p2.x ∨
       (circleLine x1 y1 x2 y2).p1.y < (circleLine x1 y1 x2 y2).p2.y) := by
  have key : ∀ a : ℝ, 0 < 1 + a * a - (y1 - a * x1) * (y1 - a * x1) := by
    intro a
    nlinarith [sq_nonneg (x1 + a * y1), mul_self_nonneg a, mul_pos (by nlinarith [mul_self_nonneg a] : (0:ℝ) < 1 + a * a) (sub_pos.mpr hin)]
  have key' : ∀ a : ℝ, 0 < 1 + a * a - (x1 - a * y1) * (x1 - a * y1) := by
    intro a
    nlinarith [sq_nonneg (y1 + a * x1), mul_self_nonneg a, mul_pos (by nlinarith [mul_self_nonneg a] : (0:ℝ) < 1 + a * a) (sub_pos.mpr hin)]
  rcases circleLine_cases_aux x1 y1 x2 y2 with ⟨-, h | ⟨-, h⟩ | ⟨-, h⟩⟩ | h
  · exact absurd h hnt
  · exact absurd (key _) h
  · exact absurd (key' _) h
  · exact h

/-- a point of the line `A C` is `A + t·(C − A)`. -/
theorem onLine_param (x1 y1 x2 y2 : ℝ) (p : Point) (hN : 0 < (x2 - x1) * (x2 - x1) + (y2 - y1) * (y2 - y1))
    (h : OnLine x1 y1 x2 y2 p) :
    ∃ t : ℝ, p.x = x1 + t * (x2 - x1) ∧ p.y = y1 + t * (y2 - y1) := by
  unfold OnLine at h
  refine ⟨((p.x - x1) * (x2 - x1) + (p.y - y1) * (y2 - y1)) / ((x2 - x1) * (x2 - x1) + (y2 - y1) * (y2 - y1)), ?_, ?_⟩
  · have : p.x - x1 = ((p.x - x1) * (x2 - x1) + (p.y - y1) * (y2 - y1)) / ((x2 - x1) * (x2 - x1) + (y2 - y1) * (y2 - y1)) * (x2 - x1) := by
      rw [div_mul_eq_mul_div, eq_div_iff hN.ne']; linear_combination (y2 - y1) * h
    linarith
  · have : p.y - y1 = ((p.x - x1) * (x2 - x1) + (p.y - y1) * (y2 - y1)) / ((x2 - x1) * (x2 - x1) + (y2 - y1) * (y2 - y1)) * (y2 - y1) := by
      rw [div_mul_eq_mul_div, eq_div_iff hN.ne']; linear_combination (-(x2 - x1)) * h
    linarith

theorem quad_roots (N Av c0 t1 t2 : ℝ) (hN : 0 < N)
    (q1 : N * t1 * t1 + 2 * Av * t1 + c0 = 0) (q2 : N * t2 * t2 + 2 * Av * t2 + c0 = 0)
    (hc0 : c0 < 0) (f1 : 0 < N + 2 * Av + c0) (htne : t1 ≠ t2) :
    t1 < 1 ∧ t2 < 1 ∧ ((t1 < 0 ∧ 0 < t2) ∨ (t2 < 0 ∧ 0 < t1)) := by
  have hsum : N * (t1 + t2) + 2 * Av = 0 := by
    have : (t1 - t2) * (N * (t1 + t2) + 2 * Av) = 0 := by linear_combination q1 - q2
    rcases mul_eq_zero.mp this with h | h
    · exact absurd (sub_eq_zero.mp h) htne
    · exact h
  have hprod : N * (t1 * t2) = c0 := by linear_combination t1 * hsum - q1
  have hneg : t1 * t2 < 0 := by
    by_contra hn; push Not at hn
    have := mul_nonneg hN.le hn
    linarith
  have root_lt : ∀ t : ℝ, N * t * t + 2 * Av * t + c0 = 0 → t < 1 := by
    intro t ht
    by_contra hn; push Not at hn
    have e : t * (N + 2 * Av + c0) = (1 - t) * (N * t - c0) := by linear_combination ht
    have h1 : 0 < t * (N + 2 * Av + c0) := mul_pos (by linarith) f1
    have h2 : (1 - t) * (N * t - c0) ≤ 0 :=
      mul_nonpos_of_nonpos_of_nonneg (by linarith) (by nlinarith)
    linarith
  refine ⟨root_lt t1 q1, root_lt t2 q2, ?_⟩
  rcases lt_or_gt_of_ne htne with hlt | hlt
  · left
    have ht1 : t1 < 0 := by
      by_contra hn; push Not at hn
      have : 0 ≤ t1 * t2 := mul_nonneg hn (by linarith)
      linarith
    refine ⟨ht1, ?_⟩
    by_contra hn; push Not at hn
    have : 0 ≤ t1 * t2 := mul_nonneg_of_nonpos_of_nonpos ht1.le hn
    linarith
  · right
    have ht2 : t2 < 0 := by
      by_contra hn; push Not at hn
      have : 0 ≤ t1 * t2 := mul_nonneg (by linarith) hn
      linarith
    refine ⟨ht2, ?_⟩
    by_contra hn; push Not at hn
    have : 0 ≤ t1 * t2 := mul_nonneg_of_nonpos_of_nonpos hn ht2.le
    linarith

/-- the selection rule of `circle_segment_single2`, in the parametrisation of the line. -/
theorem sel_lemma (p1 p2 : Point) (u1 u2 X Y : ℝ) (hu1 : 0 < u1) (_hu2 : 0 < u2) (hX : 0 ≤ X) (hY : 0 ≤ Y)
    (hXY : 0 < X ∨ 0 < Y) :
    (u2 < u1 → (if u1 * X > u1 * Y then (if u1 * X > u2 * X then p2 else p1)
      else (if u1 * Y > u2 * Y then p2 else p1)) = p2) ∧
    (u1 < u2 → (if u1 * X > u1 * Y then (if u1 * X > u2 * X then p2 else p1)
      else (if u1 * Y > u2 * Y then p2 else p1)) = p1) := by
  constructor
  · intro h
    split_ifs with k1 k2 k3
    · rfl
    · exfalso
      have hXpos : 0 < X := by
        rcases hX.lt_or_eq with h' | h'
        · exact h'
        · rw [← h'] at k1; nlinarith
      exact k2 (by nlinarith)
    · rfl
    · exfalso
      have hle : X ≤ Y := by
        by_contra hz; push Not at hz
        exact k1 (by nlinarith)
      have hYpos : 0 < Y := by rcases hXY with h' | h' <;> linarith
      exact k3 (by nlinarith)
  · intro h
    split_ifs with k1 k2 k3
    · exfalso; nlinarith
    · rfl
    · exfalso; nlinarith
    · rfl

/-- **`circle_segment_single2(A, C)`** for `A` strictly inside and `C` strictly outside the circle
(edge not "tiny"): the point where the segment `A C` crosses the circle. -/
theorem single2_spec (x1 y1 x2 y2 : ℝ) (hin : x1 * x1 + y1 * y1 < 1) (hout : 1 < x2 * x2 + y2 * y2)
    (hnt : ¬(|x2 - x1| < 1.0e-10 ∧ |y2 - y1| < 1.0e-10)) :
    ∃ t : ℝ, 0 < t ∧ t < 1 ∧
      (circleSegmentSingle2 x1 y1 x2 y2).x = x1 + t * (x2 - x1) ∧
      (circleSegmentSingle2 x1 y1 x2 y2).y = y1 + t * (y2 - y1) ∧
      OnCircle (circleSegmentSingle2 x1 y1 x2 y2) := by
  obtain ⟨c1, c2, l1, l2, hne⟩ := circleLine_through_inside x1 y1 x2 y2 hin hnt
  set p1 := (circleLine x1 y1 x2 y2).p1 with hp1
  set p2 := (circleLine x1 y1 x2 y2).p2 with hp2
  set dx := x2 - x1 with hdx
  set dy := y2 - y1 with hdy
  have hN : 0 < dx * dx + dy * dy := by
    by_contra hn
    push Not at hn
    have e1 : dx = 0 := by nlinarith [mul_self_nonneg dx, mul_self_nonneg dy]
    have e2 : dy = 0 := by nlinarith [mul_self_nonneg dx, mul_self_nonneg dy]
    have : x2 = x1 := by linarith
    have : y2 = y1 := by linarith
    subst_vars
    linarith
  obtain ⟨t1, a1, b1⟩ := onLine_param x1 y1 x2 y2 p1 hN l1
  obtain ⟨t2, a2, b2⟩ := onLine_param x1 y1 x2 y2 p2 hN l2
  rw [← hdx] at a1 a2
  rw [← hdy] at b1 b2
  unfold OnCircle at c1 c2
  rw [a1, b1] at c1
  rw [a2, b2] at c2
  set N := dx * dx + dy * dy with hNdef
  set Av := x1 * dx + y1 * dy with hAv
  set c0 := x1 * x1 + y1 * y1 - 1 with hc0
  have q1 : N * t1 * t1 + 2 * Av * t1 + c0 = 0 := by rw [hNdef, hAv, hc0]; linarith
  have q2 : N * t2 * t2 + 2 * Av * t2 + c0 = 0 := by rw [hNdef, hAv, hc0]; linarith
  have hc0neg : c0 < 0 := by rw [hc0]; linarith
  have f1 : 0 < N + 2 * Av + c0 := by
    rw [hNdef, hAv, hc0, hdx, hdy]; nlinarith
  have htne : t1 ≠ t2 := by
    intro e
    rcases hne with h | h
    · rw [a1, a2, e] at h; exact lt_irrefl _ h
    · rw [b1, b2, e] at h; exact lt_irrefl _ h
  obtain ⟨r1, r2, hcase⟩ := quad_roots N Av c0 t1 t2 hN q1 q2 hc0neg f1 htne
  -- the distances used by the selection
  have ex1 : p1.x - x2 = (t1 - 1) * dx := by rw [a1, hdx]; ring
  have ey1 : p1.y - y2 = (t1 - 1) * dy := by rw [b1, hdy]; ring
  have ex2 : p2.x - x2 = (t2 - 1) * dx := by rw [a2, hdx]; ring
  have ey2 : p2.y - y2 = (t2 - 1) * dy := by rw [b2, hdy]; ring
  have hl1 : |t1 - 1| = 1 - t1 := by rw [abs_of_neg (by linarith)]; ring
  have hl2 : |t2 - 1| = 1 - t2 := by rw [abs_of_neg (by linarith)]; ring
  have hsel : circleSegmentSingle2 x1 y1 x2 y2 =
      if (1 - t1) * |dx| > (1 - t1) * |dy| then
        (if (1 - t1) * |dx| > (1 - t2) * |dx| then p2 else p1)
      else (if (1 - t1) * |dy| > (1 - t2) * |dy| then p2 else p1) := by
    unfold circleSegmentSingle2
    simp only
    rw [← hp1, ← hp2, ex1, ey1, ex2, ey2, abs_mul, abs_mul, abs_mul, abs_mul, hl1, hl2]
  have hdd : 0 < |dx| ∨ 0 < |dy| := by
    by_contra hn; push Not at hn
    have e1 : dx = 0 := abs_eq_zero.mp (le_antisymm hn.1 (abs_nonneg _))
    have e2 : dy = 0 := abs_eq_zero.mp (le_antisymm hn.2 (abs_nonneg _))
    rw [hNdef, e1, e2] at hN; simp at hN
  have hu1 : 0 < 1 - t1 := by linarith
  have hu2 : 0 < 1 - t2 := by linarith
  obtain ⟨sA, sB⟩ := sel_lemma p1 p2 (1 - t1) (1 - t2) |dx| |dy| hu1 hu2 (abs_nonneg _) (abs_nonneg _) hdd
  rcases hcase with ⟨ht1, ht2⟩ | ⟨ht2, ht1⟩
  · have e := sA (by linarith)
    rw [← hsel] at e
    refine ⟨t2, ht2, r2, ?_, ?_, ?_⟩
    · rw [e]; exact a2
    · rw [e]; exact b2
    · rw [e]; unfold OnCircle; rw [a2, b2]; exact c2
  · have e := sB (by linarith)
    rw [← hsel] at e
    refine ⟨t1, ht1, r1, ?_, ?_, ?_⟩
    · rw [e]; exact a1
    · rw [e]; exact b1
    · rw [e]; unfold OnCircle; rw [a1, b1]; exact c1

/-! ### case theorems, geometric part -/

theorem areaArcUnit_nonneg (x1 y1 x2 y2 : ℝ) : 0 ≤ areaArcUnit x1 y1 x2 y2 := by
  unfold areaArcUnit
  simp only
  have h0 : 0 ≤ 0.5 * distance x1 y1 x2 y2 := by
    unfold distance; positivity
  have h1 : 0 ≤ 2 * Real.arcsin (0.5 * distance x1 y1 x2 y2) := by
    have := Real.arcsin_nonneg.mpr h0; linarith
  have := Real.sin_le h1
  nlinarith

theorem areaTriangle_nonneg (x1 y1 x2 y2 x3 y3 : ℝ) : 0 ≤ areaTriangle x1 y1 x2 y2 x3 y3 := by
  unfold areaTriangle; positivity

theorem areaTriangle_perm12 (A B C : ℝ × ℝ) :
    areaTriangle B.1 B.2 A.1 A.2 C.1 C.2 = areaTriangle A.1 A.2 B.1 B.2 C.1 C.2 := by
  rw [areaTriangle_eq_orient, areaTriangle_eq_orient]
  have : orient B A C = -orient A B C := by unfold orient; ring
  rw [this, abs_neg]

theorem areaTriangle_perm23 (A B C : ℝ × ℝ) :
    areaTriangle A.1 A.2 C.1 C.2 B.1 B.2 = areaTriangle A.1 A.2 B.1 B.2 C.1 C.2 := by
  rw [areaTriangle_eq_orient, areaTriangle_eq_orient]
  have : orient A C B = -orient A B C := by unfold orient; ring
  rw [this, abs_neg]

/-- the segment from an inside point `A` to `P = A + t(C − A)` on the circle leaves the disk at `P`. -/
theorem leaving_of_inside (A C : ℝ × ℝ) (t : ℝ) (ht0 : 0 < t) (ht1 : t ≤ 1)
    (hA : A.1 ^ 2 + A.2 ^ 2 < 1) (hP : (lerp A C t).1 ^ 2 + (lerp A C t).2 ^ 2 = 1) :
    0 ≤ dot (C.1 - (lerp A C t).1, C.2 - (lerp A C t).2) (lerp A C t) := by
  set P := lerp A C t with hPdef
  have e1 : C.1 - P.1 = (1 - t) * (C.1 - A.1) := by rw [hPdef]; unfold lerp; ring
  have e2 : C.2 - P.2 = (1 - t) * (C.2 - A.2) := by rw [hPdef]; unfold lerp; ring
  have e3 : t * ((C.1 - A.1) * P.1 + (C.2 - A.2) * P.2) = 1 - (A.1 * P.1 + A.2 * P.2) := by
    have hx : t * (C.1 - A.1) = P.1 - A.1 := by rw [hPdef]; unfold lerp; ring
    have hy : t * (C.2 - A.2) = P.2 - A.2 := by rw [hPdef]; unfold lerp; ring
    have : t * ((C.1 - A.1) * P.1 + (C.2 - A.2) * P.2) = (P.1 - A.1) * P.1 + (P.2 - A.2) * P.2 := by
      rw [← hx, ← hy]; ring
    rw [this]; linear_combination hP
  have e4 : A.1 * P.1 + A.2 * P.2 < 1 := by nlinarith [sq_nonneg (A.1 - P.1), sq_nonneg (A.2 - P.2)]
  have e5 : 0 < (C.1 - A.1) * P.1 + (C.2 - A.2) * P.2 := by
    by_contra hn; push Not at hn
    have := mul_nonpos_of_nonneg_of_nonpos ht0.le hn
    linarith
  unfold dot
  simp only
  rw [e1, e2]
  have : (1 - t) * (C.1 - A.1) * P.1 + (1 - t) * (C.2 - A.2) * P.2 =
      (1 - t) * ((C.1 - A.1) * P.1 + (C.2 - A.2) * P.2) := by ring
  rw [this]
  exact mul_nonneg (by linarith) e5.le

/-- **two vertices inside, one outside** (geometry): the overlap is two triangles and a cap. -/
theorem twoIn_geometry (A B C : ℝ × ℝ) (t u : ℝ) (hD : orient A B C ≠ 0)
    (ht0 : 0 < t) (ht1 : t < 1) (hu0 : 0 < u) (hu1 : u < 1)
    (hA : A.1 ^ 2 + A.2 ^ 2 < 1) (hB : B.1 ^ 2 + B.2 ^ 2 < 1)
    (hP1 : (lerp A C t).1 ^ 2 + (lerp A C t).2 ^ 2 = 1)
    (hP2 : (lerp B C u).1 ^ 2 + (lerp B C u).2 ^ 2 = 1) :
    volume (triSet A B C ∩ disk) =
      ENNReal.ofReal (areaTriangle A.1 A.2 B.1 B.2 (lerp A C t).1 (lerp A C t).2
        + areaTriangle B.1 B.2 (lerp A C t).1 (lerp A C t).2 (lerp B C u).1 (lerp B C u).2
        + areaArcUnit (lerp A C t).1 (lerp A C t).2 (lerp B C u).1 (lerp B C u).2) := by
  set P1 := lerp A C t with hP1def
  set P2 := lerp B C u with hP2def
  have hD' : orient B A C ≠ 0 := by
    have : orient B A C = -orient A B C := by unfold orient; ring
    rw [this]; exact neg_ne_zero.mpr hD
  -- first cut: from B to P1 on the edge A C
  have s1 := volume_split B A C t disk measurableSet_disk hD' ht0 ht1
  rw [← hP1def] at s1
  -- second cut: from P1 to P2 on the edge B C
  have o2 : orient P1 B C = (1 - t) * orient A B C := by rw [hP1def]; unfold orient lerp; ring
  have hD2 : orient P1 B C ≠ 0 := by rw [o2]; exact mul_ne_zero (by linarith) hD
  have s2 := volume_split P1 B C u disk measurableSet_disk hD2 hu0 hu1
  rw [← hP2def] at s2
  have e0 : triSet A B C = triSet B A C := triSet_swap12 A B C
  have e1 : triSet B C P1 = triSet P1 B C := (triSet_rot P1 B C).symm
  rw [e0, s1, e1, s2]
  -- the three pieces
  have o3 : orient B A P1 = t * orient B A C := by rw [hP1def]; unfold orient lerp; ring
  have v1 := volume_triSet_inter_disk_of_inside B A P1 (by rw [o3]; exact mul_ne_zero ht0.ne' hD') hB.le hA.le hP1.le
  have o4 : orient P1 B P2 = u * orient P1 B C := by rw [hP2def]; unfold orient lerp; ring
  have v2 := volume_triSet_inter_disk_of_inside P1 B P2 (by rw [o4]; exact mul_ne_zero hu0.ne' hD2) hP1.le hB.le hP2.le
  have o5 : orient P1 P2 C = (1 - u) * orient P1 B C := by rw [hP2def]; unfold orient lerp; ring
  have l1 := leaving_of_inside A C t ht0 ht1.le hA hP1
  have l2 := leaving_of_inside B C u hu0 hu1.le hB hP2
  rw [← hP1def] at l1
  rw [← hP2def] at l2
  have v3 := volume_tri_cap P1 P2 C hP1 hP2 (by rw [o5]; exact mul_ne_zero (by linarith) hD2) l1 l2
  rw [triSet_swap23 P1 C P2, v1, v2, v3, areaTriangle_perm12 A B P1,
    show areaTriangle P1.1 P1.2 B.1 B.2 P2.1 P2.2 = areaTriangle B.1 B.2 P1.1 P1.2 P2.1 P2.2 from
      areaTriangle_perm12 B P1 P2, ← add_assoc,
    ← ENNReal.ofReal_add (areaTriangle_nonneg _ _ _ _ _ _) (areaTriangle_nonneg _ _ _ _ _ _),
    ← ENNReal.ofReal_add (add_nonneg (areaTriangle_nonneg _ _ _ _ _ _) (areaTriangle_nonneg _ _ _ _ _ _))
      (areaArcUnit_nonneg _ _ _ _)]

/-! ### case theorems, model part: from the sorted body to `overlapTri` -/

/-- squared distance to the centre. -/
def dd (V : ℝ × ℝ) : ℝ := V.1 * V.1 + V.2 * V.2

/-- the sorted body is right on the triangle `V1 V2 V3`. -/
def SortedCorrect (self : ℝ → ℝ → ℝ → ℝ → ℝ → ℝ → Option ℝ) (V1 V2 V3 : ℝ × ℝ) : Prop :=
  ∃ v : ℝ, overlapSorted self V1.1 V1.2 (dd V1) V2.1 V2.2 (dd V2) V3.1 V3.2 (dd V3) = some v ∧ 0 ≤ v ∧
    volume (triSet V1 V2 V3 ∩ disk) = ENNReal.ofReal v

/-- `(V1, V2, V3)` is a rearrangement of `(A, B, C)`. -/
def IsPerm3 (V1 V2 V3 A B C : ℝ × ℝ) : Prop :=
  (V1 = A ∧ V2 = B ∧ V3 = C) ∨ (V1 = A ∧ V2 = C ∧ V3 = B) ∨ (V1 = C ∧ V2 = A ∧ V3 = B) ∨
  (V1 = B ∧ V2 = A ∧ V3 = C) ∨ (V1 = B ∧ V2 = C ∧ V3 = A) ∨ (V1 = C ∧ V2 = B ∧ V3 = A)

theorem triSet_perm (V1 V2 V3 A B C : ℝ × ℝ) (h : IsPerm3 V1 V2 V3 A B C) :
    triSet V1 V2 V3 = triSet A B C := by
  rcases h with ⟨rfl, rfl, rfl⟩ | ⟨rfl, rfl, rfl⟩ | ⟨rfl, rfl, rfl⟩ | ⟨rfl, rfl, rfl⟩ | ⟨rfl, rfl, rfl⟩ | ⟨rfl, rfl, rfl⟩
  all_goals first
    | rfl
    | exact triSet_swap23 _ _ _
    | exact triSet_swap12 _ _ _
    | exact triSet_rot _ _ _
    | exact (triSet_rot _ _ _).symm
    | exact (triSet_swap23 _ _ _).trans (triSet_rot _ _ _)

theorem orient_perm_ne (V1 V2 V3 A B C : ℝ × ℝ) (h : IsPerm3 V1 V2 V3 A B C) (hD : orient A B C ≠ 0) :
    orient V1 V2 V3 ≠ 0 := by
  rcases h with ⟨rfl, rfl, rfl⟩ | ⟨rfl, rfl, rfl⟩ | ⟨rfl, rfl, rfl⟩ | ⟨rfl, rfl, rfl⟩ | ⟨rfl, rfl, rfl⟩ | ⟨rfl, rfl, rfl⟩
  · exact hD
  all_goals
    intro h0; apply hD; unfold orient at *; linarith

/-- **from the sorted body to the routine**: whatever order the vertices are given in, the routine
is right as soon as the sorted body is right on the vertices sorted as the kernel sorts them. -/
theorem triCorrect_of_sorted (n : Nat) (A B C : ℝ × ℝ)
    (h : ∀ V1 V2 V3 : ℝ × ℝ, IsPerm3 V1 V2 V3 A B C → dd V1 ≤ dd V2 → dd V2 ≤ dd V3 →
      SortedCorrect (overlapTri n) V1 V2 V3) :
    TriCorrect (n + 1) A B C := by
  obtain ⟨a1, b1, a2, b2, a3, b3, e, s1, s2, hp⟩ := overlapTri_succ n A.1 A.2 B.1 B.2 C.1 C.2
  have hperm : IsPerm3 (a1, b1) (a2, b2) (a3, b3) A B C := by
    unfold IsPerm3
    rcases hp with hp | hp | hp | hp | hp | hp <;>
      (simp only [Prod.mk.injEq] at hp
       obtain ⟨⟨r1, r2⟩, ⟨r3, r4⟩, r5, r6⟩ := hp
       subst r1 r2 r3 r4 r5 r6
       simp)
  obtain ⟨v, hv, hv0, hvol⟩ := h (a1, b1) (a2, b2) (a3, b3) hperm s1 s2
  refine ⟨v, ?_, hv0, ?_⟩
  · rw [e]; exact hv
  · rw [← triSet_perm _ _ _ _ _ _ hperm]; exact hvol

/-- **(b) all vertices inside or exactly on the circle**. -/
theorem sorted_allIn (self : ℝ → ℝ → ℝ → ℝ → ℝ → ℝ → Option ℝ) (V1 V2 V3 : ℝ × ℝ)
    (hD : orient V1 V2 V3 ≠ 0) (h12 : dd V1 ≤ dd V2) (h23 : dd V2 ≤ dd V3) (h3 : dd V3 ≤ 1) :
    SortedCorrect self V1 V2 V3 := by
  refine ⟨areaTriangle V1.1 V1.2 V2.1 V2.2 V3.1 V3.2, ?_, areaTriangle_nonneg _ _ _ _ _ _, ?_⟩
  · unfold overlapSorted
    rw [if_neg (by push Not; exact ⟨h12, h23, le_trans h12 h23⟩)]
    simp only
    rw [if_pos]
    rcases lt_or_eq_of_le h3 with h | h
    · simp [h]
    · simp [h]; norm_num
  · unfold dd at *
    exact volume_triSet_inter_disk_of_inside V1 V2 V3 hD (by nlinarith) (by nlinarith) (by nlinarith)

/-- the "tiny edge" test of `circle_line`. -/
def NotTiny (A C : ℝ × ℝ) : Prop := ¬(|C.1 - A.1| < 1.0e-10 ∧ |C.2 - A.2| < 1.0e-10)

/-- **(c) two vertices inside, the third outside** (all three clear of the `1e-10` ring). -/
theorem sorted_twoIn (self : ℝ → ℝ → ℝ → ℝ → ℝ → ℝ → Option ℝ) (V1 V2 V3 : ℝ × ℝ)
    (hD : orient V1 V2 V3 ≠ 0) (h12 : dd V1 ≤ dd V2) (h2 : dd V2 ≤ 1 - 1.0e-10) (h3 : 1 + 1.0e-10 ≤ dd V3)
    (nt13 : NotTiny V1 V3) (nt23 : NotTiny V2 V3) :
    SortedCorrect self V1 V2 V3 := by
  have h1 : dd V1 ≤ 1 - 1.0e-10 := le_trans h12 h2
  have i1 : V1.1 * V1.1 + V1.2 * V1.2 < 1 := by unfold dd at h1; norm_num at h1 ⊢; linarith
  have i2 : V2.1 * V2.1 + V2.2 * V2.2 < 1 := by unfold dd at h2; norm_num at h2 ⊢; linarith
  have i3 : 1 < V3.1 * V3.1 + V3.2 * V3.2 := by unfold dd at h3; norm_num at h3 ⊢; linarith
  obtain ⟨t, ht0, ht1, px, py, pc⟩ := single2_spec V1.1 V1.2 V3.1 V3.2 i1 i3 nt13
  obtain ⟨u, hu0, hu1, qx, qy, qc⟩ := single2_spec V2.1 V2.2 V3.1 V3.2 i2 i3 nt23
  have hP1 : ((circleSegmentSingle2 V1.1 V1.2 V3.1 V3.2).x, (circleSegmentSingle2 V1.1 V1.2 V3.1 V3.2).y) = lerp V1 V3 t := by
    unfold lerp; rw [px, py]
  have hP2 : ((circleSegmentSingle2 V2.1 V2.2 V3.1 V3.2).x, (circleSegmentSingle2 V2.1 V2.2 V3.1 V3.2).y) = lerp V2 V3 u := by
    unfold lerp; rw [qx, qy]
  have g := twoIn_geometry V1 V2 V3 t u hD ht0 ht1 hu0 hu1 (by nlinarith) (by nlinarith)
    (by rw [← hP1]; unfold OnCircle at pc; simp only; nlinarith)
    (by rw [← hP2]; unfold OnCircle at qc; simp only; nlinarith)
  rw [← hP1, ← hP2] at g
  simp only at g
  refine ⟨_, ?_, ?_, g⟩
  · unfold overlapSorted
    rw [if_neg (by push Not; exact ⟨h12, by linarith, by linarith⟩)]
    have n3 : ¬ (|dd V3 - 1| < 1.0e-10) := by
      rw [abs_of_nonneg (by linarith)]; push Not; linarith
    have n3' : ¬ (dd V3 < 1) := by push Not; norm_num at h3 ⊢; linarith
    have y2 : dd V2 < 1 := by norm_num at h2 ⊢; linarith
    have n2 : ¬ (|dd V2 - 1| < 1.0e-10) := by
      rw [abs_of_nonpos (by linarith)]; push Not; linarith
    have n1 : ¬ (|dd V1 - 1| < 1.0e-10) := by
      rw [abs_of_nonpos (by linarith)]; push Not; linarith
    simp only [n3, n3', y2, n2, n1, decide_false, decide_true, Bool.or_false,
      Bool.false_eq_true, if_false, if_true, caseTwoIn, Bool.not_false, Bool.true_or, Bool.and_self]
  · exact add_nonneg (add_nonneg (areaTriangle_nonneg _ _ _ _ _ _) (areaTriangle_nonneg _ _ _ _ _ _))
      (areaArcUnit_nonneg _ _ _ _)

/-! ### `circle_segment` on an edge with both end points strictly outside the circle -/

/-- a line whose discriminant is not positive misses the open disk (slope form `y = a x + b`). -/
theorem line_misses (a b x : ℝ) (h : ¬ (1 + a * a - b * b > 0)) : 1 ≤ x * x + (a * x + b) * (a * x + b) := by
  push Not at h
  have hq : (0 : ℝ) < 1 + a * a := by nlinarith [mul_self_nonneg a]
  have : (1 + a * a) * (x * x + (a * x + b) * (a * x + b)) = ((1 + a * a) * x + a * b) * ((1 + a * a) * x + a * b) + b * b := by ring
  have h2 : (1 + a * a) * 1 ≤ (1 + a * a) * (x * x + (a * x + b) * (a * x + b)) := by
    rw [this]; nlinarith [mul_self_nonneg ((1 + a * a) * x + a * b)]
  exact le_of_mul_le_mul_left h2 hq

/-- on the line `B + s·(C − B)`: being discarded by `circle_segment` means `s ∉ [0, 1]`. -/
theorem offSegment_iff (x1 y1 x2 y2 s : ℝ) (p : Point) (hx : p.x = x1 + s * (x2 - x1)) (hy : p.y = y1 + s * (y2 - y1))
    (hN : 0 < (x2 - x1) * (x2 - x1) + (y2 - y1) * (y2 - y1)) :
    offSegment p x1 y1 x2 y2 ↔ (s < 0 ∨ 1 < s) := by
  unfold offSegment
  rw [hx, hy]
  set dx := x2 - x1 with hdx
  set dy := y2 - y1 with hdy
  have e1 : x2 = x1 + dx := by rw [hdx]; ring
  have e2 : y2 = y1 + dy := by rw [hdy]; ring
  rw [e1, e2]
  constructor
  · rintro (⟨h1, h2⟩ | ⟨h1, h2⟩ | ⟨h1, h2⟩ | ⟨h1, h2⟩)
    all_goals
      by_contra hn
      push Not at hn
      obtain ⟨k0, k1⟩ := hn
      nlinarith [mul_nonneg k0 (sub_nonneg.mpr k1)]
  · intro h
    rcases lt_trichotomy dx 0 with hd | hd | hd
    · rcases h with h | h
      · left; constructor <;> nlinarith
      · right; left; constructor <;> nlinarith
    · have hdy0 : dy ≠ 0 := by
        intro h0; rw [hd, h0] at hN; simp at hN
      rcases lt_or_gt_of_ne hdy0 with hd' | hd'
      · rcases h with h | h
        · right; right; left; constructor <;> nlinarith
        · right; right; right; constructor <;> nlinarith
      · rcases h with h | h
        · right; right; right; constructor <;> nlinarith
        · right; right; left; constructor <;> nlinarith
    · rcases h with h | h
      · right; left; constructor <;> nlinarith
      · left; constructor <;> nlinarith

/-- two distinct roots of a quadratic that is positive at `0` and at `1`: both in `(0,1)`, or the
quadratic is positive on `[0,1]`. -/
theorem quad_roots_out (N Bv c0 s1 s2 : ℝ) (hN : 0 < N)
    (q1 : N * s1 * s1 + 2 * Bv * s1 + c0 = 0) (q2 : N * s2 * s2 + 2 * Bv * s2 + c0 = 0)
    (hc0 : 0 < c0) (f1 : 0 < N + 2 * Bv + c0) (hne : s1 ≠ s2) :
    (0 < s1 ∧ s1 < 1 ∧ 0 < s2 ∧ s2 < 1) ∨
    (((s1 < 0 ∨ 1 < s1) ∧ (s2 < 0 ∨ 1 < s2)) ∧ ∀ s : ℝ, 0 ≤ s → s ≤ 1 → 0 < N * s * s + 2 * Bv * s + c0) := by
  have hsum : N * (s1 + s2) + 2 * Bv = 0 := by
    have : (s1 - s2) * (N * (s1 + s2) + 2 * Bv) = 0 := by linear_combination q1 - q2
    rcases mul_eq_zero.mp this with h | h
    · exact absurd (sub_eq_zero.mp h) hne
    · exact h
  have hprod : N * (s1 * s2) = c0 := by linear_combination s1 * hsum - q1
  have hfac : ∀ s : ℝ, N * s * s + 2 * Bv * s + c0 = N * ((s - s1) * (s - s2)) := by
    intro s; linear_combination s * hsum - hprod
  have hpos : 0 < s1 * s2 := by
    by_contra hn; push Not at hn
    have := mul_nonpos_of_nonneg_of_nonpos hN.le hn
    linarith
  have hpos1 : 0 < (1 - s1) * (1 - s2) := by
    have := hfac 1
    by_contra hn; push Not at hn
    have h2 := mul_nonpos_of_nonneg_of_nonpos hN.le hn
    nlinarith
  by_cases ha : 0 < s1
  · have hb : 0 < s2 := by
      by_contra hn; push Not at hn
      have := mul_nonpos_of_nonneg_of_nonpos ha.le hn
      linarith
    by_cases hc : s1 < 1
    · have hd : s2 < 1 := by
        by_contra hn; push Not at hn
        have := mul_nonpos_of_nonneg_of_nonpos (sub_pos.mpr hc).le (sub_nonpos.mpr hn)
        linarith
      left; exact ⟨ha, hc, hb, hd⟩
    · push Not at hc
      have hc' : 1 < s1 := by
        rcases hc.lt_or_eq with h | h
        · exact h
        · rw [← h] at hpos1; simp at hpos1
      have hd : 1 < s2 := by
        by_contra hn; push Not at hn
        have := mul_nonpos_of_nonpos_of_nonneg (sub_neg.mpr hc').le (sub_nonneg.mpr hn)
        linarith
      right
      refine ⟨⟨Or.inr hc', Or.inr hd⟩, ?_⟩
      intro s h0 h1
      rw [hfac]
      exact mul_pos hN (mul_pos_of_neg_of_neg (by linarith) (by linarith))
  · push Not at ha
    have ha' : s1 < 0 := by
      rcases ha.lt_or_eq with h | h
      · exact h
      · rw [h] at hpos; simp at hpos
    have hb : s2 < 0 := by
      by_contra hn; push Not at hn
      have := mul_nonpos_of_nonpos_of_nonneg ha'.le hn
      linarith
    right
    refine ⟨⟨Or.inl ha', Or.inl hb⟩, ?_⟩
    intro s h0 h1
    rw [hfac]
    exact mul_pos hN (mul_pos (by linarith) (by linarith))

theorem onCircle_x_le (p : Point) (h : OnCircle p) : p.x ≤ 1 := by
  unfold OnCircle at h; nlinarith [mul_self_nonneg p.y, mul_self_nonneg (p.x - 1)]

/-- **`circle_segment(B, C)` with `B`, `C` strictly outside**: either it reports the two crossing
points (both strictly between `B` and `C`), or it reports "no intersection" and then the whole
segment is outside the open disk. -/
theorem circleSegment_outside (x1 y1 x2 y2 : ℝ) (hB : 1 < x1 * x1 + y1 * y1) (hC : 1 < x2 * x2 + y2 * y2)
    (hnt : ¬(|x2 - x1| < 1.0e-10 ∧ |y2 - y1| < 1.0e-10)) :
    (∃ s1 s2 : ℝ, 0 < s1 ∧ s1 < 1 ∧ 0 < s2 ∧ s2 < 1 ∧ s1 ≠ s2 ∧
        (circleSegment x1 y1 x2 y2).p1.x = x1 + s1 * (x2 - x1) ∧ (circleSegment x1 y1 x2 y2).p1.y = y1 + s1 * (y2 - y1) ∧
        (circleSegment x1 y1 x2 y2).p2.x = x1 + s2 * (x2 - x1) ∧ (circleSegment x1 y1 x2 y2).p2.y = y1 + s2 * (y2 - y1) ∧
        OnCircle (circleSegment x1 y1 x2 y2).p1 ∧ OnCircle (circleSegment x1 y1 x2 y2).p2 ∧
        (circleSegment x1 y1 x2 y2).p1.x ≤ 1) ∨
    (1 < (circleSegment x1 y1 x2 y2).p1.x ∧
      ∀ s : ℝ, 0 ≤ s → s ≤ 1 →
        1 ≤ (x1 + s * (x2 - x1)) * (x1 + s * (x2 - x1)) + (y1 + s * (y2 - y1)) * (y1 + s * (y2 - y1))) := by
  set dx := x2 - x1 with hdx
  set dy := y2 - y1 with hdy
  have hN : 0 < dx * dx + dy * dy := by
    by_contra hn
    push Not at hn
    have e1 : dx = 0 := by nlinarith [mul_self_nonneg dx, mul_self_nonneg dy]
    have e2 : dy = 0 := by nlinarith [mul_self_nonneg dx, mul_self_nonneg dy]
    apply hnt
    rw [e1, e2]; norm_num
  rcases circleLine_cases_aux x1 y1 x2 y2 with ⟨⟨e1, e2⟩, hreason⟩ | ⟨c1, c2, l1, l2, hne⟩
  · -- sentinel
    right
    constructor
    · unfold circleSegment
      simp only
      rw [e1, e2]
      unfold noPt
      split_ifs <;> norm_num
    · intro s _ _
      rcases hreason with h | ⟨hd, h⟩ | ⟨hd, h⟩
      · exact absurd h hnt
      · have := line_misses ((y2 - y1) / (x2 - x1)) (y1 - (y2 - y1) / (x2 - x1) * x1) (x1 + s * dx) h
        have e : (y2 - y1) / (x2 - x1) * (x1 + s * dx) + (y1 - (y2 - y1) / (x2 - x1) * x1) = y1 + s * dy := by
          rw [hdx, hdy]; field_simp; ring
        rw [e] at this; exact this
      · have := line_misses ((x2 - x1) / (y2 - y1)) (x1 - (x2 - x1) / (y2 - y1) * y1) (y1 + s * dy) h
        have e : (x2 - x1) / (y2 - y1) * (y1 + s * dy) + (x1 - (x2 - x1) / (y2 - y1) * y1) = x1 + s * dx := by
          rw [hdx, hdy]; field_simp; ring
        rw [e] at this; linarith
  · -- two points on the line
    obtain ⟨t1, a1, b1⟩ := onLine_param x1 y1 x2 y2 _ hN l1
    obtain ⟨t2, a2, b2⟩ := onLine_param x1 y1 x2 y2 _ hN l2
    rw [← hdx] at a1 a2
    rw [← hdy] at b1 b2
    have c1' := c1
    have c2' := c2
    unfold OnCircle at c1' c2'
    rw [a1, b1] at c1'
    rw [a2, b2] at c2'
    have q1 : (dx * dx + dy * dy) * t1 * t1 + 2 * (x1 * dx + y1 * dy) * t1 + (x1 * x1 + y1 * y1 - 1) = 0 := by linarith
    have q2 : (dx * dx + dy * dy) * t2 * t2 + 2 * (x1 * dx + y1 * dy) * t2 + (x1 * x1 + y1 * y1 - 1) = 0 := by linarith
    have f1 : 0 < (dx * dx + dy * dy) + 2 * (x1 * dx + y1 * dy) + (x1 * x1 + y1 * y1 - 1) := by
      rw [hdx, hdy]; nlinarith
    have htne : t1 ≠ t2 := by
      intro e
      rcases hne with h | h
      · rw [a1, a2, e] at h; exact lt_irrefl _ h
      · rw [b1, b2, e] at h; exact lt_irrefl _ h
    have o1 := offSegment_iff x1 y1 x2 y2 t1 _ a1 b1 hN
    have o2 := offSegment_iff x1 y1 x2 y2 t2 _ a2 b2 hN
    rcases quad_roots_out _ _ _ t1 t2 hN q1 q2 (by linarith) f1 htne with ⟨k1, k2, k3, k4⟩ | ⟨⟨k1, k2⟩, hpos⟩
    · left
      have n1 : ¬ offSegment (circleLine x1 y1 x2 y2).p1 x1 y1 x2 y2 := by
        rw [o1]; push Not; exact ⟨k1.le, k2.le⟩
      have n2 : ¬ offSegment (circleLine x1 y1 x2 y2).p2 x1 y1 x2 y2 := by
        rw [o2]; push Not; exact ⟨k3.le, k4.le⟩
      have hseg : circleSegment x1 y1 x2 y2 = ⟨(circleLine x1 y1 x2 y2).p2, (circleLine x1 y1 x2 y2).p1⟩ := by
        unfold circleSegment
        simp only [if_neg n1, if_neg n2]
        rw [if_neg]
        intro h
        have := onCircle_x_le _ c1
        linarith [h.1]
      refine ⟨t2, t1, k3, k4, k1, k2, htne.symm, ?_, ?_, ?_, ?_, ?_, ?_, ?_⟩
      all_goals rw [hseg]
      · exact a2
      · exact b2
      · exact a1
      · exact b1
      · exact c2
      · exact c1
      · exact onCircle_x_le _ c2
    · right
      have n1 : offSegment (circleLine x1 y1 x2 y2).p1 x1 y1 x2 y2 := o1.mpr k1
      have n2 : offSegment (circleLine x1 y1 x2 y2).p2 x1 y1 x2 y2 := o2.mpr k2
      constructor
      · unfold circleSegment
        simp only [if_pos n1, if_pos n2]
        split_ifs <;> norm_num
      · intro s h0 h1
        have := hpos s h0 h1
        nlinarith

/-! ### one vertex inside, the far edge cuts the circle twice (geometry) -/

theorem lerp_lerp_left (B C : ℝ × ℝ) (s1 s2 : ℝ) (h2 : s2 ≠ 0) :
    lerp B (lerp B C s2) (s1 / s2) = lerp B C s1 := by
  unfold lerp; ext <;> simp only <;> field_simp <;> ring

/-- a vertex `A` inside, `Q` on the circle, `B` outside with `Q → B` leaving the disk, `P` the
crossing of `A B`: (triangle `A B Q`) ∩ disk = triangle `A P Q` + cap `(Q, P)`. -/
theorem inOnOut_geometry (A B Q : ℝ × ℝ) (t : ℝ) (hD : orient A B Q ≠ 0) (ht0 : 0 < t) (ht1 : t < 1)
    (hA : A.1 ^ 2 + A.2 ^ 2 < 1) (hQ : Q.1 ^ 2 + Q.2 ^ 2 = 1)
    (hP : (lerp A B t).1 ^ 2 + (lerp A B t).2 ^ 2 = 1)
    (lQ : 0 ≤ dot (B.1 - Q.1, B.2 - Q.2) Q) :
    volume (triSet A B Q ∩ disk) =
      ENNReal.ofReal (areaTriangle A.1 A.2 (lerp A B t).1 (lerp A B t).2 Q.1 Q.2) +
      ENNReal.ofReal (areaArcUnit Q.1 Q.2 (lerp A B t).1 (lerp A B t).2) := by
  set P := lerp A B t with hPdef
  have hD' : orient Q A B ≠ 0 := by
    have : orient Q A B = orient A B Q := by unfold orient; ring
    rw [this]; exact hD
  have s := volume_split Q A B t disk measurableSet_disk hD' ht0 ht1
  rw [← hPdef] at s
  have e0 : triSet A B Q = triSet Q A B := (triSet_rot Q A B).symm
  rw [e0, s]
  have o1 : orient Q A P = t * orient Q A B := by rw [hPdef]; unfold orient lerp; ring
  have v1 := volume_triSet_inter_disk_of_inside Q A P (by rw [o1]; exact mul_ne_zero ht0.ne' hD') hQ.le hA.le hP.le
  have o2 : orient Q P B = (1 - t) * orient Q A B := by rw [hPdef]; unfold orient lerp; ring
  have lP := leaving_of_inside A B t ht0 ht1.le hA hP
  rw [← hPdef] at lP
  have v2 := volume_tri_cap Q P B hQ hP (by rw [o2]; exact mul_ne_zero (by linarith) hD') lQ lP
  rw [triSet_swap23 Q B P, v1, v2]
  congr 2
  rw [areaTriangle_eq_orient, areaTriangle_eq_orient]
  have : orient Q A P = orient A P Q := by unfold orient; ring
  rw [this]

/-- the entry point of a chord: `Q1`, `Q2` on the circle, `B` beyond `Q1` on the line ⇒ `Q1 → B`
leaves the disk. -/
theorem leaving_chord (Q1 Q2 B : ℝ × ℝ) (k : ℝ) (hk : 0 ≤ k) (h1 : Q1.1 ^ 2 + Q1.2 ^ 2 = 1)
    (h2 : Q2.1 ^ 2 + Q2.2 ^ 2 = 1)
    (hx : B.1 - Q1.1 = k * (Q1.1 - Q2.1)) (hy : B.2 - Q1.2 = k * (Q1.2 - Q2.2)) :
    0 ≤ dot (B.1 - Q1.1, B.2 - Q1.2) Q1 := by
  unfold dot; simp only
  rw [hx, hy]
  have : 0 ≤ (Q1.1 - Q2.1) * Q1.1 + (Q1.2 - Q2.2) * Q1.2 := by
    nlinarith [sq_nonneg (Q1.1 - Q2.1), sq_nonneg (Q1.2 - Q2.2)]
  nlinarith [mul_nonneg hk this]

/-- **one vertex inside, far edge cutting the circle at `Q1` (nearer `B`) and `Q2`** (geometry). -/
theorem oneIn_chord_geometry (A B C : ℝ × ℝ) (t u s1 s2 : ℝ) (hD : orient A B C ≠ 0)
    (ht0 : 0 < t) (ht1 : t < 1) (hu0 : 0 < u) (hu1 : u < 1)
    (hs0 : 0 < s1) (hs12 : s1 < s2) (hs1 : s2 < 1)
    (hA : A.1 ^ 2 + A.2 ^ 2 < 1)
    (hP3 : (lerp A B t).1 ^ 2 + (lerp A B t).2 ^ 2 = 1)
    (hP4 : (lerp A C u).1 ^ 2 + (lerp A C u).2 ^ 2 = 1)
    (hQ1 : (lerp B C s1).1 ^ 2 + (lerp B C s1).2 ^ 2 = 1)
    (hQ2 : (lerp B C s2).1 ^ 2 + (lerp B C s2).2 ^ 2 = 1) :
    volume (triSet A B C ∩ disk) =
      ENNReal.ofReal (areaTriangle A.1 A.2 (lerp A B t).1 (lerp A B t).2 (lerp B C s1).1 (lerp B C s1).2
        + areaTriangle A.1 A.2 (lerp B C s1).1 (lerp B C s1).2 (lerp B C s2).1 (lerp B C s2).2
        + areaTriangle A.1 A.2 (lerp B C s2).1 (lerp B C s2).2 (lerp A C u).1 (lerp A C u).2
        + areaArcUnit (lerp B C s1).1 (lerp B C s1).2 (lerp A B t).1 (lerp A B t).2
        + areaArcUnit (lerp B C s2).1 (lerp B C s2).2 (lerp A C u).1 (lerp A C u).2) := by
  set P3 := lerp A B t with hP3def
  set P4 := lerp A C u with hP4def
  set Q1 := lerp B C s1 with hQ1def
  set Q2 := lerp B C s2 with hQ2def
  have hs2pos : 0 < s2 := by linarith
  -- cut at Q2, then cut (A, B, Q2) at Q1
  have c1 := volume_split A B C s2 disk measurableSet_disk hD hs2pos hs1
  rw [← hQ2def] at c1
  have o1 : orient A B Q2 = s2 * orient A B C := by rw [hQ2def]; unfold orient lerp; ring
  have hD1 : orient A B Q2 ≠ 0 := by rw [o1]; exact mul_ne_zero hs2pos.ne' hD
  have c2 := volume_split A B Q2 (s1 / s2) disk measurableSet_disk hD1 (by positivity)
    (by rw [div_lt_one hs2pos]; exact hs12)
  have eQ1 : lerp B Q2 (s1 / s2) = Q1 := by rw [hQ2def, hQ1def]; exact lerp_lerp_left B C s1 s2 hs2pos.ne'
  rw [eQ1] at c2
  rw [c1, c2]
  -- piece 1: (A, B, Q1)
  have o2 : orient A B Q1 = s1 * orient A B C := by rw [hQ1def]; unfold orient lerp; ring
  have lQ1 : 0 ≤ dot (B.1 - Q1.1, B.2 - Q1.2) Q1 := by
    apply leaving_chord Q1 Q2 B (s1 / (s2 - s1)) (by apply div_nonneg hs0.le; linarith) hQ1 hQ2
    · rw [hQ1def, hQ2def]; unfold lerp; simp only
      have : s2 - s1 ≠ 0 := by linarith
      field_simp; ring
    · rw [hQ1def, hQ2def]; unfold lerp; simp only
      have : s2 - s1 ≠ 0 := by linarith
      field_simp; ring
  have g1 := inOnOut_geometry A B Q1 t (by rw [o2]; exact mul_ne_zero hs0.ne' hD) ht0 ht1 hA hQ1 hP3 lQ1
  rw [← hP3def] at g1
  -- piece 2: (A, Q2, Q1) inside
  have o3 : orient A Q2 Q1 = -((s2 - s1) * orient A B C) := by rw [hQ1def, hQ2def]; unfold orient lerp; ring
  have g2 := volume_triSet_inter_disk_of_inside A Q2 Q1
    (by rw [o3]; exact neg_ne_zero.mpr (mul_ne_zero (by linarith) hD)) hA.le hQ2.le hQ1.le
  -- piece 3: (A, C, Q2)
  have o4 : orient A C Q2 = -((1 - s2) * orient A B C) := by rw [hQ2def]; unfold orient lerp; ring
  have lQ2 : 0 ≤ dot (C.1 - Q2.1, C.2 - Q2.2) Q2 := by
    apply leaving_chord Q2 Q1 C ((1 - s2) / (s2 - s1)) (by apply div_nonneg (by linarith); linarith) hQ2 hQ1
    · rw [hQ1def, hQ2def]; unfold lerp; simp only
      have : s2 - s1 ≠ 0 := by linarith
      field_simp; ring
    · rw [hQ1def, hQ2def]; unfold lerp; simp only
      have : s2 - s1 ≠ 0 := by linarith
      field_simp; ring
  have g3 := inOnOut_geometry A C Q2 u (by rw [o4]; exact neg_ne_zero.mpr (mul_ne_zero (by linarith) hD))
    hu0 hu1 hA hQ2 hP4 lQ2
  rw [← hP4def] at g3
  rw [g1, g2, g3]
  have n1 := areaTriangle_nonneg A.1 A.2 P3.1 P3.2 Q1.1 Q1.2
  have n2 := areaTriangle_nonneg A.1 A.2 Q1.1 Q1.2 Q2.1 Q2.2
  have n3 := areaTriangle_nonneg A.1 A.2 Q2.1 Q2.2 P4.1 P4.2
  have n4 := areaArcUnit_nonneg Q1.1 Q1.2 P3.1 P3.2
  have n5 := areaArcUnit_nonneg Q2.1 Q2.2 P4.1 P4.2
  rw [areaTriangle_perm23 A Q1 Q2, areaTriangle_perm23 A Q2 P4,
    ← ENNReal.ofReal_add n1 n4, ← ENNReal.ofReal_add (by linarith) n2,
    ← ENNReal.ofReal_add n3 n5, ← ENNReal.ofReal_add (by linarith) (by linarith)]
  congr 1; ring

/-! ### the part of the disk on one side of a chord (minor or major segment) -/

theorem capArea_neg (h : ℝ) : capArea (-h) = Real.pi - capArea h := by
  unfold capArea
  rw [Real.arcsin_neg, neg_sq]; ring

/-- the disk on the side `0 ≤ k·orient(P, Q, ·)` of the chord `P Q`: the minor segment
`area_arc_unit(P, Q)` when the centre is not strictly on that side, the major one otherwise. -/
theorem volume_chord_side (P Q : ℝ × ℝ) (k : ℝ) (hP : P.1 ^ 2 + P.2 ^ 2 = 1) (hQ : Q.1 ^ 2 + Q.2 ^ 2 = 1)
    (hne : 0 < (Q.1 - P.1) ^ 2 + (Q.2 - P.2) ^ 2) (hk : k ≠ 0) :
    volume ({X : ℝ × ℝ | 0 ≤ k * orient P Q X} ∩ disk) =
      ENNReal.ofReal (if k * cross P Q ≤ 0 then areaArcUnit P.1 P.2 Q.1 Q.2
        else Real.pi - areaArcUnit P.1 P.2 Q.1 Q.2) := by
  set s := cross P Q with hs
  set a2 := (Q.1 - P.1) ^ 2 + (Q.2 - P.2) ^ 2 with ha2
  set a := Real.sqrt a2 with ha
  have hapos : 0 < a := Real.sqrt_pos.mpr hne
  have hasq : a * a = a2 := Real.mul_self_sqrt hne.le
  have hlag : s * s = 1 - (P.1 * Q.1 + P.2 * Q.2) * (P.1 * Q.1 + P.2 * Q.2) := by
    rw [hs]; unfold cross; nlinarith [hP, hQ]
  have ha2c : a2 = 2 - 2 * (P.1 * Q.1 + P.2 * Q.2) := by rw [ha2]; nlinarith [hP, hQ]
  obtain ⟨σ, hσ, hσk⟩ : ∃ σ : ℝ, σ * σ = 1 ∧ 0 < σ * k := by
    rcases lt_or_gt_of_ne hk with h | h
    · exact ⟨-1, by norm_num, by linarith⟩
    · exact ⟨1, by norm_num, by linarith⟩
  set n : ℝ × ℝ := (σ * (-(Q.2 - P.2)) / a, σ * (Q.1 - P.1) / a) with hn
  set h := -(σ * s) / a with hh
  have hnn : n.1 ^ 2 + n.2 ^ 2 = 1 := by
    rw [hn]; simp only
    rw [div_pow, div_pow, ← add_div, div_eq_one_iff_eq (by positivity), sq a, hasq, ha2]
    nlinarith
  have hhsq : h ^ 2 = s * s / a2 := by
    rw [hh, div_pow, sq a, hasq]
    congr 1; nlinarith
  have hkey : a2 = 4 * (1 - h ^ 2) := by
    rw [hhsq]
    field_simp
    have hs2 : s ^ 2 = 1 - (P.1 * Q.1 + P.2 * Q.2) * (P.1 * Q.1 + P.2 * Q.2) := by rw [sq]; exact hlag
    rw [hs2, ha2c]; ring
  have hh2 : h ^ 2 < 1 := by linarith [hkey, hne]
  have hh1 : h ≤ 1 := by
    by_contra hc
    push Not at hc
    have h3 : 1 * 1 < h * h := mul_lt_mul'' hc hc (by norm_num) (by norm_num)
    rw [sq] at hh2; linarith
  have hhm1 : -1 ≤ h := by
    by_contra hc
    push Not at hc
    have h3 : 1 * 1 < (-h) * (-h) := mul_lt_mul'' (by linarith) (by linarith) (by norm_num) (by norm_num)
    rw [sq] at hh2; linarith
  have hset : {p : ℝ × ℝ | 0 ≤ k * orient P Q p} = {p : ℝ × ℝ | h ≤ n.1 * p.1 + n.2 * p.2} := by
    ext p
    simp only [Set.mem_ofPred_eq]
    have e : σ * orient P Q p = a * ((n.1 * p.1 + n.2 * p.2) - h) := by
      rw [hn, hh, hs]; simp only; unfold orient cross
      field_simp
      ring
    have e2 : k * orient P Q p = (σ * k) * (σ * orient P Q p) := by
      rw [show (σ * k) * (σ * orient P Q p) = (σ * σ) * (k * orient P Q p) by ring, hσ, one_mul]
    rw [e2, e]
    constructor
    · intro hk'
      have := nonneg_of_mul_nonneg_right hk' hσk
      have := nonneg_of_mul_nonneg_right this hapos
      linarith
    · intro hk'
      exact mul_nonneg hσk.le (mul_nonneg hapos.le (by linarith))
  rw [hset, volume_cap n h hnn hhm1 hh1]
  congr 1
  -- sign of h versus the test `k * s ≤ 0`
  have hsign : k * s ≤ 0 ↔ 0 ≤ h := by
    have e3 : k * s = (σ * k) * (σ * s) := by
      rw [show (σ * k) * (σ * s) = (σ * σ) * (k * s) by ring, hσ, one_mul]
    rw [e3, hh]
    constructor
    · intro hle
      have : σ * s ≤ 0 := by
        by_contra hn'; push Not at hn'
        have := mul_pos hσk hn'
        linarith
      exact div_nonneg (by linarith) hapos.le
    · intro hge
      have : 0 ≤ -(σ * s) := by
        by_contra hn'; push Not at hn'
        have := div_neg_of_neg_of_pos hn' hapos
        linarith
      exact mul_nonpos_of_nonneg_of_nonpos hσk.le (by linarith)
  by_cases hc : k * s ≤ 0
  · rw [if_pos hc]
    exact (areaArcUnit_eq_capArea P.1 P.2 Q.1 Q.2 h (hsign.mp hc) (by rw [← ha2]; exact hkey)).symm
  · rw [if_neg hc]
    have hneg : 0 ≤ -h := by
      have : ¬ 0 ≤ h := fun h0 => hc (hsign.mpr h0)
      push Not at this; linarith
    have := areaArcUnit_eq_capArea P.1 P.2 Q.1 Q.2 (-h) hneg (by rw [← ha2, neg_sq]; exact hkey)
    rw [this, capArea_neg]; ring

/-! ### one vertex inside, the far edge misses the disk (geometry) -/

theorem orient_chord_formula (A B C X : ℝ × ℝ) (t u : ℝ) :
    orient (lerp A B t) (lerp A C u) X =
      t * u * orient B C X - (1 - t) * u * orient C A X - t * (1 - u) * orient A B X := by
  unfold orient lerp; ring

/-- (1) the part of the triangle on `A`'s side of the chord `P3 P4` is the triangle `A P3 P4`. -/
theorem tri_clip (A B C : ℝ × ℝ) (t u : ℝ) (hD : orient A B C ≠ 0)
    (ht0 : 0 < t) (ht1 : t < 1) (hu0 : 0 < u) (hu1 : u < 1) :
    triSet A B C ∩ {X | 0 ≤ orient (lerp A B t) (lerp A C u) A * orient (lerp A B t) (lerp A C u) X} =
      triSet A (lerp A B t) (lerp A C u) := by
  set D := orient A B C with hDdef
  have oA : orient (lerp A B t) (lerp A C u) A = t * u * D := by rw [hDdef]; unfold orient lerp; ring
  have oT : orient A (lerp A B t) (lerp A C u) = t * u * D := by rw [hDdef]; unfold orient lerp; ring
  have htu : 0 < t * u := mul_pos ht0 hu0
  ext X
  rw [Set.mem_inter_iff, mem_triSet_iff _ _ _ _ hD, mem_triSet_iff _ _ _ _ (by rw [oT]; exact mul_ne_zero htu.ne' hD),
    oT, Set.mem_ofPred_eq, oA]
  have e1 : orient (lerp A C u) A X = u * orient C A X := by unfold orient lerp; ring
  have e2 : orient A (lerp A B t) X = t * orient A B X := by unfold orient lerp; ring
  have e3 := orient_chord_formula A B C X t u
  rw [e1, e2]
  set g := orient (lerp A B t) (lerp A C u) X with hg
  set α := orient B C X
  set β := orient C A X
  set γ := orient A B X
  have r1 : t * u * D * g = (t * u) * (D * g) := by ring
  have r2 : t * u * D * (u * β) = (t * u * u) * (D * β) := by ring
  have r3 : t * u * D * (t * γ) = (t * u * t) * (D * γ) := by ring
  rw [r1, r2, r3]
  have p2 : 0 < t * u * u := by positivity
  have p3 : 0 < t * u * t := by positivity
  have hv : 0 < 1 - t := by linarith
  have hw : 0 < 1 - u := by linarith
  constructor
  · rintro ⟨⟨a, b, c⟩, d⟩
    exact ⟨d, mul_nonneg p2.le b, mul_nonneg p3.le c⟩
  · rintro ⟨d, b, c⟩
    have b' := nonneg_of_mul_nonneg_right b p2
    have c' := nonneg_of_mul_nonneg_right c p3
    have d' := nonneg_of_mul_nonneg_right d htu
    refine ⟨⟨?_, b', c'⟩, d⟩
    have : (t * u) * (D * α) = D * g + ((1 - t) * u) * (D * β) + (t * (1 - u)) * (D * γ) := by
      rw [e3]; ring
    have h2 : 0 ≤ (t * u) * (D * α) := by
      rw [this]
      have := mul_nonneg (mul_pos hv hu0).le b'
      have := mul_nonneg (mul_pos ht0 hw).le c'
      linarith
    exact nonneg_of_mul_nonneg_right h2 htu

/-- the segment from the inside point `A` towards `B` points out of the disk at its crossing. -/
theorem dot_dir_pos (A B : ℝ × ℝ) (t : ℝ) (ht0 : 0 < t)
    (hA : A.1 ^ 2 + A.2 ^ 2 < 1) (hP : (lerp A B t).1 ^ 2 + (lerp A B t).2 ^ 2 = 1) :
    0 ≤ dot (B.1 - A.1, B.2 - A.2) (lerp A B t) := by
  set P := lerp A B t with hPdef
  have hx : t * (B.1 - A.1) = P.1 - A.1 := by rw [hPdef]; unfold lerp; ring
  have hy : t * (B.2 - A.2) = P.2 - A.2 := by rw [hPdef]; unfold lerp; ring
  have e3 : t * ((B.1 - A.1) * P.1 + (B.2 - A.2) * P.2) = 1 - (A.1 * P.1 + A.2 * P.2) := by
    have : t * ((B.1 - A.1) * P.1 + (B.2 - A.2) * P.2) = (P.1 - A.1) * P.1 + (P.2 - A.2) * P.2 := by
      rw [← hx, ← hy]; ring
    rw [this]; linear_combination hP
  have e4 : A.1 * P.1 + A.2 * P.2 < 1 := by nlinarith [sq_nonneg (A.1 - P.1), sq_nonneg (A.2 - P.2)]
  unfold dot; simp only
  by_contra hn; push Not at hn
  have := mul_neg_of_pos_of_neg ht0 hn
  linarith

/-- (2a) a point of the disk beyond the chord is on the inner side of the line `A B`. -/
theorem far_side_AB (A B C X : ℝ × ℝ) (t u : ℝ) (hD : orient A B C ≠ 0)
    (ht0 : 0 < t) (hu0 : 0 < u)
    (hA : A.1 ^ 2 + A.2 ^ 2 < 1)
    (hP3 : (lerp A B t).1 ^ 2 + (lerp A B t).2 ^ 2 = 1)
    (hP4 : (lerp A C u).1 ^ 2 + (lerp A C u).2 ^ 2 = 1)
    (hX : X ∈ disk) (hfar : orient A B C * orient (lerp A B t) (lerp A C u) X ≤ 0) :
    0 ≤ orient A B C * orient A B X := by
  by_contra hneg
  push Not at hneg
  set P3 := lerp A B t with hP3def
  set P4 := lerp A C u with hP4def
  have hdir := dot_dir_pos A B t ht0 hA hP3
  rw [← hP3def] at hdir
  have hchord : 0 ≤ dot (P3.1 - P4.1, P3.2 - P4.2) P3 := by
    unfold dot; simp only
    nlinarith [sq_nonneg (P3.1 - P4.1), sq_nonneg (P3.2 - P4.2)]
  have hcr : cross (B.1 - A.1, B.2 - A.2) (P3.1 - P4.1, P3.2 - P4.2) = -(u * orient A B C) := by
    rw [hP3def, hP4def]; unfold cross orient lerp; simp only; ring
  have hc1 : cross (X.1 - P3.1, X.2 - P3.2) (P3.1 - P4.1, P3.2 - P4.2) = orient P3 P4 X := by
    unfold cross orient; simp only; ring
  have hc2 : cross (B.1 - A.1, B.2 - A.2) (X.1 - P3.1, X.2 - P3.2) = orient A B X := by
    rw [hP3def]; unfold cross orient lerp; simp only; ring
  apply cone_outside P3 X (B.1 - A.1, B.2 - A.2) (P3.1 - P4.1, P3.2 - P4.2) hP3 hdir hchord _ _ _ hX
  · rw [hcr]; exact neg_ne_zero.mpr (mul_ne_zero hu0.ne' hD)
  · rw [hcr, hc1]
    have : -(u * orient A B C) * orient P3 P4 X = u * (-(orient A B C * orient P3 P4 X)) := by ring
    rw [this]; exact mul_nonneg hu0.le (by linarith)
  · rw [hcr, hc2]
    have : -(u * orient A B C) * orient A B X = u * (-(orient A B C * orient A B X)) := by ring
    rw [this]; exact mul_nonneg hu0.le (by linarith)

/-- (2b) … and on the inner side of the line `A C`. -/
theorem far_side_CA (A B C X : ℝ × ℝ) (t u : ℝ) (hD : orient A B C ≠ 0)
    (ht0 : 0 < t) (hu0 : 0 < u)
    (hA : A.1 ^ 2 + A.2 ^ 2 < 1)
    (hP3 : (lerp A B t).1 ^ 2 + (lerp A B t).2 ^ 2 = 1)
    (hP4 : (lerp A C u).1 ^ 2 + (lerp A C u).2 ^ 2 = 1)
    (hX : X ∈ disk) (hfar : orient A B C * orient (lerp A B t) (lerp A C u) X ≤ 0) :
    0 ≤ orient A B C * orient C A X := by
  by_contra hneg
  push Not at hneg
  set P3 := lerp A B t with hP3def
  set P4 := lerp A C u with hP4def
  have hdir := dot_dir_pos A C u hu0 hA hP4
  rw [← hP4def] at hdir
  have hchord : 0 ≤ dot (P4.1 - P3.1, P4.2 - P3.2) P4 := by
    unfold dot; simp only
    nlinarith [sq_nonneg (P3.1 - P4.1), sq_nonneg (P3.2 - P4.2)]
  have hcr : cross (C.1 - A.1, C.2 - A.2) (P4.1 - P3.1, P4.2 - P3.2) = t * orient A B C := by
    rw [hP3def, hP4def]; unfold cross orient lerp; simp only; ring
  have hc1 : cross (X.1 - P4.1, X.2 - P4.2) (P4.1 - P3.1, P4.2 - P3.2) = -orient P3 P4 X := by
    unfold cross orient; simp only; ring
  have hc2 : cross (C.1 - A.1, C.2 - A.2) (X.1 - P4.1, X.2 - P4.2) = -orient C A X := by
    rw [hP4def]; unfold cross orient lerp; simp only; ring
  apply cone_outside P4 X (C.1 - A.1, C.2 - A.2) (P4.1 - P3.1, P4.2 - P3.2) hP4 hdir hchord _ _ _ hX
  · rw [hcr]; exact mul_ne_zero ht0.ne' hD
  · rw [hcr, hc1]
    have : t * orient A B C * -orient P3 P4 X = t * (-(orient A B C * orient P3 P4 X)) := by ring
    rw [this]; exact mul_nonneg ht0.le (by linarith)
  · rw [hcr, hc2]
    have : t * orient A B C * -orient C A X = t * (-(orient A B C * orient C A X)) := by ring
    rw [this]; exact mul_nonneg ht0.le (by linarith)

/-- (2c) … and on the inner side of the line `B C`, because the segment `B C` misses the disk
(the segment from `A` to a point beyond `B C` would cross it inside the disk). -/
theorem far_side_BC (A B C X : ℝ × ℝ) (hD : orient A B C ≠ 0)
    (hA : A.1 ^ 2 + A.2 ^ 2 < 1) (hX : X ∈ disk)
    (hb : 0 ≤ orient A B C * orient C A X) (hc : 0 ≤ orient A B C * orient A B X)
    (hBC : ∀ s : ℝ, 0 ≤ s → s ≤ 1 → 1 ≤ (lerp B C s).1 ^ 2 + (lerp B C s).2 ^ 2) :
    0 ≤ orient A B C * orient B C X := by
  by_contra hneg
  push Not at hneg
  simp only [disk, Set.mem_ofPred_eq] at hX
  set D := orient A B C with hDdef
  set α := orient B C X with hα
  set β := orient C A X with hβ
  set γ := orient A B X with hγ
  have hsum : α + β + γ = D := by rw [hα, hβ, hγ, hDdef]; unfold orient; ring
  have bx : D * X.1 = α * A.1 + β * B.1 + γ * C.1 := by rw [hα, hβ, hγ, hDdef]; unfold orient; ring
  have by' : D * X.2 = α * A.2 + β * B.2 + γ * C.2 := by rw [hα, hβ, hγ, hDdef]; unfold orient; ring
  have hD2 : 0 < D * D := mul_self_pos.mpr hD
  set den := D - α with hden
  have hDden : 0 < D * den := by rw [hden]; nlinarith
  have hdenne : den ≠ 0 := by intro h0; rw [h0, mul_zero] at hDden; exact lt_irrefl _ hDden
  have hden2 : 0 < den * den := mul_self_pos.mpr hdenne
  have hs0 : 0 ≤ γ / den := by
    have : γ / den = (D * γ) / (D * den) := by field_simp
    rw [this]; exact div_nonneg hc hDden.le
  have hs1 : γ / den ≤ 1 := by
    have : 1 - γ / den = (D * β) / (D * den) := by
      have : β = den - γ := by rw [hden]; linarith
      rw [this]; field_simp
    have h2 : 0 ≤ 1 - γ / den := by rw [this]; exact div_nonneg hb hDden.le
    linarith
  have hY := hBC (γ / den) hs0 hs1
  have y1 : den * (lerp B C (γ / den)).1 = D * X.1 - α * A.1 := by
    unfold lerp; simp only
    have : den * (B.1 + γ / den * (C.1 - B.1)) = (den - γ) * B.1 + γ * C.1 := by field_simp; ring
    have hβ' : den - γ = β := by rw [hden]; linarith
    rw [this, bx, hβ']; ring
  have y2 : den * (lerp B C (γ / den)).2 = D * X.2 - α * A.2 := by
    unfold lerp; simp only
    have : den * (B.2 + γ / den * (C.2 - B.2)) = (den - γ) * B.2 + γ * C.2 := by field_simp; ring
    have hβ' : den - γ = β := by rw [hden]; linarith
    rw [this, by', hβ']; ring
  set Y := lerp B C (γ / den) with hYdef
  have key : den * den * (Y.1 ^ 2 + Y.2 ^ 2) =
      D * D * (X.1 ^ 2 + X.2 ^ 2) - 2 * (D * α) * (X.1 * A.1 + X.2 * A.2) + α * α * (A.1 ^ 2 + A.2 ^ 2) := by
    have : den * den * (Y.1 ^ 2 + Y.2 ^ 2) = (den * Y.1) ^ 2 + (den * Y.2) ^ 2 := by ring
    rw [this, y1, y2]; ring
  have hXA : X.1 * A.1 + X.2 * A.2 < 1 := by nlinarith [sq_nonneg (X.1 - A.1), sq_nonneg (X.2 - A.2)]
  have h1 : den * den ≤ den * den * (Y.1 ^ 2 + Y.2 ^ 2) := by nlinarith
  have h2 : den * den = D * D - 2 * (D * α) + α * α := by rw [hden]; ring
  have t1 : 0 < D * D * (1 - (X.1 ^ 2 + X.2 ^ 2)) := mul_pos hD2 (by linarith)
  have t2 : 0 ≤ α * α * (1 - (A.1 ^ 2 + A.2 ^ 2)) := mul_nonneg (mul_self_nonneg _) (by linarith)
  have t3 : 0 < -(D * α) * (1 - (X.1 * A.1 + X.2 * A.2)) := mul_pos (by linarith) (by linarith)
  nlinarith

/-- **one vertex inside, the far edge outside the disk** (geometry): triangle `A P3 P4` plus the
part of the disk beyond the chord `P3 P4` (minor or major segment according to the side of the
centre). -/
theorem oneIn_noChord_geometry (A B C : ℝ × ℝ) (t u : ℝ) (hD : orient A B C ≠ 0)
    (ht0 : 0 < t) (ht1 : t < 1) (hu0 : 0 < u) (hu1 : u < 1)
    (hA : A.1 ^ 2 + A.2 ^ 2 < 1)
    (hP3 : (lerp A B t).1 ^ 2 + (lerp A B t).2 ^ 2 = 1)
    (hP4 : (lerp A C u).1 ^ 2 + (lerp A C u).2 ^ 2 = 1)
    (hBC : ∀ s : ℝ, 0 ≤ s → s ≤ 1 → 1 ≤ (lerp B C s).1 ^ 2 + (lerp B C s).2 ^ 2) :
    volume (triSet A B C ∩ disk) =
      ENNReal.ofReal (areaTriangle A.1 A.2 (lerp A B t).1 (lerp A B t).2 (lerp A C u).1 (lerp A C u).2) +
      ENNReal.ofReal (if 0 ≤ orient (lerp A B t) (lerp A C u) A * cross (lerp A B t) (lerp A C u)
        then areaArcUnit (lerp A B t).1 (lerp A B t).2 (lerp A C u).1 (lerp A C u).2
        else Real.pi - areaArcUnit (lerp A B t).1 (lerp A B t).2 (lerp A C u).1 (lerp A C u).2) := by
  set P3 := lerp A B t with hP3def
  set P4 := lerp A C u with hP4def
  set D := orient A B C with hDdef
  have oA : orient P3 P4 A = t * u * D := by rw [hP3def, hP4def, hDdef]; unfold orient lerp; ring
  have htu : 0 < t * u := mul_pos ht0 hu0
  have oAne : orient P3 P4 A ≠ 0 := by rw [oA]; exact mul_ne_zero htu.ne' hD
  have oT : orient A P3 P4 = t * u * D := by rw [hP3def, hP4def, hDdef]; unfold orient lerp; ring
  -- cut T ∩ disk by the chord
  set H : Set (ℝ × ℝ) := {X | 0 ≤ orient P3 P4 A * orient P3 P4 X} with hH
  have hHm : MeasurableSet H := by
    rw [hH]; unfold orient
    exact measurableSet_le measurable_const (by fun_prop)
  have hsplit : volume (triSet A B C ∩ disk) =
      volume (triSet A B C ∩ disk ∩ H) + volume ((triSet A B C ∩ disk) \ H) :=
    (measure_inter_add_sdiff _ hHm).symm
  have h1 : triSet A B C ∩ disk ∩ H = triSet A P3 P4 ∩ disk := by
    have := tri_clip A B C t u hD ht0 ht1 hu0 hu1
    rw [← hP3def, ← hP4def] at this
    rw [← this]; ext X; simp only [Set.mem_inter_iff, hH]; tauto
  -- beyond the chord, the disk is inside the triangle
  have hne : 0 < (P4.1 - P3.1) ^ 2 + (P4.2 - P3.2) ^ 2 := by
    by_contra hn; push Not at hn
    have e1 : P4.1 - P3.1 = 0 := by nlinarith [sq_nonneg (P4.1 - P3.1), sq_nonneg (P4.2 - P3.2)]
    have e2 : P4.2 - P3.2 = 0 := by nlinarith [sq_nonneg (P4.1 - P3.1), sq_nonneg (P4.2 - P3.2)]
    apply oAne; unfold orient; rw [e1, e2]; ring
  have h2 : (triSet A B C ∩ disk) \ H = ({X | 0 ≤ -(orient P3 P4 A) * orient P3 P4 X} ∩ disk) \
      {X | orient P3 P4 X = 0} := by
    ext X
    simp only [Set.mem_sdiff, Set.mem_inter_iff, hH, Set.mem_ofPred_eq, not_le]
    constructor
    · rintro ⟨⟨hT, hd⟩, hneg⟩
      refine ⟨⟨by linarith, hd⟩, ?_⟩
      intro h0; rw [h0, mul_zero] at hneg; exact lt_irrefl _ hneg
    · rintro ⟨⟨hle, hd⟩, hnz⟩
      have hlt : orient P3 P4 A * orient P3 P4 X < 0 := by
        rcases (show orient P3 P4 A * orient P3 P4 X ≤ 0 by linarith).lt_or_eq with h | h
        · exact h
        · exfalso; rcases mul_eq_zero.mp h with h | h
          · exact oAne h
          · exact hnz h
      refine ⟨⟨?_, hd⟩, hlt⟩
      have hfar : D * orient P3 P4 X ≤ 0 := by
        rw [oA] at hlt
        have : t * u * D * orient P3 P4 X = (t * u) * (D * orient P3 P4 X) := by ring
        rw [this] at hlt
        by_contra hn; push Not at hn
        have := mul_pos htu hn
        linarith
      have c := far_side_AB A B C X t u hD ht0 hu0 hA hP3 hP4 hd hfar
      have b := far_side_CA A B C X t u hD ht0 hu0 hA hP3 hP4 hd hfar
      have a := far_side_BC A B C X hD hA hd b c hBC
      rw [mem_triSet_iff _ _ _ _ hD]
      exact ⟨a, b, c⟩
  have hline : volume {X : ℝ × ℝ | orient P3 P4 X = 0} = 0 := by
    have : {X : ℝ × ℝ | orient P3 P4 X = 0} =
        {p : ℝ × ℝ | (-(P4.2 - P3.2)) * p.1 + (P4.1 - P3.1) * p.2 = -(P4.2 - P3.2) * P3.1 + (P4.1 - P3.1) * P3.2} := by
      ext p; simp only [Set.mem_ofPred_eq, orient]
      constructor <;> intro h <;> linarith
    rw [this]
    apply volume_line
    by_contra hc
    push Not at hc
    have e1 : P4.2 - P3.2 = 0 := by linarith [hc.1]
    rw [hc.2, e1] at hne; simp at hne
  have h3 : volume (({X | 0 ≤ -(orient P3 P4 A) * orient P3 P4 X} ∩ disk) \ {X | orient P3 P4 X = 0}) =
      volume ({X | 0 ≤ -(orient P3 P4 A) * orient P3 P4 X} ∩ disk) :=
    measure_sdiff_null hline
  rw [hsplit, h1, h2, h3,
    volume_triSet_inter_disk_of_inside A P3 P4 (by rw [oT]; exact mul_ne_zero htu.ne' hD) hA.le hP3.le hP4.le,
    volume_chord_side P3 P4 (-(orient P3 P4 A)) hP3 hP4 hne (neg_ne_zero.mpr oAne)]
  congr 2
  have : (-(orient P3 P4 A) * cross P3 P4 ≤ 0) ↔ (0 ≤ orient P3 P4 A * cross P3 P4) := by
    constructor <;> intro h <;> linarith
  simp only [this]

end RegionsVerif.Props.C03E
