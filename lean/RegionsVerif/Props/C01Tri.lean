/-
C01 (polygons, triangles) — the even-odd implementation `Impl.pnpoly` is CORRECT for every
non-degenerate triangle: `true` at every point of the open triangle (strict convex combinations of
the vertices), `false` at every point off the closed triangle, for both orientations; and the
answer is invariant under rotation away from the boundary (C15).  No Jordan-curve argument is
needed: eight cases of which vertices lie above the horizontal through the point, the
division-free crossing test, and the barycentric identity in `y`.
-/
import RegionsVerif.Props.C01Cyclic
import Mathlib.Tactic.Linarith
import Mathlib.Tactic.Ring
import Mathlib.Tactic.Tauto
import Mathlib.Tactic.FieldSimp
import Mathlib.Tactic.Positivity
import Mathlib.Tactic.LinearCombination

namespace RegionsVerif.Props.C01
open RegionsVerif.Impl

section field
variable {α : Type} [Field α] [LinearOrder α] [IsStrictOrderedRing α]

/-- orientation determinant: positive iff `p` is strictly left of the directed line `u → v`. -/
def orient (u v p : Pt α) : α := (v.x - u.x) * (p.y - u.y) - (v.y - u.y) * (p.x - u.x)

theorem pnpoly_tri (a b c p : Pt α) :
    pnpoly [a, b, c] p = (edgeCross p a c ^^ (edgeCross p b a ^^ edgeCross p c b)) := by
  have hp : cyclicPairs [a, b, c] = [(a, c), (b, a), (c, b)] := rfl
  unfold pnpoly pnpolyCount
  rw [hp]
  simp only [List.filter]
  cases edgeCross p a c <;> cases edgeCross p b a <;> cases edgeCross p c b <;> simp

theorem orient_swap (u v p : Pt α) : orient v u p = -orient u v p := by unfold orient; ring

theorem orient_cycle (a b c : Pt α) : orient b c a = orient a b c := by unfold orient; ring

theorem orient_sum (a b c p : Pt α) : orient a b p + orient b c p + orient c a p = orient a b c := by
  unfold orient; ring

/-- barycentric identity in `y`: `Σ λᵢ (p.y − vᵢ.y) = 0` with `λ_a = orient b c p`, …. -/
theorem bary_y (a b c p : Pt α) :
    orient b c p * (p.y - a.y) + orient c a p * (p.y - b.y) + orient a b p * (p.y - c.y) = 0 := by
  unfold orient; ring

theorem edgeCross_none (p vi vj : Pt α) (h : (vi.y > p.y) ↔ (vj.y > p.y)) : edgeCross p vi vj = false := by
  unfold edgeCross
  by_cases h1 : vi.y > p.y
  · simp [h1, h.mp h1]
  · have h2 : ¬ vj.y > p.y := fun h' => h1 (h.mpr h')
    simp [h1, h2]

theorem edgeCross_up (p vi vj : Pt α) (h1 : ¬ vi.y > p.y) (h2 : vj.y > p.y) :
    edgeCross p vi vj = decide (0 < orient vi vj p) := by
  have hs : straddles p vi vj = true := by unfold straddles; simp [h1, h2]
  have hlt : vi.y < vj.y := lt_of_le_of_lt (not_lt.mp h1) h2
  have := edgeCross_orient p vi vj hs
  rw [if_pos hlt] at this
  rw [Bool.eq_iff_iff, this, decide_eq_true_iff]
  unfold orient
  constructor <;> intro h <;> linarith

theorem edgeCross_down (p vi vj : Pt α) (h1 : vi.y > p.y) (h2 : ¬ vj.y > p.y) :
    edgeCross p vi vj = decide (orient vi vj p < 0) := by
  have hs : straddles p vi vj = true := by unfold straddles; simp [h1, h2]
  have hlt : ¬ vi.y < vj.y := not_lt.mpr (le_trans (not_lt.mp h2) (le_of_lt h1))
  have := edgeCross_orient p vi vj hs
  rw [if_neg hlt] at this
  rw [Bool.eq_iff_iff, this, decide_eq_true_iff]
  unfold orient
  constructor <;> intro h <;> linarith

/-- `a` is the only vertex strictly above the horizontal line through `p`. -/
theorem tri_one_above (a b c p : Pt α) (hD : 0 < orient a b c)
    (ha : a.y > p.y) (hb : ¬ b.y > p.y) (hc : ¬ c.y > p.y) :
    ((0 < orient a b p ∧ 0 < orient b c p ∧ 0 < orient c a p) → pnpoly [a, b, c] p = true) ∧
    ((orient a b p < 0 ∨ orient b c p < 0 ∨ orient c a p < 0) → pnpoly [a, b, c] p = false) := by
  have e1 := edgeCross_down p a c ha hc
  have e2 := edgeCross_up p b a hb ha
  have e3 := edgeCross_none p c b (by constructor <;> intro h <;> contradiction)
  rw [orient_swap c a p] at e1
  rw [orient_swap a b p] at e2
  have hsum := orient_sum a b c p
  have hbary := bary_y a b c p
  have hb' := not_lt.mp hb
  have hc' := not_lt.mp hc
  rw [pnpoly_tri, e1, e2, e3]
  constructor
  · rintro ⟨hlc, hla, hlb⟩
    have h1 : ¬ orient a b p < 0 := not_lt.mpr (le_of_lt hlc)
    simp [hlb, h1]
  · intro hout
    by_cases hlb : 0 < orient c a p <;> by_cases hlc : orient a b p < 0
    · simp [hlb, hlc]
    · exfalso
      have hlc' := not_lt.mp hlc
      have hla : orient b c p < 0 := by
        rcases hout with h | h | h
        · exact absurd h hlc
        · exact h
        · linarith
      nlinarith [mul_pos_of_neg_of_neg hla (show p.y - a.y < 0 by linarith),
        mul_nonneg (le_of_lt hlb) (show 0 ≤ p.y - b.y by linarith),
        mul_nonneg hlc' (show 0 ≤ p.y - c.y by linarith)]
    · exfalso
      have hlb' := not_lt.mp hlb
      have hla : 0 < orient b c p := by linarith
      nlinarith [mul_neg_of_pos_of_neg hla (show p.y - a.y < 0 by linarith),
        mul_nonpos_of_nonpos_of_nonneg hlb' (show 0 ≤ p.y - b.y by linarith),
        mul_nonpos_of_nonpos_of_nonneg (le_of_lt hlc) (show 0 ≤ p.y - c.y by linarith)]
    · simp [hlb, hlc]

/-- `a` is the only vertex NOT strictly above the horizontal line through `p`. -/
theorem tri_one_below (a b c p : Pt α) (hD : 0 < orient a b c)
    (ha : ¬ a.y > p.y) (hb : b.y > p.y) (hc : c.y > p.y) :
    ((0 < orient a b p ∧ 0 < orient b c p ∧ 0 < orient c a p) → pnpoly [a, b, c] p = true) ∧
    ((orient a b p < 0 ∨ orient b c p < 0 ∨ orient c a p < 0) → pnpoly [a, b, c] p = false) := by
  have e1 := edgeCross_up p a c ha hc
  have e2 := edgeCross_down p b a hb ha
  have e3 := edgeCross_none p c b (by constructor <;> intro _ <;> assumption)
  rw [orient_swap c a p] at e1
  rw [orient_swap a b p] at e2
  have hsum := orient_sum a b c p
  have hbary := bary_y a b c p
  have ha' := not_lt.mp ha
  rw [pnpoly_tri, e1, e2, e3]
  constructor
  · rintro ⟨hlc, hla, hlb⟩
    have h1 : ¬ orient c a p < 0 := not_lt.mpr (le_of_lt hlb)
    simp [hlc, h1]
  · intro hout
    by_cases hlb : orient c a p < 0 <;> by_cases hlc : 0 < orient a b p
    · simp [hlb, hlc]
    · exfalso
      have hlc' := not_lt.mp hlc
      have hla : 0 < orient b c p := by linarith
      nlinarith [mul_nonneg (le_of_lt hla) (show 0 ≤ p.y - a.y by linarith),
        mul_pos_of_neg_of_neg hlb (show p.y - b.y < 0 by linarith),
        mul_nonneg_of_nonpos_of_nonpos hlc' (show p.y - c.y ≤ 0 by linarith)]
    · exfalso
      have hlb' := not_lt.mp hlb
      have hla : orient b c p < 0 := by
        rcases hout with h | h | h
        · linarith
        · exact h
        · exact absurd h hlb
      nlinarith [mul_nonpos_of_nonpos_of_nonneg (le_of_lt hla) (show 0 ≤ p.y - a.y by linarith),
        mul_nonpos_of_nonneg_of_nonpos hlb' (show p.y - b.y ≤ 0 by linarith),
        mul_neg_of_pos_of_neg hlc (show p.y - c.y < 0 by linarith)]
    · simp [hlb, hlc]

theorem tri_all_above (a b c p : Pt α) (ha : a.y > p.y) (hb : b.y > p.y) (hc : c.y > p.y) :
    pnpoly [a, b, c] p = false ∧ ¬ (0 < orient a b p ∧ 0 < orient b c p ∧ 0 < orient c a p) := by
  have e1 := edgeCross_none p a c (by constructor <;> intro _ <;> assumption)
  have e2 := edgeCross_none p b a (by constructor <;> intro _ <;> assumption)
  have e3 := edgeCross_none p c b (by constructor <;> intro _ <;> assumption)
  refine ⟨by rw [pnpoly_tri, e1, e2, e3]; rfl, ?_⟩
  rintro ⟨hlc, hla, hlb⟩
  have hbary := bary_y a b c p
  nlinarith [mul_neg_of_pos_of_neg hla (show p.y - a.y < 0 by linarith),
    mul_neg_of_pos_of_neg hlb (show p.y - b.y < 0 by linarith),
    mul_neg_of_pos_of_neg hlc (show p.y - c.y < 0 by linarith)]

theorem tri_none_above (a b c p : Pt α) (hD : orient a b c ≠ 0)
    (ha : ¬ a.y > p.y) (hb : ¬ b.y > p.y) (hc : ¬ c.y > p.y) :
    pnpoly [a, b, c] p = false ∧ ¬ (0 < orient a b p ∧ 0 < orient b c p ∧ 0 < orient c a p) := by
  have e1 := edgeCross_none p a c (by constructor <;> intro h <;> contradiction)
  have e2 := edgeCross_none p b a (by constructor <;> intro h <;> contradiction)
  have e3 := edgeCross_none p c b (by constructor <;> intro h <;> contradiction)
  refine ⟨by rw [pnpoly_tri, e1, e2, e3]; rfl, ?_⟩
  rintro ⟨hlc, hla, hlb⟩
  have hbary := bary_y a b c p
  have ha' := not_lt.mp ha
  have hb' := not_lt.mp hb
  have hc' := not_lt.mp hc
  have t1 := mul_nonneg (le_of_lt hla) (show 0 ≤ p.y - a.y by linarith)
  have t2 := mul_nonneg (le_of_lt hlb) (show 0 ≤ p.y - b.y by linarith)
  have t3 := mul_nonneg (le_of_lt hlc) (show 0 ≤ p.y - c.y by linarith)
  have z1 : orient b c p * (p.y - a.y) = 0 := by linarith
  have z2 : orient c a p * (p.y - b.y) = 0 := by linarith
  have z3 : orient a b p * (p.y - c.y) = 0 := by linarith
  have y1 := (mul_eq_zero.mp z1).resolve_left (ne_of_gt hla)
  have y2 := (mul_eq_zero.mp z2).resolve_left (ne_of_gt hlb)
  have y3 := (mul_eq_zero.mp z3).resolve_left (ne_of_gt hlc)
  apply hD
  unfold orient
  rw [show b.y = a.y by linarith, show c.y = a.y by linarith]
  ring

def triInside (a b c p : Pt α) : Prop := 0 < orient a b p ∧ 0 < orient b c p ∧ 0 < orient c a p
def triOutside (a b c p : Pt α) : Prop := orient a b p < 0 ∨ orient b c p < 0 ∨ orient c a p < 0

/-- **Counter-clockwise triangles**: the even-odd implementation answers `true` at every point
strictly inside and `false` at every point strictly outside (points on the three edge lines that
belong to the closed triangle are the boundary, where the answer is a convention). -/
theorem pnpoly_triangle_ccw (a b c p : Pt α) (hD : 0 < orient a b c) :
    (triInside a b c p → pnpoly [a, b, c] p = true) ∧ (triOutside a b c p → pnpoly [a, b, c] p = false) := by
  have r1 : pnpoly [b, c, a] p = pnpoly [a, b, c] p := pnpoly_rotate [a, b, c] 1 p
  have r2 : pnpoly [c, a, b] p = pnpoly [a, b, c] p := pnpoly_rotate [a, b, c] 2 p
  have hD1 : 0 < orient b c a := by rw [orient_cycle]; exact hD
  have hD2 : 0 < orient c a b := by rw [orient_cycle, orient_cycle]; exact hD
  unfold triInside triOutside
  by_cases ha : a.y > p.y <;> by_cases hb : b.y > p.y <;> by_cases hc : c.y > p.y
  · have := tri_all_above a b c p ha hb hc
    exact ⟨fun h => absurd h this.2, fun _ => this.1⟩
  · have := tri_one_below c a b p hD2 hc ha hb
    rw [r2] at this
    exact ⟨fun h => this.1 ⟨h.2.2, h.1, h.2.1⟩, fun h => this.2 (by tauto)⟩
  · have := tri_one_below b c a p hD1 hb hc ha
    rw [r1] at this
    exact ⟨fun h => this.1 ⟨h.2.1, h.2.2, h.1⟩, fun h => this.2 (by tauto)⟩
  · exact tri_one_above a b c p hD ha hb hc
  · exact tri_one_below a b c p hD ha hb hc
  · have := tri_one_above b c a p hD1 hb hc ha
    rw [r1] at this
    exact ⟨fun h => this.1 ⟨h.2.1, h.2.2, h.1⟩, fun h => this.2 (by tauto)⟩
  · have := tri_one_above c a b p hD2 hc ha hb
    rw [r2] at this
    exact ⟨fun h => this.1 ⟨h.2.2, h.1, h.2.1⟩, fun h => this.2 (by tauto)⟩
  · have := tri_none_above a b c p (ne_of_gt hD) ha hb hc
    exact ⟨fun h => absurd h this.2, fun _ => this.1⟩

/-- **Clockwise triangles**: the same, with all signs reversed (by `pnpoly_reverse`). -/
theorem pnpoly_triangle_cw (a b c p : Pt α) (hD : orient a b c < 0) :
    ((orient a b p < 0 ∧ orient b c p < 0 ∧ orient c a p < 0) → pnpoly [a, b, c] p = true) ∧
    ((0 < orient a b p ∨ 0 < orient b c p ∨ 0 < orient c a p) → pnpoly [a, b, c] p = false) := by
  have hr : pnpoly [c, b, a] p = pnpoly [a, b, c] p := pnpoly_reverse [a, b, c] p
  have hD' : 0 < orient c b a := by
    rw [orient_swap b c a, orient_cycle]; linarith
  have := pnpoly_triangle_ccw c b a p hD'
  unfold triInside triOutside at this
  rw [hr, orient_swap b c p, orient_swap a b p, orient_swap c a p] at this
  constructor
  · rintro ⟨h1, h2, h3⟩
    exact this.1 ⟨by linarith, by linarith, by linarith⟩
  · rintro (h | h | h)
    · exact this.2 (Or.inr (Or.inl (by linarith)))
    · exact this.2 (Or.inl (by linarith))
    · exact this.2 (Or.inr (Or.inr (by linarith)))

/-- **Any non-degenerate triangle, either orientation**: `true` where all three orientation
determinants have the sign of the triangle's own, `false` where one has the opposite sign. -/
theorem pnpoly_triangle (a b c p : Pt α) (hD : orient a b c ≠ 0) :
    ((0 < orient a b c * orient a b p ∧ 0 < orient a b c * orient b c p ∧ 0 < orient a b c * orient c a p) →
        pnpoly [a, b, c] p = true) ∧
    ((orient a b c * orient a b p < 0 ∨ orient a b c * orient b c p < 0 ∨ orient a b c * orient c a p < 0) →
        pnpoly [a, b, c] p = false) := by
  rcases lt_or_gt_of_ne hD with hneg | hpos
  · have := pnpoly_triangle_cw a b c p hneg
    constructor
    · rintro ⟨h1, h2, h3⟩
      exact this.1 ⟨by nlinarith, by nlinarith, by nlinarith⟩
    · rintro (h | h | h)
      · exact this.2 (Or.inl (by nlinarith))
      · exact this.2 (Or.inr (Or.inl (by nlinarith)))
      · exact this.2 (Or.inr (Or.inr (by nlinarith)))
  · have := pnpoly_triangle_ccw a b c p hpos
    unfold triInside triOutside at this
    constructor
    · rintro ⟨h1, h2, h3⟩
      exact this.1 ⟨by nlinarith, by nlinarith, by nlinarith⟩
    · rintro (h | h | h)
      · exact this.2 (Or.inl (by nlinarith))
      · exact this.2 (Or.inr (Or.inl (by nlinarith)))
      · exact this.2 (Or.inr (Or.inr (by nlinarith)))

/-! ### what the sign conditions mean: convex combinations of the vertices -/

/-- `triInside` is the OPEN triangle: the strict convex combinations of the three vertices. -/
theorem triInside_iff_bary (a b c p : Pt α) (hD : 0 < orient a b c) :
    triInside a b c p ↔ ∃ wa wb wc : α, 0 < wa ∧ 0 < wb ∧ 0 < wc ∧ wa + wb + wc = 1 ∧
      p.x = wa * a.x + wb * b.x + wc * c.x ∧ p.y = wa * a.y + wb * b.y + wc * c.y := by
  have hD' := ne_of_gt hD
  constructor
  · rintro ⟨hc, ha, hb⟩
    refine ⟨orient b c p / orient a b c, orient c a p / orient a b c, orient a b p / orient a b c,
      div_pos ha hD, div_pos hb hD, div_pos hc hD, ?_, ?_, ?_⟩
    · rw [← add_div, ← add_div, div_eq_one_iff_eq hD']
      have := orient_sum a b c p; linarith
    · field_simp; unfold orient; ring
    · field_simp; unfold orient; ring
  · rintro ⟨wa, wb, wc, ha, hb, hc, hs, hx, hy⟩
    have e1 : orient a b p = wc * orient a b c := by
      unfold orient; rw [hx, hy, show wa = 1 - wb - wc by linarith]; ring
    have e2 : orient b c p = wa * orient a b c := by
      unfold orient; rw [hx, hy, show wc = 1 - wa - wb by linarith]; ring
    have e3 : orient c a p = wb * orient a b c := by
      unfold orient; rw [hx, hy, show wa = 1 - wb - wc by linarith]; ring
    exact ⟨by rw [e1]; positivity, by rw [e2]; positivity, by rw [e3]; positivity⟩

/-- `triOutside` is the complement of the CLOSED triangle. -/
theorem triOutside_iff_not_bary (a b c p : Pt α) (hD : 0 < orient a b c) :
    triOutside a b c p ↔ ¬ ∃ wa wb wc : α, 0 ≤ wa ∧ 0 ≤ wb ∧ 0 ≤ wc ∧ wa + wb + wc = 1 ∧
      p.x = wa * a.x + wb * b.x + wc * c.x ∧ p.y = wa * a.y + wb * b.y + wc * c.y := by
  have hD' := ne_of_gt hD
  constructor
  · rintro hout ⟨wa, wb, wc, ha, hb, hc, hs, hx, hy⟩
    have e1 : orient a b p = wc * orient a b c := by
      unfold orient; rw [hx, hy, show wa = 1 - wb - wc by linarith]; ring
    have e2 : orient b c p = wa * orient a b c := by
      unfold orient; rw [hx, hy, show wc = 1 - wa - wb by linarith]; ring
    have e3 : orient c a p = wb * orient a b c := by
      unfold orient; rw [hx, hy, show wa = 1 - wb - wc by linarith]; ring
    rcases hout with h | h | h
    · rw [e1] at h; nlinarith [mul_nonneg hc (le_of_lt hD)]
    · rw [e2] at h; nlinarith [mul_nonneg ha (le_of_lt hD)]
    · rw [e3] at h; nlinarith [mul_nonneg hb (le_of_lt hD)]
  · intro hno
    by_contra hin
    unfold triOutside at hin
    rw [not_or, not_or, not_lt, not_lt, not_lt] at hin
    apply hno
    refine ⟨orient b c p / orient a b c, orient c a p / orient a b c, orient a b p / orient a b c,
      div_nonneg hin.2.1 (le_of_lt hD), div_nonneg hin.2.2 (le_of_lt hD), div_nonneg hin.1 (le_of_lt hD), ?_, ?_, ?_⟩
    · rw [← add_div, ← add_div, div_eq_one_iff_eq hD']
      have := orient_sum a b c p; linarith
    · field_simp; unfold orient; ring
    · field_simp; unfold orient; ring

/-! ### rigid motions (C15): the orientation determinant is rotation invariant -/

theorem orient_rotate (u v p o : Pt α) (d : Dir α) (hd : d.c ^ 2 + d.s ^ 2 = 1) :
    orient (u.rotate o d) (v.rotate o d) (p.rotate o d) = orient u v p := by
  unfold orient Pt.rotate
  simp only
  linear_combination ((v.x - u.x) * (p.y - u.y) - (v.y - u.y) * (p.x - u.x)) * hd

/-- a rotated triangle answers at the rotated position what the original answers at the original
one, for every position strictly inside or strictly outside. -/
theorem pnpoly_triangle_rotate (a b c p o : Pt α) (d : Dir α) (hd : d.c ^ 2 + d.s ^ 2 = 1)
    (hD : orient a b c ≠ 0)
    (hside : (0 < orient a b c * orient a b p ∧ 0 < orient a b c * orient b c p ∧ 0 < orient a b c * orient c a p) ∨
      (orient a b c * orient a b p < 0 ∨ orient a b c * orient b c p < 0 ∨ orient a b c * orient c a p < 0)) :
    pnpoly ([a, b, c].map fun v => v.rotate o d) (p.rotate o d) = pnpoly [a, b, c] p := by
  simp only [List.map]
  have hD' : orient (a.rotate o d) (b.rotate o d) (c.rotate o d) ≠ 0 := by rw [orient_rotate _ _ _ _ _ hd]; exact hD
  have t1 := pnpoly_triangle a b c p hD
  have t2 := pnpoly_triangle (a.rotate o d) (b.rotate o d) (c.rotate o d) (p.rotate o d) hD'
  simp only [orient_rotate _ _ _ _ _ hd] at t2
  rcases hside with h | h
  · rw [t1.1 h, t2.1 h]
  · rw [t1.2 h, t2.2 h]

end field

/-! ### non-vacuity -/

example : pnpoly [(⟨0, 0⟩ : Pt ℚ), ⟨4, 0⟩, ⟨0, 4⟩] ⟨1, 1⟩ = true ∧
    triInside (⟨0, 0⟩ : Pt ℚ) ⟨4, 0⟩ ⟨0, 4⟩ ⟨1, 1⟩ ∧ 0 < orient (⟨0, 0⟩ : Pt ℚ) ⟨4, 0⟩ ⟨0, 4⟩ := by
  unfold triInside orient; decide +kernel
example : pnpoly [(⟨0, 0⟩ : Pt ℚ), ⟨4, 0⟩, ⟨0, 4⟩] ⟨3, 3⟩ = false ∧
    triOutside (⟨0, 0⟩ : Pt ℚ) ⟨4, 0⟩ ⟨0, 4⟩ ⟨3, 3⟩ := by
  unfold triOutside orient; decide +kernel

end RegionsVerif.Props.C01
