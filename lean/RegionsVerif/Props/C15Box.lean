/-
C15 (translation by whole pixels): the bounding box of ANY region expression moves by exactly
the translation vector.  (That the mask array is unchanged is `C02.mask_shift`.)
-/
import RegionsVerif.Props.C15

namespace RegionsVerif.Props.C15
open RegionsVerif.Impl RegionsVerif.Props

/-- a box moved by whole pixels. -/
def BBox.shift (b : BBox) (kx ky : Int) : BBox := ⟨b.ixmin + kx, b.ixmax + kx, b.iymin + ky, b.iymax + ky⟩

def shiftEx (kx ky : Int) : Except BBoxErr BBox → Except BBoxErr BBox
  | .ok b => .ok (BBox.shift b kx ky)
  | .error e => .error e

theorem mk?_shift (a b c d kx ky : Int) :
    BBox.mk? (a + kx) (b + kx) (c + ky) (d + ky) = shiftEx kx ky (BBox.mk? a b c d) := by
  unfold BBox.mk? BBox.mkChecked shiftEx
  by_cases h1 : a > b <;> by_cases h2 : c > d
  · have : a + kx > b + kx := by omega
    simp [h1, this]
  · have : a + kx > b + kx := by omega
    simp [h1, this]
  · have h1' : ¬ a + kx > b + kx := by omega
    have h2' : c + ky > d + ky := by omega
    simp [h1, h2, h1', h2']
  · have h1' : ¬ a + kx > b + kx := by omega
    have h2' : ¬ c + ky > d + ky := by omega
    simp [h1, h2, h1', h2', BBox.shift]

theorem extent_shift (e : ℚ × ℚ × ℚ × ℚ) (kx ky : Int) :
    bboxOfExtent (e.1 + kx, e.2.1 + kx, e.2.2.1 + ky, e.2.2.2 + ky) = shiftEx kx ky (bboxOfExtent e) := by
  unfold bboxOfExtent BBox.fromFloat
  simp only
  rw [(C19.fromFloat_translate e.1 kx).1, (C19.fromFloat_translate e.2.1 kx).2,
      (C19.fromFloat_translate e.2.2.1 ky).1, (C19.fromFloat_translate e.2.2.2 ky).2]
  exact mk?_shift _ _ _ _ kx ky

theorem floorSubSqrt_add_int (a D : ℚ) (k : Int) : floorSubSqrt (a + k) D = floorSubSqrt a D + k := by
  unfold floorSubSqrt
  simp only [Int.floor_add_intCast]
  have : a + (k : ℚ) - ((⌊a⌋ + k : Int) : ℚ) = a - ⌊a⌋ := by push_cast; ring
  rw [this]
  split <;> omega

theorem ceilAddSqrt_add_int (a D : ℚ) (k : Int) : ceilAddSqrt (a + k) D = ceilAddSqrt a D + k := by
  unfold ceilAddSqrt
  have : -(a + (k : ℚ)) = -a + ((-k : Int) : ℚ) := by push_cast; ring
  rw [this, floorSubSqrt_add_int]
  omega

theorem foldl_min_shift (f : Pt ℚ → ℚ) (k : ℚ) (vs : List (Pt ℚ)) (g : Pt ℚ → Pt ℚ)
    (hg : ∀ v, f (g v) = f v + k) (m : ℚ) :
    (vs.map g).foldl (fun m q => min m (f q)) (m + k) = vs.foldl (fun m q => min m (f q)) m + k := by
  induction vs generalizing m with
  | nil => rfl
  | cons w ws ih =>
    simp only [List.map_cons, List.foldl_cons, hg]
    rw [min_add_add_right, ih]

theorem foldl_max_shift (f : Pt ℚ → ℚ) (k : ℚ) (vs : List (Pt ℚ)) (g : Pt ℚ → Pt ℚ)
    (hg : ∀ v, f (g v) = f v + k) (m : ℚ) :
    (vs.map g).foldl (fun m q => max m (f q)) (m + k) = vs.foldl (fun m q => max m (f q)) m + k := by
  induction vs generalizing m with
  | nil => rfl
  | cons w ws ih =>
    simp only [List.map_cons, List.foldl_cons, hg]
    rw [max_add_add_right, ih]

theorem union_shift (a b : BBox) (kx ky : Int) :
    BBox.union (BBox.shift a kx ky) (BBox.shift b kx ky) = shiftEx kx ky (BBox.union a b) := by
  unfold BBox.union BBox.shift
  simp only
  rw [min_add_add_right, max_add_add_right, min_add_add_right, max_add_add_right]
  exact mk?_shift _ _ _ _ kx ky

def shiftExtent (e : ℚ × ℚ × ℚ × ℚ) (kx ky : Int) : ℚ × ℚ × ℚ × ℚ :=
  (e.1 + kx, e.2.1 + kx, e.2.2.1 + ky, e.2.2.2 + ky)

theorem extent_shift' (e : ℚ × ℚ × ℚ × ℚ) (kx ky : Int) :
    bboxOfExtent (shiftExtent e kx ky) = shiftEx kx ky (bboxOfExtent e) := extent_shift e kx ky

theorem circle_extent_shift (c : Pt ℚ) (r : ℚ) (kx ky : Int) :
    (Circle.mk (c.shift ⟨kx, ky⟩) r).extent = shiftExtent (Circle.mk c r).extent kx ky := by
  simp only [Circle.extent, Pt.shift, shiftExtent, Prod.mk.injEq]
  refine ⟨?_, ?_, ?_, ?_⟩ <;> ring

theorem rect_extent_shift (c : Pt ℚ) (w h : ℚ) (d : Dir ℚ) (kx ky : Int) :
    (Rect.mk (c.shift ⟨kx, ky⟩) w h d).extent = shiftExtent (Rect.mk c w h d).extent kx ky := by
  simp only [Rect.extent, Rect.halfExtent, Pt.shift, shiftExtent, Prod.mk.injEq]
  refine ⟨?_, ?_, ?_, ?_⟩ <;> ring

theorem ellipse_bbox_shift (c : Pt ℚ) (w h : ℚ) (d : Dir ℚ) (kx ky : Int) :
    (Ellipse.mk (c.shift ⟨kx, ky⟩) w h d).bboxQ = shiftEx kx ky (Ellipse.mk c w h d).bboxQ := by
  simp only [Ellipse.bboxQ, Ellipse.halfExtent2, Pt.shift]
  rw [show c.x + (kx : ℚ) + 1/2 = (c.x + 1/2) + kx by ring,
      show c.y + (ky : ℚ) + 1/2 = (c.y + 1/2) + ky by ring,
      floorSubSqrt_add_int, ceilAddSqrt_add_int, floorSubSqrt_add_int, ceilAddSqrt_add_int]
  exact mk?_shift _ _ _ _ kx ky

theorem polygon_extent_shift (vs : List (Pt ℚ)) (kx ky : Int) :
    (Polygon.mk (vs.map (·.shift ⟨kx, ky⟩))).extent = (Polygon.mk vs).extent.map (shiftExtent · kx ky) := by
  cases vs with
  | nil => rfl
  | cons w ws =>
    simp only [Polygon.extent, List.map_cons, Option.map_some, shiftExtent, Option.some.injEq,
      Prod.mk.injEq]
    refine ⟨?_, ?_, ?_, ?_⟩
    · exact foldl_min_shift (fun q => q.x) kx ws _ (fun v => rfl) w.x
    · exact foldl_max_shift (fun q => q.x) kx ws _ (fun v => rfl) w.x
    · exact foldl_min_shift (fun q => q.y) ky ws _ (fun v => rfl) w.y
    · exact foldl_max_shift (fun q => q.y) ky ws _ (fun v => rfl) w.y

theorem line_extent_shift (a b : Pt ℚ) (kx ky : Int) :
    lineExtent (a.shift ⟨kx, ky⟩) (b.shift ⟨kx, ky⟩) = shiftExtent (lineExtent a b) kx ky := by
  simp only [lineExtent, Pt.shift, shiftExtent, min_add_add_right, max_add_add_right]

theorem point_extent_shift (a : Pt ℚ) (kx ky : Int) :
    pointExtent (a.shift ⟨kx, ky⟩) = shiftExtent (pointExtent a) kx ky := rfl

/-- **translating a region by whole pixels translates its bounding box by the same amount** —
every class, annuli and compounds of any depth. -/
theorem bbox_shift (r : PReg ℚ) (kx ky : Int) :
    (r.shift (⟨(kx : ℚ), (ky : ℚ)⟩ : Pt ℚ)).bbox = shiftEx kx ky r.bbox := by
  induction r with
  | circle c i =>
    show bboxOfExtent (Circle.mk (c.center.shift ⟨kx, ky⟩) c.radius).extent = _
    rw [circle_extent_shift, extent_shift']; rfl
  | ellipse e i => exact ellipse_bbox_shift e.center e.width e.height e.dir kx ky
  | rect c i =>
    show bboxOfExtent (Rect.mk (c.center.shift ⟨kx, ky⟩) c.width c.height c.dir).extent = _
    rw [rect_extent_shift, extent_shift']; rfl
  | polygon g i =>
    show (match (Polygon.mk (g.vertices.map (·.shift ⟨kx, ky⟩))).extent with
          | none => Except.error BBoxErr.valueError
          | some e => bboxOfExtent e) = _
    rw [polygon_extent_shift]
    show _ = shiftEx kx ky (match g.extent with
          | none => Except.error BBoxErr.valueError
          | some e => bboxOfExtent e)
    cases he : g.extent with
    | none => rfl
    | some e => exact extent_shift' e kx ky
  | circleAnnulus c r1 r2 i =>
    show bboxOfExtent (Circle.mk (c.shift ⟨kx, ky⟩) r2).extent = _
    rw [circle_extent_shift, extent_shift']; rfl
  | ellipseAnnulus c w1 h1 w2 h2 dd i => exact ellipse_bbox_shift c w2 h2 dd kx ky
  | rectAnnulus c w1 h1 w2 h2 dd i =>
    show bboxOfExtent (Rect.mk (c.shift ⟨kx, ky⟩) w2 h2 dd).extent = _
    rw [rect_extent_shift, extent_shift']; rfl
  | empty k a b i =>
    cases k
    · show bboxOfExtent (pointExtent (a.shift ⟨kx, ky⟩)) = _
      rw [point_extent_shift, extent_shift']; rfl
    · show bboxOfExtent (lineExtent (a.shift ⟨kx, ky⟩) (b.shift ⟨kx, ky⟩)) = _
      rw [line_extent_shift, extent_shift']; rfl
    · show bboxOfExtent (pointExtent (a.shift ⟨kx, ky⟩)) = _
      rw [point_extent_shift, extent_shift']; rfl
  | compound op r1 r2 i ih1 ih2 =>
    show ((r1.shift (⟨(kx : ℚ), (ky : ℚ)⟩ : Pt ℚ)).bbox >>= fun b1 =>
          (r2.shift (⟨(kx : ℚ), (ky : ℚ)⟩ : Pt ℚ)).bbox >>= fun b2 => BBox.union b1 b2) = _
    rw [ih1, ih2]
    show _ = shiftEx kx ky (r1.bbox >>= fun b1 => r2.bbox >>= fun b2 => BBox.union b1 b2)
    cases h1 : r1.bbox with
    | error e => rfl
    | ok b1 =>
      cases h2 : r2.bbox with
      | error e => rfl
      | ok b2 => exact union_shift b1 b2 kx ky

end RegionsVerif.Props.C15
